(* C01 over reachable objects: witnesses (vm_compute).  Which conjunct of the side conditions fails on which
   reachable object, and that the conditions of Model/C01Reach.v exclude exactly these histories. *)
From Coq Require Import ZArith List Bool.
From BP Require Import Base.Prelude Model.Types Model.Object Model.Eq Model.Encode Model.Decode Model.WellFormed.
From BP Require Import Model.History Model.C07Ops Model.C01Def Model.C01Reach.
Import ListNotations.
Open Scope Z_scope.

(* M { A a = 1; oneof g { int32 x = 2; string y = 3; B s = 4; } optional B o = 5; }   A { B b = 1; }   B { int32 x = 1; } *)
Definition w_sc : schema :=
  mkS (builtin_classes ++
       [mkC [mkF [x61] 1 TMessage None None None false (HPlain (PyMsg 12)) 0;
             mkF [x78] 2 TInt32 None (Some 0%nat) None false (HPlain PyInt) 0;
             mkF [x79] 3 TString None (Some 0%nat) None false (HPlain PyStr) 0;
             mkF [x73] 4 TMessage None (Some 0%nat) None false (HPlain (PyMsg 13)) 0;
             mkF [x6f] 5 TMessage None None None true (HOptional (PyMsg 13)) 0] 1;
        mkC [mkF [x62] 1 TMessage None None None false (HPlain (PyMsg 13)) 0] 0;
        mkC [mkF [x78] 1 TInt32 None None None false (HPlain PyInt) 0] 0]) [].

Lemma w_sc_ok : c01_schema_ok w_sc = true.
Proof. vm_compute. reflexivity. Qed.


Definition final (sc : schema) (c : nat) (ops : list op7) : obj :=
  match run7 sc (new sc c) ops with Ok o => o | Err _ => new sc c end.
Definition rt (sc : schema) (m : obj) : obj :=
  match enc_obj sc m with Ok bs => match parse sc (ocls m) bs with Ok m' => m' | Err _ => m end | Err _ => m end.

(* ---- M(x=5, y="x"): the dataclass __init__ resets no sibling; the hidden x = 5 stays in the raw state, is not
        serialised, and == fails after the round trip (in both directions) ---- *)
Definition w_two : list (nat * pv) := [(1%nat, PInt 5); (2%nat, PStr [x78])].

Lemma constructor_two_members_refuted :
  exists sc c kw m bs m',
    c01_schema_ok sc = true /\ kw_vals_ok sc c kw = true /\ kw_flags_ok sc c kw = true /\ kw_groups_ok sc c kw = false /\
    run7 sc (new sc c) [OConstruct kw] = Ok m /\
    oneof_clean sc m = false /\ c01_value_ok sc m = false /\
    enc_obj sc m = Ok bs /\ parse sc c bs = Ok m' /\ obj_eq sc m m' = false /\ obj_eq sc m' m = false.
Proof.
  exists w_sc, 11%nat, w_two, (construct w_sc 11 w_two), [x1a; x01; x78], (rt w_sc (construct w_sc 11 w_two)).
  vm_compute. repeat split; reflexivity.
Qed.

(* ---- M(s=B()) / M(o=B()): an all-default sub-message handed to the constructor as a oneof member / optional field
        has its flag down; every value condition holds, sow_ok does not, and serialized_on_wire of the attribute
        differs after the round trip ---- *)
Lemma sow_constructor_refuted :
  exists sc c kw m,
    c01_schema_ok sc = true /\ hist_ok op_value_ok sc (new sc c) [OConstruct kw] = true /\
    kw_flags_ok sc c kw = false /\
    run7 sc (new sc c) [OConstruct kw] = Ok m /\
    c01_value_ok sc m = true /\ sow_ok sc m = false /\ obs_top sc m (norm_obj sc m) = false.
Proof.
  exists w_sc, 11%nat, [(3%nat, PMsg (new w_sc 13))], (construct w_sc 11 [(3%nat, PMsg (new w_sc 13))]).
  vm_compute. repeat split; reflexivity.
Qed.

Lemma sow_constructor_optional_refuted :
  exists sc c kw m,
    c01_schema_ok sc = true /\ hist_ok op_value_ok sc (new sc c) [OConstruct kw] = true /\
    kw_flags_ok sc c kw = false /\
    run7 sc (new sc c) [OConstruct kw] = Ok m /\
    c01_value_ok sc m = true /\ sow_ok sc m = false /\ obs_top sc m (norm_obj sc m) = false.
Proof.
  exists w_sc, 11%nat, [(4%nat, PMsg (new w_sc 13))], (construct w_sc 11 [(4%nat, PMsg (new w_sc 13))]).
  vm_compute. repeat split; reflexivity.
Qed.

(* ---- K12: m = M(); m.a (read: lazily created, flag down); m.a.b.x = z.
        z = 0 (a default): every hypothesis of C01_roundtrip holds (sow_ok even at every depth) and so does its
        conclusion, which speaks about the attributes of m itself - but nothing is serialised, and
        serialized_on_wire(m.a.b) is True before and False after the round trip.
        z = 5: m.a is serialised with its flag down: sow_ok fails and serialized_on_wire(m.a) differs.
        Both histories satisfy the value condition and fail set_flags_ok (the holder m.a has its flag down). ---- *)
Definition w_lazy (z : Z) : list op7 := [OBase (OGet [] 0); OBase (OSet [0%nat; 0%nat] 0 (PInt z))].

Lemma lazy_intermediate_refuted :
  exists sc c ops m m',
    c01_schema_ok sc = true /\ hist_ok op_value_ok sc (new sc c) ops = true /\ hist_ok op_reach_ok sc (new sc c) ops = false /\
    run7 sc (new sc c) ops = Ok m /\
    c01_value_ok sc m = true /\ deep (sow_ok sc) (PMsg m) = true /\
    enc_obj sc m = Ok [] /\ parse sc c [] = Ok m' /\ obj_eq sc m m' = true /\ obs_top sc m m' = true /\
    res_flag (snd (get_in sc m [0%nat] 0)) = true /\ res_flag (snd (get_in sc m' [0%nat] 0)) = false.
Proof.
  exists w_sc, 11%nat, (w_lazy 0), (final w_sc 11 (w_lazy 0)), (rt w_sc (final w_sc 11 (w_lazy 0))).
  vm_compute. repeat split; reflexivity.
Qed.

Lemma lazy_intermediate_nondefault_refuted :
  exists sc c ops m,
    c01_schema_ok sc = true /\ hist_ok op_value_ok sc (new sc c) ops = true /\ hist_ok op_reach_ok sc (new sc c) ops = false /\
    run7 sc (new sc c) ops = Ok m /\
    c01_value_ok sc m = true /\ sow_ok sc m = false /\ obs_top sc m (norm_obj sc m) = false.
Proof.
  exists w_sc, 11%nat, (w_lazy 5), (final w_sc 11 (w_lazy 5)). vm_compute. repeat split; reflexivity.
Qed.

(* the same assignment after the holder was flagged (m.a.b = B() first) is fine *)
Lemma lazy_intermediate_flagged_ok :
  hist_ok op_reach_ok w_sc (new w_sc 11)
    [OBase (OGet [] 0); OBase (OSet [0%nat] 0 (PMsg (new w_sc 13))); OBase (OSet [0%nat; 0%nat] 0 (PInt 0))] = true.
Proof. vm_compute. reflexivity. Qed.

(* ---- m.parse(bytes) is not discharged: arbitrary bytes leave the side conditions (here: an unknown field) ---- *)
Definition w_unk : list byte := [x38; x01].
Lemma parse_leaves_value_ok_refuted :
  exists sc c bs m,
    c01_schema_ok sc = true /\
    run7 sc (new sc c) [OBase (OParse bs)] = Ok m /\ no_unknown m = false /\ c01_value_ok sc m = false.
Proof.
  exists w_sc, 13%nat, w_unk, (final w_sc 13 [OBase (OParse w_unk)]).
  vm_compute. repeat split; reflexivity.
Qed.
