(* C17: the Timestamp / Duration leaf of [valid] without the decoder.  For the bundled two-int classes
   (seconds = 1 : int64, nanos = 2 : int32; layout regenerated in gen/Tables.v) the numbers parse reads are
   the sign-recovered values of the LAST varint record of field 1 and of field 2 ([last_varint], a relation
   over the record specification only), 0 when there is none. *)
From BP Require Import Base.Prelude Model.Types Model.Varint Model.Scalar Model.Utf8.
From BP Require Import Model.Object Model.TimeCore Model.Decode Model.WellFormed Spec.Varint.
From BP Require Import Model.C17Typed Model.C17Wire Model.C17Step Model.C17Nested Model.C17NestedTime.
From BP Require Import Proofs.BytesP Proofs.VarintP Proofs.C17FieldP Proofs.C17StepP Proofs.C17FrameP Proofs.C17ComposeP.
From BP Require Import Proofs.C17NestedP Proofs.C17NestedAcceptP.
From BP Require Import gen.Tables.
From Coq Require Import ZifyBool.
Ltac Zify.zify_post_hook ::= Z.to_euclidean_division_equations.

Definition cd2 : cdesc := class_of_layout timestamp_fields.
Definition f_sec : fdesc := plain_field [x73; x65; x63; x6f; x6e; x64; x73] 1 TInt64.
Definition f_nan : fdesc := plain_field [x6e; x61; x6e; x6f; x73] 2 TInt32.

Lemma cd2_fields : cfields cd2 = [f_sec; f_nan].
Proof. reflexivity. Qed.

Lemma duration_same : class_of_layout duration_fields = cd2.
Proof. reflexivity. Qed.

Lemma fbn_cd2 n :
  field_by_number cd2 n = if n =? 2 then Some (1%nat, f_nan) else if n =? 1 then Some (0%nat, f_sec) else None.
Proof.
  unfold field_by_number. rewrite cd2_fields. cbn [fnum f_sec f_nan plain_field].
  rewrite (Z.eqb_sym 2 n), (Z.eqb_sym 1 n). destruct (n =? 2), (n =? 1); reflexivity.
Qed.

Lemma fits_int n k t wt : tmem t WIRE_VARINT_TYPES = true -> t <> TBool ->
  tmem t WIRE_FIXED_32_TYPES = false -> tmem t WIRE_FIXED_64_TYPES = false -> tmem t WIRE_LEN_DELIM_TYPES = false ->
  wire_type_fits (plain_field n k t) wt = (wt =? 0).
Proof.
  intros H0 _ H5 H1 H2. unfold wire_type_fits, WIRE_VARINT, WIRE_FIXED_32, WIRE_FIXED_64, WIRE_LEN_DELIM.
  cbn [fty fhint plain_field]. rewrite H0, H5, H1, H2.
  destruct (wt =? 0), (wt =? 5), (wt =? 1), (wt =? 2); try reflexivity.
  all: destruct (tmem t PACKED_TYPES); reflexivity.
Qed.

Definition slot_ok (a : pv) : Prop := a = PPlaceholder \/ exists z, a = PInt z.
Definition slot_val (a : pv) : Z := match a with PInt z => z | _ => 0 end.

Section Two.
  Variable sc : schema.
  Variable c : nat.
  Hypothesis Hcd : get_class sc c = cd2.
  Variable pn : nat -> list byte -> result obj.

  Lemma decode_int n k t p :
    pwt p =? 0 = true -> decode_value sc pn (plain_field n k t) p = Ok (postprocess_varint t (pint p)).
  Proof.
    intros W0. unfold decode_value, WIRE_LEN_DELIM, WIRE_VARINT. rewrite W0.
    replace (pwt p =? 2) with false by lia. reflexivity.
  Qed.

  Lemma setattr_slot0 a b sow unk cur v :
    setattr sc (Obj c [a; b] sow unk cur) 0 (PInt v) = Obj c [PInt v; b] true unk cur.
  Proof. unfold setattr. rewrite Hcd, cd2_fields. reflexivity. Qed.

  Lemma setattr_slot1 a b sow unk cur v :
    setattr sc (Obj c [a; b] sow unk cur) 1 (PInt v) = Obj c [a; PInt v] true unk cur.
  Proof. unfold setattr. rewrite Hcd, cd2_fields. reflexivity. Qed.

  Lemma store_slot0 a b sow unk cur v :
    slot_ok a -> store_value sc (Obj c [a; b] sow unk cur) 0 f_sec (PInt v) = Ok (Obj c [PInt v; b] true unk cur).
  Proof.
    intros Ia. unfold store_value, fetch_current, getattr. rewrite Hcd, cd2_fields.
    cbn [nth_error nth group_selects fgroup f_sec plain_field].
    destruct Ia as [->|[z ->]]; cbn [default_of fhint f_sec plain_field plain_pyty set_nth fty ptype_eqb ptype_tag Z.eqb];
      apply f_equal; apply setattr_slot0.
  Qed.

  Lemma store_slot1 a b sow unk cur v :
    slot_ok b -> store_value sc (Obj c [a; b] sow unk cur) 1 f_nan (PInt v) = Ok (Obj c [a; PInt v] true unk cur).
  Proof.
    intros Ib. unfold store_value, fetch_current, getattr. rewrite Hcd, cd2_fields.
    cbn [nth_error nth group_selects fgroup f_nan plain_field].
    destruct Ib as [->|[z ->]]; cbn [default_of fhint f_nan plain_field plain_pyty set_nth fty ptype_eqb ptype_tag Z.eqb];
      apply f_equal; apply setattr_slot1.
  Qed.

  Lemma ts_apply a b sow unk cur p :
    slot_ok a -> slot_ok b ->
    exists a' b' sow' unk',
      apply_field sc pn cd2 (Obj c [a; b] sow unk cur) p = Ok (Obj c [a'; b'] sow' unk' cur) /\
      slot_ok a' /\ slot_ok b' /\
      slot_val a' = (if (pnum p =? 1) && (pwt p =? 0) then sign_recover 64 (pint p) else slot_val a) /\
      slot_val b' = (if (pnum p =? 2) && (pwt p =? 0) then sign_recover 32 (pint p) else slot_val b).
  Proof.
    intros Ia Ib. unfold apply_field. rewrite fbn_cd2.
    destruct (pnum p =? 2) eqn:N2.
    { assert (N1 : pnum p =? 1 = false) by lia. rewrite N1. cbn [andb].
      unfold f_nan at 1. rewrite fits_int by (reflexivity || discriminate).
      destruct (pwt p =? 0) eqn:W0; cbn [negb].
      - unfold f_nan at 1. rewrite decode_int by exact W0. cbn [bind postprocess_varint ptype_eqb ptype_tag Z.eqb Pos.eqb].
        rewrite store_slot1 by exact Ib. exists a, (PInt (sign_recover 32 (pint p))), true, unk.
        split; [reflexivity|]. split; [exact Ia|]. split; [right; eauto|]. split; reflexivity.
      - exists a, b, sow, (unk ++ praw p). split; [reflexivity|]. cbn [andb]. tauto. }
    destruct (pnum p =? 1) eqn:N1; cbn [andb].
    { unfold f_sec at 1. rewrite fits_int by (reflexivity || discriminate).
      destruct (pwt p =? 0) eqn:W0; cbn [negb].
      - unfold f_sec at 1. rewrite decode_int by exact W0. cbn [bind postprocess_varint ptype_eqb ptype_tag Z.eqb Pos.eqb].
        rewrite store_slot0 by exact Ia. exists (PInt (sign_recover 64 (pint p))), b, true, unk.
        split; [reflexivity|]. split; [right; eauto|]. split; [exact Ib|]. split; reflexivity.
      - exists a, b, sow, (unk ++ praw p). split; [reflexivity|]. tauto. }
    exists a, b, sow, (unk ++ praw p). split; [reflexivity|]. tauto.
  Qed.
End Two.

Definition sel (num : Z) (a b : pv) : pv := if num =? 1 then a else b.
Definition srn (num : Z) : Z -> Z := if num =? 1 then sign_recover 64 else sign_recover 32.

Lemma VarintRep_fun v w bs : VarintRep v bs -> VarintRep w bs -> v = w.
Proof. intros (_ & <- & _) (_ & <- & _). reflexivity. Qed.

Section TwoLoop.
  Variable sc : schema.
  Variable c : nat.
  Hypothesis Hcd : get_class sc c = cd2.
  Variable L : nat.
  Notation pn := (pn_of L sc).
  Notation loop := (loop_r sc (pn_of L sc) (load_field L) None (get_class sc c)).

  Lemma loop_step_full' nw tag pl rest n o read :
    VarintRep nw tag -> wpayload nw pl -> (length (tag ++ pl ++ rest) <= L)%nat ->
    exists p, field_ok nw tag (pl ++ rest) p rest /\
      loop (S n) o (tag ++ pl ++ rest) read =
      (do o' <- apply_field sc pn (get_class sc c) o p; loop n o' rest read).
  Proof.
    intros Rt Wp Hf. pose proof (VarintRep_nonempty _ _ Rt) as Ht. rewrite !app_length in Hf.
    destruct (load_field_complete nw pl L rest tag Wp) as (p & Hp & Hok). { rewrite app_length. lia. }
    exists p. split; [exact Hok|]. cbn [loop_r].
    destruct (tag ++ pl ++ rest) as [|b s] eqn:Es. { destruct tag; [cbn in Ht; lia | discriminate]. }
    rewrite <- Es. rewrite (load_varint_rep _ _ _ Rt). cbn [bind]. rewrite Hp. cbn [bind account finished].
    reflexivity.
  Qed.

  Lemma ts_apply_sel num a b sow unk cur p :
    num = 1 \/ num = 2 -> slot_ok a -> slot_ok b ->
    exists a' b' sow' unk',
      apply_field sc pn (get_class sc c) (Obj c [a; b] sow unk cur) p = Ok (Obj c [a'; b'] sow' unk' cur) /\
      slot_ok a' /\ slot_ok b' /\
      slot_val (sel num a' b') =
      (if (pnum p =? num) && (pwt p =? 0) then srn num (pint p) else slot_val (sel num a b)).
  Proof.
    intros Hnum Ia Ib. rewrite Hcd.
    destruct (ts_apply sc c Hcd pn a b sow unk cur p Ia Ib) as (a' & b' & sow' & unk' & E & Ia' & Ib' & Va & Vb).
    exists a', b', sow', unk'. split; [exact E|]. split; [exact Ia'|]. split; [exact Ib'|].
    destruct Hnum as [-> | ->]; unfold sel, srn; cbn [Z.eqb Pos.eqb]; assumption.
  Qed.

  Lemma loop_last num bs z z' :
    num = 1 \/ num = 2 -> last_varint num bs z z' ->
    forall n a b sow unk cur read,
      (length bs < n)%nat -> (length bs <= L)%nat -> slot_ok a -> slot_ok b ->
      slot_val (sel num a b) = srn num z ->
      exists a' b' sow' unk',
        loop n (Obj c [a; b] sow unk cur) bs read = Ok (Obj c [a'; b'] sow' unk' cur, []) /\
        slot_ok a' /\ slot_ok b' /\ slot_val (sel num a' b') = srn num z'.
  Proof.
    intros Hnum H.
    induction H as [z | nw tag v vb rs z z' Rt Tn Tw Rv Hrs IH | nw tag pl rs z z' Rt Wp Hmiss Hrs IH];
      intros n a b sow unk cur read Hl HL Ia Ib Hv.
    - destruct n as [|n]; [cbn in Hl; lia|]. cbn [loop_r]. exists a, b, sow, unk. tauto.
    - destruct n as [|n]; [lia|].
      assert (Wp : wpayload nw vb) by (apply (PVarint nw v vb); [destruct Hnum; lia | exact Tw | exact Rv]).
      destruct (loop_step_full' nw tag vb rs n (Obj c [a; b] sow unk cur) read Rt Wp HL) as (p & Hok & ->).
      destruct Hok as (pl0 & Es & _ & _ & Hpn & Hpw & _ & _ & H0 & _).
      apply app_inv_tail in Es. subst pl0.
      assert (pint p = v) by (eapply VarintRep_fun; [apply H0; exact Tw | exact Rv]).
      destruct (ts_apply_sel num a b sow unk cur p Hnum Ia Ib) as (a1 & b1 & sow1 & unk1 & -> & Ia1 & Ib1 & V1).
      cbn [bind]. rewrite Hpn, Hpw, Tn, Tw, Z.eqb_refl in V1. cbn [Z.eqb andb] in V1.
      pose proof (VarintRep_nonempty _ _ Rt). rewrite !app_length in Hl, HL.
      apply IH; try assumption; try lia; try congruence.
    - destruct n as [|n]; [lia|].
      destruct (loop_step_full' nw tag pl rs n (Obj c [a; b] sow unk cur) read Rt Wp HL) as (p & Hok & ->).
      destruct Hok as (pl0 & Es & _ & _ & Hpn & Hpw & _).
      destruct (ts_apply_sel num a b sow unk cur p Hnum Ia Ib) as (a1 & b1 & sow1 & unk1 & -> & Ia1 & Ib1 & V1).
      cbn [bind]. rewrite Hpn, Hpw in V1.
      replace ((tag_num nw =? num) && (tag_wt nw =? 0)) with false in V1 by lia.
      pose proof (VarintRep_nonempty _ _ Rt). rewrite !app_length in Hl, HL.
      apply IH; try assumption; try lia; try congruence.
  Qed.
End TwoLoop.

Lemma read_slot0 sc c a b sow unk cur :
  get_class sc c = cd2 -> slot_ok a -> read sc (Obj c [a; b] sow unk cur) 0 = Ok (PInt (slot_val a)).
Proof.
  intros Hcd Ia. unfold read, getattr. rewrite Hcd, cd2_fields.
  cbn [nth_error nth group_selects fgroup f_sec plain_field]. destruct Ia as [->|[z ->]]; reflexivity.
Qed.

Lemma read_slot1 sc c a b sow unk cur :
  get_class sc c = cd2 -> slot_ok b -> read sc (Obj c [a; b] sow unk cur) 1 = Ok (PInt (slot_val b)).
Proof.
  intros Hcd Ib. unfold read, getattr. rewrite Hcd, cd2_fields.
  cbn [nth_error nth group_selects fgroup f_nan plain_field]. destruct Ib as [->|[z ->]]; reflexivity.
Qed.

Theorem time_numbers_spec sc c d s n :
  get_class sc c = cd2 -> last_varint 1 d 0 s -> last_varint 2 d 0 n ->
  time_numbers sc c d = Some (sign_recover 64 s, sign_recover 32 n).
Proof.
  intros Hcd H1 H2. unfold time_numbers. rewrite parse_as_into, parse_into_loop.
  assert (Hnew : mark_on_wire (new sc c) = Obj c [PPlaceholder; PPlaceholder] true [] []).
  { unfold new. rewrite Hcd. reflexivity. }
  rewrite Hnew. change (ocls (new sc c)) with c.
  assert (P : slot_ok PPlaceholder) by (left; reflexivity).
  destruct (loop_last sc c Hcd (length d) 1 d 0 s (or_introl eq_refl) H1 (S (length d)) PPlaceholder PPlaceholder true [] [] 0
              ltac:(lia) ltac:(lia) P P eq_refl) as (a1 & b1 & sow1 & unk1 & E1 & Ia1 & Ib1 & V1).
  destruct (loop_last sc c Hcd (length d) 2 d 0 n (or_intror eq_refl) H2 (S (length d)) PPlaceholder PPlaceholder true [] [] 0
              ltac:(lia) ltac:(lia) P P eq_refl) as (a2 & b2 & sow2 & unk2 & E2 & Ia2 & Ib2 & V2).
  rewrite E1 in E2. injection E2 as <- <- <- <-. rewrite E1. cbn [bind].
  rewrite (read_slot0 sc c a1 b1 sow1 unk1 [] Hcd Ia1), (read_slot1 sc c a1 b1 sow1 unk1 [] Hcd Ib1).
  unfold sel, srn in V1, V2. cbn [Z.eqb Pos.eqb] in V1, V2. rewrite V1, V2. reflexivity.
Qed.

(* the relation is total on strings of complete records *)
Lemma last_varint_total num bs : wrecs bs -> forall z, exists z', last_varint num bs z z'.
Proof.
  intros W. revert W.
  apply (wrecs_mind (fun _ _ => True) (fun bs => forall z, exists z', last_varint num bs z z')); try (intros; exact I).
  - intros z. exists z. constructor.
  - intros nw tag pl rs Rt Wp _ Wr IH z.
    destruct (Z.eq_dec (tag_num nw) num) as [En|En]; [destruct (Z.eq_dec (tag_wt nw) 0) as [Ew|Ew]|].
    + destruct Wp as [nw v vb H1 H2 H3|nw d0 H1 H2 H3|nw lb d Hn Hw' Rl|nw inner enw etag H1 H2 H3 H4 H5 H6|nw d0 H1 H2 H3];
        try lia.
      destruct (IH v) as [z' Hz]. exists z'. eapply LHit; eassumption.
    + destruct (IH z) as [z' Hz]. exists z'. eapply LMiss; eauto.
    + destruct (IH z) as [z' Hz]. exists z'. eapply LMiss; eauto.
Qed.

Lemma builtin_cd2 sc : has_builtins sc -> get_class sc timestamp_cls = cd2 /\ get_class sc duration_cls = cd2.
Proof. intros [user E]. unfold get_class. rewrite E. split; reflexivity. Qed.

(* the Timestamp / Duration leaf of [valid], decoder-free *)
Theorem ts_range_iff sc d :
  wf_schema sc = true -> has_builtins sc -> entries_agree sc = true ->
  (ts_range sc d = true <-> ts_range_spec d).
Proof.
  intros Hwf Hbi Hea. destruct (builtin_cd2 sc Hbi) as [Hts _]. unfold ts_range, ts_range_spec. split.
  - intros H. destruct (time_numbers sc timestamp_cls d) as [[s' n']|] eqn:Et; [|discriminate].
    assert (W : wrecs d).
    { unfold time_numbers in Et. destruct (parse sc timestamp_cls d) as [m|] eqn:Ep; [|discriminate].
      eapply valid_wrecs, (accept_iff sc Hwf Hbi Hea). eauto. }
    destruct (last_varint_total 1 d W 0) as [s Hs]. destruct (last_varint_total 2 d W 0) as [n Hn].
    rewrite (time_numbers_spec sc _ d s n Hts Hs Hn) in Et. injection Et as <- <-. eauto.
  - intros (s & n & Hs & Hn & Hr). rewrite (time_numbers_spec sc _ d s n Hts Hs Hn). exact Hr.
Qed.

Theorem dur_range_iff sc d :
  wf_schema sc = true -> has_builtins sc -> entries_agree sc = true ->
  (dur_range sc d = true <-> dur_range_spec d).
Proof.
  intros Hwf Hbi Hea. destruct (builtin_cd2 sc Hbi) as [_ Hdu]. unfold dur_range, dur_range_spec. split.
  - intros H. destruct (time_numbers sc duration_cls d) as [[s' n']|] eqn:Et; [|discriminate].
    assert (W : wrecs d).
    { unfold time_numbers in Et. destruct (parse sc duration_cls d) as [m|] eqn:Ep; [|discriminate].
      eapply valid_wrecs, (accept_iff sc Hwf Hbi Hea). eauto. }
    destruct (last_varint_total 1 d W 0) as [s Hs]. destruct (last_varint_total 2 d W 0) as [n Hn].
    rewrite (time_numbers_spec sc _ d s n Hdu Hs Hn) in Et. injection Et as <- <-. eauto.
  - intros (s & n & Hs & Hn & Hr). rewrite (time_numbers_spec sc _ d s n Hdu Hs Hn). exact Hr.
Qed.

(* ---------- [valid] = [valid_s] ---------- *)
Section Spec.
  Variable sc : schema.
  Hypothesis Hwf : wf_schema sc = true.
  Hypothesis Hbi : has_builtins sc.
  Hypothesis Hea : entries_agree sc = true.

  Lemma time_range_iff f d : time_range sc f d = true <-> time_range_spec f d.
  Proof.
    unfold time_range, time_range_spec.
    destruct (fty f); try tauto. destruct (hint_elem (fhint f)); try tauto.
    - apply ts_range_iff; assumption.
    - apply dur_range_iff; assumption.
  Qed.

  Lemma content_to_s (V V' : nat -> list byte -> Prop) f d :
    (forall c', V c' d -> V' c' d) -> content sc V f d -> content_s V' f d.
  Proof.
    intros HVV [w Hp Hfw Hm|Hp Hfw Hv|Et Hu|Et|c' Hc Hv Hr].
    - eapply SFixed; eassumption.
    - apply SVarints; assumption.
    - apply SString; assumption.
    - apply SBytes; assumption.
    - apply (SNested _ _ _ c'); [exact Hc | apply HVV, Hv | apply time_range_iff, Hr].
  Qed.

  Lemma content_of_s (V V' : nat -> list byte -> Prop) f d :
    (forall c', V' c' d -> V c' d) -> content_s V' f d -> content sc V f d.
  Proof.
    intros HVV [w Hp Hfw Hm|Hp Hfw Hv|Et Hu|Et|c' Hc Hv Hr].
    - eapply CFixed; eassumption.
    - apply CVarints; assumption.
    - apply CString; assumption.
    - apply CBytes; assumption.
    - apply (CNested _ _ _ _ c'); [exact Hc | apply HVV, Hv | apply time_range_iff, Hr].
  Qed.

  Lemma valid_s_gen : forall N c bs, (length bs < N)%nat -> (valid sc c bs <-> valid_s sc c bs).
  Proof.
    induction N as [|N IHN]; intros c bs Hl; [lia|]. split; intros H; revert Hl.
    - induction H as [c | c nw tag pl rs Rt Wp Hk Hrs IH | c nw tag lb d rs f Rt Hn Hw Rl Hk Hcont Hrs IH]; intros Hl.
      + constructor.
      + rewrite !app_length in Hl. apply (SOther sc c nw); auto. apply IH. lia.
      + pose proof (VarintRep_nonempty _ _ Rt). rewrite !app_length in Hl.
        apply (SLen sc c nw tag lb d rs f); auto; [|apply IH; lia].
        eapply content_to_s; [|exact Hcont]. intros c' Hv. apply IHN; [lia | exact Hv].
    - induction H as [c | c nw tag pl rs Rt Wp Hk Hrs IH | c nw tag lb d rs f Rt Hn Hw Rl Hk Hcont Hrs IH]; intros Hl.
      + constructor.
      + rewrite !app_length in Hl. apply (VOther sc c nw); auto. apply IH. lia.
      + pose proof (VarintRep_nonempty _ _ Rt). rewrite !app_length in Hl.
        apply (VLen sc c nw tag lb d rs f); auto; [|apply IH; lia].
        eapply content_of_s; [|exact Hcont]. intros c' Hv. apply IHN; [lia | exact Hv].
  Qed.

  Theorem valid_s_iff c bs : valid sc c bs <-> valid_s sc c bs.
  Proof. apply (valid_s_gen (S (length bs))). lia. Qed.

  Theorem accept_iff_spec c bs : (exists m, parse sc c bs = Ok m) <-> valid_s sc c bs.
  Proof. rewrite <- valid_s_iff. apply accept_iff; assumption. Qed.
End Spec.

Theorem time_numbers_builtin sc d s n :
  has_builtins sc -> last_varint 1 d 0 s -> last_varint 2 d 0 n ->
  time_numbers sc timestamp_cls d = Some (sign_recover 64 s, sign_recover 32 n) /\
  time_numbers sc duration_cls d = Some (sign_recover 64 s, sign_recover 32 n).
Proof.
  intros Hbi H1 H2. destruct (builtin_cd2 sc Hbi) as [Hts Hdu].
  split; apply time_numbers_spec; assumption.
Qed.

Theorem valid_decidable sc c bs :
  wf_schema sc = true -> has_builtins sc -> entries_agree sc = true -> valid sc c bs \/ ~ valid sc c bs.
Proof.
  intros Hwf Hbi Hea. destruct (parse sc c bs) as [m|e] eqn:E.
  - left. apply (accept_iff sc Hwf Hbi Hea). eauto.
  - right. intros V. apply (accept_iff sc Hwf Hbi Hea) in V. destruct V as [m Hm]. congruence.
Qed.
