(* C01 over reachable objects, part 6: every operation of [step7] keeps [VGood] / [SGood] under the conditions of
   Model/C01Reach.v; histories; the round-trip corollary. *)
From Coq Require Import ZArith List Bool Lia Arith.
From BP Require Import Base.Prelude Model.Types Model.Object Model.Eq Model.Encode Model.Decode Model.WellFormed.
From BP Require Import Model.History Model.C07Ops Model.C01Def Model.C01Reach.
From BP Require Import Proofs.C01Unfold Proofs.C01Main Proofs.C01Final Proofs.C07InvP Proofs.C07ObsP Proofs.C07HistP Proofs.C07ValP.
From BP Require Import Proofs.C01ReachBase Proofs.C01ReachNew Proofs.C01ReachOps Proofs.C01ReachObs Proofs.C01ReachSow
     Proofs.C01ReachSow2 Proofs.C01ReachNorm.
Import ListNotations.

Lemma schema_wf sc : c01_schema_ok sc = true -> wf_schema sc = true.
Proof. unfold c01_schema_ok. intros H. apply andb_true_iff in H as [H _]. apply andb_true_iff in H as [H _]. exact H. Qed.

(* pickle: the unpickled object is norm_obj of the pickled one *)
Lemma pickle_is_norm sc o o' :
  c01_schema_ok sc = true -> VGood sc o -> pickle_small sc o = true -> pickle_rt sc o = Ok o' -> o' = norm_obj sc o.
Proof.
  intros Hs H Hsm E. apply vgood_iff in H. destruct (c01_roundtrip sc o Hs H) as (bs & Eb & Hrest).
  unfold pickle_small in Hsm. unfold pickle_rt in E. rewrite Eb in *. cbn [bind] in E.
  apply Z.ltb_lt in Hsm. destruct (Hrest Hsm) as (m' & Hp & -> & _). congruence.
Qed.

(* ---------- one operation: c01_value_ok ---------- *)
Lemma step7_vgood sc o p o' x :
  c01_schema_ok sc = true -> VGood sc o -> op_value_ok sc o p = true -> step7 sc o p = Ok (o', x) -> VGood sc o'.
Proof.
  intros Hs H Hok E. pose proof (schema_wf sc Hs) as Hwf. destruct p as [p|kw|kw|kw]; cbn [step7] in E.
  - destruct p as [path i v|path i|bs| | | | | |d|other|].
    + cbn [op_value_ok] in Hok. cbn [History.step] in E.
      destruct (set_in sc o path i v) as [o1|] eqn:Es; cbn [bind] in E; [|discriminate]. injection E as <- _.
      eapply vgood_set_in; eauto.
    + cbn [History.step] in E. pose proof (vgood_get_in sc Hwf path o i H) as HG.
      destruct (get_in sc o path i) as [o1 r]. injection E as <- _. exact HG.
    + cbn [op_value_ok] in Hok. unfold post_value_ok in Hok. cbn [step7] in Hok. rewrite E in Hok.
      apply vgood_iff. exact Hok.
    + cbn [History.step] in E. injection E as <- _. apply vgood_copy; auto.
    + cbn [History.step] in E. injection E as <- _. apply vgood_deepcopy; auto.
    + cbn [op_value_ok] in Hok. cbn [History.step] in E.
      destruct (pickle_rt sc o) as [o1|] eqn:Ep; cbn [bind] in E; [|discriminate]. injection E as <- _.
      rewrite (pickle_is_norm sc o o1 Hs H Hok Ep). apply vgood_norm; auto.
    + cbn [History.step] in E. destruct (enc_obj sc o); cbn [bind] in E; [|discriminate]. injection E as <- _. apply vgood_touch; auto.
    + cbn [History.step] in E. destruct (enc_obj sc o); cbn [bind] in E; [|discriminate]. injection E as <- _. apply vgood_touch; auto.
    + cbn [History.step] in E. destruct (enc_obj sc o); cbn [bind] in E; [|discriminate]. injection E as <- _. apply vgood_touch; auto.
    + cbn [History.step] in E. injection E as <- _. exact H.
    + cbn [History.step] in E. injection E as <- _. exact H.
  - cbn [op_value_ok] in Hok. apply andb_true_iff in Hok as [H1 H2]. injection E as <- _. apply vgood_construct; auto.
  - cbn [op_value_ok] in Hok. apply andb_true_iff in Hok as [H1 H2]. injection E as <- _. apply vgood_from_dict_cls; auto.
  - cbn [op_value_ok] in Hok. injection E as <- _. apply vgood_from_dict_inst; auto.
Qed.

(* ---------- one operation: sow_ok ---------- *)
Lemma sgood_new sc c : SGood sc (new sc c).
Proof.
  unfold SGood, new, cfs. cbn [oraw ocur ocls]. intros i f x Hf Hx. rewrite nth_error_map, Hf in Hx. cbn in Hx.
  injection Hx as <-. unfold sow_slot, sel_true, group_selects.
  destruct (fopt f); [reflexivity|]. destruct (fhint f) as [[]| | |]; try reflexivity.
  destruct (fgroup f) as [g|]; [|reflexivity]. rewrite nth_repeat_none. reflexivity.
Qed.

Lemma step7_sgood sc o p o' x :
  c01_schema_ok sc = true -> VGood sc o -> SGood sc o ->
  op_value_ok sc o p = true -> op_sow_ok sc o p = true -> step7 sc o p = Ok (o', x) -> SGood sc o'.
Proof.
  intros Hs HV H Hok Hfl E. pose proof (schema_wf sc Hs) as Hwf. destruct p as [p|kw|kw|kw]; cbn [step7] in E.
  - destruct p as [path i v|path i|bs| | | | | |d|other|].
    + cbn [op_value_ok op_sow_ok] in Hok, Hfl. cbn [History.step] in E.
      destruct (set_in sc o path i v) as [o1|] eqn:Es; cbn [bind] in E; [|discriminate]. injection E as <- _.
      eapply sgood_set_in; eauto.
    + cbn [History.step] in E. pose proof (sgood_get_in sc Hwf path o i HV H) as HG.
      destruct (get_in sc o path i) as [o1 r]. injection E as <- _. exact HG.
    + cbn [op_sow_ok] in Hfl. unfold post_sow_ok in Hfl. cbn [step7] in Hfl. rewrite E in Hfl.
      apply sgood_iff. exact Hfl.
    + cbn [History.step] in E. injection E as <- _. apply sgood_copy; auto.
    + cbn [History.step] in E. injection E as <- _. apply sgood_deepcopy; auto.
    + cbn [op_value_ok] in Hok. cbn [History.step] in E.
      destruct (pickle_rt sc o) as [o1|] eqn:Ep; cbn [bind] in E; [|discriminate]. injection E as <- _.
      rewrite (pickle_is_norm sc o o1 Hs HV Hok Ep). apply sgood_iff. apply sow_ok_norm; auto.
    + cbn [History.step] in E. destruct (enc_obj sc o); cbn [bind] in E; [|discriminate]. injection E as <- _. apply sgood_touch; auto.
    + cbn [History.step] in E. destruct (enc_obj sc o); cbn [bind] in E; [|discriminate]. injection E as <- _. apply sgood_touch; auto.
    + cbn [History.step] in E. destruct (enc_obj sc o); cbn [bind] in E; [|discriminate]. injection E as <- _. apply sgood_touch; auto.
    + cbn [History.step] in E. injection E as <- _. exact H.
    + cbn [History.step] in E. injection E as <- _. exact H.
  - cbn [op_value_ok op_sow_ok] in Hok, Hfl. apply andb_true_iff in Hok as [H1 H2]. injection E as <- _.
    apply sgood_construct; auto.
  - cbn [op_value_ok op_sow_ok] in Hok, Hfl. apply andb_true_iff in Hok as [H1 H2]. injection E as <- _.
    apply sgood_from_dict_cls; auto.
  - cbn [op_value_ok op_sow_ok] in Hok, Hfl. injection E as <- _. apply sgood_from_dict_inst; auto.
Qed.

(* ---------- histories ---------- *)
Lemma run7_vgood sc : c01_schema_ok sc = true -> forall ops o o',
  VGood sc o -> hist_ok op_value_ok sc o ops = true -> run7 sc o ops = Ok o' -> VGood sc o'.
Proof.
  intros Hs. induction ops as [|p ops IH]; intros o o' H Hh E; cbn [run7 hist_ok] in *.
  - injection E as <-. exact H.
  - apply andb_true_iff in Hh as [Hp Hr].
    destruct (step7 sc o p) as [[o1 x]|] eqn:Es; cbn [bind] in E; [|discriminate].
    apply (IH o1 o' (step7_vgood sc o p o1 x Hs H Hp Es) Hr E).
Qed.

Lemma run7_rgood sc : c01_schema_ok sc = true -> forall ops o o',
  VGood sc o -> SGood sc o -> hist_ok op_reach_ok sc o ops = true -> run7 sc o ops = Ok o' -> VGood sc o' /\ SGood sc o'.
Proof.
  intros Hs. induction ops as [|p ops IH]; intros o o' H HS Hh E; cbn [run7 hist_ok] in *.
  - injection E as <-. split; assumption.
  - apply andb_true_iff in Hh as [Hp Hr]. unfold op_reach_ok in Hp. apply andb_true_iff in Hp as [Hp1 Hp2].
    destruct (step7 sc o p) as [[o1 x]|] eqn:Es; cbn [bind] in E; [|discriminate].
    apply (IH o1 o' (step7_vgood sc o p o1 x Hs H Hp1 Es) (step7_sgood sc o p o1 x Hs H HS Hp1 Hp2 Es) Hr E).
Qed.

Lemma hist_ok_reach_value sc : forall ops o, hist_ok op_reach_ok sc o ops = true -> hist_ok op_value_ok sc o ops = true.
Proof.
  induction ops as [|p ops IH]; intros o H; cbn [hist_ok] in *; [reflexivity|].
  apply andb_true_iff in H as [Hp Hr]. unfold op_reach_ok in Hp. apply andb_true_iff in Hp as [Hp1 _].
  rewrite Hp1. cbn [andb]. destruct (step7 sc o p) as [[o1 x]|]; [apply IH; exact Hr | reflexivity].
Qed.

(* ---------- the theorems ---------- *)
Theorem c01_reachable_value_ok sc c ops o :
  c01_schema_ok sc = true -> hist_ok op_value_ok sc (new sc c) ops = true ->
  run7 sc (new sc c) ops = Ok o -> c01_value_ok sc o = true.
Proof.
  intros Hs Hh E. pose proof (schema_wf sc Hs) as Hwf. apply vgood_iff.
  apply (run7_vgood sc Hs ops (new sc c) o (vgood_new sc c Hwf) Hh E).
Qed.

Theorem c01_reachable_sow_ok sc c ops o :
  c01_schema_ok sc = true -> hist_ok op_reach_ok sc (new sc c) ops = true ->
  run7 sc (new sc c) ops = Ok o -> c01_value_ok sc o = true /\ sow_ok sc o = true.
Proof.
  intros Hs Hh E. pose proof (schema_wf sc Hs) as Hwf.
  destruct (run7_rgood sc Hs ops (new sc c) o (vgood_new sc c Hwf) (sgood_new sc c) Hh E) as (HV & HS).
  split; [apply vgood_iff; exact HV | apply sgood_iff; exact HS].
Qed.

(* from any good state, not only Cls() *)
Theorem c01_run_keeps sc ops o o' :
  c01_schema_ok sc = true -> c01_value_ok sc o = true -> sow_ok sc o = true ->
  hist_ok op_reach_ok sc o ops = true -> run7 sc o ops = Ok o' -> c01_value_ok sc o' = true /\ sow_ok sc o' = true.
Proof.
  intros Hs Hv Hw Hh E. pose proof (schema_wf sc Hs) as Hwf.
  destruct (run7_rgood sc Hs ops o o' (proj1 (vgood_iff sc o) Hv) (proj1 (sgood_iff sc o) Hw) Hh E) as (HV & HS).
  split; [apply vgood_iff; exact HV | apply sgood_iff; exact HS].
Qed.

Theorem c01_roundtrip_reachable sc c ops m :
  c01_schema_ok sc = true -> hist_ok op_reach_ok sc (new sc c) ops = true -> run7 sc (new sc c) ops = Ok m ->
  exists bs, enc_obj sc m = Ok bs /\
    (Zlength bs < 2 ^ 64 ->
     exists m', parse sc (ocls m) bs = Ok m' /\ m' = norm_obj sc m /\
       (deep nan_free (PMsg m) = true -> obj_eq sc m m' = true) /\
       (forall g, which_one_of m' g = which_one_of m g) /\
       obs_top sc m m' = true /\
       enc_obj sc m' = Ok bs).
Proof.
  intros Hs Hh E. destruct (c01_reachable_sow_ok sc c ops m Hs Hh E) as (Hv & Hw).
  destruct (c01_roundtrip sc m Hs Hv) as (bs & Eb & Hrest). exists bs. split; [exact Eb|]. intros Hsm.
  destruct (Hrest Hsm) as (m' & Hp & Hn & Heq & Hwo & Hobs & Hst). exists m'. repeat split; auto.
Qed.

Theorem c01_roundtrip_reachable_values sc c ops m :
  c01_schema_ok sc = true -> hist_ok op_value_ok sc (new sc c) ops = true -> run7 sc (new sc c) ops = Ok m ->
  exists bs, enc_obj sc m = Ok bs /\
    (Zlength bs < 2 ^ 64 ->
     exists m', parse sc (ocls m) bs = Ok m' /\ m' = norm_obj sc m /\
       (deep nan_free (PMsg m) = true -> obj_eq sc m m' = true) /\
       (forall g, which_one_of m' g = which_one_of m g) /\
       (sow_ok sc m = true -> obs_top sc m m' = true) /\
       enc_obj sc m' = Ok bs).
Proof. intros Hs Hh E. apply c01_roundtrip; [exact Hs|]. eapply c01_reachable_value_ok; eauto. Qed.
