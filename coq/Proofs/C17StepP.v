(* C17: Model/C17Step.v [load_r] IS Model/Decode.v [load] (for all arguments).
   [loop_o] is the inner loop of [load], copied verbatim with the recursive call abstracted
   ([load_unfold] holds by conversion, so the copy is checked by the kernel). *)
From BP Require Import Base.Prelude Model.Types Model.Varint Model.Scalar Model.Float Model.Utf8.
From BP Require Import Model.Object Model.Eq Model.TimeCore Model.Decode Model.C17Step.
From BP Require Import gen.Tables.

Definition loop_o (sc : schema) (ld : obj -> list byte -> option Z -> result (obj * list byte))
           (fuel' : nat) (size : option Z) (cd : cdesc)
  : nat -> obj -> list byte -> Z -> result (obj * list byte) :=
      let parse_new (c' : nat) (bs : list byte) : result obj :=
        do (o', _) <- ld (new sc c') bs None; Ok o' in
      let post_len (f : fdesc) (t : ptype) (ety : pyty) (wraps : option ptype) (bs : list byte) : result pv :=
        if ptype_eqb t TString then
          if utf8_valid bs then Ok (PStr bs) else Err EUnicode
        else if ptype_eqb t TMessage then
          match ety, wraps with
          | PyDatetime, _ =>
              do m <- parse_new timestamp_cls bs;
              match snd (getattr sc m 0), snd (getattr sc m 1) with
              | Ok (PInt sec), Ok (PInt nan) => do us <- us_of_ts sec nan; Ok (PDatetime us)
              | _, _ => Err EType
              end
          | PyTimedelta, _ =>
              do m <- parse_new duration_cls bs;
              match snd (getattr sc m 0), snd (getattr sc m 1) with
              | Ok (PInt sec), Ok (PInt nan) => do us <- us_of_dur sec nan; Ok (PTimedelta us)
              | _, _ => Err EType
              end
          | _, Some w =>
              match wrapper_cls w with
              | None => Err EKey
              | Some wc => do m <- parse_new wc bs; snd (getattr sc m 0)
              end
          | PyMsg c', None => do m <- parse_new c' bs; Ok (mark_sow (PMsg m))
          | _, None => Err EType
          end
        else Ok (PBytes bs) in
      (fix loop (n : nat) (o : obj) (s : list byte) (read : Z) {struct n} : result (obj * list byte) :=
         match n with
         | O => Err EFuel
         | S n' =>
             match s with
             | [] =>
                 match size with
                 | Some sz => if read <? sz then Err EValue else Ok (o, s)
                 | None => Ok (o, s)
                 end
             | _ =>
                 do (num_wire, r, s1) <- load_varint s;
                 do (p, s2) <- load_field fuel' s1 num_wire r;
                 do read <- match size with
                            | Some sz => let read' := read + Zlength (praw p) in
                                         if sz <? read' then Err EValue else Ok read'
                            | None => Ok read
                            end;
                 let finished := match size with Some sz => read =? sz | None => false end in
                 let continue (o : obj) := if finished then Ok (o, s2) else loop n' o s2 read in
                 let 'Obj c raw sow unk cur := o in
                 match field_by_number cd (pnum p) with
                 | None => continue (Obj c raw sow (unk ++ praw p) cur)
                 | Some (i, f) =>
                     if negb (wire_type_fits f (pwt p)) then continue (Obj c raw sow (unk ++ praw p) cur)
                     else
                       do value <-
                         (if (pwt p =? WIRE_LEN_DELIM) && tmem (fty f) PACKED_TYPES then
                            do l <- unpack_packed (Datatypes.S (length (pbytes p))) (fty f) (pbytes p); Ok (PList l)
                          else if pwt p =? WIRE_VARINT then Ok (postprocess_varint (fty f) (pint p))
                          else if (pwt p =? WIRE_FIXED_32) || (pwt p =? WIRE_FIXED_64) then unpack_value (fty f) (pbytes p)
                          else if ptype_eqb (fty f) TMap then
                            do e <- parse_new (fentry f) (pbytes p); Ok (PMsg e)
                          else post_len f (fty f) (hint_elem (fhint f)) (fwraps f) (pbytes p));
                       let '(o, current) :=
                         match getattr sc o i with
                         | (o', Ok cur_v) => (o', cur_v)
                         | (_, Err _) => let d := default_of sc f in (setattr sc o i d, d)
                         end in
                       let 'Obj c raw sow unk cur := o in
                       if ptype_eqb (fty f) TMap then
                         match value, current with
                         | PMsg e, PDict d =>
                             match getattr sc e 0, getattr sc e 1 with
                             | (_, Ok k), (_, Ok v) => continue (Obj c (set_nth i (PDict (dict_set d sc k v)) raw) sow unk cur)
                             | _, _ => Err EAttribute
                             end
                         | _, _ => Err EType
                         end
                       else
                         match current with
                         | PList l =>
                             let l' := match value with PList vs => l ++ vs | _ => l ++ [value] end in
                             continue (Obj c (set_nth i (PList l') raw) sow unk cur)
                         | _ => continue (setattr sc o i value)
                         end
                 end
             end
         end).

Lemma load_unfold fuel' sc o s size :
  load (S fuel') sc o s size =
  (do (size, s) <- read_size size s;
   let 'Obj c raw _ unk cur := o in
   let o := Obj c raw true unk cur in
   match size with
   | Some 0 => Ok (o, s)
   | _ => loop_o sc (load fuel' sc) fuel' size (get_class sc c) (S (length s)) o s 0
   end).
Proof. reflexivity. Qed.

Lemma loop_o_eq sc ld pn fuel' size cd :
  (forall c' bs, (do (o', _) <- ld (new sc c') bs None; Ok o') = pn c' bs) ->
  forall n o s read,
    loop_o sc ld fuel' size cd n o s read = loop_r sc pn (load_field fuel') size cd n o s read.
Proof.
  intros H. induction n as [|n IH]; intros o s read; [reflexivity|].
  unfold loop_o in *. cbn [loop_r].
  destruct s as [|b s]; [reflexivity|].
  destruct (load_varint (b :: s)) as [[[nw r] s1]|e]; cbn [bind]; [|reflexivity].
  destruct (load_field fuel' s1 nw r) as [[p s2]|e]; cbn [bind]; [|reflexivity].
  unfold account.
  match goal with |- bind ?X _ = bind ?X _ => destruct X as [read'|e]; cbn [bind]; [|reflexivity] end.
  unfold apply_field, finished. destruct o as [c raw sow unk cur]. cbn [add_unknown].
  destruct (field_by_number cd (pnum p)) as [[i f]|]; cbn [bind].
  2:{ destruct (match size with Some sz => read' =? sz | None => false end); [reflexivity | apply IH]. }
  destruct (negb (wire_type_fits f (pwt p))); cbn [bind].
  { destruct (match size with Some sz => read' =? sz | None => false end); [reflexivity | apply IH]. }
  unfold decode_value, post_len_r.
  (* the value *)
  assert (Hv :
    (if (pwt p =? WIRE_LEN_DELIM) && tmem (fty f) PACKED_TYPES
     then do l <- unpack_packed (S (length (pbytes p))) (fty f) (pbytes p); Ok (PList l)
     else if pwt p =? WIRE_VARINT then Ok (postprocess_varint (fty f) (pint p))
     else if (pwt p =? WIRE_FIXED_32) || (pwt p =? WIRE_FIXED_64) then unpack_value (fty f) (pbytes p)
     else if ptype_eqb (fty f) TMap
     then do e <- (do (o', _) <- ld (new sc (fentry f)) (pbytes p) None; Ok o'); Ok (PMsg e)
     else
      if ptype_eqb (fty f) TString
      then if utf8_valid (pbytes p) then Ok (PStr (pbytes p)) else Err EUnicode
      else
       if ptype_eqb (fty f) TMessage
       then
        match hint_elem (fhint f), fwraps f with
        | PyDatetime, _ =>
            do m <- (do (o', _) <- ld (new sc timestamp_cls) (pbytes p) None; Ok o');
            match snd (getattr sc m 0), snd (getattr sc m 1) with
            | Ok (PInt sec), Ok (PInt nan) => do us <- us_of_ts sec nan; Ok (PDatetime us)
            | _, _ => Err EType
            end
        | PyTimedelta, _ =>
            do m <- (do (o', _) <- ld (new sc duration_cls) (pbytes p) None; Ok o');
            match snd (getattr sc m 0), snd (getattr sc m 1) with
            | Ok (PInt sec), Ok (PInt nan) => do us <- us_of_dur sec nan; Ok (PTimedelta us)
            | _, _ => Err EType
            end
        | _, Some w =>
            match wrapper_cls w with
            | None => Err EKey
            | Some wc => do m <- (do (o', _) <- ld (new sc wc) (pbytes p) None; Ok o'); snd (getattr sc m 0)
            end
        | PyMsg c', None => do m <- (do (o', _) <- ld (new sc c') (pbytes p) None; Ok o'); Ok (mark_sow (PMsg m))
        | _, None => Err EType
        end
       else Ok (PBytes (pbytes p)))
    =
    (if (pwt p =? WIRE_LEN_DELIM) && tmem (fty f) PACKED_TYPES
     then do l <- unpack_packed (S (length (pbytes p))) (fty f) (pbytes p); Ok (PList l)
     else if pwt p =? WIRE_VARINT then Ok (postprocess_varint (fty f) (pint p))
     else if (pwt p =? WIRE_FIXED_32) || (pwt p =? WIRE_FIXED_64) then unpack_value (fty f) (pbytes p)
     else if ptype_eqb (fty f) TMap
     then do e <- pn (fentry f) (pbytes p); Ok (PMsg e)
     else
      if ptype_eqb (fty f) TString
      then if utf8_valid (pbytes p) then Ok (PStr (pbytes p)) else Err EUnicode
      else
       if ptype_eqb (fty f) TMessage
       then
        match hint_elem (fhint f), fwraps f with
        | PyDatetime, _ =>
            do m <- pn timestamp_cls (pbytes p);
            match snd (getattr sc m 0), snd (getattr sc m 1) with
            | Ok (PInt sec), Ok (PInt nan) => do us <- us_of_ts sec nan; Ok (PDatetime us)
            | _, _ => Err EType
            end
        | PyTimedelta, _ =>
            do m <- pn duration_cls (pbytes p);
            match snd (getattr sc m 0), snd (getattr sc m 1) with
            | Ok (PInt sec), Ok (PInt nan) => do us <- us_of_dur sec nan; Ok (PTimedelta us)
            | _, _ => Err EType
            end
        | _, Some w =>
            match wrapper_cls w with
            | None => Err EKey
            | Some wc => do m <- pn wc (pbytes p); snd (getattr sc m 0)
            end
        | PyMsg c', None => do m <- pn c' (pbytes p); Ok (mark_sow (PMsg m))
        | _, None => Err EType
        end
       else Ok (PBytes (pbytes p)))).
  { rewrite !H.
    destruct ((pwt p =? WIRE_LEN_DELIM) && tmem (fty f) PACKED_TYPES); [reflexivity|].
    destruct (pwt p =? WIRE_VARINT); [reflexivity|].
    destruct ((pwt p =? WIRE_FIXED_32) || (pwt p =? WIRE_FIXED_64)); [reflexivity|].
    destruct (ptype_eqb (fty f) TMap); [reflexivity|].
    destruct (ptype_eqb (fty f) TString); [reflexivity|].
    destruct (ptype_eqb (fty f) TMessage); [|reflexivity].
    destruct (hint_elem (fhint f)), (fwraps f) as [w|]; try reflexivity;
      try (destruct (wrapper_cls w); [rewrite H|]; reflexivity); rewrite H; reflexivity. }
  cbv zeta beta. cbv zeta beta in Hv. rewrite Hv. clear Hv.
  match goal with |- bind ?X _ = bind (bind ?X _) _ => destruct X as [value|e]; cbn [bind]; [|reflexivity] end.
  unfold store_value, fetch_current.
  destruct (getattr sc (Obj c raw sow unk cur) i) as [o' [cur_v|e]].
  - destruct o' as [c1 raw1 sow1 unk1 cur1]. cbn [set_raw].
    destruct (ptype_eqb (fty f) TMap).
    + destruct value; try reflexivity. destruct cur_v; try reflexivity.
      destruct (getattr sc o 0) as [? [k|]]; [|reflexivity].
      destruct (getattr sc o 1) as [? [v|]]; [|reflexivity]. cbn [bind].
      destruct (match size with Some sz => read' =? sz | None => false end); [reflexivity | apply IH].
    + destruct cur_v; cbn [bind];
        (destruct (match size with Some sz => read' =? sz | None => false end); [reflexivity | apply IH]).
  - cbv zeta. destruct (setattr sc (Obj c raw sow unk cur) i (default_of sc f)) as [c1 raw1 sow1 unk1 cur1] eqn:Es.
    cbn [set_raw].
    destruct (ptype_eqb (fty f) TMap).
    + destruct value; try reflexivity. destruct (default_of sc f); try reflexivity.
      destruct (getattr sc o 0) as [? [k|]]; [|reflexivity].
      destruct (getattr sc o 1) as [? [v|]]; [|reflexivity]. cbn [bind].
      destruct (match size with Some sz => read' =? sz | None => false end); [reflexivity | apply IH].
    + destruct (default_of sc f); cbn [bind];
        (destruct (match size with Some sz => read' =? sz | None => false end); [reflexivity | apply IH]).
Qed.

Theorem load_eq fuel sc o s size : load fuel sc o s size = load_r fuel sc o s size.
Proof.
  revert o s size. induction fuel as [|fuel IH]; intros o s size; [reflexivity|].
  rewrite load_unfold. cbn [load_r].
  destruct (read_size size s) as [[size' s']|e]; cbn [bind]; [|reflexivity].
  destruct o as [c raw sow unk cur]. cbn [mark_on_wire ocls].
  assert (E : forall n o s read,
             loop_o sc (load fuel sc) fuel size' (get_class sc c) n o s read =
             loop_r sc (fun c' bs => do (o', _) <- load_r fuel sc (new sc c') bs None; Ok o')
                    (load_field fuel) size' (get_class sc c) n o s read).
  { apply loop_o_eq. intros c' bs. rewrite IH. reflexivity. }
  destruct size' as [[|z|z]|]; try reflexivity; apply E.
Qed.

Definition parse_r (sc : schema) (c : nat) (bs : list byte) : result obj :=
  do (o', _) <- load_r (S (length bs)) sc (new sc c) bs None; Ok o'.

Lemma parse_eq sc c bs : parse sc c bs = parse_r sc c bs.
Proof. unfold parse, parse_into, parse_r. rewrite load_eq. reflexivity. Qed.

Lemma parse_into_eq sc o bs :
  parse_into sc o bs = (do (o', _) <- load_r (S (length bs)) sc o bs None; Ok o').
Proof. unfold parse_into. rewrite load_eq. reflexivity. Qed.
