(* C18, Message.parse under pydantic_dataclasses: the statements with boolean hypotheses, and the corollaries. *)
From Coq Require Import ZArith List Bool Lia Arith.
From BP Require Import Base.Prelude Model.Types Model.Object Model.Eq Model.Encode Model.Decode Model.Json Model.WellFormed.
From BP Require Import Model.C07Step Model.C18Beh Model.C18BehEx Model.C18Parse.
From BP Require Import Proofs.C18BehBase Proofs.C18BehJson2 Proofs.C18BehEx Proofs.C18ParseBase Proofs.C18ParseInv Proofs.C18ParseSim.
Import ListNotations.

Lemma parse_into_pydantic sc o o' bs :
  wf_schema sc = true -> pshape sc o = true -> kslots_ok sc o = true -> orel sc o o' ->
  ores_rel sc (parse_into sc o bs) (parse_into (pyd_schema sc) o' bs).
Proof. intros W S K R. apply parse_into_rel; auto. apply kgood_iff. auto. Qed.

Lemma load_pydantic sc fuel o o' s size :
  wf_schema sc = true -> pshape sc o = true -> kslots_ok sc o = true -> orel sc o o' ->
  lres_rel sc (load fuel sc o s size) (load fuel (pyd_schema sc) o' s size).
Proof. intros W S K R. apply load_rel; auto. apply kgood_iff. auto. Qed.

Lemma ores_cases sc r r' : ores_rel sc r r' ->
  (exists e, r = Err e /\ r' = Err e) \/ (exists o o', r = Ok o /\ r' = Ok o' /\ orel sc o o').
Proof. destruct r as [o|e], r' as [o'|e']; cbn [ores_rel]; intros H; try contradiction; [right | left; subst]; eauto. Qed.

Lemma parse_cases sc c bs :
  wf_schema sc = true ->
  (exists e, parse sc c bs = Err e /\ parse (pyd_schema sc) c bs = Err e) \/
  (exists o o', parse sc c bs = Ok o /\ parse (pyd_schema sc) c bs = Ok o' /\ orel sc o o').
Proof. intros W. apply ores_cases, parse_rel, W. Qed.

Lemma parse_into_shape sc o bs m : pshape sc o = true -> kslots_ok sc o = true ->
  parse_into sc o bs = Ok m -> pshape sc m = true /\ kslots_ok sc m = true /\ ocls m = ocls o.
Proof.
  intros S K H. unfold parse_into in H. destruct (load _ sc o bs None) as [[m' r]|] eqn:L; cbn [bind] in H; [|discriminate].
  injection H as <-. assert (G : kgood sc o) by (apply kgood_iff; auto).
  destruct (kgood_load _ _ _ _ _ _ _ G L) as [G' C]. apply kgood_iff in G'. tauto.
Qed.

Lemma parse_shape sc c bs o : parse sc c bs = Ok o -> pshape sc o = true /\ kslots_ok sc o = true /\ ocls o = c.
Proof.
  unfold parse. intros H. pose proof (kgood_new sc c) as G. apply kgood_iff in G. destruct G as [S K].
  apply (parse_into_shape sc (new sc c) bs o S K H).
Qed.

Lemma ores_json sc r r' cs incl : wf_schema sc = true -> ores_rel sc r r' ->
  (do o <- r'; to_json cs incl (pyd_schema sc) o) = (do o <- r; to_json cs incl sc o).
Proof.
  intros W R. destruct (ores_cases _ _ _ R) as [(e & -> & ->) | (o & o' & -> & -> & Ro)]; cbn [bind]; [reflexivity|].
  apply to_json_pydantic; assumption.
Qed.

Lemma parse_json_pydantic sc c bs cs incl :
  wf_schema sc = true ->
  (do o <- parse (pyd_schema sc) c bs; to_json cs incl (pyd_schema sc) o) = (do o <- parse sc c bs; to_json cs incl sc o).
Proof. intros W. apply ores_json; [exact W | apply parse_rel, W]. Qed.

Lemma parse_into_json_pydantic sc o o' bs cs incl :
  wf_schema sc = true -> pshape sc o = true -> kslots_ok sc o = true -> orel sc o o' ->
  (do m <- parse_into (pyd_schema sc) o' bs; to_json cs incl (pyd_schema sc) m) =
  (do m <- parse_into sc o bs; to_json cs incl sc m).
Proof. intros W S K R. apply ores_json; [exact W | apply parse_into_pydantic; assumption]. Qed.

Lemma parse_canonical_refuted :
  exists sc c bs o, wf_schema sc = true /\ parse sc c bs = Ok o /\ pyd_ok_obj sc o = true /\
                    parse (pyd_schema sc) c bs <> Ok (pyd_obj sc o).
Proof.
  exists ex18, 12%nat, [x08; x00], ex_inner_a0. destruct ex_parse as (P1 & P2 & E & _).
  split; [vm_compute; reflexivity|]. split; [exact P1|]. split; [vm_compute; reflexivity|].
  rewrite P2, E. vm_compute. discriminate.
Qed.

(* ---- bytes, given the flag condition of C18_bytes_pydantic on the decoded object ---- *)
From BP Require Import Proofs.C18BehEnc.

Lemma ores_bytes sc r r' : wf_schema sc = true -> ores_rel sc r r' ->
  (forall o, r = Ok o -> sow_ok_obj o = true) ->
  (do o <- r'; enc_obj (pyd_schema sc) o) = (do o <- r; enc_obj sc o).
Proof.
  intros W R K. destruct (ores_cases _ _ _ R) as [(e & -> & ->) | (o & o' & -> & -> & Ro)]; cbn [bind]; [reflexivity|].
  apply enc_obj_pydantic; auto.
Qed.

From BP Require Import Proofs.C18ParseSow.

Lemma parse_bytes_pydantic sc c bs :
  wf_schema sc = true ->
  (do o <- parse (pyd_schema sc) c bs; enc_obj (pyd_schema sc) o) = (do o <- parse sc c bs; enc_obj sc o).
Proof. intros W. apply ores_bytes; [exact W | apply parse_rel, W | intros o; apply sgood_parse]. Qed.

Lemma parse_into_bytes_pydantic sc o o' bs :
  wf_schema sc = true -> pshape sc o = true -> kslots_ok sc o = true -> sow_ok_obj o = true -> orel sc o o' ->
  (do m <- parse_into (pyd_schema sc) o' bs; enc_obj (pyd_schema sc) m) = (do m <- parse_into sc o bs; enc_obj sc m).
Proof.
  intros W S K So R. apply ores_bytes; [exact W | apply parse_into_pydantic; assumption |].
  intros m. apply sgood_parse_into; assumption.
Qed.

(* ---- the six configurations ---- *)
From BP Require Import Model.C18Bridge Proofs.C18BridgeP.

Lemma configurations_parse E c0 pre post ens cls sc :
  forallb no_groups pre = true -> forallb no_groups post = true -> Forall cls_pyd_ok cls ->
  rt_schema E (TP.mk c0 false) pre post ens cls = Some sc -> wf_schema sc = true ->
  (forall c, rt_schema E (TP.mk c false) pre post ens cls = Some sc) /\
  (forall c, rt_schema E (TP.mk c true) pre post ens cls = Some (pyd_schema sc)) /\
  (forall k bs, ores_rel sc (parse sc k bs) (parse (pyd_schema sc) k bs)) /\
  (forall k bs cs incl,
     (do o <- parse (pyd_schema sc) k bs; to_json cs incl (pyd_schema sc) o) = (do o <- parse sc k bs; to_json cs incl sc o)) /\
  (forall k bs,
     (do o <- parse (pyd_schema sc) k bs; enc_obj (pyd_schema sc) o) = (do o <- parse sc k bs; enc_obj sc o)) /\
  (forall o o' bs, pshape sc o = true -> kslots_ok sc o = true -> orel sc o o' ->
     ores_rel sc (parse_into sc o bs) (parse_into (pyd_schema sc) o' bs)).
Proof.
  intros Hpre Hpost H Hs W. destruct (configurations E c0 pre post ens cls sc Hpre Hpost H Hs W) as (A & B & _ & _).
  split; [exact A|]. split; [exact B|]. split; [intros k bs; apply parse_rel, W|].
  split; [intros k bs cs incl; apply parse_json_pydantic, W|].
  split; [intros k bs; apply parse_bytes_pydantic, W|].
  intros o o' bs S K R. apply parse_into_pydantic; assumption.
Qed.

Definition ex_pi_bytes : list byte := [x12; x01; x7a; x22; x05; x0a; x01; x6b; x10; x09; x2a; x04; x0a; x02; x10; x01].

Lemma ex_parse_into :
  wf_schema ex18 = true /\ pshape ex18 ex_outer = true /\ kslots_ok ex18 ex_outer = true /\ orel ex18 ex_outer ex_outer_pyd /\
  (exists m m', parse_into ex18 ex_outer ex_pi_bytes = Ok m /\
                parse_into (pyd_schema ex18) ex_outer_pyd ex_pi_bytes = Ok m' /\
                orel ex18 m m' /\ m <> ex_outer).
Proof.
  destruct ex_outer_ok as (W & K & _ & _ & E & _).
  assert (R : orel ex18 ex_outer ex_outer_pyd) by (rewrite <- E; apply pyd_obj_rel; exact K).
  assert (S : pshape ex18 ex_outer = true) by (vm_compute; reflexivity).
  assert (Ks : kslots_ok ex18 ex_outer = true) by (vm_compute; reflexivity).
  split; [exact W|]. split; [exact S|]. split; [exact Ks|]. split; [exact R|].
  pose proof (parse_into_pydantic ex18 ex_outer ex_outer_pyd ex_pi_bytes W S Ks R) as H.
  destruct (parse_into ex18 ex_outer ex_pi_bytes) as [m|e] eqn:E1.
  - destruct (parse_into (pyd_schema ex18) ex_outer_pyd ex_pi_bytes) as [m'|e'] eqn:E2; cbn [ores_rel] in H; [|contradiction].
    exists m, m'. repeat split; auto. intros ->. vm_compute in E1. discriminate.
  - vm_compute in E1. discriminate.
Qed.
