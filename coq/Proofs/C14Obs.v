(* C14, part 5: [mat] is reflexive and transitive, and the state every observer leaves behind - and the state
   copy / deepcopy build - is related to the state before by [mat]. *)
From BP Require Import Base.Prelude Model.Types Model.Float Model.Object Model.Eq Model.Encode Model.Decode Model.History Model.C14Ops.
From BP Require Import Model.WellFormed Proofs.BytesP Proofs.C14Ind Proofs.C14Mat.
From Coq Require Import Lia.

(* ---- reflexivity ---- *)
Lemma mat_go_refl sc raw :
  Forall (fun x => forall f, mat sc f x x = true) raw -> forall fs, mat_go sc raw raw fs = true.
Proof.
  induction 1 as [|x r Hx Hr IH]; intros fs; [reflexivity|]. cbn [mat_go]. destruct fs as [|f fs].
  - rewrite pv_same_refl, IH. reflexivity.
  - rewrite Hx, IH. reflexivity.
Qed.

Lemma mat_elem_refl sc f x : (forall f, mat sc f x x = true) -> mat_elem sc f x x = true.
Proof. intros H. unfold mat_elem. destruct x; try apply pv_same_refl. apply H. Qed.

Lemma mat_refl sc : forall v f, mat sc f v v = true.
Proof.
  induction v using pv_induction; intros f; rewrite mat_eq; cbn [src mat_core]; try reflexivity;
    try apply pv_same_refl; try apply Z.eqb_refl; try apply bytes_eqb_refl.
  - induction H as [|x l Hx Hl IH]; [reflexivity|]. cbn [mat_list]. rewrite (mat_elem_refl sc f x Hx), IH. reflexivity.
  - induction H as [|[k x] d [Hk Hx] Hd IH]; [reflexivity|]. cbn [mat_dict fst snd] in *.
    rewrite pv_same_refl, (mat_elem_refl sc f x Hx), IH. reflexivity.
  - rewrite Nat.eqb_refl, eqb_reflx, bytes_eqb_refl, cur_same_refl. cbn [andb]. apply mat_go_refl. exact H.
Qed.

Lemma mat_obj_refl sc o : mat_obj sc o o = true.
Proof. apply mat_refl. Qed.

Lemma mat_np sc f w v' : w <> PPlaceholder -> mat sc f w v' = mat_core sc f w v'.
Proof.
  intros Hw. rewrite mat_eq, (src_id sc f w Hw). destruct w; try reflexivity. contradiction Hw; reflexivity.
Qed.

Lemma mat_placeholder sc f v' : v' <> PPlaceholder -> mat sc f PPlaceholder v' = mat sc f (default_of sc f) v'.
Proof.
  intros Hv. rewrite (mat_np sc f (default_of sc f) v' (default_not_placeholder sc f)).
  rewrite mat_eq. cbn [src]. destruct v'; try reflexivity. contradiction Hv; reflexivity.
Qed.

Lemma mat_placeholder_default sc f : mat sc f PPlaceholder (default_of sc f) = true.
Proof. rewrite mat_placeholder by apply default_not_placeholder. apply mat_refl. Qed.

Lemma mat_src sc f x : mat sc f x (src sc f x) = true.
Proof. destruct x; try apply mat_refl. apply mat_placeholder_default. Qed.

Lemma mat_msg_irrel sc f g o v' : mat sc f (PMsg o) v' = mat sc g (PMsg o) v'.
Proof.
  rewrite !mat_np by discriminate. destruct o as [c raw sow unk cur].
  destruct v' as [| | | | | | | | | | |[c' raw' sow' unk' cur']]; reflexivity.
Qed.

Lemma mat_msg_obj sc f o o' : mat sc f (PMsg o) (PMsg o') = mat_obj sc o o'.
Proof. apply mat_msg_irrel. Qed.

Lemma mat_np2 sc f v v'' : v'' <> PPlaceholder -> mat sc f v v'' = mat_core sc f (src sc f v) v''.
Proof.
  intros Hv. rewrite mat_eq. destruct v; try reflexivity. destruct v''; try reflexivity. contradiction Hv; reflexivity.
Qed.

(* ---- transitivity ---- *)
Lemma mat_core_scalar sc f w v' : is_scalar v' -> mat_core sc f w v' = true -> w = v'.
Proof.
  intros Hs H. destruct w as [| | | | | | | | | | |[c raw sow unk cur]], v'; cbn [is_scalar] in Hs; try contradiction;
    cbn [mat_core] in H; try discriminate H; apply pv_same_sound; exact H.
Qed.

Lemma mat_trans sc : forall v'' f v v', mat sc f v v' = true -> mat sc f v' v'' = true -> mat sc f v v'' = true.
Proof.
  induction v'' using pv_induction; intros f v v' H1 H2.
  all: destruct (pv_same v' PPlaceholder) eqn:Ep;
    [apply pv_same_sound in Ep; subst v';
     apply mat_inv in H1;
     destruct H1 as [[Hv _]|[(c0 & raw0 & raw0' & sow0 & unk0 & cur0 & _ & Hv' & _)|[(l0 & l0' & _ & Hv' & _)|[(d0 & d0' & _ & Hv' & _)|[_ Hsc]]]]];
     try discriminate Hv'; try (exfalso; exact Hsc); subst v; exact H2 |].
  all: assert (Hn' : v' <> PPlaceholder) by (intros ->; discriminate Ep); clear Ep.
  all: rewrite (mat_np sc f v' _ Hn') in H2.
  all: assert (H1' : mat_core sc f (src sc f v) v' = true)
         by (rewrite mat_eq in H1; destruct v; try exact H1; destruct v'; try exact H1; contradiction Hn'; reflexivity).
  (* scalar targets: v' = v'' *)
  1: { exfalso. destruct v' as [| | | | | | | | | | |[c' raw' sow' unk' cur']]; cbn [mat_core pv_same] in H2; discriminate H2. }
  all: rewrite (mat_np2 sc f v) by discriminate.
  1-8: (match type of H2 with mat_core _ _ _ ?t = true => apply (mat_core_scalar sc f v' t I) in H2 end; subst v'; exact H1').
  - (* list *)
    destruct v' as [| | | | | | | | |l'| |[c' raw' sow' unk' cur']]; cbn [mat_core] in H2; try discriminate H2.
    destruct (src sc f v) as [| | | | | | | | |l0| |[c0 raw0 sow0 unk0 cur0]]; cbn [mat_core] in H1'; try discriminate H1'.
    cbn [mat_core]. clear H1 Hn'. revert l0 l' H1' H2.
    induction H as [|x'' l Hx Hl IH]; intros l0 l' H1 H2; destruct l' as [|x' l']; cbn [mat_list] in H2; try discriminate H2;
      destruct l0 as [|x l0]; cbn [mat_list] in H1; try discriminate H1; [reflexivity|].
    apply andb_true_iff in H1 as [E1 R1]. apply andb_true_iff in H2 as [E2 R2].
    cbn [mat_list]. rewrite (IH l0 l' R1 R2), andb_true_r.
    unfold mat_elem in *.
    destruct x'; try (apply pv_same_sound in E2; subst x''; exact E1).
    destruct x; try (match goal with Hp : pv_same _ (PMsg ?o) = true |- _ => apply pv_same_sound in Hp; discriminate Hp end).
    destruct x''; try (match goal with Hp : pv_same (PMsg ?o) _ = true |- _ => apply pv_same_sound in Hp; discriminate Hp end).
    eapply Hx; eassumption.
  - (* dict *)
    destruct v' as [| | | | | | | | | |d'|[c' raw' sow' unk' cur']]; cbn [mat_core] in H2; try discriminate H2.
    destruct (src sc f v) as [| | | | | | | | | |d0|[c0 raw0 sow0 unk0 cur0]]; cbn [mat_core] in H1'; try discriminate H1'.
    cbn [mat_core]. clear H1 Hn'. revert d0 d' H1' H2.
    induction H as [|[k'' x''] d [_ Hx] Hl IH]; intros d0 d' H1 H2; destruct d' as [|[k' x'] d']; cbn [mat_dict] in H2; try discriminate H2;
      destruct d0 as [|[k x] d0]; cbn [mat_dict] in H1; try discriminate H1; [reflexivity|].
    apply andb_true_iff in H1 as [E1 R1]. apply andb_true_iff in E1 as [K1 E1].
    apply andb_true_iff in H2 as [E2 R2]. apply andb_true_iff in E2 as [K2 E2].
    cbn [mat_dict fst snd] in *. rewrite (IH d0 d' R1 R2), andb_true_r.
    apply pv_same_sound in K1. apply pv_same_sound in K2. subst k' k''. rewrite pv_same_refl. cbn [andb].
    unfold mat_elem in *.
    destruct x'; try (apply pv_same_sound in E2; subst x''; exact E1).
    destruct x; try (match goal with Hp : pv_same _ (PMsg ?o) = true |- _ => apply pv_same_sound in Hp; discriminate Hp end).
    destruct x''; try (match goal with Hp : pv_same (PMsg ?o) _ = true |- _ => apply pv_same_sound in Hp; discriminate Hp end).
    eapply Hx; eassumption.
  - (* message *)
    destruct v' as [| | | | | | | | | | |[c' raw' sow' unk' cur']]; cbn [mat_core] in H2; try discriminate H2.
    destruct (src sc f v) as [| | | | | | | | | | |[c0 raw0 sow0 unk0 cur0]]; cbn [mat_core] in H1'; try discriminate H1'.
    cbn [mat_core].
    apply andb_true_iff in H1' as [A1 G1]. apply andb_true_iff in A1 as [A1 A4]. apply andb_true_iff in A1 as [A1 A3]. apply andb_true_iff in A1 as [A1 A2].
    apply andb_true_iff in H2 as [B1 G2]. apply andb_true_iff in B1 as [B1 B4]. apply andb_true_iff in B1 as [B1 B3]. apply andb_true_iff in B1 as [B1 B2].
    apply Nat.eqb_eq in A1, B1. apply eqb_prop in A2, B2. apply bytes_eqb_eq in A3, B3. apply cur_same_eq in A4, B4. subst.
    rewrite Nat.eqb_refl, eqb_reflx, bytes_eqb_refl, cur_same_refl. cbn [andb].
    clear H1 Hn'. revert raw0 raw' G1 G2. generalize (cfields (get_class sc c)) as fs.
    induction H as [|x'' r Hx Hr IH]; intros fs raw0 raw' G1 G2; destruct raw' as [|x' raw']; cbn [mat_go] in G2; try discriminate G2;
      destruct raw0 as [|x raw0]; cbn [mat_go] in G1; try discriminate G1; [reflexivity|].
    cbn [mat_go]. destruct fs as [|f' fs].
    + apply andb_true_iff in G1 as [E1 R1]. apply andb_true_iff in G2 as [E2 R2].
      apply pv_same_sound in E1, E2. subst. rewrite pv_same_refl, (IH [] raw0 raw' R1 R2). reflexivity.
    + apply andb_true_iff in G1 as [E1 R1]. apply andb_true_iff in G2 as [E2 R2].
      rewrite (Hx f' x x' E1 E2), (IH fs raw0 raw' R1 R2). reflexivity.
Qed.

Lemma mat_obj_trans sc o o' o'' : mat_obj sc o o' = true -> mat_obj sc o' o'' = true -> mat_obj sc o o'' = true.
Proof. apply mat_trans. Qed.

(* ---- replacing one attribute ---- *)
Lemma mat_go_set sc x' : forall raw fs i,
  Forall (fun x => forall f, mat sc f x x = true) raw ->
  (i < length raw -> exists f, nth_error fs i = Some f /\ mat sc f (nth i raw PPlaceholder) x' = true)%nat ->
  mat_go sc raw (set_nth i x' raw) fs = true.
Proof.
  induction raw as [|x r IH]; intros fs i Hr Hi; [destruct i; reflexivity|].
  inversion Hr as [|? ? Hx Hr']; subst. destruct i as [|i]; cbn [set_nth mat_go].
  - destruct Hi as [f [Hf Hm]]; [cbn; lia|]. destruct fs as [|f0 fs]; [discriminate Hf|]. inversion Hf; subst f0.
    cbn [nth] in Hm. rewrite Hm. cbn [andb]. apply mat_go_refl. exact Hr'.
  - destruct fs as [|f0 fs].
    + cbn [length] in Hi. rewrite pv_same_refl. cbn [andb]. apply IH; [exact Hr'|].
      intros Hlt. destruct Hi as [f [Hf _]]; [lia|]. discriminate Hf.
    + rewrite Hx. cbn [andb]. apply IH; [exact Hr'|].
      intros Hlt. destruct Hi as [f [Hf Hm]]; [cbn [length]; lia|]. exists f. split; [exact Hf | exact Hm].
Qed.

Lemma mat_obj_set sc c raw sow unk cur i f x' :
  nth_error (cfields (get_class sc c)) i = Some f ->
  mat sc f (nth i raw PPlaceholder) x' = true ->
  mat_obj sc (Obj c raw sow unk cur) (Obj c (set_nth i x' raw) sow unk cur) = true.
Proof.
  intros Hf Hm. unfold mat_obj. rewrite mat_np by discriminate. cbn [mat_core].
  rewrite Nat.eqb_refl, eqb_reflx, bytes_eqb_refl, cur_same_refl. cbn [andb].
  apply mat_go_set.
  - apply Forall_forall. intros x _ g. apply mat_refl.
  - intros _. exists f. split; [exact Hf | exact Hm].
Qed.

(* ---- getattr, at any depth ---- *)
Lemma getattr_mat sc o i : mat_obj sc o (fst (getattr sc o i)) = true.
Proof.
  destruct o as [c raw sow unk cur]. unfold getattr.
  destruct (nth_error (cfields (get_class sc c)) i) as [f|] eqn:Hf; [|apply mat_obj_refl].
  destruct (group_selects cur f i) as [[|]|]; try apply mat_obj_refl.
  all: destruct (nth i raw PPlaceholder) eqn:Hx; try apply mat_obj_refl.
  all: cbn [fst]; apply (mat_obj_set sc c raw sow unk cur i f _ Hf); rewrite Hx; apply mat_placeholder_default.
Qed.

Lemma getattr_value sc c raw sow unk cur i c' raw' sow' unk' cur' v :
  getattr sc (Obj c raw sow unk cur) i = (Obj c' raw' sow' unk' cur', Ok v) ->
  exists f, nth_error (cfields (get_class sc c)) i = Some f /\ c' = c /\ sow' = sow /\ unk' = unk /\ cur' = cur /\
            v = src sc f (nth i raw PPlaceholder) /\
            (raw' = raw \/ raw' = set_nth i v raw).
Proof.
  unfold getattr. destruct (nth_error (cfields (get_class sc c)) i) as [f|] eqn:Hf; [|intros H; discriminate H].
  destruct (group_selects cur f i) as [[|]|]; try (intros H; discriminate H).
  all: destruct (nth i raw PPlaceholder) eqn:Hx; intros H; inversion H; subst;
       exists f; repeat split; auto.
Qed.

Lemma set_nth_set_nth {A} (i : nat) (x y : A) l : set_nth i y (set_nth i x l) = set_nth i y l.
Proof. revert i. induction l as [|a l IH]; intros [|i]; cbn [set_nth]; try reflexivity. rewrite IH. reflexivity. Qed.

Lemma get_in_mat sc : forall path o i, mat_obj sc o (fst (get_in sc o path i)) = true.
Proof.
  induction path as [|j path IH]; intros o i; [apply getattr_mat|].
  cbn [get_in]. destruct o as [c raw sow unk cur].
  destruct (getattr sc (Obj c raw sow unk cur) j) as [[c' raw' sow' unk' cur'] [v|e]] eqn:Hg.
  2: { pose proof (getattr_mat sc (Obj c raw sow unk cur) j) as H. rewrite Hg in H. exact H. }
  destruct v as [| | | | | | | | | | |child];
    try (pose proof (getattr_mat sc (Obj c raw sow unk cur) j) as H; rewrite Hg in H; exact H).
  destruct (get_in sc child path i) as [child' r] eqn:Hc. cbn [fst].
  destruct (getattr_value _ _ _ _ _ _ _ _ _ _ _ _ _ Hg) as [f [Hf [-> [-> [-> [-> [Hv Hraw]]]]]]].
  assert (Hset : set_nth j (PMsg child') raw' = set_nth j (PMsg child') raw).
  { destruct Hraw as [->| ->]; [reflexivity | apply set_nth_set_nth]. }
  rewrite Hset. apply (mat_obj_set sc c raw sow unk cur j f _ Hf).
  eapply mat_trans; [apply mat_src|]. rewrite <- Hv, mat_msg_obj.
  pose proof (IH child i) as Hi. rewrite Hc in Hi. exact Hi.
Qed.

(* ---- bytes / len / dump ---- *)
Definition touch_go (sc : schema) (cur : list (option nat)) :=
  fix go (i : nat) (raw : list pv) (fs : list fdesc) {struct raw} : list pv :=
    match raw, fs with
    | x :: raw', f :: fs' =>
        (match group_selects cur f i with
         | Some false => x
         | sel =>
             match x with
             | PNone => x
             | PPlaceholder => default_of sc f
             | _ =>
                 if skipped sc f sel x then x
                 else
                   match x with
                   | PMsg _ => touch_pv sc x
                   | PList l => PList (map (touch_pv sc) l)
                   | PDict d =>
                       PDict ((fix gd (d : list (pv * pv)) : list (pv * pv) :=
                                 match d with
                                 | [] => []
                                 | (k, y) :: d' => (k, touch_pv sc y) :: gd d'
                                 end) d)
                   | _ => x
                   end
             end
         end) :: go (Datatypes.S i) raw' fs'
    | _, _ => raw
    end.

Lemma touch_pv_msg sc c raw sow unk cur :
  touch_pv sc (PMsg (Obj c raw sow unk cur)) = PMsg (Obj c (touch_go sc cur O raw (cfields (get_class sc c))) sow unk cur).
Proof. reflexivity. Qed.

Definition touch_dict (sc : schema) :=
  fix gd (d : list (pv * pv)) : list (pv * pv) :=
    match d with
    | [] => []
    | (k, y) :: d' => (k, touch_pv sc y) :: gd d'
    end.

Lemma mat_elem_touch sc f x : (forall g, mat sc g x (touch_pv sc x) = true) -> mat_elem sc f x (touch_pv sc x) = true.
Proof.
  intros H. unfold mat_elem. destruct x as [| | | | | | | | | | |[c raw sow unk cur]]; try apply pv_same_refl.
  rewrite touch_pv_msg. rewrite <- touch_pv_msg. apply H.
Qed.

Definition PT (sc : schema) (v : pv) : Prop :=
  (forall f, mat sc f v (touch_pv sc v) = true) /\
  match v with
  | PList l => forall f, mat sc f (PList l) (PList (map (touch_pv sc) l)) = true
  | PDict d => forall f, mat sc f (PDict d) (PDict (touch_dict sc d)) = true
  | _ => True
  end.

Lemma touch_mat_all sc : forall v, PT sc v.
Proof.
  induction v using pv_induction; unfold PT; try (split; [intros f; apply mat_refl | exact I]).
  - (* list *)
    split; [intros f; apply mat_refl|]. intros f. rewrite mat_np by discriminate. cbn [mat_core].
    induction H as [|x l [Hx _] Hl IH]; [reflexivity|]. cbn [map mat_list].
    rewrite (mat_elem_touch sc f x Hx), IH. reflexivity.
  - (* dict *)
    split; [intros f; apply mat_refl|]. intros f. rewrite mat_np by discriminate. cbn [mat_core].
    induction H as [|[k x] d [_ [Hx _]] Hl IH]; [reflexivity|]. cbn [touch_dict mat_dict fst snd] in *.
    rewrite pv_same_refl, (mat_elem_touch sc f x Hx), IH. reflexivity.
  - (* message *)
    split; [|exact I]. intros f. rewrite touch_pv_msg, mat_np by discriminate. cbn [mat_core].
    rewrite Nat.eqb_refl, eqb_reflx, bytes_eqb_refl, cur_same_refl. cbn [andb].
    generalize (cfields (get_class sc c)) as fs. generalize O as i.
    induction H as [|x r Hx Hr IH]; intros i fs; [reflexivity|].
    destruct fs as [|f' fs]; cbn [touch_go mat_go].
    + rewrite pv_same_refl. cbn [andb].
      apply mat_go_refl. apply Forall_forall. intros y _ g. apply mat_refl.
    + rewrite IH, andb_true_r.
      destruct (group_selects cur f' i) as [[|]|]; try apply mat_refl.
      all: destruct x as [| | | | | | | | |l|d|o]; try apply mat_refl; try apply mat_placeholder_default.
      all: match goal with |- context [skipped ?a ?b ?c ?d] => destruct (skipped a b c d) end; try apply mat_refl.
      all: try (apply (proj1 Hx)); try (apply (proj2 Hx)).
Qed.

Lemma touch_mat sc o : mat_obj sc o (touch sc o) = true.
Proof.
  unfold touch, mat_obj. destruct o as [c raw sow unk cur]. rewrite touch_pv_msg. rewrite <- touch_pv_msg.
  apply (proj1 (touch_mat_all sc _)).
Qed.

(* ---- to_dict / to_json / to_pydict ---- *)
Lemma mat_list_child sc f rec l :
  (forall ch, mat_obj sc ch (rec ch) = true) -> mat_list sc f l (map (todict_child rec) l) = true.
Proof.
  intros Hrec. induction l as [|x l IH]; [reflexivity|]. cbn [map mat_list]. rewrite IH, andb_true_r.
  unfold mat_elem, todict_child. destruct x; try apply pv_same_refl. rewrite mat_msg_obj. apply Hrec.
Qed.

Lemma mat_dict_child sc f rec d :
  (forall ch, mat_obj sc ch (rec ch) = true) ->
  mat_dict sc f d (map (fun kv => (fst kv, todict_child rec (snd kv))) d) = true.
Proof.
  intros Hrec. induction d as [|[k x] d IH]; [reflexivity|]. cbn [map mat_dict fst snd]. rewrite IH, andb_true_r, pv_same_refl.
  cbn [andb]. unfold mat_elem, todict_child. destruct x; try apply pv_same_refl. rewrite mat_msg_obj. apply Hrec.
Qed.

Lemma todict_mat sc idv : forall n o, mat_obj sc o (todict_obj n sc idv o) = true.
Proof.
  induction n as [|n IH]; intros o; [apply mat_obj_refl|].
  destruct o as [c raw sow unk cur]. cbn [todict_obj]. unfold mat_obj. rewrite mat_np by discriminate. cbn [mat_core].
  rewrite Nat.eqb_refl, eqb_reflx, bytes_eqb_refl, cur_same_refl. cbn [andb].
  generalize (cfields (get_class sc c)) as fs. generalize O as i.
  induction raw as [|x r IHr]; intros i fs; [reflexivity|].
  destruct fs as [|f fs]; cbn [mat_go].
  - rewrite pv_same_refl. cbn [andb]. apply mat_go_refl. apply Forall_forall. intros y _ g. apply mat_refl.
  - rewrite IHr, andb_true_r.
    destruct (group_selects cur f i) as [[|]|]; try apply mat_refl.
    all: fold (src sc f x).
    all: eapply mat_trans; [apply mat_src|].
    all: pose proof (src_not_placeholder sc f x) as Hnp.
    all: destruct (ptype_eqb (fty f) TMessage);
      [ destruct (src sc f x) as [| | | | | | | | |l|d|ch] eqn:Hs; try apply mat_refl;
        destruct (is_some (fwraps f)); try apply mat_refl;
        destruct (fhint f); try apply mat_refl;
        try (rewrite mat_np by discriminate; cbn [mat_core]; apply mat_list_child; exact IH);
        try (match goal with |- context [if ?b then _ else _] => destruct b end; try apply mat_refl;
             rewrite mat_msg_obj; apply IH)
      | destruct (ptype_eqb (fty f) TMap); try apply mat_refl;
        destruct (src sc f x) as [| | | | | | | | |l|d|ch] eqn:Hs; try apply mat_refl;
        rewrite mat_np by discriminate; cbn [mat_core]; apply mat_dict_child; exact IH ].
Qed.

(* ---- every observer ---- *)
Theorem observe_mat sc o b : mat_obj sc o (observe sc o b) = true.
Proof.
  destruct b; cbn [observe]; try apply mat_obj_refl; try apply touch_mat; try apply todict_mat. apply get_in_mat.
Qed.

Theorem observe_all_mat sc bs : forall o, mat_obj sc o (observe_all sc o bs) = true.
Proof.
  unfold observe_all. induction bs as [|b bs IH]; intros o; [apply mat_obj_refl|]. cbn [fold_left].
  eapply mat_obj_trans; [apply observe_mat | apply IH].
Qed.

(* ---- copy and deepcopy (commit 0ef9c00: the state is replicated) ---- *)
Definition overlay_go :=
  fix go (raw fresh : list pv) {struct raw} : list pv :=
    match raw, fresh with
    | x :: raw', y :: fresh' => (match x with PPlaceholder => y | _ => x end) :: go raw' fresh'
    | _, _ => fresh
    end.

Lemma overlay_eq sc c raw : overlay sc c raw = overlay_go raw (map slot (cfields (get_class sc c))).
Proof. reflexivity. Qed.

Section Wf.
  Variable sc : schema.
  Hypothesis Hopt : schema_opt_ok sc = true.

  Lemma mat_placeholder_slot c f : In f (cfields (get_class sc c)) -> mat sc f PPlaceholder (slot f) = true.
  Proof.
    intros Hin. pose proof (opt_ok_field sc c f Hopt Hin) as Ho. unfold opt_hint_ok in Ho. unfold slot.
    destruct (fopt f); [|reflexivity]. rewrite mat_eq. cbn [src]. unfold default_of.
    destruct (fhint f); try discriminate Ho. reflexivity.
  Qed.

  Lemma mat_go_overlay c (g : pv -> pv) :
    (forall x, g x = PPlaceholder <-> x = PPlaceholder) ->
    forall raw, Forall (fun x => forall f, mat sc f x (g x) = true) raw ->
    length raw = length (cfields (get_class sc c)) ->
    mat_go sc raw (overlay_go (map g raw) (map slot (cfields (get_class sc c)))) (cfields (get_class sc c)) = true.
  Proof.
    intros Hg.
    assert (H : forall fs, (forall f, In f fs -> In f (cfields (get_class sc c))) ->
                forall raw, Forall (fun x => forall f, mat sc f x (g x) = true) raw -> length raw = length fs ->
                mat_go sc raw (overlay_go (map g raw) (map slot fs)) fs = true).
    { induction fs as [|f fs IH]; intros Hin raw Hr Hlen; destruct raw as [|x raw]; try discriminate Hlen; [reflexivity|].
      inversion Hr as [|? ? Hx Hr']; subst. cbn [map overlay_go mat_go].
      rewrite IH; [|intros f0 Hf0; apply Hin; right; exact Hf0|exact Hr'|cbn [length] in Hlen; lia]. rewrite andb_true_r.
      destruct (g x) eqn:Hgx; try apply Hx.
      apply (proj1 (Hg x)) in Hgx. subst x. apply (mat_placeholder_slot c). apply Hin. left. reflexivity. }
    intros raw Hr Hlen. apply H; auto.
  Qed.

  Lemma copy_mat o : shaped_top sc o = true -> mat_obj sc o (copy sc o) = true.
  Proof.
    destruct o as [c raw sow unk cur]. unfold shaped_top. cbn [oraw ocls copy]. intros Hlen. apply Nat.eqb_eq in Hlen.
    unfold mat_obj. rewrite mat_np by discriminate. cbn [mat_core].
    rewrite Nat.eqb_refl, eqb_reflx, bytes_eqb_refl, cur_same_refl. cbn [andb].
    rewrite overlay_eq. rewrite <- (map_id raw) at 2.
    apply (mat_go_overlay c (fun x => x)); [intros x; split; auto| |exact Hlen].
    apply Forall_forall. intros x _ f. apply mat_refl.
  Qed.

  Lemma deepcopy_placeholder x : deepcopy_pv sc x = PPlaceholder <-> x = PPlaceholder.
  Proof.
    destruct x as [| | | | | | | | | | |[c raw sow unk cur]]; cbn [deepcopy_pv]; split; intros H; try discriminate H; reflexivity.
  Qed.

  Lemma deepcopy_flat x : flat x = true -> (forall o, x <> PMsg o) -> deepcopy_pv sc x = x.
  Proof.
    intros Hf Hn. destruct x as [| | | | | | | | | | |o]; try reflexivity; try discriminate Hf. exfalso. eapply Hn. reflexivity.
  Qed.

  Lemma deepcopy_mat_all : forall v, shaped sc v = true -> forall f, mat sc f v (deepcopy_pv sc v) = true.
  Proof.
    induction v using pv_induction; intros Hsh f; try apply mat_refl.
    - (* list *)
      cbn [deepcopy_pv]. rewrite mat_np by discriminate. cbn [mat_core]. cbn [shaped] in Hsh.
      induction H as [|x l Hx Hl IH]; [reflexivity|]. cbn [forallb] in Hsh.
      apply andb_true_iff in Hsh as [Hx1 Hsh]. apply andb_true_iff in Hx1 as [Hfl Hxs].
      cbn [map mat_list]. rewrite (IH Hsh), andb_true_r. unfold mat_elem.
      destruct x as [| | | | | | | | | | |[c raw sow unk cur]]; try (rewrite deepcopy_flat by (auto; intros o; discriminate); apply pv_same_refl).
      cbn [deepcopy_pv]. change (PMsg (Obj c (overlay sc c (map (deepcopy_pv sc) raw)) sow unk cur)) with (deepcopy_pv sc (PMsg (Obj c raw sow unk cur))).
      apply Hx. exact Hxs.
    - (* dict *)
      cbn [deepcopy_pv]. rewrite mat_np by discriminate. cbn [mat_core]. cbn [shaped] in Hsh.
      induction H as [|[k x] d [_ Hx] Hl IH]; [reflexivity|].
      apply andb_true_iff in Hsh as [Hx1 Hsh]. apply andb_true_iff in Hx1 as [Hfl Hxs].
      cbn [mat_dict fst snd] in *. rewrite (IH Hsh), andb_true_r, pv_same_refl. cbn [andb]. unfold mat_elem.
      destruct x as [| | | | | | | | | | |[c raw sow unk cur]]; try (rewrite deepcopy_flat by (auto; intros o; discriminate); apply pv_same_refl).
      cbn [deepcopy_pv]. change (PMsg (Obj c (overlay sc c (map (deepcopy_pv sc) raw)) sow unk cur)) with (deepcopy_pv sc (PMsg (Obj c raw sow unk cur))).
      apply Hx. exact Hxs.
    - (* message *)
      cbn [deepcopy_pv]. rewrite mat_np by discriminate. cbn [mat_core]. cbn [shaped] in Hsh.
      apply andb_true_iff in Hsh as [Hlen Hsh]. apply Nat.eqb_eq in Hlen.
      rewrite Nat.eqb_refl, eqb_reflx, bytes_eqb_refl, cur_same_refl. cbn [andb]. rewrite overlay_eq.
      apply (mat_go_overlay c (deepcopy_pv sc)); [apply deepcopy_placeholder| |exact Hlen].
      rewrite forallb_forall in Hsh. rewrite Forall_forall in *. intros x Hin g. apply H; [exact Hin|]. apply Hsh. exact Hin.
  Qed.

  Lemma deepcopy_mat o : shaped_obj sc o = true -> mat_obj sc o (deepcopy sc o) = true.
  Proof.
    intros Hsh. unfold deepcopy, mat_obj. destruct o as [c raw sow unk cur].
    pose proof (deepcopy_mat_all (PMsg (Obj c raw sow unk cur)) Hsh dummy_field) as H.
    cbn [deepcopy_pv] in *. exact H.
  Qed.
End Wf.
