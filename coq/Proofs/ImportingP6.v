(* Proofs/ImportingP6.v — C13, part 6: all references of one module at once.
   The module executes the import lines of ALL its references (imports_end is a set: any order)
   and every annotation is evaluated in the resulting namespace: each still denotes its own
   target class.  Combines resolves_gen (each reference alone) with no_alias_clash_gen (no
   import line can rebind another's alias) and the fact that aliases never equal class names. *)
From BP Require Import Base.Prelude Proofs.BytesP Spec.PyImport Model.Importing.
From BP Require Import Proofs.ImportingP Proofs.ImportingP2 Proofs.ImportingP3 Proofs.ImportingP4 Proofs.ImportingP5.
From Coq Require Import Lia.
Local Open Scope nat_scope.

(* ------------------------------------------------------------------ spec-side lemmas *)
Lemma binds_bound_name w P s n v : binds w P s = Some (n, v) -> bound_name s = Some n.
Proof.
  unfold binds, bound_name. destruct (parse_stmt s) as [[m a|l sub n' a]|]; [| |discriminate].
  - cbn [exec_stmt]. destruct (w_pkg w m); [|discriminate]. intros H. injection H as -> _. reflexivity.
  - cbn [exec_stmt]. destruct l.
    + destruct (from_import w sub n'); [|discriminate]. intros H. injection H as -> _. reflexivity.
    + destruct (rel_base P (S l)); [|discriminate]. destruct (from_import w _ n'); [|discriminate].
      intros H. injection H as -> _. reflexivity.
Qed.

Lemma exec_all_exists w P order :
  (forall s, In s order -> exists b, binds w P s = Some b) -> exists e, exec_all w P order = Some e.
Proof.
  induction order as [|t r IH]; intros H; [exists []; reflexivity|].
  destruct (H t (or_introl eq_refl)) as [b Hb]. destruct IH as [e He]; [intros s Hs; apply H; right; exact Hs|].
  exists (b :: e). cbn [exec_all]. rewrite Hb, He. reflexivity.
Qed.

Lemma exec_all_lookup_some w P order e n v :
  exec_all w P order = Some e -> lookup_env e n = Some v -> exists s, In s order /\ binds w P s = Some (n, v).
Proof.
  revert e. induction order as [|t r IH]; intros e He Hl; cbn [exec_all] in He.
  - injection He as <-. discriminate.
  - destruct (binds w P t) as [[y v0]|] eqn:Hb; [|discriminate]. destruct (exec_all w P r) as [e'|] eqn:He'; [|discriminate].
    injection He as <-. cbn [lookup_env] in Hl. destruct (lookup_env e' n) as [v'|] eqn:L.
    + injection Hl as <-. destruct (IH e' eq_refl L) as [s [Hs Hbs]]. exists s. split; [right; exact Hs | exact Hbs].
    + destruct (bytes_eqb n y) eqn:E; [|discriminate]. injection Hl as <-. apply bytes_eqb_eq in E. subst y.
      exists t. split; [left; reflexivity | exact Hb].
Qed.

Lemma exec_all_lookup_in w P order e s n v :
  exec_all w P order = Some e -> In s order -> binds w P s = Some (n, v) -> exists v', lookup_env e n = Some v'.
Proof.
  revert e. induction order as [|t r IH]; intros e He Hin Hb; [destruct Hin|]. cbn [exec_all] in He.
  destruct (binds w P t) as [[y v0]|] eqn:Hbt; [|discriminate]. destruct (exec_all w P r) as [e'|] eqn:He'; [|discriminate].
  injection He as <-. cbn [lookup_env]. destruct (lookup_env e' n) as [v'|] eqn:L; [eauto|].
  destruct Hin as [->|Hin].
  - rewrite Hb in Hbt. injection Hbt as <- <-. rewrite bytes_eqb_refl. eauto.
  - destruct (IH e' eq_refl Hin Hb) as [v' Hv']. congruence.
Qed.

Lemma exec_all_single w P s e : exec_all w P [s] = Some e -> exists b, binds w P s = Some b /\ e = [b].
Proof.
  cbn [exec_all]. destruct (binds w P s) as [b|]; [|discriminate]. intros H. injection H as <-. eauto.
Qed.

(* ------------------------------------------------------------------ coexistence *)
Record reference := mkRef { r_tgt : list (list byte); r_T : list byte; r_unwrap : bool }.

Section Coexist.
  Variable cls_name snake optional : list byte -> list byte.
  Hypothesis snake_chars : forall s, ident_chars (snake s).
  Hypothesis snake_plain : forall l, l <> [] -> forallb plain_segb l = true -> snake (py_join b_dot l) = py_join b_us l.

  Definition ref_of (cur : list (list byte)) (pyd : bool) (r : reference) : list byte * option (list byte) :=
    get_type_reference cls_name snake optional (py_join b_dot cur) (b_dot :: py_join b_dot (r_tgt r ++ [r_T r])) (r_unwrap r) pyd.

  Definition ref_ok (w : world) (root : list (list byte)) (r : reference) : Prop :=
    plain_pkgb (r_tgt r) = true /\ type_okb (r_T r) = true /\ path_eqb (r_tgt r) google_protobuf = false /\
    cls_ok (cls_name (r_T r)) /\
    world_has w root (r_tgt r) (cls_name (r_T r)).

  Lemma alias_not_cls cur tgt C' sh C :
    Forall plain_facts tgt -> valid cur tgt C' sh -> cls_ok C -> sh_alias sh <> C.
  Proof.
    intros F V K E.
    assert (NE : forall (ys : list (list byte)) x, ys ++ [x] <> []) by (intros ys x; destruct ys; discriminate).
    assert (US : forall r, C = b_us :: r -> False).
    { intros r ->. apply cls_non_us in K. cbn in K. congruence. }
    destruct sh as [x|ys x|d x|d C''|d ys x]; cbn [valid sh_alias] in *.
    - subst tgt. apply Forall_app in F. destruct F as [_ F]. inversion F as [|? ? [_ _ [c [r [-> L]]] _ _] _]; subst.
      rewrite (cls_not_lower (c :: r) c r K eq_refl) in L. discriminate.
    - destruct V as [-> _]. apply Forall_app in F. destruct F as [_ F].
      destruct (join_us_start _ (NE ys x) F) as [c [r [Ej L]]]. rewrite Ej in E. subst C.
      rewrite (cls_not_lower (c :: r) c r K eq_refl) in L. discriminate.
    - exact (US _ (eq_sym E)).
    - destruct V as [_ [-> [Hc _]]]. destruct cur; [congruence|]. cbn [length repeat app] in E. exact (US _ (eq_sym E)).
    - destruct V as [sh' [ra [_ [_ [-> [Hra _]]]]]]. destruct ra; [congruence|]. cbn [length repeat app] in E. exact (US _ (eq_sym E)).
  Qed.

  Theorem coexist (w : world) (root cur : list (list byte)) (pyd : bool) (refs : list reference) (order : list (list byte)) :
    root <> [] -> plain_pkgb cur = true ->
    (forall r, In r refs -> ref_ok w root r) ->
    (forall s, In s order <-> exists r, In r refs /\ snd (ref_of cur pyd r) = Some s) ->
    exists e, exec_all w (root ++ cur) order = Some e /\
      forall r, In r refs ->
        resolve_annotation w (root ++ cur) e (fst (ref_of cur pyd r)) = Some (VCls (root ++ r_tgt r) (cls_name (r_T r))).
  Proof.
    intros Hroot Pcur Hrefs Horder.
    set (P := root ++ cur).
    (* each reference alone *)
    assert (A : forall r, In r refs -> denotes w P (ref_of cur pyd r) (VCls (root ++ r_tgt r) (cls_name (r_T r)))).
    { intros r Hr. destruct (Hrefs r Hr) as [Pt [HT [Hg [K W]]]].
      apply resolves_gen; try assumption.
      - apply plain_pkg_ok, Pcur.
      - apply plain_pkg_ok, Pt.
      - apply plain_not_betterproto, Pt.
      - apply K. }
    (* every import line of the module executes *)
    assert (B : forall s, In s order -> exists b, binds w P s = Some b).
    { intros s Hs. apply Horder in Hs. destruct Hs as [r [Hr Hs]]. destruct (A r Hr) as [e1 [He1 _]].
      rewrite Hs in He1. apply exec_all_single in He1. destruct He1 as [b [Hb _]]. eauto. }
    destruct (exec_all_exists w P order B) as [e He]. exists e. split; [exact He|].
    (* names bound by the module's import lines are aliases of valid shapes *)
    assert (N : forall s n v, In s order -> binds w P s = Some (n, v) ->
              exists r sh, In r refs /\ s = render sh /\ valid cur (r_tgt r) (cls_name (r_T r)) sh /\ n = sh_alias sh
                           /\ snd (ref_of cur pyd r) = Some s).
    { intros s n v Hs Hb. apply Horder in Hs. destruct Hs as [r [Hr Hs]]. destruct (Hrefs r Hr) as [Pt [HT [Hg [K W]]]].
      destruct (gtr_shape_snd cls_name snake optional snake_plain cur (r_tgt r) (r_T r) (r_unwrap r) pyd s Pcur Pt HT Hg Hs) as [sh [-> V]].
      exists r, sh. repeat split; try assumption.
      apply binds_bound_name in Hb.
      destruct (alias_of_render cls_name snake optional snake_plain cur (r_tgt r) (cls_name (r_T r)) sh (plain_pkg_facts _ Pt) K V) as [Ha _].
      unfold alias_of in Ha. congruence. }
    intros r Hr. destruct (Hrefs r Hr) as [Pt [HT [Hg [K W]]]].
    destruct K as [HC HCs].
    destruct (gtr_shape cls_name snake optional snake_plain cur (r_tgt r) (r_T r) (r_unwrap r) pyd Pcur Pt HT Hg) as [[Et E]|[sh [E V]]];
      fold (ref_of cur pyd r) in E.
    - (* reference inside the package: no import; no alias shadows the class name *)
      rewrite E. cbn [fst]. unfold resolve_annotation. rewrite unquote_quoted. unfold resolve.
      rewrite parse_dotted_one by exact HC. unfold lookup_name.
      destruct (lookup_env e (cls_name (r_T r))) as [v|] eqn:L.
      + exfalso. destruct (exec_all_lookup_some w P order e _ v He L) as [s [Hs Hb]].
        destruct (N s _ v Hs Hb) as [r' [sh' [Hr' [_ [V' [En _]]]]]]. destruct (Hrefs r' Hr') as [Pt' _].
        apply (alias_not_cls cur (r_tgt r') _ sh' (cls_name (r_T r)) (plain_pkg_facts _ Pt') V'); [split; assumption | congruence].
      + destruct W as [_ _ Wc]. rewrite Et in *. unfold P. rewrite Wc. reflexivity.
    - (* reference with an import line *)
      destruct (A r Hr) as [e1 [He1 Hres]]. rewrite E in He1, Hres. cbn [fst snd] in He1, Hres. rewrite E. cbn [fst].
      apply exec_all_single in He1. destruct He1 as [[a v] [Hb ->]].
      assert (Hin : In (render sh) order) by (apply Horder; exists r; split; [exact Hr | rewrite E; reflexivity]).
      destruct (alias_of_render cls_name snake optional snake_plain cur (r_tgt r) (cls_name (r_T r)) sh (plain_pkg_facts _ Pt) (conj HC HCs) V) as [Ha Hai].
      assert (Ea : a = sh_alias sh).
      { apply binds_bound_name in Hb. unfold alias_of in Ha. congruence. }
      subst a.
      (* the binding of this alias in the full namespace is this reference's own *)
      assert (L : lookup_env e (sh_alias sh) = Some v).
      { destruct (exec_all_lookup_in w P order e _ _ _ He Hin Hb) as [v' Hv'].
        destruct (exec_all_lookup_some w P order e _ v' He Hv') as [s' [Hs' Hb']].
        destruct (N s' _ v' Hs' Hb') as [r' [sh' [Hr' [Es' [V' [En' Hsnd']]]]]].
        destruct (Hrefs r' Hr') as [Pt' [HT' [Hg' [K' _]]]].
        assert (Eq : s' = render sh).
        { apply (no_alias_clash_gen cls_name snake optional snake_plain cur (r_tgt r') (r_tgt r) (r_T r') (r_T r)
                   (r_unwrap r') (r_unwrap r) pyd s' (render sh)); try assumption; try (split; assumption).
          - fold (ref_of cur pyd r). rewrite E. reflexivity.
          - unfold alias_of. rewrite (binds_bound_name _ _ _ _ _ Hb'), (binds_bound_name _ _ _ _ _ Hb). reflexivity. }
        rewrite Eq in Hb'. rewrite Hb in Hb'. injection Hb' as <-. exact Hv'. }
      revert Hres. unfold resolve_annotation, ref_text.
      destruct sh as [x|ys x|d x|d C''|d ys x]; rewrite unquote_quoted; unfold resolve;
        try (rewrite parse_dotted_two by assumption); try (rewrite parse_dotted_one by assumption);
        unfold lookup_name; rewrite L; cbn [lookup_env]; rewrite bytes_eqb_refl; intros Hres; exact Hres.
  Qed.
End Coexist.

(* ------------------------------------------------------------------ non-vacuity *)
(* functions meeting the three hypotheses of [coexist] exist (the real ones are sampled by the harness) *)
Definition snake_ex (s : list byte) : list byte := map (fun c => if is_ident_char c then c else b_us) s.
Definition cls_ex (_ : list byte) : list byte := [x43].

Lemma snake_ex_chars s : ident_chars (snake_ex s).
Proof.
  unfold ident_chars, snake_ex. apply forallb_forall. intros x Hx. apply in_map_iff in Hx.
  destruct Hx as [c [<- _]]. destruct (is_ident_char c) eqn:E; [exact E | reflexivity].
Qed.

Lemma snake_ex_plain l : l <> [] -> forallb plain_segb l = true -> snake_ex (py_join b_dot l) = py_join b_us l.
Proof.
  intros Hn Hp. apply (plain_pkg_facts l) in Hp.
  assert (Hid : forall a, plain_facts a -> snake_ex a = a).
  { intros a [Hi _ _ _ _]. apply identb_chars in Hi. unfold ident_chars in Hi. rewrite forallb_forall in Hi.
    unfold snake_ex. rewrite <- (map_id a) at 2. apply map_ext_in. intros c Hc. rewrite (Hi c Hc). reflexivity. }
  induction l as [|a l IH]; [congruence|]. inversion Hp as [|? ? Ha Hl]; subst.
  destruct l as [|b l].
  - cbn [py_join]. apply Hid, Ha.
  - rewrite !py_join_cons by discriminate. unfold snake_ex at 1. rewrite map_app. cbn [map].
    change (is_ident_char b_dot) with false. cbv iota.
    fold (snake_ex a). fold (snake_ex (py_join b_dot (b :: l))).
    rewrite (Hid a Ha). rewrite IH; [reflexivity | discriminate | exact Hl].
Qed.

Example coexist_hypotheses_satisfiable :
  (forall s, ident_chars (snake_ex s)) /\
  (forall l, l <> [] -> forallb plain_segb l = true -> snake_ex (py_join b_dot l) = py_join b_us l) /\
  SNK (py_join b_dot [sc; sd]) = snake_ex (py_join b_dot [sc; sd]) /\
  cls_ok (CLS t_T) /\ cls_ok (CLS t_Foo_Bar).
Proof.
  split; [exact snake_ex_chars|]. split; [exact snake_ex_plain|]. repeat split; vm_compute; reflexivity.
Qed.

(* a module a.b referencing a cousin, an ancestor and a descendant at once, with the real casing values:
   all three import lines run (in this order, and in the reverse order) and every annotation denotes its class *)
Definition w_co : world :=
  world_of [sr] [py_join b_dot [sa; sb]; py_join b_dot [sc; sd]; py_join b_dot [sa]; py_join b_dot [sa; sb; sc]]
           [([sr; sc; sd], [CLS t_T]); ([sr; sa], [CLS t_T]); ([sr; sa; sb; sc], [CLS t_T]); ([sr; sa; sb], [CLS t_T])] [].
Definition co_refs := [gtr [sa; sb] [sc; sd] t_T; gtr [sa; sb] [sa] t_T; gtr [sa; sb] [sa; sb; sc] t_T; gtr [sa; sb] [sa; sb] t_T].
Definition co_order := flat_map (fun r => match snd r with Some s => [s] | None => [] end) co_refs.

Example coexist_example :
  length co_order = 3 /\
  forall order, order = co_order \/ order = rev co_order ->
    match exec_all w_co [sr; sa; sb] order with
    | Some e => map (fun r => resolve_annotation w_co [sr; sa; sb] e (fst r)) co_refs
                = [Some (VCls [sr; sc; sd] (CLS t_T)); Some (VCls [sr; sa] (CLS t_T));
                   Some (VCls [sr; sa; sb; sc] (CLS t_T)); Some (VCls [sr; sa; sb] (CLS t_T))]
    | None => False
    end.
Proof. split; [vm_compute; reflexivity|]. intros order [->| ->]; vm_compute; reflexivity. Qed.
