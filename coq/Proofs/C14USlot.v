(* CLONE of Proofs/C01Slot.v with norm_obj replaced by normu_obj (Model/C14UDef.v: every message keeps its unknown
   bytes) and Good by GoodU; see Proofs/C14UMain.v for what changes. *)
(* C01 layer 4d — one singular slot of a message (plain, optional, oneof member, wrapper): what
   Message.dump writes for it drives the decoder from an object whose slot i is still fresh to the
   object whose slot i is the normalised value ([norm_slot]). *)
From Coq Require Import ZArith List Bool Lia ZifyBool.
From BP Require Import Base.Prelude Model.Types Model.Varint Model.Scalar Model.Float Model.Utf8.
From BP Require Import Model.Object Model.Eq Model.TimeCore Model.Encode Model.Decode Model.WellFormed Model.C01Def Model.C14UDef.
From BP Require Import Proofs.C14UUnfold.
From BP Require Import gen.Tables Proofs.BytesP Proofs.LenP Proofs.C01Scalar Proofs.C01Frame Proofs.C01Step Proofs.C01Apply
     Proofs.C01Elem Proofs.C01Field Proofs.C01Builtin Proofs.C01Unfold Proofs.C14UValue.

Definition fresh_of (f : fdesc) : pv := if fopt f then PNone else PPlaceholder.

Definition is_singular (x : pv) : bool :=
  match x with PNone | PPlaceholder | PList _ | PDict _ => false | _ => true end.

(* final _group_current after the bytes of slot i *)
Definition cur_sel (sel : option bool) (f : fdesc) (i : nat) (cur : list (option nat)) : list (option nat) :=
  match sel with Some true => cur_after f i cur | _ => cur end.

(* "nothing was written for this slot" is only possible for a slot that compares equal to its default *)
Definition slot_default (sc : schema) (f : fdesc) (x : pv) : Prop :=
  x = PPlaceholder \/ x = PNone \/ is_default sc f x = true.

Section Slot.
  Variables (sc : schema) (fuel' : nat) (c : nat).
  Hypothesis Hbi : builtins_exact sc = true.
  Let cd := get_class sc c.
  Let fs := cfields cd.
  Let nc := length (classes sc).
  Let ne := length (enums sc).

  Lemma group_selects_shape cur f i :
    match group_selects cur f i with
    | None => fgroup f = None
    | Some b => exists g, fgroup f = Some g /\ b = opt_nat_eqb (nth g cur None) (Some i)
    end.
  Proof. unfold group_selects. destruct (fgroup f) as [g|]; [exists g; auto | reflexivity]. Qed.

  Lemma elem_empty_default f p x :
    fhint f = HPlain p -> pyty_fits nc ne (fty f) p = true ->
    elem_in_range sc (fty f) p x = true -> elemP (GoodU sc) x ->
    elem_empty sc x -> is_default sc f x = true.
  Proof.
    intros Hh Hfit Hr HG He.
    destruct x as [| |z|b|bits|utf8|b|us|us|l|d|o]; cbn [elem_empty] in He; try contradiction.
    - destruct utf8; [|contradiction]. cbn [is_default]. rewrite Hh.
      destruct (fty f), p; try discriminate Hfit; try discriminate Hr; reflexivity.
    - destruct b; [|contradiction]. cbn [is_default]. rewrite Hh.
      destruct (fty f), p; try discriminate Hfit; try discriminate Hr; reflexivity.
    - subst us. cbn [is_default]. rewrite Hh.
      destruct (fty f), p; try discriminate Hfit; try discriminate Hr; reflexivity.
    - subst us. cbn [is_default]. rewrite Hh.
      destruct (fty f), p; try discriminate Hfit; try discriminate Hr; reflexivity.
    - destruct p; try (destruct (fty f); try discriminate Hfit; destruct o; discriminate Hr).
      rewrite elem_in_range_msg in Hr. apply andb_true_iff in Hr as [Hc _]. apply Nat.eqb_eq in Hc. subst c0.
      rewrite (is_default_msg sc f (ocls o) o Hh).
      destruct HG as (bs & Eb & Hd & _). rewrite Eb in He. injection He as ->. apply Hd. reflexivity.
  Qed.

  Lemma marked_norm_elem t x : is_singular x = true -> marked sc (norm_elem (normu_obj sc) t x) = norm_elem (normu_obj sc) t x.
  Proof.
    destruct x as [| |z|b|bits|s|b|us|us|l|d|o]; try discriminate; intros _; try (destruct t; reflexivity).
    cbn [norm_elem]. unfold marked. destruct (fieldless sc (PMsg (normu_obj sc o))); [apply mark_sow_norm | reflexivity].
  Qed.

  Lemma marked_norm_wrapped w x : scalar_in_range w x = true -> marked sc (norm_wrapped sc w x) = norm_wrapped sc w x.
  Proof.
    intros Hr. unfold norm_wrapped. destruct (wrapper_value_type w) as [vt|] eqn:Ev.
    - destruct (is_default _ _ x).
      + destruct vt; reflexivity.
      + destruct w; try discriminate Ev; injection Ev as <-; destruct x; try discriminate Hr; reflexivity.
    - destruct w, x; try discriminate Hr; reflexivity.
  Qed.

  Section OneSlot.
    Variables (cur : list (option nat)) (i : nat) (f : fdesc) (x : pv).
    Hypothesis Hf : nth_error fs i = Some f.
    Hypothesis Hnd : nodup_z (map fnum fs) = true.
    Hypothesis Hwf : wf_field sc (cngroups cd) f = true.
    Hypothesis Hx : is_singular x = true.
    Hypothesis Hr : slot_in_range sc f x = true.
    Hypothesis HG : elemP (GoodU sc) x.
    Hypothesis Hsel : group_selects cur f i <> Some false.

    Let sel := group_selects cur f i.
    Let forced := is_some (fgroup f) || fopt f || (match sel with Some true => true | _ => false end) ||
                  (match x with PMsg o => osow o | _ => false end).

    Lemma enc_slot_singular :
      enc_slot sc cur i f x =
      if is_default sc f x && negb forced then Ok []
      else serialize_with (msg_bytes (enc_obj sc)) (fnum f) (fty f) x forced (fwraps f).
    Proof.
      unfold enc_slot. fold sel.
      assert (Hemit : enc_slot sc cur i f x = emit_field (enc_obj sc) sc f sel x).
      { unfold enc_slot. fold sel. destruct sel as [[|]|] eqn:Es; [| exfalso; apply Hsel; exact Es |];
          destruct x; try discriminate Hx; reflexivity. }
      unfold enc_slot in Hemit. fold sel in Hemit. rewrite Hemit. unfold emit_field.
      assert (Hfo : is_some (fgroup f) || fopt f || (match x with PMsg o => osow o | _ => false end) ||
                    (match sel with Some true => true | _ => false end) = forced).
      { unfold forced. destruct (is_some (fgroup f)), (fopt f), (match x with PMsg o => osow o | _ => false end),
          (match sel with Some true => true | _ => false end); reflexivity. }
      rewrite Hfo.
      destruct (is_default sc f x && negb forced) eqn:Hd; [reflexivity|].
      assert (Hse : (match x with PMsg o => osow o | _ => false end) ||
                    (match x with PStr [] => (match sel with Some true => true | _ => false end) | _ => false end) ||
                    (is_some (fgroup f) || fopt f) = forced).
      { unfold forced.
        pose proof (group_selects_shape cur f i) as Hsh. fold sel in Hsh.
        destruct sel as [[|]|]; [destruct Hsh as (g & -> & _) | destruct Hsh as (g & -> & _) | rewrite Hsh];
          cbn [is_some]; destruct (fopt f), (match x with PMsg o => osow o | _ => false end);
          destruct x; try discriminate Hx; try reflexivity; destruct utf8; reflexivity. }
      destruct x; try discriminate Hx; rewrite <- Hse; reflexivity.
    Qed.

    Variables (rawP : list pv) (unk : list byte) (curP : list (option nat)).
    Hypothesis Hfresh : nth i rawP PPlaceholder = fresh_of f.
    Hypothesis Hlen : (i < length rawP)%nat.
    Hypothesis Hsib : forall g, fgroup f = Some g -> sibs_clear fs rawP g i.

    Lemma fresh_cases : nth i rawP PPlaceholder = PPlaceholder \/ nth i rawP PPlaceholder = PNone.
    Proof. rewrite Hfresh. unfold fresh_of. destruct (fopt f); auto. Qed.

    Lemma cur_sel_eq : cur_sel sel f i curP = cur_after f i curP.
    Proof.
      unfold cur_sel. pose proof (group_selects_shape cur f i) as Hsh. fold sel in Hsh. fold sel in Hsel.
      destruct sel as [[|]|]; [reflexivity | congruence |]. unfold cur_after. rewrite Hsh. reflexivity.
    Qed.

    (* the common conclusion: given the element lemma for x *)
    Lemma slot_from_elem v' (Empty : Prop) :
      ptype_eqb (fty f) TMap = false ->
      (forall l, default_of sc f <> PList l) ->
      elem_enc (msg_bytes (enc_obj sc)) fuel' sc (fty f) (hint_elem (fhint f)) (fwraps f) x v' Empty ->
      marked sc v' = v' ->
      (Empty -> forced = false -> is_default sc f x = true) ->
      norm_slot sc (normu_obj sc) f sel x = (if is_default sc f x && negb forced then fresh_of f else v') ->
      exists here, enc_slot sc cur i f x = Ok here /\ (here = [] -> slot_default sc f x) /\
        (small here -> (length here <= fuel')%nat ->
         feeds fuel' sc cd (Obj c rawP true unk curP) here
               (Obj c (set_nth i (norm_slot sc (normu_obj sc) f sel x) rawP) true unk (cur_sel sel f i curP))).
    Proof.
      intros Hmap Hnl Helem Hmark Hemp Hnorm.
      rewrite enc_slot_singular, Hnorm.
      destruct (is_default sc f x && negb forced) eqn:Hd.
      - exists []. split; [reflexivity|]. apply andb_true_iff in Hd as [Hd Hnf].
        split; [intros _; right; right; exact Hd|]. intros _ _.
        rewrite <- Hfresh, set_nth_same by exact Hlen.
        assert (Hc : cur_sel sel f i curP = curP).
        { unfold cur_sel. apply negb_true_iff in Hnf. unfold forced in Hnf.
          destruct sel as [[|]|]; try reflexivity. rewrite !orb_true_r in Hnf. cbn in Hnf. discriminate. }
        rewrite Hc. apply feeds_nil.
      - destruct (feeds_singular (msg_bytes (enc_obj sc)) fuel' sc c rawP unk curP i f x v' Empty Hf Hnd
                    (wf_field_num _ _ _ Hwf) Hmap Hnl fresh_cases Hsib Helem Hmark forced)
          as (here & Eh & Hempty & Hse & Hfeed).
        exists here. split; [exact Eh|].
        assert (Hne : here <> []).
        { intros Hh. destruct (Hempty Hh) as (Hf0 & HE). rewrite (Hemp HE Hf0), Hf0 in Hd. discriminate. }
        split; [congruence|]. intros Hs Hl. specialize (Hfeed Hs Hl).
        destruct here as [|h0 here']; [congruence|]. cbn [is_nil] in Hfeed. rewrite cur_sel_eq. exact Hfeed.
    Qed.

    Lemma norm_slot_singular :
      norm_slot sc (normu_obj sc) f sel x =
      (if is_default sc f x && negb forced then fresh_of f
       else match fwraps f with Some w => norm_wrapped sc w x | None => norm_elem (normu_obj sc) (fty f) x end).
    Proof.
      unfold norm_slot, forced, fresh_of. fold sel in Hsel.
      destruct sel as [[|]|]; [| congruence |]; destruct x; try discriminate Hx; reflexivity.
    Qed.

    (* every singular slot *)
    Lemma slot_singular p :
      (fhint f = HPlain p \/ fhint f = HOptional p) ->
      exists here, enc_slot sc cur i f x = Ok here /\ (here = [] -> slot_default sc f x) /\
        (small here -> (length here <= fuel')%nat ->
         feeds fuel' sc cd (Obj c rawP true unk curP) here
               (Obj c (set_nth i (norm_slot sc (normu_obj sc) f sel x) rawP) true unk (cur_sel sel f i curP))).
    Proof.
      intros [Hh|Hh].
      - (* plain (possibly a oneof member) *)
        destruct (wf_plain _ _ _ _ Hwf Hh) as (Hfo & Hfw & Hfm & Hmap & Hfit).
        assert (Hr' : elem_in_range sc (fty f) p x = true).
        { unfold slot_in_range in Hr. rewrite Hh in Hr. destruct x; try discriminate Hx; exact Hr. }
        apply (slot_from_elem (norm_elem (normu_obj sc) (fty f) x) (elem_empty sc x)).
        + exact Hmap.
        + intros l. unfold default_of. rewrite Hh. destruct p; discriminate.
        + rewrite Hh, Hfw. cbn [hint_elem]. eapply elem_any; eauto.
        + apply marked_norm_elem. exact Hx.
        + intros He _. eapply elem_empty_default; eauto.
        + rewrite norm_slot_singular, Hfw. reflexivity.
      - destruct (wf_optional _ _ _ _ Hwf Hh) as (Hfm & Hfg & [(w & vt & Hfw & Hfo & Hty & Hwc & Hvt & Hfit) | (Hfw & Hfo & Hmap & Hfit)]).
        + (* wrapper *)
          assert (Hr' : scalar_in_range w x = true).
          { unfold slot_in_range in Hr. rewrite Hh, Hfw in Hr.
            assert (Hp : match p with PyMsg _ | PyDatetime | PyTimedelta => False | _ => True end).
            { destruct w; try discriminate Hvt; injection Hvt as <-; destruct p; try discriminate Hfit; exact I. }
            rewrite <- (scalar_elem_in_range sc w p x Hp). destruct x; try discriminate Hx; exact Hr. }
          apply (slot_from_elem (norm_wrapped sc w x) False).
          * rewrite Hty. reflexivity.
          * intros l. unfold default_of. rewrite Hh. discriminate.
          * rewrite Hh, Hfw, Hty. cbn [hint_elem]. apply (elem_wrapped (enc_obj sc) fuel' sc Hbi w vt x p Hvt).
            -- destruct (wrapper_cls w); [reflexivity|discriminate Hwc].
            -- exact Hr'.
            -- destruct w; try discriminate Hvt; injection Hvt as <-; destruct p; try discriminate Hfit; discriminate.
            -- destruct w; try discriminate Hvt; injection Hvt as <-; destruct p; try discriminate Hfit; discriminate.
          * apply marked_norm_wrapped. exact Hr'.
          * tauto.
          * rewrite norm_slot_singular, Hfw. reflexivity.
        + (* proto3 optional *)
          assert (Hr' : elem_in_range sc (fty f) p x = true).
          { unfold slot_in_range in Hr. rewrite Hh, Hfw in Hr. destruct x; try discriminate Hx; exact Hr. }
          apply (slot_from_elem (norm_elem (normu_obj sc) (fty f) x) (elem_empty sc x)).
          * exact Hmap.
          * intros l. unfold default_of. rewrite Hh. discriminate.
          * rewrite Hh, Hfw. cbn [hint_elem]. eapply elem_any; eauto.
          * apply marked_norm_elem. exact Hx.
          * intros _ Hfa. unfold forced in Hfa. rewrite Hfo in Hfa. rewrite orb_true_r in Hfa. cbn in Hfa. discriminate.
          * rewrite norm_slot_singular, Hfw. reflexivity.
    Qed.
  End OneSlot.
End Slot.
