(* C14 aliasing, part D: allocation reads back as the tree it was built from; the theorems about deepcopy, pickle and
   the shallow copy. *)
From BP Require Import Base.Prelude Model.Types Model.Object Model.Eq Model.Encode Model.Decode Model.History Model.C14Heap.
From BP Require Import Proofs.C14Ind Proofs.C14HeapA Proofs.C14HeapB Proofs.C14HeapC.
From Coq Require Import Lia.
Local Open Scope nat_scope.

(* ---- alloc_pv reads back ---- *)
Lemma alloc_ok_hext h h' : alloc_ok h h' -> hext h h'.
Proof. intros (e & E & _). exists e. exact E. Qed.

Definition alloc_abs_spec (v : pv) : Prop :=
  forall h h' s, alloc_pv h v = (h', s) -> exists n, forall k, n <= k -> abs_slot (abs k h') s = Some v.

Lemma alloc_go_abs l : Forall alloc_abs_spec l ->
  forall h h' ss, alloc_go h l = (h', ss) ->
  exists n, forall k, n <= k -> omapM (abs_slot (abs k h')) ss = Some l.
Proof.
  induction 1 as [|x r Hx Hr IH]; intros h h' ss H; cbn [alloc_go] in H.
  - inversion H; subst. exists O. intros k _. reflexivity.
  - fold alloc_go in H. destruct (alloc_pv h x) as [h1 s] eqn:E1. destruct (alloc_go h1 r) as [h2 ss2] eqn:E2.
    inversion H; subst. destruct (Hx h h1 s E1) as (n1 & A1). destruct (IH h1 h' ss2 E2) as (n2 & A2).
    assert (Hall : Forall alloc_spec r) by (apply Forall_forall; intros; apply alloc_pv_spec).
    destruct (alloc_ok_hext _ _ (proj1 (alloc_go_spec r Hall h1 h' ss2 E2))) as (e & Ee).
    exists (Nat.max n1 n2). intros k Hk. cbn [omapM]. subst h'.
    rewrite (abs_slot_ext k h1 e s x (A1 k ltac:(lia))). rewrite (A2 k ltac:(lia)). reflexivity.
Qed.

Lemma alloc_god_abs d : Forall (fun kv => alloc_abs_spec (fst kv) /\ alloc_abs_spec (snd kv)) d ->
  forall h h' ss, alloc_god h d = (h', ss) ->
  exists n, forall k, n <= k -> omapM (abs_slot (abs k h')) ss = Some (map snd d).
Proof.
  induction 1 as [|[key x] r Hx Hr IH]; intros h h' ss H; cbn [alloc_god] in H.
  - inversion H; subst. exists O. intros k _. reflexivity.
  - fold alloc_god in H. destruct (alloc_pv h x) as [h1 s] eqn:E1. destruct (alloc_god h1 r) as [h2 ss2] eqn:E2.
    inversion H; subst. destruct (proj2 Hx h h1 s E1) as (n1 & A1). destruct (IH h1 h' ss2 E2) as (n2 & A2).
    assert (Hall : Forall (fun kv => alloc_spec (fst kv) /\ alloc_spec (snd kv)) r)
      by (apply Forall_forall; intros; split; apply alloc_pv_spec).
    destruct (alloc_ok_hext _ _ (proj1 (alloc_god_spec r Hall h1 h' ss2 E2))) as (e & Ee).
    exists (Nat.max n1 n2). intros k Hk. cbn [omapM map snd]. subst h'.
    rewrite (abs_slot_ext k h1 e s x (A1 k ltac:(lia))). rewrite (A2 k ltac:(lia)). reflexivity.
Qed.

Lemma combine_fst_snd {A B} (d : list (A * B)) : combine (map fst d) (map snd d) = d.
Proof. induction d as [|[a b] r IH]; cbn [map combine fst snd]; [reflexivity | rewrite IH; reflexivity]. Qed.

Lemma abs_new_cell' k h1 c vs :
  omapM (abs_slot (abs k h1)) (cslots c) = Some vs ->
  abs (S k) (h1 ++ [c]) (length h1) = Some (build (ckind c) vs).
Proof.
  intros H. cbn [abs]. rewrite nth_error_app2 by lia. rewrite Nat.sub_diag. cbn [nth_error].
  rewrite (omapM_abs_ext _ _ [c] _ _ H). reflexivity.
Qed.

Lemma alloc_pv_abs v : alloc_abs_spec v.
Proof.
  induction v using pv_induction; unfold alloc_abs_spec; intros h0 h0' s0 E;
    try (cbn [alloc_pv] in E; inversion E; subst; exists O; intros k _; reflexivity).
  - rewrite alloc_pv_list in E. destruct (alloc_go h0 l) as [h1 ss] eqn:E1. inversion E; subst.
    destruct (alloc_go_abs l H h0 h1 ss E1) as (n & A). exists (S n). intros k Hk.
    destruct k as [|k]; [lia|]. cbn [abs_slot].
    rewrite (abs_new_cell' k h1 (mkCell KList ss) l (A k ltac:(lia))). reflexivity.
  - rewrite alloc_pv_dict in E. destruct (alloc_god h0 d) as [h1 ss] eqn:E1. inversion E; subst.
    destruct (alloc_god_abs d H h0 h1 ss E1) as (n & A). exists (S n). intros k Hk.
    destruct k as [|k]; [lia|]. cbn [abs_slot].
    rewrite (abs_new_cell' k h1 (mkCell (KDict (map fst d)) ss) (map snd d) (A k ltac:(lia))).
    cbn [build ckind]. rewrite combine_fst_snd. reflexivity.
  - rewrite alloc_pv_msg in E. destruct (alloc_go h0 raw) as [h1 ss] eqn:E1. inversion E; subst.
    destruct (alloc_go_abs raw H h0 h1 ss E1) as (n & A). exists (S n). intros k Hk.
    destruct k as [|k]; [lia|]. cbn [abs_slot].
    rewrite (abs_new_cell' k h1 (mkCell (KMsg c sow unk cur) ss) raw (A k ltac:(lia))). reflexivity.
Qed.

(* alloc_tree: fresh, closed region; reads back *)
Lemma alloc_tree_spec h o h' a :
  alloc_tree h o = (h', a) ->
  alloc_ok h h' /\ length h <= a /\ exists n, forall k, n <= k -> abs k h' a = Some (PMsg o).
Proof.
  unfold alloc_tree. intros E. destruct (alloc_pv h (PMsg o)) as [h1 s] eqn:Ea.
  destruct (alloc_pv_spec _ _ _ _ Ea) as [A S1]. destruct (alloc_pv_abs _ _ _ _ Ea) as (n & Hn).
  destruct o as [c raw sow unk cur]. rewrite alloc_pv_msg in Ea. destruct (alloc_go h raw) as [h2 ss].
  inversion Ea; subst. inversion E; subst. split; [exact A|]. split; [exact S1|]. exists n. exact Hn.
Qed.

(* ---- small facts ---- *)
Lemma disjointb_true l1 l2 : (forall a, In a l1 -> In a l2 -> False) -> disjointb l1 l2 = true.
Proof.
  intros H. unfold disjointb. apply forallb_forall. intros a Ha.
  destruct (existsb (Nat.eqb a) l2) eqn:E; [|reflexivity].
  apply existsb_exists in E. destruct E as (b & Hb & Eab). apply Nat.eqb_eq in Eab. subst b.
  exfalso. exact (H a Ha Hb).
Qed.

Lemma disjointb_spec l1 l2 : disjointb l1 l2 = true -> forall a, In a l1 -> In a l2 -> False.
Proof.
  unfold disjointb. intros H a Ha Hb. rewrite forallb_forall in H. pose proof (H a Ha) as Hn.
  apply negb_true_iff in Hn. assert (existsb (Nat.eqb a) l2 = true); [|congruence].
  apply existsb_exists. exists a. split; [exact Hb | apply Nat.eqb_refl].
Qed.

Lemma incl_slot_own (P : addr -> Prop) c : (forall b, In b (refs c) -> P b) -> Forall (slot_own P) (cslots c).
Proof.
  intros H. apply Forall_forall. intros s Hs. destruct s as [v|b]; cbn [slot_own]; [exact I|].
  apply H. apply in_refs. exact Hs.
Qed.

(* the region from L on of a heap of length L is trivially closed *)
Lemma inv_fresh h : inv (fun b => length h <= b) (length h) h.
Proof.
  split; [lia|]. split; [auto|]. intros a c Ha Hn. exfalso.
  assert (a < length h) by (apply nth_error_Some; congruence). lia.
Qed.

(* an untouched footprint keeps its value *)
Lemma untouched_abs own h h' F :
  closed h F -> (forall a, In a F -> ~ own a) -> pres own h h' ->
  forall k a, In a F -> abs k h' a = abs k h a.
Proof.
  intros Hc Hno [_ Hp]. apply frame_abs; [exact Hc|]. intros a Ha. apply Hp. exact (Hno a Ha).
Qed.

(* ================================================================================================== *)
(* a copy that lives in a fresh closed region [L, ..) next to a structure below L                      *)
(* ================================================================================================== *)
Section Separated.
  Variable sc : schema.

  (* mutations through the root of the fresh structure never change anything below L *)
  Lemma fresh_side h' L root' ms F :
    inv (fun b => L <= b) L h' -> L <= root' ->
    closed h' F -> (forall a, In a F -> a < L) ->
    forall k a, In a F -> abs k (h_muts sc h' root' ms) a = abs k h' a.
  Proof.
    intros Hi Hr Hc Hlow.
    pose proof (muts_ok (fun b => L <= b) L sc ms h' root' Hi Hr) as [_ P].
    apply (untouched_abs (fun b => L <= b) h' _ F Hc); [|exact P].
    intros a Ha Hown. pose proof (Hlow a Ha). lia.
  Qed.

  (* mutations through the root of the old structure never change the fresh one *)
  Lemma old_side h' L root ms F T :
    closed h' F -> In root F -> (forall a, In a F -> a < L) ->
    closed h' T -> (forall a, In a T -> L <= a) ->
    forall k a, In a T -> abs k (h_muts sc h' root ms) a = abs k h' a.
  Proof.
    intros HcF HrF HlowF HcT HhighT.
    set (own := fun a => In a F \/ length h' <= a).
    assert (Hi : inv own (length h') h').
    { split; [lia|]. split; [intros a Ha; right; exact Ha|].
      intros a c [Ha|Ha] Hn.
      - destruct (HcF a Ha) as (c' & Hn' & Hinc). rewrite Hn in Hn'. inversion Hn'; subst c'.
        apply incl_slot_own. intros b Hb. left. exact (Hinc b Hb).
      - exfalso. assert (a < length h') by (apply nth_error_Some; congruence). lia. }
    pose proof (muts_ok own (length h') sc ms h' root Hi (or_introl HrF)) as [_ P].
    apply (untouched_abs own h' _ T HcT); [|exact P].
    intros a Ha [Hown|Hown].
    - pose proof (HlowF a Hown). pose proof (HhighT a Ha). lia.
    - pose proof (closed_valid h' T a HcT Ha). lia.
  Qed.
End Separated.

(* ================================================================================================== *)
(* deepcopy                                                                                            *)
(* ================================================================================================== *)
Lemma deepcopy_facts sc n h root v h' root' :
  abs n h root = Some v -> h_deepcopy sc n h root = Some (h', root') ->
  hext h h' /\ inv (fun b => length h <= b) (length h) h' /\ length h <= root' /\
  abs n h' root' = Some (deepcopy_pv sc v).
Proof.
  intros Ha Hd. unfold h_deepcopy in Hd. destruct (dc sc n h [] root) as [[[h1 r1] m1]|] eqn:E; [|discriminate].
  inversion Hd; subst h1 r1.
  destruct (inv_fresh h) as (HL & Hf & Hc).
  assert (Hi0 : dI (length h) h []) by (split; [lia|split; [exact Hc|intros x y []]]).
  destruct (dc_own sc (length h) n _ _ _ _ _ _ E Hi0) as ((HL1 & Hc1 & _) & X1 & O1).
  assert (Ha0 : aI sc h h []) by (split; [apply hext_refl | intros x y []]).
  destruct (dc_abs sc h n _ _ _ _ _ _ E Ha0) as (_ & _ & Hv).
  split; [exact X1|]. split; [split; [exact HL1|split; [exact Hf|exact Hc1]]|]. split; [exact O1|].
  exact (Hv n v Ha).
Qed.

Theorem deepcopy_disjoint sc n h root v h' root' :
  abs n h root = Some v -> h_deepcopy sc n h root = Some (h', root') ->
  disjointb (reach n h' root') (reach n h' root) = true /\
  abs n h' root' = Some (deepcopy_pv sc v) /\
  (forall b, b < length h -> nth_error h' b = nth_error h b) /\
  (forall k, abs k h' root = abs k h root) /\
  reach n h' root = reach n h root /\
  (forall b, In b (reach n h' root') -> length h <= b) /\
  (forall b, In b (reach n h' root) -> b < length h).
Proof.
  intros Ha Hd. destruct (deepcopy_facts sc n h root v h' root' Ha Hd) as (X & Hi & Hr & Hv).
  destruct (abs_closed n h root v Ha) as [HcF HrF].
  assert (Hold : forall b, b < length h -> nth_error h' b = nth_error h b) by (intros b Hb; apply (hext_old _ _ _ X Hb)).
  assert (Hag : forall a, In a (reach n h root) -> nth_error h' a = nth_error h a).
  { intros a Ha'. apply Hold. exact (closed_valid _ _ _ HcF Ha'). }
  assert (Hreach : reach n h' root = reach n h root) by (apply (frame_reach h h' _ HcF Hag); exact HrF).
  assert (Hhigh : forall b, In b (reach n h' root') -> length h <= b).
  { intros b Hb. exact (reach_own _ h' (proj2 (proj2 Hi)) n root' Hr b Hb). }
  assert (Hlow : forall b, In b (reach n h' root) -> b < length h).
  { intros b Hb. rewrite Hreach in Hb. exact (closed_valid _ _ _ HcF Hb). }
  split; [|split; [exact Hv|split; [exact Hold|split; [|split; [exact Hreach|split; [exact Hhigh|exact Hlow]]]]]].
  - apply disjointb_true. intros a H1 H2. pose proof (Hhigh a H1). pose proof (Hlow a H2). lia.
  - intros k. apply (frame_abs h h' _ HcF Hag). exact HrF.
Qed.

Theorem deepcopy_independent sc n h root v h' root' :
  abs n h root = Some v -> h_deepcopy sc n h root = Some (h', root') ->
  forall ms,
  (forall k, abs k (h_muts sc h' root' ms) root = abs k h root) /\
  (forall k, abs k (h_muts sc h' root ms) root' = abs k h' root').
Proof.
  intros Ha Hd ms. destruct (deepcopy_facts sc n h root v h' root' Ha Hd) as (X & Hi & Hr & Hv).
  destruct (abs_closed n h root v Ha) as [HcF HrF].
  assert (Hag : forall a, In a (reach n h root) -> nth_error h' a = nth_error h a).
  { intros a Ha'. apply (hext_old _ _ _ X). exact (closed_valid _ _ _ HcF Ha'). }
  pose proof (closed_frame h h' _ HcF Hag) as HcF'.
  assert (Hlow : forall a, In a (reach n h root) -> a < length h) by (intros a Ha'; exact (closed_valid _ _ _ HcF Ha')).
  split; intros k.
  - rewrite (fresh_side sc h' (length h) root' ms _ Hi Hr HcF' Hlow k root HrF).
    apply (frame_abs h h' _ HcF Hag). exact HrF.
  - destruct (abs_closed n h' root' _ Hv) as [HcT HrT].
    apply (old_side sc h' (length h) root ms _ _ HcF' HrF Hlow HcT); [|exact HrT].
    intros a Ha'. exact (reach_own _ h' (proj2 (proj2 Hi)) n root' Hr a Ha').
Qed.

(* ================================================================================================== *)
(* pickle                                                                                              *)
(* ================================================================================================== *)
Theorem pickle_independent sc n h root h' root' :
  h_pickle_rt sc n h root = Some (h', root') ->
  exists o o', abs n h root = Some (PMsg o) /\ pickle_rt sc o = Ok o' /\
    (exists n', forall k, n' <= k -> abs k h' root' = Some (PMsg o')) /\
    (forall b, b < length h -> nth_error h' b = nth_error h b) /\
    (forall k, abs k h' root = abs k h root) /\
    (forall k b, In b (reach k h' root') -> length h <= b) /\
    (forall b, In b (reach n h' root) -> b < length h) /\
    disjointb (reach n h' root') (reach n h' root) = true /\
    forall ms,
      (forall k, abs k (h_muts sc h' root' ms) root = abs k h root) /\
      (forall k, abs k (h_muts sc h' root ms) root' = abs k h' root').
Proof.
  unfold h_pickle_rt. intros Hp. destruct (abs n h root) as [v|] eqn:Ha; [|discriminate].
  destruct v as [| | | | | | | | | | |o]; try discriminate.
  destruct (pickle_rt sc o) as [o'|] eqn:Epk; [|discriminate]. inversion Hp as [Et]. clear Hp.
  destruct (alloc_tree_spec h o' h' root' Et) as (A & Hr & n' & Hn').
  exists o, o'. split; [reflexivity|]. split; [exact Epk|]. split; [exists n'; exact Hn'|].
  destruct (alloc_ok_inv _ _ h h' (inv_fresh h) A) as (Hi & _ & Hold).
  destruct (abs_closed n h root _ Ha) as [HcF HrF].
  assert (Hag : forall a, In a (reach n h root) -> nth_error h' a = nth_error h a).
  { intros a Ha'. apply Hold. exact (closed_valid _ _ _ HcF Ha'). }
  pose proof (closed_frame h h' _ HcF Hag) as HcF'.
  assert (Hlow : forall a, In a (reach n h root) -> a < length h) by (intros a Ha'; exact (closed_valid _ _ _ HcF Ha')).
  assert (Hreach : reach n h' root = reach n h root) by (apply (frame_reach h h' _ HcF Hag); exact HrF).
  assert (Hhigh : forall k b, In b (reach k h' root') -> length h <= b).
  { intros k b Hb. exact (reach_own _ h' (proj2 (proj2 Hi)) k root' Hr b Hb). }
  split; [exact Hold|]. split; [intros k; apply (frame_abs h h' _ HcF Hag); exact HrF|].
  split; [exact Hhigh|]. split; [intros b Hb; rewrite Hreach in Hb; exact (Hlow b Hb)|].
  split.
  { apply disjointb_true. intros a H1 H2. pose proof (Hhigh n a H1). rewrite Hreach in H2. pose proof (Hlow a H2). lia. }
  intros ms. split; intros k.
  - rewrite (fresh_side sc h' (length h) root' ms _ Hi Hr HcF' Hlow k root HrF).
    apply (frame_abs h h' _ HcF Hag). exact HrF.
  - destruct (abs_closed n' h' root' _ (Hn' n' (le_n n'))) as [HcT HrT].
    apply (old_side sc h' (length h) root ms _ _ HcF' HrF Hlow HcT); [|exact HrT].
    intros a Ha'. exact (Hhigh n' a Ha').
Qed.

(* ================================================================================================== *)
(* the shallow copy                                                                                    *)
(* ================================================================================================== *)
Definition low_pres (L : nat) (h h' : heap) : Prop :=
  length h <= length h' /\ forall b, b < L -> nth_error h' b = nth_error h b.

Lemma low_pres_trans L h1 h2 h3 : low_pres L h1 h2 -> low_pres L h2 h3 -> low_pres L h1 h3.
Proof. intros [L1 A1] [L2 A2]. split; [lia|]. intros b Hb. rewrite (A2 b Hb). exact (A1 b Hb). Qed.

Lemma alloc_low L h v h1 s : L <= length h -> alloc_pv h v = (h1, s) -> low_pres L h h1.
Proof.
  intros HL E. destruct (alloc_ok_hext _ _ (proj1 (alloc_pv_spec v h h1 s E))) as (e & Ee). subst h1.
  split; [rewrite app_length; lia|]. intros b Hb. apply nth_error_app1. lia.
Qed.

Lemma upd_low L h a c : L <= a -> low_pres L h (upd h a c).
Proof.
  intros Ha. split; [rewrite upd_length; lia|]. intros b Hb. unfold upd. apply nth_error_set_nth_ne. lia.
Qed.

Lemma setattr_at_low sc L h a i v : L <= a -> L <= length h -> low_pres L h (h_setattr_at sc h a i v).
Proof.
  intros Ha HL. assert (Hrefl : low_pres L h h) by (split; [lia | reflexivity]).
  unfold h_setattr_at. destruct (nth_error h a) as [c|]; [|exact Hrefl].
  destruct (ckind c) as [cl sow unk cur| |ks]; try exact Hrefl.
  destruct (nth_error (cfields (get_class sc cl)) i) as [f|]; [|exact Hrefl].
  destruct (alloc_pv h (if fieldless sc v then mark_sow v else v)) as [h1 s] eqn:Ea.
  pose proof (alloc_low L h _ h1 s HL Ea) as P1.
  destruct (fgroup f); exact (low_pres_trans _ _ _ _ P1 (upd_low L h1 a _ Ha)).
Qed.

Definition toplevel_sets (l : list (nat * pv)) : list mut := map (fun iv => MSet [] (fst iv) (snd iv)) l.

Lemma toplevel_low sc L root' l : L <= root' -> forall h, L <= length h ->
  low_pres L h (h_muts sc h root' (toplevel_sets l)).
Proof.
  intros Hr. induction l as [|[i v] r IH]; intros h HL; unfold h_muts, toplevel_sets; cbn [map fold_left].
  - split; [lia | reflexivity].
  - cbn [h_mut nav fst snd].
    pose proof (setattr_at_low sc L h root' i v Hr HL) as P1.
    refine (low_pres_trans _ _ _ _ P1 _). apply IH. destruct P1 as [P1 _]. lia.
Qed.

(* h_copy builds one cell; its value is the value-level copy *)
Theorem copy_faithful_heap sc h root h' root' :
  h_copy sc h root = Some (h', root') ->
  root' = length h /\ hext h h' /\
  forall k o, abs (S k) h root = Some (PMsg o) -> abs (S k) h' root' = Some (PMsg (copy sc o)).
Proof.
  unfold h_copy. intros Hc. destruct (nth_error h root) as [c|] eqn:Hn; [|discriminate].
  destruct (ckind c) as [cl sow unk cur| |ks] eqn:Hk; try discriminate. inversion Hc; subst h' root'.
  split; [reflexivity|]. split; [exists [mkCell (KMsg cl sow unk cur) (overlay_slots sc cl (cslots c))]; reflexivity|].
  intros k o Ho. cbn [abs] in Ho. rewrite Hn in Ho.
  destruct (omapM (abs_slot (abs k h)) (cslots c)) as [vs|] eqn:Hm; [|discriminate].
  rewrite Hk in Ho. cbn [build] in Ho. inversion Ho; subst o.
  set (nc := mkCell (KMsg cl sow unk cur) (overlay_slots sc cl (cslots c))).
  rewrite (abs_new_cell' k h nc (overlay sc cl vs)); [reflexivity|].
  cbn [cslots nc]. unfold overlay_slots, overlay.
  apply (overlay_abs (abs k h) (fun b v => abs_not_placeholder k h b v)). exact Hm.
Qed.

Theorem copy_toplevel_independent sc n h root v h' root' :
  abs n h root = Some v -> h_copy sc h root = Some (h', root') ->
  forall l k, abs k (h_muts sc h' root' (toplevel_sets l)) root = abs k h root.
Proof.
  intros Ha Hc l k. destruct (copy_faithful_heap sc h root h' root' Hc) as (Er & X & _).
  destruct (abs_closed n h root v Ha) as [HcF HrF].
  assert (HL : length h <= length h') by exact (hext_length _ _ X).
  destruct (toplevel_low sc (length h) root' l ltac:(lia) h' HL) as [_ P].
  apply (frame_abs h _ _ HcF); [|exact HrF].
  intros a Ha'. pose proof (closed_valid _ _ _ HcF Ha') as Hlt.
  rewrite (P a Hlt). exact (hext_old _ _ _ X Hlt).
Qed.
