(* CLONE of Proofs/C01Obs.v with norm_obj replaced by normu_obj (Model/C14UDef.v: every message keeps its unknown
   bytes), Good by GoodU, c01_value_ok by c14u_value_ok. *)
(* C01 — observers: the decoded message answers which_one_of, "is it None", "is it readable" and
   serialized_on_wire(m.f) for each of its attributes exactly as the original does (obs_top), for a value
   whose selected / non-default sub-messages carry their presence flag (sow_ok). *)
From Coq Require Import ZArith List Bool Lia ZifyBool.
From BP Require Import Base.Prelude Model.Types Model.Varint Model.Scalar Model.Float Model.Utf8.
From BP Require Import Model.Object Model.Eq Model.TimeCore Model.Encode Model.Decode Model.WellFormed Model.C01Def Model.C14UDef.
From BP Require Import Proofs.C14UUnfold.
From BP Require Import gen.Tables Proofs.C01Frame Proofs.C01Step Proofs.C01Apply Proofs.C01Elem Proofs.C01Field Proofs.C01Builtin
     Proofs.C01Unfold Proofs.C14UValue Proofs.C14USlot Proofs.C14USlot2 Proofs.C14UDict Proofs.C14UMsg Proofs.C14UMain Proofs.C14UStable.

(* the value an attribute read returns for raw slot x of field f *)
Definition rd (sc : schema) (f : fdesc) (x : pv) : pv := match x with PPlaceholder => default_of sc f | v => v end.
Definition pv_none (v : pv) : bool := match v with PNone => true | _ => false end.
Definition pv_flag (v : pv) : bool := match v with PMsg o => osow o | _ => false end.

Lemma read_spec sc c raw sow unk cur i f :
  nth_error (cfields (get_class sc c)) i = Some f ->
  read sc (Obj c raw sow unk cur) i =
  match group_selects cur f i with
  | Some false => Err EAttribute
  | _ => Ok (rd sc f (nth i raw PPlaceholder))
  end.
Proof.
  intros Hf. unfold read, getattr. rewrite Hf.
  destruct (group_selects cur f i) as [[|]|]; try reflexivity; destruct (nth i raw PPlaceholder); reflexivity.
Qed.

Lemma list_eqb_refl {A} (e : A -> A -> bool) l : (forall x, e x x = true) -> list_eqb e l l = true.
Proof. intros H. induction l as [|x l IH]; [reflexivity|]. cbn. rewrite H, IH. reflexivity. Qed.

Lemma opt_nat_eqb_refl o : opt_nat_eqb o o = true.
Proof. destruct o; [apply Nat.eqb_refl | reflexivity]. Qed.

Definition sow_slot (sc : schema) (cur : list (option nat)) (i : nat) (f : fdesc) (x : pv) : bool :=
  match x, fhint f with
  | PMsg o', (HPlain _ | HOptional _) =>
      osow o' ||
      negb (negb (is_default sc f x) || fopt f || match group_selects cur f i with Some true => true | _ => false end)
  | PPlaceholder, HPlain (PyMsg _) => negb (match group_selects cur f i with Some true => true | _ => false end)
  | _, _ => true
  end.

Definition sow_slots (sc : schema) (cur : list (option nat)) : nat -> list pv -> list fdesc -> bool :=
  fix go (i : nat) (raw : list pv) (fs : list fdesc) {struct raw} : bool :=
    match raw, fs with
    | x :: raw', f :: fs' => sow_slot sc cur i f x && go (S i) raw' fs'
    | _, _ => true
    end.

Lemma sow_ok_unfold sc c raw sow unk cur :
  sow_ok sc (Obj c raw sow unk cur) = sow_slots sc cur 0 raw (cfields (get_class sc c)).
Proof. reflexivity. Qed.

Lemma sow_slots_nth sc cur : forall raw fs j k x f,
  sow_slots sc cur j raw fs = true -> nth_error raw k = Some x -> nth_error fs k = Some f ->
  sow_slot sc cur (j + k) f x = true.
Proof.
  induction raw as [|x0 raw IH]; intros [|f0 fs] j [|k] x f H Hx Hf; cbn in Hx, Hf; try discriminate;
    cbn [sow_slots] in H; apply andb_true_iff in H as [H1 H2].
  - injection Hx as <-. injection Hf as <-. rewrite Nat.add_0_r. exact H1.
  - replace (j + S k)%nat with (S j + k)%nat by lia. eapply IH; eauto.
Qed.

Lemma obs3 (v1 v2 : pv) :
  pv_none v1 = pv_none v2 -> pv_flag v1 = pv_flag v2 ->
  Bool.eqb (res_ok (Ok v1)) (res_ok (Ok v2)) && Bool.eqb (res_none (Ok v1)) (res_none (Ok v2)) &&
  Bool.eqb (res_flag (Ok v1)) (res_flag (Ok v2)) = true.
Proof.
  intros H1 H2. change (res_none (Ok v1)) with (pv_none v1). change (res_none (Ok v2)) with (pv_none v2).
  change (res_flag (Ok v1)) with (pv_flag v1). change (res_flag (Ok v2)) with (pv_flag v2).
  rewrite H1, H2, !Bool.eqb_reflx. reflexivity.
Qed.

Section Obs.
  Variable sc : schema.
  Hypothesis Hsc : c01_schema_ok sc = true.

  (* one slot: same None-ness, same flag *)
  Lemma slot_obs c cur i f x :
    wf_field sc (cngroups (get_class sc c)) f = true ->
    slot_in_range sc f x = true -> group_selects cur f i <> Some false ->
    sow_slot sc cur i f x = true ->
    let v' := norm_slot sc (normu_obj sc) f (group_selects cur f i) x in
    pv_none (rd sc f x) = pv_none (rd sc f v') /\ pv_flag (rd sc f x) = pv_flag (rd sc f v').
  Proof.
    intros Hwf Hr Hne Hs v'. subst v'.
    destruct (is_singular x) eqn:Hx.
    { destruct (singular_hint sc f x Hx Hr) as (p & Hp).
      rewrite (norm_slot_sing sc cur i f x Hx Hne).
      destruct (is_default sc f x && negb (forced_of cur i f x)) eqn:Hd.
      - (* skipped: the slot stays PLACEHOLDER and reads as the default *)
        apply andb_true_iff in Hd as [Hd Hnf]. apply negb_true_iff in Hnf.
        assert (Hfo : fopt f = false) by (unfold forced_of in Hnf; destruct (is_some (fgroup f)), (fopt f); try discriminate Hnf; reflexivity).
        assert (Hos : pv_flag x = false).
        { unfold forced_of in Hnf. destruct x; try reflexivity. cbn [pv_flag]. destruct (osow o); [|reflexivity].
          rewrite !orb_true_r in Hnf. discriminate. }
        unfold fresh_of. rewrite Hfo. cbn [rd].
        destruct Hp as [Hh|Hh].
        + assert (Hdn : pv_none (default_of sc f) = false /\ pv_flag (default_of sc f) = false).
          { unfold default_of. rewrite Hh. destruct p; split; reflexivity. }
          destruct Hdn as (Hd1 & Hd2). rewrite Hd1, Hd2.
          destruct x; try discriminate Hx; split; try reflexivity; try exact Hos.
        + destruct x; try discriminate Hx; cbn [is_default] in Hd; rewrite Hh in Hd; discriminate Hd.
      - (* written: the decoded value *)
        assert (Hflag : forall o, x = PMsg o -> osow o = true).
        { intros o ->. unfold sow_slot in Hs.
          assert (Hhh : exists q, fhint f = HPlain q \/ fhint f = HOptional q) by (exists p; exact Hp).
          destruct Hhh as (q & [Hq|Hq]); rewrite Hq in Hs;
            (destruct (osow o) eqn:Ho; [reflexivity|]; cbn [orb] in Hs; apply negb_true_iff in Hs;
             exfalso; unfold forced_of in Hd; cbn [osow] in Hd;
             apply orb_false_iff in Hs as [Hs Hs3]; apply orb_false_iff in Hs as [Hs1 Hs2];
             apply negb_false_iff in Hs1; rewrite Hs1, Hs2, Hs3, Ho in Hd;
             pose proof (group_selects_shape cur f i) as Hsh;
             destruct (group_selects cur f i) as [[|]|]; try discriminate Hs3; try congruence;
             rewrite Hsh in Hd; cbn in Hd; discriminate Hd). }
        destruct (fwraps f) as [w|] eqn:Hfw.
        + (* wrapper: scalar in, scalar out *)
          destruct Hp as [Hh|Hh]; [destruct (wf_plain _ _ _ _ Hwf Hh) as (_ & H & _); congruence|].
          destruct (wf_optional _ _ _ _ Hwf Hh) as (_ & _ & [(w' & vt & Hfw' & _ & _ & _ & Hvt & Hfit) | (H & _)]); [|congruence].
          rewrite Hfw in Hfw'. injection Hfw' as <-.
          assert (Hpp : match p with PyMsg _ | PyDatetime | PyTimedelta => False | _ => True end).
          { destruct w; try discriminate Hvt; injection Hvt as <-; destruct p; try discriminate Hfit; exact I. }
          assert (Hr' : scalar_in_range w x = true).
          { unfold slot_in_range in Hr. rewrite Hh, Hfw in Hr.
            rewrite <- (scalar_elem_in_range sc w p x Hpp). destruct x; try discriminate Hx; exact Hr. }
          destruct (norm_wrapped_shape sc w vt x Hvt Hr') as (Hs' & Hm' & _ & _ & Hn' & _ & Hm & _).
          destruct (norm_wrapped sc w x) eqn:En; try discriminate Hs'; try congruence;
            destruct x; try discriminate Hx; try (exfalso; eapply Hm; reflexivity);
            try (exfalso; eapply Hm'; reflexivity); split; reflexivity.
        + destruct x as [| |z|b|bits|s|b|us|us|l|d|o]; try discriminate Hx; cbn [norm_elem];
            try (replace (norm_scalar (fty f) _) with x0 by (destruct (fty f); reflexivity) || idtac).
          all: try (destruct (fty f); split; reflexivity).
          cbn [rd pv_none pv_flag]. rewrite (Hflag o eq_refl), osow_norm. split; reflexivity. }
    (* not singular *)
    destruct x as [| |z|b|bits|s|b|us|us|l|d|o]; try discriminate Hx.
    - (* PLACEHOLDER *)
      destruct (group_selects cur f i) as [[|]|] eqn:Hsel; [| congruence |].
      + pose proof (group_selects_shape cur f i) as Hsh. rewrite Hsel in Hsh. destruct Hsh as (g & Hg & _).
        destruct (fhint f) as [p|p|p|pk pv'] eqn:Hh.
        * assert (Hn : norm_slot sc (normu_obj sc) f (Some true) PPlaceholder
                       = match default_of sc f with PMsg o => PMsg (raise_sow o) | d => d end) by reflexivity.
          rewrite Hn. cbn [rd]. unfold sow_slot in Hs. rewrite Hh in Hs.
          unfold default_of. rewrite Hh. destruct p; try (split; reflexivity). rewrite ?Hsel in Hs. cbn in Hs. discriminate Hs.
        * destruct (wf_optional _ _ _ _ Hwf Hh) as (_ & Hg' & _). congruence.
        * destruct (wf_list _ _ _ _ Hwf Hh) as (_ & _ & _ & Hg' & _). congruence.
        * destruct (wf_dict _ _ _ _ _ Hwf Hh) as (_ & _ & Hg' & _). congruence.
      + assert (Hn : norm_slot sc (normu_obj sc) f None PPlaceholder = fresh_of f) by reflexivity.
        rewrite Hn. unfold fresh_of. destruct (fopt f) eqn:Hfo; [|split; reflexivity].
        cbn [rd]. assert (Hh : exists p, fhint f = HOptional p).
        { destruct (fhint f) as [q|q|q|qk qv] eqn:Hg; eauto.
          - destruct (wf_plain _ _ _ _ Hwf Hg) as (H & _). congruence.
          - destruct (wf_list _ _ _ _ Hwf Hg) as (H & _). congruence.
          - destruct (wf_dict _ _ _ _ _ Hwf Hg) as (H & _). congruence. }
        destruct Hh as (p & Hh). unfold default_of. rewrite Hh. split; reflexivity.
    - (* None *)
      destruct (group_selects cur f i) as [[|]|] eqn:Hsel; [| congruence |].
      + exfalso. pose proof (group_selects_shape cur f i) as Hsh. rewrite Hsel in Hsh. destruct Hsh as (g & Hg & _).
        unfold slot_in_range in Hr. destruct (fhint f) as [p|p|p|pk pv'] eqn:Hh; try discriminate Hr.
        destruct (wf_optional _ _ _ _ Hwf Hh) as (_ & Hg' & _). congruence.
      + assert (Hn : norm_slot sc (normu_obj sc) f None PNone = fresh_of f) by reflexivity.
        rewrite Hn. unfold fresh_of. destruct (fopt f); [split; reflexivity|]. cbn [rd].
        unfold slot_in_range in Hr. unfold default_of. destruct (fhint f); try discriminate Hr. split; reflexivity.
    - (* list *)
      assert (Hh : exists p, fhint f = HList p).
      { unfold slot_in_range in Hr. destruct (fhint f) as [p|p|p|pk pv'] eqn:Hh; eauto;
          rewrite ?elem_in_range_list in Hr; discriminate Hr. }
      destruct Hh as (p & Hh). destruct (wf_list _ _ _ _ Hwf Hh) as (Hfo & _ & _ & Hg & _).
      rewrite (group_none_sel cur i f Hg).
      destruct l as [|y l'].
      + assert (Hn : norm_slot sc (normu_obj sc) f None (PList []) = fresh_of f) by reflexivity.
        rewrite Hn. unfold fresh_of. rewrite Hfo. cbn [rd]. unfold default_of. rewrite Hh. split; reflexivity.
      + split; reflexivity.
    - (* dict *)
      assert (Hh : exists pk pv', fhint f = HDict pk pv').
      { unfold slot_in_range in Hr. destruct (fhint f) as [p|p|p|pk pv'] eqn:Hh; eauto;
          rewrite ?elem_in_range_dict in Hr; discriminate Hr. }
      destruct Hh as (pk & pv' & Hh). destruct (wf_dict _ _ _ _ _ Hwf Hh) as (Hfo & _ & Hg & _ & kt & vt & Hm & _).
      rewrite (group_none_sel cur i f Hg).
      destruct d as [|kv0 d'].
      + assert (Hn : norm_slot sc (normu_obj sc) f None (PDict []) = fresh_of f) by reflexivity.
        rewrite Hn. unfold fresh_of. rewrite Hfo. cbn [rd]. unfold default_of. rewrite Hh. split; reflexivity.
      + unfold norm_slot. rewrite Hm. split; reflexivity.
  Qed.

  Definition obs_go (a b : obj) : nat -> list pv -> bool :=
    fix go (i : nat) (ra : list pv) {struct ra} : bool :=
      match ra with
      | [] => true
      | _ :: ra' =>
          Bool.eqb (res_ok (read sc a i)) (res_ok (read sc b i)) &&
          Bool.eqb (res_none (read sc a i)) (res_none (read sc b i)) &&
          Bool.eqb (res_flag (read sc a i)) (res_flag (read sc b i)) && go (S i) ra'
      end.

  Lemma obs_top_unfold a b : obs_top sc a b = list_eqb opt_nat_eqb (ocur a) (ocur b) && obs_go a b 0 (oraw a).
  Proof. reflexivity. Qed.

  Theorem obs_top_norm m :
    value_ok sc m -> sow_ok sc m = true -> obs_top sc m (normu_obj sc m) = true.
  Proof.
    destruct m as [c raw sow unk cur]. intros (Hr & Hd) Hsow.
    rewrite in_range_unfold in Hr. rewrite deep_msg in Hd.
    apply andb_true_iff in Hr as [Hr Hsl]. apply andb_true_iff in Hr as [Hr Hcl]. apply andb_true_iff in Hr as [_ Hlen].
    apply Nat.eqb_eq in Hlen.
    destruct (schema_class_facts sc c Hsc) as (Hwf & _).
    rewrite sow_ok_unfold in Hsow.
    rewrite obs_top_unfold, normu_obj_unfold. cbn [ocur oraw].
    rewrite (list_eqb_refl opt_nat_eqb cur opt_nat_eqb_refl). cbn [andb].
    set (fs := cfields (get_class sc c)) in *.
    set (a := Obj c raw sow unk cur). set (b := Obj c (normu_slots sc cur 0 raw fs) true unk cur).
    assert (H : forall rest i, (forall k x, nth_error rest k = Some x -> nth_error raw (i + k) = Some x) ->
              obs_go a b i rest = true).
    { induction rest as [|x rest IH]; intros i Hrest; [reflexivity|].
      cbn [obs_go]. rewrite IH.
      2:{ intros k y Hk. replace (S i + k)%nat with (i + S k)%nat by lia. apply Hrest. exact Hk. }
      rewrite andb_true_r.
      assert (Hx : nth_error raw i = Some x) by (rewrite <- (Nat.add_0_r i); apply Hrest; reflexivity).
      destruct (nth_error fs i) as [f|] eqn:Hf.
      2:{ exfalso. apply nth_error_None in Hf. assert (i < length raw)%nat by (apply nth_error_Some; congruence). lia. }
      unfold a, b.
      rewrite !(read_spec sc c _ _ _ cur i f Hf).
      destruct (group_selects cur f i) as [[|]|] eqn:Hsel; try reflexivity.
      all: rewrite (nth_error_nth raw i PPlaceholder Hx).
      all: rewrite (normu_slots_nth sc cur raw fs 0 i x f Hx Hf); cbn [Nat.add]; rewrite Hsel.
      all: assert (Hne : group_selects cur f i <> Some false) by (rewrite Hsel; discriminate).
      all: destruct (slot_obs c cur i f x (forallb_nth_error _ _ _ _ Hwf Hf) (slots_in_range_nth sc raw fs i x f Hsl Hx Hf)
                              Hne (sow_slots_nth sc cur raw fs 0 i x f Hsow Hx Hf)) as (H1 & H2).
      all: rewrite Hsel in H1, H2; apply obs3; assumption. }
    apply (H raw 0%nat). intros k x Hk. exact Hk.
  Qed.
End Obs.

Lemma c14u_observers_agree sc m :
  c01_schema_ok sc = true -> c14u_value_ok sc m = true -> sow_ok sc m = true ->
  obs_top sc m (normu_obj sc m) = true.
Proof. intros Hs Hv Hw. apply c14u_value_ok_spec in Hv. exact (obs_top_norm sc Hs m Hv Hw). Qed.
