(* C17: _load_field / _read_exactly against the record specification (Model/C17Wire.v):
   soundness (whatever it accepts is a complete payload, consumed exactly, raw = the bytes read),
   completeness (every complete payload is read, whatever follows), fuel sufficiency and
   monotonicity, prefix-freeness of the specification (so a cut payload is never accepted). *)
From BP Require Import Base.Prelude Model.Types Model.Varint Model.Decode Spec.Varint.
From BP Require Import Model.C17Wire Proofs.BytesP Proofs.VarintP.
From BP Require Import gen.Tables.
From Coq Require Import ZifyBool.
Ltac Zify.zify_post_hook ::= Z.to_euclidean_division_equations.

Lemma Zlength_app' {A} (a b : list A) : Zlength (a ++ b) = Zlength a + Zlength b.
Proof. unfold Zlength. rewrite app_length. lia. Qed.

(* ---------- load_varint ---------- *)
Lemma load_varint_inv s v raw rest :
  load_varint s = Ok (v, raw, rest) ->
  s = raw ++ rest /\ VarintRep v raw /\ (1 <= length raw)%nat.
Proof.
  intros H. apply load_varint_sound in H. destruct H as [-> R]. repeat split; try apply R.
  apply shape_length_pos, R.
Qed.

Lemma load_varint_not_fuel s : load_varint s <> Err EFuel.
Proof.
  unfold load_varint. destruct (load_go_total 10 0 0 [] s) as [[x H]|[H|H]]; rewrite H; discriminate.
Qed.

Lemma VarintRep_nonempty n bs : VarintRep n bs -> (1 <= length bs)%nat.
Proof. intros R. apply shape_length_pos, R. Qed.

(* varints are a prefix-free code *)
Lemma shape_prefix_free a : forall b x y, varint_shape a -> varint_shape b -> a ++ x = b ++ y -> a = b.
Proof.
  induction a as [|c a IH]; intros b x y Sa Sb E; [cbn in Sa; tauto|].
  destruct b as [|d b]; [cbn in Sb; tauto|].
  cbn [app] in E. injection E as -> E.
  cbn [varint_shape] in Sa, Sb. destruct a as [|c' a'], b as [|d' b']; try reflexivity; try lia.
  f_equal. apply (IH _ x y); tauto.
Qed.

Lemma VarintRep_prefix_free n m a b x y :
  VarintRep n a -> VarintRep m b -> a ++ x = b ++ y -> a = b /\ n = m /\ x = y.
Proof.
  intros Ra Rb E. assert (a = b) by (eapply shape_prefix_free; [apply Ra | apply Rb | exact E]).
  subst b. split; [reflexivity|]. split.
  - destruct Ra as (_ & <- & _), Rb as (_ & <- & _). reflexivity.
  - apply app_inv_head in E. exact E.
Qed.

(* a proper prefix of a varint: every byte has the continuation bit, so the stream ends inside it *)
Lemma shape_proper_prefix_high a : forall x y, varint_shape a -> a = x ++ y -> y <> [] ->
  Forall (fun b => 128 <= Z_of_byte b) x.
Proof.
  induction a as [|c a IH]; intros x y Sa E Hy; [cbn in Sa; tauto|].
  destruct x as [|d x]; [constructor|]. cbn [app] in E. injection E as <- E.
  cbn [varint_shape] in Sa. destruct a as [|c' a'].
  - destruct x, y; cbn in E; try discriminate. congruence.
  - constructor; [lia|]. eapply IH; [apply Sa | exact E | exact Hy].
Qed.

Lemma load_varint_cut n a x y :
  VarintRep n a -> a = x ++ y -> y <> [] -> load_varint x = Err EEof.
Proof.
  intros (Sa & _ & Le) E Hy. unfold load_varint. apply load_go_eof.
  - subst a. rewrite app_length in Le. destruct y; [congruence|]. cbn [length] in Le. lia.
  - eapply shape_proper_prefix_high; eauto.
Qed.

(* ---------- _read_exactly ---------- *)
Lemma read_exactly_inv s n d s' :
  read_exactly s n = Ok (d, s') -> s = d ++ s' /\ Zlength d = n /\ 0 <= n.
Proof.
  unfold read_exactly. destruct ((0 <=? n) && (n <=? Zlength s)) eqn:C; [|discriminate].
  intros H. injection H as <- <-. rewrite firstn_skipn. split; [reflexivity|].
  unfold Zlength in *. rewrite firstn_length. lia.
Qed.

Lemma read_exactly_app d rest : read_exactly (d ++ rest) (Zlength d) = Ok (d, rest).
Proof.
  unfold read_exactly. rewrite Zlength_app'.
  replace ((0 <=? Zlength d) && (Zlength d <=? Zlength d + Zlength rest)) with true
    by (unfold Zlength; lia).
  unfold Zlength. rewrite Nat2Z.id. rewrite firstn_app, Nat.sub_diag, firstn_all, skipn_app, Nat.sub_diag, skipn_all.
  cbn. rewrite app_nil_r. reflexivity.
Qed.

Lemma read_exactly_short s n : Zlength s < n -> read_exactly s n = Err EEof.
Proof.
  intros H. unfold read_exactly. replace ((0 <=? n) && (n <=? Zlength s)) with false by lia. reflexivity.
Qed.

Lemma read_exactly_not_fuel s n : read_exactly s n <> Err EFuel.
Proof. unfold read_exactly. destruct (_ && _); discriminate. Qed.

(* ---------- the group loop, named ---------- *)
Definition group_loop (fuel' : nat) (number wire_type : Z)
  : nat -> list byte -> list byte -> result (parsed * list byte) :=
  fix group (n : nat) (s : list byte) (raw : list byte) {struct n} : result (parsed * list byte) :=
    match n with
    | O => Err EFuel
    | S n' =>
        do (inner, r, s1) <- load_varint s;
        if Z.land inner 7 =? WIRE_END_GROUP then
          if Z.shiftr inner 3 =? number then Ok (mkP number wire_type 0 [] (raw ++ r), s1)
          else Err EValue
        else
          do (p, s2) <- load_field fuel' s1 inner (raw ++ r);
          group n' s2 (praw p)
    end.

Lemma load_field_unfold fuel s nw raw :
  load_field fuel s nw raw =
  (let number := Z.shiftr nw 3 in
   let wire_type := Z.land nw 7 in
   if number =? 0 then Err EValue
   else if wire_type =? WIRE_VARINT then
     do (v, r, s') <- load_varint s; Ok (mkP number wire_type v [] (raw ++ r), s')
   else if wire_type =? WIRE_FIXED_64 then
     do (d, s') <- read_exactly s 8; Ok (mkP number wire_type 0 d (raw ++ d), s')
   else if wire_type =? WIRE_LEN_DELIM then
     do (len, r, s1) <- load_varint s;
     do (d, s') <- read_exactly s1 len;
     Ok (mkP number wire_type 0 d (raw ++ r ++ d), s')
   else if wire_type =? WIRE_FIXED_32 then
     do (d, s') <- read_exactly s 4; Ok (mkP number wire_type 0 d (raw ++ d), s')
   else if wire_type =? WIRE_START_GROUP then
     match fuel with
     | O => Err EFuel
     | S fuel' => group_loop fuel' number wire_type fuel s raw
     end
   else Err EValue).
Proof. destruct fuel; reflexivity. Qed.

Lemma tag_wt_range nw : 0 <= Z.land nw 7 < 8.
Proof. change 7 with (Z.ones 3). rewrite Z.land_ones by lia. apply Z.mod_pos_bound. lia. Qed.

(* ---------- soundness ---------- *)
Definition field_ok (nw : Z) (raw s : list byte) (p : parsed) (s' : list byte) : Prop :=
  exists pl, s = pl ++ s' /\ wpayload nw pl /\ praw p = raw ++ pl /\
             pnum p = tag_num nw /\ pwt p = tag_wt nw /\
             (tag_wt nw = 2 -> exists lb, pl = lb ++ pbytes p /\ (1 <= length lb)%nat) /\
             (tag_wt nw = 1 \/ tag_wt nw = 5 -> pl = pbytes p) /\
             (tag_wt nw = 0 -> VarintRep (pint p) pl) /\
             (length (pbytes p) <= length pl)%nat.

Ltac fo_split := split; [|split; [|split; [|split; [|split; [|split; [|split; [|split]]]]]]].

Lemma load_field_sound fuel : forall s nw raw p s',
  load_field fuel s nw raw = Ok (p, s') -> field_ok nw raw s p s'.
Proof.
  induction fuel as [|fuel IH]; intros s nw raw p s' H; rewrite load_field_unfold in H; cbv zeta in H;
    pose proof (tag_wt_range nw) as Hr;
    unfold WIRE_VARINT, WIRE_FIXED_64, WIRE_LEN_DELIM, WIRE_FIXED_32, WIRE_START_GROUP in H;
    (destruct (Z.shiftr nw 3 =? 0) eqn:En; [discriminate|]);
    (destruct (Z.land nw 7 =? 0) eqn:E0;
     [ destruct (load_varint s) as [[[v r] s1]|] eqn:Ev; cbn [bind] in H; [|discriminate];
       injection H as <- <-; apply load_varint_inv in Ev as (-> & Rv & _);
       exists r; cbn [praw pnum pwt pbytes pint]; unfold tag_num, tag_wt;
       fo_split; try reflexivity; try (intros; lia); try (intros; exact Rv); try (cbn [length]; lia);
       eapply PVarint; unfold tag_num, tag_wt; try lia; exact Rv |]);
    (destruct (Z.land nw 7 =? 1) eqn:E1;
     [ destruct (read_exactly s 8) as [[d s1]|] eqn:Ed; cbn [bind] in H; [|discriminate];
       injection H as <- <-; apply read_exactly_inv in Ed as (-> & Ld & _);
       exists d; cbn [praw pnum pwt pbytes pint]; unfold tag_num, tag_wt;
       fo_split; try reflexivity; try (intros; lia); try (cbn [length]; lia);
       eapply PFixed64; unfold tag_num, tag_wt; try lia; unfold Zlength in Ld; lia |]);
    (destruct (Z.land nw 7 =? 2) eqn:E2;
     [ destruct (load_varint s) as [[[len r] s1]|] eqn:Ev; cbn [bind] in H; [|discriminate];
       destruct (read_exactly s1 len) as [[d s2]|] eqn:Ed; cbn [bind] in H; [|discriminate];
       injection H as <- <-; apply load_varint_inv in Ev as (-> & Rv & Hl);
       apply read_exactly_inv in Ed as (-> & Ld & _);
       exists (r ++ d); cbn [praw pnum pwt pbytes pint]; unfold tag_num, tag_wt; rewrite <- app_assoc;
       fo_split; try reflexivity; try (intros; lia); try (rewrite app_length; lia);
       [ eapply PLen; unfold tag_num, tag_wt; try lia; rewrite Ld; exact Rv
       | intros _; exists r; split; [reflexivity | exact Hl] ] |]);
    (destruct (Z.land nw 7 =? 5) eqn:E5;
     [ destruct (read_exactly s 4) as [[d s1]|] eqn:Ed; cbn [bind] in H; [|discriminate];
       injection H as <- <-; apply read_exactly_inv in Ed as (-> & Ld & _);
       exists d; cbn [praw pnum pwt pbytes pint]; unfold tag_num, tag_wt;
       fo_split; try reflexivity; try (intros; lia); try (cbn [length]; lia);
       eapply PFixed32; unfold tag_num, tag_wt; try lia; unfold Zlength in Ld; lia |]);
    (destruct (Z.land nw 7 =? 3) eqn:E3; [|discriminate]).
  - discriminate.
  - (* the group loop *)
    assert (G : forall n s raw p s',
      group_loop fuel (Z.shiftr nw 3) (Z.land nw 7) n s raw = Ok (p, s') ->
      exists inner enw etag, s = inner ++ etag ++ s' /\ wrecs inner /\ VarintRep enw etag /\
        tag_wt enw = 4 /\ tag_num enw = tag_num nw /\ praw p = raw ++ inner ++ etag /\
        pnum p = tag_num nw /\ pwt p = tag_wt nw /\ pbytes p = []).
    { clear H s raw p s'. induction n as [|n IHn]; intros s raw p s' H; [discriminate|].
      cbn [group_loop] in H. fold (group_loop fuel (Z.shiftr nw 3) (Z.land nw 7)) in H.
      destruct (load_varint s) as [[[inner r] s1]|] eqn:Ev; cbn [bind] in H; [|discriminate].
      apply load_varint_inv in Ev as (-> & Rv & _).
      unfold WIRE_END_GROUP in H.
      destruct (Z.land inner 7 =? 4) eqn:E4.
      - destruct (Z.shiftr inner 3 =? Z.shiftr nw 3) eqn:Eq; [|discriminate]. injection H as <- <-.
        exists [], inner, r. cbn [app praw pnum pwt]. unfold tag_num, tag_wt.
        split; [reflexivity|]. split; [constructor|]. split; [exact Rv|].
        split; [lia|]. split; [lia|]. split; [reflexivity|]. split; [reflexivity|]. split; reflexivity.
      - destruct (load_field fuel s1 inner (raw ++ r)) as [[p1 s2]|] eqn:Ef; cbn [bind] in H; [|discriminate].
        apply IH in Ef. destruct Ef as (pl & -> & Wp & Hraw & _).
        apply IHn in H. destruct H as (inner' & enw & etag & -> & Wi & Re & T4 & Tn & Hraw' & Hn & Hw & Hb).
        exists (r ++ pl ++ inner'), enw, etag. rewrite Hraw' , Hraw. rewrite <- !app_assoc.
        split; [reflexivity|]. split; [econstructor; eassumption|]. split; [exact Re|].
        split; [exact T4|]. split; [exact Tn|]. split; [reflexivity|]. split; [assumption|]. split; assumption. }
    apply G in H. destruct H as (inner & enw & etag & -> & Wi & Re & T4 & Tn & Hraw & Hn & Hw & Hb).
    exists (inner ++ etag). rewrite <- app_assoc.
    fo_split; try assumption; try reflexivity; unfold tag_wt; try (intros; lia); try (rewrite Hb; cbn [length]; lia).
    eapply PGroup; unfold tag_num, tag_wt in *; try eassumption; lia.
Qed.

Lemma field_ok_shorter nw raw s p s' : field_ok nw raw s p s' -> (length s' <= length s)%nat.
Proof. intros (pl & -> & _). rewrite app_length. lia. Qed.

(* ---------- fuel: sufficiency ---------- *)
Lemma load_field_fuel_ok fuel : forall s nw raw,
  (length s < fuel)%nat -> load_field fuel s nw raw <> Err EFuel.
Proof.
  induction fuel as [|fuel IH]; intros s nw raw Hl; [lia|].
  rewrite load_field_unfold. cbv zeta.
  destruct (_ =? 0); [discriminate|].
  destruct (_ =? WIRE_VARINT).
  { pose proof (load_varint_not_fuel s). destruct (load_varint s) as [[[? ?] ?]|]; cbn [bind]; congruence. }
  destruct (_ =? WIRE_FIXED_64).
  { pose proof (read_exactly_not_fuel s 8). destruct (read_exactly s 8) as [[? ?]|]; cbn [bind]; congruence. }
  destruct (_ =? WIRE_LEN_DELIM).
  { pose proof (load_varint_not_fuel s). destruct (load_varint s) as [[[len ?] s1]|]; cbn [bind]; [|congruence].
    pose proof (read_exactly_not_fuel s1 len). destruct (read_exactly s1 len) as [[? ?]|]; cbn [bind]; congruence. }
  destruct (_ =? WIRE_FIXED_32).
  { pose proof (read_exactly_not_fuel s 4). destruct (read_exactly s 4) as [[? ?]|]; cbn [bind]; congruence. }
  destruct (_ =? WIRE_START_GROUP); [|discriminate].
  assert (G : forall n s raw, (length s < n)%nat -> (length s <= fuel)%nat ->
              group_loop fuel (Z.shiftr nw 3) (Z.land nw 7) n s raw <> Err EFuel).
  { clear s raw Hl. induction n as [|n IHn]; intros s raw Hn Hf; [lia|].
    cbn [group_loop]. fold (group_loop fuel (Z.shiftr nw 3) (Z.land nw 7)).
    pose proof (load_varint_not_fuel s) as Hv.
    destruct (load_varint s) as [[[inner r] s1]|] eqn:Ev; cbn [bind]; [|congruence].
    apply load_varint_inv in Ev as (-> & _ & Hr). rewrite app_length in Hn, Hf.
    destruct (_ =? WIRE_END_GROUP); [destruct (_ =? _); discriminate|].
    pose proof (IH s1 inner (raw ++ r) ltac:(lia)) as Hlf.
    destruct (load_field fuel s1 inner (raw ++ r)) as [[p s2]|] eqn:Ef; cbn [bind]; [|congruence].
    apply load_field_sound, field_ok_shorter in Ef. apply IHn; lia. }
  apply G; lia.
Qed.

(* ---------- fuel: irrelevance once sufficient ---------- *)
Lemma load_field_fuel_irrel fuel1 : forall fuel2 s nw raw,
  (length s < fuel1)%nat -> (length s < fuel2)%nat ->
  load_field fuel1 s nw raw = load_field fuel2 s nw raw.
Proof.
  induction fuel1 as [|fuel1 IH]; intros fuel2 s nw raw H1 H2; [lia|].
  destruct fuel2 as [|fuel2]; [lia|].
  rewrite !load_field_unfold. cbv zeta.
  destruct (_ =? 0); [reflexivity|].
  destruct (_ =? WIRE_VARINT); [reflexivity|].
  destruct (_ =? WIRE_FIXED_64); [reflexivity|].
  destruct (_ =? WIRE_LEN_DELIM); [reflexivity|].
  destruct (_ =? WIRE_FIXED_32); [reflexivity|].
  destruct (_ =? WIRE_START_GROUP); [|reflexivity].
  assert (G : forall n1 n2 s raw, (length s < n1)%nat -> (length s < n2)%nat ->
              (length s <= fuel1)%nat -> (length s <= fuel2)%nat ->
              group_loop fuel1 (Z.shiftr nw 3) (Z.land nw 7) n1 s raw =
              group_loop fuel2 (Z.shiftr nw 3) (Z.land nw 7) n2 s raw).
  { clear s raw H1 H2. induction n1 as [|n1 IHn]; intros n2 s raw Hn1 Hn2 Hf1 Hf2; [lia|].
    destruct n2 as [|n2]; [lia|].
    cbn [group_loop]. fold (group_loop fuel1 (Z.shiftr nw 3) (Z.land nw 7)).
    fold (group_loop fuel2 (Z.shiftr nw 3) (Z.land nw 7)).
    destruct (load_varint s) as [[[inner r] s1]|] eqn:Ev; cbn [bind]; [|reflexivity].
    apply load_varint_inv in Ev as (-> & _ & Hr). rewrite app_length in *.
    destruct (_ =? WIRE_END_GROUP); [reflexivity|].
    rewrite (IH fuel2 s1 inner (raw ++ r)) by lia.
    destruct (load_field fuel2 s1 inner (raw ++ r)) as [[p s2]|] eqn:Ef; cbn [bind]; [|reflexivity].
    apply load_field_sound, field_ok_shorter in Ef. apply IHn; lia. }
  apply G; lia.
Qed.

(* monotonicity: a result obtained with some fuel is the result with any larger fuel *)
Lemma load_field_fuel_mono fuel : forall s nw raw x,
  load_field fuel s nw raw = Ok x -> forall fuel2, (fuel <= fuel2)%nat -> load_field fuel2 s nw raw = Ok x.
Proof.
  induction fuel as [|fuel IH]; intros s nw raw x H fuel2 Hle.
  - rewrite load_field_unfold in *. cbv zeta in *.
    destruct (_ =? 0); [discriminate|].
    destruct (_ =? WIRE_VARINT); [exact H|].
    destruct (_ =? WIRE_FIXED_64); [exact H|].
    destruct (_ =? WIRE_LEN_DELIM); [exact H|].
    destruct (_ =? WIRE_FIXED_32); [exact H|].
    destruct (_ =? WIRE_START_GROUP); discriminate.
  - destruct fuel2 as [|fuel2]; [lia|].
    rewrite load_field_unfold in *. cbv zeta in *.
    destruct (_ =? 0); [discriminate|].
    destruct (_ =? WIRE_VARINT); [exact H|].
    destruct (_ =? WIRE_FIXED_64); [exact H|].
    destruct (_ =? WIRE_LEN_DELIM); [exact H|].
    destruct (_ =? WIRE_FIXED_32); [exact H|].
    destruct (_ =? WIRE_START_GROUP); [|discriminate].
    assert (G : forall n1 s raw x, group_loop fuel (Z.shiftr nw 3) (Z.land nw 7) n1 s raw = Ok x ->
                forall n2, (n1 <= n2)%nat -> group_loop fuel2 (Z.shiftr nw 3) (Z.land nw 7) n2 s raw = Ok x).
    { clear s raw x H. induction n1 as [|n1 IHn]; intros s raw x H n2 Hn; [discriminate|].
      destruct n2 as [|n2]; [lia|].
      cbn [group_loop] in *. fold (group_loop fuel (Z.shiftr nw 3) (Z.land nw 7)) in H.
      fold (group_loop fuel2 (Z.shiftr nw 3) (Z.land nw 7)).
      destruct (load_varint s) as [[[inner r] s1]|]; cbn [bind] in *; [|discriminate].
      destruct (_ =? WIRE_END_GROUP); [exact H|].
      destruct (load_field fuel s1 inner (raw ++ r)) as [[p s2]|] eqn:Ef; cbn [bind] in H; [|discriminate].
      rewrite (IH _ _ _ _ Ef fuel2) by lia. cbn [bind]. apply (IHn _ _ _ H). lia. }
    apply (G _ _ _ _ H). lia.
Qed.

(* ---------- completeness ---------- *)
Lemma wpayload_tag nw pl : wpayload nw pl -> tag_num nw <> 0 /\ tag_wt nw <> 4 /\ 0 <= tag_wt nw <= 5.
Proof. intros W. inversion W; subst; lia. Qed.

Lemma load_field_complete_gen :
  (forall nw pl, wpayload nw pl ->
     forall fuel rest raw, (length (pl ++ rest) < fuel)%nat ->
     exists p, load_field fuel (pl ++ rest) nw raw = Ok (p, rest)) /\
  (forall inner, wrecs inner ->
     forall fuel number wt n rest raw enw etag,
       VarintRep enw etag -> tag_wt enw = 4 -> tag_num enw = number ->
       (length (inner ++ etag ++ rest) < n)%nat -> (length (inner ++ etag ++ rest) <= fuel)%nat ->
       exists p, group_loop fuel number wt n (inner ++ etag ++ rest) raw = Ok (p, rest)).
Proof.
  apply wire_mutind.
  - (* varint *)
    intros nw v vb Hn Hw Rv fuel rest raw Hl. rewrite load_field_unfold. cbv zeta.
    unfold tag_num, tag_wt in *. replace (Z.shiftr nw 3 =? 0) with false by lia.
    rewrite Hw. unfold WIRE_VARINT. cbn [Z.eqb].
    rewrite (load_varint_rep _ _ rest Rv). cbn [bind]. eauto.
  - (* fixed64 *)
    intros nw d Hn Hw Ld fuel rest raw Hl. rewrite load_field_unfold. cbv zeta.
    unfold tag_num, tag_wt in *. replace (Z.shiftr nw 3 =? 0) with false by lia.
    rewrite Hw. unfold WIRE_VARINT, WIRE_FIXED_64. cbn [Z.eqb Pos.eqb].
    replace 8 with (Zlength d) by (unfold Zlength; lia).
    rewrite read_exactly_app. cbn [bind]. eauto.
  - (* len *)
    intros nw lb d Hn Hw Rl fuel rest raw Hl. rewrite load_field_unfold. cbv zeta.
    unfold tag_num, tag_wt in *. replace (Z.shiftr nw 3 =? 0) with false by lia.
    rewrite Hw. unfold WIRE_VARINT, WIRE_FIXED_64, WIRE_LEN_DELIM. cbn [Z.eqb Pos.eqb].
    rewrite <- app_assoc. rewrite (load_varint_rep _ _ (d ++ rest) Rl). cbn [bind].
    rewrite read_exactly_app. cbn [bind]. eauto.
  - (* group *)
    intros nw inner enw etag Hn Hw Wi IHi Re T4 Tn fuel rest raw Hl. rewrite load_field_unfold. cbv zeta.
    unfold tag_num, tag_wt in *. replace (Z.shiftr nw 3 =? 0) with false by lia.
    rewrite Hw. unfold WIRE_VARINT, WIRE_FIXED_64, WIRE_LEN_DELIM, WIRE_FIXED_32, WIRE_START_GROUP. cbn [Z.eqb Pos.eqb].
    destruct fuel as [|fuel]; [lia|]. rewrite <- app_assoc in *.
    apply (IHi fuel (Z.shiftr nw 3) 3 (S fuel) rest raw enw etag Re T4 Tn); lia.
  - (* fixed32 *)
    intros nw d Hn Hw Ld fuel rest raw Hl. rewrite load_field_unfold. cbv zeta.
    unfold tag_num, tag_wt in *. replace (Z.shiftr nw 3 =? 0) with false by lia.
    rewrite Hw. unfold WIRE_VARINT, WIRE_FIXED_64, WIRE_LEN_DELIM, WIRE_FIXED_32. cbn [Z.eqb Pos.eqb].
    replace 4 with (Zlength d) by (unfold Zlength; lia).
    rewrite read_exactly_app. cbn [bind]. eauto.
  - (* no inner record left: the end tag *)
    intros fuel number wt n rest raw enw etag Re T4 Tn Hn Hf. cbn [app] in *.
    destruct n as [|n]; [lia|]. cbn [group_loop].
    rewrite (load_varint_rep _ _ rest Re). cbn [bind]. unfold tag_wt, tag_num in *.
    rewrite T4. unfold WIRE_END_GROUP. cbn [Z.eqb Pos.eqb]. rewrite Tn, Z.eqb_refl. eauto.
  - (* one inner record, then the rest *)
    intros nw tag pl rs Rt Wp IHp Wr IHr fuel number wt n rest raw enw etag Re T4 Tn Hn Hf.
    destruct n as [|n]; [lia|]. cbn [group_loop]. fold (group_loop fuel number wt).
    rewrite <- !app_assoc in *. rewrite (load_varint_rep _ _ _ Rt). cbn [bind].
    destruct (wpayload_tag _ _ Wp) as (_ & N4 & _). unfold tag_wt in N4.
    unfold WIRE_END_GROUP. replace (Z.land nw 7 =? 4) with false by lia.
    pose proof (VarintRep_nonempty _ _ Rt) as Ht. rewrite !app_length in Hn, Hf.
    destruct (IHp fuel (rs ++ etag ++ rest) (raw ++ tag)) as [p Hp].
    { rewrite !app_length. lia. }
    rewrite Hp. cbn [bind].
    apply (IHr fuel number wt n rest (praw p) enw etag Re T4 Tn); rewrite !app_length; lia.
Qed.

Lemma load_field_complete nw pl fuel rest raw :
  wpayload nw pl -> (length (pl ++ rest) < fuel)%nat ->
  exists p, load_field fuel (pl ++ rest) nw raw = Ok (p, rest) /\ field_ok nw raw (pl ++ rest) p rest.
Proof.
  intros W Hl. destruct (proj1 load_field_complete_gen nw pl W fuel rest raw Hl) as [p Hp].
  exists p. split; [exact Hp | apply (load_field_sound _ _ _ _ _ _ Hp)].
Qed.

(* ---------- the specification is prefix-free: a proper prefix of a complete payload is not complete ---------- *)
Lemma app_same_length {A} (a : list A) : forall b x y, length a = length b -> a ++ x = b ++ y -> a = b /\ x = y.
Proof.
  induction a as [|c a IH]; intros [|d b] x y Hl E; cbn in Hl; try lia; [tauto|].
  cbn [app] in E. injection E as -> E. destruct (IH b x y ltac:(lia) E) as [-> ->]. tauto.
Qed.

Lemma wire_prefix_free :
  (forall nw a, wpayload nw a -> forall b x y, wpayload nw b -> a ++ x = b ++ y -> a = b) /\
  (forall i1, wrecs i1 ->
     forall e1 t1 i2 e2 t2 x y,
       VarintRep e1 t1 -> tag_wt e1 = 4 -> wrecs i2 -> VarintRep e2 t2 -> tag_wt e2 = 4 ->
       i1 ++ t1 ++ x = i2 ++ t2 ++ y -> i1 ++ t1 = i2 ++ t2).
Proof.
  apply wire_mutind.
  - intros nw v vb Hn Hw Rv b x y Wb E. inversion Wb; subst; try lia.
    eapply VarintRep_prefix_free in E; [|eassumption|eassumption]. tauto.
  - intros nw d Hn Hw Ld b x y Wb E. inversion Wb; subst; try lia.
    apply app_same_length in E; [tauto | lia].
  - intros nw lb d Hn Hw Rl b x y Wb E. inversion Wb; subst; try lia.
    rewrite <- !app_assoc in E.
    eapply VarintRep_prefix_free in E; [|eassumption|eassumption].
    destruct E as (-> & El & E). apply app_same_length in E; [destruct E as [-> _]; reflexivity|].
    unfold Zlength in El. lia.
  - intros nw inner enw etag Hn Hw Wi IHi Re T4 Tn b x y Wb E. inversion Wb; subst; try lia.
    rewrite <- !app_assoc in E. eapply IHi; eassumption.
  - intros nw d Hn Hw Ld b x y Wb E. inversion Wb; subst; try lia.
    apply app_same_length in E; [tauto | lia].
  - intros e1 t1 i2 e2 t2 x y R1 T1 W2 R2 T2 E. cbn [app] in *.
    inversion W2; subst.
    + cbn [app] in *. eapply VarintRep_prefix_free in E; [|eassumption|eassumption]. destruct E as (-> & _). reflexivity.
    + rewrite <- !app_assoc in E. eapply VarintRep_prefix_free in E; [|eassumption|eassumption].
      destruct E as (_ & -> & _). apply wpayload_tag in H0. lia.
  - intros nw tag pl rs Rt Wp IHp Wr IHr e1 t1 i2 e2 t2 x y R1 T1 W2 R2 T2 E.
    inversion W2; subst.
    + cbn [app] in E. rewrite <- !app_assoc in E. symmetry in E.
      eapply VarintRep_prefix_free in E; [|eassumption|eassumption].
      destruct E as (_ & -> & _). apply wpayload_tag in Wp. lia.
    + rewrite <- !app_assoc in E.
      eapply VarintRep_prefix_free in E; [|eassumption|eassumption]. destruct E as (-> & -> & E).
      assert (pl = pl0) by (eapply IHp; eassumption). subst pl0.
      apply app_inv_head in E.
      rewrite <- !app_assoc. f_equal. f_equal. eapply IHr; eassumption.
Qed.

Lemma wpayload_prefix_free nw a b x : wpayload nw a -> wpayload nw (a ++ x) -> b = a ++ x -> x = [].
Proof.
  intros Wa Wb ->. pose proof (proj1 wire_prefix_free nw a Wa (a ++ x) x [] Wb) as E.
  rewrite app_nil_r in E. specialize (E eq_refl).
  rewrite <- (app_nil_r a) in E at 1. apply app_inv_head in E. symmetry. exact E.
Qed.

(* a payload cut anywhere before its end is rejected (with any fuel) *)
Lemma load_field_cut nw pl x y fuel raw :
  wpayload nw pl -> pl = x ++ y -> y <> [] -> exists e, load_field fuel x nw raw = Err e.
Proof.
  intros W -> Hy. destruct (load_field fuel x nw raw) as [[p s']|e] eqn:E; [|eauto].
  exfalso. apply load_field_sound in E. destruct E as (pl' & -> & W' & _).
  rewrite <- app_assoc in W. pose proof (wpayload_prefix_free _ _ _ _ W' W eq_refl) as E.
  apply app_eq_nil in E. tauto.
Qed.

(* what is not a payload at all: field number 0, wire types 4 (no group open), 6, 7 *)
Lemma load_field_bad_tag fuel s nw raw :
  tag_num nw = 0 \/ tag_wt nw = 4 \/ tag_wt nw = 6 \/ tag_wt nw = 7 ->
  load_field fuel s nw raw = Err EValue.
Proof.
  intros H. rewrite load_field_unfold. cbv zeta. unfold tag_num, tag_wt in H.
  destruct (Z.shiftr nw 3 =? 0) eqn:E0; [reflexivity|].
  unfold WIRE_VARINT, WIRE_FIXED_64, WIRE_LEN_DELIM, WIRE_FIXED_32, WIRE_START_GROUP.
  destruct H as [H|[H|[H|H]]]; [lia| | |]; rewrite H; reflexivity.
Qed.

(* inside a group: an end tag carrying another field number *)
Lemma group_end_mismatch fuel s nw raw enw etag rest :
  tag_num nw <> 0 -> tag_wt nw = 3 -> s = etag ++ rest -> VarintRep enw etag -> tag_wt enw = 4 -> tag_num enw <> tag_num nw ->
  (length s < fuel)%nat ->
  load_field fuel s nw raw = Err EValue.
Proof.
  intros Hn Hw -> Re T4 Tn Hl. rewrite load_field_unfold. cbv zeta. unfold tag_num, tag_wt in *.
  replace (Z.shiftr nw 3 =? 0) with false by lia. rewrite Hw.
  unfold WIRE_VARINT, WIRE_FIXED_64, WIRE_LEN_DELIM, WIRE_FIXED_32, WIRE_START_GROUP. cbn [Z.eqb Pos.eqb].
  destruct fuel as [|fuel]; [lia|]. cbn [group_loop].
  rewrite (load_varint_rep _ _ rest Re). cbn [bind]. rewrite T4. unfold WIRE_END_GROUP. cbn [Z.eqb Pos.eqb].
  replace (Z.shiftr enw 3 =? Z.shiftr nw 3) with false by lia. reflexivity.
Qed.
