(* C20 — gap closing, second group: the message level.  Compositions of C20's message theorems with C01 (objects reachable
   through the public API), C09 (len), C14 (pickle of a message), exactness of the int32 bound at the message level, and the
   scalar-level statement of enum-definition evolution.  The clause table is at the top of Proofs/C20GapA.v. *)
From Coq Require Import ZArith List Bool Lia ZifyBool.
From BP Require Import Base.Prelude Model.Types Model.Varint Model.Scalar Model.Float Model.Utf8.
From BP Require Import Model.Object Model.Eq Model.TimeCore Model.Encode Model.Decode Model.Len Model.WellFormed Model.C01Def Model.C20Msg.
From BP Require Import Model.History Model.C07Ops Model.C01Reach Model.C01Parse Model.C20GapDefs.
From BP Require Import gen.Tables Proofs.C01Apply Proofs.C01Builtin Proofs.C01Unfold Proofs.C01Slot Proofs.C01Msg Proofs.C01Main
     Proofs.C20MsgDef Proofs.C20MsgBuilt Proofs.C20MsgBin Proofs.C20MsgBuiltB.
From BP Require Proofs.LenP Proofs.C01ReachFinal Proofs.C01Reach2B.
From BP Require Model.Enum Proofs.EnumP Proofs.C20GapA.
Import ListNotations.

(* the conclusion of C20_roundtrip_message_binary, named *)
Definition enum_roundtrips (sc : schema) (m : obj) (i : nat) (e : nat) (x : pv) (v : Z) : Prop :=
  EnumP.int32 v /\
  field_member sc e (PInt v) = Some (EnumP.canon (Enum.members_of (enum_body sc e)) v) /\
  exists bs, enc_obj sc m = Ok bs /\
    (Zlength bs < 2 ^ 64 ->
     exists m', parse sc (ocls m) bs = Ok m' /\
       read sc m' i = Ok x /\
       (forall g, which_one_of m' g = which_one_of m g) /\
       enc_obj sc m' = Ok bs).

(* (4a) the value hypothesis discharged for every object a public-API history produces from Cls() (constructor, setattr, nested
   assignment, reads, from_dict, copies, pickle, observers, m.parse(clean bytes)), under C01's decidable conditions on the OPERATIONS *)
Theorem roundtrip_binary_reachable sc c ops m i f pos e x v :
  c01_schema_ok sc = true -> hist_ok op_value_ok_p sc (new sc c) ops = true -> run7 sc (new sc c) ops = Ok m ->
  nth_error (cfields (get_class sc (ocls m))) i = Some f -> enum_position f = Some (pos, e) ->
  read sc m i = Ok x -> holds_enum pos x v = true ->
  enum_roundtrips sc m i e x v.
Proof.
  intros Hs Hh E Hf Hp Hr Hv.
  exact (roundtrip_message_binary sc m i f pos e x v Hs (C01Reach2B.c01_reachable_value_ok_parse sc c ops m Hs Hh E) Hf Hp Hr Hv).
Qed.

(* ... and from ANY state meeting the two conditions (e.g. a decoded message), the same, and the conditions still hold afterwards *)
Theorem roundtrip_binary_run sc ops o m i f pos e x v :
  c01_schema_ok sc = true -> c01_value_ok sc o = true -> sow_ok sc o = true ->
  hist_ok op_reach_ok_p sc o ops = true -> run7 sc o ops = Ok m ->
  nth_error (cfields (get_class sc (ocls m))) i = Some f -> enum_position f = Some (pos, e) ->
  read sc m i = Ok x -> holds_enum pos x v = true ->
  enum_roundtrips sc m i e x v /\ c01_value_ok sc m = true /\ sow_ok sc m = true.
Proof.
  intros Hs Ho Hw Hh E Hf Hp Hr Hv.
  destruct (C01Reach2B.c01_run_keeps_parse sc ops o m Hs Ho Hw Hh E) as (Hm & Hw').
  split; [|split; [exact Hm|exact Hw']].
  exact (roundtrip_message_binary sc m i f pos e x v Hs Hm Hf Hp Hr Hv).
Qed.

(* (4b) at the message level the bound is exact: C01's value condition holds of  m = Cls(); m.f = v  EXACTLY for int32 v *)
Theorem value_ok_iff_int32 sc c i f pos e k v :
  c01_schema_ok sc = true ->
  nth_error (cfields (get_class sc c)) i = Some f -> enum_position f = Some (pos, e) ->
  (pos = PosMapValue -> scalar_in_range (key_type f) k = true) ->
  (c01_value_ok sc (built sc c i pos k v) = true <-> EnumP.int32 v).
Proof.
  intros Hsc Hf Hp Hk. split.
  - intros Hv. pose proof (proj1 (schema_class_facts sc c Hsc)) as Hwf.
    pose proof (built_reads sc c Hwf i f pos e k v Hf Hp) as Hr.
    pose proof (place_holds f pos e k v Hp) as Hh.
    assert (Hc : ocls (built sc c i pos k v) = c) by (rewrite (built_unfold sc c Hwf i f pos k v Hf); reflexivity).
    apply (enum_read_int32 sc (built sc c i pos k v) i f pos e (place pos k v) v (value_ok_in_range _ _ Hv));
      [rewrite Hc; exact Hf|exact Hp|exact Hr|exact Hh].
  - intros Hv. exact (built_value_ok sc Hsc c i f pos e k v Hf Hp Hv Hk).
Qed.

(* the witness: m.s = 2^31 is stored and encoded, and comes back as -2^31 *)
Theorem message_out_of_range_refuted :
  exists sc c i f pos e k v,
    c01_schema_ok sc = true /\ nth_error (cfields (get_class sc c)) i = Some f /\ enum_position f = Some (pos, e) /\
    ~ EnumP.int32 v /\ read sc (built sc c i pos k v) i = Ok (PInt v) /\
    exists bs m', enc_obj sc (built sc c i pos k v) = Ok bs /\ parse sc c bs = Ok m' /\ read sc m' i = Ok (PInt (- 2 ^ 31)).
Proof.
  exists gap_schema, 11%nat, 0%nat, (mkF [x73] 1 TEnum None None None false (HPlain (PyEnum 0)) 0), PosSingular, 0%nat, PNone, (2 ^ 31).
  split; [vm_compute; reflexivity|]. split; [vm_compute; reflexivity|]. split; [vm_compute; reflexivity|].
  split; [unfold EnumP.int32; lia|]. split; [vm_compute; reflexivity|].
  eexists. eexists. split; [vm_compute; reflexivity|]. split; [vm_compute; reflexivity|]. vm_compute. reflexivity.
Qed.

(* (4d) C09: len(m) = |bytes(m)| for the built message, every position, every int32 number *)
Theorem len_built sc c i f pos e k v :
  c01_schema_ok sc = true ->
  nth_error (cfields (get_class sc c)) i = Some f -> enum_position f = Some (pos, e) ->
  EnumP.int32 v -> (pos = PosMapValue -> scalar_in_range (key_type f) k = true) ->
  exists bs, enc_obj sc (built sc c i pos k v) = Ok bs /\ len_obj sc (built sc c i pos k v) = Ok (Zlength bs).
Proof.
  intros Hsc Hf Hp Hv Hk.
  destruct (roundtrip_built_binary_full sc c i f pos e k v Hsc Hf Hp Hv Hk) as (_ & _ & _ & _ & bs & Eb & _).
  exists bs. split; [exact Eb|]. exact (LenP.len_of_bytes sc _ bs Eb).
Qed.

(* (2) C14: pickling a MESSAGE (loads(dumps(m)) = Cls.FromString(bytes(m))) keeps what every enum field reads as *)
Theorem pickle_keeps_enum sc m i f pos e x v :
  c01_schema_ok sc = true -> c01_value_ok sc m = true ->
  nth_error (cfields (get_class sc (ocls m))) i = Some f -> enum_position f = Some (pos, e) ->
  read sc m i = Ok x -> holds_enum pos x v = true ->
  (forall bs, enc_obj sc m = Ok bs -> Zlength bs < 2 ^ 64) ->
  exists m', pickle_rt sc m = Ok m' /\ read sc m' i = Ok x /\ (forall g, which_one_of m' g = which_one_of m g) /\
             enc_obj sc m' = enc_obj sc m.
Proof.
  intros Hs Hm Hf Hp Hr Hv Hsz.
  destruct (roundtrip_message_binary sc m i f pos e x v Hs Hm Hf Hp Hr Hv) as (_ & _ & bs & Eb & Hrt).
  destruct (Hrt (Hsz bs Eb)) as (m' & Hparse & Hr' & Hw & Henc).
  exists m'. unfold pickle_rt. rewrite Eb. cbn [bind]. split; [exact Hparse|]. split; [exact Hr'|]. split; [exact Hw|].
  rewrite Henc. reflexivity.
Qed.

(* (4d) evolution of the ENUM DEFINITION, scalar level (the step shared by all five positions, C20_codec_bridge): a reader / writer
   whose definition body' differs in any way (members removed, renamed, added, re-numbered) reads the number v the writer with body
   wrote, re-emits the same bytes, and the first party reads its own value back from them *)
Theorem enum_evolution_scalar body body' v :
  EnumP.int32 v ->
  exists bs,
    Enum.enum_pre (Enum.try_value (Enum.class_of body) v) = Ok bs /\
    (forall rest, load_varint (bs ++ rest) = Ok (v mod 2 ^ 64, bs, rest)) /\
    snd (Enum.enum_post (Enum.class_of body') (v mod 2 ^ 64)) = v /\
    Enum.enum_post (Enum.class_of body') (v mod 2 ^ 64) = Enum.try_value (Enum.class_of body') v /\
    Enum.enum_pre (Enum.enum_post (Enum.class_of body') (v mod 2 ^ 64)) = Ok bs /\
    Enum.enum_post (Enum.class_of body) (v mod 2 ^ 64) = Enum.try_value (Enum.class_of body) v.
Proof.
  intros Hv.
  destruct (EnumP.scalar_roundtrip body v Hv) as (bs & E & _ & L & P & _).
  destruct (EnumP.scalar_roundtrip body' v Hv) as (bs' & E' & _ & _ & P' & S').
  cbv zeta in *. exists bs. split; [exact E|]. split; [exact L|]. split; [exact S'|]. split; [exact P'|]. split; [|exact P].
  rewrite P'. unfold Enum.enum_pre in *. rewrite (proj1 (EnumP.try_value_number body' v)).
  rewrite (proj1 (EnumP.try_value_number body v)) in E. exact E.
Qed.

(* JSON is open by NUMBER only: the element a writer with definition body emits for v is read as v by a reader with body'
   EXACTLY when v has no name in body, or its first name there is declared for v in body' too *)
Theorem json_evolution_iff body body' v :
  Enum.from_json_el (Enum.class_of body') (Enum.to_json_el (Enum.class_of body) v) = Ok (Enum.try_value (Enum.class_of body') v) <->
  (~ In v (map snd (Enum.members_of body)) \/
   exists n0, EnumP.first_name (Enum.members_of body) v = Some n0 /\ In (n0, v) (Enum.members_of body')).
Proof.
  destruct (EnumP.json_roundtrip body v) as (_ & Hd & Hu). cbv zeta in Hd, Hu.
  destruct (EnumP.first_name (Enum.members_of body) v) as [n0|] eqn:Ef.
  - assert (Hin : In v (map snd (Enum.members_of body))).
    { apply EnumP.first_name_in in Ef. exact (EnumP.in_numbers _ n0 v Ef). }
    destruct (Hd Hin) as (n1 & Ej & Ef1). injection Ef1 as Ef1; subst n1. rewrite Ej. cbn [Enum.from_json_el].
    rewrite C20GapA.from_string_iff. split.
    + intros (v' & Hin' & Hc). right. exists n0. split; [reflexivity|].
      assert (v' = v).
      { rewrite <- (proj1 (EnumP.try_value_number body' v)). rewrite Hc. reflexivity. }
      subst v'. exact Hin'.
    + intros [Hn|(n1 & E1 & Hin')]; [contradiction|]. injection E1 as <-. exists v. split; [exact Hin'|].
      unfold Enum.class_of. apply EnumP.try_value_canon.
  - apply EnumP.first_name_None in Ef. rewrite (Hu Ef). cbn [Enum.from_json_el]. split; [intros _; left; exact Ef|reflexivity].
Qed.

Theorem json_evolution_refuted :
  exists body body' v, EnumP.int32 v /\
    Enum.from_json_el (Enum.class_of body') (Enum.to_json_el (Enum.class_of body) v) = Err EValue.
Proof.
  exists C20GapA.alias_body, [([x5a], 0)], 1. split; [unfold EnumP.int32; lia|]. vm_compute. reflexivity.
Qed.
