(* C14: any interleaving of observers, copy and deepcopy leaves a state related to the first one by [mat]. *)
From BP Require Import Base.Prelude Model.Types Model.Object Model.Eq Model.Encode Model.Decode Model.History Model.C14Ops Model.C14Seq.
From BP Require Import Model.WellFormed Proofs.C14Ind Proofs.C14Mat Proofs.C14Obs Proofs.C14Pres Proofs.C14Thm.

Section Wf.
  Variable sc : schema.
  Hypothesis Hwf : wf_schema sc = true.
  Let Hopt : schema_opt_ok sc = true := wf_schema_opt_ok sc Hwf.

  Theorem cops_mat : forall l o, cops_shaped sc o l = true -> mat_obj sc o (apply_cops sc o l) = true.
  Proof.
    induction l as [|c l IH]; intros o H; [apply mat_obj_refl|].
    cbn [cops_shaped] in H. apply andb_true_iff in H as [Hc Hr]. unfold apply_cops. cbn [fold_left].
    eapply mat_obj_trans; [|apply IH; exact Hr].
    destruct c as [b| |]; cbn [apply_cop].
    - apply observe_mat.
    - apply (copy_mat sc Hopt o Hc).
    - apply (deepcopy_mat sc Hopt o Hc).
  Qed.

  Theorem cops_indistinguishable l o :
    cops_shaped sc o l = true ->
    indistinguishable sc o (apply_cops sc o l) /\ osow (apply_cops sc o l) = osow o /\ ocur (apply_cops sc o l) = ocur o.
  Proof.
    intros H. pose proof (cops_mat l o H) as Hm. split; [apply (mat_indistinguishable sc Hwf); exact Hm|].
    destruct (mat_obj_inv sc _ _ Hm) as (c & raw & raw' & sow & unk & cur & E1 & E2 & _). rewrite E2, E1. split; reflexivity.
  Qed.
End Wf.

From BP Require Import Model.C01Def Model.C14Pickle Proofs.C14Pickle Proofs.C14PicklePres2.

Theorem pickle_after_any_order sc o l :
  pickle_pre sc o = true -> cops_shaped sc o l = true ->
  exists o', pickle_rt sc (apply_cops sc o l) = Ok o' /\
    enc_obj sc o' = enc_obj sc (apply_cops sc o l) /\ ounk o' = ounk (apply_cops sc o l) /\
    ocls o' = ocls (apply_cops sc o l) /\ osow o' = true /\
    (forall g, which_one_of o' g = which_one_of (apply_cops sc o l) g) /\
    (deep nan_free (PMsg o) = true -> obj_eq sc o' (apply_cops sc o l) = true /\ obj_eq sc (apply_cops sc o l) o' = true) /\
    (sow_ok sc o = true ->
     presence_below sc o' [] = presence_below sc (apply_cops sc o l) [] /\
     forall i, child_flag sc o' i = child_flag sc (apply_cops sc o l) i) /\
    (deep (sow_ok sc) (PMsg o) = true -> deep (flags_ok sc) (PMsg o) = true ->
     forall p, presence_below sc o' p = presence_below sc (apply_cops sc o l) p).
Proof.
  intros Hp Hc. apply pickle_summary; [exact Hp|]. apply cops_mat; [|exact Hc].
  unfold pickle_pre in Hp. apply andb_true_iff in Hp as [Hp _]. apply andb_true_iff in Hp as [Hp _].
  apply andb_true_iff in Hp as [Hs _]. apply c01_schema_wf. exact Hs.
Qed.
