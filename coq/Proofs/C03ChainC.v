(* C03 chain, part C: every runtime headline theorem carried to everything the plugin emits.
   Each statement: for every descriptor set D with protoc_wf D, names_ok .. D, bridge_ok D there is the class table t
   Python builds from the plugin's output (reflect (compile D) = Ok t: unique), and for sc := schema_of_table t the
   CONCLUSION of the runtime theorem holds for every value / byte string / mask that meets the theorem's VALUE-level
   hypotheses.  The schema-level hypotheses are discharged by Proofs/C03ChainB.v generated_side_conditions. *)
From BP Require Import Base.Prelude Model.Types Spec.Descriptor Model.Object Model.Eq Model.Encode Model.Decode.
From BP Require Import Model.WellFormed Model.C01Def Model.Json.
From BP Require Import Model.Plugin Proofs.PluginP Model.C03Bridge Model.C03Chain Proofs.C03ChainA Proofs.C03ChainB.
From BP Require Import Spec.Wire Proofs.C02Abs Proofs.C08EvoDef.
From BP Require Proofs.C04Def Model.C17Typed Model.C08Step Model.C10Stream Model.C10Rt Model.History Model.C14Ops Model.C14Pickle.
From BP Require Proofs.C05MsgDef Proofs.C05AccDef Proofs.C05Model Spec.C06Wire Model.C06Obs.
From BP Require Proofs.C02FinalP Proofs.C02LegalMain Proofs.C02LegalFaith3 Proofs.C04MainP Proofs.C17MainP Proofs.C08EvoMain.
From BP Require Proofs.C10RtP Proofs.C10RtCutP Proofs.C10RtOldP Proofs.C14Thm Proofs.C14PicklePres2 Proofs.C05MsgFinal.
From BP Require Proofs.C06FinalP Proofs.C06PresP.
From BP Require Model.C07Ops Model.C07Wire Proofs.C07InvP Proofs.C07ValP.

Section Generated.
  Variable field_name : str -> str.
  Variable class_name : str -> str.
  Variable enum_member_name : str -> str -> str.
  Variable D : descriptor.
  Hypothesis Hwf : protoc_wf D = true.
  Hypothesis Hn : names_ok field_name class_name enum_member_name D = true.
  Hypothesis Hbr : bridge_ok D = true.

  Ltac hub :=
    destruct (generated_side_conditions field_name class_name enum_member_name D Hwf Hn Hbr)
      as (t & Ht & Hc & Hok & Hs & Hw & Hstd & Hhb & Hea & Hsb & Hkeys & Hmasks & Hum);
    exists t; split; [exact Hc|]; cbv zeta.

  (* ---- C02: wire interoperability with the reference implementation ---- *)
  Theorem generated_interop :
    exists t, reflect (compile field_name class_name enum_member_name D) = Ok t /\
      let sc := schema_of_table t in
      (* writer (C02_encode_legal): a legal proto3 serialisation, inside [supported], denoting the decoded form *)
      (forall m, c01_value_ok sc m = true ->
         exists bs, enc_obj sc m = Ok bs /\
           (Zlength bs < 2 ^ 35 ->
            exists rs a, parse_wire bs = Some rs /\ sem (S (length bs)) sc (ocls m) rs = Some a /\
              a = abs_obj sc (norm_obj sc m) /\ supported (S (length bs)) sc (ocls m) rs = true)) /\
      (* ... denoting the message itself when its state says no more than its bytes can (C02_encode_denotes) *)
      (forall m, c01_value_ok sc m = true -> enc_faithful sc m = true ->
         exists bs, enc_obj sc m = Ok bs /\
           (Zlength bs < 2 ^ 35 ->
            exists rs, parse_wire bs = Some rs /\ sem (S (length bs)) sc (ocls m) rs = Some (abs_obj sc m) /\
              supported (S (length bs)) sc (ocls m) rs = true)) /\
      (* reader (C02_decode_refines): every legal byte string inside [supported] is decoded to its denotation *)
      (forall c bs rs a, parse_wire bs = Some rs -> sem (S (length bs)) sc c rs = Some a ->
         supported (S (length bs)) sc c rs = true ->
         exists m', parse sc c bs = Ok m' /\ abs_obj sc m' = a).
  Proof.
    hub. split; [|split].
    - intros m Hm. now apply C02LegalMain.c02_encode_legal.
    - intros m Hm Hf. now apply C02LegalFaith3.c02_encode_denotes.
    - intros c bs rs a. now apply C02FinalP.decode_refines.
  Qed.

  (* ---- C04: dict / JSON round trip.  Residual premise gen_keys_ok cs field_name D (Model/C03Chain.v; = keys_ok of the
          generated schema, exactly): needed only for the round trips, not for json.dumps-ability ---- *)
  Theorem generated_json :
    exists t, reflect (compile field_name class_name enum_member_name D) = Ok t /\
      let sc := schema_of_table t in
      (forall cs, C04Def.keys_ok cs sc = gen_keys_ok cs field_name D) /\
      (forall cs m, gen_keys_ok cs field_name D = true -> C04Def.good sc m = true ->
         (exists m', from_dict_cls sc (ocls m) (to_dict cs false sc m) = Ok m' /\
                     from_dict_inst sc (new sc (ocls m)) (to_dict cs false sc m) = Ok m' /\
                     obj_eq sc m' m = true /\ enc_obj sc m' = enc_obj sc m) /\
         (exists m', json_rt_cls cs false sc m = Ok m' /\
                     json_rt_inst cs false sc m (new sc (ocls m)) = Ok m' /\
                     obj_eq sc m' m = true /\ enc_obj sc m' = enc_obj sc m)) /\
      (forall cs m, in_range sc m = true -> C04Def.oneof_ok sc m = true -> dumpsable (to_dict cs false sc m) = true).
  Proof.
    hub. split; [exact Hkeys|]. split.
    - intros cs m Hk Hg. rewrite <- Hkeys in Hk. split; [now apply C04MainP.dict_rt | now apply C04MainP.text_rt_rt].
    - intros cs m. now apply C04MainP.dumps_total_main.
  Qed.

  (* ---- C17: whatever a generated class parses is well typed and can be encoded again ---- *)
  Theorem generated_welltyped_decode :
    exists t, reflect (compile field_name class_name enum_member_name D) = Ok t /\
      let sc := schema_of_table t in
      forall c bs m, parse sc c bs = Ok m ->
        C17Typed.well_typed sc m = true /\ C17Typed.decoded_range sc m = true /\ ocls m = c /\
        exists bs', enc_obj sc m = Ok bs'.
  Proof. hub. intros c bs m. now apply C17MainP.welltyped. Qed.

  (* ---- C08: schema evolution, for ANY subset of the fields of ANY generated message class ---- *)
  Theorem generated_evolution :
    exists t, reflect (compile field_name class_name enum_member_name D) = Ok t /\
      let sn := schema_of_table t in
      (forall um, (length um <= n_msgs t)%nat -> gen_masks_ok t (user_masks um) = true) /\
      forall masks m, gen_masks_ok t masks = true -> c01_value_ok sn m = true ->
        exists b1, enc_obj sn m = Ok b1 /\
          (Zlength b1 < 2 ^ 64 ->
           exists mo b2 m2,
             parse (C08Step.drop_fields masks sn) (ocls m) b1 = Ok mo /\
             enc_obj (C08Step.drop_fields masks sn) mo = Ok b2 /\ length b2 = length b1 /\
             parse sn (ocls m) b2 = Ok m2 /\ m2 = norm_obj sn m /\
             (deep nan_free (PMsg m) = true -> obj_eq sn m2 m = true /\ obj_eq sn m m2 = true) /\
             (forall g, which_one_of m2 g = which_one_of m g) /\
             enc_obj sn m2 = Ok b1).
  Proof.
    hub. split; [intros um; apply user_masks_ok|].
    intros masks m Hm Hv. rewrite <- Hmasks in Hm. now apply C08EvoMain.c08_evolution.
  Qed.

  (* ---- C10: delimited streams of generated messages (round trip, truncation, older reader) ---- *)
  Theorem generated_streams :
    exists t, reflect (compile field_name class_name enum_member_name D) = Ok t /\
      let sc := schema_of_table t in
      (forall ms rest,
         Forall (fun m => c01_value_ok sc m = true /\ deep nan_free (PMsg m) = true) ms ->
         Forall (fun m => C10Rt.msg_small sc m = true) ms ->
         exists stream,
           C10Stream.dump_stream sc ms = Ok stream /\
           C10Stream.loads sc (map ocls ms) (stream ++ rest) = (map (norm_obj sc) ms, Ok rest) /\
           Forall (fun m => obj_eq sc m (norm_obj sc m) = true /\ obj_eq sc (norm_obj sc m) m = true /\
                            enc_obj sc (norm_obj sc m) = enc_obj sc m /\
                            (forall g, which_one_of (norm_obj sc m) g = which_one_of m g)) ms /\
           C10Stream.dump_stream sc (map (norm_obj sc) ms) = Ok stream) /\
      (forall ms stream k,
         Forall (fun m => c01_value_ok sc m = true /\ deep nan_free (PMsg m) = true) ms ->
         Forall (fun m => C10Rt.msg_small sc m = true) ms ->
         C10Stream.dump_stream sc ms = Ok stream ->
         exists r,
           C10Stream.loads sc (map ocls ms) (firstn k stream)
             = (map (norm_obj sc) (firstn (C10Rt.whole_frames sc ms k) ms), r) /\
           (if (k <? length stream)%nat
            then (exists e, r = Err e /\ e <> EFuel) /\ (C10Rt.whole_frames sc ms k < length ms)%nat
            else r = Ok [] /\ C10Rt.whole_frames sc ms k = length ms) /\
           Forall (fun m => obj_eq sc m (norm_obj sc m) = true /\ obj_eq sc (norm_obj sc m) m = true /\
                            enc_obj sc (norm_obj sc m) = enc_obj sc m /\
                            (forall g, which_one_of (norm_obj sc m) g = which_one_of m g))
                  (firstn (C10Rt.whole_frames sc ms k) ms)) /\
      (forall masks ms rest, gen_masks_ok t masks = true ->
         Forall (fun m => c01_value_ok sc m = true) ms -> Forall (fun m => C10Rt.msg_small sc m = true) ms ->
         exists stream mos stream2,
           C10Stream.dump_stream sc ms = Ok stream /\
           Forall2 (C10Rt.older_view sc masks) ms mos /\
           C10Stream.loads (C08Step.drop_fields masks sc) (map ocls ms) (stream ++ rest) = (mos, Ok rest) /\
           C10Stream.dump_stream (C08Step.drop_fields masks sc) mos = Ok stream2 /\ length stream2 = length stream /\
           (forall rest', C10Stream.loads sc (map ocls ms) (stream2 ++ rest') = (map (norm_obj sc) ms, Ok rest')) /\
           Forall (fun m => C10Rt.same_message sc m (norm_obj sc m)) ms).
  Proof.
    hub. split; [|split].
    - intros ms rest. now apply C10RtP.stream_roundtrip_c01.
    - intros ms stream k. now apply C10RtCutP.stream_truncate_roundtrip.
    - intros masks ms rest Hm. rewrite <- Hmasks in Hm. now apply C10RtOldP.stream_older_reader.
  Qed.

  (* ---- C14: pickle, copy, deepcopy of generated messages.  pickle_pre is a conjunction that CONTAINS c01_schema_ok:
          here it is replaced by its value-level conjuncts ---- *)
  Theorem generated_pickle :
    exists t, reflect (compile field_name class_name enum_member_name D) = Ok t /\
      let sc := schema_of_table t in
      (forall o, C14Pickle.pickle_pre sc o
                 = c01_value_ok sc (C08Step.clear_unk o) && C14Pickle.unk_records_ok sc o && C14Pickle.enc_small sc o) /\
      (forall o o2,
         c01_value_ok sc (C08Step.clear_unk o) = true -> C14Pickle.unk_records_ok sc o = true ->
         C14Pickle.enc_small sc o = true -> C14Ops.mat_obj sc o o2 = true ->
         exists o', History.pickle_rt sc o2 = Ok o' /\
           enc_obj sc o' = enc_obj sc o2 /\ ounk o' = ounk o2 /\ ocls o' = ocls o2 /\ osow o' = true /\
           (forall g, which_one_of o' g = which_one_of o2 g) /\
           (deep nan_free (PMsg o) = true -> obj_eq sc o' o2 = true /\ obj_eq sc o2 o' = true) /\
           (sow_ok sc o = true ->
            C14Ops.presence_below sc o' [] = C14Ops.presence_below sc o2 [] /\
            forall i, C14Pickle.child_flag sc o' i = C14Pickle.child_flag sc o2 i) /\
           (deep (sow_ok sc) (PMsg o) = true -> deep (C14Pickle.flags_ok sc) (PMsg o) = true ->
            forall p, C14Ops.presence_below sc o' p = C14Ops.presence_below sc o2 p)) /\
      (forall o, C14Ops.shaped_top sc o = true ->
         C14Thm.indistinguishable sc o (History.copy sc o) /\
         osow (History.copy sc o) = osow o /\ ocur (History.copy sc o) = ocur o) /\
      (forall o, C14Ops.shaped_obj sc o = true ->
         C14Thm.indistinguishable sc o (History.deepcopy sc o) /\
         osow (History.deepcopy sc o) = osow o /\ ocur (History.deepcopy sc o) = ocur o).
  Proof.
    hub. split; [|split; [|split]].
    - intros o. unfold C14Pickle.pickle_pre. now rewrite Hs.
    - intros o o2 H1 H2 H3 Hm. apply C14PicklePres2.pickle_summary; [|exact Hm].
      unfold C14Pickle.pickle_pre. now rewrite Hs, H1, H2, H3.
    - intros o. now apply C14Thm.copy_faithful.
    - intros o. now apply C14Thm.deepcopy_faithful.
  Qed.

  (* ---- C05: canonical proto3 JSON.  Residual premise js_matches 0 sc (jschema_of sc): the reference-side schema in which
          every proto field name IS the Python attribute name.  It cannot be derived: the class table keeps the pythonised
          names only, and js_matches asks json_name_safe of the PROTO name (K3) and distinct, non-dunder enum value names ---- *)
  Theorem generated_json_canonical :
    exists t, reflect (compile field_name class_name enum_member_name D) = Ok t /\
      let sc := schema_of_table t in
      C05MsgDef.js_matches 0 sc (C05MsgDef.jschema_of sc) = true ->
      (forall o, C05MsgDef.emit_good sc o = true -> (ocls o < length (classes sc))%nat ->
         C05Model.model_emit_accepts sc (C05MsgDef.jschema_of sc) (ocls o) o = Some (C05MsgDef.abs_obj sc o)) /\
      (gen_keys_ok CAMEL field_name D = true ->
       forall c a, C05AccDef.wf_aval sc (C05MsgDef.jschema_of sc) 0 (C05Model.S.JMsg c) a = true ->
         C05Model.model_reads_canonical sc (C05MsgDef.jschema_of sc) c c a = Some a).
  Proof.
    hub. intros Hjs. split.
    - intros o Hg Hl. now apply C05MsgFinal.emit_accepted_self.
    - intros Hk c a Ha. rewrite <- Hkeys in Hk. now apply C05MsgFinal.reads_canonical_self.
  Qed.

  (* ---- C06: presence after decoding, fresh instances ---- *)
  Theorem generated_presence :
    exists t, reflect (compile field_name class_name enum_member_name D) = Ok t /\
      let sc := schema_of_table t in
      (forall c, enc_obj sc (new sc c) = Ok [] /\
         forall i f, nth_error (cfields (get_class sc c)) i = Some f -> read sc (new sc c) i = C06Wire.proto3_default sc f) /\
      (forall c bs rs m, C06Wire.is_records rs bs -> parse sc c bs = Ok m ->
         (forall g, which_one_of m g = C06Wire.last_member (get_class sc c) g rs) /\
         (forall j f, nth_error (cfields (get_class sc c)) j = Some f -> C06Wire.optional_like f ->
            C06Obs.value_not_none sc m j = C06Wire.has_record f rs /\
            (fopt f = true -> C06Obs.is_set sc m j = C06Wire.has_record f rs)) /\
         (forall j f, nth_error (cfields (get_class sc c)) j = Some f -> C06Wire.plain_msg f ->
            C06Obs.child_on_wire m j = C06Wire.has_record f rs)).
  Proof.
    hub. split.
    - intros c. now apply C06FinalP.fresh.
    - intros c bs rs m Hr Hp. split; [|split].
      + intros g. now apply (C06PresP.decode_oneof (schema_of_table t) c bs rs m g).
      + intros j f Hf Ho. now apply (C06PresP.decode_optional (schema_of_table t) c bs rs m j f).
      + intros j f Hf Hpm. now apply (C06PresP.decode_submessage (schema_of_table t) c bs rs m j f).
  Qed.

  (* ---- C07: after EVERY history of operations on a generated message (assignments, parse, copies, pickle, from_dict,
          observers) the wire shows exactly the selected member of each oneof group ---- *)
  Theorem generated_oneof :
    exists t, reflect (compile field_name class_name enum_member_name D) = Ok t /\
      let sc := schema_of_table t in
      forall c ops o bs,
        Forall (C07ValP.op_ok sc c) ops -> C07Ops.run7 sc (new sc c) ops = Ok o -> enc_obj sc o = Ok bs ->
        exists body rs,
          bs = body ++ ounk o /\ C07Wire.records body = Some rs /\
          forall g, (g < cngroups (get_class sc (ocls o)))%nat ->
            match which_one_of o g with
            | Some i =>
                exists f, nth_error (C07InvP.cfs sc o) i = Some f /\ In (fnum f) (C07Wire.numbers rs) /\
                          forall j f', j <> i -> nth_error (C07InvP.cfs sc o) j = Some f' -> fgroup f' = Some g ->
                                       ~ In (fnum f') (C07Wire.numbers rs)
            | None =>
                forall j f', nth_error (C07InvP.cfs sc o) j = Some f' -> fgroup f' = Some g ->
                             ~ In (fnum f') (C07Wire.numbers rs)
            end.
  Proof. hub. intros c ops o bs. now apply C07ValP.observable_reachable. Qed.
End Generated.
