(* C03 — finite sweeps, refutation witnesses and non-vacuity examples (all by vm_compute).
   The descriptors below are the FileDescriptorSets protoc emits for the .proto text quoted above each
   (printed by the harness' descriptor -> Gallina printer). *)
From BP Require Import Base.Prelude Spec.Descriptor gen.C03Tables Model.Plugin Proofs.PluginP.
From Coq Require Import String.

Definition b (s : string) : str := list_byte_of_string s.

(* stand-ins for the real naming functions that agree with them on the names used below (the harness
   checks that: stage A, "witness naming"): pascal_case drops every non-alphanumeric character of these
   names and capitalises what follows, snake_case lower-cases them, pythonize_enum_member_name leaves them alone *)
Definition alnum (c : byte) : bool :=
  let n := Byte.to_N c in ((48 <=? n) && (n <=? 57) || (65 <=? n) && (n <=? 90) || (97 <=? n) && (n <=? 122))%N.
Fixpoint cap_words (cap : bool) (s : str) : str :=
  match s with
  | [] => []
  | c :: r => if alnum c then (if cap then upper_b c else c) :: cap_words false r else cap_words true r
  end.
Definition w_class_name (s : str) : str := cap_words true s.
Definition w_field_name (s : str) : str := lower s.
Definition w_member_name (n enum_name : str) : str := n.

Definition res_of_opt {A} (o : option A) : result A := match o with Some a => Ok a | None => Err EOther end.

(* D_ok:
   syntax = "proto3";
   package p.q;
   import "google/protobuf/timestamp.proto";
   import "google/protobuf/wrappers.proto";
   enum Color { RED = 0; NEG = -1; }
   message Outer {
     message Inner { Outer back = 1; enum Kind { ZERO = 0; } Kind k = 2; }
     map<string, Inner> by_name = 1;
     oneof pick { int32 a = 2; Color c = 3; }
     optional double od = 4;
     repeated Inner rs = 5;
     google.protobuf.Timestamp ts = 6;
     google.protobuf.BoolValue bv = 7;
     map<int64, Color> colors = 8;
   }
*)
Definition D_ok : descriptor :=
  [(mkFile (b "google/protobuf/timestamp.proto") (b "google.protobuf")
    [(mkMsg (b "Timestamp")
      [(mkField (b "seconds") 1 1 3 (b "") None false); (mkField (b "nanos") 2 1 5 (b "") None false)]
      []
      [] [] false)]
    []);
   (mkFile (b "google/protobuf/wrappers.proto") (b "google.protobuf")
    [(mkMsg (b "DoubleValue")
      [(mkField (b "value") 1 1 1 (b "") None false)]
      []
      [] [] false); (mkMsg (b "FloatValue")
      [(mkField (b "value") 1 1 2 (b "") None false)]
      []
      [] [] false); (mkMsg (b "Int64Value")
      [(mkField (b "value") 1 1 3 (b "") None false)]
      []
      [] [] false); (mkMsg (b "UInt64Value")
      [(mkField (b "value") 1 1 4 (b "") None false)]
      []
      [] [] false); (mkMsg (b "Int32Value")
      [(mkField (b "value") 1 1 5 (b "") None false)]
      []
      [] [] false); (mkMsg (b "UInt32Value")
      [(mkField (b "value") 1 1 13 (b "") None false)]
      []
      [] [] false); (mkMsg (b "BoolValue")
      [(mkField (b "value") 1 1 8 (b "") None false)]
      []
      [] [] false); (mkMsg (b "StringValue")
      [(mkField (b "value") 1 1 9 (b "") None false)]
      []
      [] [] false); (mkMsg (b "BytesValue")
      [(mkField (b "value") 1 1 12 (b "") None false)]
      []
      [] [] false)]
    []);
   (mkFile (b "D_ok.proto") (b "p.q")
    [(mkMsg (b "Outer")
      [(mkField (b "by_name") 1 3 11 (b ".p.q.Outer.ByNameEntry") None false); (mkField (b "a") 2 1 5 (b "") (Some 0) false); (mkField (b "c") 3 1 14 (b ".p.q.Color") (Some 0) false); (mkField (b "od") 4 1 1 (b "") (Some 1) true); (mkField (b "rs") 5 3 11 (b ".p.q.Outer.Inner") None false); (mkField (b "ts") 6 1 11 (b ".google.protobuf.Timestamp") None false); (mkField (b "bv") 7 1 11 (b ".google.protobuf.BoolValue") None false); (mkField (b "colors") 8 3 11 (b ".p.q.Outer.ColorsEntry") None false)]
      [(mkMsg (b "Inner")
        [(mkField (b "back") 1 1 11 (b ".p.q.Outer") None false); (mkField (b "k") 2 1 14 (b ".p.q.Outer.Inner.Kind") None false)]
        []
        [(mkEnum (b "Kind") [((b "ZERO"), 0)])] [] false); (mkMsg (b "ByNameEntry")
        [(mkField (b "key") 1 1 9 (b "") None false); (mkField (b "value") 2 1 11 (b ".p.q.Outer.Inner") None false)]
        []
        [] [] true); (mkMsg (b "ColorsEntry")
        [(mkField (b "key") 1 1 3 (b "") None false); (mkField (b "value") 2 1 14 (b ".p.q.Color") None false)]
        []
        [] [] true)]
      [] [(b "pick"); (b "_od")] false)]
    [(mkEnum (b "Color") [((b "RED"), 0); ((b "NEG"), (-1))])])].

(* D_k1:
   syntax = "proto3";
   package wp;
   message Col { message Bar { int32 a = 1; } Bar b = 1; }
   message ColBar { string s = 1; }
*)
Definition D_k1 : descriptor :=
  [(mkFile (b "D_k1.proto") (b "wp")
    [(mkMsg (b "Col")
      [(mkField (b "b") 1 1 11 (b ".wp.Col.Bar") None false)]
      [(mkMsg (b "Bar")
        [(mkField (b "a") 1 1 5 (b "") None false)]
        []
        [] [] false)]
      [] [] false); (mkMsg (b "ColBar")
      [(mkField (b "s") 1 1 9 (b "") None false)]
      []
      [] [] false)]
    [])].

(* D_k8:
   syntax = "proto3";
   package wp;
   message A { int32 list = 1; string List = 2; }
*)
Definition D_k8 : descriptor :=
  [(mkFile (b "D_k8.proto") (b "wp")
    [(mkMsg (b "A")
      [(mkField (b "list") 1 1 5 (b "") None false); (mkField (b "List") 2 1 9 (b "") None false)]
      []
      [] [] false)]
    [])].

(* D_k2:
   syntax = "proto3";
   package wp;
   message lower { message inner { int32 x = 1; } inner i = 1; }
*)
Definition D_k2 : descriptor :=
  [(mkFile (b "D_k2.proto") (b "wp")
    [(mkMsg (b "lower")
      [(mkField (b "i") 1 1 11 (b ".wp.lower.inner") None false)]
      [(mkMsg (b "inner")
        [(mkField (b "x") 1 1 5 (b "") None false)]
        []
        [] [] false)]
      [] [] false)]
    [])].

(* D_k13:
   syntax = "proto3";
   package wp;
   message FooEntry { int32 x = 1; }
   message M { FooEntry foo = 1; map<string, int32> f_oo = 2; }
*)
Definition D_k13 : descriptor :=
  [(mkFile (b "D_k13.proto") (b "wp")
    [(mkMsg (b "FooEntry")
      [(mkField (b "x") 1 1 5 (b "") None false)]
      []
      [] [] false); (mkMsg (b "M")
      [(mkField (b "foo") 1 1 11 (b ".wp.FooEntry") None false); (mkField (b "f_oo") 2 3 11 (b ".wp.M.FOoEntry") None false)]
      [(mkMsg (b "FOoEntry")
        [(mkField (b "key") 1 1 9 (b "") None false); (mkField (b "value") 2 1 5 (b "") None false)]
        []
        [] [] true)]
      [] [] false)]
    [])].


(* ---- non-vacuity: a schema with nesting, recursion, maps, a oneof, proto3 optional, repeated, enums with a
   negative number, Timestamp and a wrapper meets both premises, and the two sides are the same
   non-trivial table ---- *)
Lemma D_ok_premises :
  protoc_wf D_ok = true /\ names_ok w_field_name w_class_name w_member_name D_ok = true.
Proof. split; vm_compute; reflexivity. Qed.

Lemma D_ok_table :
  reflect (compile w_field_name w_class_name w_member_name D_ok)
  = res_of_opt (class_table_of w_field_name w_class_name w_member_name D_ok)
  /\ match class_table_of w_field_name w_class_name w_member_name D_ok with
     | Some [(pkg, classes)] => pkg = b "p.q" /\ map fst classes = [b "Color"; b "OuterInnerKind"; b "Outer"; b "OuterInner"]
     | _ => False
     end.
Proof. split; [vm_compute; reflexivity | vm_compute; split; reflexivity]. Qed.

Lemma D_ok_field :
  match class_table_of w_field_name w_class_name w_member_name D_ok with
  | Some [(_, [_; _; (_, ClsMessage (f1 :: _)); _])] =>
      f1 = mkPyField (b "by_name") 1 (b "map") (Some (b "string", b "message")) None None false
                     (PyDict PyStr (PyRef (b "p.q") (b "OuterInner")))
  | _ => False
  end.
Proof. vm_compute. reflexivity. Qed.

(* ---- refutations: protoc_wf descriptors on which the plugin's output is NOT the schema's class table ---- *)
(* K1: Col.Bar and ColBar *)
Lemma collision_refuted :
  protoc_wf D_k1 = true
  /\ reflect (compile w_field_name w_class_name w_member_name D_k1)
     <> res_of_opt (class_table_of w_field_name w_class_name w_member_name D_k1).
Proof. split; [vm_compute; reflexivity | vm_compute; discriminate]. Qed.

(* K8: fields list and List *)
Lemma member_collision_refuted :
  protoc_wf D_k8 = true
  /\ reflect (compile w_field_name w_class_name w_member_name D_k8)
     <> res_of_opt (class_table_of w_field_name w_class_name w_member_name D_k8).
Proof. split; [vm_compute; reflexivity | vm_compute; discriminate]. Qed.

(* K2: lower-case message with a nested type is taken for a package *)
Lemma package_regex_refuted :
  protoc_wf D_k2 = true
  /\ reflect (compile w_field_name w_class_name w_member_name D_k2)
     <> res_of_opt (class_table_of w_field_name w_class_name w_member_name D_k2)
  /\ parse_source_type_name (b ".wp.lower.inner") = (b "wp.lower", b "inner").
Proof. split; [vm_compute; reflexivity | split; [vm_compute; discriminate | vm_compute; reflexivity]]. Qed.

(* K13: the plain message field foo of type FooEntry is taken for a map *)
Lemma is_map_refuted :
  protoc_wf D_k13 = true
  /\ exists f p m x, In f D_k13 /\ In (p, m) (file_msgs f) /\ In x (md_fields m)
       /\ is_map x m = true /\ spec_is_map (fl_package f) p m x = false.
Proof.
  split; [vm_compute; reflexivity|].
  destruct D_k13 as [|f r] eqn:E; [discriminate E|].
  exists f. injection E as <- <-. eexists _, _, _. split; [now left|]. split.
  - cbn. right. left. reflexivity.
  - split; [cbn; left; reflexivity|]. split; vm_compute; reflexivity.
Qed.

(* K14: google.protobuf.EnumValue is not a wrapper, field_wraps says wraps="enum" *)
Lemma wraps_refuted :
  field_wraps (b ".google.protobuf.EnumValue") = Some (b "enum")
  /\ lookup (b ".google.protobuf.EnumValue") wkt_wrappers = None.
Proof. split; vm_compute; reflexivity. Qed.

(* ---- bundled descriptor libraries ---- *)
Lemma bundled_agree : forallb agree_on_shared_numbers bundled_vs_reference = true.
Proof. vm_compute. reflexivity. Qed.

Lemma bundled_enums_agree : forallb enum_agree_on_shared_names bundled_enums_vs_reference = true.
Proof. vm_compute. reflexivity. Qed.

(* non-vacuity of the sweep: how much was compared *)
Lemma bundled_nonvacuous :
  (40 <=? Zlength bundled_vs_reference) = true
  /\ (300 <=? fold_right Z.add 0 (map shared_numbers bundled_vs_reference)) = true
  /\ (10 <=? Zlength bundled_enums_vs_reference) = true.
Proof. vm_compute. repeat split. Qed.
