(* C04: (A) + (B) + the instance form + dumps_total put together: the statements of the property. *)
From BP Require Import Base.Prelude Model.Types Model.Object Model.Eq Model.Encode Model.WellFormed Model.Json.
From BP Require Import Proofs.C04Def Proofs.C04ScalarP Proofs.C04ElemP Proofs.C04ObjP Proofs.C04RtP4 Proofs.C04InstP Proofs.C04DumpsP.

Lemma good_parts sc m : good sc m = true -> in_range sc m = true /\ oneof_ok sc m = true.
Proof.
  unfold good. intros G. apply andb_prop in G as [G _]. apply andb_prop in G as [G _]. apply andb_prop in G as [A B]. auto.
Qed.

Lemma both_forms sc cs (text : bool) m :
  wf_schema sc = true -> keys_ok cs sc = true -> good sc m = true ->
  exists m', from_dict_cls sc (ocls m) (tr text (to_dict cs false sc m)) = Ok m' /\
             from_dict_inst sc (new sc (ocls m)) (tr text (to_dict cs false sc m)) = Ok m' /\
             obj_eq sc m' m = true /\ enc_obj sc m' = enc_obj sc m.
Proof.
  intros W K G. exists (norm_obj sc m). split; [|split].
  - exact (from_to_dict_norm sc cs text W K m G).
  - exact (inst_from_to_dict_norm sc cs text W K m G).
  - exact (norm_faithful sc W m G).
Qed.

Lemma dumps_total_main sc cs m :
  wf_schema sc = true -> in_range sc m = true -> oneof_ok sc m = true -> dumpsable (to_dict cs false sc m) = true.
Proof. intros W R O. exact (dumps_total sc cs W m R O). Qed.

Lemma dict_rt sc cs m :
  wf_schema sc = true -> keys_ok cs sc = true -> good sc m = true ->
  exists m', from_dict_cls sc (ocls m) (to_dict cs false sc m) = Ok m' /\
             from_dict_inst sc (new sc (ocls m)) (to_dict cs false sc m) = Ok m' /\
             obj_eq sc m' m = true /\ enc_obj sc m' = enc_obj sc m.
Proof. exact (both_forms sc cs false m). Qed.

Lemma text_rt_rt sc cs m :
  wf_schema sc = true -> keys_ok cs sc = true -> good sc m = true ->
  exists m', json_rt_cls cs false sc m = Ok m' /\
             json_rt_inst cs false sc m (new sc (ocls m)) = Ok m' /\
             obj_eq sc m' m = true /\ enc_obj sc m' = enc_obj sc m.
Proof.
  intros W K G. destruct (good_parts sc m G) as [R O].
  destruct (both_forms sc cs true m W K G) as [m' [A [B C]]]. exists m'.
  unfold json_rt_cls, json_rt_inst, dumps_loads. rewrite (dumps_total sc cs W m R O). cbn [bind].
  split; [exact A|]. split; [exact B|exact C].
Qed.
