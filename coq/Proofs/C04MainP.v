(* C04: (A) + (B) put together: the statements of the property. *)
From BP Require Import Base.Prelude Model.Types Model.Object Model.Eq Model.Encode Model.WellFormed Model.Json.
From BP Require Import Proofs.C04Def Proofs.C04ScalarP Proofs.C04ObjP Proofs.C04RtP4.

Lemma class_rt sc cs (text : bool) m :
  wf_schema sc = true -> keys_ok cs sc = true -> good sc m = true ->
  exists m', from_dict_cls sc (ocls m) (tr text (to_dict cs false sc m)) = Ok m' /\
             obj_eq sc m' m = true /\ enc_obj sc m' = enc_obj sc m.
Proof.
  intros W K G. exists (norm_obj sc m). split.
  - exact (from_to_dict_norm sc cs text W K m G).
  - exact (norm_faithful sc W m G).
Qed.

Lemma dict_rt sc cs m :
  wf_schema sc = true -> keys_ok cs sc = true -> good sc m = true ->
  exists m', from_dict_cls sc (ocls m) (to_dict cs false sc m) = Ok m' /\
             obj_eq sc m' m = true /\ enc_obj sc m' = enc_obj sc m.
Proof. exact (class_rt sc cs false m). Qed.

Lemma text_rt_rt sc cs m :
  wf_schema sc = true -> keys_ok cs sc = true -> good sc m = true ->
  exists m', from_dict_cls sc (ocls m) (text_rt (to_dict cs false sc m)) = Ok m' /\
             obj_eq sc m' m = true /\ enc_obj sc m' = enc_obj sc m.
Proof. exact (class_rt sc cs true m). Qed.
