(* C06: the record grammar of Spec/C06Wire.v against the framing layer of the decoder model
   (load_varint + load_field), the wire-type table, and field lookup by number. *)
From BP Require Import Base.Prelude Model.Types Model.Varint Model.Object Model.Decode Model.WellFormed.
From BP Require Import gen.Tables Spec.Varint Spec.C06Wire Proofs.BytesP Proofs.VarintP.

(* ---- tags ---- *)
Lemma tag_number num wt : 0 <= wt < 8 -> Z.shiftr (num * 8 + wt) 3 = num.
Proof. intros H. rewrite Z.shiftr_div_pow2 by lia. change (2 ^ 3) with 8. nia. Qed.

Lemma tag_wire_type num wt : 0 <= wt < 8 -> Z.land (num * 8 + wt) 7 = wt.
Proof. intros H. change 7 with (Z.ones 3). rewrite Z.land_ones by lia. change (2 ^ 3) with 8. lia. Qed.

Lemma varint_rep_nonempty n bs : VarintRep n bs -> exists b r, bs = b :: r.
Proof. intros (Sh & _). destruct bs as [|b r]; [cbn in Sh; tauto|]. eauto. Qed.

(* ---- _read_exactly on a stream that has the bytes ---- *)
Lemma read_exactly_app d rest : read_exactly (d ++ rest) (Zlength d) = Ok (d, rest).
Proof.
  unfold read_exactly, Zlength. rewrite app_length.
  replace ((0 <=? Z.of_nat (length d)) && (Z.of_nat (length d) <=? Z.of_nat (length d + length rest))) with true
    by (symmetry; apply andb_true_intro; split; lia).
  rewrite Nat2Z.id. rewrite firstn_app, Nat.sub_diag, firstn_all, firstn_O, app_nil_r.
  rewrite skipn_app, Nat.sub_diag, skipn_all. reflexivity.
Qed.

(* ---- one record of the grammar is what the decoder's framing layer reads ---- *)
Definition parsed_of (r : wrec) (raw : list byte) : parsed := mkP (rnum r) (rwt r) (rval r) (rbytes r) raw.

Lemma load_record fuel r a rest :
  is_record r a ->
  exists tag tb payload,
    a = tb ++ payload /\ tb <> [] /\
    load_varint (a ++ rest) = Ok (tag, tb, payload ++ rest) /\
    load_field fuel (payload ++ rest) tag tb = Ok (parsed_of r a, rest).
Proof.
  intros H. destruct H as [num v tb vb Hn Ht Hv | num d tb Hn Ht Hd | num d tb lb Hn Ht Hl | num d tb Hn Ht Hd].
  - exists (num * 8 + 0), tb, vb. rewrite <- app_assoc.
    destruct (varint_rep_nonempty _ _ Ht) as (b0 & r0 & ->).
    split; [reflexivity|]. split; [discriminate|]. split; [apply load_varint_rep; exact Ht|].
    destruct fuel; cbn [load_field]; rewrite tag_number, tag_wire_type by lia;
      replace (num =? 0) with false by lia; cbn [Z.eqb WIRE_VARINT];
      rewrite (load_varint_rep _ _ rest Hv); reflexivity.
  - exists (num * 8 + 1), tb, d. rewrite <- app_assoc.
    destruct (varint_rep_nonempty _ _ Ht) as (b0 & r0 & ->).
    split; [reflexivity|]. split; [discriminate|]. split; [apply load_varint_rep; exact Ht|].
    assert (E : read_exactly (d ++ rest) 8 = Ok (d, rest)).
    { replace 8 with (Zlength d) by (unfold Zlength; rewrite Hd; reflexivity). apply read_exactly_app. }
    destruct fuel; cbn [load_field]; rewrite tag_number, tag_wire_type by lia;
      replace (num =? 0) with false by lia; cbn [Z.eqb WIRE_VARINT WIRE_FIXED_64];
      rewrite E; reflexivity.
  - exists (num * 8 + 2), tb, (lb ++ d). rewrite <- !app_assoc.
    destruct (varint_rep_nonempty _ _ Ht) as (b0 & r0 & ->).
    split; [reflexivity|]. split; [discriminate|].
    split; [rewrite !app_assoc, <- (app_assoc (b0 :: r0)), <- app_assoc; apply load_varint_rep; exact Ht|].
    destruct fuel; cbn [load_field]; rewrite tag_number, tag_wire_type by lia;
      replace (num =? 0) with false by lia; cbn [Z.eqb WIRE_VARINT WIRE_FIXED_64 WIRE_LEN_DELIM];
      rewrite (load_varint_rep _ _ (d ++ rest) Hl); cbn [bind]; rewrite read_exactly_app; reflexivity.
  - exists (num * 8 + 5), tb, d. rewrite <- app_assoc.
    destruct (varint_rep_nonempty _ _ Ht) as (b0 & r0 & ->).
    split; [reflexivity|]. split; [discriminate|]. split; [apply load_varint_rep; exact Ht|].
    assert (E : read_exactly (d ++ rest) 4 = Ok (d, rest)).
    { replace 4 with (Zlength d) by (unfold Zlength; rewrite Hd; reflexivity). apply read_exactly_app. }
    destruct fuel; cbn [load_field]; rewrite tag_number, tag_wire_type by lia;
      replace (num =? 0) with false by lia;
      cbn [Z.eqb WIRE_VARINT WIRE_FIXED_64 WIRE_LEN_DELIM WIRE_FIXED_32];
      rewrite E; reflexivity.
Qed.

Lemma is_record_wt r a : is_record r a -> rwt r = 0 \/ rwt r = 1 \/ rwt r = 2 \/ rwt r = 5.
Proof. intros H; destruct H; cbn; auto. Qed.

(* ---- the wire-type table of the specification is the one the code consults ---- *)
Lemma fits_is_wire_type_fits f wt : wire_type_fits f wt = fits f wt.
Proof.
  unfold wire_type_fits, fits, is_repeated, WIRE_VARINT, WIRE_FIXED_32, WIRE_FIXED_64, WIRE_LEN_DELIM.
  destruct (Z.eqb_spec wt 0) as [->|N0]; [destruct (fty f); vm_compute; reflexivity|].
  destruct (Z.eqb_spec wt 5) as [->|N5]; [destruct (fty f); vm_compute; reflexivity|].
  destruct (Z.eqb_spec wt 1) as [->|N1]; [destruct (fty f); vm_compute; reflexivity|].
  destruct (Z.eqb_spec wt 2) as [->|N2].
  - destruct (fty f), (fhint f); vm_compute; reflexivity.
  - cbn [andb]. rewrite orb_false_r. symmetry. apply Z.eqb_neq.
    destruct (fty f); cbn; lia.
Qed.

(* ---- field_name_by_number ---- *)
Lemma field_by_number_go_spec num : forall fs i0 acc i f,
  (fix go (i : nat) (fs : list fdesc) (acc : option (nat * fdesc)) : option (nat * fdesc) :=
     match fs with
     | [] => acc
     | f :: fs' => go (S i) fs' (if fnum f =? num then Some (i, f) else acc)
     end) i0 fs acc = Some (i, f) ->
  (acc = Some (i, f) /\ forall j f', nth_error fs j = Some f' -> fnum f' <> num) \/
  (exists k, i = (i0 + k)%nat /\ nth_error fs k = Some f /\ fnum f = num).
Proof.
  induction fs as [|g fs IH]; intros i0 acc i f H.
  - left. split; [exact H|]. intros j f' Hj. destruct j; discriminate.
  - apply IH in H. destruct H as [[Ha Hno]|(k & -> & Hk & Hn)].
    + destruct (fnum g =? num) eqn:E.
      * apply Z.eqb_eq in E. injection Ha as <- <-. right. exists O. rewrite Nat.add_0_r. auto.
      * apply Z.eqb_neq in E. left. split; [exact Ha|].
        intros [|j] f' Hj; [injection Hj as <-; exact E|]. eapply Hno; exact Hj.
    + right. exists (S k). split; [lia|]. auto.
Qed.

Lemma field_by_number_some cd num i f :
  field_by_number cd num = Some (i, f) -> nth_error (cfields cd) i = Some f /\ fnum f = num.
Proof.
  unfold field_by_number. intros H. apply field_by_number_go_spec in H.
  destruct H as [[H _]|(k & -> & Hk & Hn)]; [discriminate|]. auto.
Qed.

Lemma field_by_number_go_none num : forall fs i0,
  (fix go (i : nat) (fs : list fdesc) (acc : option (nat * fdesc)) : option (nat * fdesc) :=
     match fs with
     | [] => acc
     | f :: fs' => go (S i) fs' (if fnum f =? num then Some (i, f) else acc)
     end) i0 fs None = None ->
  forall j f', nth_error fs j = Some f' -> fnum f' <> num.
Proof.
  induction fs as [|g fs IH]; intros i0 H j f' Hj; [destruct j; discriminate|].
  destruct (fnum g =? num) eqn:E.
  - exfalso. clear IH Hj E. revert H. generalize (i0, g). generalize (S i0).
    induction fs as [|h fs IH']; intros n acc H; [discriminate|].
    destruct (fnum h =? num); eapply IH'; exact H.
  - apply Z.eqb_neq in E. destruct j; [injection Hj as <-; exact E|]. eapply IH; [exact H|exact Hj].
Qed.

Lemma field_by_number_none cd num j f' :
  field_by_number cd num = None -> nth_error (cfields cd) j = Some f' -> fnum f' <> num.
Proof. unfold field_by_number. intros H. eapply field_by_number_go_none. exact H. Qed.

(* unique numbers *)
Lemma nodup_z_nth l : nodup_z l = true -> forall i j x, nth_error l i = Some x -> nth_error l j = Some x -> i = j.
Proof.
  induction l as [|a l IH]; intros H i j x Hi Hj; [destruct i; discriminate|].
  cbn [nodup_z] in H. apply andb_prop in H as [Ha Hl].
  assert (Hnot : forall k, nth_error l k = Some a -> False).
  { intros k Hk. apply negb_true_iff in Ha.
    assert (existsb (Z.eqb a) l = true); [|congruence].
    apply existsb_exists. exists a. split; [eapply nth_error_In; exact Hk|apply Z.eqb_refl]. }
  destruct i, j; cbn in Hi, Hj; try reflexivity.
  - injection Hi as <-. exfalso. eapply Hnot; exact Hj.
  - injection Hj as <-. exfalso. eapply Hnot; exact Hi.
  - f_equal. eapply IH; eassumption.
Qed.

Lemma wf_unique_numbers sc c i j f g :
  wf_schema sc = true ->
  nth_error (cfields (get_class sc c)) i = Some f -> nth_error (cfields (get_class sc c)) j = Some g ->
  fnum f = fnum g -> i = j.
Proof.
  intros W Hi Hj E.
  assert (Ic : In (get_class sc c) (classes sc)).
  { unfold get_class in *. destruct (nth_in_or_default c (classes sc) empty_class) as [I|E']; [exact I|].
    rewrite E' in Hi. destruct i; discriminate. }
  unfold wf_schema in W. apply andb_prop in W as [_ W]. rewrite forallb_forall in W.
  specialize (W _ Ic). unfold wf_class in W. apply andb_prop in W as [_ W].
  eapply (nodup_z_nth _ W i j (fnum f)).
  - rewrite nth_error_map, Hi. reflexivity.
  - rewrite nth_error_map, Hj, E. reflexivity.
Qed.

(* the owner of a record, in terms of the code's lookup *)
Lemma owner_go_spec r : forall fs i0,
  (fix go (i : nat) (fs : list fdesc) : option nat :=
     match fs with
     | [] => None
     | f :: fs' => if rnum r =? fnum f then (if fits f (rwt r) then Some i else None) else go (S i) fs'
     end) i0 fs =
  match (fix first (i : nat) (fs : list fdesc) : option (nat * fdesc) :=
           match fs with
           | [] => None
           | f :: fs' => if rnum r =? fnum f then Some (i, f) else first (S i) fs'
           end) i0 fs with
  | Some (i, f) => if fits f (rwt r) then Some i else None
  | None => None
  end.
Proof.
  induction fs as [|g fs IH]; intros i0; [reflexivity|].
  destruct (rnum r =? fnum g); [reflexivity|apply IH].
Qed.

Lemma owner_spec sc c r :
  wf_schema sc = true ->
  owner (get_class sc c) r =
  match field_by_number (get_class sc c) (rnum r) with
  | Some (i, f) => if fits f (rwt r) then Some i else None
  | None => None
  end.
Proof.
  intros W. unfold owner. rewrite owner_go_spec.
  set (cd := get_class sc c).
  assert (F : forall fs i0,
    match (fix first (i : nat) (fs : list fdesc) : option (nat * fdesc) :=
           match fs with
           | [] => None
           | f :: fs' => if rnum r =? fnum f then Some (i, f) else first (S i) fs'
           end) i0 fs with
    | Some (i, f) => exists k, i = (i0 + k)%nat /\ nth_error fs k = Some f /\ fnum f = rnum r
    | None => forall j f', nth_error fs j = Some f' -> fnum f' <> rnum r
    end).
  { induction fs as [|g fs IH]; intros i0.
    - intros j f' Hj. destruct j; discriminate.
    - destruct (Z.eqb_spec (rnum r) (fnum g)) as [E|E].
      + exists O. rewrite Nat.add_0_r. auto.
      + specialize (IH (S i0)). destruct (_ (S i0) fs) as [[i f]|].
        * destruct IH as (k & -> & Hk & Hn). exists (S k). split; [lia|auto].
        * intros [|j] f' Hj; [injection Hj as <-; congruence|eapply IH; exact Hj]. }
  specialize (F (cfields cd) O).
  destruct (field_by_number cd (rnum r)) as [[i f]|] eqn:B.
  - apply field_by_number_some in B as [Bi Bn].
    destruct (_ O (cfields cd)) as [[i' f']|].
    + destruct F as (k & -> & Hk & Hn). cbn [Nat.add] in *.
      assert (k = i) by (eapply (wf_unique_numbers sc c); try eassumption; congruence). subst k.
      rewrite Bi in Hk. injection Hk as <-. reflexivity.
    + exfalso. eapply F; eassumption.
  - destruct (_ O (cfields cd)) as [[i' f']|]; [|reflexivity].
    destruct F as (k & -> & Hk & Hn). exfalso. eapply field_by_number_none; eassumption.
Qed.

(* ---- the executable reader of Spec/C06Wire.v is sound for the record grammar ---- *)
Lemma take_varint_sound : forall n bs v rest,
  take_varint n bs = Some (v, rest) -> bs = v ++ rest /\ varint_shape v /\ (length v <= n)%nat.
Proof.
  induction n as [|n IH]; intros bs v rest H; [discriminate|].
  cbn [take_varint] in H. destruct bs as [|b r]; [discriminate|].
  destruct (Z.ltb_spec (Z_of_byte b) 128) as [Lt|Ge].
  - injection H as <- <-. cbn. repeat split; try lia.
  - destruct (take_varint n r) as [[v' rest']|] eqn:E; [|discriminate].
    injection H as <- <-. destruct (IH _ _ _ E) as (-> & Sh & Le).
    split; [reflexivity|]. split; [|cbn [length]; lia].
    cbn [varint_shape]. destruct v' as [|b' v'']; [cbn in Sh; tauto|]. split; [lia|exact Sh].
Qed.

Lemma take_varint_rep n bs v rest :
  (n <= 10)%nat -> take_varint n bs = Some (v, rest) -> bs = v ++ rest /\ VarintRep (varint_value v) v.
Proof.
  intros Hn H. destruct (take_varint_sound _ _ _ _ H) as (E & Sh & Le).
  split; [exact E|]. repeat split; [exact Sh|lia].
Qed.

Lemma take_bytes_sound n bs d rest : take_bytes n bs = Some (d, rest) -> bs = d ++ rest /\ length d = n.
Proof.
  unfold take_bytes. destruct (Nat.leb_spec n (length bs)) as [Le|Gt]; [|discriminate].
  intros H. injection H as <- <-. split; [symmetry; apply firstn_skipn|apply firstn_length_le; exact Le].
Qed.

Lemma read_record_sound bs r rest :
  read_record bs = Some (r, rest) -> exists a, bs = a ++ rest /\ is_record r a /\ a <> [].
Proof.
  unfold read_record. intros H.
  destruct (take_varint 10 bs) as [[tb r1]|] eqn:Et; [|discriminate].
  destruct (take_varint_rep 10 _ _ _ (le_n _) Et) as (-> & Rt).
  set (tag := varint_value tb) in *.
  assert (Htag : tag = tag / 8 * 8 + tag mod 8) by (pose proof (Z.div_mod tag 8 ltac:(lia)); lia).
  assert (Hne : forall x, tb ++ x <> []).
  { intros x. destruct Rt as (Sh & _). destruct tb; [cbn in Sh; tauto|discriminate]. }
  destruct (Z.ltb_spec (tag / 8) 1) as [Lt|Ge]; [discriminate|].
  destruct (Z.eqb_spec (tag mod 8) 0) as [E0|N0].
  { destruct (take_varint 10 r1) as [[vb r2]|] eqn:Ev; [|discriminate]. injection H as <- <-.
    destruct (take_varint_rep 10 _ _ _ (le_n _) Ev) as (-> & Rv).
    exists (tb ++ vb). split; [apply app_assoc|]. split; [|apply Hne].
    apply IR_varint; try assumption. rewrite <- E0, <- Htag. exact Rt. }
  destruct (Z.eqb_spec (tag mod 8) 1) as [E1|N1].
  { destruct (take_bytes 8 r1) as [[d r2]|] eqn:Eb; [|discriminate]. injection H as <- <-.
    destruct (take_bytes_sound _ _ _ _ Eb) as (-> & Ld).
    exists (tb ++ d). split; [apply app_assoc|]. split; [|apply Hne].
    apply IR_fixed64; try assumption. rewrite <- E1, <- Htag. exact Rt. }
  destruct (Z.eqb_spec (tag mod 8) 5) as [E5|N5].
  { destruct (take_bytes 4 r1) as [[d r2]|] eqn:Eb; [|discriminate]. injection H as <- <-.
    destruct (take_bytes_sound _ _ _ _ Eb) as (-> & Ld).
    exists (tb ++ d). split; [apply app_assoc|]. split; [|apply Hne].
    apply IR_fixed32; try assumption. rewrite <- E5, <- Htag. exact Rt. }
  destruct (Z.eqb_spec (tag mod 8) 2) as [E2|N2]; [|discriminate].
  destruct (take_varint 10 r1) as [[lb r2]|] eqn:El; [|discriminate].
  destruct (take_varint_rep 10 _ _ _ (le_n _) El) as (-> & Rl).
  destruct (take_bytes (Z.to_nat (varint_value lb)) r2) as [[d r3]|] eqn:Eb; [|discriminate].
  injection H as <- <-. destruct (take_bytes_sound _ _ _ _ Eb) as (-> & Ld).
  exists (tb ++ lb ++ d). split; [rewrite <- !app_assoc; reflexivity|]. split; [|apply Hne].
  apply IR_len; try assumption.
  - rewrite <- E2, <- Htag. exact Rt.
  - replace (Zlength d) with (varint_value lb); [exact Rl|].
    unfold Zlength. rewrite Ld. rewrite Z2Nat.id; [reflexivity|apply varint_value_nonneg].
Qed.

Theorem read_records_sound : forall fuel bs rs, read_records fuel bs = Some rs -> is_records rs bs.
Proof.
  induction fuel as [|fuel IH]; intros bs rs H.
  - destruct bs; [injection H as <-; constructor|discriminate].
  - cbn [read_records] in H. destruct bs as [|b bs]; [injection H as <-; constructor|].
    destruct (read_record (b :: bs)) as [[r rest]|] eqn:Er; [|discriminate].
    destruct (read_records fuel rest) as [rs'|] eqn:Es; [|discriminate]. injection H as <-.
    destruct (read_record_sound _ _ _ Er) as (a & -> & Hr & _).
    constructor; [exact Hr|apply IH; exact Es].
Qed.

Corollary parse_records_sound bs rs : parse_records bs = Some rs -> is_records rs bs.
Proof. apply read_records_sound. Qed.
