(* C02: the value one fitting record contributes (field_value = _postprocess_single and the
   packed loop) against Spec/Wire.elem_of / elems_of, for every element kind. *)
From BP Require Import Base.Prelude Model.Types Model.Varint Model.Scalar Model.Float Model.Utf8.
From BP Require Import Model.Object Model.Eq Model.TimeCore Model.Decode Model.WellFormed.
From BP Require Import Spec.Varint Spec.Wire.
From BP Require Import Proofs.BytesP Proofs.C02Abs Proofs.C02WireP Proofs.C02LeafP Proofs.C02LoadP Proofs.C02ListP Proofs.C02StepP Proofs.C02SimP.
From BP Require Import gen.Tables.
From Coq Require Import ZifyBool ZifyN.
Ltac Zify.zify_post_hook ::= Z.to_euclidean_division_equations.

(* values the decoder stores as one element *)
Definition elemish (v : pv) : Prop :=
  v <> PPlaceholder /\ v <> PNone /\ (forall l, v <> PList l) /\ (forall d, v <> PDict d) /\
  (forall o', v = PMsg o' -> osow o' = true).

Definition scalarish (v : pv) : Prop :=
  match v with PInt _ | PBool _ | PFloat _ | PStr _ | PBytes _ => True | _ => False end.

Lemma scalarish_elemish v : scalarish v -> elemish v.
Proof. destruct v; cbn; try tauto; intros _; repeat split; try discriminate. Qed.

Lemma abs_scalar_scalarish v : scalarish v -> abs_scalar v <> ANone.
Proof. destruct v; cbn; try tauto; discriminate. Qed.

(* a plain scalar value of the specification: what scalar_of produces *)
Definition plain_aval (a : aval) : Prop :=
  match a with AInt _ | ABool _ | AFloat _ | AStr _ | ABytes _ => True | _ => False end.

Lemma abs_scalar_plain v : plain_aval (abs_scalar v) -> scalarish v.
Proof. destruct v; cbn; tauto. Qed.

Lemma scalar_of_plain t p a : scalar_of t p = Some a -> plain_aval a.
Proof.
  destruct p; cbn [scalar_of].
  - destruct t; cbn; try discriminate; intros [= <-]; exact I.
  - destruct t; cbn; try discriminate; intros [= <-]; exact I.
  - destruct t; try discriminate; [destruct (utf8_valid b); [|discriminate]|]; intros [= <-]; exact I.
  - destruct t; cbn; try discriminate; intros [= <-]; exact I.
  - discriminate.
Qed.

Lemma adefault_plain t : plain_aval (adefault t).
Proof. destruct t; exact I. Qed.

(* ------------------------------------------------------------------ one scalar payload *)
Lemma pwt_parsed_of r a : pwt (parsed_of r a) = wt_of (snd r).
Proof. unfold parsed_of. destruct (snd r); reflexivity. Qed.
Lemma pnum_parsed_of r a : pnum (parsed_of r a) = fst r.
Proof. unfold parsed_of. destruct (snd r); reflexivity. Qed.
Lemma praw_parsed_of r a : praw (parsed_of r a) = a.
Proof. unfold parsed_of. destruct (snd r); reflexivity. Qed.

Section Value.
  Variable sc : schema.
  Variable pn : nat -> list byte -> result obj.

  Lemma field_value_scalar f a num p sv :
    rec_ok a (num, p) -> fits f p = true -> scalar_of (fty f) p = Some sv ->
    (match p with Len _ => packable (fty f) = false | _ => True end) ->
    narrow_ok f p = true ->
    exists v, field_value sc pn f (parsed_of (num, p) a) = Ok v /\ abs_scalar v = sv /\ scalarish v.
  Proof.
    intros R F S NP N. unfold field_value. rewrite pwt_parsed_of. cbn [snd].
    rewrite (packed_branch_spec f p F).
    destruct p as [n|b|b|b|rs]; cbn [scalar_of] in S; try discriminate.
    - (* varint *)
      cbn [wt_of]. unfold WIRE_VARINT. cbn [Z.eqb]. unfold parsed_of. cbn [snd pint].
      assert (Hn : 0 <= n < 2 ^ 64).
      { inversion R; subst. split; [eapply VarintRep_nonneg; eauto | assumption]. }
      assert (Ht : tmem (fty f) WIRE_VARINT_TYPES = true).
      { unfold fits in F. destruct (fty f); try discriminate F; reflexivity. }
      assert (Hnar : narrow32 (fty f) = true -> n < 2 ^ 32).
      { intros E. unfold narrow_ok in N. rewrite E in N. lia. }
      pose proof (postprocess_varint_spec (fty f) n Ht Hn Hnar) as P.
      eexists. split; [reflexivity|]. split; [congruence|].
      apply abs_scalar_plain. rewrite S in P. injection P as <-. eapply scalar_of_plain with (p := Varint n). exact S.
    - (* fixed64 *)
      cbn [wt_of]. unfold WIRE_VARINT, WIRE_FIXED_32, WIRE_FIXED_64. cbn [Z.eqb Pos.eqb orb]. unfold parsed_of. cbn [snd pbytes].
      assert (L : length b = 8%nat) by (inversion R; subst; assumption).
      assert (Ht : tmem (fty f) WIRE_FIXED_64_TYPES = true).
      { unfold fits in F. destruct (fty f); try discriminate F; reflexivity. }
      destruct (unpack_value_fixed64 (fty f) b Ht L) as (v & Hv & Ho).
      exists v. split; [exact Hv|]. split; [congruence|].
      apply abs_scalar_plain. rewrite S in Ho. injection Ho as <-. eapply scalar_of_plain with (p := Fixed64 b). exact S.
    - (* len: string / bytes *)
      cbn [wt_of]. rewrite NP. unfold WIRE_VARINT, WIRE_FIXED_32, WIRE_FIXED_64. cbn [Z.eqb Pos.eqb orb]. unfold parsed_of. cbn [snd pbytes].
      unfold post_len. destruct (fty f); try discriminate S; cbn [ptype_eqb ptype_tag Z.eqb Pos.eqb].
      + destruct (utf8_valid b); [|discriminate]. injection S as <-. eexists. split; [reflexivity|]. split; [reflexivity | exact I].
      + injection S as <-. eexists. split; [reflexivity|]. split; [reflexivity | exact I].
    - (* fixed32 *)
      cbn [wt_of]. unfold WIRE_VARINT, WIRE_FIXED_32, WIRE_FIXED_64. cbn [Z.eqb Pos.eqb orb]. unfold parsed_of. cbn [snd pbytes].
      assert (L : length b = 4%nat) by (inversion R; subst; assumption).
      assert (Ht : tmem (fty f) WIRE_FIXED_32_TYPES = true).
      { unfold fits in F. destruct (fty f); try discriminate F; reflexivity. }
      destruct (unpack_value_fixed32 (fty f) b Ht L) as (v & Hv & Ho).
      exists v. split; [exact Hv|]. split; [congruence|].
      apply abs_scalar_plain. rewrite S in Ho. injection Ho as <-. eapply scalar_of_plain with (p := Fixed32 b). exact S.
  Qed.
End Value.

(* ------------------------------------------------------------------ reading a plain field of a nested object *)
Lemma default_scalar sc ng f p :
  wf_field sc ng f = true -> card_of f = Implicit -> fhint f = HPlain p ->
  abs_scalar (default_of sc f) = adefault (fty f) /\ scalarish (default_of sc f).
Proof.
  intros W C H. destruct (wf_implicit _ _ _ W C) as (p' & H' & _ & _ & _ & _ & _ & Fit).
  rewrite H in H'. injection H' as <-. unfold default_of. rewrite H.
  unfold card_of in C. rewrite H in C. destruct (fgroup f); [discriminate C|].
  destruct (fty f), p; cbn in Fit; try discriminate Fit; try discriminate C; split; try reflexivity; exact I.
Qed.

Definition shaped (sc : schema) (o : obj) : Prop :=
  forall k fk x, nth_error (cfields (get_class sc (ocls o))) k = Some fk -> nth_error (oraw o) k = Some x -> shape_ok fk x.

Definition good (sc : schema) (c' : nat) (o : obj) : Prop :=
  ocls o = c' /\ length (oraw o) = length (cfields (get_class sc c')) /\ shaped sc o.

Lemma abs_field_plain sc cur j f x : plain_aval (abs_field sc cur j f x) -> card_of f = Implicit.
Proof.
  unfold abs_field. destruct (card_of f); try reflexivity; intros H; exfalso.
  - destruct x; try exact H. destruct (match fhint f with HPlain _ => osow o | _ => true end); exact H.
  - destruct (opt_nat_eqb (nth g cur None) (Some j)); exact H.
  - destruct x; exact H.
  - destruct x; exact H.
Qed.

Lemma imap2_nth_inv {A B C} (h : nat -> A -> B -> C) la lb k c0 :
  length la = length lb -> nth_error (imap2 h 0 la lb) k = Some c0 ->
  exists a b, nth_error la k = Some a /\ nth_error lb k = Some b /\ c0 = h k a b.
Proof.
  intros L H. pose proof (nth_error_Some_lt _ _ _ H) as Lk. rewrite imap2_length in Lk by exact L.
  destruct (nth_error_ex la k Lk) as (a & Ha). destruct (nth_error_ex lb k ltac:(lia)) as (b & Hb).
  exists a, b. split; [exact Ha|]. split; [exact Hb|].
  rewrite (imap2_nth h la 0 lb k a b Ha Hb) in H. cbn [Nat.add] in H. congruence.
Qed.

Lemma implicit_read sc c' mo flds unk j a :
  wf_schema sc = true -> good sc c' mo -> abs_obj sc mo = AMsg flds unk ->
  nth_error flds j = Some a -> plain_aval a ->
  exists x, snd (getattr sc mo j) = Ok x /\ abs_scalar x = a /\ scalarish x.
Proof.
  intros WF (Ec & Lr & _) A Hj P. destruct mo as [c0 raw sow unk0 cur]. cbn [ocls oraw] in *. subst c0.
  rewrite abs_obj_eq in A. injection A as <- _.
  destruct (imap2_nth_inv _ _ _ _ _ (eq_sym Lr) Hj) as (fj & xj & Hf & Hx & ->).
  pose proof (abs_field_plain _ _ _ _ _ P) as C.
  pose proof (wf_field_get sc c' j fj WF Hf) as W.
  destruct (wf_implicit _ _ _ W C) as (p & Hh & Hg & _).
  assert (Gs : group_selects cur fj j <> Some false) by (unfold group_selects; rewrite Hg; discriminate).
  rewrite (getattr_spec sc c' raw sow unk0 cur j fj xj Hf Hx Gs).
  unfold abs_field in *. rewrite C in *.
  destruct xj; cbn [snd]; try (eexists; split; [reflexivity|]; split; [reflexivity | now apply abs_scalar_plain]).
  destruct (default_scalar sc _ fj p W C Hh) as (D1 & D2). eexists; split; [reflexivity|]; split; assumption.
Qed.

(* ------------------------------------------------------------------ one message payload *)
Section MsgValue.
  Variable sc : schema.
  Hypothesis WF : wf_schema sc = true.
  Variable pn : nat -> list byte -> result obj.
  Variable nested : nat -> list byte -> option aval.
  Variable nested_ok : nat -> list byte -> bool.
  Variable B : nat.       (* nested payloads are shorter than B: that is what the fuel of the nested load covers *)
  Hypothesis PN : forall c' b m, (length b < B)%nat -> nested c' b = Some m -> nested_ok c' b = true ->
                                 exists mo, pn c' b = Ok mo /\ abs_obj sc mo = m /\ good sc c' mo.

  Lemma msg_class_fty f c' : msg_class f = Some c' -> fty f = TMessage.
  Proof. unfold msg_class. destruct (fty f); try discriminate. reflexivity. Qed.

  Lemma field_value_message f a num b c' m :
    (length b < B)%nat ->
    msg_class f = Some c' -> nested c' b = Some m -> nested_ok c' b = true ->
    exact_ok nested f c' b = true ->
    exists v, field_value sc pn f (parsed_of (num, Len b) a) = Ok v /\ abs_elem sc f v = m /\ elemish v.
  Proof.
    intros LB MC Nm Nok Ex. pose proof (msg_class_fty f c' MC) as Ft.
    unfold field_value, parsed_of. cbn [snd pwt pbytes]. rewrite Ft.
    unfold WIRE_LEN_DELIM, WIRE_VARINT, WIRE_FIXED_32, WIRE_FIXED_64.
    replace (tmem TMessage PACKED_TYPES) with false by (vm_compute; reflexivity).
    cbn [Z.eqb Pos.eqb andb orb ptype_eqb ptype_tag]. unfold post_len. rewrite Ft.
    cbn [ptype_eqb ptype_tag Z.eqb Pos.eqb].
    destruct (PN c' b m LB Nm Nok) as (mo & Hpn & Ha & G).
    unfold abs_elem. rewrite MC.
    unfold msg_class in MC. rewrite Ft in MC. unfold exact_ok in Ex. rewrite Nm in Ex.
    change (hint_elem (fhint f)) with (elem_hint (fhint f)).
    destruct (elem_hint (fhint f)) eqn:EH.
    1-6: destruct (fwraps f) as [w|] eqn:Wr; try discriminate MC.
    1-6: (rewrite MC, Hpn; cbn [bind];
          destruct m as [| | | | | | | | |flds unk]; try discriminate Ex;
          destruct flds as [|a0 [|? ?]]; try discriminate Ex; destruct unk; try discriminate Ex;
          assert (Pa : plain_aval a0) by (destruct a0; try discriminate Ex; exact I);
          destruct (implicit_read sc c' mo [a0] [] 0 a0 WF G Ha eq_refl Pa) as (x & Hx & Ax & Sx);
          rewrite Hx; exists x; split; [reflexivity|]; split;
          [destruct x; try contradiction; cbn [abs_scalar] in *; congruence | now apply scalarish_elemish]).
    - destruct (fwraps f) as [w|] eqn:Wr.
      + (* wrapper whose hint is a message type: same *)
        rewrite MC, Hpn. cbn [bind].
        destruct m as [| | | | | | | | |flds unk]; try discriminate Ex.
        destruct flds as [|a0 [|? ?]]; try discriminate Ex. destruct unk; try discriminate Ex.
        assert (Pa : plain_aval a0) by (destruct a0; try discriminate Ex; exact I).
        destruct (implicit_read sc c' mo [a0] [] 0 a0 WF G Ha eq_refl Pa) as (x & Hx & Ax & Sx).
        rewrite Hx. exists x. split; [reflexivity|]. split; [|now apply scalarish_elemish].
        destruct x; try contradiction; cbn [abs_scalar] in *; congruence.
      + (* user message *)
        injection MC as <-. rewrite Hpn. cbn [bind]. destruct mo as [c0 raw sow unk cur].
        eexists. split; [reflexivity|]. cbn [mark_sow]. split.
        * rewrite <- Ha. apply abs_obj_sow.
        * repeat split; try discriminate. intros o' [= <-]. reflexivity.
    - (* Timestamp *)
      injection MC as <-. rewrite Hpn. cbn [bind].
      destruct m as [| | | | | | | | |flds unk]; try discriminate Ex.
      destruct flds as [|[s| | | | | | | | |] [|[nn| | | | | | | | |] [|? ?]]]; try discriminate Ex. destruct unk; try discriminate Ex.
      destruct (implicit_read sc timestamp_cls mo _ _ 0 (AInt s) WF G Ha eq_refl I) as (x0 & Hx0 & Ax0 & Sx0).
      destruct (implicit_read sc timestamp_cls mo _ _ 1 (AInt nn) WF G Ha eq_refl I) as (x1 & Hx1 & Ax1 & Sx1).
      rewrite Hx0, Hx1. destruct x0; try discriminate Ax0. destruct x1; try discriminate Ax1.
      cbn [abs_scalar] in Ax0, Ax1. injection Ax0 as ->. injection Ax1 as ->.
      unfold ts_exact in Ex. destruct (us_of_ts s nn) as [us|]; [|discriminate]. cbn [bind].
      exists (PDatetime us). split; [reflexivity|]. split; [|repeat split; discriminate].
      destruct (ts_pair_of_us us) as [s' n']. apply andb_true_iff in Ex as [E1 E2].
      apply Z.eqb_eq in E1, E2. now subst.
    - (* Duration *)
      injection MC as <-. rewrite Hpn. cbn [bind].
      destruct m as [| | | | | | | | |flds unk]; try discriminate Ex.
      destruct flds as [|[s| | | | | | | | |] [|[nn| | | | | | | | |] [|? ?]]]; try discriminate Ex. destruct unk; try discriminate Ex.
      destruct (implicit_read sc duration_cls mo _ _ 0 (AInt s) WF G Ha eq_refl I) as (x0 & Hx0 & Ax0 & Sx0).
      destruct (implicit_read sc duration_cls mo _ _ 1 (AInt nn) WF G Ha eq_refl I) as (x1 & Hx1 & Ax1 & Sx1).
      rewrite Hx0, Hx1. destruct x0; try discriminate Ax0. destruct x1; try discriminate Ax1.
      cbn [abs_scalar] in Ax0, Ax1. injection Ax0 as ->. injection Ax1 as ->.
      unfold dur_exact in Ex. destruct (us_of_dur s nn) as [us|]; [|discriminate]. cbn [bind].
      exists (PTimedelta us). split; [reflexivity|]. split; [|repeat split; discriminate].
      destruct (dur_pair_of_us us) as [s' n']. apply andb_true_iff in Ex as [E1 E2].
      apply Z.eqb_eq in E1, E2. now subst.
  Qed.
End MsgValue.

Lemma rec_ok_len_lt a num b : rec_ok a (num, Len b) -> (length b < length a)%nat.
Proof.
  intros R. inversion R; subst. rewrite !app_length.
  match goal with T : TagRep _ _ _ |- _ => pose proof (length_pos_of_nonempty _ (TagRep_nonempty _ _ _ T)) end. lia.
Qed.
