(* C09: the two walks agree.  Message.__len__ (Model/Len.v) against Message.dump
   (Model/Encode.v), helper pair by helper pair, with NO hypothesis on the schema or
   on the object: wherever bytes() raises, len() raises the same kind of error, and
   wherever it returns, len() is the number of bytes. *)
From BP Require Import Base.Prelude Model.Types Model.Varint Model.Scalar Model.Float.
From BP Require Import Model.Object Model.Eq Model.TimeCore Model.Encode Model.Len.
From BP Require Import gen.Tables Proofs.VarintP.


Definition agree (rb : result (list byte)) (rz : result Z) : Prop :=
  match rb, rz with
  | Ok b, Ok n => n = Zlength b
  | Err a, Err b => a = b
  | _, _ => False
  end.

Lemma Zlength_app {A} (a b : list A) : Zlength (a ++ b) = Zlength a + Zlength b.
Proof. unfold Zlength. rewrite app_length. lia. Qed.

Lemma Zlength_nil {A} : Zlength (@nil A) = 0.
Proof. reflexivity. Qed.

Lemma Zlength_zero_iff {A} (l : list A) : (Zlength l =? 0) = match l with [] => true | _ => false end.
Proof. destruct l; unfold Zlength; cbn [length]; [reflexivity|]. apply Z.eqb_neq. lia. Qed.

Lemma agree_varint v : agree (encode_varint v) (size_varint v).
Proof.
  unfold agree. pose proof (encode_size_agree_total v) as H.
  destruct (encode_varint v), (size_varint v); auto.
Qed.

Section WithMsg.
  Variable msg : option ptype -> pv -> result (list byte).

  Lemma agree_preprocess t w v :
    agree (preprocess_with msg t w v) (len_preprocessed_with msg t w v).
  Proof.
    unfold preprocess_with, len_preprocessed_with.
    destruct (tmem t [TEnum; TBool; TInt32; TInt64; TUInt32; TUInt64]).
    { destruct (int_like v); [apply agree_varint | reflexivity]. }
    destruct (tmem t [TSInt32; TSInt64]).
    { destruct (int_like v); [apply agree_varint | reflexivity]. }
    destruct (tmem t FIXED_TYPES).
    { destruct (pack_value t v); cbn; reflexivity. }
    destruct (ptype_eqb t TString).
    { destruct v; cbn; reflexivity. }
    destruct (ptype_eqb t TMessage).
    { destruct v, w; cbn; try (destruct (msg _ _); cbn; reflexivity); reflexivity. }
    destruct v; cbn; reflexivity.
  Qed.

  Lemma agree_key k (value : list byte) n :
    n = Zlength value ->
    agree (do key <- encode_varint k; Ok (key ++ value)) (do s <- size_varint k; Ok (n + s)).
  Proof.
    intros ->. pose proof (agree_varint k) as H. unfold agree in *.
    destruct (encode_varint k), (size_varint k); cbn; try tauto.
    rewrite Zlength_app. lia.
  Qed.

  Lemma agree_single num t v se w :
    agree (serialize_with msg num t v se w) (len_single_with msg num t v se w).
  Proof.
    unfold serialize_with, len_single_with.
    pose proof (agree_preprocess t w v) as Hp. unfold agree in Hp.
    destruct (preprocess_with msg t w v) as [value|e], (len_preprocessed_with msg t w v) as [size|e'];
      cbn [bind]; try tauto; try exact Hp.
    subst size.
    destruct (tmem t WIRE_VARINT_TYPES). { apply agree_key; reflexivity. }
    destruct (tmem t WIRE_FIXED_32_TYPES). { apply agree_key; reflexivity. }
    destruct (tmem t WIRE_FIXED_64_TYPES). { apply agree_key; reflexivity. }
    destruct (tmem t WIRE_LEN_DELIM_TYPES); [|reflexivity].
    destruct (negb (Zlength value =? 0) || se || match w with Some _ => true | None => false end) eqn:Hc.
    - pose proof (agree_varint (Z.lor (Z.shiftl num 3) 2)) as Hk.
      pose proof (agree_varint (Zlength value)) as Hn. unfold agree in *.
      destruct (encode_varint (Z.lor (Z.shiftl num 3) 2)), (size_varint (Z.lor (Z.shiftl num 3) 2)); cbn [bind]; try tauto.
      destruct (encode_varint (Zlength value)), (size_varint (Zlength value)); cbn [bind]; try tauto.
      rewrite !Zlength_app. lia.
    - cbn. apply orb_false_iff in Hc as [Hc _]. apply orb_false_iff in Hc as [Hc _].
      apply negb_false_iff in Hc. apply Z.eqb_eq in Hc. rewrite Hc.
      destruct value; [reflexivity|]. unfold Zlength in Hc. cbn [length] in Hc. lia.
  Qed.
End WithMsg.

Lemma agree_concat_sum {A} (f : A -> result (list byte)) (g : A -> result Z) l :
  (forall x, agree (f x) (g x)) -> agree (concat_map f l) (sum_map g l).
Proof.
  intros H. induction l as [|x l IH]; cbn [concat_map sum_map]; [reflexivity|].
  specialize (H x). unfold agree in *.
  destruct (f x), (g x); cbn [bind]; try tauto.
  fold (concat_map f l). destruct (concat_map f l), (sum_map g l); cbn [bind]; try tauto.
  rewrite Zlength_app. lia.
Qed.

Lemma agree_field enc_msg sc f sel v :
  agree (emit_field enc_msg sc f sel v) (len_field enc_msg sc f sel v).
Proof.
  unfold emit_field, len_field.
  destruct (is_default sc f v && negb _); [reflexivity|].
  destruct v; try apply agree_single.
  - (* list *)
    destruct (tmem (fty f) PACKED_TYPES).
    + destruct (concat_map _ l); cbn [bind]; [apply agree_single | reflexivity].
    + apply agree_concat_sum. intros x.
      pose proof (agree_single (msg_bytes enc_msg) (fnum f) (fty f) x true (fwraps f)) as H.
      unfold agree in *.
      destruct (serialize_with _ _ _ _ _ _) as [r|], (len_single_with _ _ _ _ _ _) as [n|]; cbn [bind]; try tauto.
      subst n. rewrite Zlength_zero_iff. destruct r; reflexivity.
  - (* dict *)
    destruct (fmap f) as [[kt vt]|]; [|reflexivity].
    induction l as [|[k v'] l IH]; cbn [sum_map]; [reflexivity|].
    destruct (serialize_with (msg_bytes enc_msg) 1 kt k false None) as [sk|]; cbn [bind]; [|reflexivity].
    destruct (serialize_with (msg_bytes enc_msg) 2 vt v' false None) as [sv|]; cbn [bind]; [|reflexivity].
    pose proof (agree_single (msg_bytes enc_msg) (fnum f) (fty f) (PBytes (sk ++ sv)) true None) as H.
    unfold agree in *.
    destruct (serialize_with _ (fnum f) _ _ _ _) as [e|], (len_single_with _ (fnum f) _ _ _ _) as [n|]; cbn [bind]; try tauto.
    match goal with |- match (do rest <- ?X; _) with _ => _ end => destruct X end;
      destruct (sum_map _ l); cbn [bind] in *; try tauto.
    rewrite Zlength_app. lia.
Qed.

Theorem len_matches_bytes sc o : agree (enc_obj sc o) (len_obj sc o).
Proof.
  destruct o as [c raw sow unk cur]. cbn [enc_obj len_obj].
  set (fs := cfields (get_class sc c)). clearbody fs.
  assert (H : forall raw i fs,
    agree
      ((fix go (i : nat) (raw : list pv) (fs : list fdesc) {struct raw} : result (list byte) :=
         match raw, fs with
         | x :: raw', f :: fs' =>
             do here <-
               match group_selects cur f i with
               | Some false => Ok []
               | sel =>
                   match x with
                   | PNone => Ok []
                   | PPlaceholder =>
                       match default_of sc f with
                       | PNone => Ok []
                       | d => emit_field (fun _ => Ok []) sc f sel d
                       end
                   | _ => emit_field (enc_obj sc) sc f sel x
                   end
               end;
             do rest <- go (Datatypes.S i) raw' fs';
             Ok (here ++ rest)
         | _, _ => Ok []
         end) i raw fs)
      ((fix go (i : nat) (raw : list pv) (fs : list fdesc) {struct raw} : result Z :=
         match raw, fs with
         | x :: raw', f :: fs' =>
             do here <-
               match group_selects cur f i with
               | Some false => Ok 0
               | sel =>
                   match x with
                   | PNone => Ok 0
                   | PPlaceholder =>
                       match default_of sc f with
                       | PNone => Ok 0
                       | d => len_field (fun _ => Ok []) sc f sel d
                       end
                   | _ => len_field (enc_obj sc) sc f sel x
                   end
               end;
             do rest <- go (Datatypes.S i) raw' fs';
             Ok (here + rest)
         | _, _ => Ok 0
         end) i raw fs)).
  { clear raw fs. induction raw as [|x raw IH]; intros i fs; [reflexivity|].
    destruct fs as [|f fs]; [reflexivity|].
    assert (Hh : agree
       (match group_selects cur f i with
        | Some false => Ok []
        | sel => match x with
                 | PNone => Ok []
                 | PPlaceholder => match default_of sc f with
                                   | PNone => Ok []
                                   | d => emit_field (fun _ => Ok []) sc f sel d end
                 | _ => emit_field (enc_obj sc) sc f sel x end end)
       (match group_selects cur f i with
        | Some false => Ok 0
        | sel => match x with
                 | PNone => Ok 0
                 | PPlaceholder => match default_of sc f with
                                   | PNone => Ok 0
                                   | d => len_field (fun _ => Ok []) sc f sel d end
                 | _ => len_field (enc_obj sc) sc f sel x end end)).
    { destruct (group_selects cur f i) as [[|]|]; try reflexivity;
        (destruct x; try apply agree_field; try reflexivity;
         destruct (default_of sc f); try apply agree_field; reflexivity). }
    specialize (IH (Datatypes.S i) fs). unfold agree in *.
    match goal with |- match (do here <- ?A; _) with _ => _ end =>
      destruct A as [here|]; cbn [bind] end;
    match goal with |- match _ with _ => _ end => idtac end.
    all: match type of Hh with match _ with _ => _ end => idtac | _ => idtac end.
    all: try (match goal with H : match ?Y with Ok _ => _ | Err _ => _ end |- _ => destruct Y end).
    all: cbn [bind]; try tauto.
    all: try (match goal with |- match (do rest <- ?B; _) with _ => _ end =>
                destruct B as [rest|] end;
              match goal with H : match _ with _ => _ end |- _ => idtac end).
    all: try (match goal with H : match ?Y with Ok _ => _ | Err _ => _ end |- _ => destruct Y end).
    all: cbn [bind]; try tauto.
    all: try (rewrite Zlength_app; lia). }
  specialize (H raw O fs).
  match type of H with agree ?A ?B => remember A as ra eqn:Ea; remember B as rb eqn:Eb end.
  clear Ea Eb. unfold agree in *.
  destruct ra, rb; cbn [bind]; try tauto.
  rewrite Zlength_app. lia.
Qed.

(* ---- the property-level corollaries ---- *)
Lemma len_of_bytes sc o bs : enc_obj sc o = Ok bs -> len_obj sc o = Ok (Zlength bs).
Proof.
  intros H. pose proof (len_matches_bytes sc o) as A. unfold agree in A. rewrite H in A.
  destruct (len_obj sc o); [subst; reflexivity | contradiction].
Qed.

Lemma len_fails_iff_bytes_fails sc o e : enc_obj sc o = Err e <-> len_obj sc o = Err e.
Proof.
  pose proof (len_matches_bytes sc o) as A. unfold agree in A.
  destruct (enc_obj sc o), (len_obj sc o); try contradiction; split; intros H; inversion H; subst; reflexivity.
Qed.

Lemma dump_plain sc o : dump sc o false = enc_obj sc o.
Proof. unfold dump. cbn [bind]. destruct (enc_obj sc o); reflexivity. Qed.

Lemma Zlength_nonneg {A} (l : list A) : 0 <= Zlength l.
Proof. unfold Zlength. lia. Qed.

Lemma dump_delimited sc o bs :
  enc_obj sc o = Ok bs ->
  dump sc o true = (do p <- encode_varint (Zlength bs); Ok (p ++ bs)).
Proof.
  intros H. unfold dump. rewrite (len_of_bytes _ _ _ H). cbn [bind]. rewrite H.
  destruct (encode_varint (Zlength bs)); reflexivity.
Qed.

(* the prefix is the canonical varint of the length whenever the length fits 64 bits *)
Lemma dump_delimited_canonical sc o bs :
  enc_obj sc o = Ok bs -> Zlength bs < 2 ^ 64 ->
  exists p, encode_varint (Zlength bs) = Ok p /\ dump sc o true = Ok (p ++ bs) /\
            load_varint (p ++ bs) = Ok (Zlength bs, p, bs).
Proof.
  intros H Hlt. pose proof (Zlength_nonneg bs) as Hn.
  destruct (encode_load_inverse (Zlength bs) bs) as [p [Hp Hl]]; [lia|].
  exists p. split; [exact Hp|]. split.
  - rewrite (dump_delimited _ _ _ H), Hp. reflexivity.
  - rewrite Hl. unfold wrap64. rewrite Z.mod_small by lia. reflexivity.
Qed.

Lemma dump_fails_iff_bytes_fails sc o d e : enc_obj sc o = Err e -> dump sc o d = Err e.
Proof.
  intros H. unfold dump. destruct d.
  - apply len_fails_iff_bytes_fails in H. rewrite H. reflexivity.
  - cbn [bind]. rewrite H. reflexivity.
Qed.
