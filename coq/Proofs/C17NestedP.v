(* C17 below the top level, rejection half: a complete length-delimited record of a KNOWN field with a
   fitting wire type whose payload is not valid for the declared type makes parse raise, whatever
   complete records precede it and whatever follows it:
     ragged packed fixed-width payload, packed varint payload that ends inside an element or holds an
     element of more than ten bytes, invalid UTF-8, a nested payload the nested class rejects (any depth). *)
From BP Require Import Base.Prelude Model.Types Model.Varint Model.Scalar Model.Float Model.Utf8.
From BP Require Import Model.Object Model.TimeCore Model.Decode Spec.Varint.
From BP Require Import Model.C17Wire Model.C17Step Model.C17Nested.
From BP Require Import Proofs.BytesP Proofs.VarintP Proofs.C17FieldP Proofs.C17StepP Proofs.C17FrameP Proofs.C17ComposeP.
From BP Require Import gen.Tables.
From Coq Require Import ZifyBool.
Ltac Zify.zify_post_hook ::= Z.to_euclidean_division_equations.

(* ---------- the parsed field of a complete length-delimited payload, explicitly ---------- *)
Definition len_parsed (nw : Z) (raw lb d : list byte) : parsed := mkP (tag_num nw) 2 0 d (raw ++ lb ++ d).

Lemma load_field_len nw lb d rest raw fuel :
  tag_num nw <> 0 -> tag_wt nw = 2 -> VarintRep (Zlength d) lb ->
  load_field fuel (lb ++ d ++ rest) nw raw = Ok (len_parsed nw raw lb d, rest).
Proof.
  intros Hn Hw Rl. rewrite load_field_unfold. cbv zeta.
  unfold tag_num, tag_wt in *. replace (Z.shiftr nw 3 =? 0) with false by lia.
  rewrite Hw. unfold WIRE_VARINT, WIRE_FIXED_64, WIRE_LEN_DELIM. cbn [Z.eqb Pos.eqb].
  rewrite (load_varint_rep _ _ (d ++ rest) Rl). cbn [bind].
  rewrite read_exactly_app. cbn [bind]. unfold len_parsed, tag_num. reflexivity.
Qed.

Section Rec.
  Variable sc : schema.
  Variable pn : nat -> list byte -> result obj.
  Variable fuel' : nat.
  Variable cd : cdesc.
  Notation loop := (loop_r sc pn (load_field fuel') None cd).

  Lemma loop_len_step nw tag lb d rest n o read :
    VarintRep nw tag -> tag_num nw <> 0 -> tag_wt nw = 2 -> VarintRep (Zlength d) lb ->
    loop (S n) o (tag ++ (lb ++ d) ++ rest) read =
    (do o' <- apply_field sc pn cd o (len_parsed nw tag lb d); loop n o' rest read).
  Proof.
    intros Rt Hn Hw Rl. pose proof (VarintRep_nonempty _ _ Rt) as Ht.
    cbn [loop_r]. destruct (tag ++ (lb ++ d) ++ rest) as [|b s] eqn:Es.
    { destruct tag; [cbn in Ht; lia | discriminate]. }
    rewrite <- Es. rewrite (load_varint_rep _ _ _ Rt). cbn [bind].
    rewrite <- app_assoc. rewrite (load_field_len nw lb d rest tag fuel' Hn Hw Rl).
    cbn [bind account finished]. reflexivity.
  Qed.

  Lemma len_record_fails nw tag lb d post i f e :
    VarintRep nw tag -> tag_num nw <> 0 -> tag_wt nw = 2 -> VarintRep (Zlength d) lb ->
    field_by_number cd (tag_num nw) = Some (i, f) -> wire_type_fits f 2 = true ->
    decode_value sc pn f (len_parsed nw tag lb d) = Err e ->
    loop_fails sc pn fuel' cd (tag ++ (lb ++ d) ++ post).
  Proof.
    intros Rt Hn Hw Rl Hf Hfit Hd n o read Hl Hfu. destruct n as [|n]; [lia|].
    rewrite (loop_len_step nw tag lb d post n o read Rt Hn Hw Rl).
    unfold apply_field. cbn [len_parsed pnum pwt]. rewrite Hf, Hfit. cbn [negb].
    rewrite Hd. cbn [bind]. eauto.
  Qed.
End Rec.

Lemma known_fit_inv sc c nw f :
  known_fit sc c nw = Some f ->
  exists i, field_by_number (get_class sc c) (tag_num nw) = Some (i, f) /\ wire_type_fits f (tag_wt nw) = true.
Proof.
  unfold known_fit. destruct (field_by_number _ _) as [[i f0]|]; [|discriminate].
  destruct (wire_type_fits f0 (tag_wt nw)) eqn:E; [|discriminate]. intros H. injection H as <-. eauto.
Qed.

(* the general form: the record's value cannot be decoded, at whatever (sufficient) fuel the nested parser runs *)
Theorem len_record_rejected sc o pre nw tag lb d post f :
  wrecs pre -> VarintRep nw tag -> tag_num nw <> 0 -> tag_wt nw = 2 -> VarintRep (Zlength d) lb ->
  known_fit sc (ocls o) nw = Some f ->
  (forall L, (length d < L)%nat -> exists e, decode_value sc (pn_of L sc) f (len_parsed nw tag lb d) = Err e) ->
  exists e, parse_into sc o (pre ++ tag ++ lb ++ d ++ post) = Err e.
Proof.
  intros Wp Rt Hn Hw Rl Hk Hd. apply known_fit_inv in Hk as (i & Hf & Hfit). rewrite Hw in Hfit.
  rewrite parse_into_loop.
  set (x := pre ++ tag ++ lb ++ d ++ post). set (L := length x).
  pose proof (VarintRep_nonempty _ _ Rt) as Ht.
  assert (HL : (length d < L)%nat) by (unfold L, x; rewrite !app_length; lia).
  destruct (Hd L HL) as [e He].
  assert (F : loop_fails sc (pn_of L sc) L (get_class sc (ocls o)) x).
  { unfold x. apply fails_after_records; [exact Wp|].
    replace (tag ++ lb ++ d ++ post) with (tag ++ (lb ++ d) ++ post) by (rewrite <- !app_assoc; reflexivity).
    eapply len_record_fails; eassumption. }
  destruct (F (S L) (mark_on_wire o) 0 ltac:(unfold L; lia) ltac:(unfold L; lia)) as [e' ->].
  cbn [bind]. eauto.
Qed.

(* ---------- decode_value on a length-delimited record ---------- *)
Lemma decode_len_packed sc pn f nw raw lb d :
  tmem (fty f) PACKED_TYPES = true ->
  decode_value sc pn f (len_parsed nw raw lb d) =
  (do l <- unpack_packed (S (length d)) (fty f) d; Ok (PList l)).
Proof. intros Hp. unfold decode_value, len_parsed. cbn [pwt pbytes]. rewrite Hp. reflexivity. Qed.

Lemma nested_not_packed f c' : nested_cls f = Some c' -> tmem (fty f) PACKED_TYPES = false.
Proof. unfold nested_cls. destruct (fty f); try discriminate; reflexivity. Qed.

Lemma decode_len_string sc pn f nw raw lb d :
  fty f = TString ->
  decode_value sc pn f (len_parsed nw raw lb d) = (if utf8_valid d then Ok (PStr d) else Err EUnicode).
Proof. intros Ht. unfold decode_value, post_len_r, len_parsed. cbn [pwt pbytes]. rewrite Ht. reflexivity. Qed.

Lemma decode_len_bytes sc pn f nw raw lb d :
  fty f = TBytes -> decode_value sc pn f (len_parsed nw raw lb d) = Ok (PBytes d).
Proof. intros Ht. unfold decode_value, post_len_r, len_parsed. cbn [pwt pbytes]. rewrite Ht. reflexivity. Qed.

(* what happens to the nested message once its class has parsed the payload *)
Definition finish_nested (sc : schema) (f : fdesc) (m : obj) : result pv :=
  match fty f with
  | TMap => Ok (PMsg m)
  | _ =>
      match hint_elem (fhint f), fwraps f with
      | PyDatetime, _ =>
          match snd (getattr sc m 0), snd (getattr sc m 1) with
          | Ok (PInt sec), Ok (PInt nan) => do us <- us_of_ts sec nan; Ok (PDatetime us)
          | _, _ => Err EType
          end
      | PyTimedelta, _ =>
          match snd (getattr sc m 0), snd (getattr sc m 1) with
          | Ok (PInt sec), Ok (PInt nan) => do us <- us_of_dur sec nan; Ok (PTimedelta us)
          | _, _ => Err EType
          end
      | _, Some w => snd (getattr sc m 0)
      | _, None => Ok (mark_sow (PMsg m))
      end
  end.

Lemma decode_len_nested sc pn f nw raw lb d c' :
  nested_cls f = Some c' ->
  decode_value sc pn f (len_parsed nw raw lb d) = (do m <- pn c' d; finish_nested sc f m).
Proof.
  intros Hc. pose proof (nested_not_packed _ _ Hc) as Hp.
  unfold decode_value, len_parsed. cbn [pwt pbytes]. rewrite Hp.
  unfold WIRE_LEN_DELIM, WIRE_VARINT, WIRE_FIXED_32, WIRE_FIXED_64. cbn [Z.eqb Pos.eqb andb orb].
  unfold nested_cls in Hc. unfold finish_nested, post_len_r.
  destruct (fty f) eqn:Et; try discriminate Hc; cbn [ptype_eqb ptype_tag Z.eqb Pos.eqb].
  - (* message *)
    destruct (hint_elem (fhint f)), (fwraps f) as [w|]; try discriminate Hc;
      try (injection Hc as <-; reflexivity);
      rewrite Hc; reflexivity.
  - injection Hc as <-. destruct (pn (fentry f) d); reflexivity.
Qed.

(* ---------- packed runs ---------- *)
Lemma unpack_value_fixed t w bs :
  fixed_width t = Some w -> (exists x, unpack_value t bs = Ok x) <-> Zlength bs = w.
Proof.
  unfold Zlength. intros Hw.
  destruct t; try discriminate Hw; injection Hw as <-; unfold unpack_value, unpack_int; cbn [pack_fmt fmt_int_range];
    match goal with |- context [Nat.eqb ?a ?b] => destruct (Nat.eqb a b) eqn:E end;
    cbn [bind]; (split; [intros [x Hx]; try discriminate Hx; lia | intros Hl; try lia; eauto]).
Qed.

Lemma fixed_tmem t w :
  fixed_width t = Some w ->
  (w = 4 /\ tmem t [TFloat; TFixed32; TSFixed32] = true) \/
  (w = 8 /\ tmem t [TFloat; TFixed32; TSFixed32] = false /\ tmem t [TDouble; TFixed64; TSFixed64] = true).
Proof. destruct t; intros H; try discriminate H; injection H as <-; cbn; tauto. Qed.

Lemma varint_tmem t :
  fixed_width t = None ->
  tmem t [TFloat; TFixed32; TSFixed32] = false /\ tmem t [TDouble; TFixed64; TSFixed64] = false.
Proof. destruct t; intros H; try discriminate H; cbn; tauto. Qed.

Lemma Zlength_firstn_skipn {A} k (l : list A) :
  (k <= length l)%nat -> Zlength (firstn k l) = Z.of_nat k /\ Zlength (skipn k l) = Zlength l - Z.of_nat k.
Proof. intros H. unfold Zlength. rewrite firstn_length, skipn_length. lia. Qed.

Lemma Zlength_firstn_short {A} k (l : list A) : (length l < k)%nat -> Zlength (firstn k l) = Zlength l.
Proof. intros H. unfold Zlength. rewrite firstn_length. lia. Qed.

Lemma unpack_packed_fixed n : forall t w buf,
  fixed_width t = Some w -> (length buf < n)%nat ->
  ((exists l, unpack_packed n t buf = Ok l) <-> Zlength buf mod w = 0).
Proof.
  induction n as [|n IH]; intros t w buf Hw Hl; [lia|]. cbn [unpack_packed].
  destruct buf as [|b buf']. { split; [intros _|eauto]. destruct (fixed_tmem _ _ Hw) as [[-> _]|[-> _]]; reflexivity. }
  set (buf := b :: buf') in *.
  assert (Hpos : 0 < Zlength buf) by (unfold Zlength, buf; cbn [length]; lia).
  assert (Hne : buf <> []) by discriminate.
  destruct (fixed_tmem _ _ Hw) as [[-> T4]|[-> [T4 T8]]]; rewrite T4; [|rewrite T8].
  - pose proof (unpack_value_fixed t 4 (firstn 4 buf) Hw) as Hv.
    destruct (Nat.le_gt_cases 4 (length buf)) as [Hge|Hlt].
    + destruct (Zlength_firstn_skipn 4 buf Hge) as [F S4].
      destruct (proj2 Hv F) as [x ->]. cbn [bind].
      pose proof (IH t 4 (skipn 4 buf) Hw ltac:(pose proof (skipn_length 4 buf); lia)) as IH'.
      split.
      * intros [l Hlx]. destruct (unpack_packed n t (skipn 4 buf)) as [r|] eqn:Er; cbn [bind] in Hlx; [|discriminate].
        assert (Zlength (skipn 4 buf) mod 4 = 0) by (apply IH'; eauto). lia.
      * intros Hm. destruct (proj2 IH') as [r ->]; [lia|]. cbn [bind]. eauto.
    + split.
      * intros [l Hlx]. destruct (unpack_value t (firstn 4 buf)) as [x|] eqn:Ex; cbn [bind] in Hlx; [|discriminate].
        assert (Zlength (firstn 4 buf) = 4) by (apply Hv; eauto).
        rewrite Zlength_firstn_short in * by lia. unfold Zlength in *. lia.
      * unfold Zlength in *. lia.
  - pose proof (unpack_value_fixed t 8 (firstn 8 buf) Hw) as Hv.
    destruct (Nat.le_gt_cases 8 (length buf)) as [Hge|Hlt].
    + destruct (Zlength_firstn_skipn 8 buf Hge) as [F S8].
      destruct (proj2 Hv F) as [x ->]. cbn [bind].
      pose proof (IH t 8 (skipn 8 buf) Hw ltac:(pose proof (skipn_length 8 buf); lia)) as IH'.
      split.
      * intros [l Hlx]. destruct (unpack_packed n t (skipn 8 buf)) as [r|] eqn:Er; cbn [bind] in Hlx; [|discriminate].
        assert (Zlength (skipn 8 buf) mod 8 = 0) by (apply IH'; eauto). lia.
      * intros Hm. destruct (proj2 IH') as [r ->]; [lia|]. cbn [bind]. eauto.
    + split.
      * intros [l Hlx]. destruct (unpack_value t (firstn 8 buf)) as [x|] eqn:Ex; cbn [bind] in Hlx; [|discriminate].
        assert (Zlength (firstn 8 buf) = 8) by (apply Hv; eauto).
        rewrite Zlength_firstn_short in * by lia. unfold Zlength in *. lia.
      * unfold Zlength in *. lia.
Qed.

Lemma unpack_packed_varints n : forall t buf,
  fixed_width t = None -> (length buf < n)%nat ->
  ((exists l, unpack_packed n t buf = Ok l) <-> varints buf).
Proof.
  induction n as [|n IH]; intros t buf Hw Hl; [lia|].
  destruct (varint_tmem _ Hw) as [T4 T8]. split.
  - cbn [unpack_packed]. destruct buf as [|b buf']; [intros _; constructor|]. set (buf := b :: buf') in *.
    rewrite T4, T8. intros [l Hlx].
    destruct (load_varint buf) as [[[v r] rest]|] eqn:Ev; cbn [bind] in Hlx; [|discriminate].
    apply load_varint_inv in Ev as (E & Rv & Hr). rewrite E. rewrite E, app_length in Hl.
    destruct (unpack_packed n t rest) as [r'|] eqn:Er; cbn [bind] in Hlx; [|discriminate].
    econstructor; [exact Rv|]. apply (IH t rest Hw ltac:(lia)). eauto.
  - intros Hv. destruct Hv as [|v vb rest Rv Hrest]; [cbn; eauto|].
    pose proof (VarintRep_nonempty _ _ Rv) as Hne. rewrite app_length in Hl.
    cbn [unpack_packed]. destruct (vb ++ rest) as [|b s] eqn:Es.
    { destruct vb; [cbn in Hne; lia | discriminate]. }
    rewrite <- Es, T4, T8, (load_varint_rep _ _ _ Rv). cbn [bind].
    destruct (proj2 (IH t rest Hw ltac:(lia)) Hrest) as [l ->]. cbn [bind]. eauto.
Qed.

(* a run of whole varints followed by something load_varint rejects *)
Lemma unpack_packed_bad_tail t good x e0 :
  fixed_width t = None -> varints good -> x <> [] -> load_varint x = Err e0 ->
  forall n, exists e, unpack_packed n t (good ++ x) = Err e.
Proof.
  intros Hw Hg Hx Hlv. destruct (varint_tmem _ Hw) as [T4 T8].
  induction Hg as [|v vb rest Rv Hrest IH]; intros n.
  - destruct n as [|n]; [cbn; eauto|]. cbn [app unpack_packed].
    destruct x as [|b x']; [congruence|]. rewrite T4, T8, Hlv. cbn [bind]. eauto.
  - destruct n as [|n]; [cbn; eauto|]. cbn [unpack_packed].
    pose proof (VarintRep_nonempty _ _ Rv) as Hne.
    destruct ((vb ++ rest) ++ x) as [|b s] eqn:Es.
    { destruct vb; [cbn in Hne; lia | discriminate]. }
    rewrite <- Es, <- app_assoc, T4, T8, (load_varint_rep _ _ _ Rv). cbn [bind].
    destruct (IH n) as [e ->]. cbn [bind]. eauto.
Qed.

Lemma load_varint_overlong hi post :
  length hi = 10%nat -> Forall (fun b => 128 <= Z_of_byte b) hi -> load_varint (hi ++ post) = Err ETooLong.
Proof.
  intros Hl Hf. unfold load_varint. apply load_go_toolong.
  - rewrite app_length. lia.
  - rewrite firstn_app, Hl, Nat.sub_diag, firstn_O, app_nil_r, <- Hl, firstn_all. exact Hf.
Qed.

(* ---------- the four rejection theorems, for parse_into on any object ---------- *)
Section Reject.
  Variable sc : schema.
  Variable o : obj.
  Variables (pre tag lb d post : list byte) (nw : Z) (f : fdesc).
  Hypothesis Wp : wrecs pre.
  Hypothesis Rt : VarintRep nw tag.
  Hypothesis Hn : tag_num nw <> 0.
  Hypothesis Hw : tag_wt nw = 2.
  Hypothesis Rl : VarintRep (Zlength d) lb.
  Hypothesis Hk : known_fit sc (ocls o) nw = Some f.

  Theorem packed_ragged_into w :
    tmem (fty f) PACKED_TYPES = true -> fixed_width (fty f) = Some w -> Zlength d mod w <> 0 ->
    exists e, parse_into sc o (pre ++ tag ++ lb ++ d ++ post) = Err e.
  Proof.
    intros Hp Hfw Hm. eapply len_record_rejected; try eassumption.
    intros L _. rewrite decode_len_packed by exact Hp.
    destruct (unpack_packed (S (length d)) (fty f) d) as [l|e] eqn:Eu; cbn [bind]; [|eauto].
    exfalso. apply Hm. apply (unpack_packed_fixed (S (length d)) (fty f) w d Hfw ltac:(lia)). eauto.
  Qed.

  Theorem packed_varint_bad_into good x e0 :
    tmem (fty f) PACKED_TYPES = true -> fixed_width (fty f) = None ->
    d = good ++ x -> varints good -> x <> [] -> load_varint x = Err e0 ->
    exists e, parse_into sc o (pre ++ tag ++ lb ++ d ++ post) = Err e.
  Proof.
    intros Hp Hfw Ed Hg Hx Hlv. eapply len_record_rejected; try eassumption.
    intros L _. rewrite decode_len_packed by exact Hp.
    destruct (unpack_packed_bad_tail (fty f) good x e0 Hfw Hg Hx Hlv (S (length d))) as [e He].
    rewrite <- Ed in He. rewrite He. cbn [bind]. eauto.
  Qed.

  Theorem bad_utf8_into :
    fty f = TString -> utf8_valid d = false ->
    exists e, parse_into sc o (pre ++ tag ++ lb ++ d ++ post) = Err e.
  Proof.
    intros Ht Hu. eapply len_record_rejected; try eassumption.
    intros L _. rewrite decode_len_string by exact Ht. rewrite Hu. eauto.
  Qed.

  Theorem nested_malformed_into c' e' :
    nested_cls f = Some c' -> parse sc c' d = Err e' ->
    exists e, parse_into sc o (pre ++ tag ++ lb ++ d ++ post) = Err e.
  Proof.
    intros Hc He. eapply len_record_rejected; try eassumption.
    intros L HL. rewrite (decode_len_nested sc _ f nw tag lb d c' Hc).
    rewrite parse_eq in He. unfold parse_r in He. fold (pn_of (S (length d)) sc c' d) in He.
    rewrite (pn_of_irrel sc L (S (length d)) c' d) by lia. rewrite He. cbn [bind]. eauto.
  Qed.
End Reject.

Lemma parse_as_into sc c bs : parse sc c bs = parse_into sc (new sc c) bs.
Proof. reflexivity. Qed.

Lemma new_cls' sc c : ocls (new sc c) = c.
Proof. reflexivity. Qed.

(* ---------- any depth ---------- *)
Theorem nests_rejected sc c bs c0 d0 e0 :
  nests sc c bs c0 d0 -> parse sc c0 d0 = Err e0 -> exists e, parse sc c bs = Err e.
Proof.
  intros N. induction N as [c bs|c pre nw tag lb d post f c' c0 d0 Wp Rt Hn Hw Rl Hk Hc N IH]; intros He; [eauto|].
  destruct (IH He) as [e' He']. rewrite parse_as_into.
  eapply (nested_malformed_into sc (new sc c)); try eassumption.
Qed.
