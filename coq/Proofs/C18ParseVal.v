(* C18, Message.parse under pydantic_dataclasses: the value a record denotes (c7_value: packed runs, scalars, strings,
   nested messages, map Entry objects, Timestamp / Duration / wrappers) corresponds in the two variants, given that the
   nested decoders (one level of fuel down) do. *)
From Coq Require Import ZArith List Bool Lia Arith.
From BP Require Import Base.Prelude Model.Types Model.Varint Model.Scalar Model.Float Model.Utf8 Model.Object Model.Eq Model.TimeCore.
From BP Require Import Model.Decode Model.WellFormed Model.C07Step Model.C18Beh Model.C18Parse gen.Tables.
From BP Require Import Proofs.C06EncP Proofs.C07InvP Proofs.C18BehBase Proofs.C18BehPrim Proofs.C18ParseBase Proofs.C18ParseInv.
Import ListNotations.

(* ---- the pydantic class table, as the decoder reads it ---- *)
Lemma pyd_hint_elem f : hint_elem (fhint (pyd_field f)) = hint_elem (fhint f).
Proof. unfold pyd_field. destruct (fgroup f); [cbn [fhint]|reflexivity]. destruct (fhint f); reflexivity. Qed.

Lemma pyd_hint_is_list f :
  match fhint (pyd_field f) with HList _ => true | _ => false end = match fhint f with HList _ => true | _ => false end.
Proof. unfold pyd_field. destruct (fgroup f); [cbn [fhint]|reflexivity]. destruct (fhint f); reflexivity. Qed.

Lemma pyd_fits f wt : wire_type_fits (pyd_field f) wt = wire_type_fits f wt.
Proof. unfold wire_type_fits. rewrite pyd_field_ty, pyd_hint_is_list. reflexivity. Qed.

Lemma pyd_field_by_number sc c num :
  field_by_number (get_class (pyd_schema sc) c) num =
  option_map (fun '(i, f) => (i, pyd_field f)) (field_by_number (get_class sc c) num).
Proof.
  unfold field_by_number. rewrite pyd_cfields.
  change (@None (nat * fdesc)) with (option_map (fun '(i, f) => (i, pyd_field f)) (@None (nat * fdesc))) at 1.
  generalize (@None (nat * fdesc)) as acc. generalize 0%nat as j.
  induction (cfields (get_class sc c)) as [|f fs IH]; intros j acc; [reflexivity|].
  cbn [map]. rewrite pyd_field_num. rewrite <- IH. destruct (fnum f =? num); reflexivity.
Qed.

(* ---- values that correspond to themselves ---- *)
Lemma unpack_packed_scalar : forall n t buf l, unpack_packed n t buf = Ok l -> forallb scalar_pv l = true.
Proof.
  induction n as [|n IH]; intros t buf l H; [discriminate|]. cbn [unpack_packed] in H.
  destruct buf as [|b buf]; [injection H as <-; reflexivity|].
  destruct (tmem t [TFloat; TFixed32; TSFixed32]).
  { destruct (unpack_value t _) as [x|] eqn:Ex; cbn [bind] in H; [|discriminate].
    destruct (unpack_packed n t _) as [r|] eqn:Er; cbn [bind] in H; [|discriminate]. injection H as <-.
    cbn [forallb]. rewrite (unpack_value_scalar _ _ _ Ex), (IH _ _ _ Er). reflexivity. }
  destruct (tmem t [TDouble; TFixed64; TSFixed64]).
  { destruct (unpack_value t _) as [x|] eqn:Ex; cbn [bind] in H; [|discriminate].
    destruct (unpack_packed n t _) as [r|] eqn:Er; cbn [bind] in H; [|discriminate]. injection H as <-.
    cbn [forallb]. rewrite (unpack_value_scalar _ _ _ Ex), (IH _ _ _ Er). reflexivity. }
  destruct (load_varint (b :: buf)) as [[[v r0] rest]|]; cbn [bind] in H; [|discriminate].
  destruct (unpack_packed n t rest) as [r|] eqn:Er; cbn [bind] in H; [|discriminate]. injection H as <-.
  cbn [forallb]. rewrite postprocess_varint_scalar, (IH _ _ _ Er). reflexivity.
Qed.

Lemma res_rel_refl_scalar sc r : (forall v, r = Ok v -> scalar_pv v = true) -> res_rel sc r r.
Proof. destruct r as [v|e]; cbn [res_rel]; [|reflexivity]. intros H. apply vrel_refl_scalar, H. reflexivity. Qed.

Lemma default_not_ph sc f : default_of sc f <> PPlaceholder.
Proof. unfold default_of. destruct (fhint f) as [[]| | |]; discriminate. Qed.

(* reading an attribute of an object that corresponds to something never yields PLACEHOLDER *)
Lemma getattr_not_ph sc o o' i v :
  pshape sc o = true -> orel sc o o' -> snd (getattr sc o i) = Ok v -> v <> PPlaceholder.
Proof.
  intros S R H. destruct o as [c ra s u g]. apply pshape_iff in S. cbn [oraw ocls] in S. destruct S as [L _].
  unfold orel in R. apply vrel_msg in R as (rb & _ & R). unfold getattr in H.
  destruct (nth_error (cfields (get_class sc c)) i) as [f|] eqn:Hf; [|discriminate].
  assert (Hi : (i < length ra)%nat) by (rewrite L; apply nth_error_Some; congruence).
  pose proof (raw_rel_nth _ _ _ _ _ _ _ _ R Hf Hi) as Rs. cbn [Nat.add] in Rs.
  destruct (group_selects g f i) as [[|]|]; cbn [slot_rel] in Rs; [| discriminate |].
  - destruct Rs as [Np _]. destruct (nth i ra PPlaceholder) eqn:Ex; cbn [snd] in H; injection H as <-; congruence.
  - destruct (nth i ra PPlaceholder) eqn:Ex; cbn [snd] in H; injection H as <-; try discriminate. apply default_not_ph.
Qed.

(* ---- Timestamp / Duration: the two integer attributes ---- *)
Definition as_int (r : result pv) : option Z := match r with Ok (PInt z) => Some z | _ => None end.

Lemma two_ints {A} (r0 r1 : result pv) (k : Z -> Z -> result A) :
  match r0, r1 with Ok (PInt sec), Ok (PInt nan) => k sec nan | _, _ => Err EType end =
  match as_int r0, as_int r1 with Some sec, Some nan => k sec nan | _, _ => Err EType end.
Proof. destruct r0 as [[]|]; destruct r1 as [[]|]; reflexivity. Qed.

Lemma res_rel_as_int sc r r' : res_rel sc r r' -> as_int r' = as_int r.
Proof.
  destruct r as [v|e], r' as [v'|e']; cbn [res_rel]; try contradiction; [|reflexivity].
  destruct v; cbn [vrel]; intros R; try (subst v'; reflexivity).
  - destruct R as (? & -> & _). reflexivity.
  - destruct R as (? & -> & _). reflexivity.
  - destruct o. destruct R as (? & -> & _). reflexivity.
Qed.

Section Val.
  Variable sc : schema.
  Hypothesis W : wf_schema sc = true.
  Let sc' := pyd_schema sc.
  Let M : forall c, Forall mem_ok (cfields (get_class sc c)) := fun c => wf_class_mem_ok sc c W.
  Variable fuel' : nat.
  Hypothesis N : forall c bs, ores_rel sc (c7_parse_new fuel' sc c bs) (c7_parse_new fuel' sc' c bs).

  (* a nested decoder: same error, or corresponding objects of the right shape *)
  Lemma nested_cases c bs :
    (exists e, c7_parse_new fuel' sc c bs = Err e /\ c7_parse_new fuel' sc' c bs = Err e) \/
    (exists m m', c7_parse_new fuel' sc c bs = Ok m /\ c7_parse_new fuel' sc' c bs = Ok m' /\ orel sc m m' /\
                  kgood sc m /\ ocls m = c).
  Proof.
    pose proof (N c bs) as R. destruct (c7_parse_new fuel' sc c bs) as [m|e] eqn:E1;
      destruct (c7_parse_new fuel' sc' c bs) as [m'|e'] eqn:E2; cbn [ores_rel] in R; try contradiction.
    - right. destruct (kgood_parse_new _ _ _ _ _ E1) as [G C]. eauto 8.
    - left. subst e'. eauto.
  Qed.

  Lemma getattr_snd_rel m m' i : kgood sc m -> orel sc m m' ->
    res_rel sc (snd (getattr sc m i)) (snd (getattr sc' m' i)).
  Proof. intros [S _] R. apply pshape_iff in S. apply getattr_rel; [exact M | apply S | exact R]. Qed.

  Lemma two_ints_rel cls bs (k : Z -> Z -> result pv) :
    (forall a b v, k a b = Ok v -> scalar_pv v = true) ->
    res_rel sc
      (do m <- c7_parse_new fuel' sc cls bs;
       match snd (getattr sc m 0), snd (getattr sc m 1) with Ok (PInt sec), Ok (PInt nan) => k sec nan | _, _ => Err EType end)
      (do m <- c7_parse_new fuel' sc' cls bs;
       match snd (getattr sc' m 0), snd (getattr sc' m 1) with Ok (PInt sec), Ok (PInt nan) => k sec nan | _, _ => Err EType end).
  Proof.
    intros Hk. destruct (nested_cases cls bs) as [(e & -> & ->) | (m & m' & -> & -> & R & G & _)]; cbn [bind res_rel]; [reflexivity|].
    rewrite !two_ints.
    rewrite (res_rel_as_int _ _ _ (getattr_snd_rel m m' 0 G R)), (res_rel_as_int _ _ _ (getattr_snd_rel m m' 1 G R)).
    destruct (as_int (snd (getattr sc m 0))) as [a|]; [|reflexivity].
    destruct (as_int (snd (getattr sc m 1))) as [b|]; [|reflexivity].
    apply res_rel_refl_scalar. intros v. apply Hk.
  Qed.

  Lemma post_len_rel f f' t ety w bs :
    res_rel sc (c7_post_len fuel' sc f t ety w bs) (c7_post_len fuel' sc' f' t ety w bs).
  Proof.
    unfold c7_post_len. destruct (ptype_eqb t TString).
    { destruct (utf8_valid bs); reflexivity. }
    destruct (ptype_eqb t TMessage); [|reflexivity].
    assert (Wr : forall w0, res_rel sc
       (match wrapper_cls w0 with None => Err EKey | Some wc => do m <- c7_parse_new fuel' sc wc bs; snd (getattr sc m 0) end)
       (match wrapper_cls w0 with None => Err EKey | Some wc => do m <- c7_parse_new fuel' sc' wc bs; snd (getattr sc' m 0) end)).
    { intros w0. destruct (wrapper_cls w0) as [wc|]; [|reflexivity].
      destruct (nested_cases wc bs) as [(e & -> & ->) | (m & m' & -> & -> & R & G & _)]; cbn [bind]; [reflexivity|].
      apply getattr_snd_rel; assumption. }
    assert (Ts : res_rel sc
       (do m <- c7_parse_new fuel' sc timestamp_cls bs;
        match snd (getattr sc m 0), snd (getattr sc m 1) with
        | Ok (PInt sec), Ok (PInt nan) => do us <- us_of_ts sec nan; Ok (PDatetime us) | _, _ => Err EType end)
       (do m <- c7_parse_new fuel' sc' timestamp_cls bs;
        match snd (getattr sc' m 0), snd (getattr sc' m 1) with
        | Ok (PInt sec), Ok (PInt nan) => do us <- us_of_ts sec nan; Ok (PDatetime us) | _, _ => Err EType end)).
    { apply (two_ints_rel timestamp_cls bs (fun sec nan => do us <- us_of_ts sec nan; Ok (PDatetime us))).
      intros a b v H. destruct (us_of_ts a b); cbn [bind] in H; [|discriminate]. injection H as <-. reflexivity. }
    assert (Du : res_rel sc
       (do m <- c7_parse_new fuel' sc duration_cls bs;
        match snd (getattr sc m 0), snd (getattr sc m 1) with
        | Ok (PInt sec), Ok (PInt nan) => do us <- us_of_dur sec nan; Ok (PTimedelta us) | _, _ => Err EType end)
       (do m <- c7_parse_new fuel' sc' duration_cls bs;
        match snd (getattr sc' m 0), snd (getattr sc' m 1) with
        | Ok (PInt sec), Ok (PInt nan) => do us <- us_of_dur sec nan; Ok (PTimedelta us) | _, _ => Err EType end)).
    { apply (two_ints_rel duration_cls bs (fun sec nan => do us <- us_of_dur sec nan; Ok (PTimedelta us))).
      intros a b v H. destruct (us_of_dur a b); cbn [bind] in H; [|discriminate]. injection H as <-. reflexivity. }
    destruct ety as [| | | | | e0 | c0 | |]; destruct w as [w0|]; try exact Ts; try exact Du; try apply Wr; try reflexivity.
    (* a nested message *)
    destruct (nested_cases c0 bs) as [(e & -> & ->) | (m & m' & -> & -> & R & G & _)]; cbn [bind res_rel]; [reflexivity|].
    apply mark_sow_rel. exact R.
  Qed.

  Lemma value_rel f p : res_rel sc (c7_value fuel' sc f p) (c7_value fuel' sc' (pyd_field f) p).
  Proof.
    unfold c7_value. rewrite pyd_field_ty, pyd_field_entry, pyd_hint_elem, pyd_field_wraps.
    destruct ((pwt p =? WIRE_LEN_DELIM) && tmem (fty f) PACKED_TYPES).
    { destruct (unpack_packed _ (fty f) (pbytes p)) as [l|] eqn:E; cbn [bind res_rel]; [|reflexivity].
      cbn [vrel]. exists l. split; [reflexivity|]. apply list_rel_refl_scalar. eapply unpack_packed_scalar; exact E. }
    destruct (pwt p =? WIRE_VARINT).
    { apply res_rel_refl_scalar. intros v E. injection E as <-. apply postprocess_varint_scalar. }
    destruct ((pwt p =? WIRE_FIXED_32) || (pwt p =? WIRE_FIXED_64)).
    { apply res_rel_refl_scalar. intros v E. eapply unpack_value_scalar; exact E. }
    destruct (ptype_eqb (fty f) TMap); [|apply post_len_rel].
    destruct (nested_cases (fentry f) (pbytes p)) as [(e & -> & ->) | (m & m' & -> & -> & R & G & _)]; cbn [bind res_rel]; [reflexivity|].
    exact R.
  Qed.

  Lemma value_not_ph f p v : c7_value fuel' sc f p = Ok v -> v <> PPlaceholder.
  Proof.
    unfold c7_value. intros H.
    destruct ((pwt p =? WIRE_LEN_DELIM) && tmem (fty f) PACKED_TYPES).
    { destruct (unpack_packed _ _ _); cbn [bind] in H; [|discriminate]. injection H as <-. discriminate. }
    destruct (pwt p =? WIRE_VARINT).
    { injection H as <-. unfold postprocess_varint.
      repeat match goal with |- context [if ?c then _ else _] => destruct c end; discriminate. }
    destruct ((pwt p =? WIRE_FIXED_32) || (pwt p =? WIRE_FIXED_64)).
    { unfold unpack_value in H. destruct (pack_fmt (fty f)) as [[| | | | |]|]; try discriminate;
        try (destruct (Nat.eqb (length (pbytes p)) _); try discriminate; injection H as <-; discriminate);
        (destruct (unpack_int _ (pbytes p)); cbn [bind] in H; try discriminate; injection H as <-; discriminate). }
    destruct (ptype_eqb (fty f) TMap).
    { destruct (c7_parse_new _ _ _ _); cbn [bind] in H; [|discriminate]. injection H as <-. discriminate. }
    unfold c7_post_len in H. destruct (ptype_eqb (fty f) TString).
    { destruct (utf8_valid _); [|discriminate]. injection H as <-. discriminate. }
    destruct (ptype_eqb (fty f) TMessage); [|injection H as <-; discriminate].
    assert (Wr : forall w0, match wrapper_cls w0 with None => Err EKey
                            | Some wc => do m <- c7_parse_new fuel' sc wc (pbytes p); snd (getattr sc m 0) end = Ok v ->
                            v <> PPlaceholder).
    { intros w0 Hw. destruct (wrapper_cls w0) as [wc|]; [|discriminate].
      destruct (nested_cases wc (pbytes p)) as [(e & E & _) | (m & m' & E & _ & R & [S _] & _)]; rewrite E in Hw; cbn [bind] in Hw;
        [discriminate|]. eapply getattr_not_ph; eauto. }
    assert (Two : forall cls (k : Z -> Z -> result pv), (forall a b, k a b <> Ok PPlaceholder) ->
        (do m <- c7_parse_new fuel' sc cls (pbytes p);
         match snd (getattr sc m 0), snd (getattr sc m 1) with Ok (PInt sec), Ok (PInt nan) => k sec nan | _, _ => Err EType end) = Ok v ->
        v <> PPlaceholder).
    { intros cls k Hk Ht. destruct (c7_parse_new fuel' sc cls (pbytes p)) as [m|]; cbn [bind] in Ht; [|discriminate].
      rewrite two_ints in Ht. destruct (as_int _) as [a|]; [|discriminate]. destruct (as_int _) as [b|]; [|discriminate].
      intros ->. exact (Hk a b Ht). }
    destruct (hint_elem (fhint f)) as [| | | | | e0 | c0 | |]; destruct (fwraps f) as [w0|]; try discriminate;
      try (exact (Wr _ H));
      try (refine (Two _ _ _ H); intros a b; cbv beta;
           match goal with |- (do us <- ?X; _) <> _ => destruct X; cbn [bind]; discriminate end).
    destruct (c7_parse_new _ _ _ _) as [[]|]; cbn [bind] in H; [|discriminate]. injection H as <-. discriminate.
  Qed.
End Val.
