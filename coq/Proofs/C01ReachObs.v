(* C01 over reachable objects, part 3: the observers bytes() / len() / dump() (History.touch: lazy defaults written
   back) and copy / deepcopy keep [VGood] (the pointwise form of [c01_value_ok]). *)
From Coq Require Import ZArith List Bool Lia Arith.
From BP Require Import Base.Prelude Model.Types Model.Object Model.Eq Model.Encode Model.Decode Model.WellFormed.
From BP Require Import Model.History Model.C07Ops Model.C01Def Model.C01Reach.
From BP Require Import Proofs.C01Unfold Proofs.C01Msg Proofs.C01Main Proofs.C07InvP Proofs.C07ObsP Proofs.C07ValP.
From BP Require Import Proofs.C01ReachBase Proofs.C01ReachNew.
From BP Require Proofs.C14Obs Proofs.C14Sim3.
Import ListNotations.

(* ---------- replacing the raw attributes, slot by slot ---------- *)
Lemma vgood_raw_change sc c raw raw' sow unk cur :
  VGood sc (Obj c raw sow unk cur) ->
  length raw' = length raw ->
  (forall i f x x', nth_error (cfields (get_class sc c)) i = Some f ->
     nth_error raw i = Some x -> nth_error raw' i = Some x' ->
     (group_selects cur f i = Some false -> x = PPlaceholder -> x' = PPlaceholder) /\
     (slot_ok sc f x = true -> slot_ok sc f x' = true)) ->
  VGood sc (Obj c raw' sow unk cur).
Proof.
  unfold VGood, cfs. cbn [oraw ocur ocls ounk].
  intros (Hlen & Hcl & Hu & Hco & Hoc & Hsl) Hl Hpt.
  assert (Hx : forall i x', nth_error raw' i = Some x' -> exists x, nth_error raw i = Some x).
  { intros i x' Hi. destruct (nth_error raw i) as [x|] eqn:E; [eauto|].
    apply nth_error_None in E. apply nth_error_lt in Hi. lia. }
  split; [lia|]. split; [exact Hcl|]. split; [exact Hu|]. split; [exact Hco|]. split.
  - intros i f x' Hf Hx' Hs. destruct (Hx i x' Hx') as (x & Hxi).
    destruct (Hpt i f x x' Hf Hxi Hx') as (H1 & _). apply H1; [exact Hs|]. eapply Hoc; eauto.
  - intros i f x' Hf Hx'. destruct (Hx i x' Hx') as (x & Hxi).
    destruct (Hpt i f x x' Hf Hxi Hx') as (_ & H2). apply H2. eapply Hsl; eauto.
Qed.

(* ---------- the walks of field_in_range, named ---------- *)
Definition all_in (sc : schema) (t : ptype) (p : pyty) : list pv -> bool :=
  fix all (l : list pv) : bool := match l with [] => true | y :: l' => elem_in_range sc t p y && all l' end.

Definition all_kv (sc : schema) (kt vt : ptype) (p : pyty) : list (pv * pv) -> bool :=
  fix all (d : list (pv * pv)) : bool :=
    match d with [] => true | (k, y) :: d' => scalar_in_range kt k && elem_in_range sc vt p y && all d' end.

Lemma field_in_range_list sc f p l : fhint f = HList p -> field_in_range sc f (PList l) = all_in sc (fty f) p l.
Proof. intros H. unfold field_in_range. rewrite H. reflexivity. Qed.

Lemma field_in_range_dict sc f pk p d kt vt :
  fhint f = HDict pk p -> fmap f = Some (kt, vt) -> field_in_range sc f (PDict d) = all_kv sc kt vt p d.
Proof. intros H Hm. unfold field_in_range. rewrite H, Hm. reflexivity. Qed.

(* ---------- a map over the nested messages of a value that keeps classes ---------- *)
Section Gen.
  Variables (sc : schema) (F : pv -> pv) (G : obj -> obj).
  Hypothesis F_msg : forall o, F (PMsg o) = PMsg (G o).
  Hypothesis F_other : forall y, match y with PMsg _ | PList _ | PDict _ => True | _ => F y = y end.
  Hypothesis G_cls : forall o, ocls (G o) = ocls o.

  Definition QG (o : obj) : Prop := VGood sc o -> VGood sc (G o).
  Definition Fd (d : list (pv * pv)) : list (pv * pv) := map (fun kv => (fst kv, F (snd kv))) d.
  Definition Fv (x : pv) : pv :=
    match x with
    | PMsg o => PMsg (G o)
    | PList l => PList (map F l)
    | PDict d => PDict (Fd d)
    | _ => x
    end.

  Lemma Fd_cons k y d : Fd ((k, y) :: d) = (k, F y) :: Fd d.
  Proof. reflexivity. Qed.

  Lemma elem_step t p y :
    elem_in_range sc t p y = true -> deep (clean_ok sc) y = true -> elemP QG y ->
    elem_in_range sc t p (F y) = true /\ deep (clean_ok sc) (F y) = true.
  Proof.
    intros Hr Hd HQ. destruct y as [| |z|b|bits|s|b|us|us|l|d|o].
    1-9: (match goal with |- context [F ?v] => pose proof (F_other v) as E; cbn beta iota in E; rewrite E end;
          split; assumption).
    - rewrite elem_in_range_list in Hr. discriminate Hr.
    - rewrite elem_in_range_dict in Hr. discriminate Hr.
    - rewrite F_msg. cbn [elemP] in HQ.
      assert (Hp : p = PyMsg (ocls o) /\ in_range sc o = true).
      { destruct p; try (destruct t; destruct o; discriminate Hr); try (destruct o; discriminate Hr).
        rewrite elem_in_range_msg in Hr. apply andb_true_iff in Hr as [Hc Hr]. apply Nat.eqb_eq in Hc. subst c.
        split; [reflexivity|exact Hr]. }
      destruct Hp as (-> & Hir).
      assert (Hv : VGood sc o).
      { apply vgood_of_value_ok. unfold c01_value_ok. rewrite Hir. exact Hd. }
      apply HQ in Hv. apply value_ok_of_vgood in Hv. unfold c01_value_ok in Hv. apply andb_true_iff in Hv as [H1 H2].
      split; [rewrite elem_in_range_msg, G_cls, Nat.eqb_refl, H1; reflexivity | exact H2].
  Qed.

  Lemma list_step t p : forall l,
    all_in sc t p l = true -> deep_list (clean_ok sc) l = true -> Forall (elemP QG) l ->
    all_in sc t p (map F l) = true /\ deep_list (clean_ok sc) (map F l) = true.
  Proof.
    induction l as [|y l IH]; intros Hr Hd HQ; [split; reflexivity|].
    cbn [all_in] in Hr. apply andb_true_iff in Hr as [Hr1 Hr2].
    rewrite deep_list_cons in Hd. apply andb_true_iff in Hd as [Hd1 Hd2].
    inversion HQ as [|? ? HQ1 HQ2]; subst.
    destruct (elem_step t p y Hr1 Hd1 HQ1) as (A1 & A2). destruct (IH Hr2 Hd2 HQ2) as (B1 & B2).
    cbn [map all_in]. rewrite deep_list_cons. rewrite A1, A2. cbn [andb]. split; [exact B1|exact B2].
  Qed.

  Lemma dict_step kt vt p : forall d,
    all_kv sc kt vt p d = true -> deep_dict (clean_ok sc) d = true -> Forall (fun kv => elemP QG (snd kv)) d ->
    all_kv sc kt vt p (Fd d) = true /\ deep_dict (clean_ok sc) (Fd d) = true.
  Proof.
    induction d as [|[k y] d IH]; intros Hr Hd HQ; [split; reflexivity|].
    cbn [all_kv] in Hr. apply andb_true_iff in Hr as [Hr1 Hr2]. apply andb_true_iff in Hr1 as [Hk Hr1].
    cbn [deep_dict] in Hd. apply andb_true_iff in Hd as [Hd1 Hd2].
    inversion HQ as [|? ? HQ1 HQ2]; subst. cbn [snd] in HQ1.
    destruct (elem_step vt p y Hr1 Hd1 HQ1) as (A1 & A2). destruct (IH Hr2 Hd2 HQ2) as (B1 & B2).
    rewrite Fd_cons. cbn [all_kv deep_dict]. rewrite Hk, A1, A2. cbn [andb]. split; [exact B1|exact B2].
  Qed.

  Lemma existsb_Fd (P : pv -> bool) d : existsb (fun kv => P (fst kv)) (Fd d) = existsb (fun kv => P (fst kv)) d.
  Proof.
    induction d as [|[k y] d IH]; [reflexivity|]. rewrite Fd_cons. cbn [existsb fst]. rewrite IH. reflexivity.
  Qed.

  Lemma keys_nodup_Fd d : keys_nodup sc (Fd d) = keys_nodup sc d.
  Proof.
    induction d as [|[k y] d IH]; [reflexivity|]. rewrite Fd_cons. cbn [keys_nodup].
    rewrite IH, (existsb_Fd (pv_eq sc k)). reflexivity.
  Qed.

  Lemma slot_step f x : slot_ok sc f x = true -> subP QG x -> slot_ok sc f (Fv x) = true.
  Proof.
    intros H HQ. destruct x as [| |z|b|bits|s|b|us|us|l|d|o]; cbn [Fv]; try exact H.
    - (* list *)
      unfold slot_ok in *. apply andb_true_iff in H as [H _]. apply andb_true_iff in H as [Hr Hd].
      assert (Hh : exists p, fhint f = HList p).
      { unfold field_in_range in Hr. destruct (fhint f) as [p|p|p|pk p] eqn:Hh; eauto;
          rewrite ?elem_in_range_list in Hr; discriminate Hr. }
      destruct Hh as (p & Hh). rewrite (field_in_range_list sc f p _ Hh) in Hr. rewrite (field_in_range_list sc f p _ Hh). rewrite deep_plist in Hd. rewrite deep_plist.
      cbn [subP] in HQ. destruct (list_step _ _ l Hr Hd HQ) as (H1 & H2). rewrite H1, H2. reflexivity.
    - (* dict *)
      unfold slot_ok in *. apply andb_true_iff in H as [H Hk]. apply andb_true_iff in H as [Hr Hd].
      assert (Hh : exists pk p kt vt, fhint f = HDict pk p /\ fmap f = Some (kt, vt)).
      { unfold field_in_range in Hr. destruct (fhint f) as [p|p|p|pk p] eqn:Hh;
          rewrite ?elem_in_range_dict in Hr; try discriminate Hr.
        destruct (fmap f) as [[kt vt]|]; [|discriminate Hr]. exists pk, p, kt, vt. split; reflexivity. }
      destruct Hh as (pk & p & kt & vt & Hh & Hm).
      rewrite (field_in_range_dict sc f pk p _ kt vt Hh Hm) in Hr. rewrite (field_in_range_dict sc f pk p _ kt vt Hh Hm). rewrite deep_pdict in Hd. rewrite deep_pdict.
      cbn [subP] in HQ. destruct (dict_step _ _ _ d Hr Hd HQ) as (H1 & H2). rewrite H1, H2.
      cbn [dict_keys_ok] in *. rewrite keys_nodup_Fd. exact Hk.
    - (* message *)
      cbn [subP] in HQ. apply (slot_ok_msg_swap sc f o (G o) H (G_cls o)). apply HQ. eapply slot_ok_msg. exact H.
  Qed.
End Gen.

(* ---------- bytes() / len() / dump() ---------- *)
Lemma touch_pv_obj sc o : touch_pv sc (PMsg o) = PMsg (touch sc o).
Proof. destruct o as [c raw sow unk cur]. reflexivity. Qed.

Lemma touch_pv_other sc y : match y with PMsg _ | PList _ | PDict _ => True | _ => touch_pv sc y = y end.
Proof. destruct y; try exact I; reflexivity. Qed.

Lemma touch_cls sc o : ocls (touch sc o) = ocls o.
Proof. destruct o as [c raw sow unk cur]. reflexivity. Qed.

Lemma touch_unfold sc c raw sow unk cur :
  touch sc (Obj c raw sow unk cur) = Obj c (C14Obs.touch_go sc cur 0 raw (cfields (get_class sc c))) sow unk cur.
Proof. reflexivity. Qed.

Lemma touch_dict_Fd sc d : C14Obs.touch_dict sc d = Fd (touch_pv sc) d.
Proof.
  induction d as [|[k y] d IH]; [reflexivity|]. rewrite Fd_cons. cbn [C14Obs.touch_dict]. rewrite IH. reflexivity.
Qed.

Lemma touch_val_Fv sc x : C14Sim3.touch_val sc x = Fv (touch_pv sc) (touch sc) x.
Proof.
  destruct x as [| |z|b|bits|s|b|us|us|l|d|o]; try reflexivity.
  - cbn [C14Sim3.touch_val Fv]. rewrite touch_dict_Fd. reflexivity.
  - cbn [C14Sim3.touch_val Fv]. apply touch_pv_obj.
Qed.

Lemma touch_go_length sc cur : forall raw fs i, length (C14Obs.touch_go sc cur i raw fs) = length raw.
Proof.
  induction raw as [|x raw IH]; intros [|f fs] i; try reflexivity.
  rewrite C14Sim3.touch_go_cons. cbn [length]. rewrite IH. reflexivity.
Qed.

Lemma touch_go_nth sc cur : forall raw fs i k x f,
  nth_error raw k = Some x -> nth_error fs k = Some f ->
  nth_error (C14Obs.touch_go sc cur i raw fs) k = Some (C14Sim3.tslot sc f (group_selects cur f (i + k)) x).
Proof.
  induction raw as [|x0 raw IH]; intros [|f0 fs] i [|k] x f Hx Hf; cbn [nth_error] in Hx, Hf; try discriminate.
  - injection Hx as <-. injection Hf as <-. rewrite C14Sim3.touch_go_cons, Nat.add_0_r. reflexivity.
  - rewrite C14Sim3.touch_go_cons. cbn [nth_error]. rewrite (IH fs (S i) k x f Hx Hf).
    replace (S i + k)%nat with (i + S k)%nat by lia. reflexivity.
Qed.

Lemma tslot_ok sc c i f sel x :
  wf_schema sc = true -> nth_error (cfields (get_class sc c)) i = Some f ->
  slot_ok sc f x = true -> subP (QG sc (touch sc)) x ->
  slot_ok sc f (C14Sim3.tslot sc f sel x) = true.
Proof.
  intros Hwf Hf H HQ.
  pose proof (default_slot_ok_at sc c i f Hwf Hf) as Hd.
  assert (Hv : slot_ok sc f (C14Sim3.touch_val sc x) = true).
  { rewrite touch_val_Fv. apply slot_step; [apply touch_pv_obj | apply touch_pv_other | apply touch_cls | exact H | exact HQ]. }
  unfold C14Sim3.tslot. destruct sel as [[|]|]; try exact H.
  all: destruct x; try exact Hd.
  all: match goal with |- context [if ?b then _ else _] => destruct b end; assumption.
Qed.

Lemma vgood_touch sc o : wf_schema sc = true -> VGood sc o -> VGood sc (touch sc o).
Proof.
  intros Hwf. revert o. apply (obj_nested_ind (QG sc (touch sc))).
  intros c raw s u g HP Hv. rewrite touch_unfold.
  eapply vgood_raw_change; [exact Hv | apply touch_go_length |].
  intros i f x x' Hf Hx Hx'. rewrite (touch_go_nth sc g raw _ 0 i x f Hx Hf) in Hx'. injection Hx' as <-.
  cbn [Nat.add]. split.
  - intros Hs ->. rewrite Hs. reflexivity.
  - intros Hok. eapply tslot_ok; [exact Hwf | exact Hf | exact Hok |]. eapply Forall_nth_error; eauto.
Qed.

(* ---------- copy / deepcopy ---------- *)
Lemma ov_go_nth_error : forall raw fresh k x y,
  nth_error raw k = Some x -> nth_error fresh k = Some y ->
  nth_error (ov_go raw fresh) k = Some (match x with PPlaceholder => y | _ => x end).
Proof.
  induction raw as [|x0 raw IH]; intros [|y0 fresh] [|k] x y Hx Hy; cbn [nth_error] in Hx, Hy; try discriminate.
  - injection Hx as <-. injection Hy as <-. reflexivity.
  - cbn [ov_go nth_error]. apply IH; assumption.
Qed.

Lemma vgood_overlay sc c raw raw2 sow unk cur :
  wf_schema sc = true ->
  VGood sc (Obj c raw sow unk cur) ->
  length raw2 = length raw ->
  (forall i f x x2, nth_error (cfields (get_class sc c)) i = Some f ->
     nth_error raw i = Some x -> nth_error raw2 i = Some x2 ->
     (x = PPlaceholder -> x2 = PPlaceholder) /\ (slot_ok sc f x = true -> slot_ok sc f x2 = true)) ->
  VGood sc (Obj c (overlay sc c raw2) sow unk cur).
Proof.
  intros Hwf Hv Hl Hpt.
  assert (Hlen : length raw = length (cfields (get_class sc c))).
  { destruct Hv as (Hlen & _). exact Hlen. }
  eapply vgood_raw_change; [exact Hv| |].
  - rewrite overlay_unfold, ov_go_length. unfold new. cbn [oraw]. rewrite map_length. symmetry. exact Hlen.
  - intros i f x x' Hf Hx Hx'.
    assert (Hx2 : exists x2, nth_error raw2 i = Some x2).
    { destruct (nth_error raw2 i) as [x2|] eqn:E; [eauto|].
      apply nth_error_None in E. apply nth_error_lt in Hx. lia. }
    destruct Hx2 as (x2 & Hx2).
    assert (Hfr : nth_error (oraw (new sc c)) i = Some (fresh_slot f)).
    { unfold new. cbn [oraw]. rewrite nth_error_map, Hf. reflexivity. }
    rewrite overlay_unfold, (ov_go_nth_error _ _ _ _ _ Hx2 Hfr) in Hx'. injection Hx' as <-.
    destruct (Hpt i f x x2 Hf Hx Hx2) as (A & B). split.
    + intros Hs ->. rewrite (A eq_refl).
      unfold group_selects in Hs. destruct (fgroup f) as [g|] eqn:Hg; [|discriminate Hs].
      destruct (wf_member_shape _ _ _ _ (wf_field_of sc c i f Hwf Hf) Hg) as (_ & Ho & _).
      unfold fresh_slot. rewrite Ho. reflexivity.
    + intros Hok. specialize (B Hok). destruct x2; try exact B.
      apply (fresh_slot_ok sc _ f (wf_field_of sc c i f Hwf Hf)).
Qed.

Lemma vgood_copy sc o : wf_schema sc = true -> VGood sc o -> VGood sc (copy sc o).
Proof.
  intros Hwf Hv. destruct o as [c raw sow unk cur]. unfold copy.
  eapply vgood_overlay; [exact Hwf | exact Hv | reflexivity |].
  intros i f x x2 Hf Hx Hx2. rewrite Hx in Hx2. injection Hx2 as <-. split; auto.
Qed.

Lemma deepcopy_pv_obj sc o : deepcopy_pv sc (PMsg o) = PMsg (deepcopy sc o).
Proof. destruct o as [c raw sow unk cur]. reflexivity. Qed.

Lemma deepcopy_pv_other sc y : match y with PMsg _ | PList _ | PDict _ => True | _ => deepcopy_pv sc y = y end.
Proof. destruct y; try exact I; reflexivity. Qed.

Lemma deepcopy_cls sc o : ocls (deepcopy sc o) = ocls o.
Proof. destruct o as [c raw sow unk cur]. reflexivity. Qed.

Lemma deepcopy_dict_Fd sc d :
  (fix gd (d : list (pv * pv)) : list (pv * pv) :=
     match d with
     | [] => []
     | (k, y) :: d' => (k, deepcopy_pv sc y) :: gd d'
     end) d = Fd (deepcopy_pv sc) d.
Proof.
  induction d as [|[k y] d IH]; [reflexivity|]. rewrite Fd_cons. rewrite <- IH. reflexivity.
Qed.

Lemma deepcopy_Fv sc x : deepcopy_pv sc x = Fv (deepcopy_pv sc) (deepcopy sc) x.
Proof.
  destruct x as [| |z|b|bits|s|b|us|us|l|d|o]; try reflexivity.
  - cbn [Fv]. rewrite <- deepcopy_dict_Fd. reflexivity.
  - cbn [Fv]. apply deepcopy_pv_obj.
Qed.

Lemma vgood_deepcopy sc o : wf_schema sc = true -> VGood sc o -> VGood sc (deepcopy sc o).
Proof.
  intros Hwf. revert o. apply (obj_nested_ind (QG sc (deepcopy sc))).
  intros c raw s u g HP Hv. rewrite deepcopy_unfold.
  eapply vgood_overlay; [exact Hwf | exact Hv | apply map_length |].
  intros i f x x2 Hf Hx Hx2. rewrite nth_error_map, Hx in Hx2. cbn [option_map] in Hx2. injection Hx2 as <-. split.
  - intros ->. reflexivity.
  - intros Hok. rewrite deepcopy_Fv.
    apply slot_step; [apply deepcopy_pv_obj | apply deepcopy_pv_other | apply deepcopy_cls | exact Hok |]. eapply Forall_nth_error; eauto.
Qed.
