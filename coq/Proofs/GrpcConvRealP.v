(* Proofs/GrpcConvRealP.v — the REAL _stream_stream (grpclib's client refuses to finish a call whose outgoing
   stream was not ended) against the idealised one (no such check, a Kahn network: Proofs/GrpcConvP.v).
   The two systems differ in ONE step: the caller leaving `async with` while stream.end() has not been called.
   If the handler was told that the request stream had ended before it finished (one of its reads returned
   None), that step never happens under any schedule, the two systems have the same schedules from the initial
   state, and everything proved for the Kahn network holds for the real helper.  If the handler finishes without
   having been told, the canonical schedule of the real helper ends with ProtocolError (Proofs/GrpcConvP.dlg_run). *)
From Coq Require Import List Bool Lia Arith.
From BP Require Import Base.Prelude Model.Grpc Model.GrpcConv Proofs.GrpcConvP.
Import ListNotations.

Section Real.
  Variables SS HS : Type.
  Variable src_step : SS -> src_act SS.
  Variable hdl_step : HS -> hdl_act HS.

  Notation state := (state SS HS).
  Notation step_c chk := (step SS HS src_step hdl_step (CMode false true chk) false).
  Notation run_c chk := (run SS HS src_step hdl_step (CMode false true chk) false).
  Notation stuckb_c chk := (stuckb SS HS src_step hdl_step (CMode false true chk) false).
  Notation step_r := (step SS HS src_step hdl_step ss_mode false).
  Notation step_i := (step SS HS src_step hdl_step ss_ideal false).
  Notation run_r := (run SS HS src_step hdl_step ss_mode false).
  Notation run_i := (run SS HS src_step hdl_step ss_ideal false).
  Notation stuckb_r := (stuckb SS HS src_step hdl_step ss_mode false).
  Notation stuckb_i := (stuckb SS HS src_step hdl_step ss_ideal false).
  Notation Dlg := (Dlg SS HS src_step hdl_step).

  Ltac unf := unfold GrpcConv.step, GrpcConv.step_sender, GrpcConv.step_caller, GrpcConv.step_handler, GrpcConv.chk_fail in *.

  Ltac brk :=
    repeat match goal with
           | H : context [match ?x with _ => _ end] |- _ => destruct x eqn:?; try discriminate
           | |- context [match ?x with _ => _ end] => destruct x eqn:?; try discriminate
           end.

  (* the two systems take the same step unless the caller leaves while the handler is done and the stream not ended *)
  Lemma step_agree t s : (s_hdone s = None \/ s_sfin s = true) -> step_r t s = step_i t s.
  Proof.
    intros H. destruct t; [reflexivity | | reflexivity].
    unf. destruct s as [ss sf rq ib hs rd b e hd q rcv cw ce]. cbn in *.
    destruct H as [-> | ->]; cbn; brk; reflexivity.
  Qed.

  (* ... and in every state the same tasks are enabled *)
  Lemma enabled_same t s : step_r t s = None <-> step_i t s = None.
  Proof.
    destruct t; [tauto | | tauto].
    unf. destruct s as [ss sf rq ib hs rd b e hd q rcv cw ce]. cbn.
    destruct ce; [tauto|]. destruct cw; destruct hd as [[x|]|]; destruct q; destruct sf; cbn; split; intros H; try discriminate; reflexivity.
  Qed.

  Lemma stuckb_same s : stuckb_r s = stuckb_i s.
  Proof.
    unfold GrpcConv.stuckb.
    destruct (step_r TCaller s) eqn:Er; destruct (step_i TCaller s) eqn:Ei.
    - reflexivity.
    - apply enabled_same in Ei. congruence.
    - apply enabled_same in Er. congruence.
    - reflexivity.
  Qed.

  (* "told about the end" implies "ended" *)
  Definition told_ok (s : state) : Prop := s_hend s = true -> s_sfin s = true.

  Lemma told_ok_step chk t s s' : told_ok s -> step_c chk t s = Some s' -> told_ok s'.
  Proof.
    unfold told_ok. intros I Hs. destruct s as [ss sf rq ib hs rd b e hd q rcv cw ce]. cbn in *.
    destruct t; unf; cbn in Hs; brk; inversion Hs; subst; cbn; intros; auto; try discriminate.
  Qed.

  Lemma told_ok_run chk sch : forall s s', told_ok s -> run_c chk sch s = Some s' -> told_ok s'.
  Proof.
    induction sch as [|t r IH]; intros s s' I Hr; cbn [GrpcConv.run] in Hr.
    - inversion Hr; subst. exact I.
    - destruct (step_c chk t s) as [s1|] eqn:E; [|discriminate].
      exact (IH s1 s' (told_ok_step chk t s s1 I E) Hr).
  Qed.

  (* once the handler has finished, what it was told does not change any more *)
  Lemma frozen_step chk t s s' st : s_hdone s = Some st -> step_c chk t s = Some s' ->
    s_hdone s' = Some st /\ s_hend s' = s_hend s.
  Proof.
    intros Hd Hs. destruct s as [ss sf rq ib hs rd b e hd q rcv cw ce]. cbn in *. subst hd.
    destruct t; unf; cbn in Hs; brk; inversion Hs; subst; cbn; split; reflexivity.
  Qed.

  Lemma frozen_run chk sch : forall s s' st, s_hdone s = Some st -> run_c chk sch s = Some s' ->
    s_hdone s' = Some st /\ s_hend s' = s_hend s.
  Proof.
    induction sch as [|t r IH]; intros s s' st Hd Hr; cbn [GrpcConv.run] in Hr.
    - inversion Hr; subst. split; [exact Hd | reflexivity].
    - destruct (step_c chk t s) as [s1|] eqn:E; [|discriminate].
      destruct (frozen_step chk t s s1 st Hd E) as [A B].
      destruct (IH s1 s' st A Hr) as [C D]. split; [exact C | rewrite D; exact B].
  Qed.

  (* a state from which SOME schedule (of either system) leads to a state in which the handler has been told
     about the end: the bad step is not enabled there *)
  Lemma safe_state chk s rest fin :
    told_ok s -> run_c chk rest s = Some fin -> s_hend fin = true ->
    s_hdone s = None \/ s_sfin s = true.
  Proof.
    intros I Hr He. destruct (s_hdone s) as [st|] eqn:Hd; [|left; reflexivity]. right.
    destruct (frozen_run chk rest s fin st Hd Hr) as [_ E]. apply I. rewrite <- E. exact He.
  Qed.

  (* ---- transfer: with an ideal maximal schedule that ends with the handler told, the real system has exactly the
     ideal system's schedules from the initial state ---- *)
  Section Transfer.
    Variables (s0 fin : state) (sch0 : list task).
    Hypothesis s0_ok : told_ok s0.
    Hypothesis ideal_max : run_i sch0 s0 = Some fin.
    Hypothesis ideal_stuck : stuckb_i fin = true.
    Hypothesis fin_told : s_hend fin = true.

    Lemma real_is_ideal sch : forall s pre, run_i pre s0 = Some s ->
      forall s', run_r sch s = Some s' -> run_i sch s = Some s'.
    Proof.
      induction sch as [|t r IH]; intros s pre Hpre s' Hr; cbn [GrpcConv.run] in *; [exact Hr|].
      destruct (step_r t s) as [s1|] eqn:E; [|discriminate].
      destruct (conv_bounded _ _ _ _ ss_ideal _ sch0 pre s0 fin s eq_refl ideal_max ideal_stuck Hpre) as [_ [rest [Hrest _]]].
      pose proof (told_ok_run false pre s0 s s0_ok Hpre) as Is.
      pose proof (safe_state false s rest fin Is Hrest fin_told) as Hsafe.
      rewrite (step_agree t s Hsafe) in E. rewrite E.
      apply (IH s1 (pre ++ [t])); [|exact Hr].
      rewrite run_app, Hpre. cbn [GrpcConv.run]. rewrite E. reflexivity.
    Qed.

    Lemma ideal_is_real sch : forall s pre, run_i pre s0 = Some s ->
      forall s', run_i sch s = Some s' -> run_r sch s = Some s'.
    Proof.
      induction sch as [|t r IH]; intros s pre Hpre s' Hr; cbn [GrpcConv.run] in *; [exact Hr|].
      destruct (step_i t s) as [s1|] eqn:E; [|discriminate].
      destruct (conv_bounded _ _ _ _ ss_ideal _ sch0 pre s0 fin s eq_refl ideal_max ideal_stuck Hpre) as [_ [rest [Hrest _]]].
      pose proof (told_ok_run false pre s0 s s0_ok Hpre) as Is.
      pose proof (safe_state false s rest fin Is Hrest fin_told) as Hsafe.
      rewrite (step_agree t s Hsafe), E.
      apply (IH s1 (pre ++ [t])); [|exact Hr].
      rewrite run_app, Hpre. cbn [GrpcConv.run]. rewrite E. reflexivity.
    Qed.

    Theorem transfer sch s' :
      run_r sch s0 = Some s' ->
      (length sch <= length sch0)%nat /\
      (exists rest, run_r rest s' = Some fin /\ (length sch + length rest = length sch0)%nat) /\
      (stuckb_r s' = true -> s' = fin).
    Proof.
      intros Hr. pose proof (real_is_ideal sch s0 [] eq_refl s' Hr) as Hi.
      destruct (conv_bounded _ _ _ _ ss_ideal _ sch0 sch s0 fin s' eq_refl ideal_max ideal_stuck Hi) as [Hle [rest [Hrest Hl]]].
      split; [exact Hle|]. split.
      - exists rest. split; [|lia]. exact (ideal_is_real rest s' sch Hi fin Hrest).
      - intros Hsb. rewrite stuckb_same in Hsb.
        destruct (conv_confluent _ _ _ _ ss_ideal _ sch0 sch s0 fin s' eq_refl ideal_max ideal_stuck Hi Hsb) as [E _].
        symmetry. exact E.
    Qed.
  End Transfer.

  Lemma init_told_ok ss hs : told_ok (init ss hs).
  Proof. unfold told_ok, init. cbn. discriminate. Qed.

  (* C11_conversation_complete, for the real helper *)
  Theorem conversation_complete ss hs rd em st :
    Dlg ss false [] hs [] (rd, em, st, true) ->
    exists N fin,
      stuckb_r fin = true /\
      observe fin = Observed rd em (Some (end_of st)) /\
      s_hdone fin = Some st /\ s_hend fin = true /\
      forall sch s', run_r sch (init ss hs) = Some s' ->
        (length sch <= N)%nat /\
        (exists rest, run_r rest s' = Some fin /\ (length sch + length rest = N)%nat) /\
        (stuckb_r s' = true -> s' = fin).
  Proof.
    intros Hd.
    destruct (conversation_complete_ideal _ _ _ _ _ _ _ _ _ _ Hd) as [N [fin [Hfb [Hobs [Hdn [Hend Hall]]]]]].
    destruct (Hall [] (init ss hs) eq_refl) as [_ [[sch0 [Hr0 Hl0]] _]]. cbn [length Nat.add] in Hl0.
    exists N, fin. split; [rewrite stuckb_same; exact Hfb|]. split; [exact Hobs|].
    split; [exact Hdn|]. split; [exact Hend|].
    intros sch s' Hr. rewrite <- Hl0.
    exact (transfer (init ss hs) fin sch0 (init_told_ok ss hs) Hr0 Hfb Hend sch s' Hr).
  Qed.

  (* a real schedule that ends with the handler told about the end is a schedule of the ideal system *)
  Lemma told_run_is_ideal sch : forall s f, told_ok s -> run_r sch s = Some f -> s_hend f = true -> run_i sch s = Some f.
  Proof.
    induction sch as [|t r IH]; intros s f I Hr He; cbn [GrpcConv.run] in *; [exact Hr|].
    destruct (step_r t s) as [s1|] eqn:E; [|discriminate].
    assert (Hfull : run_r (t :: r) s = Some f) by (cbn [GrpcConv.run]; rewrite E; exact Hr).
    pose proof (safe_state true s (t :: r) f I Hfull He) as Hsafe.
    rewrite (step_agree t s Hsafe) in E. rewrite E.
    apply IH; [|exact Hr | exact He].
    rewrite <- (step_agree t s Hsafe) in E. exact (told_ok_step true t s s1 I E).
  Qed.

  (* C11_conversation_confluent for the real helper: if ONE maximal schedule ends with the handler told about the
     end of the request stream, every maximal schedule ends in the same state, and no schedule is longer *)
  Theorem conv_confluent_real ss hs sch1 f1 :
    run_r sch1 (init ss hs) = Some f1 -> stuckb_r f1 = true -> s_hend f1 = true ->
    forall sch2 s2, run_r sch2 (init ss hs) = Some s2 ->
      (length sch2 <= length sch1)%nat /\
      (exists rest, run_r rest s2 = Some f1 /\ (length sch2 + length rest = length sch1)%nat) /\
      (stuckb_r s2 = true -> s2 = f1).
  Proof.
    intros R1 S1 E1 sch2 s2 R2.
    pose proof (told_run_is_ideal sch1 (init ss hs) f1 (init_told_ok ss hs) R1 E1) as I1.
    rewrite stuckb_same in S1.
    exact (transfer (init ss hs) f1 sch1 (init_told_ok ss hs) I1 S1 E1 sch2 s2 R2).
  Qed.

  (* the side condition is exact: a handler that finishes WITHOUT having been told that the request stream has ended
     makes the canonical schedule of the real helper end with ProtocolError although the handler's status is st and
     every response was delivered *)
  Theorem server_ends_first ss hs rd em st :
    Dlg ss false [] hs [] (rd, em, st, false) ->
    exists sch f, run_r sch (init ss hs) = Some f /\ stuckb_r f = true /\
                  observe f = Observed rd em (Some CExc) /\ s_hdone f = Some st.
  Proof.
    intros Hd.
    destruct (dlg_run SS HS src_step hdl_step true ss false [] hs [] _ Hd [] [] false false)
      as [n [f [Hs [Hf [A [B [C [D _]]]]]]]].
    cbn [fst snd app] in *. unfold dlg_end in C. cbn in C.
    destruct (steps_run _ _ _ _ _ _ _ _ _ Hs) as [sch [_ Hr]].
    exists sch, f. split; [exact Hr|]. split; [apply stuckb_stuck; exact Hf|].
    split; [unfold observe; rewrite A, B, C; reflexivity | exact D].
  Qed.
End Real.
