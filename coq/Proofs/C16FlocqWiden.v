(* C16, float clause, part 2: struct.unpack("<f") (Model/Float.v f2d) is the exact widening
   binary32 -> binary64: same real value, same sign (also of zero), finite stays finite; infinities keep
   their sign; NaN goes to NaN (same sign). *)
From Coq Require Import ZArith Reals List Bool Lia ZifyBool.
From Flocq Require Import Core IEEE754.Binary IEEE754.Bits.
From BP Require Import Base.Prelude Model.Float Proofs.C01Float Proofs.C16FlocqBits.
Ltac Zify.zify_post_hook ::= Z.to_euclidean_division_equations.
Open Scope Z_scope.

(* ---- assembling a pattern from its fields with lor / shiftl, as the model does ---- *)
Lemma mk64 sg X y :
  (sg = 0 \/ sg = 1) -> 0 <= X < 2048 -> 0 <= y < 2 ^ 52 ->
  Z.lor (Z.shiftl sg 63) (Z.lor (Z.shiftl X 52) y) = sg * 2 ^ 63 + X * 2 ^ 52 + y.
Proof.
  intros Hs HX Hy. rewrite !shl by lia. rewrite (lor_high_low X 52) by lia.
  rewrite lor_high_low by (pw2; lia). lia.
Qed.

Lemma fields64 sg X y b :
  (sg = 0 \/ sg = 1) -> 0 <= X < 2048 -> 0 <= y < 2 ^ 52 -> b = sg * 2 ^ 63 + X * 2 ^ 52 + y ->
  0 <= b < 2 ^ 64 /\ f64_sign b = sg /\ f64_exp b = X /\ f64_man b = y.
Proof.
  intros Hs HX Hy ->. unfold f64_sign, f64_exp, f64_man. change 2047 with (2 ^ 11 - 1).
  rewrite !land_mask, !shr by lia. pw2. lia.
Qed.

Lemma mk32 sg X y :
  (sg = 0 \/ sg = 1) -> 0 <= X < 256 -> 0 <= y < 2 ^ 23 ->
  Z.lor (Z.shiftl sg 31) (Z.lor (Z.shiftl X 23) y) = sg * 2 ^ 31 + X * 2 ^ 23 + y.
Proof.
  intros Hs HX Hy. rewrite !shl by lia. rewrite (lor_high_low X 23) by lia.
  rewrite lor_high_low by (pw2; lia). lia.
Qed.

Lemma fields32 sg X y w :
  (sg = 0 \/ sg = 1) -> 0 <= X < 256 -> 0 <= y < 2 ^ 23 -> w = sg * 2 ^ 31 + X * 2 ^ 23 + y ->
  0 <= w < 2 ^ 32 /\ f32_sign w = sg /\ f32_exp w = X /\ f32_man w = y.
Proof.
  intros Hs HX Hy ->. unfold f32_sign, f32_exp, f32_man. change 255 with (2 ^ 8 - 1).
  rewrite !land_mask, !shr by lia. pw2. lia.
Qed.

Lemma sgn_mul s a c : sgn s a * c = sgn s (a * c).
Proof. unfold sgn. destruct (s =? 0); lia. Qed.

(* x * 2^(e-e') at exponent e' is x at exponent e *)
Lemma F2R_shift (m e e' : Z) : e' <= e ->
  F2R (Float radix2 m e) = F2R (Float radix2 (m * 2 ^ (e - e')) e').
Proof. intros H. exact (F2R_change_exp radix2 e' m e H). Qed.

(* ---- f2d in terms of fields ---- *)
Section Widen.
  Variable w : Z.
  Hypothesis Hw : 0 <= w < 2 ^ 32.

  Let sg := f32_sign w.
  Let e := f32_exp w.
  Let m := f32_man w.

  Lemma f2d_unfold :
    f2d w =
    let s := Z.shiftl sg 63 in
    if e =? 255 then
      if m =? 0 then Z.lor s f64_pos_inf
      else Z.lor s (Z.lor f64_pos_inf (Z.lor (Z.shiftl 1 51) (Z.shiftl m 29)))
    else if e =? 0 then
      if m =? 0 then s
      else let k := Z.log2 m in
           Z.lor s (Z.lor (Z.shiftl (k - 149 + 1023) 52) (Z.shiftl (m - 2 ^ k) (52 - k)))
    else Z.lor s (Z.lor (Z.shiftl (e - 127 + 1023) 52) (Z.shiftl m 29)).
  Proof. reflexivity. Qed.

  (* the pattern f2d produces, as sign / exponent field / fraction *)
  Definition widen_fields : Z * Z :=
    if e =? 255 then (2047, if m =? 0 then 0 else 2 ^ 51 + (m * 2 ^ 29) mod 2 ^ 51)
    else if e =? 0 then
      if m =? 0 then (0, 0)
      else let k := Z.log2 m in (k + 874, (m - 2 ^ k) * 2 ^ (52 - k))
    else (e + 896, m * 2 ^ 29).

  Lemma log2_facts : m <> 0 -> 0 <= Z.log2 m < 23 /\ 2 ^ Z.log2 m <= m < 2 * 2 ^ Z.log2 m.
  Proof.
    intros Hm0. pose proof (f32_man_range w) as Hm. fold m in Hm.
    assert (Hk : 2 ^ Z.log2 m <= m < 2 ^ Z.succ (Z.log2 m)) by (apply Z.log2_spec; lia).
    rewrite Z.pow_succ_r in Hk by apply Z.log2_nonneg.
    split; [|lia]. split; [apply Z.log2_nonneg|]. apply Z.log2_lt_pow2; lia.
  Qed.

  Lemma widen_fields_range : 0 <= fst widen_fields < 2048 /\ 0 <= snd widen_fields < 2 ^ 52.
  Proof.
    pose proof (f32_man_range w) as Hm. pose proof (f32_exp_range w) as He. fold m in Hm. fold e in He.
    unfold widen_fields.
    destruct (e =? 255) eqn:E1.
    { destruct (m =? 0) eqn:E2; cbn [fst snd]; pw2; lia. }
    destruct (e =? 0) eqn:E0.
    - destruct (m =? 0) eqn:E2; cbn [fst snd]; [pw2; lia|].
      destruct (log2_facts ltac:(lia)) as [Hk Hk2]. set (k := Z.log2 m) in *.
      split; [lia|].
      assert (E52 : 2 ^ 52 = 2 ^ k * 2 ^ (52 - k)) by (rewrite <- Z.pow_add_r by lia; f_equal; lia).
      assert (0 < 2 ^ (52 - k)) by (apply Z.pow_pos_nonneg; lia).
      assert (0 < 2 ^ k) by (apply Z.pow_pos_nonneg; lia). rewrite E52. nia.
    - cbn [fst snd]. pw2. lia.
  Qed.

  Lemma f2d_fields : f2d w = sg * 2 ^ 63 + fst widen_fields * 2 ^ 52 + snd widen_fields.
  Proof.
    pose proof widen_fields_range as [HX Hy].
    pose proof (f32_sign_cases w Hw) as Hs. pose proof (f32_man_range w) as Hm. pose proof (f32_exp_range w) as He.
    fold sg in Hs. fold m in Hm. fold e in He.
    rewrite <- mk64 by assumption.
    rewrite f2d_unfold. cbv zeta. unfold widen_fields in *.
    destruct (e =? 255) eqn:E1.
    { destruct (m =? 0) eqn:E2; cbn [fst snd] in *.
      - unfold f64_pos_inf. rewrite Z.lor_0_r. reflexivity.
      - unfold f64_pos_inf. do 2 f_equal. rewrite !shl by lia. rewrite Z.mul_1_l.
        rewrite (lor_bit 51) by (change (51 + 1) with 52; pw2; lia). reflexivity. }
    destruct (e =? 0) eqn:E0.
    - destruct (m =? 0) eqn:E2; cbn [fst snd] in *.
      + rewrite Z.shiftl_0_l, !Z.lor_0_r. reflexivity.
      + destruct (log2_facts ltac:(lia)) as [Hk Hk2]. set (k := Z.log2 m) in *.
        do 2 f_equal; [f_equal; lia|]. apply shl. lia.
    - cbn [fst snd] in *. do 2 f_equal; [f_equal; lia|]. apply shl. lia.
  Qed.

  Lemma f2d_decoded :
    0 <= f2d w < 2 ^ 64 /\ f64_sign (f2d w) = sg /\
    f64_exp (f2d w) = fst widen_fields /\ f64_man (f2d w) = snd widen_fields.
  Proof.
    pose proof widen_fields_range as [HX Hy].
    apply fields64; try assumption; [apply (f32_sign_cases w Hw) | apply f2d_fields].
  Qed.

  (* (1) finite: same real number, same sign, finite *)
  Lemma f2d_finite_exact :
    e <> 255 ->
    0 <= f2d w < 2 ^ 64 /\ f64_exp (f2d w) <> 2047 /\ f64_sign (f2d w) = f32_sign w /\ f64_R (f2d w) = f32_R w.
  Proof.
    intros Hfin. destruct f2d_decoded as (Hr & Hsg & HE & HM).
    pose proof (f32_man_range w) as Hm. pose proof (f32_exp_range w) as He. fold m in Hm. fold e in He.
    split; [exact Hr|].
    unfold f64_R, f64_sig, f64_ex, f32_R, f32_sig, f32_ex. rewrite HE, HM, Hsg. fold sg e m.
    unfold widen_fields. replace (e =? 255) with false by lia.
    destruct (e =? 0) eqn:E0.
    - destruct (m =? 0) eqn:E2; cbn [fst snd].
      + split; [lia|]. split; [reflexivity|]. cbn [Z.eqb].
        replace m with 0 by lia. unfold sgn. destruct (sg =? 0); cbn [Z.opp]; rewrite !F2R_0; reflexivity.
      + destruct (log2_facts ltac:(lia)) as [Hk Hk2]. set (k := Z.log2 m) in *.
        split; [lia|]. split; [reflexivity|].
        replace (k + 874 =? 0) with false by lia.
        rewrite (F2R_shift (sgn sg m) (-149) (k + 874 - 1075)) by lia. rewrite sgn_mul.
        f_equal. f_equal. f_equal.
        replace (-149 - (k + 874 - 1075)) with (52 - k) by lia.
        assert (E52 : 2 ^ 52 = 2 ^ k * 2 ^ (52 - k)) by (rewrite <- Z.pow_add_r by lia; f_equal; lia).
        rewrite E52. ring.
    - cbn [fst snd]. split; [lia|]. split; [reflexivity|].
      replace (e + 896 =? 0) with false by lia.
      rewrite (F2R_shift (sgn sg (2 ^ 23 + m)) (e - 150) (e + 896 - 1075)) by lia. rewrite sgn_mul.
      f_equal. f_equal. f_equal.
      replace (e - 150 - (e + 896 - 1075)) with 29 by lia. pw2. lia.
  Qed.

  (* infinity: exponent field all ones, fraction 0 *)
  Lemma f2d_inf :
    e = 255 -> m = 0 ->
    f64_exp (f2d w) = 2047 /\ f64_man (f2d w) = 0 /\ f64_sign (f2d w) = f32_sign w.
  Proof.
    intros He0 Hm0. destruct f2d_decoded as (Hr & Hsg & HE & HM).
    rewrite HE, HM, Hsg. unfold widen_fields. rewrite He0, Hm0. rewrite !Z.eqb_refl. cbn [fst snd]. auto.
  Qed.

  (* NaN: exponent field all ones, fraction not 0 *)
  Lemma f2d_nan :
    e = 255 -> m <> 0 ->
    f64_exp (f2d w) = 2047 /\ f64_man (f2d w) = 2 ^ 51 + (m * 2 ^ 29) mod 2 ^ 51 /\ f64_sign (f2d w) = f32_sign w.
  Proof.
    intros He0 Hm0. destruct f2d_decoded as (Hr & Hsg & HE & HM).
    rewrite HE, HM, Hsg. unfold widen_fields. rewrite He0. replace (m =? 0) with false by lia. rewrite Z.eqb_refl. cbn [fst snd]. auto.
  Qed.
End Widen.

(* ---- the same facts about Flocq's decoded floats ---- *)
Lemma b32_inf w : 0 <= w < 2 ^ 32 -> f32_exp w = 255 -> f32_man w = 0 ->
  b32_of_bits w = B754_infinity 24 128 (negb (f32_sign w =? 0)).
Proof.
  intros Hw He Hm. apply B2FF_inj. unfold b32_of_bits, binary_float_of_bits. rewrite B2FF_FF2B.
  rewrite decode_32 by exact Hw. cbv zeta. rewrite He, Hm. reflexivity.
Qed.

Lemma b64_inf b : 0 <= b < 2 ^ 64 -> f64_exp b = 2047 -> f64_man b = 0 ->
  b64_of_bits b = B754_infinity 53 1024 (negb (f64_sign b =? 0)).
Proof.
  intros Hb He Hm. apply B2FF_inj. unfold b64_of_bits, binary_float_of_bits. rewrite B2FF_FF2B.
  rewrite decode_64 by exact Hb. cbv zeta. rewrite He, Hm. reflexivity.
Qed.

Lemma b32_nan w : 0 <= w < 2 ^ 32 -> f32_exp w = 255 -> f32_man w <> 0 ->
  is_nan 24 128 (b32_of_bits w) = true /\ Bsign 24 128 (b32_of_bits w) = negb (f32_sign w =? 0).
Proof.
  intros Hw He Hm. unfold b32_of_bits, binary_float_of_bits. rewrite is_nan_FF2B, Bsign_FF2B.
  rewrite decode_32 by exact Hw. cbv zeta. rewrite He. cbn [Z.eqb].
  pose proof (f32_man_range w). destruct (f32_man w); [lia| |lia]. split; reflexivity.
Qed.

Lemma b64_nan b : 0 <= b < 2 ^ 64 -> f64_exp b = 2047 -> f64_man b <> 0 ->
  is_nan 53 1024 (b64_of_bits b) = true /\ Bsign 53 1024 (b64_of_bits b) = negb (f64_sign b =? 0).
Proof.
  intros Hb He Hm. unfold b64_of_bits, binary_float_of_bits. rewrite is_nan_FF2B, Bsign_FF2B.
  rewrite decode_64 by exact Hb. cbv zeta. rewrite He. cbn [Z.eqb].
  pose proof (man_range b). destruct (f64_man b); [lia| |lia]. split; reflexivity.
Qed.

(* (1) in Flocq's vocabulary *)
Theorem f2d_exact w :
  0 <= w < 2 ^ 32 -> Z.land (Z.shiftr w 23) 255 <> 255 ->
  0 <= f2d w < 2 ^ 64 /\
  B2R 53 1024 (b64_of_bits (f2d w)) = B2R 24 128 (b32_of_bits w) /\
  is_finite 53 1024 (b64_of_bits (f2d w)) = true /\ is_finite 24 128 (b32_of_bits w) = true /\
  Bsign 53 1024 (b64_of_bits (f2d w)) = Bsign 24 128 (b32_of_bits w).
Proof.
  intros Hw Hfin. fold (f32_exp w) in Hfin.
  destruct (f2d_finite_exact w Hw Hfin) as (Hr & HE & HS & HR).
  destruct (b32_finite_all w Hw Hfin) as (A1 & A2 & A3).
  destruct (b64_finite_all (f2d w) Hr HE) as (B1 & B2 & B3).
  rewrite A1, A2, A3, B1, B2, B3, HS, HR. repeat split; try reflexivity; lia.
Qed.

Theorem f2d_infinity w :
  0 <= w < 2 ^ 32 -> Z.land (Z.shiftr w 23) 255 = 255 -> Z.land w (2 ^ 23 - 1) = 0 ->
  exists s, b32_of_bits w = B754_infinity 24 128 s /\ b64_of_bits (f2d w) = B754_infinity 53 1024 s /\
            s = negb (Z.shiftr w 31 =? 0).
Proof.
  intros Hw He Hm. exists (negb (f32_sign w =? 0)).
  destruct (f2d_inf w Hw He Hm) as (HE & HM & HS).
  destruct (f2d_decoded w Hw) as (Hr & _).
  split; [apply b32_inf; assumption|]. split; [|reflexivity].
  rewrite <- HS. apply b64_inf; assumption.
Qed.

Theorem f2d_nan_nan w :
  0 <= w < 2 ^ 32 -> Z.land (Z.shiftr w 23) 255 = 255 -> Z.land w (2 ^ 23 - 1) <> 0 ->
  is_nan 24 128 (b32_of_bits w) = true /\ is_nan 53 1024 (b64_of_bits (f2d w)) = true /\
  Bsign 53 1024 (b64_of_bits (f2d w)) = Bsign 24 128 (b32_of_bits w) /\
  (* quiet bit set, payload kept in the top fraction bits *)
  f64_man (f2d w) = 2 ^ 51 + (Z.land w (2 ^ 23 - 1) * 2 ^ 29) mod 2 ^ 51.
Proof.
  intros Hw He Hm.
  destruct (f2d_nan w Hw He Hm) as (HE & HM & HS).
  destruct (f2d_decoded w Hw) as (Hr & _).
  destruct (b32_nan w Hw He Hm) as (A1 & A2).
  assert (Hm64 : f64_man (f2d w) <> 0).
  { rewrite HM. pose proof (f32_man_range w). pw2. lia. }
  destruct (b64_nan (f2d w) Hr HE Hm64) as (B1 & B2).
  rewrite A1, A2, B1, B2, HS. repeat split. exact HM.
Qed.
