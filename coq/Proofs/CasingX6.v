(* C19, part X6: the scanner of Model/Casing.v computes what re.sub over the live pattern strings means
   (Spec/C19Regex.v): snake_case, pascal_case and camel_case of the model ARE the specification, for every byte string. *)
From BP Require Import Base.Prelude Model.Casing Spec.C19Regex Proofs.BytesP Proofs.CasingP Proofs.CasingP2 Proofs.CasingX1
  Proofs.CasingX4 Proofs.CasingX5.
From BP Require gen.C19Tables.

(* ---------------------------------------------------------------- the scanner, one token at a time *)
Lemma scan_SU_run ups : forall pre u post, forallb is_upper_b ups = true -> nohead is_upper_b post ->
  head_lower post = false ->
  scan (SU pre u) (ups ++ post) = (pre ++ u :: ups ++ tw is_digit_b post) :: scan S0 (dw is_digit_b post).
Proof.
  induction ups as [|c t IH]; intros pre u post Hu Hn HL.
  - cbn [app]. destruct post as [|c p']; [reflexivity|]. cbn [nohead head_lower] in *.
    cbn [scan step tw dw]. unfold is_upper_b, is_lower_b, is_digit_b in *. destruct (classify c) eqn:E; try discriminate.
    + cbn [app]. rewrite <- (tw_dw is_digit_b p') at 1. rewrite scan_SD_word by (apply tw_all || apply dw_nohead).
      rewrite <- !app_assoc. reflexivity.
    + cbn [app scan step]. rewrite E. reflexivity.
  - cbn [forallb] in Hu. apply andb_true_iff in Hu. destruct Hu as [Hc Ht].
    cbn [app scan]. rewrite step_SU_upper by (apply class_upper, Hc). cbn [app].
    rewrite (IH (pre ++ [u]) c post Ht Hn HL), <- !app_assoc. reflexivity.
Qed.

Lemma scan_wtok l : match l with c :: _ => is_sym_b c = false | [] => False end ->
  scan S0 l = fst (wtok l) :: scan S0 (snd (wtok l)) /\ fst (wtok l) <> [].
Proof.
  destruct l as [|u0 t0]; [intros []|]. intros NS. cbn [wtok]. destruct (is_upper_b u0) eqn:U0.
  - pose proof (tw_dw is_upper_b t0) as Et. pose proof (tw_all is_upper_b t0) as Hups.
    pose proof (dw_nohead is_upper_b t0) as Hpost.
    remember (tw is_upper_b t0) as ups eqn:Eups in *. remember (dw is_upper_b t0) as post eqn:Epost in *.
    destruct (head_lower post) eqn:HL.
    + destruct (rev ups) as [|u rups'] eqn:ER.
      * assert (ups = []) as -> by (apply (f_equal (@rev byte)) in ER; rewrite rev_involutive in ER; exact ER).
        cbn [app] in Et. subst t0. apply scan_word_plain. right. right. split; [exact U0|exact HL].
      * assert (ups = rev rups' ++ [u]) as Eu
          by (apply (f_equal (@rev byte)) in ER; rewrite rev_involutive in ER; exact ER).
        cbn [fst snd]. split; [|discriminate].
        destruct post as [|c p']; [discriminate HL|]. cbn [head_lower] in HL.
        rewrite <- Et, Eu. cbn [scan step]. rewrite (class_upper u0 U0). cbn [app].
        rewrite scan_app, run_SU_uppers_snoc by (rewrite <- Eu; exact Hups). cbn [fst snd app scan step].
        rewrite (class_lower c HL). rewrite Eu, forallb_app in Hups. apply andb_true_iff in Hups. destruct Hups as [_ Hu].
        cbn [forallb] in Hu. rewrite andb_true_r in Hu. rewrite (class_upper u Hu). cbn [app scan step].
        rewrite (class_lower c HL). reflexivity.
    + cbn [fst snd]. split; [|discriminate]. rewrite <- Et. cbn [scan step]. rewrite (class_upper u0 U0). cbn [app].
      rewrite (scan_SU_run ups [] u0 post Hups Hpost HL). reflexivity.
  - apply scan_word_plain. unfold is_sym_b, is_upper_b, is_lower_b, is_digit_b in *.
    destruct (classify u0); try discriminate; auto.
Qed.

Definition optword (w : list byte) : list (list byte) := match w with [] => [] | _ => [w] end.

Lemma scan_tok l : scan S0 l = optword (tok_word l) ++ scan S0 (tok_rest l)
  /\ (tok_word l = [] -> tok_rest l = [])
  /\ (l <> [] -> tok_syms l ++ tok_word l <> []).
Proof.
  unfold tok_word, tok_rest, tok_syms. pose proof (tw_dw is_sym_b l) as E. pose proof (dw_nohead is_sym_b l) as N.
  pose proof (tw_all is_sym_b l) as A.
  rewrite <- E at 1. rewrite (scan_S0_syms _ _ A).
  destruct (dw is_sym_b l) as [|c r] eqn:D.
  - cbn [wtok fst snd optword app]. repeat split; auto. intros NE. rewrite app_nil_r in *. rewrite E. exact NE.
  - destruct (scan_wtok (c :: r) N) as [S W]. rewrite S. split; [|split].
    + destruct (fst (wtok (c :: r))); [contradiction W; reflexivity|reflexivity].
    + intros Q. contradiction.
    + intros _ Q. apply app_eq_nil in Q. destruct Q as [_ Q]. contradiction.
Qed.

Lemma tok_rest_shorter l : l <> [] -> (length (tok_rest l) < length l)%nat.
Proof.
  intros NE. destruct (scan_tok l) as (_ & _ & P). specialize (P NE).
  rewrite <- (tok_app l) at 2. rewrite app_assoc, app_length.
  destruct (tok_syms l ++ tok_word l); [contradiction P; reflexivity|]. cbn [length]. lia.
Qed.

(* ---------------------------------------------------------------- the re.sub loop over a pattern whose matches are tokens *)
(* what the callback returns for a word: [piece first w];  first = the match starts at position 0 *)
Definition render (piece : bool -> list byte -> list byte) (pos : nat) (ws : list (list byte)) : list byte :=
  match ws with
  | [] => []
  | w :: r => piece (pos =? 0)%nat w ++ concat (map (piece false) r)
  end.

Lemma search_here r pos rem ma x : match_here byte_code r pos rem ma = Some x -> search byte_code r pos rem ma = Some ([], x).
Proof. intros H. destruct rem; cbn [search]; rewrite H; reflexivity. Qed.

Lemma sub_tokens r repl capsf piece
  (HA : forall pos rem, match_here byte_code r pos rem false =
        Some (mk_mst (pos + length (tok_syms rem) + length (tok_word rem)) (tok_rest rem)
                     (capsf pos (tok_syms rem) (tok_word rem))))
  (HB : forall pos, match_here byte_code r pos [] true = None)
  (HR : forall pos sy w, w <> [] -> repl (capsf pos sy w) = piece (pos =? 0)%nat w)
  (HR0 : forall pos sy, repl (capsf pos sy []) = []) :
  forall n rem pos fuel, (length rem <= n)%nat -> (2 * length rem + 2 <= fuel)%nat ->
  sub_go byte_code r repl fuel pos rem false = render piece pos (scan S0 rem).
Proof.
  induction n as [|n IH]; intros rem pos fuel Ln Lf.
  - destruct rem; [|cbn [length] in Ln; lia]. cbn [length] in Lf.
    destruct fuel as [|[|f]]; try lia. cbn [sub_go search]. rewrite HA. cbn [tok_syms tok_word tok_rest tw dw wtok fst snd length].
    cbn [m_pos m_rem m_caps app length Nat.add Nat.eqb sub_go search]. rewrite HB, HR0. reflexivity.
  - destruct rem as [|c t] eqn:ER; [apply (IH [] pos fuel); [cbn [length]; lia|exact Lf]|]. rewrite <- ER in *.
    assert (rem <> []) as NE by (rewrite ER; discriminate).
    destruct (scan_tok rem) as (Sc & W0 & P). pose proof (tok_rest_shorter rem NE) as Sh.
    destruct fuel as [|f]; [lia|]. cbn [sub_go]. rewrite (search_here _ _ _ _ _ (HA pos rem)).
    cbn [m_pos m_rem m_caps app length Nat.add].
    assert ((length (tok_rest rem) =? length rem)%nat = false) as -> by (apply Nat.eqb_neq; lia).
    rewrite (IH (tok_rest rem)) by lia.
    assert ((pos + length (tok_syms rem) + length (tok_word rem) =? 0)%nat = false) as Z.
    { apply Nat.eqb_neq. specialize (P NE). rewrite <- Nat.add_assoc, <- app_length.
      destruct (tok_syms rem ++ tok_word rem); [contradiction P; reflexivity|]. cbn [length]. lia. }
    rewrite Sc. destruct (tok_word rem) as [|w0 wr] eqn:EW.
    + rewrite HR0, (W0 eq_refl). reflexivity.
    + rewrite HR by discriminate. cbn [optword app render]. f_equal.
      unfold render. destruct (scan S0 (tok_rest rem)) as [|w' r']; [reflexivity|]. rewrite Z. reflexivity.
Qed.

(* ---------------------------------------------------------------- snake_case *)
Definition snake_caps (pos : nat) (sy w : list byte) : list (nat * list byte) :=
  (3%nat, w) :: (2%nat, sy) :: (if (pos =? 0)%nat then [(1%nat, [])] else []).

Lemma match_snake pos rem : match_here byte_code snake_re pos rem false =
  Some (mk_mst (pos + length (tok_syms rem) + length (tok_word rem)) (tok_rest rem)
               (snake_caps pos (tok_syms rem) (tok_word rem))).
Proof.
  unfold match_here, snake_re. cbn [andb]. rewrite m_seq, m_opt, m_group, m_bol. cbn [m_pos m_rem m_caps].
  rewrite Nat.sub_diag. cbn [firstn]. unfold snake_caps. destruct (pos =? 0)%nat.
  - rewrite m_body. reflexivity.
  - rewrite m_body. reflexivity.
Qed.

Lemma match_snake_end pos : match_here byte_code snake_re pos [] true = None.
Proof. destruct pos; reflexivity. Qed.

Definition snake_piece (first : bool) (w : list byte) : list byte := (if first then [] else [us]) ++ lower w.

Lemma join_render ws : join [us] (map lower ws) = render snake_piece 0 ws.
Proof.
  destruct ws as [|w r]; [reflexivity|]. cbn [render Nat.eqb map]. unfold snake_piece at 1. cbn [app].
  revert w. induction r as [|w' r IH]; intros w; [cbn [map concat join]; rewrite app_nil_r; reflexivity|].
  change (join [us] (lower w :: map lower (w' :: r))) with (lower w ++ [us] ++ join [us] (map lower (w' :: r))).
  cbn [map]. rewrite (IH w'). reflexivity.
Qed.

Lemma snake_re_sub s : re_sub byte_code snake_re substitute_snake s = snake_case s.
Proof.
  unfold re_sub, snake_case, words. rewrite join_render.
  apply (sub_tokens snake_re substitute_snake snake_caps snake_piece match_snake match_snake_end) with (n := length s); try lia.
  - intros pos sy w NW. unfold snake_caps, substitute_snake, snake_piece. destruct w as [|c t]; [contradiction NW; reflexivity|].
    destruct (pos =? 0)%nat; reflexivity.
  - intros pos sy. reflexivity.
Qed.

(* ---------------------------------------------------------------- pascal_case *)
Definition pascal_caps (pos : nat) (sy w : list byte) : list (nat * list byte) := [(2%nat, w); (1%nat, sy)].

Lemma match_pascal pos rem : match_here byte_code pascal_re pos rem false =
  Some (mk_mst (pos + length (tok_syms rem) + length (tok_word rem)) (tok_rest rem)
               (pascal_caps pos (tok_syms rem) (tok_word rem))).
Proof. unfold match_here, pascal_re. cbn [andb]. apply m_body. Qed.

Lemma match_pascal_end pos : match_here byte_code pascal_re pos [] true = None.
Proof. reflexivity. Qed.

Lemma concat_render ws : concat (map capitalize ws) = render (fun _ => capitalize) 0 ws.
Proof. destruct ws as [|w r]; reflexivity. Qed.

Lemma pascal_re_sub s : re_sub byte_code pascal_re substitute_pascal s = pascal_case s.
Proof.
  unfold re_sub, pascal_case, words. rewrite concat_render.
  apply (sub_tokens pascal_re substitute_pascal pascal_caps (fun _ => capitalize) match_pascal match_pascal_end)
    with (n := length s); try lia.
  - intros pos sy w NW. reflexivity.
  - intros pos sy. reflexivity.
Qed.

(* ---------------------------------------------------------------- from the live pattern strings *)
Theorem snake_case_meets_spec s : snake_case_spec s = Some (snake_case s).
Proof. unfold snake_case_spec, sub_pattern. rewrite parse_snake, snake_re_sub. reflexivity. Qed.

Theorem pascal_case_meets_spec s : pascal_case_spec s = Some (pascal_case s).
Proof. unfold pascal_case_spec, sub_pattern. rewrite parse_pascal, pascal_re_sub. reflexivity. Qed.

Theorem camel_case_meets_spec s : camel_case_spec s = Some (camel_case s).
Proof. unfold camel_case_spec. rewrite pascal_case_meets_spec. reflexivity. Qed.
