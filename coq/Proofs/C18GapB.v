(* C18 gap closing, second file (table: header of C18GapA.v): option strings, service methods per streaming cardinality,
   the reachable round trip, and the constructor.

   THE CONSTRUCTOR (level_note: "the constructor differs").  Cls(kwargs) = dataclass __init__ + __post_init__
   (Model/Object.v construct / post_init).  __post_init__ derives the selection from the NON-SENTINEL members; the sentinel of
   a member is PLACEHOLDER in the plain class and PLACEHOLDER or None in the pydantic class (optional=True).
     construct_none_refuted   Inner(a=None): the plain class selects a (which_one_of = a, flag up, to_json {"a": null}),
                              the pydantic class does not (no selection, flag down, to_json {}): NOT corresponding.
     construct_two_members_refuted   Inner(a=1, b="z"): no sibling reset in __init__, so the plain object keeps 1 in the
                              unselected member a - outside orel's domain (the objects still encode alike).
     construct_plain_kw (Proofs/C18GapC.v)  keywords that name only fields outside every oneof, with corresponding values:
                              the two constructors give corresponding objects (hence equal JSON, and equal bytes under sow_ok).
   Not proved: the general positive statement for keywords that name at most one member per group with a value other than
   None / PLACEHOLDER (no counterexample found: see the Example below for one instance). *)
From Coq Require Import ZArith List Bool Lia Arith.
From BP Require Import Base.Prelude Model.Types Model.Object Model.Eq Model.Encode Model.Decode Model.Json Model.WellFormed.
From BP Require Import Model.History Model.C07Ops Model.C01Def Model.C01Reach Model.C01Parse.
From BP Require Import Model.C18Beh Model.C18BehEx Model.C18Parse Model.C18GapA.
From BP Require Import Proofs.C18BehBase Proofs.C18BehPrim Proofs.C18GapA.
From BP Require Proofs.C01Reach2B.
From BP Require Model.Typing Proofs.TypingP.
Import ListNotations.

(* ---------------- (5f) reachable round trip ---------------- *)
Theorem roundtrip_pydantic_reachable sc c ops m m' :
  c01_schema_ok sc = true -> hist_ok op_value_ok_p sc (new sc c) ops = true -> run7 sc (new sc c) ops = Ok m ->
  orel sc m m' -> sow_ok_obj m = true ->
  exists bs, enc_obj (pyd_schema sc) m' = Ok bs /\ enc_obj sc m = Ok bs /\
    (Zlength bs < 2 ^ 64 ->
     exists r', parse (pyd_schema sc) (ocls m) bs = Ok r' /\ orel sc (norm_obj sc m) r' /\
                (forall g, which_one_of r' g = which_one_of m g) /\
                enc_obj (pyd_schema sc) r' = Ok bs).
Proof.
  intros Hs Hh Hr R S. apply roundtrip_pydantic; auto.
  exact (C01Reach2B.c01_reachable_value_ok_parse sc c ops m Hs Hh Hr).
Qed.

(* ---------------- the constructor ---------------- *)
Lemma construct_none_refuted :
  exists sc c kw,
    wf_schema sc = true /\
    which_one_of (construct sc c kw) 0 = Some 0%nat /\ which_one_of (construct (pyd_schema sc) c kw) 0 = None /\
    osow (construct sc c kw) = true /\ osow (construct (pyd_schema sc) c kw) = false /\
    to_json CAMEL false sc (construct sc c kw) = Ok (JObj [(JStr [x61], JNull)]) /\
    to_json CAMEL false (pyd_schema sc) (construct (pyd_schema sc) c kw) = Ok (JObj []) /\
    ~ orel sc (construct sc c kw) (construct (pyd_schema sc) c kw).
Proof.
  exists ex18, 12%nat, [(0%nat, PNone)].
  split; [vm_compute; reflexivity|]. split; [vm_compute; reflexivity|]. split; [vm_compute; reflexivity|].
  split; [vm_compute; reflexivity|]. split; [vm_compute; reflexivity|]. split; [vm_compute; reflexivity|].
  split; [vm_compute; reflexivity|].
  intros R. apply orel_observables in R. destruct R as (_ & R & _). vm_compute in R. discriminate R.
Qed.

Lemma construct_two_members_refuted :
  exists sc c kw,
    wf_schema sc = true /\
    construct sc c kw = Obj 12 [PInt 1; PStr [x7a]; PPlaceholder] true [] [Some 1%nat] /\
    construct (pyd_schema sc) c kw = Obj 12 [PInt 1; PStr [x7a]; PNone] true [] [Some 1%nat] /\
    ~ orel sc (construct sc c kw) (construct (pyd_schema sc) c kw) /\
    enc_obj (pyd_schema sc) (construct (pyd_schema sc) c kw) = enc_obj sc (construct sc c kw).
Proof.
  exists ex18, 12%nat, [(0%nat, PInt 1); (1%nat, PStr [x7a])].
  split; [vm_compute; reflexivity|]. split; [vm_compute; reflexivity|]. split; [vm_compute; reflexivity|].
  split; [|vm_compute; reflexivity].
  intros R. unfold orel in R.
  change (construct ex18 12 [(0%nat, PInt 1); (1%nat, PStr [x7a])]) with (Obj 12 [PInt 1; PStr [x7a]; PPlaceholder] true [] [Some 1%nat]) in R.
  apply vrel_msg in R. destruct R as (rb & _ & R).
  change (cfields (get_class ex18 12)) with (cfields ex_Inner) in R. unfold ex_Inner in R. cbn [cfields] in R.
  destruct rb as [|y rb]; cbn [raw_rel] in R; [contradiction|]. destruct R as [R _].
  vm_compute in R. destruct R as [R _]. discriminate R.
Qed.

(* ---------------- (1) option strings ---------------- *)
Module Ty := BP.Model.Typing.
Module TP := BP.Proofs.TypingP.

Theorem options_default_is_direct_plain :
  Ty.parse_options [] = Ok (TP.mk Ty.CDirect false) /\
  (forall first, Ty.parse_options (TP.option_string Ty.CDirect false first) = Ty.parse_options []).
Proof. split; [reflexivity|]. intros first. rewrite TP.options_supported. reflexivity. Qed.

Theorem options_injective c pyd first c' pyd' first' :
  Ty.parse_options (TP.option_string c pyd first) = Ty.parse_options (TP.option_string c' pyd' first') -> c = c' /\ pyd = pyd'.
Proof. rewrite !TP.options_supported. intros H. inversion H. auto. Qed.

(* ---------------- (4) one service method, every streaming cardinality ---------------- *)
Theorem method_signature_same cs ss c c' tin tout :
  TP.name_ok tin -> TP.name_ok tout ->
  Forall (fun s => exists text text',
            Ty.site_text BP.gen.C18Tables.template_sites c s tin tout = Some text /\
            Ty.site_text BP.gen.C18Tables.template_sites c' s tin tout = Some text' /\
            Ty.denote text = Some (Ty.sem (Ty.site_arg s tin tout)) /\ Ty.denote text' = Ty.denote text)
         (method_sites cs ss).
Proof.
  intros Hi Ho. apply Forall_forall. intros s _.
  destruct (TP.sites_sound BP.gen.C18Tables.template_sites (eq_refl true) c s tin tout Hi Ho) as (t & A & B).
  destruct (TP.sites_sound BP.gen.C18Tables.template_sites (eq_refl true) c' s tin tout Hi Ho) as (t' & A' & B').
  exists t, t'. rewrite B, B'. auto.
Qed.

(* the four cardinalities use four different pairs of request / response sites: none is left out *)
Lemma method_sites_cover :
  forall s, In s Ty.all_sites -> s = BP.gen.C18Tables.SMapping \/ exists cs ss, In s (method_sites cs ss).
Proof.
  intros s _. destruct s; try (left; reflexivity); right.
  - exists false, false; cbn; tauto.
  - exists true, false; cbn; tauto.
  - exists false, false; cbn; tauto.
  - exists false, false; cbn; tauto.
  - exists false, false; cbn; tauto.
  - exists false, false; cbn; tauto.
  - exists false, true; cbn; tauto.
  - exists false, false; cbn; tauto.
  - exists true, false; cbn; tauto.
  - exists false, false; cbn; tauto.
  - exists false, true; cbn; tauto.
Qed.
