(* C01 over reachable objects, part 3: the decoded form of the encoding ([norm_obj]) of a good value is good,
   and every singular sub-message it holds has its flag raised ([sow_ok]). *)
From Coq Require Import ZArith List Bool Lia Arith.
From BP Require Import Base.Prelude Model.Types Model.Float Model.Utf8 Model.TimeCore.
From BP Require Import Model.Object Model.Eq Model.Encode Model.Decode Model.WellFormed.
From BP Require Import Model.History Model.C07Ops Model.C01Def Model.C01Reach.
From BP Require Import gen.Tables.
From BP Require Import Proofs.C01Scalar Proofs.C01Unfold Proofs.C01Msg Proofs.C01Main Proofs.C01Obs.
From BP Require Import Proofs.C07InvP Proofs.C07ObsP Proofs.C07ValP Proofs.C01ReachBase Proofs.C01ReachNew.
From BP Require Proofs.C16FlocqWiden.
Import ListNotations.

(* ---------- float32 ---------- *)
Lemma norm_f32_in_range b :
  scalar_in_range TFloat (PFloat b) = true -> scalar_in_range TFloat (PFloat (norm_f32 b)) = true.
Proof.
  intros Hr. destruct (f32_facts b Hr) as (w & Hd & Hw & Hn & Hs & _).
  destruct (C16FlocqWiden.f2d_decoded w Hw) as (Hrange & _).
  rewrite Hn. cbn [scalar_in_range]. apply andb_true_iff. split.
  - unfold int_in. apply andb_true_iff. split; [apply Z.leb_le | apply Z.ltb_lt]; lia.
  - apply orb_true_iff. left. unfold f32_representable. rewrite Hs. apply Z.eqb_refl.
Qed.

Lemma sir_norm_scalar t v : scalar_in_range t v = true -> scalar_in_range t (norm_scalar t v) = true.
Proof.
  intros H. destruct t; try exact H. destruct v; try exact H. cbn [norm_scalar]. apply norm_f32_in_range. exact H.
Qed.

Definition sng (x : pv) : bool :=
  match x with PNone | PPlaceholder | PList _ | PDict _ => false | _ => true end.

Lemma sir_sng t v : scalar_in_range t v = true -> sng v = true.
Proof. destruct t, v; try discriminate; reflexivity. Qed.

Lemma sir_deep P t v : scalar_in_range t v = true -> deep P v = true.
Proof. destruct t, v; try discriminate; reflexivity. Qed.

Lemma deep_norm_scalar P t v : deep P (norm_scalar t v) = deep P v.
Proof. destruct t; try reflexivity. destruct v; reflexivity. Qed.

Lemma sng_norm_scalar t v : sng (norm_scalar t v) = sng v.
Proof. destruct t; try reflexivity. destruct v; reflexivity. Qed.

Lemma eir_norm_scalar sc t p v : elem_in_range sc t p v = true -> elem_in_range sc t p (norm_scalar t v) = true.
Proof.
  intros H. destruct t; try exact H. destruct v; try exact H. cbn [norm_scalar].
  destruct p; try discriminate H; cbn [elem_in_range] in *; apply norm_f32_in_range; exact H.
Qed.

(* ---------- the list walks of field_in_range, named ---------- *)
Definition eir_all (sc : schema) (t : ptype) (p : pyty) : list pv -> bool :=
  fix all (l : list pv) : bool := match l with [] => true | y :: l' => elem_in_range sc t p y && all l' end.

Definition eir_dall (sc : schema) (kt vt : ptype) (pv' : pyty) : list (pv * pv) -> bool :=
  fix all (d : list (pv * pv)) : bool :=
    match d with [] => true | (k, y) :: d' => scalar_in_range kt k && elem_in_range sc vt pv' y && all d' end.

Lemma fir_list sc f l :
  field_in_range sc f (PList l) = match fhint f with HList p => eir_all sc (fty f) p l | _ => false end.
Proof. unfold field_in_range. destruct (fhint f); try reflexivity; apply elem_in_range_list. Qed.

Lemma fir_dict sc f d :
  field_in_range sc f (PDict d) =
  match fhint f with
  | HDict pk pv' => match fmap f with Some (kt, vt) => eir_dall sc kt vt pv' d | None => false end
  | _ => false
  end.
Proof.
  unfold field_in_range. destruct (fhint f); try apply elem_in_range_dict; try reflexivity;
    destruct (fmap f) as [[kt vt]|]; reflexivity.
Qed.

Lemma fir_sng sc f x :
  sng x = true ->
  field_in_range sc f x =
  match fhint f with
  | HPlain p => elem_in_range sc (fty f) p x
  | HOptional p => elem_in_range sc (match fwraps f with Some w => w | None => fty f end) p x
  | _ => false
  end.
Proof. intros H. destruct x; try discriminate H; unfold field_in_range; destruct (fhint f); reflexivity. Qed.

Lemma dko_sng sc x : sng x = true -> dict_keys_ok sc x = true.
Proof. destruct x; try discriminate; reflexivity. Qed.

Lemma existsb_map_fst sc k (g : pv -> pv) d :
  existsb (fun kv : pv * pv => pv_eq sc k (fst kv)) (map (fun kv => (fst kv, g (snd kv))) d) =
  existsb (fun kv : pv * pv => pv_eq sc k (fst kv)) d.
Proof. induction d as [|kv d IH]; [reflexivity|]. cbn [map existsb fst]. rewrite IH. reflexivity. Qed.

Lemma keys_nodup_map sc (g : pv -> pv) d :
  keys_nodup sc (map (fun kv => (fst kv, g (snd kv))) d) = keys_nodup sc d.
Proof.
  induction d as [|[k y] d IH]; [reflexivity|]. cbn [map keys_nodup fst snd].
  rewrite existsb_map_fst, IH. reflexivity.
Qed.

Lemma slot_ok_raise sc f sc0 f0 :
  slot_ok sc f (match default_of sc0 f0 with PMsg o => PMsg (raise_sow o) | d => d end) = slot_ok sc f (default_of sc0 f0).
Proof. destruct (default_of sc0 f0) as [| | | | | | | | | | |[c r s u g]]; reflexivity. Qed.

(* a wrapper field holds a scalar *)
Lemma wrap_eir sc w vt p v :
  wrapper_value_type w = Some vt -> pyty_fits (length (classes sc)) (length (enums sc)) vt p = true ->
  elem_in_range sc w p v = scalar_in_range w v.
Proof.
  intros Hw Hp. destruct w; try discriminate Hw; injection Hw as <-; destruct p; try discriminate Hp; destruct v; reflexivity.
Qed.

Lemma wrapped_in_range sc w vt x :
  wrapper_value_type w = Some vt -> scalar_in_range w x = true -> scalar_in_range w (norm_wrapped sc w x) = true.
Proof.
  intros Hw Hx. unfold norm_wrapped. rewrite Hw.
  assert (E : vt = w) by (destruct w; try discriminate Hw; injection Hw as <-; reflexivity). subst vt.
  destruct (is_default (mkS [] []) (wrapper_field w) x).
  - destruct w; try discriminate Hw; vm_compute; reflexivity.
  - apply sir_norm_scalar. exact Hx.
Qed.

Lemma option_bool_dec (sel : option bool) : sel = Some false \/ sel <> Some false.
Proof. destruct sel as [[|]|]; [right; discriminate | left; reflexivity | right; discriminate]. Qed.

Section Norm.
  Variable sc : schema.
  Hypothesis Hwf : wf_schema sc = true.

  Definition NG (o : obj) : Prop := c01_value_ok sc o = true -> c01_value_ok sc (norm_obj sc o) = true.

  Lemma ocls_norm o : ocls (norm_obj sc o) = ocls o.
  Proof. destruct o; reflexivity. Qed.

  Lemma msg_swap t p a b :
    elem_in_range sc t p (PMsg a) = true -> ocls b = ocls a -> c01_value_ok sc b = true ->
    elem_in_range sc t p (PMsg b) = true /\ deep (clean_ok sc) (PMsg b) = true.
  Proof.
    intros Ha Hc Hb. unfold c01_value_ok in Hb. apply andb_true_iff in Hb as [Hb1 Hb2]. split; [|exact Hb2].
    destruct p; try (destruct t; destruct a; discriminate Ha); try (destruct a; discriminate Ha).
    rewrite elem_in_range_msg in *. apply andb_true_iff in Ha as [Ha _]. rewrite Hc, Ha, Hb1. reflexivity.
  Qed.

  Lemma msg_value_ok t p a :
    elem_in_range sc t p (PMsg a) = true -> deep (clean_ok sc) (PMsg a) = true -> c01_value_ok sc a = true.
  Proof. intros Hr Hd. unfold c01_value_ok. rewrite (elem_in_range_obj sc t p a Hr). exact Hd. Qed.

  Lemma elem_norm_ok t p y :
    elem_in_range sc t p y = true -> deep (clean_ok sc) y = true -> elemP NG y ->
    elem_in_range sc t p (norm_elem (norm_obj sc) t y) = true /\
    deep (clean_ok sc) (norm_elem (norm_obj sc) t y) = true.
  Proof.
    intros Hr Hd HP. destruct y as [| |z|b|bits|s|b|us|us|l|d|o].
    all: try (cbn [norm_elem]; split; [apply eir_norm_scalar; exact Hr | rewrite deep_norm_scalar; exact Hd]).
    cbn [norm_elem elemP] in *.
    apply (msg_swap t p o); [exact Hr | apply ocls_norm | apply HP; eapply msg_value_ok; eauto].
  Qed.

  Lemma map_value_norm_ok t p y :
    elem_in_range sc t p y = true -> deep (clean_ok sc) y = true -> elemP NG y ->
    elem_in_range sc t p (norm_map_value sc (norm_obj sc) t y) = true /\
    deep (clean_ok sc) (norm_map_value sc (norm_obj sc) t y) = true.
  Proof.
    intros Hr Hd HP. destruct y as [| |z|b|bits|s|b|us|us|l|d|o].
    all: try (cbn [norm_map_value]; split; [apply eir_norm_scalar; exact Hr | rewrite deep_norm_scalar; exact Hd]).
    cbn [norm_map_value elemP] in *.
    assert (Hnew : elem_in_range sc t p (PMsg (new sc (ocls o))) = true /\
                   deep (clean_ok sc) (PMsg (new sc (ocls o))) = true).
    { apply (msg_swap t p o); [exact Hr | reflexivity | apply value_ok_new; exact Hwf]. }
    assert (Hrec : elem_in_range sc t p (PMsg (norm_obj sc o)) = true /\
                   deep (clean_ok sc) (PMsg (norm_obj sc o)) = true).
    { apply (msg_swap t p o); [exact Hr | apply ocls_norm | apply HP; eapply msg_value_ok; eauto]. }
    destruct (enc_obj sc o) as [[|b0 bs]|e]; assumption.
  Qed.

  Lemma sng_norm_elem t y : sng y = true -> sng (norm_elem (norm_obj sc) t y) = true.
  Proof.
    intros H. destruct y; try discriminate H; try reflexivity; cbn [norm_elem]; rewrite sng_norm_scalar; reflexivity.
  Qed.

  Lemma list_norm_ok t p l :
    eir_all sc t p l = true -> deep_list (clean_ok sc) l = true -> Forall (elemP NG) l ->
    eir_all sc t p (map (norm_elem (norm_obj sc) t) l) = true /\
    deep_list (clean_ok sc) (map (norm_elem (norm_obj sc) t) l) = true.
  Proof.
    induction l as [|y l IH]; intros Hr Hd HP; [split; reflexivity|].
    cbn [eir_all] in Hr. apply andb_true_iff in Hr as [Hr1 Hr2].
    rewrite deep_list_cons in Hd. apply andb_true_iff in Hd as [Hd1 Hd2].
    inversion HP as [|? ? Py HP']; subst.
    destruct (IH Hr2 Hd2 HP') as [I1 I2]. destruct (elem_norm_ok t p y Hr1 Hd1 Py) as [E1 E2].
    cbn [map eir_all]. rewrite deep_list_cons. rewrite E1, E2, I1, I2. split; reflexivity.
  Qed.

  Lemma dict_norm_ok kt vt p d :
    eir_dall sc kt vt p d = true -> deep_dict (clean_ok sc) d = true -> Forall (fun kv => elemP NG (snd kv)) d ->
    eir_dall sc kt vt p (map (fun kv => (fst kv, norm_map_value sc (norm_obj sc) vt (snd kv))) d) = true /\
    deep_dict (clean_ok sc) (map (fun kv => (fst kv, norm_map_value sc (norm_obj sc) vt (snd kv))) d) = true.
  Proof.
    induction d as [|[k y] d IH]; intros Hr Hd HP; [split; reflexivity|].
    cbn [eir_dall] in Hr. apply andb_true_iff in Hr as [Hr1 Hr2]. apply andb_true_iff in Hr1 as [Hk Hr1].
    cbn [deep_dict] in Hd. apply andb_true_iff in Hd as [Hd1 Hd2].
    inversion HP as [|? ? Py HP']; subst. cbn [snd] in Py.
    destruct (IH Hr2 Hd2 HP') as [I1 I2]. destruct (map_value_norm_ok vt p y Hr1 Hd1 Py) as [E1 E2].
    cbn [map eir_dall deep_dict fst snd]. rewrite Hk, E1, E2, I1, I2. split; reflexivity.
  Qed.

  (* ---------- one slot ---------- *)
  Definition fresh_f (f : fdesc) : pv := if fopt f then PNone else PPlaceholder.

  Definition sing_body (f : fdesc) (forced : bool) (x : pv) : pv :=
    if is_default sc f x && negb forced then fresh_f f
    else match fwraps f with
         | Some w => norm_wrapped sc w x
         | None => norm_elem (norm_obj sc) (fty f) x
         end.

  Lemma subP_sng x : sng x = true -> subP NG x -> elemP NG x.
  Proof. intros H HP. destruct x; try discriminate H; try exact I. exact HP. Qed.

  Lemma sing_ok n f forced x :
    wf_field sc n f = true -> sng x = true -> slot_ok sc f x = true -> subP NG x ->
    slot_ok sc f (sing_body f forced x) = true.
  Proof.
    intros Hf Hs Hx HP. unfold sing_body.
    destruct (is_default sc f x && negb forced); [exact (fresh_slot_ok sc n f Hf)|].
    unfold slot_ok in Hx. apply andb_true_iff in Hx as [Hx _]. apply andb_true_iff in Hx as [Hr Hd].
    rewrite (fir_sng sc f x Hs) in Hr.
    destruct (fwraps f) as [w|] eqn:Hw.
    - destruct (fhint f) as [p|p|p|pk pv'] eqn:Hh; try discriminate Hr.
      + destruct (wf_plain _ _ _ _ Hf Hh) as (_ & E & _). congruence.
      + destruct (wf_optional _ _ _ _ Hf Hh) as (_ & _ & [(w' & vt & E & _ & _ & _ & Hwv & Hfit) | (E & _)]); [|congruence].
        assert (w' = w) by congruence. subst w'.
        rewrite (wrap_eir sc w vt p x Hwv Hfit) in Hr.
        pose proof (wrapped_in_range sc w vt x Hwv Hr) as Hr'.
        unfold slot_ok. rewrite (fir_sng sc f _ (sir_sng _ _ Hr')), Hh, Hw.
        rewrite (wrap_eir sc w vt p _ Hwv Hfit), Hr', (sir_deep _ _ _ Hr'), (dko_sng sc _ (sir_sng _ _ Hr')).
        reflexivity.
    - pose proof (sng_norm_elem (fty f) x Hs) as Hs'.
      unfold slot_ok. rewrite (fir_sng sc f _ Hs'), (dko_sng sc _ Hs'), Hw.
      destruct (fhint f) as [p|p|p|pk pv'] eqn:Hh; try discriminate Hr;
        destruct (elem_norm_ok (fty f) p x Hr Hd (subP_sng x Hs HP)) as [E1 E2]; rewrite E1, E2; reflexivity.
  Qed.

  Lemma norm_slot_sing_eq f sel x :
    sng x = true -> sel <> Some false ->
    norm_slot sc (norm_obj sc) f sel x =
    sing_body f (is_some (fgroup f) || fopt f || (match sel with Some true => true | _ => false end) ||
                 match x with PMsg o => osow o | _ => false end) x.
  Proof.
    intros Hs Hsel. unfold norm_slot, sing_body, fresh_f.
    destruct sel as [[|]|]; [| congruence |]; destruct x; try discriminate Hs; reflexivity.
  Qed.

  Lemma slot_norm_ok n f sel x :
    wf_field sc n f = true -> slot_ok sc f x = true -> subP NG x ->
    slot_ok sc f (norm_slot sc (norm_obj sc) f sel x) = true.
  Proof.
    intros Hf Hx HP. pose proof (fresh_slot_ok sc n f Hf) as Hfresh. unfold fresh_slot in Hfresh.
    destruct (option_bool_dec sel) as [->|Hsel]; [exact Hfresh|].
    destruct (sng x) eqn:Hs.
    { rewrite (norm_slot_sing_eq f sel x Hs Hsel). eapply sing_ok; eauto. }
    assert (Hdef : slot_ok sc f (match default_of sc f with PMsg o => PMsg (raise_sow o) | d => d end) = true).
    { rewrite slot_ok_raise. exact (default_slot_ok sc n f Hwf Hf). }
    destruct x as [| |z|b|bits|s|b|us|us|l|d|o]; try discriminate Hs.
    - (* PLACEHOLDER *)
      destruct sel as [[|]|]; [exact Hdef | congruence | exact Hfresh].
    - (* None *)
      destruct sel as [[|]|]; [exact Hfresh | congruence | exact Hfresh].
    - (* list *)
      assert (Hl : slot_ok sc f (match l with [] => fresh_f f | _ => PList (map (norm_elem (norm_obj sc) (fty f)) l) end) = true).
      { destruct l as [|y l]; [exact Hfresh|].
        unfold slot_ok in Hx. apply andb_true_iff in Hx as [Hx _]. apply andb_true_iff in Hx as [Hr Hd].
        rewrite fir_list in Hr. destruct (fhint f) as [p|p|p|pk pv'] eqn:Hh; try discriminate Hr.
        rewrite deep_plist in Hd. cbn [subP] in HP.
        destruct (list_norm_ok (fty f) p (y :: l) Hr Hd HP) as [E1 E2].
        unfold slot_ok. rewrite fir_list, Hh, deep_plist, E1, E2. reflexivity. }
      destruct sel as [[|]|]; [| congruence |]; destruct l; exact Hl.
    - (* dict *)
      assert (Hl : slot_ok sc f (match d with
                                 | [] => fresh_f f
                                 | _ => match fmap f with
                                        | Some (_, vt) => PDict (map (fun kv => (fst kv, norm_map_value sc (norm_obj sc) vt (snd kv))) d)
                                        | None => PDict d
                                        end
                                 end) = true).
      { destruct d as [|ky d]; [exact Hfresh|].
        unfold slot_ok in Hx. apply andb_true_iff in Hx as [Hx Hk]. apply andb_true_iff in Hx as [Hr Hd].
        rewrite fir_dict in Hr. destruct (fhint f) as [p|p|p|pk pv'] eqn:Hh; try discriminate Hr.
        destruct (fmap f) as [[kt vt]|] eqn:Hm; [|discriminate Hr].
        rewrite deep_pdict in Hd. cbn [subP] in HP.
        destruct (dict_norm_ok kt vt pv' (ky :: d) Hr Hd HP) as [E1 E2].
        unfold slot_ok. rewrite fir_dict, Hh, Hm, deep_pdict, E1, E2. cbn [dict_keys_ok andb].
        rewrite keys_nodup_map. exact Hk. }
      destruct sel as [[|]|]; [| congruence |]; destruct d; exact Hl.
  Qed.

  (* ---------- the whole object ---------- *)
  Lemma norm_slots_nth_error cur : forall raw fs j k y,
    nth_error (norm_slots sc cur j raw fs) k = Some y ->
    exists x f, nth_error raw k = Some x /\ nth_error fs k = Some f /\
                y = norm_slot sc (norm_obj sc) f (group_selects cur f (j + k)) x.
  Proof.
    induction raw as [|x0 raw IH]; intros [|f0 fs] j k y H.
    - cbn [norm_slots] in H. destruct k; discriminate H.
    - cbn [norm_slots] in H. destruct k; discriminate H.
    - cbn [norm_slots] in H. destruct k; discriminate H.
    - rewrite norm_slots_cons in H. destruct k as [|k]; cbn [nth_error] in H.
      + injection H as <-. exists x0, f0. rewrite Nat.add_0_r. repeat split.
      + destruct (IH fs (S j) k y H) as (x & f & Hx & Hf & Ey). exists x, f. cbn [nth_error].
        split; [exact Hx|]. split; [exact Hf|]. rewrite Ey. do 2 f_equal. lia.
  Qed.

  Lemma vgood_norm_step c raw s u g : Forall (subP NG) raw -> NG (Obj c raw s u g).
  Proof.
    intros HP Hv. apply vgood_iff in Hv. apply vgood_iff.
    destruct Hv as (Hlen & Hcl & Hu & Hco & Hoc & Hsl).
    unfold cfs in *. cbn [oraw ocur ocls ounk] in *.
    rewrite norm_obj_unfold. unfold VGood, cfs. cbn [oraw ocur ocls ounk].
    split; [apply norm_slots_length; exact Hlen|]. split; [exact Hcl|]. split; [reflexivity|]. split; [exact Hco|]. split.
    - intros i f y Hf Hy Hs.
      destruct (norm_slots_nth_error g raw _ 0%nat i y Hy) as (x & f' & Hx & Hf' & Ey). cbn [Nat.add] in Ey.
      assert (f' = f) by congruence. subst f'. rewrite Hs in Ey. cbn [norm_slot] in Ey. rewrite Ey.
      unfold group_selects in Hs. destruct (fgroup f) as [g0|] eqn:Hg; [|discriminate Hs].
      destruct (wf_member_shape _ _ _ _ (wf_field_of sc c i f Hwf Hf) Hg) as (_ & Ho & _). rewrite Ho. reflexivity.
    - intros i f y Hf Hy.
      destruct (norm_slots_nth_error g raw _ 0%nat i y Hy) as (x & f' & Hx & Hf' & Ey).
      assert (f' = f) by congruence. subst f'. rewrite Ey.
      apply (slot_norm_ok _ f _ x (wf_field_of sc c i f Hwf Hf) (Hsl i f x Hf Hx)).
      eapply Forall_nth_error; eauto.
  Qed.

  Theorem value_ok_norm_wf o : c01_value_ok sc o = true -> c01_value_ok sc (norm_obj sc o) = true.
  Proof.
    revert o. apply (obj_nested_ind NG). intros c raw s u g HP. apply vgood_norm_step. exact HP.
  Qed.

  (* ---------- flags ---------- *)
  Lemma norm_slot_msg_sow n f sel x o' :
    wf_field sc n f = true -> slot_ok sc f x = true ->
    norm_slot sc (norm_obj sc) f sel x = PMsg o' -> osow o' = true.
  Proof.
    intros Hf Hx H.
    destruct (option_bool_dec sel) as [->|Hsel]. { cbn [norm_slot] in H. destruct (fopt f); discriminate H. }
    destruct (sng x) eqn:Hs.
    { rewrite (norm_slot_sing_eq f sel x Hs Hsel) in H. unfold sing_body, fresh_f in H.
      destruct (is_default sc f x && negb _). { destruct (fopt f); discriminate H. }
      unfold slot_ok in Hx. apply andb_true_iff in Hx as [Hx _]. apply andb_true_iff in Hx as [Hr Hd].
      rewrite (fir_sng sc f x Hs) in Hr.
      destruct (fwraps f) as [w|] eqn:Hw.
      - destruct (fhint f) as [p|p|p|pk pv'] eqn:Hh; try discriminate Hr.
        + destruct (wf_plain _ _ _ _ Hf Hh) as (_ & E & _). congruence.
        + destruct (wf_optional _ _ _ _ Hf Hh) as (_ & _ & [(w' & vt & E & _ & _ & _ & Hwv & Hfit) | (E & _)]); [|congruence].
          assert (w' = w) by congruence. subst w'.
          rewrite (wrap_eir sc w vt p x Hwv Hfit) in Hr.
          pose proof (wrapped_in_range sc w vt x Hwv Hr) as Hr'. rewrite H in Hr'. destruct w; discriminate Hr'.
      - destruct x; try discriminate Hs; cbn [norm_elem] in H; try (destruct (fty f); discriminate H).
        injection H as <-. destruct o; reflexivity. }
    destruct x as [| |z|b|bits|s|b|us|us|l|d|o]; try discriminate Hs.
    - destruct sel as [[|]|]; [| congruence |]; cbn [norm_slot] in H.
      + destruct (default_of sc f) as [| | | | | | | | | | |[c r s u g]]; try discriminate H. injection H as <-. reflexivity.
      + destruct (fopt f); discriminate H.
    - destruct sel as [[|]|]; [| congruence |]; cbn [norm_slot] in H; destruct (fopt f); discriminate H.
    - destruct sel as [[|]|]; [| congruence |]; cbn [norm_slot] in H; destruct l; try discriminate H;
        destruct (fopt f); discriminate H.
    - destruct sel as [[|]|]; [| congruence |]; cbn [norm_slot] in H; destruct d; try (destruct (fopt f); discriminate H);
        destruct (fmap f) as [[kt vt]|]; discriminate H.
  Qed.

  Lemma norm_slot_placeholder n f x c' :
    wf_field sc n f = true -> slot_ok sc f x = true -> fhint f = HPlain (PyMsg c') ->
    norm_slot sc (norm_obj sc) f (Some true) x <> PPlaceholder.
  Proof.
    intros Hf Hx Hh H.
    destruct (wf_plain _ _ _ _ Hf Hh) as (Ho & Hw & _).
    unfold slot_ok in Hx. apply andb_true_iff in Hx as [Hx _]. apply andb_true_iff in Hx as [Hr _].
    destruct (sng x) eqn:Hs.
    { rewrite (norm_slot_sing_eq f (Some true) x Hs) in H by discriminate.
      unfold sing_body in H. rewrite Hw in H. rewrite orb_true_r in H. cbn [orb negb] in H. rewrite andb_false_r in H.
      pose proof (sng_norm_elem (fty f) x Hs) as Hs'. rewrite H in Hs'. discriminate Hs'. }
    destruct x as [| |z|b|bits|s|b|us|us|l|d|o]; try discriminate Hs.
    - cbn [norm_slot] in H. unfold default_of in H. rewrite Hh in H. discriminate H.
    - unfold field_in_range in Hr. rewrite Hh in Hr. discriminate Hr.
    - rewrite fir_list, Hh in Hr. discriminate Hr.
    - rewrite fir_dict, Hh in Hr. discriminate Hr.
  Qed.

  Lemma sow_slot_norm n cur i f x :
    wf_field sc n f = true -> slot_ok sc f x = true ->
    sow_slot sc cur i f (norm_slot sc (norm_obj sc) f (group_selects cur f i) x) = true.
  Proof.
    intros Hf Hx. unfold sow_slot.
    destruct (norm_slot sc (norm_obj sc) f (group_selects cur f i) x) as [| |z|b|bits|s|b|us|us|l|d|o'] eqn:E;
      try reflexivity.
    - destruct (fhint f) as [p|p|p|pk pv'] eqn:Hh; try reflexivity. destruct p; try reflexivity.
      destruct (group_selects cur f i) as [[|]|]; try reflexivity.
      exfalso. eapply norm_slot_placeholder; eauto.
    - rewrite (norm_slot_msg_sow n f _ x o' Hf Hx E). destruct (fhint f); reflexivity.
  Qed.

  Lemma sow_slots_pt cur : forall raw fs j,
    (forall k x f, nth_error raw k = Some x -> nth_error fs k = Some f -> sow_slot sc cur (j + k) f x = true) ->
    sow_slots sc cur j raw fs = true.
  Proof.
    induction raw as [|x raw IH]; intros [|f fs] j H; try reflexivity.
    cbn [sow_slots]. apply andb_true_iff. split.
    - rewrite <- (Nat.add_0_r j). apply (H 0%nat x f eq_refl eq_refl).
    - apply IH. intros k y g Hy Hg. replace (S j + k)%nat with (j + S k)%nat by lia. apply (H (S k) y g Hy Hg).
  Qed.

  Lemma sow_ok_norm_wf o : VGood sc o -> sow_ok sc (norm_obj sc o) = true.
  Proof.
    destruct o as [c raw s u g]. intros (Hlen & Hcl & Hu & Hco & Hoc & Hsl).
    unfold cfs in *. cbn [oraw ocur ocls ounk] in *.
    rewrite norm_obj_unfold, sow_ok_unfold. apply sow_slots_pt. intros k y f Hy Hf. cbn [Nat.add].
    destruct (norm_slots_nth_error g raw _ 0%nat k y Hy) as (x & f' & Hx & Hf' & Ey). cbn [Nat.add] in Ey.
    assert (f' = f) by congruence. subst f'. rewrite Ey.
    apply (sow_slot_norm _ g k f x (wf_field_of sc c k f Hwf Hf) (Hsl k f x Hf Hx)).
  Qed.
End Norm.

(* ---------- the statements ---------- *)
Lemma schema_ok_wf sc : c01_schema_ok sc = true -> wf_schema sc = true.
Proof. unfold c01_schema_ok. intros H. apply andb_true_iff in H as [H _]. apply andb_true_iff in H as [H _]. exact H. Qed.

Lemma value_ok_norm sc o :
  c01_schema_ok sc = true -> c01_value_ok sc o = true -> c01_value_ok sc (norm_obj sc o) = true.
Proof. intros Hs. apply value_ok_norm_wf. apply schema_ok_wf. exact Hs. Qed.

Lemma vgood_norm sc o : c01_schema_ok sc = true -> VGood sc o -> VGood sc (norm_obj sc o).
Proof. intros Hs Hv. apply vgood_iff. apply value_ok_norm; [exact Hs|]. apply vgood_iff. exact Hv. Qed.

Lemma sow_ok_norm sc o : c01_schema_ok sc = true -> VGood sc o -> sow_ok sc (norm_obj sc o) = true.
Proof. intros Hs Hv. apply sow_ok_norm_wf; [apply schema_ok_wf; exact Hs | exact Hv]. Qed.
