(* C08 evolution, unconditional form — definitions shared by Proofs/C08Evo*.v.

   sn : the newer schema, masks : the deleted fields (Model/C08Step.v drop_fields), so := drop_fields masks sn.
     kept mask j / sigma mask j   field j of a class survives / its index in the older class
     cur_old mask cur             _group_current of the older object (indices renumbered, a deleted selection forgotten)
     masks_ok sn masks            decidable side condition: the bundled classes (Timestamp, Duration, wrappers) and the
                                  synthetic map-entry classes lose no field (they are not user-evolvable classes: the decoder
                                  reads their attributes 0 and 1 positionally)
     msgfree v                    no message object occurs in the value v
     req F cd p p' / ceq F cd B B'  two records do the same to every object of the NEWER class / two chunks are sequences of
                                  complete records that are pairwise so: the newer reader cannot tell the chunks apart
     Evo o                        the statement proved for every nested message by induction on the value. *)
From Coq Require Import ZArith List Bool Lia.
From BP Require Import Base.Prelude Model.Types Model.Varint Model.Scalar Model.Float Model.Utf8.
From BP Require Import Model.Object Model.Eq Model.TimeCore Model.Encode Model.Decode Model.WellFormed Model.C01Def.
From BP Require Model.C08Step.
From BP Require Import gen.Tables Proofs.C01Elem.
Import ListNotations.

Definition kept (mask : list bool) (j : nat) : bool := nth j mask true.

Fixpoint sigma (mask : list bool) (j : nat) {struct j} : nat :=
  match j with
  | O => O
  | S j' => match mask with
            | [] => j
            | b :: m' => (if b then 1 else 0) + sigma m' j'
            end
  end.

Definition cur_old (mask : list bool) (cur : list (option nat)) : list (option nat) :=
  map (fun o => match o with
                | Some j => if kept mask j then Some (sigma mask j) else None
                | None => None
                end) cur.

Definition mask_of (masks : list (list bool)) (c : nat) : list bool := nth c masks [].

Definition all_true (m : list bool) : bool := forallb (fun b => b) m.
Definition keeps (masks : list (list bool)) (c : nat) : bool := all_true (mask_of masks c).

Definition masks_ok (sn : schema) (masks : list (list bool)) : bool :=
  forallb (keeps masks) (seq 0 (length builtin_classes)) &&
  forallb (fun cd => forallb (fun f => match fhint f with HDict _ _ => keeps masks (fentry f) | _ => true end) (cfields cd))
          (classes sn).

(* no message object anywhere in the value *)
Definition msgfree (v : pv) : bool :=
  match v with
  | PMsg _ => false
  | PList l => forallb (fun y => match y with PMsg _ => false | _ => true end) l
  | PDict d => forallb (fun kv => match fst kv with PMsg _ => false | _ => true end &&
                                  match snd kv with PMsg _ => false | _ => true end) d
  | _ => true
  end.

Section Evo.
  Variables (sn : schema) (masks : list (list bool)).
  Let so := C08Step.drop_fields masks sn.

  (* the records p and p' do the same to every object of the newer class *)
  Definition req (F : nat) (cd : cdesc) (p p' : parsed) : Prop :=
    forall o, C08Step.step F sn cd o p = C08Step.step F sn cd o p'.

  (* chunks of complete records that the NEWER reader cannot tell apart *)
  Definition ceq (F : nat) (cd : cdesc) (B B' : list byte) : Prop :=
    exists ps ps', C08Step.records B ps /\ C08Step.records B' ps' /\ Forall2 (req F cd) ps ps'.

  Definition Evo (o : obj) : Prop :=
    exists y, enc_obj sn o = Ok y /\
      (small y -> exists mo y',
         (forall fuel, (length y < fuel)%nat -> load fuel so (new so (ocls o)) y None = Ok (mo, [])) /\
         osow mo = true /\ enc_obj so mo = Ok y' /\ length y' = length y /\
         (forall fuel, (length y' < fuel)%nat -> load fuel sn (new sn (ocls o)) y' None = Ok (norm_obj sn o, []))).
End Evo.
