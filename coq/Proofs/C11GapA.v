(* C11 - gap analysis of the property text against Properties/C11.v, and the first group of gap-closing proofs.

   PROPERTY TEXT, clause by clause  ->  theorems that existed  ->  gap  ->  closed by (GapA = this file, GapB = C11GapB.v)

   (1) "For every service definition, a call made through the generated client stub over a grpclib channel to the generated
        server base class invokes exactly the handler for the same RPC, once"
         -> C11_routes / C11_routes_exact / C11_stub_attr_exact (class body lookup, exact in the Python names), C11_payload /
            C11_payload_owner (trace = [(m_py m, hin_of a)]), C11_server_side, C11_mapping_closed.
         gap a (known finding C11-K3): "through the generated client stub" means through an INSTANCE; the model looks the method
            up in the class body only, and ServiceStub.__init__ stores self.channel / timeout / deadline / metadata, which shadow
            generated methods of those names.  -> Model/C11GapDefs.v stub_getattr / call_inst (instance lookup), GapA
            routes_inst, payload_inst, unimplemented_inst (C11_routes / C11_payload / C11_unimplemented with the exact side
            condition shadowedb (m_py m) = false, in a form that mentions it), shadowed_inst_refuted (witness without it: all
            hypotheses of C11_payload hold, the call is a TypeError, the server side alone still serves the route),
            shadowed_always_typeerror (all four names, every service, argument, handler), inst_exact (every RPC is reachable
            through its instance attribute IFF Python names distinct AND none shadowed), call_inst_agrees (off the four names the
            instance call IS Model/Grpc.v's call).
         gap b ("exactly ... once", for ALL behaviours): the trace statement exists only for handler_ok handlers and arg_ok
            arguments.  -> GapA call_at_most_once: for EVERY call that returns (any handler body, any argument, any impl, colliding
            Python names or not) at most one handler body ran, and if one ran it is the one looked up under the Python name that
            was called, with input the adapter's reading of the wire; call_is_some_method: the route / cardinality / reply type
            that reach channel.request are those of ONE RPC of the service with that Python name (never a foreign route).
         gap c (uniqueness of routes): route_inj was a lemma only.  -> GapA route_injective (two RPCs of a service with the same
            route are the same RPC), route_known_iff (the mapping answers a route IFF it is the route of an RPC: converse of
            C11_unknown_route), serve_unknown_iff.
   (2) "with a request (or request stream) equal to what the caller sent"
         -> C11_payload (hin_of a).  gap: arg_ok is a Prop and only sampled; is it needed?  -> GapA arg_okb_iff (decidable form);
            GapB arg_wrong_class_refuted: a unary call with a message of ANOTHER class passes the client codec (request_type is
            type(request)) and the handler receives an object of the declared class decoded from the same bytes - not what the
            caller sent; so arg_ok is needed for "equal".  (Equality of OBJECTS, bytes -> object, is C01's subject: see (9).)
   (3) "and the caller receives the handler's response (or response stream) equal and in order"
         -> C11_payload.  gap: handler_ok sampled; exactness.  -> GapA handler_okb_iff (decidable form); GapB
            payload_iff_handler_ok: under the other hypotheses the caller receives exactly what the handler produced IF AND
            ONLY IF handler_ok (wrong reply class, `return None`, an async generator under a unary reply all lose it).
   (4) "for all four streaming cardinalities" -> C11_cardinality, C11_cardinality_four, payload for every (cs, ss).  No gap.
   (5) "request/response types from other packages or well-known types" -> m_in / m_out are arbitrary class identities; which
        class a reference resolves to is C13's subject.  NOT composed here (no time); see the report.
   (6) "A method not overridden answers UNIMPLEMENTED"
         -> C11_unimplemented (pynames_distinct).  gap: only under pynames_distinct; and "only": an overridden method answers
            UNIMPLEMENTED only if its body raises it.  -> GapA unimplemented_owner (weakest name condition), status_iff.
   (7) "a handler's GRPCError status reaches the caller"
         -> C11_error_status (one direction).  gap: converse.  -> GapA status_iff: the caller's call ends with GRPCError(s) IFF
            the handler raised s, ends normally IFF the handler ended normally, and never with another exception.
   (8) "per-call timeout / deadline / metadata take precedence over the stub-level defaults"
         -> C11_kwargs, C11_kwargs_falsy_is_set, C11_kwargs_passed (+ the source tie of Properties/C11Src.v).  gap: through an instance.
            -> GapA kwargs_passed_inst.  (The model does not let a timeout EXPIRE; that part stays runtime-only.)
   (9) quantifier "for all generated services (1..n methods, every combination of client/server streaming, method names needing
        re-casing ...)": all theorems take any service; the Python names are arbitrary strings (casing = C19).  gap: the
        hypotheses names_distinct / pynames_distinct / owns were Props.  -> GapA names_distinctb_iff, pynames_distinctb_iff,
        ownsb_iff.  "for all request values": values are (class, bytes); GapB payload_objects composes with any
        serialiser / parser pair that round-trips (the statement C01 proves for betterproto: parse (bytes v) = norm v).
   (10) "stream lengths 0..k": every list.  "all combinations of stub-level and call-level ... None or set": C11_kwargs.  No gap.
   (11) the conversational theorems (the C11_conversation family): already exact (C11_conversation_exact, C11_server_ends_first).  No gap
        looked for here. *)
From Coq Require Import ZArith List Bool Lia.
From BP Require Import Base.Prelude Model.Grpc Model.C11GapDefs Proofs.BytesP Proofs.GrpcP.
Import ListNotations.

(* ------------------------------------------------------------------------- boolean forms *)
Lemma str_memb_in x l : str_memb x l = true <-> In x l.
Proof.
  induction l as [|y r IH]; cbn [str_memb In]; [split; [discriminate | tauto]|].
  rewrite orb_true_iff, IH, str_eqb_eq. tauto.
Qed.

Lemma nodupb_iff l : nodupb l = true <-> NoDup l.
Proof.
  induction l as [|x r IH]; cbn [nodupb]; [split; [constructor | reflexivity]|].
  rewrite andb_true_iff, negb_true_iff, IH. split.
  - intros [Hm Hn]. constructor; [|exact Hn]. intros Hin. apply str_memb_in in Hin. congruence.
  - intros H. inversion H as [|? ? Hn Hr]; subst. split; [|exact Hr].
    destruct (str_memb x r) eqn:E; [|reflexivity]. apply str_memb_in in E. contradiction.
Qed.

Lemma names_distinctb_iff svc : names_distinctb svc = true <-> names_distinct svc.
Proof. apply nodupb_iff. Qed.
Lemma pynames_distinctb_iff svc : pynames_distinctb svc = true <-> pynames_distinct svc.
Proof. apply nodupb_iff. Qed.

Lemma bool_eqb_eq a c : Bool.eqb a c = true <-> a = c.
Proof. destruct a, c; cbn; split; congruence. Qed.

Lemma method_eqb_eq a c : method_eqb a c = true <-> a = c.
Proof.
  unfold method_eqb. destruct a as [n p cs ss i o], c as [n' p' cs' ss' i' o']. cbn [m_name m_py m_cs m_ss m_in m_out].
  rewrite !andb_true_iff, !str_eqb_eq, !bool_eqb_eq. split.
  - intros (((((-> & ->) & ->) & ->) & ->) & ->). reflexivity.
  - intros [= -> -> -> -> -> ->]. tauto.
Qed.

Lemma ownsb_list_iff l m :
  ownsb_list l m = true <-> exists l1 l2, l = l1 ++ m :: l2 /\ ~ In (m_py m) (map m_py l2).
Proof.
  induction l as [|x r IH]; cbn [ownsb_list].
  - split; [discriminate|]. intros (l1 & l2 & E & _). destruct l1; discriminate.
  - rewrite orb_true_iff, IH, andb_true_iff, negb_true_iff, method_eqb_eq. split.
    + intros [(l1 & l2 & E & Hn)|[-> Hm]].
      * exists (x :: l1), l2. rewrite E. split; [reflexivity | exact Hn].
      * exists [], r. split; [reflexivity|]. intros Hin. apply str_memb_in in Hin. congruence.
    + intros (l1 & l2 & E & Hn). destruct l1 as [|y l1]; cbn [app] in E; injection E as -> ->.
      * right. split; [reflexivity|]. destruct (str_memb (m_py m) (map m_py l2)) eqn:Em; [|reflexivity].
        apply str_memb_in in Em. contradiction.
      * left. exists l1, l2. split; [reflexivity | exact Hn].
Qed.

Lemma ownsb_iff svc m : ownsb svc m = true <-> owns svc m.
Proof. apply ownsb_list_iff. Qed.

Lemma typedb_iff t ms : typedb t ms = true <-> typed t ms.
Proof.
  unfold typedb, typed. rewrite forallb_forall, Forall_forall.
  split; intros H r Hr; specialize (H r Hr); apply str_eqb_eq; exact H.
Qed.

Lemma arg_okb_iff m a : arg_okb m a = true <-> arg_ok m a.
Proof.
  destruct a as [r|rs]; cbn [arg_okb arg_ok]; rewrite andb_true_iff.
  - rewrite negb_true_iff, str_eqb_eq. tauto.
  - rewrite typedb_iff. tauto.
Qed.

Lemma producedb_eq ss h inp : producedb ss h inp = produced ss h inp.
Proof. reflexivity. Qed.

Lemma handler_okb_iff m h inp : handler_okb m h inp = true <-> handler_ok m h inp.
Proof.
  unfold handler_okb, handler_ok. rewrite andb_true_iff, typedb_iff, producedb_eq, orb_true_iff.
  split; intros [Ht Hk]; (split; [exact Ht|]).
  - intros Hss. destruct Hk as [Hk|Hk]; [congruence|].
    destruct h as [f|f]; [|discriminate]. exists f. split; [reflexivity|].
    intros E. rewrite E in Hk. discriminate.
  - destruct (m_ss m); [left; reflexivity|]. right.
    destruct (Hk eq_refl) as (f & -> & Hn). destruct (f inp); [reflexivity | contradiction | reflexivity].
Qed.

(* ------------------------------------------------------------------------- the instance namespace (C11-K3) *)
Lemma stub_getattr_unshadowed svc py :
  shadowedb py = false -> stub_getattr svc py = option_map AttrMethod (assoc_last (stub_class svc) py).
Proof. intros H. unfold stub_getattr. rewrite H. reflexivity. Qed.

(* off the four names the instance call IS the class-body call of Model/Grpc.v *)
Lemma call_inst_agrees svc im skw py a ckw :
  shadowedb py = false -> call_inst svc im skw py a ckw = option_map CallObs (call svc im skw py a ckw).
Proof.
  intros H. unfold call_inst. rewrite (stub_getattr_unshadowed svc py H).
  destruct (assoc_last (stub_class svc) py) as [d|] eqn:E; cbn [option_map]; [reflexivity|].
  unfold call. rewrite E. reflexivity.
Qed.

(* on the four names it is a TypeError, whatever the service, the argument, the handlers and the keyword arguments *)
Lemma shadowed_always_typeerror svc im skw py a ckw :
  shadowedb py = true -> call_inst svc im skw py a ckw = Some CallTypeError /\ stub_getattr svc py = Some AttrData.
Proof. intros H. unfold call_inst, stub_getattr. rewrite H. split; reflexivity. Qed.

Lemma shadowedb_iff py : shadowedb py = true <-> In py stub_instance_attrs.
Proof.
  unfold shadowedb. rewrite existsb_exists. split.
  - intros (x & Hx & E). apply str_eqb_eq in E. subst. exact Hx.
  - intros H. exists py. split; [exact H | apply str_eqb_refl].
Qed.

(* C11_routes through an instance, with the side condition of C11-K3 *)
Lemma routes_inst svc m :
  names_distinct svc -> pynames_distinct svc -> In m (s_methods svc) -> shadowedb (m_py m) = false ->
  stub_getattr svc (m_py m) = Some (AttrMethod (stub_method svc m)) /\
  dispatch (mapping svc) (sd_route (stub_method svc m)) = Some (handler_entry_of m) /\
  assoc_last (base_adapters svc) (h_rpc (handler_entry_of m)) = Some (m_cs m, m_ss m) /\
  (forall m', In m' (s_methods svc) ->
     dispatch (mapping svc) (route svc m') = Some (handler_entry_of m) -> m' = m).
Proof.
  intros ND NDp Hin Hsh. destruct (routes_agree svc m ND NDp Hin) as (H1 & H2 & H3 & H4).
  split; [|auto]. rewrite (stub_getattr_unshadowed svc _ Hsh), H1. reflexivity.
Qed.

(* C11_payload (weakest name condition) through an instance *)
Lemma payload_inst svc im skw ckw m h a :
  names_distinct svc -> owns svc m -> shadowedb (m_py m) = false ->
  im (m_py m) = Some h -> arg_ok m a -> handler_ok m h (hin_of a) ->
  call_inst svc im skw (m_py m) a ckw =
    Some (CallObs (expected_obs svc m skw ckw a (produced (m_ss m) h (hin_of a)))).
Proof.
  intros ND Hown Hsh Him Harg Hok. rewrite (call_inst_agrees _ _ _ _ _ _ Hsh).
  rewrite (payload_owner svc im skw ckw m h a ND Hown Him Harg Hok). reflexivity.
Qed.

Lemma unimplemented_inst svc im skw ckw m a :
  names_distinct svc -> owns svc m -> shadowedb (m_py m) = false ->
  im (m_py m) = None -> arg_ok m a ->
  call_inst svc im skw (m_py m) a ckw =
    Some (CallObs (expected_obs svc m skw ckw a ([], Some ST_UNIMPLEMENTED))).
Proof.
  intros ND Hown Hsh Him Harg. rewrite (call_inst_agrees _ _ _ _ _ _ Hsh).
  rewrite (unimplemented_owner svc im skw ckw m a ND Hown Him Harg). reflexivity.
Qed.

Lemma kwargs_passed_inst svc im skw py a ckw o :
  call_inst svc im skw py a ckw = Some (CallObs o) -> ri_kw (ob_req o) = resolve_kwargs skw ckw.
Proof.
  unfold call_inst. destruct (stub_getattr svc py) as [[|d]|]; try discriminate.
  destruct (call svc im skw py a ckw) as [o'|] eqn:E; cbn [option_map]; [|discriminate].
  intros [= <-]. exact (call_kwargs _ _ _ _ _ _ _ E).
Qed.

(* every RPC is reachable through the instance attribute named after it IFF Python names distinct AND none shadowed *)
Lemma inst_exact svc :
  names_distinct svc ->
  ((forall m, In m (s_methods svc) -> stub_getattr svc (m_py m) = Some (AttrMethod (stub_method svc m)))
   <-> (pynames_distinct svc /\ unshadowedb svc = true)).
Proof.
  intros ND. split.
  - intros H. assert (Hun : unshadowedb svc = true).
    { unfold unshadowedb. apply forallb_forall. intros m Hm. specialize (H m Hm).
      unfold stub_getattr in H. destruct (shadowedb (m_py m)); [discriminate | reflexivity]. }
    split; [|exact Hun]. apply (stub_lookup_exact svc ND). intros m Hm. specialize (H m Hm).
    unfold unshadowedb in Hun. rewrite forallb_forall in Hun. specialize (Hun m Hm). apply negb_true_iff in Hun.
    rewrite (stub_getattr_unshadowed svc _ Hun) in H.
    destruct (assoc_last (stub_class svc) (m_py m)) as [d|]; cbn [option_map] in H; [|discriminate].
    injection H as ->. reflexivity.
  - intros [NDp Hun] m Hm. unfold unshadowedb in Hun. rewrite forallb_forall in Hun. specialize (Hun m Hm).
    apply negb_true_iff in Hun. rewrite (stub_getattr_unshadowed svc _ Hun), (stub_lookup svc m NDp Hm). reflexivity.
Qed.

(* the witness: one RPC `Timeout` (Python name timeout).  Every hypothesis of C11_payload holds, Model/Grpc.v's call reaches
   the handler, the instance call is a TypeError, and the server side alone still serves the route *)
Definition t_Timeout : str := [x54; x69; x6d; x65; x6f; x75; x74].
Definition m_Timeout := Method t_Timeout key_timeout false false t_In t_Out.
Definition shadow_svc_g : service := Service [x70] [x53] [m_Timeout].
Definition h_one : hbody := HCoro (fun _ => RetMsg o_msg).

Lemma shadowed_inst_witness :
  names_distinct shadow_svc_g /\ pynames_distinct shadow_svc_g /\ In m_Timeout (s_methods shadow_svc_g) /\
  im_one (m_py m_Timeout) = Some h_one /\ arg_ok m_Timeout (ArgOne a_msg) /\
  handler_ok m_Timeout h_one (hin_of (ArgOne a_msg)) /\
  shadowedb (m_py m_Timeout) = true /\
  call shadow_svc_g im_one kw0 (m_py m_Timeout) (ArgOne a_msg) kw0 =
    Some (expected_obs shadow_svc_g m_Timeout kw0 kw0 (ArgOne a_msg) ([o_msg], None)) /\
  call_inst shadow_svc_g im_one kw0 (m_py m_Timeout) (ArgOne a_msg) kw0 = Some CallTypeError /\
  serve shadow_svc_g im_one (route shadow_svc_g m_Timeout) [snd a_msg] =
    SOut [(m_py m_Timeout, InOne (Some a_msg))] [snd o_msg] None.
Proof.
  split; [repeat constructor; intros []|]. split; [repeat constructor; intros []|].
  split; [left; reflexivity|]. split; [reflexivity|]. split; [split; reflexivity|].
  split; [split; [repeat constructor | intros _; eexists; split; [reflexivity | discriminate]]|].
  repeat split; vm_compute; reflexivity.
Qed.

(* ------------------------------------------------------------------------- routes: uniqueness and converse *)
Lemma route_injective svc m m' :
  names_distinct svc -> In m (s_methods svc) -> In m' (s_methods svc) -> route svc m = route svc m' -> m = m'.
Proof. intros ND Hm Hm' E. apply route_inj in E. apply (NoDup_map_inj m_name (s_methods svc)); assumption. Qed.

Lemma route_known_iff svc r :
  (exists e, dispatch (mapping svc) r = Some e) <-> stub_known_route svc r = true.
Proof.
  unfold stub_known_route. rewrite str_memb_in. unfold dispatch, mapping, mapping_entry. split.
  - intros (e & H). apply (assoc_last_some (route svc) handler_entry_of) in H.
    destruct H as (x & Hx & <- & _). apply in_map. exact Hx.
  - intros Hin. destruct (assoc_last (map (fun x => (route svc x, handler_entry_of x)) (s_methods svc)) r) as [e|] eqn:E.
    + exists e. exact E.
    + apply (assoc_last_none (route svc) handler_entry_of) in E. contradiction.
Qed.

(* converse of C11_unknown_route: a route the mapping does not know is the ONLY way to get 'Method not found' without
   any adapter being entered; for a known route the entry is that of an RPC with that route *)
Lemma dispatch_some_method svc r e :
  dispatch (mapping svc) r = Some e -> exists m, In m (s_methods svc) /\ route svc m = r /\ e = handler_entry_of m.
Proof.
  unfold dispatch, mapping, mapping_entry. intros H.
  apply (assoc_last_some (route svc) handler_entry_of) in H. destruct H as (x & Hx & Hr & He). eauto.
Qed.

Lemma serve_unknown_iff svc r :
  stub_known_route svc r = false <-> dispatch (mapping svc) r = None.
Proof.
  pose proof (route_known_iff svc r) as H. destruct (stub_known_route svc r).
  - split; [discriminate|]. intros E. destruct (proj2 H eq_refl) as (e & He). congruence.
  - split; [|reflexivity]. intros _. destruct (dispatch (mapping svc) r) as [e|] eqn:E; [|reflexivity].
    assert (false = true) by (apply H; eauto). discriminate.
Qed.

(* ------------------------------------------------------------------------- "exactly the handler ..., once" for ALL behaviours *)
Lemma run_adapter_trace ss py h inp :
  fst (fst (run_adapter ss py h inp)) = [] \/ fst (fst (run_adapter ss py h inp)) = [(py, inp)].
Proof.
  unfold run_adapter. destruct ss, h as [f|f]; try destruct (f inp) as [?| |?] eqn:E; try destruct (f inp) as [ys st] eqn:E2;
    cbn [fst]; auto.
Qed.

Lemma serve_trace svc im r bs :
  so_trace (serve svc im r bs) = [] \/
  exists m cs ss, In m (s_methods svc) /\ route svc m = r /\
    assoc_last (base_adapters svc) (m_py m) = Some (cs, ss) /\
    so_trace (serve svc im r bs) = [(m_py m, adapter_input cs (map (decode_as (m_in m)) bs))].
Proof.
  unfold serve. destruct (dispatch (mapping svc) r) as [e|] eqn:Ed; [|left; reflexivity].
  destruct (dispatch_some_method svc r e Ed) as (m & Hm & Hr & ->). cbn [handler_entry_of h_rpc h_in h_out h_card].
  destruct (assoc_last (base_adapters svc) (m_py m)) as [[cs ss]|] eqn:Ea; [|left; reflexivity].
  destruct (resolve_handler svc im (m_py m)) as [h|]; [|left; reflexivity].
  pose proof (run_adapter_trace ss (m_py m) h (adapter_input cs (map (decode_as (m_in m)) bs))) as Ht.
  destruct (run_adapter ss (m_py m) h (adapter_input cs (map (decode_as (m_in m)) bs))) as [[tr ys] st].
  cbn [fst] in Ht.
  destruct (send_all (negb (card_ss (mapping_card m))) false (m_out m) ys st) as [sent st'].
  cbn [so_trace]. destruct Ht as [->| ->]; [left; reflexivity|].
  right. exists m, cs, ss. auto.
Qed.

(* what reaches channel.request is the route / cardinality / reply class of ONE RPC of the service with the called Python name *)
Lemma call_is_some_method svc im skw py a ckw o :
  call svc im skw py a ckw = Some o ->
  exists m, In m (s_methods svc) /\ m_py m = py /\
    ri_route (ob_req o) = route svc m /\ ri_card (ob_req o) = mapping_card m /\ ri_resp_ty (ob_req o) = m_out m /\
    ri_kw (ob_req o) = resolve_kwargs skw ckw.
Proof.
  unfold call. destruct (assoc_last (stub_class svc) py) as [d|] eqn:E; [|discriminate].
  unfold stub_class in E. apply (assoc_last_some m_py (stub_method svc)) in E. destruct E as (m & Hm & Hpy & <-).
  cbn [stub_method sd_helper sd_route sd_in sd_out].
  destruct (cardinality_agree m) as (Hc & _).
  destruct (helper_takes_iterator (stub_helper m)), a as [r|rs]; try discriminate.
  - destruct (encode_all (m_in m) rs); intros [= <-]; exists m; cbn [ob_req ri_route ri_card ri_resp_ty ri_kw]; auto 10.
  - intros [= <-]. exists m. cbn [ob_req ri_route ri_card ri_resp_ty ri_kw]. auto 10.
Qed.

(* at most one handler body runs, and it is the one resolved under the Python name that was called *)
Lemma call_at_most_once svc im skw py a ckw o :
  names_distinct svc -> call svc im skw py a ckw = Some o ->
  ob_trace o = [] \/ exists inp, ob_trace o = [(py, inp)].
Proof.
  intros ND. unfold call. destruct (assoc_last (stub_class svc) py) as [d|] eqn:E; [|discriminate].
  unfold stub_class in E. apply (assoc_last_some m_py (stub_method svc)) in E. destruct E as (m & Hm & Hpy & <-).
  cbn [stub_method sd_helper sd_route sd_in sd_out].
  assert (Hs : forall bs, so_trace (serve svc im (route svc m) bs) = [] \/
                          exists inp, so_trace (serve svc im (route svc m) bs) = [(py, inp)]).
  { intros bs. destruct (serve_trace svc im (route svc m) bs) as [H|(m' & cs & ss & Hm' & Hr & _ & Ht)]; [left; exact H|].
    right. assert (m' = m) by (apply (route_injective svc); assumption). subst m'. rewrite Ht, Hpy. eauto. }
  destruct (helper_takes_iterator (stub_helper m)), a as [r|rs]; try discriminate.
  - destruct (encode_all (m_in m) rs) as [bs|]; intros [= <-]; cbn [ob_trace]; [apply Hs | left; reflexivity].
  - intros [= <-]. cbn [ob_trace]. apply Hs.
Qed.

(* ------------------------------------------------------------------------- status: both directions *)
Lemma status_iff svc im skw ckw m h a :
  names_distinct svc -> owns svc m ->
  im (m_py m) = Some h -> arg_ok m a -> handler_ok m h (hin_of a) ->
  exists o, call svc im skw (m_py m) a ckw = Some o /\
    (forall s, cr_end (ob_res o) = CGrpc s <-> snd (produced (m_ss m) h (hin_of a)) = Some s) /\
    (cr_end (ob_res o) = CDone <-> snd (produced (m_ss m) h (hin_of a)) = None) /\
    cr_end (ob_res o) <> CExc /\
    cr_msgs (ob_res o) = fst (produced (m_ss m) h (hin_of a)).
Proof.
  intros ND Hown Him Harg Hok. eexists. split; [apply payload_owner; eassumption|].
  cbn [expected_obs ob_res cr_end cr_msgs].
  destruct (snd (produced (m_ss m) h (hin_of a))) as [s0|]; cbn [end_of].
  - split; [intros s; split; congruence|]. split; [split; discriminate|]. split; [discriminate | reflexivity].
  - split; [intros s; split; discriminate|]. split; [split; reflexivity|]. split; [discriminate | reflexivity].
Qed.
