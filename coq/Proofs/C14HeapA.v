(* C14 aliasing, part A: list facts, the frame lemma for [abs] / [reach], footprints ([closed]), ownership invariants
   ([inv] / [pres]), allocation. *)
From BP Require Import Base.Prelude Model.Types Model.Object Model.Eq Model.Encode Model.Decode Model.History Model.C14Heap.
From BP Require Import Proofs.C14Ind.
From Coq Require Import Lia.
Local Open Scope nat_scope.

(* ---- lists ---- *)
Lemma omapM_ext {A B} (f g : A -> option B) l :
  (forall x, In x l -> f x = g x) -> omapM f l = omapM g l.
Proof.
  induction l as [|x r IH]; intros H; cbn [omapM]; [reflexivity|].
  rewrite (H x (or_introl eq_refl)). rewrite IH; [reflexivity|].
  intros y Hy. apply H. right. exact Hy.
Qed.

Lemma omapM_some_each {A B} (f : A -> option B) l ys :
  omapM f l = Some ys -> forall x, In x l -> exists y, f x = Some y.
Proof.
  revert ys. induction l as [|x r IH]; intros ys H z Hz; [destruct Hz|].
  cbn [omapM] in H. destruct (f x) as [y|] eqn:Ef; [|discriminate].
  destruct (omapM f r) as [ys'|] eqn:Er; [|discriminate].
  destruct Hz as [Hz|Hz]; [subst z; exists y; exact Ef | exact (IH ys' eq_refl z Hz)].
Qed.

Lemma set_nth_length {A} i (x : A) l : length (set_nth i x l) = length l.
Proof.
  revert i. induction l as [|y r IH]; intros i; destruct i; cbn [set_nth length]; try reflexivity.
  rewrite IH. reflexivity.
Qed.

Lemma nth_error_set_nth_ne {A} i j (x : A) l : i <> j -> nth_error (set_nth i x l) j = nth_error l j.
Proof.
  revert i j. induction l as [|y r IH]; intros i j Hne; destruct i; cbn [set_nth]; try reflexivity.
  - destruct j; [congruence | reflexivity].
  - destruct j; cbn [nth_error]; [reflexivity|]. apply IH. congruence.
Qed.

Lemma nth_error_set_nth_eq {A} i (x : A) l c :
  nth_error (set_nth i x l) i = Some c -> c = x.
Proof.
  revert i. induction l as [|y r IH]; intros i H; destruct i; cbn [set_nth nth_error] in H; try discriminate.
  - congruence.
  - exact (IH i H).
Qed.

Lemma nth_error_set_nth_hit {A} i (x : A) l : i < length l -> nth_error (set_nth i x l) i = Some x.
Proof.
  revert i. induction l as [|y r IH]; intros i H; cbn [length] in H; [lia|].
  destruct i; cbn [set_nth nth_error]; [reflexivity|]. apply IH. lia.
Qed.

Lemma Forall_set_nth {A} (P : A -> Prop) i x l : P x -> Forall P l -> Forall P (set_nth i x l).
Proof.
  intros Hx Hl. revert i. induction Hl as [|y r Hy Hr IH]; intros i; destruct i; cbn [set_nth]; constructor; auto.
Qed.

Lemma Forall_remove_nth {A} (P : A -> Prop) i l : Forall P l -> Forall P (remove_nth i l).
Proof.
  intros Hl. revert i. induction Hl as [|y r Hy Hr IH]; intros i; destruct i; cbn [remove_nth]; auto.
Qed.

Lemma Forall_snoc {A} (P : A -> Prop) x l : P x -> Forall P l -> Forall P (l ++ [x]).
Proof. intros Hx Hl. apply Forall_app. split; [exact Hl | constructor; [exact Hx | constructor]]. Qed.

Lemma nth_Forall {A} (P : A -> Prop) i l d : P d -> Forall P l -> P (nth i l d).
Proof.
  intros Hd Hl. revert i. induction Hl as [|y r Hy Hr IH]; intros i; destruct i; cbn [nth]; auto.
Qed.

Lemma nth_error_Forall {A} (P : A -> Prop) i l x : Forall P l -> nth_error l i = Some x -> P x.
Proof. intros Hl H. apply nth_error_In in H. rewrite Forall_forall in Hl. exact (Hl x H). Qed.

(* ---- refs ---- *)
Lemma in_refs c b : In b (refs c) <-> In (SRef b) (cslots c).
Proof.
  unfold refs. rewrite in_flat_map. split.
  - intros (s & Hs & Hb). destruct s as [v|b']; cbn [slot_refs] in Hb; [destruct Hb|].
    destruct Hb as [Hb|[]]. subst b'. exact Hs.
  - intros H. exists (SRef b). split; [exact H | left; reflexivity].
Qed.

(* ---- footprints ---- *)
Definition closed (h : heap) (F : list addr) : Prop :=
  forall a, In a F -> exists c, nth_error h a = Some c /\ incl (refs c) F.

Lemma closed_valid h F a : closed h F -> In a F -> a < length h.
Proof. intros Hc Ha. destruct (Hc a Ha) as (c & Hn & _). apply nth_error_Some. congruence. Qed.

Lemma frame_abs h h' F :
  closed h F -> (forall a, In a F -> nth_error h' a = nth_error h a) ->
  forall k a, In a F -> abs k h' a = abs k h a.
Proof.
  intros Hc Hag. induction k as [|k IH]; intros a Ha; cbn [abs]; [reflexivity|].
  rewrite (Hag a Ha). destruct (Hc a Ha) as (c & Hn & Hinc). rewrite Hn.
  rewrite (omapM_ext (abs_slot (abs k h')) (abs_slot (abs k h)) (cslots c)); [reflexivity|].
  intros s Hs. destruct s as [v|b]; cbn [abs_slot]; [reflexivity|].
  apply IH. apply Hinc. apply in_refs. exact Hs.
Qed.

Lemma flat_map_ext_in {A B} (f g : A -> list B) l :
  (forall x, In x l -> f x = g x) -> flat_map f l = flat_map g l.
Proof.
  induction l as [|x r IH]; intros H; cbn [flat_map]; [reflexivity|].
  rewrite (H x (or_introl eq_refl)). rewrite IH; [reflexivity|]. intros y Hy. apply H. right. exact Hy.
Qed.

Lemma frame_reach h h' F :
  closed h F -> (forall a, In a F -> nth_error h' a = nth_error h a) ->
  forall k a, In a F -> reach k h' a = reach k h a.
Proof.
  intros Hc Hag. induction k as [|k IH]; intros a Ha; cbn [reach]; [reflexivity|].
  rewrite (Hag a Ha). destruct (Hc a Ha) as (c & Hn & Hinc). rewrite Hn.
  f_equal. apply flat_map_ext_in. intros b Hb. apply IH. apply Hinc. exact Hb.
Qed.

Lemma closed_frame h h' F :
  closed h F -> (forall a, In a F -> nth_error h' a = nth_error h a) -> closed h' F.
Proof. intros Hc Hag a Ha. rewrite (Hag a Ha). exact (Hc a Ha). Qed.

(* a successful [abs] has seen the whole structure: its [reach] is a footprint *)
Lemma abs_closed n : forall h a v, abs n h a = Some v -> closed h (reach n h a) /\ In a (reach n h a).
Proof.
  induction n as [|n IH]; intros h a v H; cbn [abs] in H; [discriminate|].
  destruct (nth_error h a) as [c|] eqn:Hn; [|discriminate].
  destruct (omapM (abs_slot (abs n h)) (cslots c)) as [vs|] eqn:Hm; [|discriminate].
  assert (Hsub : forall b, In b (refs c) -> closed h (reach n h b) /\ In b (reach n h b)).
  { intros b Hb. apply in_refs in Hb. destruct (omapM_some_each _ _ _ Hm _ Hb) as (y & Hy).
    cbn [abs_slot] in Hy. exact (IH h b y Hy). }
  cbn [reach]. rewrite Hn. split; [|left; reflexivity].
  intros x [Hx|Hx].
  - subst x. exists c. split; [exact Hn|]. intros b Hb. right. apply in_flat_map. exists b. split; [exact Hb|].
    exact (proj2 (Hsub b Hb)).
  - apply in_flat_map in Hx. destruct Hx as (b & Hb & Hx).
    destruct (proj1 (Hsub b Hb) x Hx) as (c' & Hn' & Hinc). exists c'. split; [exact Hn'|].
    intros y Hy. right. apply in_flat_map. exists b. split; [exact Hb | exact (Hinc y Hy)].
Qed.

(* ---- extension ---- *)
Lemma nth_error_app_some {A} (l e : list A) i x : nth_error l i = Some x -> nth_error (l ++ e) i = Some x.
Proof.
  intros H. rewrite nth_error_app1; [exact H|]. apply nth_error_Some. congruence.
Qed.

Lemma abs_ext k : forall h e a v, abs k h a = Some v -> abs k (h ++ e) a = Some v.
Proof.
  induction k as [|k IH]; intros h e a v H; cbn [abs] in *; [discriminate|].
  destruct (nth_error h a) as [c|] eqn:Hn; [|discriminate].
  rewrite (nth_error_app_some _ e _ _ Hn).
  destruct (omapM (abs_slot (abs k h)) (cslots c)) as [vs|] eqn:Hm; [|discriminate].
  rewrite (omapM_ext (abs_slot (abs k (h ++ e))) (abs_slot (abs k h)) (cslots c)); [rewrite Hm; exact H|].
  intros s Hs. destruct s as [w|b]; cbn [abs_slot]; [reflexivity|].
  destruct (omapM_some_each _ _ _ Hm _ Hs) as (y & Hy). cbn [abs_slot] in Hy. rewrite Hy. exact (IH h e b y Hy).
Qed.

Lemma abs_slot_ext k h e s v : abs_slot (abs k h) s = Some v -> abs_slot (abs k (h ++ e)) s = Some v.
Proof. destruct s as [w|b]; cbn [abs_slot]; [auto | apply abs_ext]. Qed.

(* ---- ownership ---- *)
Definition slot_own (own : addr -> Prop) (s : slot) : Prop :=
  match s with SRef b => own b | SVal _ => True end.

Definition own_closed (own : addr -> Prop) (h : heap) : Prop :=
  forall a c, own a -> nth_error h a = Some c -> Forall (slot_own own) (cslots c).

(* the mutator's territory: closed under the heap, and every address from L on (everything allocated later) *)
Definition inv (own : addr -> Prop) (L : nat) (h : heap) : Prop :=
  L <= length h /\ (forall a, L <= a -> own a) /\ own_closed own h.

(* what is not owned is not touched *)
Definition pres (own : addr -> Prop) (h h' : heap) : Prop :=
  length h <= length h' /\ forall b, ~ own b -> nth_error h' b = nth_error h b.

Lemma pres_refl own h : pres own h h.
Proof. split; [lia | reflexivity]. Qed.

Lemma pres_trans own h1 h2 h3 : pres own h1 h2 -> pres own h2 h3 -> pres own h1 h3.
Proof.
  intros [L1 A1] [L2 A2]. split; [lia|]. intros b Hb. rewrite (A2 b Hb). exact (A1 b Hb).
Qed.

Lemma slot_own_mono (P Q : addr -> Prop) s : (forall b, P b -> Q b) -> slot_own P s -> slot_own Q s.
Proof. destruct s; cbn [slot_own]; auto. Qed.

Lemma reach_own own h : own_closed own h -> forall k a, own a -> forall b, In b (reach k h a) -> own b.
Proof.
  intros Hc. induction k as [|k IH]; intros a Ha b Hb; cbn [reach] in Hb; [destruct Hb|].
  destruct (nth_error h a) as [c|] eqn:Hn; [|destruct Hb].
  destruct Hb as [Hb|Hb]; [subst b; exact Ha|].
  apply in_flat_map in Hb. destruct Hb as (x & Hx & Hb).
  apply in_refs in Hx. pose proof (Hc a c Ha Hn) as HF. rewrite Forall_forall in HF.
  exact (IH x (HF _ Hx) b Hb).
Qed.

(* ---- updating an owned cell ---- *)
Lemma upd_length h a c : length (upd h a c) = length h.
Proof. apply set_nth_length. Qed.

Lemma upd_inv own L h a c :
  inv own L h -> own a -> Forall (slot_own own) (cslots c) ->
  inv own L (upd h a c) /\ pres own h (upd h a c).
Proof.
  intros (HL & Hfresh & Hc) Ha Hs. split; [split; [|split]|split].
  - rewrite upd_length. exact HL.
  - exact Hfresh.
  - intros x cx Hx Hn. destruct (Nat.eq_dec a x) as [E|E].
    + subst x. unfold upd in Hn. apply nth_error_set_nth_eq in Hn. subst cx. exact Hs.
    + unfold upd in Hn. rewrite nth_error_set_nth_ne in Hn by exact E. exact (Hc x cx Hx Hn).
  - rewrite upd_length. lia.
  - intros b Hb. unfold upd. apply nth_error_set_nth_ne. intros E. subst b. exact (Hb Ha).
Qed.

(* ---- allocation: the heap is extended by cells that refer to new cells only ---- *)
Definition alloc_ok (h h' : heap) : Prop :=
  exists e, h' = h ++ e /\ Forall (fun c => Forall (slot_own (fun b => length h <= b)) (cslots c)) e.

Lemma alloc_ok_refl h : alloc_ok h h.
Proof. exists []. split; [rewrite app_nil_r; reflexivity | constructor]. Qed.

Lemma alloc_ok_trans h1 h2 h3 : alloc_ok h1 h2 -> alloc_ok h2 h3 -> alloc_ok h1 h3.
Proof.
  intros (e1 & E1 & F1) (e2 & E2 & F2). exists (e1 ++ e2). split; [subst; rewrite app_assoc; reflexivity|].
  apply Forall_app. split; [exact F1|].
  eapply Forall_impl; [|exact F2]. intros c Hc. eapply Forall_impl; [|exact Hc].
  intros s. apply slot_own_mono. intros b Hb. subst h2. rewrite app_length in Hb. lia.
Qed.

Lemma alloc_ok_length h h' : alloc_ok h h' -> length h <= length h'.
Proof. intros (e & E & _). subst. rewrite app_length. lia. Qed.

Lemma alloc_ok_snoc h h1 k ss :
  alloc_ok h h1 -> Forall (slot_own (fun b => length h <= b)) ss -> alloc_ok h (h1 ++ [mkCell k ss]).
Proof.
  intros (e & E & F) Hs. exists (e ++ [mkCell k ss]). split; [subst; rewrite app_assoc; reflexivity|].
  apply Forall_app. split; [exact F|]. constructor; [exact Hs | constructor].
Qed.

Lemma alloc_ok_inv own L h h' :
  inv own L h -> alloc_ok h h' ->
  inv own L h' /\ pres own h h' /\ (forall b, b < length h -> nth_error h' b = nth_error h b).
Proof.
  intros (HL & Hfresh & Hc) (e & E & F). subst h'.
  assert (Hold : forall b, b < length h -> nth_error (h ++ e) b = nth_error h b).
  { intros b Hb. apply nth_error_app1. exact Hb. }
  split; [split; [|split]|split; [split|]].
  - rewrite app_length. lia.
  - exact Hfresh.
  - intros a c Ha Hn. destruct (Nat.lt_ge_cases a (length h)) as [Hlt|Hge].
    + rewrite Hold in Hn by exact Hlt. exact (Hc a c Ha Hn).
    + rewrite nth_error_app2 in Hn by exact Hge. apply nth_error_In in Hn.
      rewrite Forall_forall in F. pose proof (F c Hn) as Fc.
      eapply Forall_impl; [|exact Fc]. intros s. apply slot_own_mono. intros b Hb. apply Hfresh. lia.
  - rewrite app_length. lia.
  - intros b Hb. destruct (Nat.lt_ge_cases b (length h)) as [Hlt|Hge]; [apply Hold; exact Hlt|].
    exfalso. apply Hb. apply Hfresh. lia.
  - exact Hold.
Qed.

(* the nested fixes of alloc_pv, named *)
Definition alloc_go :=
  fix go (h : heap) (l : list pv) {struct l} : heap * list slot :=
    match l with
    | [] => (h, [])
    | x :: r => let '(h1, s) := alloc_pv h x in
                let '(h2, ss) := go h1 r in (h2, s :: ss)
    end.

Definition alloc_god :=
  fix go (h : heap) (d : list (pv * pv)) {struct d} : heap * list slot :=
    match d with
    | [] => (h, [])
    | (_, x) :: r => let '(h1, s) := alloc_pv h x in
                     let '(h2, ss) := go h1 r in (h2, s :: ss)
    end.

Lemma alloc_pv_msg h c raw sow unk cur :
  alloc_pv h (PMsg (Obj c raw sow unk cur)) =
  let '(h1, ss) := alloc_go h raw in (h1 ++ [mkCell (KMsg c sow unk cur) ss], SRef (length h1)).
Proof. reflexivity. Qed.

Lemma alloc_pv_list h l :
  alloc_pv h (PList l) = let '(h1, ss) := alloc_go h l in (h1 ++ [mkCell KList ss], SRef (length h1)).
Proof. reflexivity. Qed.

Lemma alloc_pv_dict h d :
  alloc_pv h (PDict d) = let '(h1, ss) := alloc_god h d in (h1 ++ [mkCell (KDict (map fst d)) ss], SRef (length h1)).
Proof. reflexivity. Qed.

Definition alloc_spec (v : pv) : Prop :=
  forall h h' s, alloc_pv h v = (h', s) -> alloc_ok h h' /\ slot_own (fun b => length h <= b) s.

Lemma alloc_go_spec l : Forall alloc_spec l ->
  forall h h' ss, alloc_go h l = (h', ss) -> alloc_ok h h' /\ Forall (slot_own (fun b => length h <= b)) ss.
Proof.
  induction 1 as [|x r Hx Hr IH]; intros h h' ss H; cbn [alloc_go] in H.
  - inversion H; subst. split; [apply alloc_ok_refl | constructor].
  - fold alloc_go in H. destruct (alloc_pv h x) as [h1 s] eqn:E1. destruct (alloc_go h1 r) as [h2 ss2] eqn:E2.
    inversion H; subst. destruct (Hx h h1 s E1) as [A1 S1]. destruct (IH h1 h' ss2 E2) as [A2 S2].
    split; [exact (alloc_ok_trans _ _ _ A1 A2)|]. constructor; [exact S1|].
    eapply Forall_impl; [|exact S2]. intros s'. apply slot_own_mono. intros b Hb.
    pose proof (alloc_ok_length _ _ A1). lia.
Qed.

Lemma alloc_god_spec d : Forall (fun kv => alloc_spec (fst kv) /\ alloc_spec (snd kv)) d ->
  forall h h' ss, alloc_god h d = (h', ss) -> alloc_ok h h' /\ Forall (slot_own (fun b => length h <= b)) ss.
Proof.
  induction 1 as [|[k x] r Hx Hr IH]; intros h h' ss H; cbn [alloc_god] in H.
  - inversion H; subst. split; [apply alloc_ok_refl | constructor].
  - fold alloc_god in H. destruct (alloc_pv h x) as [h1 s] eqn:E1. destruct (alloc_god h1 r) as [h2 ss2] eqn:E2.
    inversion H; subst. destruct (proj2 Hx h h1 s E1) as [A1 S1]. destruct (IH h1 h' ss2 E2) as [A2 S2].
    split; [exact (alloc_ok_trans _ _ _ A1 A2)|]. constructor; [exact S1|].
    eapply Forall_impl; [|exact S2]. intros s'. apply slot_own_mono. intros b Hb.
    pose proof (alloc_ok_length _ _ A1). lia.
Qed.

Lemma alloc_pv_spec v : alloc_spec v.
Proof.
  induction v using pv_induction; unfold alloc_spec; intros h0 h0' s0 E;
    try (cbn [alloc_pv] in E; inversion E; subst; split; [apply alloc_ok_refl | exact I]).
  - rewrite alloc_pv_list in E. destruct (alloc_go h0 l) as [h1 ss] eqn:E1. inversion E; subst.
    destruct (alloc_go_spec l H h0 h1 ss E1) as [A S1].
    split; [apply alloc_ok_snoc; assumption|]. cbn [slot_own]. exact (alloc_ok_length _ _ A).
  - rewrite alloc_pv_dict in E. destruct (alloc_god h0 d) as [h1 ss] eqn:E1. inversion E; subst.
    destruct (alloc_god_spec d H h0 h1 ss E1) as [A S1].
    split; [apply alloc_ok_snoc; assumption|]. cbn [slot_own]. exact (alloc_ok_length _ _ A).
  - rewrite alloc_pv_msg in E. destruct (alloc_go h0 raw) as [h1 ss] eqn:E1. inversion E; subst.
    destruct (alloc_go_spec raw H h0 h1 ss E1) as [A S1].
    split; [apply alloc_ok_snoc; assumption|]. cbn [slot_own]. exact (alloc_ok_length _ _ A).
Qed.

(* allocation under an ownership invariant *)
Lemma alloc_inv own L h v h' s :
  inv own L h -> alloc_pv h v = (h', s) ->
  inv own L h' /\ pres own h h' /\ (forall b, b < length h -> nth_error h' b = nth_error h b) /\ slot_own own s.
Proof.
  intros Hi E. destruct (alloc_pv_spec v h h' s E) as [A S1].
  destruct (alloc_ok_inv own L h h' Hi A) as (I1 & P1 & O1).
  split; [exact I1|]. split; [exact P1|]. split; [exact O1|].
  eapply slot_own_mono; [|exact S1]. intros b Hb. cbv beta in Hb. destruct Hi as (HL & Hf & _). apply Hf. lia.
Qed.
