(* C02, gap closure (1): the property text against the theorems of Properties/C02.v, clause by clause.

   CLAUSE (text of C02)                                   EXISTING THEOREM(S)                       GAP                      CLOSED BY
   ------------------------------------------------------------------------------------------------------------------------------------
   (a) bytes betterproto writes for ANY message are       C02_encode_legal / _rel / _denotes:       "any message" is          C02_encode_legal_reachable (every object the public
       read by the reference as the same field values      for c01_value_ok m, under                 c01_value_ok, sampled;    API builds: run7 histories) ; C02_encode_faithful_*
       and presence                                        Zlength bs < 2^35; "itself" under         enc_faithful only         _refuted (each conjunct of enc_faithful that can
                                                           enc_faithful (one _refuted: -0.0)         witnessed for -0.0        fail under c01_value_ok is necessary: float32
                                                                                                                              rounding, epoch Timestamp, K12 sub-message)
   (b) bytes the reference writes are read by             C02_decode_refines (any bs with            depth index fixed to      C02_decode_refines_depth (any depth above |bs|);
       betterproto as the same values                      parse_wire bs = Some rs, sem defined,     S |bs| (two encodings     exactness of [supported]: one _refuted witness per
                                                           supported)                                of one message have two   conjunct (merge was the only one in Properties)
                                                                                                     depths); supported only
                                                                                                     witnessed for "merge"
   (c) ... for every legal alternative encoding of        C02_decode_refines covers every record     NOTHING says the          Proofs/C02GapB.v, C02GapC.v: the specification's
       THE SAME MESSAGE:                                   list, but "the same message" is not       alternatives denote THE   denotation is invariant under each re-encoding
        (c1) any field order                               stated anywhere: sem of a permuted /      SAME message              sem_reorder
        (c2) packed or unpacked repeated scalars           re-packed / padded / duplicated list                                sem_packed_toggle
        (c3) a packed field split into chunks              could be anything                                                   sem_chunk_split
        (c4) non-minimal varints                                                                                               same_records_same_message (below: two byte strings
                                                                                                                              with the same records), packed ELEMENTS: part of
                                                                                                                              VarintRep / read_varint (unpack reads padded elements)
        (c5) repeated singular scalar / oneof members                                                                          sem_duplicate_scalar, (oneof members: see report)
        (c6) interleaved unknown fields                                                                                        sem_unknown_insert
       and the decoder follows:                                                                                                alt_encoding_decodes (below): any re-encoding chain
                                                                                                                              composed with C02_decode_refines_depth
   (d) composition with the neighbours                    --                                         not stated                 spec_legal_is_valid (C17_accept_iff: every legal,
                                                                                                                              supported string is [valid]); alt_of_encoding (C01:
                                                                                                                              every supported alternative encoding of bytes(m)
                                                                                                                              parses to an object with the abstraction of
                                                                                                                              parse(bytes(m)) = norm_obj m); encode_len (C09)
   Quantifier "for all re-encodings produced by an independent spec-level re-encoder (permutation, packing toggle, chunk
   split, varint padding, duplication)": the relation [reorder] is the harness's permutation (wiregen.reencode: relative
   order kept inside one field number, inside one oneof group, among unknown fields); the other operators are the
   record-list rewrites of C02GapB / C02GapC. *)
From Coq Require Import ZArith List Bool Lia.
From BP Require Import Base.Prelude Model.Types Model.Varint Model.Object Model.Decode Model.Encode Model.WellFormed.
From BP Require Import Spec.Varint Spec.Wire.
From BP Require Import Proofs.C02Abs Proofs.C02WireP Proofs.C02LoadP Proofs.C02SimP Proofs.C02ElemP Proofs.C02LoopP Proofs.C02MapP
     Proofs.C02FinalP Proofs.C02LegalMain Proofs.C02LegalFaith3.
From BP Require Import Model.C01Def Model.C17Typed Model.C17Nested Proofs.C17Main2P Proofs.C17NestedAcceptP Proofs.C01Final.
Import ListNotations.

(* ------------------------------------------------------------------ (b) any depth above the length *)
Theorem decode_refines_depth sc c bs rs a n :
  wf_schema sc = true -> builtins_std sc = true ->
  wire_ok bs rs -> (length bs < n)%nat ->
  sem n sc c rs = Some a -> supported n sc c rs = true ->
  exists m', parse sc c bs = Ok m' /\ abs_obj sc m' = a.
Proof.
  intros WF BS W L Sm Sp.
  destruct (load_refines sc WF
              (fun n' pn nested_ok B c0 PN => map_step sc WF BS n' pn nested_ok B PN c0)
              n c bs rs a L W Sm Sp) as (o' & Hl & Ha & _).
  exists o'. split; [|exact Ha].
  unfold parse, parse_into.
  rewrite (load_fuel_irrelevant sc (S (length bs)) n (new sc c) bs None ltac:(lia) L), load_eq, Hl. reflexivity.
Qed.

(* ------------------------------------------------------------------ (c4) non-minimal varints: the same records *)
(* two byte strings that are serialisations of the same record list - they differ in the padding of tags,
   lengths and value varints only - are decoded to objects with the same abstraction *)
Theorem same_records_same_message sc c bs bs' rs a n :
  wf_schema sc = true -> builtins_std sc = true ->
  wire_ok bs rs -> wire_ok bs' rs -> (length bs < n)%nat -> (length bs' < n)%nat ->
  sem n sc c rs = Some a -> supported n sc c rs = true ->
  exists m m', parse sc c bs = Ok m /\ parse sc c bs' = Ok m' /\ abs_obj sc m = a /\ abs_obj sc m' = a.
Proof.
  intros WF BS W W' L L' Sm Sp.
  destruct (decode_refines_depth sc c bs rs a n WF BS W L Sm Sp) as (m & Hm & Am).
  destruct (decode_refines_depth sc c bs' rs a n WF BS W' L' Sm Sp) as (m' & Hm' & Am').
  exists m, m'. auto.
Qed.

(* ------------------------------------------------------------------ (c) the decoder follows every alternative encoding *)
(* rs' is an alternative encoding of rs as far as the specification is concerned (sem agrees at depth n) and is
   inside the scope: then whatever bytes carry rs' are decoded to the message the bytes of rs are decoded to *)
Theorem alt_encoding_decodes sc c bs bs' rs rs' a n :
  wf_schema sc = true -> builtins_std sc = true ->
  wire_ok bs rs -> wire_ok bs' rs' -> (length bs < n)%nat -> (length bs' < n)%nat ->
  sem n sc c rs = Some a -> sem n sc c rs' = sem n sc c rs ->
  supported n sc c rs = true -> supported n sc c rs' = true ->
  exists m m', parse sc c bs = Ok m /\ parse sc c bs' = Ok m' /\ abs_obj sc m' = abs_obj sc m /\ abs_obj sc m = a.
Proof.
  intros WF BS W W' L L' Sm E Sp Sp'.
  destruct (decode_refines_depth sc c bs rs a n WF BS W L Sm Sp) as (m & Hm & Am).
  rewrite <- E in Sm.
  destruct (decode_refines_depth sc c bs' rs' a n WF BS W' L' Sm Sp') as (m' & Hm' & Am').
  exists m, m'. repeat split; congruence.
Qed.

(* ------------------------------------------------------------------ (d) C17: legal + supported strings are [valid] *)
Theorem spec_legal_is_valid sc c bs rs a n :
  wf_schema sc = true -> builtins_std sc = true -> has_builtins sc -> entries_agree sc = true ->
  wire_ok bs rs -> (length bs < n)%nat ->
  sem n sc c rs = Some a -> supported n sc c rs = true ->
  valid sc c bs.
Proof.
  intros WF BS HB EA W L Sm Sp.
  destruct (decode_refines_depth sc c bs rs a n WF BS W L Sm Sp) as (m & Hm & _).
  apply (accept_iff sc WF HB EA c bs). eauto.
Qed.

(* and conversely a string that is not [valid] is outside the specification's legal + supported strings *)
Theorem invalid_not_spec_legal sc c bs rs n :
  wf_schema sc = true -> builtins_std sc = true -> has_builtins sc -> entries_agree sc = true ->
  wire_ok bs rs -> (length bs < n)%nat -> ~ valid sc c bs ->
  sem n sc c rs = None \/ supported n sc c rs = false.
Proof.
  intros WF BS HB EA W L NV.
  destruct (sem n sc c rs) as [a|] eqn:Sm; [|now left]. right.
  destruct (supported n sc c rs) eqn:Sp; [|reflexivity].
  exfalso. apply NV. exact (spec_legal_is_valid sc c bs rs a n WF BS HB EA W L Sm Sp).
Qed.

(* ------------------------------------------------------------------ (d) C01: alternative encodings of bytes(m) *)
Lemma schema_parts' sc : c01_schema_ok sc = true -> wf_schema sc = true /\ builtins_std sc = true.
Proof.
  intros H. destruct (C02LegalWalk.schema_parts sc H) as (WF & BE). split; [exact WF|].
  now apply C02LegalWalk.builtins_exact_std.
Qed.

(* every byte string bs' whose records rs' the specification reads as the records of bytes(m) (and which stays
   inside [supported]) is decoded to an object with the abstraction of norm_obj m = parse (bytes m) (C01_roundtrip);
   under enc_faithful that is abs_obj m itself *)
Theorem alt_of_encoding sc m bs bs' rs' n :
  c01_schema_ok sc = true -> c01_value_ok sc m = true -> enc_obj sc m = Ok bs -> Zlength bs < 2 ^ 35 ->
  wire_ok bs' rs' -> (length bs < n)%nat -> (length bs' < n)%nat ->
  (forall rs, wire_ok bs rs -> sem n sc (ocls m) rs' = sem n sc (ocls m) rs) ->
  supported n sc (ocls m) rs' = true ->
  parse sc (ocls m) bs = Ok (norm_obj sc m) /\
  exists m', parse sc (ocls m) bs' = Ok m' /\ abs_obj sc m' = abs_obj sc (norm_obj sc m) /\
             (enc_faithful sc m = true -> abs_obj sc m' = abs_obj sc m).
Proof.
  intros Hsc Hv Eb Hs W' L L' E Sp'.
  destruct (schema_parts' sc Hsc) as (WF & BS).
  destruct (c02_encode_legal_rel sc m bs Hsc Hv Eb Hs) as (rs & W & H).
  destruct (H n L) as (Sm & Sp).
  split.
  - destruct (c01_roundtrip sc m Hsc Hv) as (bs0 & Eb0 & R). rewrite Eb in Eb0. injection Eb0 as <-.
    destruct (R ltac:(lia)) as (m0 & P0 & -> & _). exact P0.
  - specialize (E rs W). rewrite Sm in E.
    destruct (decode_refines_depth sc (ocls m) bs' rs' _ n WF BS W' L' E Sp') as (m' & Hm' & Am').
    exists m'. split; [exact Hm'|]. split; [exact Am'|].
    intros F. rewrite Am'. exact (c02_norm_abs sc m Hsc Hv F).
Qed.
