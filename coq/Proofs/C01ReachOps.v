(* C01 over reachable objects, part 3: __getattribute__ (lazy default written back), __setattr__ (sibling reset),
   nested assignment / read at any depth, m.from_dict, the constructor keep [VGood]. *)
From Coq Require Import ZArith List Bool Lia Arith.
From BP Require Import Base.Prelude Model.Types Model.Object Model.Eq Model.Encode Model.Decode Model.WellFormed.
From BP Require Import Model.History Model.C07Ops Model.C01Def Model.C01Reach.
From BP Require Import Proofs.C01Unfold Proofs.C01Main Proofs.C07InvP Proofs.C07ObsP Proofs.C07HistP Proofs.C07ValP.
From BP Require Import Proofs.C01ReachBase Proofs.C01ReachNew.
Import ListNotations.

(* ---------- list helpers ---------- *)
Lemma nth_error_set_nth_eq {A} (i : nat) (x : A) l : (i < length l)%nat -> nth_error (set_nth i x l) i = Some x.
Proof.
  revert i; induction l as [|y l IH]; intros [|i] H; cbn [set_nth nth_error length] in *; try lia; auto.
  apply IH; lia.
Qed.

Lemma nth_error_set_nth_neq {A} (i k : nat) (x : A) l : k <> i -> nth_error (set_nth i x l) k = nth_error l k.
Proof.
  revert i k; induction l as [|y l IH]; intros [|i] [|k] H; cbn [set_nth nth_error]; auto; try lia.
Qed.

Lemma nth_error_nth_d {A} (l : list A) k x d : nth_error l k = Some x -> nth k l d = x.
Proof. intros H. apply nth_error_nth. exact H. Qed.

Lemma nth_nth_error {A} (l : list A) k d : (k < length l)%nat -> nth_error l k = Some (nth k l d).
Proof. intros H. apply nth_error_nth'. exact H. Qed.

Lemma slot_ok_placeholder sc f : slot_ok sc f PPlaceholder = true.
Proof. reflexivity. Qed.

(* ---------- one raw attribute replaced ---------- *)
Lemma vgood_set_slot sc c raw sow sow' unk cur i f x :
  VGood sc (Obj c raw sow unk cur) ->
  nth_error (cfields (get_class sc c)) i = Some f -> slot_ok sc f x = true ->
  (group_selects cur f i = Some false -> x = PPlaceholder) ->
  VGood sc (Obj c (set_nth i x raw) sow' unk cur).
Proof.
  unfold VGood, cfs. cbn [oraw ocur ocls ounk]. intros (Hl & Hc & Hu & Hco & Hoc & Hsl) Hf Hx Hs.
  assert (Hi : (i < length raw)%nat) by (rewrite Hl; eapply nth_error_lt; eauto).
  repeat split; auto.
  - rewrite length_set_nth. exact Hl.
  - intros k f' y Hf' Hy Hsel. destruct (Nat.eq_dec k i) as [->|Hne].
    + rewrite nth_error_set_nth_eq in Hy by exact Hi. injection Hy as <-. apply Hs. congruence.
    + rewrite nth_error_set_nth_neq in Hy by exact Hne. eapply Hoc; eauto.
  - intros k f' y Hf' Hy. destruct (Nat.eq_dec k i) as [->|Hne].
    + rewrite nth_error_set_nth_eq in Hy by exact Hi. injection Hy as <-. congruence.
    + rewrite nth_error_set_nth_neq in Hy by exact Hne. eapply Hsl; eauto.
Qed.

(* ---------- __getattribute__ ---------- *)
Lemma getattr_cases4 sc c raw sow unk cur i :
  (exists e, getattr sc (Obj c raw sow unk cur) i = (Obj c raw sow unk cur, Err e)) \/
  (exists f v, nth_error (cfields (get_class sc c)) i = Some f /\ group_selects cur f i <> Some false /\
     ((v = nth i raw PPlaceholder /\ v <> PPlaceholder /\
       getattr sc (Obj c raw sow unk cur) i = (Obj c raw sow unk cur, Ok v)) \/
      (v = default_of sc f /\ nth i raw PPlaceholder = PPlaceholder /\
       getattr sc (Obj c raw sow unk cur) i = (Obj c (set_nth i v raw) sow unk cur, Ok v)))).
Proof.
  unfold getattr. destruct (nth_error _ i) as [f|] eqn:Hf; [|left; eauto].
  destruct (group_selects cur f i) as [[|]|] eqn:Hs; try (left; eauto; fail).
  all: destruct (nth i raw PPlaceholder) eqn:En;
    right; eexists f, _; (split; [reflexivity|]); (split; [congruence|]);
    first [ right; split; [reflexivity|]; split; reflexivity
          | left; split; [reflexivity|]; split; [discriminate | reflexivity] ].
Qed.

(* the state after a read is good, and a value that was read is a good value of that field *)
Lemma vgood_getattr sc c raw sow unk cur i :
  wf_schema sc = true -> VGood sc (Obj c raw sow unk cur) ->
  VGood sc (fst (getattr sc (Obj c raw sow unk cur) i)) /\
  forall v, snd (getattr sc (Obj c raw sow unk cur) i) = Ok v ->
    exists f raw', nth_error (cfields (get_class sc c)) i = Some f /\ slot_ok sc f v = true /\
                   group_selects cur f i <> Some false /\
                   fst (getattr sc (Obj c raw sow unk cur) i) = Obj c raw' sow unk cur /\
                   VGood sc (Obj c raw' sow unk cur).
Proof.
  intros Hwf H.
  destruct (getattr_cases4 sc c raw sow unk cur i)
    as [(e & ->) | (f & v & Hf & Hs & [(Ev & Hne & ->) | (Ev & Hp & ->)])]; cbn [fst snd].
  - split; [exact H|]. intros v E. discriminate.
  - split; [exact H|]. intros w E. injection E as <-. exists f, raw.
    split; [exact Hf|]. split; [|split; [exact Hs|split; [reflexivity|exact H]]].
    destruct H as (Hl & _ & _ & _ & _ & Hsl). unfold cfs in *. cbn [oraw ocls] in *.
    assert (Hi : (i < length raw)%nat) by (rewrite Hl; eapply nth_error_lt; eauto).
    apply (Hsl i f v Hf). rewrite Ev. apply nth_nth_error. exact Hi.
  - assert (Hd : slot_ok sc f v = true) by (subst v; eapply default_slot_ok_at; eauto).
    assert (HG : VGood sc (Obj c (set_nth i v raw) sow unk cur)).
    { eapply vgood_set_slot; eauto. intros Hc. contradiction. }
    split; [exact HG|]. intros w E. injection E as <-. exists f, (set_nth i v raw).
    split; [exact Hf|]. split; [exact Hd|]. split; [exact Hs|]. split; [reflexivity|exact HG].
Qed.

(* ---------- __setattr__ ---------- *)
Lemma vgood_setattr sc o i v :
  wf_schema sc = true -> VGood sc o ->
  (forall f, nth_error (cfs sc o) i = Some f -> slot_ok sc f v = true) ->
  VGood sc (setattr sc o i v).
Proof.
  destruct o as [c raw sow unk cur]. unfold cfs. cbn [ocls]. intros Hwf H Hv. rewrite setattr_unfold. cbn zeta.
  fold (stored sc v).
  destruct (nth_error (cfields (get_class sc c)) i) as [f|] eqn:Hf; [|exact H].
  specialize (Hv f eq_refl). rewrite <- (slot_ok_stored sc f v) in Hv. set (v' := stored sc v) in *. clearbody v'.
  destruct (fgroup f) as [g|] eqn:Hg.
  2:{ eapply vgood_set_slot; eauto. unfold group_selects. rewrite Hg. discriminate. }
  pose proof (wf_field_group _ _ _ _ (wf_field_of sc c i f Hwf Hf) Hg) as Hgl.
  unfold VGood, cfs in *. cbn [oraw ocur ocls ounk] in *. destruct H as (Hl & Hc & Hu & Hco & Hoc & Hsl).
  assert (Hi : (i < length raw)%nat) by (rewrite Hl; eapply nth_error_lt; eauto).
  assert (Hi' : (i < length (reset_go g i 0 (cfields (get_class sc c)) raw))%nat) by (rewrite reset_go_length; exact Hi).
  repeat split.
  - rewrite length_set_nth, reset_go_length. exact Hl.
  - rewrite length_set_nth. exact Hc.
  - exact Hu.
  - intros g' i' Hn. destruct (Nat.eq_dec g' g) as [->|Hne].
    + rewrite nth_error_set_nth_eq in Hn by lia. injection Hn as <-. eauto.
    + rewrite nth_error_set_nth_neq in Hn by exact Hne. apply Hco. exact Hn.
  - intros k f' y Hf' Hy Hsel. destruct (Nat.eq_dec k i) as [->|Hne].
    + exfalso. rewrite Hf in Hf'. injection Hf' as <-. unfold group_selects in Hsel. rewrite Hg in Hsel.
      rewrite nth_set_nth_eq in Hsel by lia. cbn [opt_nat_eqb] in Hsel. rewrite Nat.eqb_refl in Hsel. discriminate.
    + rewrite nth_error_set_nth_neq in Hy by exact Hne.
      assert (Hk : (k < length raw)%nat) by (rewrite Hl; eapply nth_error_lt; eauto).
      apply (nth_error_nth_d _ _ _ PPlaceholder) in Hy. rewrite <- Hy.
      destruct (fgroup f') as [g'|] eqn:Hg'; [|unfold group_selects in Hsel; rewrite Hg' in Hsel; discriminate].
      destruct (Nat.eq_dec g' g) as [->|Hgne].
      * eapply reset_go_sibling; eauto.
      * rewrite (reset_go_other g i _ 0 raw k f' Hf') by congruence.
        unfold group_selects in Hsel. rewrite Hg' in Hsel. rewrite nth_set_nth_neq in Hsel by exact Hgne.
        eapply (Hoc k f'); eauto; [apply nth_nth_error; exact Hk|]. unfold group_selects. rewrite Hg'. exact Hsel.
  - intros k f' y Hf' Hy. destruct (Nat.eq_dec k i) as [->|Hne].
    + rewrite nth_error_set_nth_eq in Hy by exact Hi'. injection Hy as <-. congruence.
    + rewrite nth_error_set_nth_neq in Hy by exact Hne.
      assert (Hk : (k < length raw)%nat) by (rewrite Hl; eapply nth_error_lt; eauto).
      apply (nth_error_nth_d _ _ _ PPlaceholder) in Hy. rewrite <- Hy.
      destruct (fgroup f') as [g'|] eqn:Hg'.
      * destruct (Nat.eq_dec g' g) as [->|Hgne].
        -- rewrite (reset_go_sibling g i _ 0 raw k f' Hf' Hg' ltac:(cbn; exact Hne) Hk). reflexivity.
        -- rewrite (reset_go_other g i _ 0 raw k f' Hf') by congruence.
           apply (Hsl k f'); [exact Hf'|]. apply nth_nth_error. exact Hk.
      * rewrite (reset_go_other g i _ 0 raw k f' Hf') by congruence.
        apply (Hsl k f'); [exact Hf'|]. apply nth_nth_error. exact Hk.
Qed.

Lemma setattr_cls sc o i v : ocls (setattr sc o i v) = ocls o.
Proof. apply setattr_shape. Qed.

(* ---------- nested assignment, any depth ---------- *)
Lemma set_in_cls sc path : forall o i v o', set_in sc o path i v = Ok o' -> ocls o' = ocls o.
Proof.
  destruct path as [|j path]; intros o i v o' E; cbn [set_in] in E.
  - injection E as <-. apply setattr_cls.
  - destruct o as [c raw sow unk cur].
    destruct (getattr sc (Obj c raw sow unk cur) j) as [[c1 raw1 sow1 unk1 cur1] r] eqn:Eg.
    pose proof (getattr_shape sc c raw sow unk cur j _ _ Eg) as (raw' & Eo). injection Eo as -> -> -> -> ->.
    destruct r as [w|e]; [|discriminate]. destruct w; try discriminate.
    destruct (set_in sc o path i v); cbn [bind] in E; [|discriminate]. injection E as <-. reflexivity.
Qed.

Lemma vgood_set_in sc : wf_schema sc = true -> forall path o i v o',
  VGood sc o -> set_ok sc o path i v = true -> set_in sc o path i v = Ok o' -> VGood sc o'.
Proof.
  intros Hwf. induction path as [|j path IH]; intros o i v o' H Hok E; cbn [set_in set_ok] in *.
  - injection E as <-. apply vgood_setattr; auto. intros f Hf. unfold field_of in Hok. unfold cfs in Hf. rewrite Hf in Hok.
    unfold val_ok in Hok. apply andb_true_iff in Hok as [_ Hok]. exact Hok.
  - destruct o as [c raw sow unk cur].
    destruct (vgood_getattr sc c raw sow unk cur j Hwf H) as (_ & Hv).
    destruct (getattr sc (Obj c raw sow unk cur) j) as [o1 r] eqn:Eg. cbn [fst snd] in Hv.
    destruct r as [w|e]; [|destruct o1; discriminate].
    destruct (Hv w eq_refl) as (f & raw' & Hf & Hw & Hs & -> & HG).
    destruct w as [| | | | | | | | | | |child]; try discriminate.
    destruct (set_in sc child path i v) as [child'|] eqn:Ec; cbn [bind] in E; [|discriminate].
    injection E as <-.
    assert (Hc' : VGood sc child') by (exact (IH child i v child' (slot_ok_msg _ _ _ Hw) Hok Ec)).
    apply (vgood_set_slot sc c raw' sow sow unk cur j f (PMsg child') HG Hf).
    + apply (slot_ok_msg_swap sc f child child' Hw (set_in_cls sc path child i v child' Ec) Hc').
    + intros Hc. contradiction.
Qed.

Lemma get_in_cls sc path : forall o i, ocls (fst (get_in sc o path i)) = ocls o.
Proof.
  destruct path as [|j path]; intros o i; cbn [get_in].
  - apply getattr_cls.
  - destruct o as [c raw sow unk cur].
    destruct (getattr sc (Obj c raw sow unk cur) j) as [[c1 raw1 sow1 unk1 cur1] r] eqn:Eg.
    pose proof (getattr_shape sc c raw sow unk cur j _ _ Eg) as (raw' & Eo). injection Eo as -> -> -> -> ->.
    destruct r as [w|e]; [|reflexivity]. destruct w; try reflexivity.
    destruct (get_in sc o path i). reflexivity.
Qed.

Lemma vgood_get_in sc : wf_schema sc = true -> forall path o i, VGood sc o -> VGood sc (fst (get_in sc o path i)).
Proof.
  intros Hwf. induction path as [|j path IH]; intros o i H; cbn [get_in].
  - destruct o as [c raw sow unk cur]. apply vgood_getattr; auto.
  - destruct o as [c raw sow unk cur].
    destruct (vgood_getattr sc c raw sow unk cur j Hwf H) as (HG0 & Hv).
    destruct (getattr sc (Obj c raw sow unk cur) j) as [o1 r] eqn:Eg. cbn [fst snd] in Hv, HG0.
    destruct r as [w|e]; [|destruct o1; exact HG0].
    destruct (Hv w eq_refl) as (f & raw' & Hf & Hw & Hs & -> & HG).
    destruct w as [| | | | | | | | | | |child]; try exact HG.
    pose proof (IH child i (slot_ok_msg _ _ _ Hw)) as Hc'. pose proof (get_in_cls sc path child i) as Hcls.
    destruct (get_in sc child path i) as [child' r']. cbn [fst] in *.
    apply (vgood_set_slot sc c raw' sow sow unk cur j f (PMsg child') HG Hf).
    + apply (slot_ok_msg_swap sc f child child' Hw Hcls Hc').
    + intros Hc. contradiction.
Qed.

(* ---------- m.from_dict(d): the flag, then one __setattr__ per item ---------- *)
Lemma setattrs_cls sc kw : forall o, ocls (setattrs sc o kw) = ocls o.
Proof.
  induction kw as [|[i v] kw IH]; intros o; cbn [setattrs fold_left]; [reflexivity|].
  fold (setattrs sc (setattr sc o i v) kw). rewrite IH. apply setattr_cls.
Qed.

Lemma vgood_setattrs sc : wf_schema sc = true -> forall kw o,
  VGood sc o -> kw_vals_ok sc (ocls o) kw = true -> VGood sc (setattrs sc o kw).
Proof.
  intros Hwf. induction kw as [|[i v] kw IH]; intros o H Hk; cbn [setattrs fold_left]; [exact H|].
  fold (setattrs sc (setattr sc o i v) kw). cbn [kw_vals_ok forallb fst snd] in Hk. apply andb_true_iff in Hk as [Hk1 Hk2].
  apply IH.
  - apply vgood_setattr; auto. intros f Hf. unfold field_of in Hk1. unfold cfs in Hf. rewrite Hf in Hk1.
    unfold val_ok in Hk1. apply andb_true_iff in Hk1 as [_ Hk1]. exact Hk1.
  - rewrite setattr_cls. exact Hk2.
Qed.

Lemma vgood_set_sow sc o : VGood sc o -> VGood sc (set_sow o).
Proof. destruct o as [c raw sow unk cur]. intros H. exact H. Qed.

Lemma vgood_from_dict_inst sc o kw :
  wf_schema sc = true -> VGood sc o -> kw_vals_ok sc (ocls o) kw = true -> VGood sc (from_dict_inst sc o kw).
Proof.
  intros Hwf H Hk. unfold from_dict_inst. apply vgood_setattrs; auto.
  - apply vgood_set_sow. exact H.
  - destruct o. exact Hk.
Qed.

(* ---------- the constructor ---------- *)
Lemma kw_vals_in sc c kw i v f :
  kw_vals_ok sc c kw = true -> In (i, v) kw -> nth_error (cfields (get_class sc c)) i = Some f -> val_ok sc f v = true.
Proof.
  unfold kw_vals_ok. intros H Hin Hf. rewrite forallb_forall in H. specialize (H (i, v) Hin). cbn [fst snd] in H.
  unfold field_of in H. rewrite Hf in H. exact H.
Qed.

Lemma kw_groups_pair sc c : forall kw i v j w,
  kw_groups_ok sc c kw = true -> In (i, v) kw -> In (j, w) kw -> i <> j ->
  same_group sc c i j = false \/ same_group sc c j i = false.
Proof.
  induction kw as [|[a x] kw IH]; intros i v j w H Hi Hj Hne; [contradiction|].
  cbn [kw_groups_ok fst] in H. apply andb_true_iff in H as [H1 H2]. rewrite forallb_forall in H1.
  destruct Hi as [Ei|Hi], Hj as [Ej|Hj].
  - congruence.
  - injection Ei as -> ->. specialize (H1 (j, w) Hj). cbn [fst] in H1.
    apply orb_true_iff in H1 as [H1|H1]; [apply Nat.eqb_eq in H1; contradiction|]. left. apply negb_true_iff. exact H1.
  - injection Ej as -> ->. specialize (H1 (i, v) Hi). cbn [fst] in H1.
    apply orb_true_iff in H1 as [H1|H1]; [apply Nat.eqb_eq in H1; congruence|]. right. apply negb_true_iff. exact H1.
  - eapply IH; eauto.
Qed.

Lemma same_group_members sc c i j f f' g :
  nth_error (cfields (get_class sc c)) i = Some f -> nth_error (cfields (get_class sc c)) j = Some f' ->
  fgroup f = Some g -> fgroup f' = Some g -> same_group sc c i j = true.
Proof.
  intros Hf Hf' Hg Hg'. unfold same_group, field_of. rewrite Hf, Hf', Hg, Hg'. apply opt_nat_eqb_refl.
Qed.

Lemma val_ok_not_sentinel sc n f g v :
  wf_field sc n f = true -> fgroup f = Some g -> val_ok sc f v = true -> is_sentinel f (stored sc v) = false.
Proof.
  intros Hw Hg Hv. destruct (wf_member_shape _ _ _ _ Hw Hg) as ((t & Hh) & Ho & _).
  unfold val_ok in Hv. apply andb_true_iff in Hv as [Hp Hv].
  destruct v as [| | | | | | | | | | |[c r s u gg]]; try discriminate Hp; try reflexivity.
  - unfold slot_ok, field_in_range in Hv. rewrite Hh in Hv. discriminate Hv.
  - unfold stored. destruct (fieldless sc _); reflexivity.
Qed.

Lemma vgood_construct sc c kw :
  wf_schema sc = true -> kw_vals_ok sc c kw = true -> kw_groups_ok sc c kw = true -> VGood sc (construct sc c kw).
Proof.
  intros Hwf Hkv Hkg. unfold construct.
  set (raw := fold_left (fun r '(i, v) => set_nth i (if fieldless sc v then mark_sow v else v) r) kw (oraw (new sc c))).
  assert (Hlen : length raw = length (cfields (get_class sc c))) by apply construct_raw_length.
  (* every raw attribute is the dataclass default or a stored keyword value *)
  assert (Hraw : forall k f, nth_error (cfields (get_class sc c)) k = Some f ->
                   nth k raw PPlaceholder = fresh_slot f \/
                   exists v, In (k, v) kw /\ nth k raw PPlaceholder = stored sc v).
  { intros k f Hf. destruct (construct_raw_values sc kw (oraw (new sc c)) k) as [E | (v & Hin & E)]; cbn zeta in E.
    - left. fold raw in E. rewrite E. unfold new. cbn [oraw]. apply (nth_map_error _ _ _ _ _ Hf).
    - right. exists v. split; [exact Hin|]. exact E. }
  unfold VGood, cfs. destruct (post_init_shape sc c raw) as (Ec & Er & Eu).
  rewrite Ec, Er, Eu, post_init_cur, pi_go_length, repeat_length. repeat split; auto.
  - intros g i H. apply (nth_error_nth_d _ _ _ None) in H. apply pi_go_some in H.
    destruct H as [H | (k & f & Hk & -> & Hg & _)]; [rewrite nth_repeat_none in H; discriminate|]. exists f. auto.
  - intros k f x Hf Hx Hsel. apply (nth_error_nth_d _ _ _ PPlaceholder) in Hx.
    unfold group_selects in Hsel. destruct (fgroup f) as [g|] eqn:Hg; [|discriminate].
    pose proof (wf_field_of sc c k f Hwf Hf) as Hwk.
    destruct (wf_member_shape _ _ _ _ Hwk Hg) as (_ & Ho & _).
    destruct (Hraw k f Hf) as [E | (v & Hin & E)].
    + rewrite <- Hx, E. unfold fresh_slot. rewrite Ho. reflexivity.
    + exfalso.
      pose proof (val_ok_not_sentinel sc _ f g v Hwk Hg (kw_vals_in _ _ _ _ _ _ Hkv Hin Hf)) as Hns.
      pose proof (wf_field_group _ _ _ _ Hwk Hg) as Hgl.
      destruct (nth g (pi_go 0 (cfields (get_class sc c)) raw (repeat None (cngroups (get_class sc c)))) None) as [k'|] eqn:En.
      * assert (Hkk : k' <> k).
        { intros ->. cbn [opt_nat_eqb] in Hsel. rewrite Nat.eqb_refl in Hsel. discriminate. }
        apply pi_go_some_nonsentinel in En.
        destruct En as [En | (k2 & f2 & Hk2 & -> & Hg2 & Hl2 & Hns2)]; [rewrite nth_repeat_none in En; discriminate|].
        cbn [Nat.add] in *.
        destruct (Hraw k2 f2 Hk2) as [E2 | (v2 & Hin2 & E2)].
        -- rewrite E2 in Hns2. unfold fresh_slot, is_sentinel in Hns2. destruct (fopt f2) eqn:Eo; rewrite ?Eo in Hns2; discriminate.
        -- destruct (kw_groups_pair sc c kw k v k2 v2 Hkg Hin Hin2 ltac:(congruence)) as [Hsg|Hsg].
           ++ rewrite (same_group_members sc c k k2 f f2 g Hf Hk2 Hg Hg2) in Hsg. discriminate.
           ++ rewrite (same_group_members sc c k2 k f2 f g Hk2 Hf Hg2 Hg) in Hsg. discriminate.
      * assert (Hs : is_sentinel f (nth k raw PPlaceholder) = true).
        { eapply (pi_go_none _ 0 raw _ g); eauto.
          - rewrite repeat_length. exact Hgl.
          - rewrite Hlen. eapply nth_error_lt; eauto. }
        rewrite E in Hs. congruence.
  - intros k f x Hf Hx. apply (nth_error_nth_d _ _ _ PPlaceholder) in Hx. rewrite <- Hx.
    destruct (Hraw k f Hf) as [E | (v & Hin & E)]; rewrite E.
    + eapply fresh_slot_ok. eapply wf_field_of; eauto.
    + rewrite slot_ok_stored. pose proof (kw_vals_in _ _ _ _ _ _ Hkv Hin Hf) as Hv.
      unfold val_ok in Hv. apply andb_true_iff in Hv as [_ Hv]. exact Hv.
Qed.

Lemma vgood_from_dict_cls sc c kw :
  wf_schema sc = true -> kw_vals_ok sc c kw = true -> kw_groups_ok sc c kw = true -> VGood sc (from_dict_cls sc c kw).
Proof. intros. unfold from_dict_cls. apply vgood_set_sow. apply vgood_construct; auto. Qed.
