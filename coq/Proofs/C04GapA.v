(* C04, gap closure (1): the property text against the theorems of Properties/C04.v, clause by clause.

   CLAUSE (text of C04)                               EXISTING THEOREM(S)                          GAP                                   CLOSED BY
   ---------------------------------------------------------------------------------------------------------------------------------------------------
   (a) for every message value m, to_dict(m) is       C04_dumps_total / C04_general_dumps_total    none for the statement itself;        (hypotheses: see (g))
       serialisable by json.dumps                     (in_rangex, oneof_ok, defaults_reach)        in_range / oneof_ok sampled
   (b) from_dict(to_dict(m)) reconstructs a message   C04_dict_rt, C04_general_rt (exists m')      "a message": the four ways of         rt_result_unique: ONE object, the same for
       equal to m ... for both key casings ...        one theorem per casing / path, each with     reading back (2 casings x 2 paths     every casing, path and form (= gnorm_obj)
       both paths ... both forms                      its own existential m'                       x 2 forms) could give different m'
   (c) ... that also encodes to the same bytes        C04_general_rt (enc_obj m' = enc_obj m)      composition with the binary round     rt_then_binary (C01_roundtrip): the bytes of
                                                                                                   trip (C01) not stated                 the rebuilt message decode to what bytes(m) decode to
   (d) "for every message value": unknown fields      C04_unknown_fields_refuted (one witness)     only a witness; nothing says WHAT     rt_unknown_exact: for every m whose stripped
       (C08) are outside json_supported                                                            is lost and that nothing else is      form is good, the rebuilt message is == m and
                                                                                                                                         bytes(m) = bytes(m') ++ unknown bytes of m
   (e) default-valued oneof / optional members        inside good (ex_m holds one)                 nothing says the SELECTION survives   rt_keeps_selection (every member k of every group:
                                                                                                   (== does not look at _group_current)  selected in m' iff selected in m); rt_inv (C07's Inv)
   (f) the instance form of from_dict                 C04_*_rt: on a FRESH instance new sc c       non-fresh instance: not stated        C04GapB: inst_stale_refuted (exactness of "fresh")
   (g) hypotheses keys_ok / oneof_ok / dicts_ok /     sampled by the harness                       no exactness result                   C04GapB: keys_ok_refuted, oneof_ok_refuted,
       in_range of the headline theorems                                                                                                  dicts_ok_refuted (in_range: no witness found);      
                                                                                                                                         C04GapC: rt_reachable derives in_range + no_unknown
   Quantifier "for casing in {CAMEL, SNAKE}": the theorems hold for ANY cs with keys_ok cs sc; the two values are the inhabitants of [casing].
   Quantifier "via both the dict and the JSON-text path": text : bool in every statement. *)
From Coq Require Import ZArith List Bool Lia.
From BP Require Import Base.Prelude Model.Types Model.Object Model.Eq Model.TimeCore Model.Encode Model.Decode Model.WellFormed Model.Json Model.C04RepWrap.
From BP Require Import Proofs.C04Def Proofs.C04ScalarP Proofs.C04ElemP Proofs.C04CurP Proofs.C04ObjP Proofs.C04RtP Proofs.C04RtP4 Proofs.C04InstP Proofs.C04MainP.
From BP Require Import Proofs.C04InclDef Proofs.C04InclBaseP Proofs.C04InclMainP.
From BP Require Import Model.C04GapDef.
From BP Require Model.C01Def Proofs.C01Final.
From BP Require Model.C07Ops Proofs.C07InvP Proofs.C07JsonP.
Import ListNotations.

(* ------------------------------------------------------------------ (b) one result, whatever the casing / path / form *)
Theorem rt_result_unique sc cs1 cs2 incl (t1 t2 : bool) m :
  wfx_schema sc = true -> keys_ok cs1 sc = true -> keys_ok cs2 sc = true -> goodx sc m = true -> reach_ok incl sc m = true ->
  from_dict_cls sc (ocls m) (tr t1 (to_dict cs1 incl sc m)) = Ok (gnorm_obj incl sc m) /\
  from_dict_inst sc (new sc (ocls m)) (tr t1 (to_dict cs1 incl sc m)) = Ok (gnorm_obj incl sc m) /\
  from_dict_cls sc (ocls m) (tr t2 (to_dict cs2 incl sc m)) = Ok (gnorm_obj incl sc m) /\
  from_dict_inst sc (new sc (ocls m)) (tr t2 (to_dict cs2 incl sc m)) = Ok (gnorm_obj incl sc m).
Proof.
  intros W K1 K2 G R.
  pose proof (norm_formG sc cs1 incl t1 m W K1 G R) as A1.
  pose proof (norm_formG sc cs2 incl t2 m W K2 G R) as A2.
  destruct (eq_formsG sc cs1 incl t1 m W K1 G R) as [m1 [B1 [C1 _]]].
  destruct (eq_formsG sc cs2 incl t2 m W K2 G R) as [m2 [B2 [C2 _]]].
  rewrite A1 in B1. injection B1 as <-. rewrite A2 in B2. injection B2 as <-.
  repeat split; assumption.
Qed.

(* the same for the text path as the API spells it (json.dumps succeeds, then json.loads) *)
Theorem text_result_unique sc cs1 cs2 incl m :
  wfx_schema sc = true -> keys_ok cs1 sc = true -> keys_ok cs2 sc = true -> goodx sc m = true -> reach_ok incl sc m = true ->
  json_rt_cls cs1 incl sc m = Ok (gnorm_obj incl sc m) /\
  json_rt_inst cs2 incl sc m (new sc (ocls m)) = Ok (gnorm_obj incl sc m) /\
  from_dict_cls sc (ocls m) (to_dict cs2 incl sc m) = Ok (gnorm_obj incl sc m).
Proof.
  intros W K1 K2 G R.
  destruct (goodx_parts sc m G) as [Rg On].
  destruct (rt_result_unique sc cs1 cs2 incl true true m W K1 K2 G R) as [A [_ [_ B]]].
  destruct (rt_result_unique sc cs1 cs2 incl false false m W K1 K2 G R) as [_ [_ [C _]]].
  unfold json_rt_cls, json_rt_inst, dumps_loads.
  rewrite (dumps_total_mainG sc cs1 incl m W Rg On (reach_ok_reach incl sc m R)).
  rewrite (dumps_total_mainG sc cs2 incl m W Rg On (reach_ok_reach incl sc m R)).
  cbn [bind]. repeat split; assumption.
Qed.

(* ------------------------------------------------------------------ (d) unknown fields: exactly the unknown bytes are lost *)
Lemma to_dict_strip cs incl sc m : to_dict cs incl sc (strip_unk m) = to_dict cs incl sc m.
Proof. destruct m as [c raw s u g]. reflexivity. Qed.
Lemma ocls_strip m : ocls (strip_unk m) = ocls m.
Proof. destruct m; reflexivity. Qed.
Lemma obj_eq_strip_r sc x m : obj_eq sc x (strip_unk m) = obj_eq sc x m.
Proof. destruct m as [c raw s u g], x as [c' raw' s' u' g']. reflexivity. Qed.
Lemma enc_obj_strip sc m :
  enc_obj sc m = match enc_obj sc (strip_unk m) with Ok b => Ok (b ++ ounk m) | Err e => Err e end.
Proof.
  destruct m as [c raw s u g]. cbn [strip_unk ounk]. rewrite !enc_obj_unfold.
  destruct (enc_loop sc g O raw (cfields (get_class sc c))) as [b|e]; cbn [bind]; [|reflexivity]. rewrite app_nil_r. reflexivity.
Qed.

(* every m - unknown bytes at the top level included - whose visible part (strip_unk m) is inside the scope:
   all four read-backs build ONE m', m' == m, and bytes(m) is bytes(m') followed by the unknown bytes of m.
   (unknown bytes of NESTED messages stay excluded by goodx (strip_unk m): strip_unk is not deep) *)
Theorem rt_unknown_exact sc cs incl (text : bool) m :
  wfx_schema sc = true -> keys_ok cs sc = true -> goodx sc (strip_unk m) = true -> incl_ok incl sc (strip_unk m) = true ->
  exists m', from_dict_cls sc (ocls m) (tr text (to_dict cs incl sc m)) = Ok m' /\
             from_dict_inst sc (new sc (ocls m)) (tr text (to_dict cs incl sc m)) = Ok m' /\
             obj_eq sc m' m = true /\
             enc_obj sc m = match enc_obj sc m' with Ok b => Ok (b ++ ounk m) | Err e => Err e end.
Proof.
  intros W K G I.
  destruct (both_formsG sc cs incl text (strip_unk m) W K G I) as [m' [A [B [C D]]]].
  rewrite to_dict_strip, ocls_strip in A, B. rewrite obj_eq_strip_r in C.
  exists m'. repeat split; try assumption. rewrite D. apply enc_obj_strip.
Qed.

(* ------------------------------------------------------------------ (c) JSON round trip, then the binary round trip (C01) *)
Lemma c01_schema_wfx sc : C01Def.c01_schema_ok sc = true -> wfx_schema sc = true.
Proof.
  unfold C01Def.c01_schema_ok. intros H. apply andb_prop in H as [H _]. apply andb_prop in H as [H _].
  exact (wf_wfx_schema sc H).
Qed.

(* the message rebuilt from the dict / the JSON text has the bytes of m, and those bytes parse to the decoded form of m
   (C01Def.norm_obj, C01_roundtrip): text and binary serialisation agree on what m is *)
Theorem rt_then_binary sc cs incl (text : bool) m :
  C01Def.c01_schema_ok sc = true -> C01Def.c01_value_ok sc m = true ->
  keys_ok cs sc = true -> goodx sc m = true -> incl_ok incl sc m = true ->
  exists m' bs, from_dict_cls sc (ocls m) (tr text (to_dict cs incl sc m)) = Ok m' /\
                from_dict_inst sc (new sc (ocls m)) (tr text (to_dict cs incl sc m)) = Ok m' /\
                obj_eq sc m' m = true /\ enc_obj sc m' = Ok bs /\ enc_obj sc m = Ok bs /\
                (Zlength bs < 2 ^ 64 -> parse sc (ocls m) bs = Ok (C01Def.norm_obj sc m)).
Proof.
  intros S V K G I.
  destruct (both_formsG sc cs incl text m (c01_schema_wfx sc S) K G I) as [m' [A [B [C D]]]].
  destruct (C01Final.c01_roundtrip sc m S V) as [bs [E R]].
  exists m', bs. repeat split; try assumption; try congruence.
  intros L. destruct (R L) as [m2 [P [-> _]]]. exact P.
Qed.

(* ------------------------------------------------------------------ (e) the oneof selection survives (== does not compare it) *)
Lemma norm_keeps_selection sc m : wf_schema sc = true -> good sc m = true ->
  forall k f, nth_error (cfields (get_class sc (ocls m))) k = Some f ->
    group_selects (ocur (norm_obj sc m)) f k = group_selects (ocur m) f k.
Proof.
  intros WS G. rewrite good_split in G. apply andb_prop in G as [Hr Hg].
  destruct m as [c raw s u g].
  destruct (in_range_unfold _ _ _ _ _ _ Hr) as [Hl [Hgl F]].
  unfold pv_good in Hg. rewrite pv_all_msg in Hg. apply andb_prop in Hg as [Hloc _].
  unfold local_ok in Hloc. apply andb_prop in Hloc as [Hloc _]. apply andb_prop in Hloc as [_ Hone].
  rewrite local_oneof_unfold in Hone.
  pose proof (wf_fields sc c WS) as W.
  pose proof (group_selects_norm sc c g raw W Hgl Hl Hone F) as GS.
  intros k f Hf. cbn [ocls] in Hf. rewrite norm_obj_unfold, post_init_unfold. unfold set_sow. cbn [ocur].
  exact (GS k f Hf).
Qed.

(* every member k of every oneof group: selected in the rebuilt message iff selected in m - a selected member holding its
   default value included (C04_hypotheses_satisfiable: ex_m selects v = b"").  Message.__eq__ does not look at
   _group_current, so this is NOT a consequence of m' == m. *)
Theorem rt_keeps_selection sc cs (text : bool) m :
  wf_schema sc = true -> keys_ok cs sc = true -> good sc m = true ->
  exists m', from_dict_cls sc (ocls m) (tr text (to_dict cs false sc m)) = Ok m' /\
             from_dict_inst sc (new sc (ocls m)) (tr text (to_dict cs false sc m)) = Ok m' /\
             forall k f, nth_error (cfields (get_class sc (ocls m))) k = Some f ->
               group_selects (ocur m') f k = group_selects (ocur m) f k.
Proof.
  intros W K G. exists (norm_obj sc m). split; [|split].
  - exact (from_to_dict_norm sc cs text W K m G).
  - exact (inst_from_to_dict_norm sc cs text W K m G).
  - exact (norm_keeps_selection sc m W G).
Qed.

(* ------------------------------------------------------------------ (e') composition with C07: the rebuilt message satisfies
   the oneof invariant - whatever the dict (no hypothesis on j at all), hence for the round trip in particular *)
Theorem rt_inv sc cs incl (text : bool) m m' :
  from_dict_cls sc (ocls m) (tr text (to_dict cs incl sc m)) = Ok m' -> C07InvP.Inv sc m'.
Proof. exact (C07JsonP.json_from_dict_cls_inv sc (ocls m) _ m'). Qed.
