(* C18: the class the runtime sees is the same under the three typing options, and under pydantic_dataclasses it is
   [pyd_class] of the plain one.  Uses the annotation theorems of Proofs/TypingP.v. *)
From Coq Require Import ZArith List Bool Lia Arith.
From BP Require Import Base.Prelude Model.Types Model.Object Model.C18Beh Model.C18Bridge.
From BP Require Proofs.TypingP.
Import ListNotations.
Module TP := BP.Proofs.TypingP.

Definition fd_ok (pyd : bool) (fd : Ty.fdesc) : Prop :=
  exists t, Ty.annotation_ty pyd fd = Some t /\ TP.builtins_ok fd /\ TP.map_key_scalar fd /\ TP.names_ok t.

(* decidable form *)
Definition is_some_b {A} (o : option A) : bool := match o with Some _ => true | None => false end.
Definition fd_okb (pyd : bool) (fd : Ty.fdesc) : bool :=
  match Ty.annotation_ty pyd fd with
  | None => false
  | Some t =>
      TP.names_okb t &&
      (negb (Ty.fd_builtins fd) || is_some_b (Ty.py_scalar (Ty.ft_type (Ty.fd_type fd)))) &&
      match Ty.fd_label fd with Ty.LMap k => is_some_b (Ty.py_scalar (Ty.ft_type k)) | _ => true end
  end.

Lemma fd_okb_ok pyd fd : fd_okb pyd fd = true -> fd_ok pyd fd.
Proof.
  unfold fd_okb, fd_ok. destruct (Ty.annotation_ty pyd fd) as [t|]; [|discriminate]. intros H.
  apply andb_true_iff in H as [H H3]. apply andb_true_iff in H as [H1 H2]. exists t. split; [reflexivity|].
  split; [|split; [|apply TP.names_okb_ok; exact H1]].
  - intros Hb. rewrite Hb in H2. cbn [negb orb] in H2.
    destruct (Ty.py_scalar (Ty.ft_type (Ty.fd_type fd))) as [n|]; [eauto | discriminate H2].
  - unfold TP.map_key_scalar. destruct (Ty.fd_label fd) as [| | |g|k]; try exact I.
    destruct (Ty.py_scalar (Ty.ft_type k)) as [n|]; [eauto | discriminate H3].
Qed.

(* ---------------- (1) the typing option never reaches the runtime ---------------- *)
Lemma rt_field_typing_indep E gs e c c' pyd fd :
  fd_ok pyd fd -> rt_field E gs e (TP.mk c pyd) fd = rt_field E gs e (TP.mk c' pyd) fd.
Proof.
  intros (t & Ha & Hb & Hk & Hn).
  destruct (TP.field_denote c pyd fd t Ha Hb Hk Hn) as (x & Hx & Dx).
  destruct (TP.field_denote c' pyd fd t Ha Hb Hk Hn) as (y & Hy & Dy).
  unfold rt_field. cbn [TP.mk Ty.o_compiler Ty.o_pydantic]. rewrite Hx, Hy, Dx, Dy. reflexivity.
Qed.

Lemma rt_fields_typing_indep E gs en c c' pyd : forall fds i,
  Forall (fd_ok pyd) fds -> rt_fields E gs en (TP.mk c pyd) i fds = rt_fields E gs en (TP.mk c' pyd) i fds.
Proof.
  induction fds as [|fd fds IH]; intros i H; [reflexivity|]. inversion H; subst. cbn [rt_fields].
  rewrite (rt_field_typing_indep E gs (en i) c c' pyd fd) by assumption. rewrite IH by assumption. reflexivity.
Qed.

Lemma rt_class_typing_indep E gs en c c' pyd fds :
  Forall (fd_ok pyd) fds -> rt_class E gs en (TP.mk c pyd) fds = rt_class E gs en (TP.mk c' pyd) fds.
Proof. intros H. unfold rt_class. rewrite (rt_fields_typing_indep E gs en c c' pyd fds 0 H). reflexivity. Qed.

Definition cls_ok (pyd : bool) (x : list Ty.str * (nat -> nat) * list Ty.fdesc) : Prop := Forall (fd_ok pyd) (snd x).

Lemma rt_schema_typing_indep E c c' pyd pre post ens cls :
  Forall (cls_ok pyd) cls -> rt_schema E (TP.mk c pyd) pre post ens cls = rt_schema E (TP.mk c' pyd) pre post ens cls.
Proof.
  intros H. unfold rt_schema. f_equal. unfold rt_classes.
  induction H as [|[[gs en] fds] cls Hx Hc IH]; [reflexivity|]. cbn [snd] in Hx. unfold cls_ok in Hx. cbn [snd] in Hx.
  rewrite (rt_class_typing_indep E gs en c c' pyd fds Hx), IH. reflexivity.
Qed.

(* ---------------- (3) pydantic_dataclasses: the class is pyd_class of the plain class ---------------- *)
Lemma rt_meta_set_optional gs m : rt_meta gs (TP.set_optional m) = rt_meta gs m.
Proof. reflexivity. Qed.

Lemma base_ty_name pyd ft t :
  Ty.base_ty pyd ft = Some t -> (forall w, Ty.ft_ref ft <> Some (Ty.RWrapper w)) -> exists n, Ty.sem t = [Ty.AName n].
Proof.
  unfold Ty.base_ty. intros H Hw. destruct (Ty.py_scalar (Ty.ft_type ft)) as [n|].
  - injection H as <-. cbn [Ty.sem]. eauto.
  - destruct (Ty.ft_type ft); try discriminate H; destruct (Ty.ft_ref ft) as [[w| | |n|n]|]; try discriminate H;
      try (exfalso; eapply Hw; reflexivity); try (injection H as <-; cbn [Ty.sem]; eauto).
Qed.

Lemma sem_with_builtins b t n : Ty.sem t = [Ty.AName n] -> exists n', Ty.sem (Ty.with_builtins b t) = [Ty.AName n'].
Proof. intros H. destruct b, t; cbn [Ty.with_builtins Ty.sem] in *; eauto. Qed.

Lemma rt_field_pydantic E gs e c c' fd :
  fd_ok false fd -> fd_ok true fd -> member_plain fd = true ->
  TP.mentions_google (Ty.fd_type fd) = false ->
  (match Ty.fd_label fd with Ty.LMap k => TP.mentions_google k = false | _ => True end) ->
  rt_field E gs e (TP.mk c true) fd = option_map pyd_field (rt_field E gs e (TP.mk c' false) fd).
Proof.
  intros (t0 & Ha0 & Hb & Hk & Hn0) (t1 & Ha1 & _ & _ & Hn1) Hp Hg Hgk.
  destruct (TP.field_denote c true fd t1 Ha1 Hb Hk Hn1) as (x & Hx & Dx).
  destruct (TP.field_denote c' false fd t0 Ha0 Hb Hk Hn0) as (y & Hy & Dy).
  unfold rt_field. cbn [TP.mk Ty.o_compiler Ty.o_pydantic]. rewrite Hx, Hy, Dx, Dy.
  rewrite (TP.field_meta_pydantic c fd). rewrite (TP.field_meta_typing_indep c c' false fd).
  destruct (Ty.is_oneof_member fd) eqn:Eo.
  - (* oneof member *)
    unfold Ty.is_oneof_member in Eo. destruct (Ty.fd_label fd) as [| | |g|k] eqn:El; try discriminate Eo.
    assert (Hw : forall w, Ty.ft_ref (Ty.fd_type fd) <> Some (Ty.RWrapper w)).
    { intros w Hw. unfold member_plain in Hp. rewrite El, Hw in Hp. discriminate. }
    unfold Ty.annotation_ty in Ha0, Ha1. rewrite El in Ha0, Ha1. unfold Ty.fd_optional in Ha0, Ha1. rewrite El in Ha0, Ha1.
    rewrite (TP.base_ty_pydantic _ Hg) in Ha1.
    destruct (Ty.base_ty false (Ty.fd_type fd)) as [p|] eqn:Ep; [|discriminate].
    injection Ha0 as <-. injection Ha1 as <-.
    destruct (base_ty_name _ _ _ Ep Hw) as (n & Hs). destruct (sem_with_builtins (Ty.fd_builtins fd) p n Hs) as (n' & Hs').
    cbn [Ty.sem]. rewrite Hs'. cbn [app rt_hint].
    rewrite rt_meta_set_optional.
    assert (Hmg : Ty.m_group (Ty.field_meta (TP.mk c' false) fd) = Some g).
    { unfold Ty.field_meta. cbn [Ty.m_group]. rewrite El. reflexivity. }
    destruct (E n') as [p'|]; [|reflexivity]. cbn [option_map].
    unfold rt_meta. rewrite Hmg.
    destruct (Ty.m_map_types (Ty.field_meta (TP.mk c' false) fd)) as [[mk mv]|];
      destruct (Ty.m_wraps (Ty.field_meta (TP.mk c' false) fd)) as [w|];
      destruct (index_of g gs) as [gi|];
      repeat match goal with |- context [ptype_of_name ?x] => destruct (ptype_of_name x) end; cbn [option_map]; reflexivity.
  - (* not a oneof member: same annotation, same metadata, no group *)
    rewrite (TP.annotation_ty_pydantic_same fd Eo Hg Hgk) in Ha1. rewrite Ha0 in Ha1. injection Ha1 as <-.
    destruct (rt_hint E (Ty.sem t0)) as [h|]; [|reflexivity].
    assert (Hmg : Ty.m_group (Ty.field_meta (TP.mk c' false) fd) = None).
    { unfold Ty.field_meta. cbn [Ty.m_group]. unfold Ty.is_oneof_member in Eo. destruct (Ty.fd_label fd); try reflexivity; discriminate. }
    unfold rt_meta. rewrite Hmg.
    destruct (Ty.m_map_types (Ty.field_meta (TP.mk c' false) fd)) as [[mk mv]|];
      destruct (Ty.m_wraps (Ty.field_meta (TP.mk c' false) fd)) as [w|];
      repeat match goal with |- context [ptype_of_name ?x] => destruct (ptype_of_name x) end; cbn [option_map]; reflexivity.
Qed.

Definition fd_pyd_ok (fd : Ty.fdesc) : Prop :=
  fd_ok false fd /\ fd_ok true fd /\ member_plain fd = true /\ TP.mentions_google (Ty.fd_type fd) = false /\
  (match Ty.fd_label fd with Ty.LMap k => TP.mentions_google k = false | _ => True end).

Lemma rt_fields_pydantic E gs en c c' : forall fds i,
  Forall fd_pyd_ok fds ->
  rt_fields E gs en (TP.mk c true) i fds = option_map (map pyd_field) (rt_fields E gs en (TP.mk c' false) i fds).
Proof.
  induction fds as [|fd fds IH]; intros i H; [reflexivity|]. inversion H as [|? ? (A & B & C & D & F) Hr]; subst. cbn [rt_fields].
  rewrite (rt_field_pydantic E gs (en i) c c' fd A B C D F), (IH (S i) Hr).
  destruct (rt_field E gs (en i) (TP.mk c' false) fd); [|reflexivity]. cbn [option_map].
  destruct (rt_fields E gs en (TP.mk c' false) (S i) fds); reflexivity.
Qed.

Lemma rt_class_pydantic E gs en c c' fds :
  Forall fd_pyd_ok fds ->
  rt_class E gs en (TP.mk c true) fds = option_map pyd_class (rt_class E gs en (TP.mk c' false) fds).
Proof.
  intros H. unfold rt_class. rewrite (rt_fields_pydantic E gs en c c' fds 0 H).
  destruct (rt_fields E gs en (TP.mk c' false) 0 fds); reflexivity.
Qed.

Lemma pyd_class_no_groups cd : no_groups cd = true -> pyd_class cd = cd.
Proof.
  destruct cd as [fs ng]. unfold no_groups, pyd_class. cbn [cfields cngroups]. intros H. f_equal.
  induction fs as [|f fs IH]; [reflexivity|]. cbn [forallb] in H. apply andb_true_iff in H as [H1 H2]. cbn [map].
  rewrite (IH H2). f_equal. unfold pyd_field. destruct (fgroup f); [discriminate | reflexivity].
Qed.

Lemma map_pyd_no_groups l : forallb no_groups l = true -> map pyd_class l = l.
Proof.
  induction l as [|cd l IH]; [reflexivity|]. cbn [forallb map]. intros H. apply andb_true_iff in H as [H1 H2].
  rewrite (pyd_class_no_groups _ H1), (IH H2). reflexivity.
Qed.

Definition cls_pyd_ok (x : list Ty.str * (nat -> nat) * list Ty.fdesc) : Prop := Forall fd_pyd_ok (snd x).

Lemma rt_schema_pydantic E c c' pre post ens cls :
  forallb no_groups pre = true -> forallb no_groups post = true -> Forall cls_pyd_ok cls ->
  rt_schema E (TP.mk c true) pre post ens cls = option_map pyd_schema (rt_schema E (TP.mk c' false) pre post ens cls).
Proof.
  intros Hpre Hpost H. unfold rt_schema.
  assert (G : rt_classes E (TP.mk c true) cls = option_map (map pyd_class) (rt_classes E (TP.mk c' false) cls)).
  { unfold rt_classes. induction H as [|[[gs en] fds] cls Hx Hc IH]; [reflexivity|]. unfold cls_pyd_ok in Hx. cbn [snd] in Hx.
    rewrite (rt_class_pydantic E gs en c c' fds Hx), IH.
    destruct (rt_class E gs en (TP.mk c' false) fds); [|reflexivity]. cbn [option_map].
    match goal with |- context [option_map (map pyd_class) ?X] => destruct X; reflexivity end. }
  rewrite G. destruct (rt_classes E (TP.mk c' false) cls) as [cds|]; [|reflexivity]. cbn [option_map].
  unfold pyd_schema. cbn [classes enums]. rewrite !map_app, (map_pyd_no_groups _ Hpre), (map_pyd_no_groups _ Hpost). reflexivity.
Qed.

(* ---------------- the corollary at the level of the property text ---------------- *)
From BP Require Import Model.Encode Model.Decode Model.Json Model.WellFormed.
From BP Require Import Proofs.C18BehBase Proofs.C18BehEnc Proofs.C18BehJson Proofs.C18BehJson2.

Lemma cls_pyd_ok_plain x : cls_pyd_ok x -> cls_ok false x.
Proof. unfold cls_pyd_ok, cls_ok. intros H. eapply Forall_impl; [|exact H]. intros fd (A & _). exact A. Qed.
Lemma cls_pyd_ok_pyd x : cls_pyd_ok x -> cls_ok true x.
Proof. unfold cls_pyd_ok, cls_ok. intros H. eapply Forall_impl; [|exact H]. intros fd (_ & A & _). exact A. Qed.

Theorem configurations E c0 pre post ens cls sc :
  forallb no_groups pre = true -> forallb no_groups post = true -> Forall cls_pyd_ok cls ->
  rt_schema E (TP.mk c0 false) pre post ens cls = Some sc -> wf_schema sc = true ->
  (forall c, rt_schema E (TP.mk c false) pre post ens cls = Some sc) /\
  (forall c, rt_schema E (TP.mk c true) pre post ens cls = Some (pyd_schema sc)) /\
  (forall o o', orel sc o o' -> sow_ok_obj o = true -> enc_obj (pyd_schema sc) o' = enc_obj sc o) /\
  (forall o o' cs incl, orel sc o o' -> to_json cs incl (pyd_schema sc) o' = to_json cs incl sc o).
Proof.
  intros Hpre Hpost H Hs W.
  assert (Hp : Forall (cls_ok false) cls) by (eapply Forall_impl; [|exact H]; apply cls_pyd_ok_plain).
  split; [|split; [|split]].
  - intros c. rewrite (rt_schema_typing_indep E c c0 false pre post ens cls Hp). exact Hs.
  - intros c. rewrite (rt_schema_pydantic E c c0 pre post ens cls Hpre Hpost H), Hs. reflexivity.
  - intros o o' R K. apply enc_obj_pydantic; assumption.
  - intros o o' cs incl R. apply to_json_pydantic; assumption.
Qed.

Theorem behaviour_typing_indep E c c' pyd pre post ens cls sc sc' :
  Forall (cls_ok pyd) cls ->
  rt_schema E (TP.mk c pyd) pre post ens cls = Some sc -> rt_schema E (TP.mk c' pyd) pre post ens cls = Some sc' ->
  sc' = sc /\ (forall o, enc_obj sc' o = enc_obj sc o) /\ (forall k bs, parse sc' k bs = parse sc k bs) /\
  (forall cs incl o, to_dict cs incl sc' o = to_dict cs incl sc o).
Proof.
  intros H Hs Hs'. rewrite (rt_schema_typing_indep E c c' pyd pre post ens cls H) in Hs. rewrite Hs in Hs'. injection Hs' as <-.
  repeat split.
Qed.
