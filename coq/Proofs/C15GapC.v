(* C15 gap closing, third group: from_dict reads what the REFERENCE writes for a Duration - "3s" for whole seconds and
   3 / 6 / 9 fractional digits - for every normal (seconds, nanos) pair; the part below a microsecond is dropped toward
   zero, as Duration.ToTimedelta does (table: header of Proofs/C15GapA.v, clause (6) gap d). *)
From BP Require Import Base.Prelude Model.Varint Model.Scalar Model.Time Spec.Varint Spec.Time.
From BP Require Import Proofs.BytesP Proofs.VarintP Proofs.ScalarP Proofs.TimeP.
From BP Require Import Model.C15GapDefs Proofs.C15GapA.
From Coq Require Import ZifyBool ZifyN.
Ltac Zify.zify_post_hook ::= Z.to_euclidean_division_equations.

Lemma pad_split3 k x : pad (S (S (S k))) x = pad k (x / 1000) ++ pad 3 x.
Proof.
  cbn [pad app]. replace (x / 10 / 10 / 10) with (x / 1000) by lia. rewrite <- !app_assoc. reflexivity.
Qed.

Lemma dec_tokens_int (neg : bool) S : 0 <= S ->
  dec_tokens ((if neg then [cMINUS] else []) ++ dec S) = Some (neg, dec S, []).
Proof.
  intros HS. unfold dec_tokens.
  assert (Hb : forall r0, r0 = dec S ->
    (let '(ip, r1) := span_digits r0 in
     let '(fp, r2) := match r1 with b :: r => if Byte.eqb b cDOT then span_digits r else ([], r1) | [] => ([], r1) end in
     if is_nil r2 && negb (is_nil (ip ++ fp)) then Some (neg, ip, fp) else None) = Some (neg, dec S, [])).
  { intros r0 ->. rewrite <- (app_nil_r (dec S)) at 1.
    rewrite span_digits_app by (try apply dec_digits; try exact HS; exact I).
    rewrite app_nil_r. pose proof (dec_nonempty S). destruct (dec S); [congruence|]. reflexivity. }
  destruct neg.
  - cbn [app]. change (Byte.eqb cMINUS cMINUS) with true. cbv iota. apply Hb. reflexivity.
  - cbn [app]. pose proof (dec_digits S HS) as Hd. pose proof (dec_nonempty S) as Hn.
    destruct (dec S) as [|b l] eqn:E; [congruence|].
    inversion Hd as [|? ? Hb' _]; subst.
    rewrite (digit_not b cMINUS Hb'), (digit_not b cPLUS Hb') by reflexivity.
    apply Hb. reflexivity.
Qed.

Lemma firstn6_pad6 y rest : firstn 6 (pad 6 y ++ rest) = pad 6 y.
Proof.
  rewrite firstn_app, pad_length. rewrite firstn_all2 by (rewrite pad_length; lia).
  cbn [Nat.sub firstn]. apply app_nil_r.
Qed.

(* the literal the reference writes, as betterproto's reader tokenises it; the first six fractional digits are the
   whole microseconds of the nanos *)
Lemma frac_tokens (neg : bool) S N : 0 <= S -> 0 <= N < 1000000000 ->
  exists fp, dec_tokens ((if neg then [cMINUS] else []) ++ dec S ++ frac N) = Some (neg, dec S, fp) /\
             dval (firstn 6 (fp ++ repeat c0 6)) = N / 1000.
Proof.
  intros HS HN. unfold frac.
  destruct (N mod 1000000000 =? 0) eqn:E1; [|destruct (N mod 1000000 =? 0) eqn:E2; [|destruct (N mod 1000 =? 0) eqn:E3]].
  - exists []. rewrite app_nil_r. split; [apply dec_tokens_int, HS|].
    replace N with 0 by lia. reflexivity.
  - exists (pad 3 (N / 1000000)). change (cDOT :: pad 3 (N / 1000000)) with ([cDOT] ++ pad 3 (N / 1000000)).
    split; [apply dec_tokens_shape, HS|].
    replace (firstn 6 (pad 3 (N / 1000000) ++ repeat c0 6)) with (pad 3 (N / 1000000) ++ [c0; c0; c0]).
    + change [c0; c0; c0] with ([c0] ++ [c0] ++ [c0]). rewrite !app_assoc.
      change c0 with (digit 0). rewrite !dval_snoc_digit by lia. rewrite dval_pad by lia.
      change (10 ^ Z.of_nat 3) with 1000. lia.
    + rewrite firstn_app, pad_length. rewrite firstn_all2 by (rewrite pad_length; lia). reflexivity.
  - exists (pad 6 (N / 1000)). change (cDOT :: pad 6 (N / 1000)) with ([cDOT] ++ pad 6 (N / 1000)).
    split; [apply dec_tokens_shape, HS|].
    rewrite firstn6_pad6, dval_pad by lia. change (10 ^ Z.of_nat 6) with 1000000. lia.
  - exists (pad 9 N). change (cDOT :: pad 9 N) with ([cDOT] ++ pad 9 N).
    split; [apply dec_tokens_shape, HS|].
    rewrite (pad_split3 6 N), <- app_assoc, firstn6_pad6, dval_pad by lia. change (10 ^ Z.of_nat 6) with 1000000. lia.
Qed.

Theorem parse_duration_reads_reference s n :
  dur_normal s n -> td_rangeb (dur_to_us s n) = true -> parse_duration (dur_json s n) = Ok (dur_to_us s n).
Proof.
  intros (Hn & Hp & Hm) R. unfold dur_json.
  set (neg := (s <? 0) || (n <? 0)).
  destruct (frac_tokens neg (Z.abs s) (Z.abs n) ltac:(lia) ltac:(lia)) as (fp & T & V).
  unfold parse_duration. rewrite !app_assoc, removelast_last, <- !app_assoc. rewrite T, V, dval_dec by lia.
  change (10 ^ 6) with 1000000. unfold timedelta_new.
  replace (0 * 1000000 + (if neg then - (Z.abs s * 1000000 + Z.abs n / 1000) else Z.abs s * 1000000 + Z.abs n / 1000))
    with (dur_to_us s n) by (unfold dur_to_us; subst neg; destruct ((s <? 0) || (n <? 0)) eqn:Hs; lia).
  unfold td_rangeb in R. replace (Z.abs (td_days (dur_to_us s n)) >? 999999999) with false by lia. reflexivity.
Qed.

(* nanoseconds below a microsecond are dropped toward zero; a span beyond timedelta's range is OverflowError *)
Lemma reads_reference_examples :
  parse_duration (dur_json 3 0) = Ok 3000000 /\ parse_duration (dur_json (-1) (-500000001)) = Ok (-1500000) /\
  parse_duration (dur_json 0 (-999)) = Ok 0 /\ parse_duration (dur_json 0 1999) = Ok 1 /\
  dur_json (-1) (-500000001) = [x2d; x31; x2e; x35; x30; x30; x30; x30; x30; x30; x30; x31; x73] /\
  dur_json 3 0 = [x33; x73].
Proof. vm_compute. repeat split. Qed.
