(* C04 (include_default_values generic, wfx schemas), object level (B), conclusion: for every good object m (with all
   plain sub-messages present when include_default_values=True), gnorm_obj incl m == m (Message.__eq__) and
   bytes(gnorm_obj incl m) = bytes(m).  Mirrors C04RtP4. *)
From BP Require Import Base.Prelude Model.Types Model.Varint Model.Scalar Model.Float Model.Utf8 Model.Object Model.Eq Model.TimeCore.
From BP Require Import Model.Encode Model.WellFormed Model.Json Model.C04RepWrap.
From BP Require Import gen.Tables Proofs.BytesP Proofs.C04Def Proofs.C04ScalarP Proofs.C04ElemP Proofs.C04FieldP Proofs.C04ObjP
  Proofs.C04CurP Proofs.C04EncP Proofs.C04RtP Proofs.C04RtP2 Proofs.C04RtP3 Proofs.C04InclDef Proofs.C04InclBaseP Proofs.C04InclFieldP
  Proofs.C04InclObjP Proofs.C04InclCurP Proofs.C04InclEncP Proofs.C04InclRtP Proofs.C04InclRtP2 Proofs.C04InclRtP3.
From Coq Require Import Lia ZifyBool.

Section Loops.
  Variable sc : schema.
  Variable incl : bool.
  Hypothesis WS : wfx_schema sc = true.

  Section Step.
    Variable n : nat.
    Hypothesis IHo : forall o', (pv_size (PMsg o') < n)%nat -> in_rangex sc o' = true -> pv_goodG incl sc (PMsg o') = true -> rt_okG incl sc o'.

    Lemma loops_rtG cur cur' ng raw : forall fs i,
      (forall k f, nth_error fs k = Some f -> group_selects cur' f (i + k) = group_selects cur f (i + k)) ->
      forallb (wfx_field sc ng) fs = true -> fields_okx sc raw fs = true -> forallb (pv_goodG incl sc) raw = true ->
      forallb field_nan_ok raw = true -> forallb (dict_cond sc) raw = true ->
      oneof_loop cur i raw fs = true -> lazy_loop sc cur i raw fs = true ->
      (forall x, In x raw -> (pv_size x < n)%nat) -> length raw = length fs ->
      eq_loop sc (gnorm_raw sc incl cur i raw fs) raw fs = true /\
      ((incl = true -> present_loop cur i raw fs = true) -> forallb (pv_presG incl sc) raw = true ->
       enc_loop sc cur' i (gnorm_raw sc incl cur i raw fs) fs = enc_loop sc cur i raw fs).
    Proof.
      induction raw as [|x raw IH]; intros fs i G W F Gd N D On Lz S L.
      - destruct fs; [split; reflexivity|discriminate L].
      - destruct fs as [|f fs]; [discriminate L|].
        cbn [forallb] in W, Gd, N, D. apply andb_prop in W as [W1 W2]. apply andb_prop in Gd as [G1 G2].
        apply andb_prop in N as [N1 N2]. apply andb_prop in D as [D1 D2].
        cbn [fields_okx] in F. apply andb_prop in F as [F1 F2].
        cbn [oneof_loop] in On. apply andb_prop in On as [O1 O2]. cbn [lazy_loop] in Lz. apply andb_prop in Lz as [L1 L2].
        cbn [length] in L. injection L as L.
        destruct (IH fs (Datatypes.S i)) as [IHq IHe]; try assumption.
        { intros k g Hk. assert (E : (Datatypes.S i + k = i + Datatypes.S k)%nat) by (clear; lia). rewrite E. exact (G (Datatypes.S k) g Hk). }
        { intros y Hy. apply S. right. exact Hy. }
        rewrite gnorm_raw_cons. cbn [enc_loop eq_loop]. rewrite IHq, andb_true_r.
        pose proof (G O f eq_refl) as G0. rewrite Nat.add_0_r in G0. rewrite G0.
        assert (SO : sel_okG f (group_selects cur f i) x).
        { unfold sel_okG. split; [|split].
          - unfold group_selects. intros ->. reflexivity.
          - intros g0 E. unfold group_selects. rewrite E. eauto.
          - intros s0 E. rewrite E in O1. apply eqb_prop in O1. exact O1. }
        assert (Sx : (pv_size x < n)%nat) by (apply S; left; reflexivity).
        split.
        + exact (head_eqG sc incl n WS IHo ng f _ x W1 SO Sx F1 G1 L1 N1 D1).
        + intros P Pd. cbn [forallb] in Pd. apply andb_prop in Pd as [Pd1 Pd2].
          assert (P2 : incl = true -> present_loop cur (Datatypes.S i) raw fs = true)
            by (intros E; specialize (P E); cbn [present_loop] in P; apply andb_prop in P as [_ P]; exact P).
          assert (P1 : incl = true -> present_cond (group_selects cur f i) f x = true)
            by (intros E; specialize (P E); cbn [present_loop] in P; apply andb_prop in P as [P _]; exact P).
          rewrite (IHe P2 Pd2).
          rewrite (head_encG sc incl n WS IHo ng f _ x W1 SO Sx F1 G1 L1 P1 Pd1). reflexivity.
    Qed.
  End Step.

  Lemma rt_ok_nG : forall n o, (pv_size (PMsg o) < n)%nat -> in_rangex sc o = true -> pv_goodG incl sc (PMsg o) = true -> rt_okG incl sc o.
  Proof.
    induction n as [|n IHn]; intros o Hs Hr Hg; [lia|].
    destruct o as [c raw s u g].
    destruct (in_rangex_unfold _ _ _ _ _ _ Hr) as [Hl [Hgl F]].
    unfold pv_goodG in Hg. rewrite pv_all_msg in Hg. apply andb_prop in Hg as [Hloc Hsub].
    unfold local_okG in Hloc. apply andb_prop in Hloc as [Hloc _].
    unfold local_ok in Hloc. apply andb_prop in Hloc as [Hloc Hdict]. apply andb_prop in Hloc as [Hloc Hone].
    apply andb_prop in Hloc as [Hloc Hnan]. apply andb_prop in Hloc as [Hunk Hlazy].
    cbn [ounk] in Hunk. destruct u as [|? ?]; [|discriminate Hunk].
    rewrite local_oneof_unfold in Hone. rewrite local_no_lazy_unfold in Hlazy.
    unfold local_nan_ok in Hnan. unfold local_dicts_ok in Hdict. cbn [oraw] in Hnan, Hdict.
    pose proof (wfx_fields sc c WS) as W.
    pose proof (group_selects_gnorm sc incl c g raw W Hgl Hl Hone F) as G.
    unfold rt_okG. rewrite gnorm_obj_unfold, post_init_unfold. unfold set_sow.
    destruct (loops_rtG n IHn g
                (cur_loop O (cfields (get_class sc c)) (gnorm_raw sc incl g O raw (cfields (get_class sc c)))
                          (repeat None (cngroups (get_class sc c))))
                (cngroups (get_class sc c)) raw (cfields (get_class sc c)) O) as [Q E]; try assumption.
    { intros x Hx. rewrite size_msg in Hs. pose proof (in_sum_size x raw Hx). lia. }
    split.
    - rewrite obj_eq_unfold, Nat.eqb_refl. exact Q.
    - intros Hp. destruct (pv_presG_msg incl sc c raw s [] g Hp) as [P Pd].
      rewrite !enc_obj_unfold. rewrite (E P Pd). reflexivity.
  Qed.

  (* (B) == *)
  Theorem gnorm_eq o : goodx sc o = true -> reach_ok incl sc o = true -> obj_eq sc (gnorm_obj incl sc o) o = true.
  Proof.
    intros G I. assert (GI : goodx sc o && reach_ok incl sc o = true) by (rewrite G, I; reflexivity).
    rewrite goodx_split in GI. apply andb_prop in GI as [Hr Hg].
    exact (proj1 (rt_ok_nG (S (pv_size (PMsg o))) o (Nat.lt_succ_diag_r _) Hr Hg)).
  Qed.

  (* (B) == and the bytes *)
  Theorem gnorm_faithful o : goodx sc o = true -> reach_ok incl sc o = true -> incl_ok incl sc o = true ->
    obj_eq sc (gnorm_obj incl sc o) o = true /\ enc_obj sc (gnorm_obj incl sc o) = enc_obj sc o.
  Proof.
    intros G I P. assert (GI : goodx sc o && reach_ok incl sc o = true) by (rewrite G, I; reflexivity).
    rewrite goodx_split in GI. apply andb_prop in GI as [Hr Hg].
    destruct (rt_ok_nG (S (pv_size (PMsg o))) o (Nat.lt_succ_diag_r _) Hr Hg) as [Q E].
    split; [exact Q|]. apply E. rewrite <- incl_ok_pres. exact P.
  Qed.
End Loops.
