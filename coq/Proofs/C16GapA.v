(* C16 - gap analysis of the property text against Properties/C16.v, and the first group of gap-closing proofs
   (the varint clauses; the scalar-kind clauses are in C16GapB.v).

   PROPERTY TEXT, clause by clause  ->  theorems that existed  ->  gap  ->  closed by (GapA = this file, GapB = C16GapB.v)

   (1) "For every integer in [-2**63, 2**64) encode_varint yields the canonical minimal base-128 encoding
        (negatives as 64-bit two's complement, 10 bytes)"
         -> C16_canonical (Spec.canonical: shape, value, no trailing zero group), C16_canonical_unique, C16_negative_ten_bytes.
         gap a: "minimal" is stated as "no trailing zero group", never as "no legal representation is shorter".
            -> GapA canonical_minimal / encode_minimal: every shaped byte string denoting the same number is at least as long,
               and one of the same length is the same string.
         gap b: "two's complement" makes the encoder non-injective across the two halves of the domain; no theorem says where
            the encoder IS injective.  -> GapA encode_collision (v and v + 2^64 give the same bytes, all v in [-2^63, 0)) and
            encode_inj (equal bytes iff congruent mod 2^64; hence injective on [0, 2^64) and on [-2^63, 2^63)).
         gap c: the upper bound 2**64 of the domain is a hypothesis of every theorem; nothing says it is needed.
            -> GapA upper_bound_refuted (2^64 is ENCODED, to 10 bytes, and read back as 2^64, not as 2^64 mod 2^64; 2^70 is
               encoded to 11 bytes which the decoder rejects), encode_above (the exact behaviour for every v >= 0: canonical
               encoding of v itself; it is accepted by load_varint iff v < 2^70).
   (2) "decode_varint / load_varint invert it and report the exact number of bytes consumed"
         -> C16_inverse_load, C16_inverse_decode (position = end of an arbitrary prefix), C16_load_any_rep, C16_load_sound.
         gap a: the other composition (decode, then encode) had no theorem.  -> GapA load_reencode: what load_varint accepts
            re-encodes to the SAME bytes iff it was minimal (exactly the padded forms are shortened), never to more bytes.
         gap b: decode_varint had only the success theorem at a valid position.  -> GapA decode_sound (whatever it accepts:
            new position strictly larger, at most 10 further, within the buffer, and the bytes between are a legal
            representation of the value), decode_neg_pos, decode_past_end (position at or beyond the end: EOFError),
            decode_total (four outcomes).
         gap c: range of the decoded value.  -> GapA load_value_range (0 <= v < 2^70) and load_wide_refuted: the decoder does NOT
            reduce to 64 bits - a ten-byte varint with high bits in its last byte yields a value >= 2^64 (the reference decoder
            masks with 2^64 - 1).  This is the decoder side of (1c); C17_uint64_wide_witness is its message-level consequence.
   (3) "size_varint equals the encoded length"  -> C16_size, C16_size_total (no hypothesis).  No gap.
   (4) "integers below -2**63 are rejected"  -> C16_reject_low.
         gap: converse ("only those").  -> GapA reject_iff: encode_varint / size_varint raise iff v < -2^63, and only ValueError.
   (5) "Decoding rejects varints longer than 10 bytes and signals premature end of input."
         -> C16_too_long, C16_eof (sufficient conditions), C16_load_total (three outcomes).
         gap: converses; with them the three outcomes are characterised exactly by the input.
            -> GapA too_long_iff, eof_iff, ok_iff.
   (6) "Zig-zag, fixed-width, float/double and bool encodings of each scalar type are byte-identical to the reference
        implementation's for every in-range value."  -> see the table in C16GapB.v.
   quantifier "for all byte strings of length <= 11 as decoder input": every decoder theorem here and in C16.v is for ALL byte
   strings.  "for all 15 scalar kinds": GapB. *)
From Coq Require Import ZArith List Bool Lia ZifyBool ZifyN.
From BP Require Import Base.Prelude Model.Varint Spec.Varint Proofs.BytesP Proofs.VarintP.
Import ListNotations.
Ltac Zify.zify_post_hook ::= Z.to_euclidean_division_equations.
Open Scope Z_scope.

(* ---------- (1a) minimality ---------- *)
Lemma canonical_zero_len bs : canonical 0 bs -> length bs = 1%nat.
Proof.
  intros (Sh & Va & [L|Ml]); [exact L|].
  pose proof (varint_value_lower bs (varint_shape_nonempty _ Sh) Ml (shape_last_lt _ Sh)) as Lo.
  pose proof (shape_length_pos _ Sh) as Lp.
  assert (0 < 128 ^ (Z.of_nat (length bs) - 1)) by (apply Z.pow_pos_nonneg; lia). lia.
Qed.

Theorem canonical_minimal n bs bs' :
  canonical n bs -> varint_shape bs' -> varint_value bs' = n ->
  (length bs <= length bs')%nat /\ (length bs' = length bs -> bs' = bs).
Proof.
  intros C Sh' Va'. split.
  - pose proof (shape_length_pos _ Sh') as Lp'.
    pose proof (varint_value_nonneg bs') as Nn. rewrite Va' in Nn.
    destruct (Z.eq_dec n 0) as [->|Hne].
    + rewrite (canonical_zero_len _ C). exact Lp'.
    + destruct (canonical_length_bounds _ _ C ltac:(lia)) as [Lo _].
      pose proof (varint_value_upper bs') as Up. rewrite Va' in Up.
      assert (Z.of_nat (length bs) - 1 < Z.of_nat (length bs')); [|lia].
      apply (Z.pow_lt_mono_r_iff 128); lia.
  - intros L. destruct C as (Sh & Va & _). apply shape_value_inj; try assumption. congruence.
Qed.

Theorem encode_minimal v bs bs' :
  - 2 ^ 63 <= v < 2 ^ 64 -> encode_varint v = Ok bs -> VarintRep (v mod 2 ^ 64) bs' ->
  (length bs <= length bs')%nat /\ (length bs' = length bs -> bs' = bs).
Proof.
  intros Hv E (Sh' & Va' & _). destruct (encode_in_range v Hv) as (b & E' & C & _).
  rewrite E in E'. injection E' as <-. exact (canonical_minimal _ _ _ C Sh' Va').
Qed.

(* ---------- (4) rejection, exactly ---------- *)
Theorem reject_iff v :
  (forall e, encode_varint v = Err e <-> (v < - 2 ^ 63 /\ e = EValue)) /\
  (forall e, size_varint v = Err e <-> (v < - 2 ^ 63 /\ e = EValue)).
Proof.
  unfold encode_varint, size_varint. destruct (Z.ltb_spec v (- 2 ^ 63)) as [H|H].
  - split; intros e; (split; [intros E; injection E as <-; split; [lia|reflexivity] | intros [_ ->]; reflexivity]).
  - split; intros e; (split; [|intros [? _]; lia]).
    + discriminate.
    + destruct (v <? 0); [discriminate|]. destruct (v =? 0); discriminate.
Qed.

(* ---------- (1b) where the encoder is injective ---------- *)
Theorem encode_collision v : - 2 ^ 63 <= v < 0 -> encode_varint v = encode_varint (v + 2 ^ 64).
Proof.
  intros Hv. unfold encode_varint.
  replace (v <? - 2 ^ 63) with false by lia. replace (v <? 0) with true by lia.
  replace (v + 2 ^ 64 <? - 2 ^ 63) with false by lia. replace (v + 2 ^ 64 <? 0) with false by lia.
  reflexivity.
Qed.

Theorem encode_inj v1 v2 :
  - 2 ^ 63 <= v1 < 2 ^ 64 -> - 2 ^ 63 <= v2 < 2 ^ 64 ->
  (encode_varint v1 = encode_varint v2 <-> v1 mod 2 ^ 64 = v2 mod 2 ^ 64).
Proof.
  intros H1 H2.
  destruct (encode_in_range v1 H1) as (b1 & E1 & C1 & _).
  destruct (encode_in_range v2 H2) as (b2 & E2 & C2 & _). unfold wrap64 in *.
  split.
  - intros E. rewrite E1, E2 in E. injection E as <-.
    destruct C1 as (_ & V1 & _), C2 as (_ & V2 & _). congruence.
  - intros M. rewrite E1, E2. f_equal. rewrite M in C1. exact (canonical_unique _ _ _ C1 C2).
Qed.

Corollary encode_inj_unsigned v1 v2 :
  0 <= v1 < 2 ^ 64 -> 0 <= v2 < 2 ^ 64 -> encode_varint v1 = encode_varint v2 -> v1 = v2.
Proof.
  intros H1 H2 E. apply encode_inj in E; lia.
Qed.

Corollary encode_inj_signed v1 v2 :
  - 2 ^ 63 <= v1 < 2 ^ 63 -> - 2 ^ 63 <= v2 < 2 ^ 63 -> encode_varint v1 = encode_varint v2 -> v1 = v2.
Proof.
  intros H1 H2 E. apply encode_inj in E; lia.
Qed.

(* ---------- (5) the three outcomes of load_varint, exactly ---------- *)
Definition ge128 (b : byte) : Prop := 128 <= Z_of_byte b.

Lemma load_go_toolong_conv n : forall shift acc raw s,
  load_go n shift acc raw s = Err ETooLong -> (n <= length s)%nat /\ Forall ge128 (firstn n s).
Proof.
  induction n as [|n IH]; intros shift acc raw s H; [cbn; split; [lia|constructor]|].
  cbn [load_go] in H. destruct s as [|b s']; [discriminate|].
  rewrite land_128 in H by apply Z_of_byte_range.
  destruct (Z_of_byte b <? 128) eqn:Hlt; cbn [Z.eqb] in H; [discriminate|].
  apply IH in H. destruct H as [Hl Hf]. cbn [length firstn]. split; [lia|].
  constructor; [unfold ge128; lia|exact Hf].
Qed.

Lemma load_go_eof_conv n : forall shift acc raw s,
  load_go n shift acc raw s = Err EEof -> (length s < n)%nat /\ Forall ge128 s.
Proof.
  induction n as [|n IH]; intros shift acc raw s H; [discriminate|].
  cbn [load_go] in H. destruct s as [|b s']; [cbn; split; [lia|constructor]|].
  rewrite land_128 in H by apply Z_of_byte_range.
  destruct (Z_of_byte b <? 128) eqn:Hlt; cbn [Z.eqb] in H; [discriminate|].
  apply IH in H. destruct H as [Hl Hf]. cbn [length]. split; [lia|].
  constructor; [unfold ge128; lia|exact Hf].
Qed.

Theorem too_long_iff s :
  load_varint s = Err ETooLong <-> ((10 <= length s)%nat /\ Forall ge128 (firstn 10 s)).
Proof.
  split; [apply load_go_toolong_conv|]. intros [Hl Hf]. apply load_go_toolong; assumption.
Qed.

Theorem eof_iff s :
  load_varint s = Err EEof <-> ((length s < 10)%nat /\ Forall ge128 s).
Proof.
  split; [apply load_go_eof_conv|]. intros [Hl Hf]. apply load_go_eof; assumption.
Qed.

(* accepted iff some prefix of at most ten bytes is a well-shaped varint; the result is then determined *)
Theorem ok_iff s :
  (exists x, load_varint s = Ok x) <->
  (exists bs rest, s = bs ++ rest /\ varint_shape bs /\ (length bs <= 10)%nat).
Proof.
  split.
  - intros [[[v raw] rest] H]. apply load_varint_sound in H. destruct H as (-> & Sh & _ & Le).
    exists raw, rest. auto.
  - intros (bs & rest & -> & Sh & Le). exists (varint_value bs, bs, rest).
    apply load_varint_rep. repeat split; assumption.
Qed.

(* no error other than these two *)
Theorem load_err_kinds s e : load_varint s = Err e -> e = EEof \/ e = ETooLong.
Proof.
  intros H. destruct (load_go_total 10 0 0 [] s) as [[x Hx]|[Hx|Hx]]; unfold load_varint in H;
    rewrite Hx in H; [discriminate| |]; injection H as <-; tauto.
Qed.

(* ---------- (2c) the range of a decoded value ---------- *)
Theorem load_value_range s v raw rest :
  load_varint s = Ok (v, raw, rest) ->
  0 <= v < 2 ^ 70 /\ v < 128 ^ Z.of_nat (length raw) /\ (1 <= length raw <= 10)%nat.
Proof.
  intros H. apply load_varint_sound in H. destruct H as (_ & Sh & Va & Le).
  pose proof (varint_value_nonneg raw) as Nn. pose proof (varint_value_upper raw) as Up.
  pose proof (shape_length_pos _ Sh) as Lp. rewrite Va in *.
  split; [|split; [exact Up|lia]]. split; [exact Nn|].
  apply Z.lt_le_trans with (1 := Up). change (2 ^ 70) with (128 ^ 10).
  apply Z.pow_le_mono_r; lia.
Qed.

Theorem load_wide_refuted :
  exists s v raw rest, load_varint s = Ok (v, raw, rest) /\ 2 ^ 64 <= v /\ length s = 10%nat.
Proof.
  exists [xff; xff; xff; xff; xff; xff; xff; xff; xff; x7f], (2 ^ 70 - 1),
         [xff; xff; xff; xff; xff; xff; xff; xff; xff; x7f], [].
  vm_compute. repeat split; congruence.
Qed.

(* ---------- (1c) above the domain ---------- *)
Lemma shape_firstn_ge128 bs : varint_shape bs -> forall k, (k < length bs)%nat -> Forall ge128 (firstn k bs).
Proof.
  induction bs as [|b r IH]; intros Sh k Hk; [cbn in Sh; tauto|].
  destruct k as [|k]; [constructor|]. cbn [firstn]. cbn [varint_shape] in Sh.
  destruct r as [|b' r']; [cbn in Hk; lia|]. destruct Sh as [Hb Sh'].
  constructor; [exact Hb|]. apply IH; [exact Sh'|cbn [length] in *; lia].
Qed.

Theorem encode_above v rest :
  0 <= v ->
  exists bs, encode_varint v = Ok bs /\ canonical v bs /\
    (v < 2 ^ 70 -> load_varint (bs ++ rest) = Ok (v, bs, rest)) /\
    (2 ^ 70 <= v -> (10 < length bs)%nat /\ load_varint (bs ++ rest) = Err ETooLong).
Proof.
  intros Hv. destruct (encode_nonneg_canonical v Hv) as (bs & E & C & _).
  exists bs. split; [exact E|]. split; [exact C|].
  pose proof C as (Sh & Va & _). pose proof (shape_length_pos _ Sh) as Lp. split.
  - intros Hlt. apply load_varint_rep. split; [exact Sh|]. split; [exact Va|].
    destruct (Z.eq_dec v 0) as [->|Hne]; [rewrite (canonical_zero_len _ C); lia|].
    destruct (canonical_length_bounds _ _ C ltac:(lia)) as [Lo _].
    assert (Z.of_nat (length bs) - 1 < 10); [|lia].
    apply (Z.pow_lt_mono_r_iff 128); [lia|lia|]. change (128 ^ 10) with (2 ^ 70). lia.
  - intros Hge.
    assert (Hl : (10 < length bs)%nat).
    { destruct (canonical_length_bounds _ _ C ltac:(lia)) as [_ Hi].
      assert (10 < Z.of_nat (length bs)); [|lia].
      apply (Z.pow_lt_mono_r_iff 128); [lia|lia|]. change (128 ^ 10) with (2 ^ 70). lia. }
    split; [exact Hl|]. apply too_long_iff. rewrite app_length. split; [lia|].
    rewrite firstn_app. replace (10 - length bs)%nat with 0%nat by lia. rewrite firstn_O, app_nil_r.
    apply shape_firstn_ge128; [exact Sh|exact Hl].
Qed.

Theorem upper_bound_refuted :
  (exists bs, encode_varint (2 ^ 64) = Ok bs /\ length bs = 10%nat /\ size_varint (2 ^ 64) = Ok 10 /\
              load_varint bs = Ok (2 ^ 64, bs, []) /\ 2 ^ 64 <> (2 ^ 64) mod 2 ^ 64) /\
  (exists bs, encode_varint (2 ^ 70) = Ok bs /\ length bs = 11%nat /\ load_varint bs = Err ETooLong).
Proof.
  split.
  - exists [x80; x80; x80; x80; x80; x80; x80; x80; x80; x02]. vm_compute. repeat split; congruence.
  - exists [x80; x80; x80; x80; x80; x80; x80; x80; x80; x80; x01]. vm_compute. repeat split; congruence.
Qed.

(* ---------- (2a) decode, then encode ---------- *)
Theorem load_reencode s v raw rest :
  load_varint s = Ok (v, raw, rest) ->
  exists bs, encode_varint v = Ok bs /\ (length bs <= length raw)%nat /\
             (bs = raw <-> (length raw = 1%nat \/ last raw x00 <> x00)).
Proof.
  intros H. apply load_varint_sound in H. destruct H as (_ & Sh & Va & Le).
  pose proof (varint_value_nonneg raw) as Nn. rewrite Va in Nn.
  destruct (encode_nonneg_canonical v Nn) as (bs & E & C & _).
  exists bs. split; [exact E|].
  destruct (canonical_minimal _ _ _ C Sh Va) as [Hle Heq]. split; [exact Hle|]. split.
  - intros <-. destruct C as (_ & _ & M). exact M.
  - intros M. apply (canonical_unique v); [exact C|]. repeat split; assumption.
Qed.

(* ---------- (2b) decode_varint on arbitrary (buffer, position) ---------- *)
Theorem decode_neg_pos buf pos : pos < 0 -> decode_varint buf pos = Err EValue.
Proof. intros H. unfold decode_varint. replace (pos <? 0) with true by lia. reflexivity. Qed.

Theorem decode_past_end buf pos : Zlength buf <= pos -> decode_varint buf pos = Err EEof.
Proof.
  intros H. unfold decode_varint. unfold Zlength in H.
  replace (pos <? 0) with false by lia.
  rewrite skipn_all2 by lia. reflexivity.
Qed.

Theorem decode_sound buf pos v p :
  decode_varint buf pos = Ok (v, p) ->
  0 <= pos /\ pos < p <= pos + 10 /\ p <= Zlength buf /\
  exists raw rest, skipn (Z.to_nat pos) buf = raw ++ rest /\ VarintRep v raw /\ p = pos + Zlength raw /\
                   load_varint (raw ++ rest) = Ok (v, raw, rest).
Proof.
  unfold decode_varint. destruct (Z.ltb_spec pos 0) as [Hn|Hn]; [discriminate|].
  destruct (load_varint (skipn (Z.to_nat pos) buf)) as [[[v' raw] rest]|e] eqn:L; cbn [bind]; [|discriminate].
  intros E. injection E as <- <-.
  pose proof (load_varint_sound _ _ _ _ L) as (Hs & R).
  pose proof R as (Sh & _ & Le). pose proof (shape_length_pos _ Sh) as Lp.
  assert (Hlen : (length raw + length rest = length buf - Z.to_nat pos)%nat).
  { rewrite <- app_length, <- Hs, skipn_length. reflexivity. }
  unfold Zlength.
  split; [lia|]. split; [lia|]. split; [lia|].
  exists raw, rest. rewrite <- Hs. auto.
Qed.

Theorem decode_total buf pos :
  (exists x, decode_varint buf pos = Ok x) \/ decode_varint buf pos = Err EValue \/
  decode_varint buf pos = Err EEof \/ decode_varint buf pos = Err ETooLong.
Proof.
  unfold decode_varint. destruct (pos <? 0); [tauto|].
  destruct (load_go_total 10 0 0 [] (skipn (Z.to_nat pos) buf)) as [[[[v raw] rest] Hx]|[Hx|Hx]];
    unfold load_varint; rewrite Hx; cbn [bind]; eauto.
Qed.
