(* C06, decoder side, part 1: Message.load without a size limit, restated as a loop over
   [apply_record] (one parsed field applied to the object).  [load_none] proves the restatement
   equal to Model/Decode.v's [load]: if the model's loop changes, this proof breaks. *)
From BP Require Import Base.Prelude Model.Types Model.Varint Model.Scalar Model.Float Model.Utf8.
From BP Require Import Model.Object Model.Eq Model.TimeCore Model.Decode.
From BP Require Import gen.Tables.

Section Loop.
  Variables (fuel' : nat) (sc : schema).

  Definition parse_new (c' : nat) (bs : list byte) : result obj :=
    do (o', _) <- load fuel' sc (new sc c') bs None; Ok o'.

  Definition post_len (t : ptype) (ety : pyty) (wraps : option ptype) (bs : list byte) : result pv :=
    if ptype_eqb t TString then
      if utf8_valid bs then Ok (PStr bs) else Err EUnicode
    else if ptype_eqb t TMessage then
      match ety, wraps with
      | PyDatetime, _ =>
          do m <- parse_new timestamp_cls bs;
          match snd (getattr sc m 0), snd (getattr sc m 1) with
          | Ok (PInt sec), Ok (PInt nan) => do us <- us_of_ts sec nan; Ok (PDatetime us)
          | _, _ => Err EType
          end
      | PyTimedelta, _ =>
          do m <- parse_new duration_cls bs;
          match snd (getattr sc m 0), snd (getattr sc m 1) with
          | Ok (PInt sec), Ok (PInt nan) => do us <- us_of_dur sec nan; Ok (PTimedelta us)
          | _, _ => Err EType
          end
      | _, Some w =>
          match wrapper_cls w with
          | None => Err EKey
          | Some wc => do m <- parse_new wc bs; snd (getattr sc m 0)
          end
      | PyMsg c', None => do m <- parse_new c' bs; Ok (mark_sow (PMsg m))
      | _, None => Err EType
      end
    else Ok (PBytes bs).

  (* the value a parsed field denotes for field f *)
  Definition record_value (f : fdesc) (p : parsed) : result pv :=
    if (pwt p =? WIRE_LEN_DELIM) && tmem (fty f) PACKED_TYPES then
      do l <- unpack_packed (S (length (pbytes p))) (fty f) (pbytes p); Ok (PList l)
    else if pwt p =? WIRE_VARINT then Ok (postprocess_varint (fty f) (pint p))
    else if (pwt p =? WIRE_FIXED_32) || (pwt p =? WIRE_FIXED_64) then unpack_value (fty f) (pbytes p)
    else if ptype_eqb (fty f) TMap then
      do e <- parse_new (fentry f) (pbytes p); Ok (PMsg e)
    else post_len (fty f) (hint_elem (fhint f)) (fwraps f) (pbytes p).

  (* current = getattr(self, name), or the default assigned when the oneof member is not selected *)
  Definition fetch (o : obj) (i : nat) (f : fdesc) : obj * pv :=
    match getattr sc o i with
    | (o', Ok cur_v) => (o', cur_v)
    | (_, Err _) => let d := default_of sc f in (setattr sc o i d, d)
    end.

  Definition store (o : obj) (i : nat) (f : fdesc) (value : pv) : result obj :=
    let '(o, current) := fetch o i f in
    let 'Obj c raw sow unk cur := o in
    if ptype_eqb (fty f) TMap then
      match value, current with
      | PMsg e, PDict d =>
          match getattr sc e 0, getattr sc e 1 with
          | (_, Ok k), (_, Ok v) => Ok (Obj c (set_nth i (PDict (dict_set d sc k v)) raw) sow unk cur)
          | _, _ => Err EAttribute
          end
      | _, _ => Err EType
      end
    else
      match current with
      | PList l =>
          let l' := match value with PList vs => l ++ vs | _ => l ++ [value] end in
          Ok (Obj c (set_nth i (PList l') raw) sow unk cur)
      | _ => Ok (setattr sc o i value)
      end.

  Definition add_unknown (o : obj) (bs : list byte) : obj :=
    let 'Obj c raw sow unk cur := o in Obj c raw sow (unk ++ bs) cur.

  Definition apply_record (cd : cdesc) (o : obj) (p : parsed) : result obj :=
    match field_by_number cd (pnum p) with
    | None => Ok (add_unknown o (praw p))
    | Some (i, f) =>
        if negb (wire_type_fits f (pwt p)) then Ok (add_unknown o (praw p))
        else do value <- record_value f p; store o i f value
    end.

  Fixpoint my_loop (cd : cdesc) (n : nat) (o : obj) (s : list byte) : result (obj * list byte) :=
    match n with
    | O => Err EFuel
    | S n' =>
        match s with
        | [] => Ok (o, s)
        | _ =>
            do (num_wire, r, s1) <- load_varint s;
            do (p, s2) <- load_field fuel' s1 num_wire r;
            do o' <- apply_record cd o p;
            my_loop cd n' o' s2
        end
    end.
End Loop.

Definition mark_received (o : obj) : obj := let 'Obj c raw _ unk cur := o in Obj c raw true unk cur.

Lemma load_none fuel' sc o s :
  load (S fuel') sc o s None =
  my_loop fuel' sc (get_class sc (ocls o)) (S (length s)) (mark_received o) s.
Proof.
  destruct o as [c raw sow unk cur]. cbn [load bind ocls mark_received].
  match goal with |- context [?F (length s) _ _ _] => set (L := F) end.
  assert (H : forall n s rd o, L n o s rd = my_loop fuel' sc (get_class sc c) n o s);
    [|exact (H (S (length s)) s 0 (Obj c raw true unk cur))].
  clear s raw sow unk cur.
  induction n as [|n IH]; intros s rd o; [reflexivity|].
  destruct s as [|b s]; [reflexivity|].
  cbn [my_loop]. unfold L at 1. cbn beta iota zeta. fold L.
  destruct (load_varint (b :: s)) as [[[num_wire r] s1]|] eqn:Ev; cbn [bind]; [|reflexivity].
  destruct (load_field fuel' s1 num_wire r) as [[p s2]|] eqn:Ef; cbn [bind]; [|reflexivity].
  unfold apply_record. destruct o as [c0 raw sow unk cur].
  destruct (field_by_number (get_class sc c) (pnum p)) as [[i f]|]; [|cbn [add_unknown bind]; apply IH].
  destruct (negb (wire_type_fits f (pwt p))); [cbn [add_unknown bind]; apply IH|].
  unfold record_value, post_len, parse_new.
  match goal with |- (do _ <- ?V; _) = _ => destruct V as [value|] end; cbn [bind]; [|reflexivity].
  unfold store, fetch.
  destruct (getattr sc (Obj c0 raw sow unk cur) i) as [o1 [cv|e]].
  - destruct o1 as [c1 raw1 sow1 unk1 cur1].
    destruct (ptype_eqb (fty f) TMap).
    + destruct value as [| | | | | | | | | | |em]; try reflexivity. destruct cv; try reflexivity.
      destruct (getattr sc em 0) as [? [k|]]; try reflexivity.
      destruct (getattr sc em 1) as [? [v|]]; try reflexivity. apply IH.
    + destruct cv; try apply IH.
  - destruct (setattr sc (Obj c0 raw sow unk cur) i (default_of sc f)) as [c1 raw1 sow1 unk1 cur1].
    destruct (ptype_eqb (fty f) TMap).
    + destruct value as [| | | | | | | | | | |em]; try reflexivity. destruct (default_of sc f); try reflexivity.
      destruct (getattr sc em 0) as [? [k|]]; try reflexivity.
      destruct (getattr sc em 1) as [? [v|]]; try reflexivity. apply IH.
    + destruct (default_of sc f); try apply IH.
Qed.
