(* C10, part 1: Message.load (Model/Decode.v) taken apart.

   [load] is one Fixpoint with a nested loop and local closures.  Here the SAME terms are
   given names, parameterised by the two things that depend on the fuel:
     lf  = load_field fuel'                     (reader of one record)
     pn  = fun c bs => cls().parse(bs)          (recursive parse of a nested payload)
   [load_unfold] / [load_field_unfold] are proved by [reflexivity]: the named pieces are
   convertible with the text of Model/Decode.v, so nothing here is a second model — if
   Decode.v changes shape these two lemmas stop compiling. *)
From BP Require Import Base.Prelude Model.Types Model.Varint Model.Scalar Model.Float Model.Utf8.
From BP Require Import Model.Object Model.Eq Model.TimeCore Model.Decode.
From BP Require Import gen.Tables.

Definition reader := list byte -> Z -> list byte -> result (parsed * list byte).

(* ---- the group loop of _load_field ---- *)
Section Group.
  Variable lf : reader.
  Variables number wire_type : Z.
  Fixpoint group_g (n : nat) (s raw : list byte) {struct n} : result (parsed * list byte) :=
    match n with
    | O => Err EFuel
    | S n' =>
        do (inner, r, s1) <- load_varint s;
        if Z.land inner 7 =? WIRE_END_GROUP then
          if Z.shiftr inner 3 =? number then Ok (mkP number wire_type 0 [] (raw ++ r), s1)
          else Err EValue
        else
          do (p, s2) <- lf s1 inner (raw ++ r);
          group_g n' s2 (praw p)
    end.
End Group.

Definition load_field_body (fuel : nat) (s : list byte) (num_wire : Z) (raw : list byte)
  : result (parsed * list byte) :=
  let number := Z.shiftr num_wire 3 in
  let wire_type := Z.land num_wire 7 in
  if number =? 0 then Err EValue
  else if wire_type =? WIRE_VARINT then
    do (v, r, s') <- load_varint s; Ok (mkP number wire_type v [] (raw ++ r), s')
  else if wire_type =? WIRE_FIXED_64 then
    do (d, s') <- read_exactly s 8; Ok (mkP number wire_type 0 d (raw ++ d), s')
  else if wire_type =? WIRE_LEN_DELIM then
    do (len, r, s1) <- load_varint s;
    do (d, s') <- read_exactly s1 len;
    Ok (mkP number wire_type 0 d (raw ++ r ++ d), s')
  else if wire_type =? WIRE_FIXED_32 then
    do (d, s') <- read_exactly s 4; Ok (mkP number wire_type 0 d (raw ++ d), s')
  else if wire_type =? WIRE_START_GROUP then
    match fuel with
    | O => Err EFuel
    | S fuel' => group_g (load_field fuel') number wire_type fuel s raw
    end
  else Err EValue.

Lemma load_field_unfold fuel s num_wire raw :
  load_field fuel s num_wire raw = load_field_body fuel s num_wire raw.
Proof. destruct fuel; reflexivity. Qed.

(* ---- the pieces of Message.load ---- *)
Section Pieces.
  Variable sc : schema.
  Variable pn : nat -> list byte -> result obj.     (* parse_new *)

  (* the WIRE_LEN_DELIM branch of _postprocess_single for a non-packed field *)
  Definition post_len_g (f : fdesc) (t : ptype) (ety : pyty) (wraps : option ptype) (bs : list byte) : result pv :=
    if ptype_eqb t TString then
      if utf8_valid bs then Ok (PStr bs) else Err EUnicode
    else if ptype_eqb t TMessage then
      match ety, wraps with
      | PyDatetime, _ =>
          do m <- pn timestamp_cls bs;
          match snd (getattr sc m 0), snd (getattr sc m 1) with
          | Ok (PInt sec), Ok (PInt nan) => do us <- us_of_ts sec nan; Ok (PDatetime us)
          | _, _ => Err EType
          end
      | PyTimedelta, _ =>
          do m <- pn duration_cls bs;
          match snd (getattr sc m 0), snd (getattr sc m 1) with
          | Ok (PInt sec), Ok (PInt nan) => do us <- us_of_dur sec nan; Ok (PTimedelta us)
          | _, _ => Err EType
          end
      | _, Some w =>
          match wrapper_cls w with
          | None => Err EKey
          | Some wc => do m <- pn wc bs; snd (getattr sc m 0)
          end
      | PyMsg c', None => do m <- pn c' bs; Ok (mark_sow (PMsg m))
      | _, None => Err EType
      end
    else Ok (PBytes bs).

  (* everything the loop body does with one parsed record, in continuation-passing form
     exactly as the code has it (`continue` = "if read == size: break", else next record) *)
  Definition dispatch {R} (cd : cdesc) (o : obj) (p : parsed) (continue : obj -> result R) : result R :=
    let 'Obj c raw sow unk cur := o in
    match field_by_number cd (pnum p) with
    | None => continue (Obj c raw sow (unk ++ praw p) cur)
    | Some (i, f) =>
        if negb (wire_type_fits f (pwt p)) then continue (Obj c raw sow (unk ++ praw p) cur)
        else
          do value <-
            (if (pwt p =? WIRE_LEN_DELIM) && tmem (fty f) PACKED_TYPES then
               do l <- unpack_packed (Datatypes.S (length (pbytes p))) (fty f) (pbytes p); Ok (PList l)
             else if pwt p =? WIRE_VARINT then Ok (postprocess_varint (fty f) (pint p))
             else if (pwt p =? WIRE_FIXED_32) || (pwt p =? WIRE_FIXED_64) then unpack_value (fty f) (pbytes p)
             else if ptype_eqb (fty f) TMap then
               do e <- pn (fentry f) (pbytes p); Ok (PMsg e)
             else post_len_g f (fty f) (hint_elem (fhint f)) (fwraps f) (pbytes p));
          let '(o, current) :=
            match getattr sc o i with
            | (o', Ok cur_v) => (o', cur_v)
            | (_, Err _) => let d := default_of sc f in (setattr sc o i d, d)
            end in
          let 'Obj c raw sow unk cur := o in
          if ptype_eqb (fty f) TMap then
            match value, current with
            | PMsg e, PDict d =>
                match getattr sc e 0, getattr sc e 1 with
                | (_, Ok k), (_, Ok v) => continue (Obj c (set_nth i (PDict (dict_set d sc k v)) raw) sow unk cur)
                | _, _ => Err EAttribute
                end
            | _, _ => Err EType
            end
          else
            match current with
            | PList l =>
                let l' := match value with PList vs => l ++ vs | _ => l ++ [value] end in
                continue (Obj c (set_nth i (PList l') raw) sow unk cur)
            | _ => continue (setattr sc o i value)
            end
    end.

  Variable lf : reader.                              (* load_field fuel' *)
  Variable cd : cdesc.
  Variable size : option Z.

  Fixpoint loop_g (n : nat) (o : obj) (s : list byte) (read : Z) {struct n} : result (obj * list byte) :=
    match n with
    | O => Err EFuel
    | S n' =>
        match s with
        | [] =>
            match size with
            | Some sz => if read <? sz then Err EValue else Ok (o, s)
            | None => Ok (o, s)
            end
        | _ =>
            do (num_wire, r, s1) <- load_varint s;
            do (p, s2) <- lf s1 num_wire r;
            do read <- match size with
                       | Some sz => let read' := read + Zlength (praw p) in
                                    if sz <? read' then Err EValue else Ok read'
                       | None => Ok read
                       end;
            let finished := match size with Some sz => read =? sz | None => false end in
            let continue (o : obj) := if finished then Ok (o, s2) else loop_g n' o s2 read in
            dispatch cd o p continue
        end
    end.
End Pieces.

Definition pn_of (fuel : nat) (sc : schema) : nat -> list byte -> result obj :=
  fun c' bs => do (o', _) <- load fuel sc (new sc c') bs None; Ok o'.

Definition read_prefix (size : option Z) (s : list byte) : result (option Z * list byte) :=
  match size with
  | Some n => if n =? SIZE_DELIMITED
              then do (n', _, s') <- load_varint s; Ok (Some n', s')
              else Ok (Some n, s)
  | None => Ok (None, s)
  end.

Definition load_body (fuel' : nat) (sc : schema) (o : obj) (s : list byte) (size : option Z)
  : result (obj * list byte) :=
  do (size, s) <- read_prefix size s;
  let 'Obj c raw _ unk cur := o in
  let o := Obj c raw true unk cur in
  match size with
  | Some 0 => Ok (o, s)
  | _ => loop_g sc (pn_of fuel' sc) (load_field fuel') (get_class sc c) size (Datatypes.S (length s)) o s 0
  end.

Lemma load_unfold fuel' sc o s size :
  load (Datatypes.S fuel') sc o s size = load_body fuel' sc o s size.
Proof.
  (* [reflexivity] succeeds too; the conversion costs ~17 s and would be run twice (tactic + Qed).
     Qed type-checks the term in the kernel, which is the whole proof. *)
  exact_no_check (eq_refl (load_body fuel' sc o s size)).
Qed.
