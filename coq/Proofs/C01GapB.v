(* C01 gap closing, part B: the witness of clause (1a) of the table in Proofs/C01GapA.v - c01_schema_ok admits every field kind
   the property text lists, and c01_value_ok every corner value the quantifier lists; the property holds of it (evaluated). *)
From Coq Require Import ZArith List Bool Lia.
From BP Require Import Base.Prelude Model.Types Model.Object Model.Eq Model.Encode Model.Decode Model.WellFormed Model.C01Def
     Model.C01GapDef gen.Tables.
Import ListNotations.

Lemma all_kinds_schema :
  c01_schema_ok gk_schema = true /\ length gk_fields = 92%nat /\ length (classes gk_schema) = 24%nat /\
  forallb (fun t => existsb (fun f => ptype_eqb (fty f) t && match fhint f with HPlain _ => negb (is_some (fgroup f)) | _ => false end) gk_fields &&
                    existsb (fun f => ptype_eqb (fty f) t && match fhint f with HList _ => true | _ => false end) gk_fields &&
                    existsb (fun f => ptype_eqb (fty f) t && fopt f) gk_fields &&
                    existsb (fun f => ptype_eqb (fty f) t && is_some (fgroup f)) gk_fields) scalar_ptypes = true /\
  forallb (fun w => existsb (fun f => opt_eqb ptype_eqb (fwraps f) (Some w)) gk_fields) wrapper_types = true /\
  forallb (fun k => negb (map_key_ok k) ||
                    existsb (fun f => match fmap f with Some (kt, _) => ptype_eqb kt k | None => false end) gk_fields) scalar_ptypes = true.
Proof. vm_compute. repeat split; reflexivity. Qed.

Lemma all_kinds_value :
  c01_value_ok gk_schema gk_obj = true /\ sow_ok gk_schema gk_obj = true /\ deep nan_free (PMsg gk_obj) = true /\
  c01_holds gk_schema gk_obj = true /\
  which_one_of (norm_obj gk_schema gk_obj) 0 = Some gk_selected /\
  match enc_obj gk_schema gk_obj with
  | Ok bs => parse gk_schema 11 bs = Ok (norm_obj gk_schema gk_obj) /\ (400 < length bs)%nat
  | Err _ => False
  end /\
  c01_value_ok gk_schema gk_empty = true /\ c01_holds gk_schema gk_empty = true /\ enc_obj gk_schema gk_empty = Ok [].
Proof. vm_compute. repeat split; reflexivity || lia || (repeat constructor). Qed.
