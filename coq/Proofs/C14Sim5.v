(* C14 / commutation, part 5 - every operation of the history alphabet (Model/History.v [op]: assignment and read
   through any path, parse into the object, copy, deepcopy, pickle, bytes, len, dump, ==, bool) respects [mat]; hence
   whole histories do, and a copy / deep copy - which IS a materialisation of the original - behaves under every
   later history exactly as the original would, up to lazily created defaults that nothing can observe. *)
From BP Require Import Base.Prelude Model.Types Model.Float Model.Object Model.Eq Model.Encode Model.Decode Model.History Model.C14Ops.
From BP Require Import Model.WellFormed Proofs.BytesP Proofs.C14Ind Proofs.C14Mat Proofs.C14Eq Proofs.C14Enc Proofs.C14Obs Proofs.C14Pres
     Proofs.C14Refl Proofs.C14Thm.
From BP Require Import Proofs.C14Sim1 Proofs.C14Sim2 Proofs.C14Sim3 Proofs.C14Sim4.
From Coq Require Import Lia.

Definition out_rel (sc : schema) (a b : out) : Prop :=
  match a, b with
  | ONone, ONone => True
  | OVal r, OVal r' => res_rel sc r r'          (* same error, or values related by [mat] *)
  | OBytesOut r, OBytesOut r' => r = r'
  | OZ r, OZ r' => r = r'
  | OB x, OB y => x = y
  | _, _ => False
  end.

Definition step_rel (sc : schema) (r r' : result (obj * out)) : Prop :=
  match r, r' with
  | Ok (a, x), Ok (b, y) => mat_obj sc a b = true /\ out_rel sc x y
  | Err e, Err e' => e = e'
  | _, _ => False
  end.

Lemma run_app sc : forall a b o, run sc o (a ++ b) = (do o1 <- run sc o a; run sc o1 b).
Proof.
  induction a as [|p a IH]; intros b o; [reflexivity|]. cbn [app run].
  destruct (step sc o p) as [[o1 x]|e]; cbn [bind]; [apply IH | reflexivity].
Qed.

Section Wf.
  Variable sc : schema.
  Hypothesis Hwf : wf_schema sc = true.
  Let Hopt : schema_opt_ok sc = true := wf_schema_opt_ok sc Hwf.

  Theorem step_respects_mat o o' p :
    mat_obj sc o o' = true -> step_rel sc (step sc o p) (step sc o' p).
  Proof.
    intros H. destruct (mat_indistinguishable sc Hwf o o' H) as (He & Heq & Hb & _ & _ & _).
    destruct p as [path i v|path i|bs| | | | | |d|other|]; cbn [step].
    - pose proof (set_in_sim sc path o o' i v H) as Hs.
      destruct (set_in sc o path i v) as [a|e], (set_in sc o' path i v) as [b|e']; cbn [res_obj_rel bind step_rel] in *;
        try contradiction; [split; [exact Hs | exact I] | exact Hs].
    - destruct (get_in_sim sc path o o' i H) as (H1 & H2).
      destruct (get_in sc o path i) as [a r], (get_in sc o' path i) as [b r']. cbn [fst snd step_rel out_rel] in *. split; assumption.
    - pose proof (parse_into_sim sc o o' bs H) as Hs.
      destruct (parse_into sc o bs) as [a|e], (parse_into sc o' bs) as [b|e']; cbn [res_obj_rel bind step_rel] in *;
        try contradiction; [split; [exact Hs | exact I] | exact Hs].
    - cbn [step_rel out_rel]. split; [apply (copy_mono sc Hopt); exact H | exact I].
    - cbn [step_rel out_rel]. split; [apply (deepcopy_mono sc Hopt); exact H | exact I].
    - rewrite (pickle_of_mat sc Hwf o o' H). destruct (pickle_rt sc o) as [a|e]; cbn [bind step_rel out_rel]; [|reflexivity].
      split; [apply mat_obj_refl | exact I].
    - rewrite He. destruct (enc_obj sc o) as [bs|e]; cbn [bind step_rel out_rel]; [|reflexivity].
      split; [apply (touch_mono sc Hopt); exact H | reflexivity].
    - rewrite He. destruct (enc_obj sc o) as [bs|e]; cbn [bind step_rel out_rel]; [|reflexivity].
      split; [apply (touch_mono sc Hopt); exact H | reflexivity].
    - rewrite He. destruct (enc_obj sc o) as [bs|e]; cbn [bind step_rel out_rel]; [|reflexivity].
      split; [apply (touch_mono sc Hopt); exact H | reflexivity].
    - cbn [step_rel out_rel]. split; [exact H|]. symmetry. apply (proj1 (Heq other)).
    - cbn [step_rel out_rel]. split; [exact H|]. symmetry. exact Hb.
  Qed.

  Theorem run_respects_mat : forall ops o o',
    mat_obj sc o o' = true -> res_obj_rel sc (run sc o ops) (run sc o' ops).
  Proof.
    induction ops as [|p ops IH]; intros o o' H; [exact H|]. cbn [run].
    pose proof (step_respects_mat o o' p H) as Hs.
    destruct (step sc o p) as [[a x]|e], (step sc o' p) as [[b y]|e']; cbn [step_rel bind res_obj_rel] in *;
      try contradiction; [apply IH; exact (proj1 Hs) | exact Hs].
  Qed.

  (* the final states of the two runs cannot be told apart *)
  Definition hist_rel (r r' : result obj) : Prop :=
    match r, r' with
    | Ok a, Ok b => mat_obj sc a b = true /\ indistinguishable sc a b
    | Err e, Err e' => e = e'
    | _, _ => False
    end.

  Lemma res_obj_hist r r' : res_obj_rel sc r r' -> hist_rel r r'.
  Proof.
    destruct r as [a|e], r' as [b|e']; cbn [res_obj_rel hist_rel]; try contradiction; auto.
    intros H. split; [exact H | apply (mat_indistinguishable sc Hwf); exact H].
  Qed.

  Theorem copy_commutes o ops :
    shaped_top sc o = true -> hist_rel (run sc o ops) (run sc (copy sc o) ops).
  Proof. intros Hs. apply res_obj_hist. apply run_respects_mat. apply (copy_mat sc Hopt o Hs). Qed.

  Theorem deepcopy_commutes o ops :
    shaped_obj sc o = true -> hist_rel (run sc o ops) (run sc (deepcopy sc o) ops).
  Proof. intros Hs. apply res_obj_hist. apply run_respects_mat. apply (deepcopy_mat sc Hopt o Hs). Qed.

  Theorem copy_step_commutes o p :
    shaped_top sc o = true -> step_rel sc (step sc o p) (step sc (copy sc o) p).
  Proof. intros Hs. apply step_respects_mat. apply (copy_mat sc Hopt o Hs). Qed.

  Theorem deepcopy_step_commutes o p :
    shaped_obj sc o = true -> step_rel sc (step sc o p) (step sc (deepcopy sc o) p).
  Proof. intros Hs. apply step_respects_mat. apply (deepcopy_mat sc Hopt o Hs). Qed.

  (* observers first, then the copy, then any history *)
  Theorem copy_after_observers_commutes o bs ops :
    shaped_top sc (observe_all sc o bs) = true ->
    hist_rel (run sc o ops) (run sc (copy sc (observe_all sc o bs)) ops).
  Proof.
    intros Hs. apply res_obj_hist. apply run_respects_mat.
    eapply mat_obj_trans; [apply observe_all_mat | apply (copy_mat sc Hopt _ Hs)].
  Qed.

  Theorem deepcopy_after_observers_commutes o bs ops :
    shaped_obj sc (observe_all sc o bs) = true ->
    hist_rel (run sc o ops) (run sc (deepcopy sc (observe_all sc o bs)) ops).
  Proof.
    intros Hs. apply res_obj_hist. apply run_respects_mat.
    eapply mat_obj_trans; [apply observe_all_mat | apply (deepcopy_mat sc Hopt _ Hs)].
  Qed.

  (* a copy / deepcopy taken at ANY point of a history is invisible to the rest of the history *)
  Theorem copy_anywhere o ops1 o1 ops2 :
    run sc o ops1 = Ok o1 -> shaped_top sc o1 = true ->
    hist_rel (run sc o (ops1 ++ ops2)) (run sc o (ops1 ++ OCopy :: ops2)).
  Proof.
    intros Hr Hs. rewrite !run_app, Hr. cbn [bind run step]. apply res_obj_hist. apply run_respects_mat.
    apply (copy_mat sc Hopt o1 Hs).
  Qed.

  Theorem deepcopy_anywhere o ops1 o1 ops2 :
    run sc o ops1 = Ok o1 -> shaped_obj sc o1 = true ->
    hist_rel (run sc o (ops1 ++ ops2)) (run sc o (ops1 ++ ODeepcopy :: ops2)).
  Proof.
    intros Hr Hs. rewrite !run_app, Hr. cbn [bind run step]. apply res_obj_hist. apply run_respects_mat.
    apply (deepcopy_mat sc Hopt o1 Hs).
  Qed.

  (* observers anywhere in a history are invisible to the rest of it *)
  Theorem observers_anywhere o ops1 o1 bs ops2 :
    run sc o ops1 = Ok o1 ->
    hist_rel (run sc o (ops1 ++ ops2)) (do o2 <- run sc o ops1; run sc (observe_all sc o2 bs) ops2).
  Proof.
    intros Hr. rewrite run_app, Hr. cbn [bind]. apply res_obj_hist. apply run_respects_mat. apply observe_all_mat.
  Qed.
End Wf.
