(* C01 layer 4b — bookkeeping for the message-level induction: enc_obj / norm_obj / in_range / the
   side conditions unfolded into named per-slot functions (each unfolding lemma is [reflexivity] or a
   plain induction against the anonymous fix of the model), what wf_field says per hint, and the
   induction principle over the nested value type. *)
From Coq Require Import ZArith List Bool Lia ZifyBool.
From BP Require Import Base.Prelude Model.Types Model.Varint Model.Scalar Model.Float Model.Utf8.
From BP Require Import Model.Object Model.Eq Model.TimeCore Model.Encode Model.Decode Model.WellFormed Model.C01Def.
From BP Require Import gen.Tables.

(* ---------- induction over nested values ---------- *)
Section ObjInd.
  Variable P : obj -> Prop.
  Definition elemP (v : pv) : Prop := match v with PMsg o => P o | _ => True end.
  Definition subP (v : pv) : Prop :=
    match v with
    | PMsg o => P o
    | PList l => Forall elemP l
    | PDict d => Forall (fun kv => elemP (snd kv)) d
    | _ => True
    end.
  Hypothesis Hstep : forall c raw s u g, Forall subP raw -> P (Obj c raw s u g).

  Fixpoint obj_nested_ind (o : obj) : P o :=
    match o with
    | Obj c raw s u g =>
        Hstep c raw s u g
          ((fix go (l : list pv) : Forall subP l :=
              match l with
              | [] => Forall_nil _
              | x :: r => Forall_cons x (pv_nested_ind x) (go r)
              end) raw)
    end
  with pv_nested_ind (v : pv) : subP v :=
    match v return subP v with
    | PMsg o => obj_nested_ind o
    | PList l =>
        (fix go (l : list pv) : Forall elemP l :=
           match l with
           | [] => Forall_nil _
           | y :: r => Forall_cons y (match y return elemP y with PMsg o => obj_nested_ind o | _ => I end) (go r)
           end) l
    | PDict d =>
        (fix go (d : list (pv * pv)) : Forall (fun kv => elemP (snd kv)) d :=
           match d with
           | [] => Forall_nil _
           | kv :: r =>
               Forall_cons kv
                 (match kv return elemP (snd kv) with
                  | (_, y) => match y return elemP y with PMsg o => obj_nested_ind o | _ => I end
                  end) (go r)
           end) d
    | _ => I
    end.
End ObjInd.

(* ---------- enc_obj, slot by slot ---------- *)
Definition enc_slot (sc : schema) (cur : list (option nat)) (i : nat) (f : fdesc) (x : pv) : result (list byte) :=
  match group_selects cur f i with
  | Some false => Ok []
  | sel =>
      match x with
      | PNone => Ok []
      | PPlaceholder =>
          match default_of sc f with
          | PNone => Ok []
          | d => emit_field (fun _ => Ok []) sc f sel d
          end
      | _ => emit_field (enc_obj sc) sc f sel x
      end
  end.

Definition enc_slots (sc : schema) (cur : list (option nat)) : nat -> list pv -> list fdesc -> result (list byte) :=
  fix go (i : nat) (raw : list pv) (fs : list fdesc) {struct raw} : result (list byte) :=
    match raw, fs with
    | x :: raw', f :: fs' =>
        do here <- enc_slot sc cur i f x;
        do rest <- go (S i) raw' fs';
        Ok (here ++ rest)
    | _, _ => Ok []
    end.

Lemma enc_obj_unfold sc c raw sow unk cur :
  enc_obj sc (Obj c raw sow unk cur) =
  (do body <- enc_slots sc cur 0 raw (cfields (get_class sc c)); Ok (body ++ unk)).
Proof. reflexivity. Qed.

Lemma enc_slots_cons sc cur i x raw f fs :
  enc_slots sc cur i (x :: raw) (f :: fs) =
  (do here <- enc_slot sc cur i f x; do rest <- enc_slots sc cur (S i) raw fs; Ok (here ++ rest)).
Proof. reflexivity. Qed.

(* ---------- norm_obj, slot by slot ---------- *)
Definition norm_slots (sc : schema) (cur : list (option nat)) : nat -> list pv -> list fdesc -> list pv :=
  fix go (i : nat) (raw : list pv) (fs : list fdesc) {struct raw} : list pv :=
    match raw, fs with
    | x :: raw', f :: fs' => norm_slot sc (norm_obj sc) f (group_selects cur f i) x :: go (S i) raw' fs'
    | _, _ => []
    end.

Lemma norm_obj_unfold sc c raw sow unk cur :
  norm_obj sc (Obj c raw sow unk cur) = Obj c (norm_slots sc cur 0 raw (cfields (get_class sc c))) true [] cur.
Proof. reflexivity. Qed.

Lemma norm_slots_cons sc cur i x raw f fs :
  norm_slots sc cur i (x :: raw) (f :: fs) =
  norm_slot sc (norm_obj sc) f (group_selects cur f i) x :: norm_slots sc cur (S i) raw fs.
Proof. reflexivity. Qed.

(* ---------- in_range, slot by slot ---------- *)
Definition slot_in_range (sc : schema) (f : fdesc) (x : pv) : bool :=
  match x with
  | PPlaceholder => true
  | PNone => match fhint f with HOptional _ => true | _ => false end
  | _ =>
      match fhint f with
      | HPlain p' => elem_in_range sc (fty f) p' x
      | HOptional p' => elem_in_range sc (match fwraps f with Some w => w | None => fty f end) p' x
      | HList p' =>
          match x with
          | PList l => (fix all (l : list pv) : bool :=
                          match l with [] => true | y :: l' => elem_in_range sc (fty f) p' y && all l' end) l
          | _ => false
          end
      | HDict pk pv' =>
          match x, fmap f with
          | PDict d, Some (kt, vt) =>
              (fix all (d : list (pv * pv)) : bool :=
                 match d with
                 | [] => true
                 | (k, y) :: d' => scalar_in_range kt k && elem_in_range sc vt pv' y && all d'
                 end) d
          | _, _ => false
          end
      end
  end.

Definition slots_in_range (sc : schema) : list pv -> list fdesc -> bool :=
  fix go (raw : list pv) (fs : list fdesc) {struct raw} : bool :=
    match raw, fs with
    | x :: raw', f :: fs' => slot_in_range sc f x && go raw' fs'
    | _, _ => true
    end.

Lemma in_range_unfold sc c raw sow unk cur :
  in_range sc (Obj c raw sow unk cur) =
  Nat.eqb c c && Nat.eqb (length raw) (length (cfields (get_class sc c))) &&
  Nat.eqb (length cur) (cngroups (get_class sc c)) && slots_in_range sc raw (cfields (get_class sc c)).
Proof. reflexivity. Qed.

Lemma elem_in_range_msg sc t c o :
  elem_in_range sc t (PyMsg c) (PMsg o) = Nat.eqb c (ocls o) && in_range sc o.
Proof.
  destruct o as [c' raw sow unk cur]. unfold in_range. cbn [ocls]. cbn [elem_in_range].
  destruct (Nat.eqb c c') eqn:E; [|reflexivity].
  apply Nat.eqb_eq in E. subst c'. rewrite Nat.eqb_refl. reflexivity.
Qed.

(* ---------- deep, unfolded ---------- *)
Definition deep_list (P : obj -> bool) : list pv -> bool :=
  fix all (l : list pv) : bool := match l with [] => true | x :: r => deep P x && all r end.

Lemma deep_msg P c raw sow unk cur :
  deep P (PMsg (Obj c raw sow unk cur)) = P (Obj c raw sow unk cur) && deep_list P raw.
Proof. reflexivity. Qed.

Lemma deep_plist P l : deep P (PList l) = deep_list P l.
Proof. reflexivity. Qed.

Lemma deep_list_cons P x r : deep_list P (x :: r) = deep P x && deep_list P r.
Proof. reflexivity. Qed.

Definition deep_dict (P : obj -> bool) : list (pv * pv) -> bool :=
  fix all (d : list (pv * pv)) : bool := match d with [] => true | (_, x) :: r => deep P x && all r end.

Lemma deep_pdict P d : deep P (PDict d) = deep_dict P d.
Proof. reflexivity. Qed.

(* ---------- oneof_clean, slot by slot ---------- *)
Definition clean_slots (sc : schema) (cur : list (option nat)) : nat -> list pv -> list fdesc -> bool :=
  fix go (i : nat) (raw : list pv) (fs : list fdesc) {struct raw} : bool :=
    match raw, fs with
    | x :: raw', f :: fs' =>
        (match group_selects cur f i with
         | Some false => match x with PPlaceholder => true | _ => false end
         | _ => true
         end) && go (S i) raw' fs'
    | _, _ => true
    end.

Lemma oneof_clean_unfold sc c raw sow unk cur :
  oneof_clean sc (Obj c raw sow unk cur) = clean_slots sc cur 0 raw (cfields (get_class sc c)).
Proof. reflexivity. Qed.

(* ---------- what wf_field says, per hint ---------- *)
Lemma andb_true_split a b : a && b = true -> a = true /\ b = true.
Proof. apply andb_true_iff. Qed.

Ltac split_andb H :=
  repeat match goal with
         | H' : _ && _ = true |- _ => apply andb_true_split in H'; destruct H'
         end.

Lemma negb_true a : negb a = true -> a = false.
Proof. destruct a; [discriminate|reflexivity]. Qed.

Lemma is_some'_false {A} (o : option A) : negb (is_some' o) = true -> o = None.
Proof. destruct o; [discriminate|reflexivity]. Qed.

Lemma wf_field_num sc ng f : wf_field sc ng f = true -> 1 <= fnum f < 2 ^ 29.
Proof. unfold wf_field. intros H. split_andb H. lia. Qed.

Lemma wf_field_group sc ng f g : wf_field sc ng f = true -> fgroup f = Some g -> (g < ng)%nat.
Proof. unfold wf_field. intros H Hg. rewrite Hg in H. split_andb H. apply Nat.ltb_lt. assumption. Qed.

Lemma wf_plain sc ng f p :
  wf_field sc ng f = true -> fhint f = HPlain p ->
  fopt f = false /\ fwraps f = None /\ fmap f = None /\ ptype_eqb (fty f) TMap = false /\
  pyty_fits (length (classes sc)) (length (enums sc)) (fty f) p = true.
Proof.
  unfold wf_field. intros H Hh. rewrite Hh in H. split_andb H.
  repeat split; auto using negb_true, is_some'_false.
Qed.

Lemma wf_optional sc ng f p :
  wf_field sc ng f = true -> fhint f = HOptional p ->
  fmap f = None /\ fgroup f = None /\
  ((exists w vt, fwraps f = Some w /\ fopt f = false /\ fty f = TMessage /\ is_some' (wrapper_cls w) = true /\
                 wrapper_value_type w = Some vt /\ pyty_fits (length (classes sc)) (length (enums sc)) vt p = true) \/
   (fwraps f = None /\ fopt f = true /\ ptype_eqb (fty f) TMap = false /\
    pyty_fits (length (classes sc)) (length (enums sc)) (fty f) p = true)).
Proof.
  unfold wf_field. intros H Hh. rewrite Hh in H. split_andb H.
  split; [apply is_some'_false; assumption|]. split; [apply is_some'_false; assumption|].
  destruct (fwraps f) as [w|].
  - left. split_andb H2. destruct (wrapper_value_type w) as [vt|] eqn:Ev; [|discriminate].
    exists w, vt. repeat split; auto using negb_true. apply ptype_eqb_eq. assumption.
  - right. split_andb H2. repeat split; auto using negb_true.
Qed.

Lemma wf_list sc ng f p :
  wf_field sc ng f = true -> fhint f = HList p ->
  fopt f = false /\ fwraps f = None /\ fmap f = None /\ fgroup f = None /\ ptype_eqb (fty f) TMap = false /\
  pyty_fits (length (classes sc)) (length (enums sc)) (fty f) p = true.
Proof.
  unfold wf_field. intros H Hh. rewrite Hh in H. split_andb H.
  repeat split; auto using negb_true, is_some'_false.
Qed.

Lemma wf_dict sc ng f pk pv' :
  wf_field sc ng f = true -> fhint f = HDict pk pv' ->
  fopt f = false /\ fwraps f = None /\ fgroup f = None /\ fty f = TMap /\
  exists kt vt, fmap f = Some (kt, vt) /\ map_key_ok kt = true /\ ptype_eqb vt TMap = false /\
                pyty_fits (length (classes sc)) (length (enums sc)) kt pk = true /\
                pyty_fits (length (classes sc)) (length (enums sc)) vt pv' = true /\
                entry_class_ok sc f = true.
Proof.
  unfold wf_field. intros H Hh. rewrite Hh in H. split_andb H.
  destruct (fmap f) as [[kt vt]|] eqn:Em; [|discriminate]. split_andb H6.
  repeat split; auto using negb_true, is_some'_false. { apply ptype_eqb_eq. assumption. }
  exists kt, vt. repeat split; auto using negb_true.
Qed.

(* the classes of a well-formed schema *)
Lemma wf_schema_class sc c :
  wf_schema sc = true -> (c < length (classes sc))%nat ->
  forallb (wf_field sc (cngroups (get_class sc c))) (cfields (get_class sc c)) = true /\
  nodup_z (map fnum (cfields (get_class sc c))) = true.
Proof.
  unfold wf_schema. intros H Hc. split_andb H.
  rewrite forallb_forall in H0. specialize (H0 (get_class sc c) (nth_In _ _ Hc)).
  unfold wf_class in H0. apply andb_true_iff in H0. exact H0.
Qed.
