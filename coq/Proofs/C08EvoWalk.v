(* C08 evolution — every slot shape combined, and the walk over the fields of the OLDER class: the chunks the newer writer
   emitted for the kept fields take the older reader's object from "all fresh" to a state D; the older writer emits for D
   chunks of the same lengths, which the newer reader cannot tell from the original ones. *)
From Coq Require Import ZArith List Bool Lia ZifyBool.
From BP Require Import Base.Prelude Model.Types Model.Varint Model.Scalar Model.Float Model.Utf8.
From BP Require Import Model.Object Model.Eq Model.TimeCore Model.Encode Model.Decode Model.WellFormed Model.C01Def.
From BP Require Model.C08Step.
From BP Require Import gen.Tables Proofs.BytesP Proofs.VarintP Proofs.LenP Proofs.C01Scalar Proofs.C01Frame Proofs.C01Step Proofs.C01Apply
     Proofs.C01Elem Proofs.C01Field Proofs.C01Builtin Proofs.C01Unfold Proofs.C01Value Proofs.C01Slot Proofs.C01Slot2
     Proofs.C01Dict Proofs.C01Msg Proofs.C01Main Proofs.C01Stable Proofs.C06EncP.
From BP Require Import Proofs.C08EvoDef Proofs.C08EvoBridge Proofs.C08EvoIndep Proofs.C08EvoElem Proofs.C08EvoSlot Proofs.C08EvoDict.
Import ListNotations.

Lemma not_msgfree_list l : msgfree (PList l) = false -> exists o, In (PMsg o) l.
Proof.
  cbn [msgfree]. induction l as [|y l IH]; [discriminate|]. cbn [forallb].
  destruct y; cbn [andb]; try (intros H; destruct (IH H) as (o & Ho); exists o; right; exact Ho).
  intros _. exists o. left. reflexivity.
Qed.

Lemma elem_in_range_pymsg sc t c y : elem_in_range sc t (PyMsg c) y = true -> exists o, y = PMsg o /\ ocls o = c.
Proof.
  destruct y; try (destruct t; discriminate). rewrite elem_in_range_msg. intros H.
  apply andb_true_iff in H as [H _]. apply Nat.eqb_eq in H. eauto.
Qed.

Section SlotAll.
  Variables (sn : schema) (masks : list (list bool)).
  Let so := C08Step.drop_fields masks sn.
  Hypothesis Hsn : c01_schema_ok sn = true.
  Hypothesis Hso : c01_schema_ok so = true.
  Variable c : nat.
  Let cdn := get_class sn c.
  Let cdo := get_class so c.
  Let fso := cfields cdo.

  Variables (cur : list (option nat)) (i : nat) (f : fdesc).
  Hypothesis Hf : nth_error fso i = Some f.
  Hypothesis Hfn : exists j, field_by_number cdn (fnum f) = Some (j, f).
  Hypothesis Hwfn : wf_field sn (cngroups cdn) f = true.
  Hypothesis Hentn : entry_hints_ok sn f = true.
  Let sel := group_selects cur f i.

  Variables (rawP : list pv) (unk : list byte) (curP : list (option nat)).
  Hypothesis Hfresh : nth i rawP PPlaceholder = fresh_of f.
  Hypothesis Hlen : (i < length rawP)%nat.
  Hypothesis Hsib : sel = Some true -> forall g, fgroup f = Some g -> sibs_clear fso rawP g i.

  Lemma slot2_all x :
    slot_in_range sn f x = true ->
    (sel = Some false -> x = PPlaceholder) ->
    (forall d, x = PDict d -> keys_nodup sn d = true) ->
    subP (Evo sn masks) x -> subP (Good sn) x ->
    slot_goal2 sn masks c cur i f rawP unk curP x.
  Proof.
    intros Hr Hclean Hkeys HE HG.
    (* dict keys are scalars: their comparison does not look at the schema *)
    assert (Hkeys_so : forall d, x = PDict d -> keys_nodup so d = true).
    { intros d ->. rewrite (keys_nodup_atomic so sn d); [apply Hkeys; reflexivity|].
      intros kv Hkv. unfold slot_in_range in Hr.
      destruct (fhint f) as [p|p|p|pk pv'] eqn:Hh; rewrite ?elem_in_range_dict in Hr; try discriminate Hr.
      destruct (fmap f) as [[kt vt]|]; [|discriminate Hr].
      apply (dict_fix_forall (fun k y => scalar_in_range kt k && elem_in_range sn vt pv' y)) in Hr.
      rewrite Forall_forall in Hr. specialize (Hr kv Hkv). apply andb_true_iff in Hr as [Hk _].
      eapply scalar_atomic; eauto. }
    destruct (msgfree x) eqn:Hm.
    { apply (slot2_msgfree sn masks Hsn Hso c cur i f Hf Hwfn rawP unk curP Hfresh Hlen Hsib x Hm Hr Hclean Hkeys_so). }
    destruct x as [| |z|b|bits|s|b|us|us|l|d|o]; try discriminate Hm.
    - (* repeated messages *)
      assert (Hh : exists p, fhint f = HList p).
      { unfold slot_in_range in Hr. destruct (fhint f) as [p|p|p|pk pv'] eqn:Hh; eauto;
          rewrite ?elem_in_range_list in Hr; discriminate Hr. }
      destruct Hh as (p & Hh).
      assert (Hin : Forall (fun y => elem_in_range sn (fty f) p y = true) l).
      { unfold slot_in_range in Hr. rewrite Hh in Hr. apply all_fix_forall in Hr. exact Hr. }
      destruct (not_msgfree_list l Hm) as (o0 & Ho0).
      assert (Hp : exists c', p = PyMsg c').
      { rewrite Forall_forall in Hin. specialize (Hin _ Ho0).
        destruct p; try (destruct (fty f); destruct o0; discriminate Hin); try (destruct o0; discriminate Hin). eauto. }
      destruct Hp as (c' & ->).
      apply (slot2_msglist sn masks Hso c cur i f Hf Hfn Hwfn rawP unk curP Hfresh Hlen Hsib l (PyMsg c') Hh); auto.
      { intros ->. destruct Ho0. }
      cbn [subP] in HE, HG. rewrite Forall_forall in *. intros y Hy.
      destruct (elem_in_range_pymsg _ _ _ _ (Hin y Hy)) as (o & -> & _).
      exists o. split; [reflexivity|]. split; [exact (HE _ Hy) | exact (HG _ Hy)].
    - (* map with message values *)
      assert (Hh : exists pk pv', fhint f = HDict pk pv').
      { unfold slot_in_range in Hr. destruct (fhint f) as [p|p|p|pk pv'] eqn:Hh; eauto;
          rewrite ?elem_in_range_dict in Hr; discriminate Hr. }
      destruct Hh as (pk & pv' & Hh).
      destruct (wf_dict _ _ _ _ _ Hwfn Hh) as (_ & _ & _ & _ & kt & vt & Hfm & _ & _ & _ & Hfv & _).
      assert (Hin : Forall (fun kv => scalar_in_range kt (fst kv) && elem_in_range sn vt pv' (snd kv) = true) d).
      { unfold slot_in_range in Hr. rewrite Hh, Hfm in Hr.
        apply (dict_fix_forall (fun k y => scalar_in_range kt k && elem_in_range sn vt pv' y)) in Hr. exact Hr. }
      (* some value is a message, hence the value type is a message class *)
      assert (Hp : exists c', pv' = PyMsg c').
      { cbn [msgfree] in Hm. apply not_true_iff_false in Hm.
        destruct pv'; try (exfalso; apply Hm; apply forallb_forall; intros [k y] Hkv;
                           rewrite Forall_forall in Hin; specialize (Hin _ Hkv); cbn [fst snd] in *;
                           apply andb_true_iff in Hin as [Hk Hy];
                           pose proof (scalar_nomsg kt k Hk) as Hnk;
                           destruct k; try (exfalso; eapply Hnk; reflexivity);
                           destruct y; try reflexivity; destruct vt; destruct o; discriminate Hy).
        eauto. }
      destruct Hp as (c' & ->).
      assert (Hvt : vt = TMessage) by (destruct vt; try discriminate Hfv; reflexivity). subst vt.
      apply (slot2_msgdict sn masks Hso c cur i f Hf Hfn Hwfn Hentn rawP unk curP Hfresh Hlen pk c' kt Hh Hfm).
      + intros ->. discriminate Hm.
      + apply Hkeys_so. reflexivity.
      + cbn [subP] in HE, HG. rewrite Forall_forall in *. intros [k y] Hkv.
        specialize (Hin _ Hkv). cbn [fst snd] in Hin. apply andb_true_iff in Hin as [Hk Hy].
        destruct (elem_in_range_pymsg _ _ _ _ Hy) as (o & -> & Hc).
        split; [exact Hk|]. exists o. split; [reflexivity|].
        split; [exact (HE _ Hkv)|]. split; [exact (HG _ Hkv) | exact Hc].
    - (* a singular message *)
      destruct (singular_hint sn f (PMsg o) eq_refl Hr) as (p & Hp).
      apply (slot2_msg sn masks Hso c cur i f Hf Hfn Hwfn rawP unk curP Hfresh Hlen Hsib o p Hp Hr); auto.
      intros Hs. specialize (Hclean Hs). discriminate Hclean.
  Qed.
End SlotAll.

Lemma skipn_nth_cons {A} (l : list A) i d : (i < length l)%nat -> skipn i l = nth i l d :: skipn (S i) l.
Proof.
  revert i. induction l as [|a l IH]; intros [|i] H; cbn [length] in H; try lia; [reflexivity|].
  cbn [skipn nth]. apply IH. lia.
Qed.

Lemma enc_slots_inv sc cur i x raw f fs K :
  enc_slots sc cur i (x :: raw) (f :: fs) = Ok K ->
  exists here rest, enc_slot sc cur i f x = Ok here /\ enc_slots sc cur (S i) raw fs = Ok rest /\ K = here ++ rest.
Proof.
  rewrite enc_slots_cons. destruct (enc_slot sc cur i f x) as [here|]; cbn [bind]; [|discriminate].
  destruct (enc_slots sc cur (S i) raw fs) as [rest|]; cbn [bind]; [|discriminate].
  intros H. injection H as <-. eauto.
Qed.

Section Walk2.
  Variables (sn : schema) (masks : list (list bool)).
  Let so := C08Step.drop_fields masks sn.
  Hypothesis Hsn : c01_schema_ok sn = true.
  Hypothesis Hso : c01_schema_ok so = true.
  Variable c : nat.
  Let cdn := get_class sn c.
  Let cdo := get_class so c.
  Let fso := cfields cdo.
  Variables (raw : list pv) (cur : list (option nat)).
  Hypothesis Hlen : length raw = length fso.
  Hypothesis Hcur : forall g j, nth g cur None = Some j -> exists f, nth_error fso j = Some f /\ fgroup f = Some g.
  Hypothesis Hslots : forall k x f, nth_error raw k = Some x -> nth_error fso k = Some f ->
    (exists j, field_by_number cdn (fnum f) = Some (j, f)) /\ wf_field sn (cngroups cdn) f = true /\
    entry_hints_ok sn f = true /\ slot_in_range sn f x = true /\
    (group_selects cur f k = Some false -> x = PPlaceholder) /\
    (forall d, x = PDict d -> keys_nodup sn d = true) /\ subP (Evo sn masks) x /\ subP (Good sn) x.

  Definition Pre (i : nat) (rawS : list pv) : Prop :=
    length rawS = length fso /\
    (forall k f, (i <= k)%nat -> nth_error fso k = Some f -> nth k rawS PPlaceholder = fresh_of f) /\
    (forall k f g, (k < i)%nat -> nth_error fso k = Some f -> fgroup f = Some g -> nth g cur None <> Some k ->
                   nth k rawS PPlaceholder = PPlaceholder).

  Lemma walk2 : forall raw_rest fs_rest i,
    (forall k x, nth_error raw_rest k = Some x -> nth_error raw (i + k) = Some x) ->
    (forall k f, nth_error fs_rest k = Some f -> nth_error fso (i + k) = Some f) ->
    length raw_rest = length fs_rest -> (i + length fs_rest = length fso)%nat ->
    forall K, enc_slots sn cur i raw_rest fs_rest = Ok K -> small K ->
    forall rawS, Pre i rawS ->
    exists rawE k2,
      (forall F, (length K <= F)%nat ->
         feeds F so cdo (Obj c rawS true [] (cur_upto cur i)) K (Obj c rawE true [] (cur_upto cur (length fso)))) /\
      length rawE = length fso /\
      (forall k, (k < i)%nat -> nth k rawE PPlaceholder = nth k rawS PPlaceholder) /\
      enc_slots so cur i (skipn i rawE) fs_rest = Ok k2 /\ length k2 = length K /\
      (forall F2, (length K <= F2)%nat -> ceq sn F2 cdn K k2).
  Proof.
    destruct (schema_class_facts so c Hso) as (Hwo & Hndo & Heo). fold cdo fso in Hwo, Hndo, Heo.
    induction raw_rest as [|x raw' IH]; intros [|f fs'] i Hr Hf Hl Hi K EK Hs rawS (HlS & Hfr & Hpl); cbn [length] in Hl, Hi; try lia.
    { injection EK as <-. exists rawS, []. rewrite Nat.add_0_r in Hi. subst i.
      split; [intros F _; apply feeds_nil|]. split; [exact HlS|]. split; [reflexivity|].
      split; [destruct (skipn (length fso) rawS); reflexivity|]. split; [reflexivity|]. intros F2 _. apply ceq_nil. }
    assert (Hxi : nth_error raw i = Some x) by (rewrite <- (Nat.add_0_r i); apply Hr; reflexivity).
    assert (Hfi : nth_error fso i = Some f) by (rewrite <- (Nat.add_0_r i); apply Hf; reflexivity).
    destruct (Hslots i x f Hxi Hfi) as (Hfn & Hwfn & Hentn & Hrange & Hclean & Hkeys & HE & HG).
    pose proof (forallb_nth_error _ _ _ _ Hwo Hfi) as Hwff.
    assert (Hil : (i < length fso)%nat) by lia.
    destruct (enc_slots_inv _ _ _ _ _ _ _ _ EK) as (here & rest & Eh & Er & ->).
    assert (Hfresh : nth i rawS PPlaceholder = fresh_of f) by (apply (Hfr i f); [lia | exact Hfi]).
    assert (HlenS : (i < length rawS)%nat) by lia.
    assert (Hsib : group_selects cur f i = Some true -> forall g, fgroup f = Some g -> sibs_clear fso rawS g i).
    { intros Hsel g Hg k f' Hk Hg' Hne.
      unfold group_selects in Hsel. rewrite Hg in Hsel. injection Hsel as Hsel. apply opt_nat_eqb_eq in Hsel.
      destruct (Nat.lt_ge_cases k i) as [Hlt|Hge].
      - apply (Hpl k f' g Hlt Hk Hg'). rewrite Hsel. congruence.
      - rewrite (Hfr k f' Hge Hk). unfold fresh_of.
        rewrite (group_member_not_opt so _ f' g (forallb_nth_error _ _ _ _ Hwo Hk) Hg'). reflexivity. }
    destruct (slot2_all sn masks Hsn Hso c cur i f Hfi Hfn Hwfn Hentn rawS [] (cur_upto cur i) Hfresh HlenS Hsib x
                Hrange Hclean Hkeys HE HG here Eh (small_app_l _ _ Hs)) as (D & B' & Hfeed & Hunsel & EB' & HlB & Hceq).
    set (rawS' := set_nth i D rawS).
    assert (Hpre' : Pre (S i) rawS').
    { unfold rawS'. split; [rewrite set_nth_length; exact HlS|]. split.
      - intros k f' Hk Hf'. rewrite nth_set_nth_other by lia. apply Hfr; [lia | exact Hf'].
      - intros k f' g Hk Hf' Hg Hns. destruct (Nat.eq_dec k i) as [->|Hki].
        + rewrite nth_set_nth_same by exact HlenS. apply Hunsel.
          assert (f' = f) by congruence. subst f'.
          unfold group_selects. rewrite Hg. f_equal.
          destruct (opt_nat_eqb (nth g cur None) (Some i)) eqn:E; [|reflexivity]. apply opt_nat_eqb_eq in E. congruence.
        + rewrite nth_set_nth_other by congruence. apply (Hpl k f' g); [lia | exact Hf' | exact Hg | exact Hns]. }
    destruct (IH fs' (S i)) with (K := rest) (rawS := rawS') as (rawE & k2r & HfeedR & HlE & HagE & EkR & HlkR & HceqR); auto.
    { intros k y Hk. replace (S i + k)%nat with (i + S k)%nat by lia. apply Hr. exact Hk. }
    { intros k g Hk. replace (S i + k)%nat with (i + S k)%nat by lia. apply Hf. exact Hk. }
    { lia. } { eapply small_app_r; eauto. }
    assert (Hcu : cur_sel (group_selects cur f i) f i (cur_upto cur i) = cur_upto cur (S i)).
    { unfold cur_sel. pose proof (group_selects_shape cur f i) as Hsh.
      destruct (group_selects cur f i) as [[|]|] eqn:Hsl.
      - destruct Hsh as (g & Hg & Hb). symmetry in Hb. apply opt_nat_eqb_eq in Hb.
        unfold cur_after. rewrite Hg. apply cur_upto_select; [exact Hb|].
        intros g' Hg'. destruct (Hcur g' i Hg') as (f0 & Hf0 & Hg0). congruence.
      - symmetry. apply cur_upto_same. intros g Hg. destruct (Hcur g i Hg) as (f0 & Hf0 & Hg0).
        assert (f0 = f) by congruence. subst f0.
        unfold group_selects in Hsl. rewrite Hg0, Hg in Hsl. cbn [opt_nat_eqb] in Hsl. rewrite Nat.eqb_refl in Hsl. discriminate.
      - symmetry. apply cur_upto_same. intros g Hg. destruct (Hcur g i Hg) as (f0 & Hf0 & Hg0).
        assert (f0 = f) by congruence. subst f0. congruence. }
    exists rawE, (B' ++ k2r). split.
    { intros F HF. rewrite app_length in HF. eapply feeds_app.
      - apply Hfeed. lia.
      - rewrite Hcu. fold rawS'. apply HfeedR. lia. }
    split; [exact HlE|]. split.
    { intros k Hk. rewrite (HagE k ltac:(lia)). unfold rawS'. apply nth_set_nth_other. lia. }
    split.
    { rewrite (skipn_nth_cons rawE i PPlaceholder) by lia. rewrite enc_slots_cons.
      rewrite (HagE i ltac:(lia)). unfold rawS'. rewrite nth_set_nth_same by exact HlenS.
      fold so in EB'. rewrite EB'. cbn [bind]. rewrite EkR. reflexivity. }
    split; [rewrite !app_length; lia|].
    intros F2 HF2. rewrite app_length in HF2. apply ceq_app; [apply Hceq; lia | apply HceqR; lia].
  Qed.
End Walk2.
