(* C04 (include_default_values=True, repeated wrappers), base layer:
   * wf_schema -> wfx_schema, the six kinds of field a wfx class has (one inversion lemma instead of the chains of andb_prop),
   * what in_rangex says about one raw attribute (value_okx / fields_okx, the mirror of C04ElemP.value_ok),
   * the hypotheses on the value as one predicate walked by pv_all (pv_goodG), its splitting lemma. *)
From BP Require Import Base.Prelude Model.Types Model.Float Model.Utf8 Model.Object Model.Eq Model.TimeCore.
From BP Require Import Model.Encode Model.WellFormed Model.Json Model.C04RepWrap.
From BP Require Import gen.Tables Proofs.BytesP Proofs.C04Def Proofs.C04ScalarP Proofs.C04ElemP Proofs.C04FieldP Proofs.C04ObjP Proofs.C04InclDef.
From Coq Require Import Lia ZifyBool.

(* ---------------------------------------------------------------------------------- *)
(* schema                                                                              *)
(* ---------------------------------------------------------------------------------- *)
Lemma wf_wfx_field sc ng f : wf_field sc ng f = true -> wfx_field sc ng f = true.
Proof. intros H. unfold wfx_field. rewrite H. reflexivity. Qed.

Lemma wf_wfx_schema sc : wf_schema sc = true -> wfx_schema sc = true.
Proof.
  unfold wf_schema, wfx_schema. intros H. apply andb_prop in H as [H1 H2]. rewrite H1. cbn [andb].
  rewrite forallb_forall in H2. rewrite forallb_forall. intros cd Hc. specialize (H2 cd Hc).
  unfold wf_class in H2. unfold wfx_class. apply andb_prop in H2 as [H2 H3]. rewrite H3, andb_true_r.
  rewrite forallb_forall in H2. rewrite forallb_forall. intros f Hf. apply wf_wfx_field, H2, Hf.
Qed.

Lemma wfx_fields sc c : wfx_schema sc = true ->
  forallb (wfx_field sc (cngroups (get_class sc c))) (cfields (get_class sc c)) = true.
Proof.
  intros W. destruct (class_in_or_empty sc c) as [I|E]; [|rewrite E; reflexivity].
  unfold wfx_schema in W. apply andb_prop in W as [_ W]. rewrite forallb_forall in W. specialize (W _ I).
  unfold wfx_class in W. apply andb_prop in W as [W _]. exact W.
Qed.

Section Kinds.
  Variable sc : schema.
  Let nc := length (classes sc).
  Let ne := length (enums sc).

  Inductive fkind (f : fdesc) : Prop :=
  | KPlain p : fhint f = HPlain p -> fopt f = false -> fwraps f = None -> fmap f = None ->
               pyty_fits nc ne (fty f) p = true -> fkind f
  | KWrap p w : fhint f = HOptional p -> fwraps f = Some w -> fopt f = false -> fmap f = None -> fgroup f = None ->
                fty f = TMessage -> tmem w scalar_ptypes = true -> scalar_py p = true -> pyty_fits nc ne w p = true -> fkind f
  | KOpt p : fhint f = HOptional p -> fwraps f = None -> fopt f = true -> fmap f = None -> fgroup f = None ->
             pyty_fits nc ne (fty f) p = true -> fkind f
  | KRep p : fhint f = HList p -> fwraps f = None -> fopt f = false -> fmap f = None -> fgroup f = None ->
             pyty_fits nc ne (fty f) p = true -> fkind f
  | KMap pk p kt vt : fhint f = HDict pk p -> fwraps f = None -> fopt f = false -> fmap f = Some (kt, vt) -> fgroup f = None ->
             fty f = TMap -> map_key_ok kt = true -> pyty_fits nc ne vt p = true -> fkind f
  | KRepWrap p w : fhint f = HList p -> fwraps f = Some w -> fopt f = false -> fmap f = None -> fgroup f = None ->
             fty f = TMessage -> tmem w scalar_ptypes = true -> scalar_py p = true -> pyty_fits nc ne w p = true -> fkind f.

  Lemma wfx_kind ng f : wfx_field sc ng f = true -> fkind f.
  Proof.
    unfold wfx_field. intros W. apply orb_prop in W as [W|W].
    - unfold wf_field in W. fold nc ne in W. apply andb_prop in W as [_ Wh].
      destruct (fhint f) as [p|p|p|pk p] eqn:Hh.
      + apply andb_true5 in Wh as [Wop [Wwr [Wmp [Wt Wp]]]].
        apply negb_true in Wop. apply is_some'_false in Wwr. apply is_some'_false in Wmp.
        exact (KPlain f p Hh Wop Wwr Wmp Wp).
      + apply andb_prop in Wh as [Wh Wrest]. apply andb_prop in Wh as [Wmp Wgrp].
        apply is_some'_false in Wmp. apply is_some'_false in Wgrp.
        destruct (fwraps f) as [w|] eqn:Hw.
        * apply andb_prop in Wrest as [Wrest Wfit]. apply andb_prop in Wrest as [Wrest Wcls]. apply andb_prop in Wrest as [Wop Wt].
          apply negb_true in Wop. apply ptype_eqb_eq in Wt.
          destruct (wrapper_value_type w) as [vt|] eqn:Ev; [|discriminate Wfit].
          pose proof (wrapper_same w vt Ev) as Evt. subst vt.
          pose proof (wrapper_scalar w Wcls) as Ht. pose proof (fits_scalar_py _ _ _ _ Ht Wfit) as Sp.
          exact (KWrap f p w Hh Hw Wop Wmp Wgrp Wt Ht Sp Wfit).
        * apply andb_prop in Wrest as [Wrest Wp]. apply andb_prop in Wrest as [Wop Wt].
          exact (KOpt f p Hh Hw Wop Wmp Wgrp Wp).
      + apply andb_prop in Wh as [Wh Wp]. apply andb_prop in Wh as [Wh Wt]. apply andb_prop in Wh as [Wh Wgrp].
        apply andb_prop in Wh as [Wh Wmp]. apply andb_prop in Wh as [Wop Wwr].
        apply negb_true in Wop. apply is_some'_false in Wwr. apply is_some'_false in Wmp. apply is_some'_false in Wgrp.
        exact (KRep f p Hh Wwr Wop Wmp Wgrp Wp).
      + apply andb_prop in Wh as [Wh Wentry]. apply andb_prop in Wh as [Wh Wmap]. apply andb_prop in Wh as [Wh Wt].
        apply andb_prop in Wh as [Wh Wgrp]. apply andb_prop in Wh as [Wop Wwr].
        apply negb_true in Wop. apply is_some'_false in Wwr. apply is_some'_false in Wgrp. apply ptype_eqb_eq in Wt.
        destruct (fmap f) as [[kt vt]|] eqn:Hm; [|discriminate Wmap].
        apply andb_prop in Wmap as [Wmap Wv]. apply andb_prop in Wmap as [Wmap Wk]. apply andb_prop in Wmap as [Wkey Wvt].
        exact (KMap f pk p kt vt Hh Wwr Wop Hm Wgrp Wt Wkey Wv).
    - apply andb_prop in W as [_ W]. unfold repwrap_field in W. fold nc ne in W.
      destruct (fhint f) as [p|p|p|pk p] eqn:Hh; try discriminate W.
      destruct (fwraps f) as [w|] eqn:Hw; [|discriminate W].
      apply andb_prop in W as [W Wfit]. apply andb_prop in W as [W Wcls]. apply andb_prop in W as [W Wt].
      apply andb_prop in W as [W Wgrp]. apply andb_prop in W as [Wop Wmp].
      apply negb_true in Wop. apply is_some'_false in Wmp. apply is_some'_false in Wgrp. apply ptype_eqb_eq in Wt.
      destruct (wrapper_value_type w) as [vt|] eqn:Ev; [|discriminate Wfit].
      pose proof (wrapper_same w vt Ev) as Evt. subst vt.
      pose proof (wrapper_scalar w Wcls) as Ht. pose proof (fits_scalar_py _ _ _ _ Ht Wfit) as Sp.
      exact (KRepWrap f p w Hh Hw Wop Wmp Wgrp Wt Ht Sp Wfit).
  Qed.

  Lemma wfx_group_lt ng f g : wfx_field sc ng f = true -> fgroup f = Some g -> (g < ng)%nat.
  Proof.
    unfold wfx_field. intros W G. apply orb_prop in W as [W|W].
    - unfold wf_field in W. rewrite G in W. apply andb_prop in W as [W _]. apply andb_prop in W as [_ Wg].
      apply Nat.ltb_lt in Wg. exact Wg.
    - apply andb_prop in W as [_ W]. unfold repwrap_field in W. rewrite G in W.
      destruct (fhint f); try discriminate W. destruct (fwraps f); [|discriminate W].
      cbn [is_some' negb] in W. rewrite andb_false_r in W. discriminate W.
  Qed.

  (* a oneof member: plain, never optional *)
  Lemma wfx_group_plain ng f g : wfx_field sc ng f = true -> fgroup f = Some g ->
    (g < ng)%nat /\ fopt f = false /\ fwraps f = None /\ fmap f = None /\
    exists p, fhint f = HPlain p /\ pyty_fits nc ne (fty f) p = true.
  Proof.
    intros W G. split; [exact (wfx_group_lt ng f g W G)|].
    destruct (wfx_kind ng f W) as [p Hh Ho Hw Hm Hp|p w _ _ _ _ Hg|p _ _ _ _ Hg|p _ _ _ _ Hg|pk p kt vt _ _ _ _ Hg|p w _ _ _ _ Hg];
      try congruence.
    repeat split; try assumption. exists p. split; assumption.
  Qed.

  Lemma wfx_opt_optional ng f : wfx_field sc ng f = true -> fopt f = true -> exists p, fhint f = HOptional p.
  Proof.
    intros W O. destruct (wfx_kind ng f W) as [p Hh Ho|p w Hh _ Ho|p Hh|p Hh _ Ho|pk p kt vt Hh _ Ho|p w Hh _ Ho]; try congruence; eauto.
  Qed.
End Kinds.

(* ---------------------------------------------------------------------------------- *)
(* what in_rangex says about one raw attribute                                         *)
(* ---------------------------------------------------------------------------------- *)
Definition value_okx (sc : schema) (f : fdesc) (x : pv) : bool :=
  match x with
  | PPlaceholder => true
  | PNone => match fhint f with HOptional _ => true | _ => false end
  | _ =>
      match fhint f with
      | HPlain p' => elem_in_rangex sc (fty f) p' x
      | HOptional p' => elem_in_rangex sc (elem_ptype f) p' x
      | HList p' =>
          match x with
          | PList l => forallb (elem_in_rangex sc (elem_ptype f) p') l
          | _ => false
          end
      | HDict pk pv' =>
          match x, fmap f with
          | PDict d, Some (kt, vt) => forallb (fun ky => scalar_in_range kt (fst ky) && elem_in_rangex sc vt pv' (snd ky)) d
          | _, _ => false
          end
      end
  end.

Fixpoint fields_okx (sc : schema) (raw : list pv) (fs : list fdesc) {struct raw} : bool :=
  match raw, fs with
  | x :: raw', f :: fs' => value_okx sc f x && fields_okx sc raw' fs'
  | _, _ => true
  end.

Lemma all_list_forallbx sc t p l :
  (fix all (l : list pv) : bool :=
     match l with [] => true | y :: l' => elem_in_rangex sc t p y && all l' end) l
  = forallb (elem_in_rangex sc t p) l.
Proof. induction l as [|y l IH]; [reflexivity|]. cbn [forallb]. rewrite <- IH. reflexivity. Qed.

Lemma all_dict_forallbx sc kt vt p d :
  (fix all (d : list (pv * pv)) : bool :=
     match d with
     | [] => true
     | (k, y) :: d' => scalar_in_range kt k && elem_in_rangex sc vt p y && all d'
     end) d
  = forallb (fun ky => scalar_in_range kt (fst ky) && elem_in_rangex sc vt p (snd ky)) d.
Proof. induction d as [|[k y] d IH]; [reflexivity|]. cbn [forallb fst snd]. rewrite <- IH. reflexivity. Qed.

Lemma in_rangex_unfold sc c raw s u g :
  in_rangex sc (Obj c raw s u g) = true ->
  length raw = length (cfields (get_class sc c)) /\ length g = cngroups (get_class sc c) /\
  fields_okx sc raw (cfields (get_class sc c)) = true.
Proof.
  unfold in_rangex. cbn [ocls elem_in_rangex]. intros H.
  apply andb_prop in H as [H F]. apply andb_prop in H as [H G]. apply andb_prop in H as [_ L].
  apply Nat.eqb_eq in L. apply Nat.eqb_eq in G. split; [exact L|]. split; [exact G|].
  revert F. generalize (cfields (get_class sc c)) as fs. clear.
  induction raw as [|x raw IH]; intros fs F; [reflexivity|]. destruct fs as [|f fs]; [reflexivity|].
  cbn [fields_okx]. apply andb_prop in F as [F1 F2]. rewrite (IH fs F2). rewrite andb_true_r.
  unfold value_okx. destruct x; try exact F1; destruct (fhint f); try exact F1;
    try (rewrite <- all_list_forallbx; exact F1);
    try (destruct (fmap f) as [[kt vt]|]; [rewrite <- all_dict_forallbx|]; exact F1).
Qed.

Lemma elem_scalarx sc t p v : scalar_py p = true -> elem_in_rangex sc t p v = scalar_in_range t v.
Proof. destruct p; try discriminate; intros _; destruct v as [| | | | | | | | | | |[c r s u g]]; reflexivity. Qed.

Lemma in_range_objx sc c o :
  elem_in_rangex sc TMessage (PyMsg c) (PMsg o) = true -> c = ocls o /\ in_rangex sc o = true.
Proof.
  intros H. destruct o as [c' r s u g]. unfold in_rangex. cbn [ocls].
  assert (E : c = c').
  { cbn [elem_in_rangex] in H. apply andb_prop in H as [H _]. apply andb_prop in H as [H _]. apply andb_prop in H as [H _].
    apply Nat.eqb_eq in H. exact H. }
  subst. split; [reflexivity|exact H].
Qed.

Lemma fields_okx_at sc : forall raw fs k x f,
  fields_okx sc raw fs = true -> nth_error raw k = Some x -> nth_error fs k = Some f -> value_okx sc f x = true.
Proof.
  induction raw as [|y raw IH]; intros fs k x f H Hx Hf; [destruct k; discriminate Hx|].
  destruct fs as [|g fs]; [destruct k; discriminate Hf|]. cbn [fields_okx] in H. apply andb_prop in H as [H1 H2].
  destruct k as [|k]; cbn [nth_error] in *.
  - inversion Hx; inversion Hf; subst. exact H1.
  - exact (IH fs k x f H2 Hx Hf).
Qed.

(* ---------------------------------------------------------------------------------- *)
(* the hypotheses on the value, walked by pv_all                                        *)
(* ---------------------------------------------------------------------------------- *)
Definition local_okG (incl : bool) (sc : schema) (o : obj) : bool := local_ok sc o && (negb incl || local_reach sc o).
Definition pv_goodG (incl : bool) (sc : schema) (v : pv) : bool := pv_all (local_okG incl sc) v.
(* the extra condition of the bytes half: every plain sub-message below v is present *)
Definition pv_presG (incl : bool) (sc : schema) (v : pv) : bool := negb incl || pv_all (local_present sc) v.

Lemma pv_all_true v : pv_all (fun _ => true) v = true.
Proof.
  induction v as [v IH] using pv_size_ind. destruct v as [| | | | | | | | |l|d|[c raw s u g]]; try reflexivity.
  - cbn [pv_all]. apply forallb_forall. intros x Hx. apply IH. rewrite size_list. pose proof (in_sum_size x l Hx). lia.
  - cbn [pv_all]. apply forallb_forall. intros [k x] Hx. cbn [snd]. apply IH. rewrite size_dict. pose proof (in_sum_size_d k x d Hx). lia.
  - rewrite pv_all_msg. cbn [andb]. apply forallb_forall. intros x Hx. apply IH. rewrite size_msg. pose proof (in_sum_size x raw Hx). lia.
Qed.

Lemma pv_goodG_split incl sc v :
  pv_goodG incl sc v = pv_good sc v && (negb incl || pv_all (local_reach sc) v).
Proof.
  unfold pv_goodG, pv_good, local_okG. rewrite pv_all_and. f_equal.
  destruct incl; cbn [negb orb]; [reflexivity|apply pv_all_true].
Qed.

Lemma goodx_split incl sc o :
  goodx sc o && reach_ok incl sc o = in_rangex sc o && pv_goodG incl sc (PMsg o).
Proof.
  rewrite pv_goodG_split.
  unfold goodx, reach_ok, defaults_reach, json_supported, no_unknown, no_lazy, nan_ok, oneof_ok, dicts_ok, obj_all, pv_good, local_ok.
  rewrite !pv_all_and.
  repeat match goal with |- context [pv_all ?P (PMsg o)] => destruct (pv_all P (PMsg o)) end;
    destruct (in_rangex sc o); destruct incl; reflexivity.
Qed.

Lemma incl_ok_pres incl sc o : incl_ok incl sc o = pv_presG incl sc (PMsg o).
Proof. reflexivity. Qed.

Lemma pv_goodG_good incl sc v : pv_goodG incl sc v = true -> pv_good sc v = true.
Proof. rewrite pv_goodG_split. intros H. apply andb_prop in H as [H _]. exact H. Qed.

(* the loops of local_present and local_reach, named *)
Section PresentLoop.
  Variable cur : list (option nat).
  Fixpoint present_loop (i : nat) (raw : list pv) (fs : list fdesc) {struct raw} : bool :=
    match raw, fs with
    | x :: raw', f :: fs' => present_cond (group_selects cur f i) f x && present_loop (S i) raw' fs'
    | _, _ => true
    end.
End PresentLoop.
Lemma local_present_unfold sc c raw s u g :
  local_present sc (Obj c raw s u g) = present_loop g O raw (cfields (get_class sc c)).
Proof. reflexivity. Qed.

Section ReachLoop.
  Variable sc : schema.
  Variable cur : list (option nat).
  Fixpoint reach_loop (i : nat) (raw : list pv) (fs : list fdesc) {struct raw} : bool :=
    match raw, fs with
    | x :: raw', f :: fs' => reach_cond sc (group_selects cur f i) f x && reach_loop (S i) raw' fs'
    | _, _ => true
    end.
End ReachLoop.
Lemma local_reach_unfold sc c raw s u g :
  local_reach sc (Obj c raw s u g) = reach_loop sc g O raw (cfields (get_class sc c)).
Proof. reflexivity. Qed.

(* the presence of the nested values of a present object *)
Lemma pv_presG_msg incl sc c raw s u g :
  pv_presG incl sc (PMsg (Obj c raw s u g)) = true ->
  (incl = true -> present_loop g O raw (cfields (get_class sc c)) = true) /\ forallb (pv_presG incl sc) raw = true.
Proof.
  unfold pv_presG. destruct incl; cbn [negb orb].
  - rewrite pv_all_msg, local_present_unfold. intros H. apply andb_prop in H as [H1 H2]. split; [intros _; exact H1|exact H2].
  - intros _. split; [discriminate|]. apply forallb_forall. reflexivity.
Qed.
Lemma pv_presG_list incl sc l : pv_presG incl sc (PList l) = true -> forall y, In y l -> pv_presG incl sc y = true.
Proof.
  unfold pv_presG. destruct incl; cbn [negb orb]; [|reflexivity]. cbn [pv_all]. rewrite forallb_forall. auto.
Qed.
Lemma pv_presG_dict incl sc d : pv_presG incl sc (PDict d) = true -> forall k y, In (k, y) d -> pv_presG incl sc y = true.
Proof.
  unfold pv_presG. destruct incl; cbn [negb orb]; [|reflexivity]. cbn [pv_all]. rewrite forallb_forall. intros H k y Hy. exact (H _ Hy).
Qed.

(* ---------------------------------------------------------------------------------- *)
(* on a wf_schema (no repeated wrapper field) in_rangex is in_range                     *)
(* ---------------------------------------------------------------------------------- *)
Lemma wf_list_nowrap sc ng f p : wf_field sc ng f = true -> fhint f = HList p -> fwraps f = None.
Proof.
  intros W Hh. unfold wf_field in W. rewrite Hh in W. apply andb_prop in W as [_ Wh].
  apply andb_prop in Wh as [Wh _]. apply andb_prop in Wh as [Wh _]. apply andb_prop in Wh as [Wh _].
  apply andb_prop in Wh as [Wh _]. apply andb_prop in Wh as [_ Wwr]. apply is_some'_false in Wwr. exact Wwr.
Qed.

Lemma rangex_range sc : wf_schema sc = true -> forall v t p, elem_in_rangex sc t p v = elem_in_range sc t p v.
Proof.
  intros WF. induction v as [v IH] using pv_size_ind. intros t p.
  destruct p; destruct v as [| | | | | | | | | | |[c' raw s u cur]]; try reflexivity.
  cbn [elem_in_rangex elem_in_range]. f_equal.
  remember (pv_size (PMsg (Obj c' raw s u cur))) as N eqn:EN.
  assert (Sz : forall x, In x raw -> (pv_size x < N)%nat)
    by (intros x Hx; subst N; rewrite size_msg; pose proof (in_sum_size x raw Hx); lia).
  clear EN.
  pose proof (wf_fields sc c WF) as W. revert W Sz. generalize (cngroups (get_class sc c)) as ng.
  generalize (cfields (get_class sc c)) as fs. clear t.
  induction raw as [|x raw IHr]; intros fs ng W Sz; [reflexivity|]. destruct fs as [|f fs]; [reflexivity|].
  cbn [forallb] in W. apply andb_prop in W as [W1 W2].
  rewrite (IHr fs ng W2) by (intros y Hy; apply Sz; right; exact Hy). f_equal.
  assert (Sx : (pv_size x < N)%nat) by (apply Sz; left; reflexivity).
  assert (Lst : forall l tt pp, (forall y, In y l -> (pv_size y < N)%nat) ->
            (fix all (l : list pv) : bool := match l with [] => true | y :: l' => elem_in_rangex sc tt pp y && all l' end) l
            = (fix all (l : list pv) : bool := match l with [] => true | y :: l' => elem_in_range sc tt pp y && all l' end) l).
  { induction l as [|y l IHl]; intros tt pp Hl; [reflexivity|].
    rewrite (IH y (Hl y (or_introl eq_refl))). rewrite (IHl tt pp) by (intros z Hz; apply Hl; right; exact Hz). reflexivity. }
  assert (Dct : forall d kt vt pp, (forall k y, In (k, y) d -> (pv_size y < N)%nat) ->
            (fix all (d : list (pv * pv)) : bool :=
               match d with [] => true | (k, y) :: d' => scalar_in_range kt k && elem_in_rangex sc vt pp y && all d' end) d
            = (fix all (d : list (pv * pv)) : bool :=
               match d with [] => true | (k, y) :: d' => scalar_in_range kt k && elem_in_range sc vt pp y && all d' end) d).
  { induction d as [|[k y] d IHd]; intros kt vt pp Hd; [reflexivity|].
    rewrite (IH y (Hd k y (or_introl eq_refl))). rewrite (IHd kt vt pp) by (intros k' z Hz; apply (Hd k'); right; exact Hz). reflexivity. }
  unfold elem_ptype.
  destruct (fhint f) as [p|p|p|pk p] eqn:Hh.
  - destruct x; try reflexivity; apply IH; exact Sx.
  - destruct x; try reflexivity; apply IH; exact Sx.
  - rewrite (wf_list_nowrap sc ng f p W1 Hh).
    destruct x as [| | | | | | | | |l| |]; try reflexivity. apply Lst.
    intros y Hy. rewrite size_list in Sx. pose proof (in_sum_size y l Hy). lia.
  - destruct x as [| | | | | | | | | |d|]; try reflexivity. destruct (fmap f) as [[kt vt]|]; [|reflexivity]. apply Dct.
    intros k y Hy. rewrite size_dict in Sx. pose proof (in_sum_size_d k y d Hy). lia.
Qed.

Lemma in_rangex_in_range sc o : wf_schema sc = true -> in_rangex sc o = in_range sc o.
Proof. intros WF. unfold in_rangex, in_range. apply rangex_range. exact WF. Qed.

Lemma good_goodx sc o : wf_schema sc = true -> good sc o = true -> goodx sc o = true.
Proof. intros WF G. unfold goodx. rewrite (in_rangex_in_range sc o WF). exact G. Qed.
