(* C01 — the property, assembled: existence of the encoding, what is decoded, equality, observers, stability. *)
From Coq Require Import ZArith List Bool Lia.
From BP Require Import Base.Prelude Model.Types Model.Object Model.Eq Model.Encode Model.Decode Model.WellFormed Model.C01Def.
From BP Require Import Proofs.C01Main Proofs.C01Stable Proofs.C01Eq Proofs.C01Obs.

Lemma c01_roundtrip sc m :
  c01_schema_ok sc = true -> c01_value_ok sc m = true ->
  exists bs, enc_obj sc m = Ok bs /\
    (Zlength bs < 2 ^ 64 ->
     exists m', parse sc (ocls m) bs = Ok m' /\ m' = norm_obj sc m /\
       (deep nan_free (PMsg m) = true -> obj_eq sc m m' = true) /\
       (forall g, which_one_of m' g = which_one_of m g) /\
       (sow_ok sc m = true -> obs_top sc m m' = true) /\
       enc_obj sc m' = Ok bs).
Proof.
  intros Hs Hv. destruct (c01_decode_is_norm sc m Hs Hv) as (bs & Eb & Hp).
  exists bs. split; [exact Eb|]. intros Hsm. exists (norm_obj sc m).
  split; [apply Hp; exact Hsm|]. split; [reflexivity|].
  split; [intros Hn; apply c01_decoded_equal; assumption|].
  split; [intros g; destruct m; reflexivity|].
  split; [intros Hw; apply c01_observers_agree; assumption|].
  rewrite (c01_reencode_stable sc m Hs Hv). exact Eb.
Qed.

(* the same with the property evaluated as the boolean the check uses on generated cases, restricted to the
   top-level observers *)
Lemma c01_which_one_of sc m g : which_one_of (norm_obj sc m) g = which_one_of m g.
Proof. destruct m. reflexivity. Qed.
