(* C01 source-translation tie: the Gallina obtained MECHANICALLY from the current Python source of
   Message._postprocess_single (coq/gen/C01Src.v, written by harness/gen_c01_src.py) is extensionally equal to the
   hand-written model: Model/Decode.v postprocess_varint (wire type 0), unpack_value (wire types 5 and 1), the UTF-8 decoder
   / bytes pass-through of the length-delimited arm, and - with the delegated message / map arms instantiated by the model's
   post_len / parse_new - Model/C01Def.v decode_value, the value a non-packed record gets inside Message.load.
   No fuel: the function has no loop.  Built only by the "source tie" stage of harness/props/c01.py. *)
From BP Require Import Base.Prelude Model.Types Model.Varint Model.Scalar Model.Float Model.Utf8.
From BP Require Import Model.Object Model.Eq Model.TimeCore Model.Encode Model.Decode Model.WellFormed Model.C01Def gen.Tables.
From BP Require Import Model.C16SrcLib Model.C09SrcLib Model.C01SrcLib gen.C01Src.
From BP Require Import Proofs.C01Scalar.
From Coq Require Import ZifyBool ZifyN.

Lemma src_c01_postprocess_present : src_c01_postprocess_translated = true.
Proof. reflexivity. Qed.

(* the module-level constants the translation read are the ones gen_tables.py reflected *)
Lemma src_post_consts_are_model :
  src01_WIRE_VARINT = WIRE_VARINT /\ src01_WIRE_FIXED_32 = WIRE_FIXED_32 /\ src01_WIRE_FIXED_64 = WIRE_FIXED_64 /\
  src01_WIRE_LEN_DELIM = WIRE_LEN_DELIM.
Proof. repeat split; reflexivity. Qed.

(* int(meta.proto_type[3:]) *)
Lemma py_bits_of_ptype t :
  py_int_of_ptype_suffix 3 t =
  if ptype_eqb t TInt32 then Ok 32 else if ptype_eqb t TInt64 then Ok 64 else Err EValue.
Proof. destruct t; reflexivity. Qed.

Section Post.
  Variables (S F : Type).
  Variables (msgarm maparm : S -> F -> py_meta -> pv -> result pv).
  Variables (self : S) (fname : F).
  Local Notation post := (src__postprocess_single S F msgarm maparm self).

  (* ---------- wire type 0: the eight varint kinds ---------- *)
  Theorem src_post_varint_is_model t w z :
    post WIRE_VARINT (mk_meta t w) fname (PInt z) = Ok (postprocess_varint t z).
  Proof. destruct t; reflexivity. Qed.

  (* a bool where the int is expected counts as 0 / 1, as everywhere in Python *)
  Theorem src_post_varint_bool t w b :
    post WIRE_VARINT (mk_meta t w) fname (PBool b) =
    if tmem t [TInt32; TInt64; TSInt32; TSInt64; TBool; TEnum] then Ok (postprocess_varint t (if b then 1 else 0))
    else Ok (PBool b).
  Proof. destruct t; reflexivity. Qed.

  (* any other value under wire type 0: TypeError in the six arms that compute, untouched in the two that do not *)
  Theorem src_post_varint_ill_typed t w v :
    int_like v = None ->
    post WIRE_VARINT (mk_meta t w) fname v =
    if tmem t [TInt32; TInt64; TSInt32; TSInt64; TBool; TEnum] then Err EType else Ok v.
  Proof. intros H. destruct v; try discriminate H; destruct t; reflexivity. Qed.

  (* ---------- wire types 5 and 1: struct.unpack ---------- *)
  Theorem src_post_fixed_is_model wt t w bs :
    wt = WIRE_FIXED_32 \/ wt = WIRE_FIXED_64 ->
    post wt (mk_meta t w) fname (PBytes bs) = unpack_value t bs.
  Proof.
    intros [-> | ->]; unfold src__postprocess_single, unpack_value, py_pack_fmt;
      cbn [meta_proto_type]; change (py_int_in _ _) with true; cbv iota;
      (destruct (pack_fmt t) as [[]|]; cbn [bind py_struct_unpack0];
       repeat match goal with |- context [Nat.eqb ?a ?b] => destruct (Nat.eqb a b) end;
       try reflexivity; destruct (unpack_int _ bs); reflexivity).
  Qed.

  Theorem src_post_fixed_ill_typed wt t w v :
    wt = WIRE_FIXED_32 \/ wt = WIRE_FIXED_64 -> (forall bs, v <> PBytes bs) ->
    post wt (mk_meta t w) fname v = match pack_fmt t with Some _ => Err EType | None => Err EKey end.
  Proof.
    intros [-> | ->] Hv; unfold src__postprocess_single, py_pack_fmt;
      cbn [meta_proto_type]; change (py_int_in _ _) with true; cbv iota;
      (destruct (pack_fmt t) as [f|]; [|reflexivity]; cbn [bind py_struct_unpack0];
       destruct v; try reflexivity; exfalso; eapply Hv; reflexivity).
  Qed.

  (* ---------- wire type 2: string, bytes, and the two delegated arms ---------- *)
  Definition post_len_arms (t : ptype) (w : option ptype) (v : pv) : result pv :=
    if ptype_eqb t TString then py_str_decode_utf8 v
    else if ptype_eqb t TMessage then msgarm self fname (mk_meta t w) v
    else if ptype_eqb t TMap then maparm self fname (mk_meta t w) v
    else Ok v.

  Lemma bind_ok_id {A} (r : result A) : bind r (fun x => Ok x) = r.
  Proof. destruct r; reflexivity. Qed.

  Theorem src_post_len_is_arms t w v :
    post WIRE_LEN_DELIM (mk_meta t w) fname v = post_len_arms t w v.
  Proof.
    unfold post_len_arms, src__postprocess_single, delegated_post_message, delegated_post_map.
    change (WIRE_LEN_DELIM =? src01_WIRE_VARINT) with false. change (py_int_in WIRE_LEN_DELIM _) with false.
    change (WIRE_LEN_DELIM =? src01_WIRE_LEN_DELIM) with true. cbv iota. cbn [meta_proto_type].
    unfold src01_TYPE_STRING, src01_TYPE_MESSAGE, src01_TYPE_MAP. cbv zeta.
    destruct (ptype_eqb t TString); [rewrite !bind_ok_id; reflexivity|].
    destruct (ptype_eqb t TMessage); [rewrite !bind_ok_id; reflexivity|].
    destruct (ptype_eqb t TMap); [rewrite !bind_ok_id; reflexivity|]. reflexivity.
  Qed.

  Theorem src_post_len_string w bs :
    post WIRE_LEN_DELIM (mk_meta TString w) fname (PBytes bs) = if utf8_valid bs then Ok (PStr bs) else Err EUnicode.
  Proof. rewrite src_post_len_is_arms. reflexivity. Qed.

  Theorem src_post_len_bytes w bs :
    post WIRE_LEN_DELIM (mk_meta TBytes w) fname (PBytes bs) = Ok (PBytes bs).
  Proof. rewrite src_post_len_is_arms. reflexivity. Qed.

  (* ---------- every other wire type (groups, or nonsense): the value is returned as it came ---------- *)
  Theorem src_post_other_wire wt m v :
    wt <> WIRE_VARINT -> wt <> WIRE_FIXED_32 -> wt <> WIRE_FIXED_64 -> wt <> WIRE_LEN_DELIM ->
    post wt m fname v = Ok v.
  Proof.
    intros H0 H5 H1 H2. unfold src__postprocess_single, py_int_in, existsb.
    unfold src01_WIRE_VARINT, src01_WIRE_FIXED_32, src01_WIRE_FIXED_64, src01_WIRE_LEN_DELIM.
    unfold WIRE_VARINT, WIRE_FIXED_32, WIRE_FIXED_64, WIRE_LEN_DELIM in *.
    replace (wt =? 0) with false by lia. replace (wt =? 5) with false by lia.
    replace (wt =? 1) with false by lia. replace (wt =? 2) with false by lia. reflexivity.
  Qed.

  (* the function never runs out of anything: no EFuel of its own *)
  Theorem src_post_no_fuel_scalar wt t w v :
    tmem t [TMessage; TMap] = false -> post wt (mk_meta t w) fname v <> Err EFuel.
  Proof.
    intros Ht.
    destruct (Z.eq_dec wt WIRE_VARINT) as [->|N0].
    { destruct (int_like v) as [z|] eqn:E.
      - destruct v; try discriminate E.
        + rewrite src_post_varint_is_model. discriminate.
        + rewrite src_post_varint_bool. match goal with |- context [if ?c then _ else _] => destruct c end; discriminate.
      - rewrite src_post_varint_ill_typed by exact E. match goal with |- context [if ?c then _ else _] => destruct c end; discriminate. }
    destruct (Z.eq_dec wt WIRE_FIXED_32) as [->|N5]; [|destruct (Z.eq_dec wt WIRE_FIXED_64) as [->|N1]].
    1,2: (destruct v; try (rewrite src_post_fixed_ill_typed by (auto; intros bs; discriminate);
                            destruct (pack_fmt t); discriminate);
          rewrite src_post_fixed_is_model by auto; unfold unpack_value, unpack_int;
          destruct (pack_fmt t) as [[]|]; cbn [fmt_int_range bind];
          repeat match goal with |- context [Nat.eqb ?a ?b] => destruct (Nat.eqb a b) end; discriminate).
    destruct (Z.eq_dec wt WIRE_LEN_DELIM) as [->|N2].
    { rewrite src_post_len_is_arms. unfold post_len_arms.
      destruct t; try discriminate Ht; cbn; try discriminate.
      destruct v; cbn; try discriminate. destruct (utf8_valid b); discriminate. }
    rewrite src_post_other_wire by assumption. discriminate.
  Qed.
End Post.

(* ---------- the tie to Message.load: decode_value of Model/C01Def.v (a verbatim sub-term of Decode.load) ---------- *)
Section Load.
  Variables (fuel' : nat) (sc : schema).

  (* what the pinned arms do, in the model's terms: `self` is not needed (the class table is [sc]), `field_name` is the
     field descriptor; a value that is not bytes cannot be parsed *)
  Definition model_msgarm (_ : unit) (f : fdesc) (m : py_meta) (v : pv) : result pv :=
    match v with
    | PBytes bs => post_len fuel' sc f TMessage (hint_elem (fhint f)) (meta_wraps m) bs
    | _ => Err EType
    end.
  Definition model_maparm (_ : unit) (f : fdesc) (m : py_meta) (v : pv) : result pv :=
    match v with
    | PBytes bs => bind (parse_new fuel' sc (fentry f) bs) (fun e => Ok (PMsg e))
    | _ => Err EType
    end.

  Definition meta_of (f : fdesc) : py_meta := mk_meta (fty f) (fwraps f).
  (* ParsedField.value: an int for a varint record, bytes otherwise *)
  Definition value_of (p : parsed) : pv := if pwt p =? WIRE_VARINT then PInt (pint p) else PBytes (pbytes p).

  Definition packed_record (f : fdesc) (p : parsed) : bool := (pwt p =? WIRE_LEN_DELIM) && tmem (fty f) PACKED_TYPES.

  Theorem src_post_is_decode_value f p :
    wire_type_fits f (pwt p) = true -> packed_record f p = false ->
    src__postprocess_single unit fdesc model_msgarm model_maparm tt (pwt p) (meta_of f) f (value_of p)
    = decode_value fuel' sc f p.
  Proof.
    intros Hfit Hnp. unfold decode_value, value_of, meta_of. unfold packed_record in Hnp. rewrite Hnp.
    unfold wire_type_fits in Hfit.
    destruct (pwt p =? WIRE_VARINT) eqn:E0.
    { apply Z.eqb_eq in E0. rewrite E0. apply src_post_varint_is_model. }
    destruct (pwt p =? WIRE_FIXED_32) eqn:E5.
    { apply Z.eqb_eq in E5. rewrite E5. cbn [orb]. apply src_post_fixed_is_model. auto. }
    destruct (pwt p =? WIRE_FIXED_64) eqn:E1.
    { apply Z.eqb_eq in E1. rewrite E1. cbn [orb]. apply src_post_fixed_is_model. auto. }
    cbn [orb].
    destruct (pwt p =? WIRE_LEN_DELIM) eqn:E2; [|discriminate Hfit].
    apply Z.eqb_eq in E2. rewrite E2. rewrite src_post_len_is_arms. unfold post_len_arms, post_len.
    cbn [andb] in Hnp.
    destruct (fty f) eqn:Et; try discriminate Hnp; cbn; try reflexivity.
    all: try (vm_compute in Hnp; discriminate Hnp).
    all: try (rewrite Hnp in Hfit; cbn in Hfit).
    all: try reflexivity.
  Qed.
End Load.

(* ---------- layer 1 of the round trip, reader side translated (the writer side is the model here; Proofs/C01SrcRt.v
   replaces it by the translations of gen/C09Src.v / gen/C16Src.v when those are available) ---------- *)
Definition src_fixed_wire (t : ptype) : Z := if tmem t WIRE_FIXED_32_TYPES then src01_WIRE_FIXED_32 else src01_WIRE_FIXED_64.

Section RtReader.
  Variables (S F : Type).
  Variables (msgarm maparm : S -> F -> py_meta -> pv -> result pv).
  Variables (self : S) (fname : F).
  Local Notation post := (src__postprocess_single S F msgarm maparm self).

  Theorem src_post_scalar_varint_rt msg t w v :
    tmem t WIRE_VARINT_TYPES = true -> scalar_in_range t v = true ->
    exists bs n, preprocess_with msg t None v = Ok bs /\ bs <> [] /\
                 (forall rest, load_varint (bs ++ rest) = Ok (n, bs, rest)) /\
                 post src01_WIRE_VARINT (mk_meta t w) fname (PInt n) = Ok v.
  Proof.
    intros Ht Hr. destruct (scalar_varint_rt msg t v Ht Hr) as (bs & n & E & N & L & P).
    exists bs, n. repeat split; auto.
    change src01_WIRE_VARINT with WIRE_VARINT. rewrite src_post_varint_is_model, P. reflexivity.
  Qed.

  Theorem src_post_scalar_fixed_rt t w v :
    tmem t FIXED_TYPES = true -> scalar_in_range t v = true ->
    exists bs, pack_value t v = Ok bs /\ length bs = fixed_size t /\
               post (src_fixed_wire t) (mk_meta t w) fname (PBytes bs) = Ok (norm_scalar t v).
  Proof.
    intros Ht Hr. destruct (scalar_fixed_rt t v Ht Hr) as (bs & P & L & U).
    exists bs. split; [exact P|]. split; [exact L|].
    rewrite src_post_fixed_is_model; [exact U|].
    unfold src_fixed_wire. destruct (tmem t WIRE_FIXED_32_TYPES); [left|right]; reflexivity.
  Qed.

  Theorem src_post_fixed_wire_irrelevant t w bs :
    post src01_WIRE_FIXED_32 (mk_meta t w) fname (PBytes bs) = post src01_WIRE_FIXED_64 (mk_meta t w) fname (PBytes bs).
  Proof. rewrite !src_post_fixed_is_model by (auto; right; reflexivity). reflexivity. Qed.

  Theorem src_post_bad_utf8 w bs :
    utf8_valid bs = false -> post src01_WIRE_LEN_DELIM (mk_meta TString w) fname (PBytes bs) = Err EUnicode.
  Proof. intros H. change src01_WIRE_LEN_DELIM with WIRE_LEN_DELIM. rewrite src_post_len_string, H. reflexivity. Qed.
End RtReader.
