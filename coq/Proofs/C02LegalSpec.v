(* C02, encoder side, specification layer.  Nothing here looks at the encoder: a record list whose records
   come field after field in declaration order ([okrs]), each record acceptable for its field, valid by
   itself and inside the scope of [supported] ([rec_fine]), and with at most one record for a singular
   message field, has a denotation ([sem] is defined) and is [supported]. *)
From BP Require Import Base.Prelude Model.Types Model.Object Model.WellFormed.
From BP Require Import Spec.Varint Spec.Wire.
From BP Require Import Proofs.C02Abs Proofs.C02WireP Proofs.C02ListP Proofs.C02StepP Proofs.C02SimP Proofs.C02StoreP Proofs.C02MapP.

(* ------------------------------------------------------------------ field lookup, the other way round *)
Lemma find_go_nth num fs : forall j i f,
  nodup_z (map fnum fs) = true -> nth_error fs i = Some f -> fnum f = num -> find_go num j fs = Some ((j + i)%nat, f).
Proof.
  induction fs as [|f0 fs IH]; intros j i f ND Hf Hn; [destruct i; discriminate|].
  cbn [map nodup_z] in ND. apply andb_true_iff in ND as [Hx ND]. cbn [find_go].
  destruct i as [|i]; cbn [nth_error] in Hf.
  - injection Hf as ->. rewrite Hn, Z.eqb_refl, Nat.add_0_r. reflexivity.
  - destruct (fnum f0 =? num) eqn:E.
    + exfalso. apply negb_true_iff in Hx.
      assert (existsb (Z.eqb (fnum f0)) (map fnum fs) = true); [|congruence].
      apply existsb_exists. exists (fnum f). split; [apply in_map; eapply nth_error_In; eauto | lia].
    + rewrite (IH (S j) i f ND Hf Hn). do 2 f_equal. lia.
Qed.

Lemma find_field_nth fs i f :
  nodup_z (map fnum fs) = true -> nth_error fs i = Some f -> find_field fs (fnum f) = Some (i, f).
Proof. intros ND Hf. change (find_go (fnum f) 0 fs = Some (i, f)). now rewrite (find_go_nth _ _ 0 i f ND Hf eq_refl). Qed.

Lemma nth_nil_map {A B} (l : list A) k : nth k (map (fun _ => @nil B) l) [] = [].
Proof. revert k; induction l as [|a l IH]; intros [|k]; cbn; auto. Qed.

Lemma nth_error_nth' {A} (l : list A) k d : (k < length l)%nat -> nth_error l k = Some (nth k l d).
Proof. revert k; induction l as [|a l IH]; intros [|k] H; cbn in *; try lia; [reflexivity | apply IH; lia]. Qed.

Lemma omap_all_defined {A B} (f : A -> option B) l :
  Forall (fun x => is_some (f x) = true) l -> exists r, omap_all f l = Some r.
Proof.
  induction 1 as [|x l Hx _ (r & IH)]; [exists []; reflexivity|].
  destruct (f x) as [y|] eqn:E; [|discriminate]. exists (y :: r). cbn [omap_all]. unfold obind. now rewrite E, IH.
Qed.

(* a singular field whose value is a message: the reference merges its occurrences, betterproto keeps the last;
   [supported] asks for at most one *)
Definition sing_msg (f : fdesc) : bool :=
  match card_of f, msg_class f with
  | (Explicit | Oneof _), Some _ => true
  | _, _ => false
  end.

Section Fine.
  Variable sc : schema.
  Variable nested : nat -> list byte -> option aval.
  Variable nested_ok : nat -> list byte -> bool.

  (* the part of [record_ok] that does not look at the payloads gathered so far *)
  Definition rec_sup (f : fdesc) (p : payload) : bool :=
    narrow_ok f p &&
    match card_of f with
    | MapOf => entry_clean sc f p && nested_ok (fentry f) (len_bytes p)
    | _ => match msg_class f with
           | Some c' => nested_ok c' (len_bytes p) && exact_ok nested f c' (len_bytes p)
           | None => true
           end
    end.

  Definition rec_fine (f : fdesc) (p : payload) : bool :=
    accepts sc f p && payload_valid nested f p && rec_sup f p.

  (* one element of a field that is not a map, whatever the cardinality *)
  Definition wire_match (f : fdesc) (p : payload) : bool :=
    match p, wire_of (fty f) with
    | Varint _, WVarint | Fixed64 _, WFixed64 | Fixed32 _, WFixed32 | Len _, WLen => true
    | _, _ => false
    end.

  Definition elem_fine (f : fdesc) (p : payload) : bool :=
    wire_match f p && is_some (elem_of nested f p) && narrow_ok f p &&
    match msg_class f with
    | Some c' => nested_ok c' (len_bytes p) && exact_ok nested f c' (len_bytes p)
    | None => true
    end.

  Lemma elem_rec_fine f p : card_of f <> MapOf -> elem_fine f p = true -> rec_fine f p = true.
  Proof.
    intros NM H. unfold elem_fine in H. apply andb_true_iff in H as [H Hs]. apply andb_true_iff in H as [H Hn].
    apply andb_true_iff in H as [Hw Hv].
    unfold rec_fine. apply andb_true_iff. split; [apply andb_true_iff; split|].
    - unfold accepts. apply andb_true_iff. split.
      + unfold fits. unfold wire_match in Hw. destruct p, (wire_of (fty f)); try discriminate Hw; reflexivity.
      + destruct (card_of f); try reflexivity. congruence.
    - unfold payload_valid. destruct (card_of f) eqn:C; try exact Hv; [|congruence].
      unfold elems_of. unfold wire_match in Hw.
      destruct p; try (destruct (elem_of nested f _); [reflexivity | discriminate Hv]).
      unfold packable. destruct (wire_of (fty f)); try discriminate Hw.
      destruct (elem_of nested f (Len b)); [reflexivity | discriminate Hv].
    - unfold rec_sup. rewrite Hn. cbn [andb]. destruct (card_of f); try exact Hs. congruence.
  Qed.

  Section Walk.
    Variable fs : list fdesc.
    Hypothesis ND : nodup_z (map fnum fs) = true.

    (* records field after field in declaration order; a singular message field at most once *)
    Inductive okrs : nat -> list record -> Prop :=
    | okrs_nil lo : okrs lo []
    | okrs_cons lo r rs i f :
        nth_error fs i = Some f -> fst r = fnum f -> (lo <= i)%nat -> rec_fine f (snd r) = true ->
        okrs (if sing_msg f then S i else i) rs -> okrs lo (r :: rs).

    Lemma okrs_weaken lo lo' rs : okrs lo rs -> (lo' <= lo)%nat -> okrs lo' rs.
    Proof. intros H L. destruct H; [constructor|]. econstructor; eauto. lia. Qed.

    (* the records of slot i followed by the records of the later slots *)
    Lemma okrs_slot i f rs rest :
      nth_error fs i = Some f ->
      Forall (fun r => fst r = fnum f /\ rec_fine f (snd r) = true) rs ->
      (sing_msg f = true -> (length rs <= 1)%nat) ->
      okrs (S i) rest -> okrs i (rs ++ rest).
    Proof.
      intros Hf Hall Hone Hrest.
      destruct (sing_msg f) eqn:SM.
      - specialize (Hone eq_refl). destruct rs as [|r [|r2 rs]]; cbn [length] in Hone; try lia.
        + cbn [app]. eapply okrs_weaken; [exact Hrest | lia].
        + inversion Hall as [|? ? [H1 H2] _]; subst. cbn [app]. eapply okrs_cons; eauto. rewrite SM. exact Hrest.
      - clear Hone. induction Hall as [|r rs [H1 H2] _ IH]; [cbn [app]; eapply okrs_weaken; [exact Hrest | lia]|].
        cbn [app]. eapply okrs_cons; eauto. rewrite SM. exact IH.
    Qed.

    (* what the gathered payloads look like while such a list is being read *)
    Definition J (lo : nat) (st : list (list payload)) : Prop :=
      length st = length fs /\
      forall k fk, nth_error fs k = Some fk ->
        Forall (fun p => payload_valid nested fk p = true) (nth k st []) /\
        (sing_msg fk = true -> (length (nth k st []) <= 1)%nat /\ ((lo <= k)%nat -> nth k st [] = [])).

    Lemma J_init : J 0 (map (fun _ => []) fs).
    Proof.
      split; [apply map_length|]. intros k fk _. rewrite nth_nil_map. split; [constructor|]. intros _. split; [cbn; lia | reflexivity].
    Qed.

    Lemma record_ok_fine acc r i f :
      find_field fs (fst r) = Some (i, f) -> rec_fine f (snd r) = true ->
      (sing_msg f = true -> nth i (fst acc) [] = []) ->
      record_ok sc nested nested_ok fs acc r = true.
    Proof.
      intros Hfind Hfine Hnil. unfold record_ok. rewrite Hfind.
      unfold rec_fine in Hfine. apply andb_true_iff in Hfine as [Hfine Hs]. apply andb_true_iff in Hfine as [Ha _].
      unfold accepts in Ha. apply andb_true_iff in Ha as [Hfit _]. rewrite Hfit.
      unfold rec_sup in Hs. apply andb_true_iff in Hs as [Hn Hs]. rewrite Hn. cbn [andb].
      unfold sing_msg in Hnil.
      destruct (card_of f) eqn:C; try exact Hs; destruct (msg_class f) as [c'|]; try reflexivity;
        rewrite Hs; cbn [andb]; try reflexivity; rewrite Hnil by reflexivity; reflexivity.
    Qed.

    Lemma walk rs : forall lo st u,
      okrs lo rs -> J lo st ->
      forallb (record_valid nested sc fs) rs = true /\
      records_ok sc nested nested_ok fs (st, u) rs = true /\
      exists lo', J lo' (fst (fold_left (gather_step sc fs) rs (st, u))).
    Proof.
      induction rs as [|r rs IH]; intros lo st u Hok HJ.
      { split; [reflexivity|]. split; [reflexivity|]. exists lo. exact HJ. }
      inversion Hok as [|? ? ? i f Hf Hnum Hlo Hfine Hrest]; subst.
      pose proof (find_field_nth fs i f ND Hf) as Hfind. rewrite <- Hnum in Hfind.
      assert (Hacc : accepts sc f (snd r) = true /\ payload_valid nested f (snd r) = true).
      { unfold rec_fine in Hfine. apply andb_true_iff in Hfine as [Hfine _]. now apply andb_true_iff in Hfine. }
      destruct Hacc as (Hacc & Hval). destruct HJ as (Lst & HJ).
      assert (Hstep : gather_step sc fs (st, u) r = (add_payload i f (snd r) 0 fs st, u)).
      { unfold gather_step. destruct r as [num p]. cbn [fst snd] in *. now rewrite Hfind, Hacc. }
      assert (HJ' : J (if sing_msg f then S i else i) (add_payload i f (snd r) 0 fs st)).
      { split; [now apply add_payload_length|]. intros k fk Hk.
        pose proof (nth_error_Some_lt _ _ _ Hk) as Lk.
        assert (Hps : nth_error st k = Some (nth k st [])) by (apply nth_error_nth'; lia).
        pose proof (add_payload_nth i f (snd r) fs 0 st k fk _ Hk Hps) as Hn. cbn [Nat.add] in Hn.
        rewrite (nth_of_nth_error _ _ _ [] Hn).
        destruct (HJ k fk Hk) as (Hv & Hs).
        destruct (Nat.eqb_spec k i) as [->|Hne].
        - assert (fk = f) by congruence. subst fk. split.
          + apply Forall_app. split; [exact Hv | constructor; [exact Hval | constructor]].
          + intros SM. destruct (Hs SM) as (_ & Hnil). rewrite (Hnil Hlo), SM. cbn [app length]. split; [lia | intros; lia].
        - destruct (same_group f fk).
          + split; [constructor|]. intros _. split; [cbn; lia | reflexivity].
          + split; [exact Hv|]. intros SM. destruct (Hs SM) as (Hl & Hnil). split; [exact Hl|].
            intros Hk2. apply Hnil. destruct (sing_msg f); lia. }
      cbn [forallb records_ok fold_left]. rewrite Hstep.
      destruct (IH _ _ u Hrest HJ') as (V & S & lo' & HJ2).
      split; [|split; [|exists lo'; exact HJ2]].
      - apply andb_true_iff. split; [|exact V]. unfold record_valid. now rewrite Hfind, Hacc.
      - apply andb_true_iff. split; [|exact S].
        apply (record_ok_fine (st, u) r i f Hfind Hfine). intros SM. cbn [fst].
        destruct (HJ i f Hf) as (_ & Hs). now apply (proj2 (Hs SM)).
    Qed.

    (* every field's payload list has a denotation *)
    Lemma interp_defined f ps :
      Forall (fun p => payload_valid nested f p = true) ps ->
      (sing_msg f = true -> (length ps <= 1)%nat) ->
      exists a, interp_field nested sc f ps = Some a.
    Proof.
      intros Hv Hone. unfold interp_field, sing_msg, payload_valid in *.
      destruct (card_of f) eqn:C.
      - (* implicit: never a message *)
        assert (Hm : msg_class f = None).
        { unfold card_of, msg_class in *. destruct (fhint f); try discriminate C.
          destruct (fgroup f); [discriminate|]. destruct (fty f); try reflexivity; discriminate. }
        unfold elem_of in Hv. rewrite Hm in Hv.
        destruct (omap_all_defined (scalar_of (fty f)) ps Hv) as (vs & ->). eexists. reflexivity.
      - destruct (msg_class f) as [c'|] eqn:M.
        + destruct ps as [|p [|p2 ps]].
          * eexists; reflexivity.
          * inversion Hv as [|? ? Hp _]; subst. unfold elem_of in Hp. rewrite M in Hp.
            cbn [map concat]. rewrite app_nil_r.
            destruct (nested c' (len_bytes p)); [eexists; reflexivity | discriminate].
          * specialize (Hone eq_refl). cbn [length] in Hone. lia.
        + unfold elem_of in Hv. rewrite M in Hv.
          destruct (omap_all_defined (scalar_of (fty f)) ps Hv) as (vs & ->). eexists. reflexivity.
      - destruct (msg_class f) as [c'|] eqn:M.
        + destruct ps as [|p [|p2 ps]].
          * eexists; reflexivity.
          * inversion Hv as [|? ? Hp _]; subst. unfold elem_of in Hp. rewrite M in Hp.
            cbn [map concat]. rewrite app_nil_r.
            destruct (nested c' (len_bytes p)); [eexists; reflexivity | discriminate].
          * specialize (Hone eq_refl). cbn [length] in Hone. lia.
        + unfold elem_of in Hv. rewrite M in Hv.
          destruct (omap_all_defined (scalar_of (fty f)) ps Hv) as (vs & ->). eexists. reflexivity.
      - destruct (omap_all_defined (elems_of nested f) ps Hv) as (ls & ->). eexists. reflexivity.
      - destruct (omap_all_defined (fun p => nested (fentry f) (len_bytes p)) ps Hv) as (es & ->). eexists. reflexivity.
    Qed.

    Lemma interp_all lo st :
      J lo st -> exists fields, omap_all (fun '(f, ps) => interp_field nested sc f ps) (combine fs st) = Some fields.
    Proof.
      intros (Lst & HJ). apply omap_all_defined. apply Forall_forall. intros [f ps] Hin.
      apply In_nth_error in Hin as (k & Hk).
      assert (Hf : nth_error fs k = Some f /\ nth_error st k = Some ps).
      { clear - Hk. revert fs st Hk. induction k as [|k IH]; intros [|f0 fs] [|p0 st] H; cbn in *; try discriminate.
        - injection H as -> ->. auto.
        - apply IH. exact H. }
      destruct Hf as (Hf & Hps). destruct (HJ k f Hf) as (Hv & Hs).
      rewrite (nth_of_nth_error _ _ _ [] Hps) in Hv, Hs.
      destruct (interp_defined f ps Hv (fun SM => proj1 (Hs SM))) as (a & ->). reflexivity.
    Qed.
  End Walk.
End Fine.

(* ------------------------------------------------------------------ sem and supported at one nesting depth *)
Definition nested_ok_of (n' : nat) (sc : schema) (c' : nat) (b : list byte) : bool :=
  match parse_wire b with Some rs' => supported n' sc c' rs' | None => true end.

Lemma supported_S n' sc c rs :
  supported (S n') sc c rs =
  records_ok sc (nested_sem n' sc) (nested_ok_of n' sc) (cfields (get_class sc c))
             (map (fun _ => []) (cfields (get_class sc c)), []) rs.
Proof. reflexivity. Qed.

Lemma sem_S n' sc c rs :
  sem (S n') sc c rs =
  (let fs := cfields (get_class sc c) in
   if forallb (record_valid (nested_sem n' sc) sc fs) rs then
     let '(st, unk) := gather sc fs rs in
     let? fields := omap_all (fun '(f, ps) => interp_field (nested_sem n' sc) sc f ps) (combine fs st) in
     Some (AMsg fields unk)
   else None).
Proof. reflexivity. Qed.

Theorem okrs_sem n' sc c rs :
  nodup_z (map fnum (cfields (get_class sc c))) = true ->
  okrs sc (nested_sem n' sc) (nested_ok_of n' sc) (cfields (get_class sc c)) 0 rs ->
  (exists a, sem (S n') sc c rs = Some a) /\ supported (S n') sc c rs = true.
Proof.
  intros ND Hok.
  destruct (walk sc (nested_sem n' sc) (nested_ok_of n' sc) _ ND rs 0 _ [] Hok (J_init (nested_sem n' sc) (nested_ok_of n' sc) _))
    as (V & S & lo' & HJ).
  split; [|rewrite supported_S; exact S].
  rewrite sem_S. cbv zeta. rewrite V. unfold gather.
  destruct (fold_left _ rs _) as [st unk] eqn:G. cbn [fst] in HJ.
  destruct (interp_all sc (nested_sem n' sc) (nested_ok_of n' sc) _ lo' st HJ) as (fields & ->). eexists. reflexivity.
Qed.
