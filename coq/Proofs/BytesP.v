(* Facts about bytes, little-endian strings and the bit operations the code uses. *)
From BP Require Import Base.Prelude.
From Coq Require Import ZifyBool ZifyN.
Ltac Zify.zify_post_hook ::= Z.to_euclidean_division_equations.

Lemma Z_of_byte_range b : 0 <= Z_of_byte b < 256.
Proof.
  unfold Z_of_byte. pose proof (Byte.to_N_bounded b). lia.
Qed.

Lemma byte_of_Z_of_byte b : byte_of_Z (Z_of_byte b) = b.
Proof.
  unfold byte_of_Z, Z_of_byte. rewrite N2Z.id, Byte.of_to_N. reflexivity.
Qed.

Lemma Z_of_byte_of_Z z : 0 <= z < 256 -> Z_of_byte (byte_of_Z z) = z.
Proof.
  intros Hz. unfold byte_of_Z, Z_of_byte.
  destruct (Byte.of_N (Z.to_N z)) as [b|] eqn:E.
  - apply Byte.to_of_N in E. rewrite E. lia.
  - apply Byte.of_N_None_iff in E. lia.
Qed.

Lemma Z_of_byte_inj a b : Z_of_byte a = Z_of_byte b -> a = b.
Proof.
  intros H. rewrite <- (byte_of_Z_of_byte a), <- (byte_of_Z_of_byte b), H. reflexivity.
Qed.

Lemma bytes_eqb_eq a b : bytes_eqb a b = true <-> a = b.
Proof.
  revert b; induction a as [|x a IH]; intros [|y b]; cbn; try (split; congruence).
  rewrite andb_true_iff, IH. split.
  - intros [H ->]. apply Byte.byte_dec_bl in H. congruence.
  - intros [= -> ->]. split; [apply Byte.byte_dec_lb|]; reflexivity.
Qed.

(* ---- bit operations as arithmetic ---- *)
Lemma land_127 v : Z.land v 127 = v mod 128.
Proof. change 127 with (Z.ones 7). rewrite Z.land_ones by lia. reflexivity. Qed.

Lemma land_1 v : Z.land v 1 = v mod 2.
Proof. change 1 with (Z.ones 1) at 1. rewrite Z.land_ones by lia. reflexivity. Qed.

Lemma shiftr_7 v : Z.shiftr v 7 = v / 128.
Proof. rewrite Z.shiftr_div_pow2 by lia. reflexivity. Qed.

Lemma shiftr_1 v : Z.shiftr v 1 = v / 2.
Proof. rewrite Z.shiftr_div_pow2 by lia. reflexivity. Qed.

Lemma shiftl_1 v : Z.shiftl v 1 = 2 * v.
Proof. rewrite Z.shiftl_mul_pow2 by lia. lia. Qed.

(* a | b = a + b when the operands share no bits *)
Lemma lor_disjoint_add a b : Z.land a b = 0 -> Z.lor a b = a + b.
Proof. intros H. rewrite <- Z.lxor_lor by exact H. symmetry. apply Z.add_nocarry_lxor, H. Qed.

Lemma land_128_low x : 0 <= x < 128 -> Z.land 128 x = 0.
Proof.
  intros Hx. replace x with (Z.land x 127) by (rewrite land_127; apply Z.mod_small; lia).
  rewrite (Z.land_comm x 127), Z.land_assoc. reflexivity.
Qed.

Lemma lor_128_low x : 0 <= x < 128 -> Z.lor 128 x = 128 + x.
Proof. intros Hx. apply lor_disjoint_add, land_128_low, Hx. Qed.

Lemma land_128 b : 0 <= b < 256 -> Z.land b 128 = if b <? 128 then 0 else 128.
Proof.
  intros Hb.
  assert (E : b = 128 * (b / 128) + b mod 128) by (apply Z.div_mod; lia).
  assert (Hq : b / 128 = 0 \/ b / 128 = 1) by lia.
  destruct (b <? 128) eqn:Hlt.
  - rewrite Z.land_comm. apply land_128_low. lia.
  - assert (Hb' : b = 128 + b mod 128) by lia.
    rewrite Hb' at 1. rewrite <- lor_128_low by lia.
    rewrite Z.land_lor_distr_l. rewrite Z.land_diag.
    rewrite (Z.land_comm (b mod 128)). rewrite land_128_low by lia. reflexivity.
Qed.

(* low bits below `shift` and a value shifted by `shift` are disjoint *)
Lemma lor_shiftl_add acc x shift :
  0 <= shift -> 0 <= acc < 2 ^ shift -> 0 <= x ->
  Z.lor acc (Z.shiftl x shift) = acc + x * 2 ^ shift.
Proof.
  intros Hs Ha Hx. rewrite Z.shiftl_mul_pow2 by lia.
  apply lor_disjoint_add.
  apply Z.bits_inj'. intros n Hn. rewrite Z.land_spec, Z.bits_0.
  destruct (Z.lt_ge_cases n shift) as [Hlt|Hge].
  - rewrite Z.mul_pow2_bits_low by lia. apply andb_false_r.
  - replace (Z.testbit acc n) with false; [reflexivity|].
    symmetry. destruct (Z.eq_dec acc 0) as [->|Hne]; [apply Z.bits_0|].
    apply Z.bits_above_log2; [lia|].
    apply Z.log2_lt_pow2; [lia|].
    apply Z.lt_le_trans with (2 ^ shift); [lia|]. apply Z.pow_le_mono_r; lia.
Qed.

(* ---- little-endian strings ---- *)
Lemma le_bytes_length n z : length (le_bytes n z) = n.
Proof. revert z; induction n as [|n IH]; intros z; cbn; [reflexivity|]. rewrite IH. reflexivity. Qed.

Lemma le_value_range bs : 0 <= le_value bs < 256 ^ Z.of_nat (length bs).
Proof.
  induction bs as [|b r IH]; cbn [le_value length]; [cbn; lia|].
  pose proof (Z_of_byte_range b).
  rewrite Nat2Z.inj_succ, Z.pow_succ_r by lia. lia.
Qed.

Lemma le_value_le_bytes n z :
  0 <= z < 256 ^ Z.of_nat n -> le_value (le_bytes n z) = z.
Proof.
  revert z; induction n as [|n IH]; intros z Hz.
  - cbn in *. lia.
  - cbn [le_bytes le_value]. rewrite Nat2Z.inj_succ, Z.pow_succ_r in Hz by lia.
    rewrite Z_of_byte_of_Z by (apply Z.mod_pos_bound; lia).
    rewrite IH by lia. lia.
Qed.

Lemma le_bytes_le_value bs : le_bytes (length bs) (le_value bs) = bs.
Proof.
  induction bs as [|b r IH]; cbn [le_bytes le_value length]; [reflexivity|].
  pose proof (Z_of_byte_range b).
  replace ((Z_of_byte b + 256 * le_value r) mod 256) with (Z_of_byte b) by lia.
  replace ((Z_of_byte b + 256 * le_value r) / 256) with (le_value r) by lia.
  rewrite byte_of_Z_of_byte, IH. reflexivity.
Qed.
