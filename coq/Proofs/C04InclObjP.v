(* C04 (include_default_values generic, wfx schemas), object level (A): from_dict (class form) applied to
   to_dict(m, include_default_values=incl) - directly or through the JSON text - returns exactly gnorm_obj incl m. *)
From BP Require Import Base.Prelude Model.Types Model.Float Model.Utf8 Model.Object Model.Eq Model.TimeCore.
From BP Require Import Model.Encode Model.WellFormed Model.Json Model.C04RepWrap.
From BP Require Model.Casing.
From BP Require Import gen.Tables Proofs.BytesP Proofs.C04Def Proofs.C04ScalarP Proofs.C04ElemP Proofs.C04FieldP Proofs.C04ObjP
  Proofs.C04InclDef Proofs.C04InclBaseP Proofs.C04InclFieldP.
From Coq Require Import Lia ZifyBool.

(* ---------------------------------------------------------------------------------- *)
(* the loops, named                                                                    *)
(* ---------------------------------------------------------------------------------- *)
Section Loops.
  Variable cs : casing.
  Variable sc : schema.
  Variable incl : bool.
  Variable cur : list (option nat).

  Definition drec : obj -> json := fun o' => if incl then default_dict default_fuel cs sc (ocls o') else JObj [].

  Definition td_head (sel : option bool) (f : fdesc) (x : pv) : option json :=
    match sel with
    | Some false => None
    | sel =>
        match x with
        | PPlaceholder => field_to_json drec sc incl f sel (default_of sc f)
        | _ => field_to_json (to_dict cs incl sc) sc incl f sel x
        end
    end.

  Fixpoint td_itemsG (i : nat) (raw : list pv) (fs : list fdesc) {struct raw} : list (list byte * json) :=
    match raw, fs with
    | x :: raw', f :: fs' =>
        (match td_head (group_selects cur f i) f x with Some j => [(key_of_field cs f, j)] | None => [] end)
        ++ td_itemsG (S i) raw' fs'
    | _, _ => []
    end.

  Definition gfield (sel : option bool) (f : fdesc) (x : pv) : option pv := gfield_opt (gnorm_pv incl sc) sc incl sel f x.

  Fixpoint gnorm_raw (i : nat) (raw : list pv) (fs : list fdesc) {struct raw} : list pv :=
    match raw, fs with
    | x :: raw', f :: fs' => or_sentinel f (gfield (group_selects cur f i) f x) :: gnorm_raw (S i) raw' fs'
    | _, fs' => map sentinel fs'
    end.

  (* the keyword arguments the round trip passes to the constructor *)
  Fixpoint kw_listG (i : nat) (raw : list pv) (fs : list fdesc) {struct raw} : list (nat * pv) :=
    match raw, fs with
    | x :: raw', f :: fs' =>
        (match gfield (group_selects cur f i) f x with Some v => [(i, v)] | None => [] end) ++ kw_listG (S i) raw' fs'
    | _, _ => []
    end.
End Loops.

Lemma to_dict_unfoldG cs incl sc c raw s u g :
  to_dict cs incl sc (Obj c raw s u g) = JObj (dict_norm (td_itemsG cs sc incl g O raw (cfields (get_class sc c)))).
Proof.
  cbn [to_dict]. f_equal. f_equal. generalize O. generalize (cfields (get_class sc c)).
  induction raw as [|x raw IH]; intros fs i; [reflexivity|]. destruct fs as [|f fs]; [reflexivity|].
  cbn [td_itemsG]. rewrite <- IH. f_equal. unfold td_head, drec.
  destruct (group_selects g f i) as [[|]|]; reflexivity.
Qed.

Lemma gnorm_obj_unfold incl sc c raw s u g :
  gnorm_obj incl sc (Obj c raw s u g) = set_sow (post_init sc c (gnorm_raw sc incl g O raw (cfields (get_class sc c)))).
Proof. reflexivity. Qed.

(* ---------------------------------------------------------------------------------- *)
(* the value gfield passes on                                                           *)
(* ---------------------------------------------------------------------------------- *)
Definition simple_pv (y : pv) : bool :=
  match y with
  | PInt _ | PFloat _ | PBool _ | PStr _ | PBytes _ | PDatetime _ | PTimedelta _ | PList [] | PDict [] => true
  | _ => false
  end.

Lemma gnorm_simple incl sc y : simple_pv y = true -> gnorm_pv incl sc y = y.
Proof. destruct y as [| | | | | | | | |[|? ?]|[|? ?]|]; try discriminate; reflexivity. Qed.

Lemma dnorm_sow fuel sc c : osow (dnorm fuel sc c) = true.
Proof. destruct fuel; reflexivity. Qed.

Lemma mark_present sc o : osow o = true -> (if fieldless sc (PMsg o) then mark_sow (PMsg o) else PMsg o) = PMsg o.
Proof. destruct o as [c r s u g]. cbn [osow]. intros ->. destruct (fieldless sc _); reflexivity. Qed.

Lemma gfield_some incl sc sel f x v : gfield sc incl sel f x = Some v ->
  sel <> Some false /\ x <> PNone /\
  ((x = PPlaceholder /\ v = default_of sc f /\ emittedG sc incl f sel v = true /\ v <> PNone /\ v <> PPlaceholder /\
    match v with PMsg _ => False | _ => True end)
   \/ (x = PPlaceholder /\ incl = true /\ exists o, default_of sc f = PMsg o /\ v = PMsg (dnorm default_fuel sc (ocls o)))
   \/ (x <> PPlaceholder /\ emittedG sc incl f sel x = true /\ v = gnorm_pv incl sc x)).
Proof.
  unfold gfield, gfield_opt. intros H.
  assert (Hs : sel <> Some false) by (intros ->; discriminate H).
  split; [exact Hs|].
  assert (H' : match x with
               | PNone => None
               | PPlaceholder =>
                   match default_of sc f with
                   | PNone | PPlaceholder => None
                   | PMsg o => if incl then Some (PMsg (dnorm default_fuel sc (ocls o))) else None
                   | y => if emittedG sc incl f sel y then Some y else None
                   end
               | _ => if emittedG sc incl f sel x then Some (gnorm_pv incl sc x) else None
               end = Some v) by (destruct sel as [[|]|]; [exact H|congruence|exact H]).
  clear H. split; [intros ->; discriminate H'|].
  destruct x; cbv beta iota in H'; try discriminate H';
    try (right; right; split; [discriminate|]; match type of H' with (if ?c then _ else _) = _ => destruct c; [|discriminate H'] end;
         split; [reflexivity|]; inversion H'; reflexivity).
  destruct (default_of sc f) eqn:D; cbv beta iota zeta in H'; try discriminate H';
    try (left; split; [reflexivity|];
         match type of H' with (if ?c then _ else _) = _ => destruct c eqn:E; [|discriminate H'] end;
         inversion H'; subst v; repeat split; try exact E; try discriminate; exact I).
  right. left. split; [reflexivity|]. destruct incl; [|discriminate H']. split; [reflexivity|].
  exists o. split; [reflexivity|]. inversion H'; reflexivity.
Qed.

Lemma gnorm_not_ph incl sc x : x <> PPlaceholder -> gnorm_pv incl sc x <> PPlaceholder.
Proof. destruct x as [| | | | | | | | | | |[c r s u g]]; cbn [gnorm_pv]; congruence. Qed.
Lemma gnorm_not_none incl sc x : x <> PNone -> gnorm_pv incl sc x <> PNone.
Proof. destruct x as [| | | | | | | | | | |[c r s u g]]; cbn [gnorm_pv]; congruence. Qed.

Lemma gfield_not_ph incl sc sel f x v : gfield sc incl sel f x = Some v -> v <> PPlaceholder /\ v <> PNone.
Proof.
  intros H. destruct (gfield_some _ _ _ _ _ _ H) as [_ [Hn [[_ [_ [_ [A [B _]]]]]|[[_ [_ [o [_ ->]]]]|[Hp [_ ->]]]]]].
  - split; assumption.
  - split; discriminate.
  - split; [apply gnorm_not_ph; exact Hp|apply gnorm_not_none; exact Hn].
Qed.

Lemma gfield_mark incl sc sel f x v : gfield sc incl sel f x = Some v ->
  (if fieldless sc v then mark_sow v else v) = v.
Proof.
  intros H. destruct (gfield_some _ _ _ _ _ _ H) as [_ [_ [[_ [_ [_ [_ [_ M]]]]]|[[_ [_ [o [_ ->]]]]|[_ [_ ->]]]]]].
  - destruct v; try reflexivity. contradiction.
  - apply mark_present, dnorm_sow.
  - destruct (fieldless sc (gnorm_pv incl sc x)); [|reflexivity].
    destruct x as [| | | | | | | | | | |[c raw s u g]]; try reflexivity.
Qed.

Lemma gfield_false incl sc f x : gfield sc incl (Some false) f x = None.
Proof. reflexivity. Qed.
Lemma gfield_none incl sc sel f : gfield sc incl sel f PNone = None.
Proof. unfold gfield, gfield_opt. destruct sel as [[|]|]; reflexivity. Qed.

(* ---------------------------------------------------------------------------------- *)
(* kw lists                                                                            *)
(* ---------------------------------------------------------------------------------- *)
Lemma kw_listG_ge sc incl cur i raw fs j : In j (map fst (kw_listG sc incl cur i raw fs)) -> (i <= j)%nat.
Proof.
  revert i fs. induction raw as [|x raw IH]; intros i fs H; [destruct H|].
  destruct fs as [|f fs]; [destruct H|]. cbn [kw_listG] in H. rewrite map_app in H. apply in_app_or in H as [H|H].
  - destruct (gfield sc incl (group_selects cur f i) f x); [|destruct H]. destruct H as [H|[]]. cbn in H. lia.
  - specialize (IH _ _ H). lia.
Qed.

Lemma kw_listG_nodup sc incl cur i raw fs : NoDup (map fst (kw_listG sc incl cur i raw fs)).
Proof.
  revert i fs. induction raw as [|x raw IH]; intros i fs; [constructor|].
  destruct fs as [|f fs]; [constructor|]. cbn [kw_listG]. rewrite map_app.
  assert (T : NoDup (map fst (kw_listG sc incl cur (S i) raw fs))) by apply IH.
  assert (G : ~ In i (map fst (kw_listG sc incl cur (S i) raw fs))) by (intros I; apply kw_listG_ge in I; lia).
  destruct (gfield sc incl (group_selects cur f i) f x); [|exact T]. cbn [map fst app]. constructor; assumption.
Qed.

Lemma fold_kwG sc incl cur pre i raw fs :
  length pre = i -> length raw = length fs ->
  fold_left (kw_step sc) (kw_listG sc incl cur i raw fs) (pre ++ map sentinel fs) = pre ++ gnorm_raw sc incl cur i raw fs.
Proof.
  revert pre i fs. induction raw as [|x raw IH]; intros pre i fs Hp Hl.
  - destruct fs; [reflexivity|discriminate Hl].
  - destruct fs as [|f fs]; [discriminate Hl|]. cbn [length] in Hl. injection Hl as Hl.
    cbn [kw_listG gnorm_raw map]. rewrite fold_left_app.
    destruct (gfield sc incl (group_selects cur f i) f x) as [v|] eqn:G; cbn [or_sentinel].
    + cbn [fold_left kw_step]. rewrite (gfield_mark _ _ _ _ _ _ G). subst i. rewrite set_nth_app.
      replace (pre ++ v :: map sentinel fs) with ((pre ++ [v]) ++ map sentinel fs) by (rewrite <- app_assoc; reflexivity).
      rewrite IH; [rewrite <- app_assoc; reflexivity| rewrite app_length; cbn; lia | exact Hl].
    + cbn [fold_left].
      replace (pre ++ sentinel f :: map sentinel fs) with ((pre ++ [sentinel f]) ++ map sentinel fs)
        by (rewrite <- app_assoc; reflexivity).
      rewrite IH; [rewrite <- app_assoc; reflexivity| rewrite app_length; cbn; lia | exact Hl].
Qed.

Lemma construct_kwG sc incl c cur raw :
  length raw = length (cfields (get_class sc c)) ->
  construct sc c (kw_listG sc incl cur O raw (cfields (get_class sc c))) =
  post_init sc c (gnorm_raw sc incl cur O raw (cfields (get_class sc c))).
Proof.
  intros Hl. unfold construct. f_equal.
  change (fun (r : list pv) '(i, v) => set_nth i (if fieldless sc v then mark_sow v else v) r) with (kw_step sc).
  assert (E : oraw (new sc c) = map sentinel (cfields (get_class sc c))) by reflexivity.
  rewrite E. exact (fold_kwG sc incl cur [] O raw _ eq_refl Hl).
Qed.

(* ---------------------------------------------------------------------------------- *)
(* keys of the emitted items                                                            *)
(* ---------------------------------------------------------------------------------- *)
Lemma td_itemsG_keys cs sc incl cur i raw fs k :
  In k (map fst (td_itemsG cs sc incl cur i raw fs)) -> In k (map (key_of_field cs) fs).
Proof.
  revert i fs. induction raw as [|x raw IH]; intros i fs H; [destruct H|]. destruct fs as [|f fs]; [destruct H|].
  cbn [td_itemsG] in H. rewrite map_app in H. apply in_app_or in H as [H|H].
  - left. destruct (td_head cs sc incl (group_selects cur f i) f x); [|destruct H]. destruct H as [H|[]]. exact H.
  - right. exact (IH _ _ H).
Qed.

Lemma td_itemsG_nodup cs sc incl cur i raw fs :
  NoDup (map (key_of_field cs) fs) -> NoDup (map fst (td_itemsG cs sc incl cur i raw fs)).
Proof.
  revert i fs. induction raw as [|x raw IH]; intros i fs N; [constructor|]. destruct fs as [|f fs]; [constructor|].
  cbn [td_itemsG]. rewrite map_app. cbn [map] in N. inversion N as [|? ? N1 N2]; subst.
  destruct (td_head cs sc incl (group_selects cur f i) f x); cbn [map fst app].
  - constructor; [|apply IH, N2]. intros I. apply N1. exact (td_itemsG_keys _ _ _ _ _ _ _ _ I).
  - apply IH, N2.
Qed.

(* ---------------------------------------------------------------------------------- *)
(* defaults                                                                            *)
(* ---------------------------------------------------------------------------------- *)
(* a value without a message inside is printed without the recursive printer *)
Lemma field_to_json_simple rec rec' sc incl f sel y :
  simple_pv y = true -> field_to_json rec sc incl f sel y = field_to_json rec' sc incl f sel y.
Proof.
  intros S. unfold field_to_json.
  destruct y as [| | | | | | | | |[|? ?]|[|? ?]|]; try discriminate S; reflexivity.
Qed.

Lemma default_cases sc f :
  default_of sc f = PNone \/ (exists c, fhint f = HPlain (PyMsg c) /\ default_of sc f = PMsg (new sc c)) \/
  simple_pv (default_of sc f) = true.
Proof.
  unfold default_of. destruct (fhint f) as [p|p|p|pk p]; auto. destruct p; auto. right. left. eauto.
Qed.

Lemma default_value_okx sc ng f : wfx_field sc ng f = true -> simple_pv (default_of sc f) = true ->
  value_okx sc f (default_of sc f) = true /\ field_nan_ok (default_of sc f) = true.
Proof.
  intros W S. unfold default_of in *. unfold value_okx.
  destruct (wfx_kind sc ng f W) as [p Hh Ho Hw Hm Hp|p w Hh Hw Ho Hm Hgr Ht Hws Sp Hp|p Hh Hw Ho Hm Hgr Hp|p Hh Hw Ho Hm Hgr Hp
                                   |pk p kt vt Hh Hw Ho Hm Hgr Ht Hk Hp|p w Hh Hw Ho Hm Hgr Ht Hws Sp Hp];
    rewrite ?Hh, ?Hm in *; try discriminate S; try (split; reflexivity).
  destruct p; try discriminate S; destruct (fty f); try discriminate Hp; split; reflexivity.
Qed.

Lemma pv_goodG_simple incl sc y : simple_pv y = true -> pv_goodG incl sc y = true.
Proof. destruct y as [| | | | | | | | |[|? ?]|[|? ?]|]; try discriminate; reflexivity. Qed.

Lemma simple_size y : simple_pv y = true -> pv_size y = 1%nat.
Proof. destruct y as [| | | | | | | | |[|? ?]|[|? ?]|]; try discriminate; reflexivity. Qed.

(* None is printed as null or not at all *)
Lemma none_json rec sc ng incl f sel j :
  wfx_field sc ng f = true -> value_okx sc f PNone = true ->
  field_to_json rec sc incl f sel PNone = Some j -> j = JNull.
Proof.
  intros W Hv Hj. unfold value_okx in Hv. unfold field_to_json, emit in Hj.
  destruct (wfx_kind sc ng f W) as [p Hh Ho Hw Hm Hp|p w Hh Hw Ho Hm Hgr Ht Hws Sp Hp|p Hh Hw Ho Hm Hgr Hp|p Hh Hw Ho Hm Hgr Hp
                                   |pk p kt vt Hh Hw Ho Hm Hgr Ht Hk Hp|p w Hh Hw Ho Hm Hgr Ht Hws Sp Hp];
    rewrite ?Hh, ?Hw, ?Hm in *; try discriminate Hv.
  - rewrite Ht in Hj. change (ptype_eqb TMessage TMessage) with true in Hj. cbv iota in Hj.
    destruct incl; inversion Hj; reflexivity.
  - assert (Nm : ptype_eqb (fty f) TMap = false) by (destruct (fty f); try reflexivity; destruct p; discriminate Hp).
    rewrite Nm in Hj. destruct (ptype_eqb (fty f) TMessage).
    + destruct incl; inversion Hj; reflexivity.
    + match type of Hj with (if ?c then _ else _) = _ => destruct c; inversion Hj; reflexivity end.
Qed.

Lemma pv_none_dec x : x = PNone \/ x <> PNone.
Proof. destruct x; try (right; discriminate). left; reflexivity. Qed.

(* include_default_values=True: everything is emitted *)
Lemma emittedG_true sc f sel x : emittedG sc true f sel x = true.
Proof.
  unfold emittedG, field_to_json, emit. cbn [orb].
  destruct (ptype_eqb (fty f) TMessage).
  { destruct x; destruct (fwraps f); destruct (fhint f); cbv beta iota; rewrite ?orb_true_r; reflexivity. }
  destruct (ptype_eqb (fty f) TMap).
  { destruct x; destruct (fmap f) as [[? ?]|]; destruct (fhint f); cbv beta iota; rewrite ?orb_true_r; reflexivity. }
  rewrite orb_true_r. destruct (fhint f); destruct x; reflexivity.
Qed.

Definition kw1 (i : nat) (o : option pv) : list (nat * pv) := match o with Some v => [(i, v)] | None => [] end.
Definition it1 (cs : casing) (f : fdesc) (o : option json) : list (list byte * json) :=
  match o with Some j => [(key_of_field cs f, j)] | None => [] end.

(* ---------------------------------------------------------------------------------- *)
(* the object                                                                          *)
(* ---------------------------------------------------------------------------------- *)
Section ObjA.
  Variable sc : schema.
  Variable cs : casing.
  Variable b : bool.
  Hypothesis WF : wfx_schema sc = true.
  Hypothesis KO : keys_ok cs sc = true.

  Section Step.
    Variable incl : bool.
    Variable n : nat.
    Hypothesis IHo : forall o', (pv_size (PMsg o') < n)%nat -> in_rangex sc o' = true -> pv_goodG incl sc (PMsg o') = true ->
      from_dict_cls sc (ocls o') (tr b (to_dict cs incl sc o')) = Ok (gnorm_obj incl sc o').

    (* an attribute that holds a value *)
    Lemma head_rtG c ng f sel x i nm :
      wfx_field sc ng f = true -> (fgroup f = None -> sel = None) -> sel <> Some false ->
      Casing.field_for_key (map fname (cfields (get_class sc c))) (key_of_field cs f) = Some nm ->
      find_field O (cfields (get_class sc c)) nm = Some (i, f) ->
      (pv_size x < n)%nat -> x <> PPlaceholder ->
      value_okx sc f x = true -> pv_goodG incl sc x = true -> field_nan_ok x = true ->
      fd_items sc c (map (jtr b) (it1 cs f (field_to_json (to_dict cs incl sc) sc incl f sel x)))
      = Ok (kw1 i (if emittedG sc incl f sel x then (match x with PNone => None | _ => Some (gnorm_pv incl sc x) end) else None)).
    Proof.
      intros W Hsel Hsf L1 L2 Hs Hx Hv Hg Hn.
      destruct (field_to_json (to_dict cs incl sc) sc incl f sel x) as [j|] eqn:E.
      - rewrite (emittedG_some _ _ _ _ _ _ _ E).
        destruct (pv_none_dec x) as [->|Hxn].
        + rewrite (none_json _ sc ng incl f sel j W Hv E).
          cbn [it1 map jtr fst snd fd_items item_from_json kw1]. rewrite L1, L2.
          assert (T : tr b JNull = JNull) by (destruct b; reflexivity). rewrite T. reflexivity.
        + destruct (field_rtG sc cs b incl n IHo ng f sel x j W Hsel Hs Hx Hxn Hv Hg Hn E) as [R N].
          cbn [it1 map jtr fst snd fd_items item_from_json]. rewrite L1, L2.
          assert (K : kw1 i (match x with PNone => None | _ => Some (gnorm_pv incl sc x) end) = [(i, gnorm_pv incl sc x)])
            by (destruct x; try congruence; reflexivity).
          rewrite K.
          destruct (tr b j) eqn:T; try congruence; rewrite R; reflexivity.
      - rewrite (emittedG_none _ _ _ _ _ _ E). reflexivity.
    Qed.

    Lemma gfield_value sel f x : sel <> Some false -> x <> PPlaceholder ->
      gfield sc incl sel f x = if emittedG sc incl f sel x then (match x with PNone => None | _ => Some (gnorm_pv incl sc x) end) else None.
    Proof.
      intros Hs Hx. unfold gfield, gfield_opt. destruct sel as [[|]|]; try congruence;
        destruct x; try congruence; try reflexivity; destruct (emittedG sc incl f _ PNone); reflexivity.
    Qed.
  End Step.

  (* an object without attributes (the only ones of size < 2) *)
  Lemma obj_rt_2 incl o' : (pv_size (PMsg o') < 2)%nat -> in_rangex sc o' = true -> pv_goodG incl sc (PMsg o') = true ->
    from_dict_cls sc (ocls o') (tr b (to_dict cs incl sc o')) = Ok (gnorm_obj incl sc o').
  Proof.
    destruct o' as [c r s u g]. intros Hs _ _. rewrite size_msg in Hs. destruct r as [|x r].
    - rewrite to_dict_unfoldG. cbn [td_itemsG]. assert (T : tr b (JObj (dict_norm [])) = JObj []) by (destruct b; reflexivity).
      rewrite T. reflexivity.
    - rewrite sum_size_cons in Hs. assert (1 <= pv_size x)%nat by (destruct x as [| | | | | | | | | | |[? ? ? ? ?]]; cbn [pv_size]; lia). lia.
  Qed.

  (* ---- Cls.from_dict(Cls().to_dict(include_default_values=True)) ---- *)
  Definition dd_item (dr : obj -> json) (f : fdesc) : list (list byte * json) :=
    match fgroup f with
    | Some _ => []
    | None => it1 cs f (field_to_json dr sc true f None (default_of sc f))
    end.

  Lemma default_dict_unfold n c :
    default_dict (S n) cs sc c = JObj (dict_norm (flat_map (dd_item (fun o' => default_dict n cs sc (ocls o'))) (cfields (get_class sc c)))).
  Proof.
    reflexivity.
  Qed.

  Fixpoint dd_kw (dn : nat -> obj) (i : nat) (fs : list fdesc) : list (nat * pv) :=
    match fs with
    | [] => []
    | f :: r => kw1 i (dfield dn sc f) ++ dd_kw dn (S i) r
    end.

  Lemma dd_keys dr fs k : In k (map fst (flat_map (dd_item dr) fs)) -> In k (map (key_of_field cs) fs).
  Proof.
    induction fs as [|f fs IH]; intros H; [destruct H|]. cbn [flat_map] in H. rewrite map_app in H. apply in_app_or in H as [H|H].
    - left. unfold dd_item, it1 in H. destruct (fgroup f); [destruct H|].
      destruct (field_to_json dr sc true f None (default_of sc f)); [|destruct H]. destruct H as [H|[]]. exact H.
    - right. exact (IH H).
  Qed.
  Lemma dd_nodup dr fs : NoDup (map (key_of_field cs) fs) -> NoDup (map fst (flat_map (dd_item dr) fs)).
  Proof.
    induction fs as [|f fs IH]; intros N; [constructor|]. cbn [flat_map]. rewrite map_app. cbn [map] in N. inversion N as [|? ? N1 N2]; subst.
    unfold dd_item at 1, it1. destruct (fgroup f); [apply IH, N2|].
    destruct (field_to_json dr sc true f None (default_of sc f)); cbn [map fst app]; [|apply IH, N2].
    constructor; [|apply IH, N2]. intros I. apply N1. exact (dd_keys _ _ _ I).
  Qed.

  Lemma dd_kw_ge dn i fs j : In j (map fst (dd_kw dn i fs)) -> (i <= j)%nat.
  Proof.
    revert i. induction fs as [|f fs IH]; intros i H; [destruct H|]. cbn [dd_kw] in H. rewrite map_app in H. apply in_app_or in H as [H|H].
    - destruct (dfield dn sc f); [|destruct H]. destruct H as [H|[]]. cbn in H. lia.
    - specialize (IH _ H). lia.
  Qed.
  Lemma dd_kw_nodup dn i fs : NoDup (map fst (dd_kw dn i fs)).
  Proof.
    revert i. induction fs as [|f fs IH]; intros i; [constructor|]. cbn [dd_kw]. rewrite map_app.
    assert (G : ~ In i (map fst (dd_kw dn (S i) fs))) by (intros I; apply dd_kw_ge in I; lia).
    destruct (dfield dn sc f); [|apply IH]. cbn [kw1 map fst app]. constructor; [exact G|apply IH].
  Qed.

  Lemma dfield_mark dn f v : (forall c', osow (dn c') = true) -> dfield dn sc f = Some v ->
    (if fieldless sc v then mark_sow v else v) = v.
  Proof.
    intros Hd H. unfold dfield in H. destruct (fgroup f); [discriminate H|].
    destruct (default_of sc f); try discriminate H; inversion H; subst v; try reflexivity. apply mark_present, Hd.
  Qed.

  Lemma fold_dd dn pre i fs : (forall c', osow (dn c') = true) -> length pre = i ->
    fold_left (kw_step sc) (dd_kw dn i fs) (pre ++ map sentinel fs) = pre ++ map (fun f => or_sentinel f (dfield dn sc f)) fs.
  Proof.
    intros Hd. revert pre i. induction fs as [|f fs IH]; intros pre i Hp; [reflexivity|].
    cbn [dd_kw map]. rewrite fold_left_app.
    destruct (dfield dn sc f) as [v|] eqn:G; cbn [or_sentinel kw1].
    - cbn [fold_left kw_step]. rewrite (dfield_mark dn f v Hd G). subst i. rewrite set_nth_app.
      replace (pre ++ v :: map sentinel fs) with ((pre ++ [v]) ++ map sentinel fs) by (rewrite <- app_assoc; reflexivity).
      rewrite IH; [rewrite <- app_assoc; reflexivity| rewrite app_length; cbn; lia].
    - cbn [fold_left].
      replace (pre ++ sentinel f :: map sentinel fs) with ((pre ++ [sentinel f]) ++ map sentinel fs) by (rewrite <- app_assoc; reflexivity).
      rewrite IH; [rewrite <- app_assoc; reflexivity| rewrite app_length; cbn; lia].
  Qed.

  Lemma construct_dd dn c : (forall c', osow (dn c') = true) ->
    construct sc c (dd_kw dn O (cfields (get_class sc c))) =
    post_init sc c (map (fun f => or_sentinel f (dfield dn sc f)) (cfields (get_class sc c))).
  Proof.
    intros Hd. unfold construct. f_equal.
    change (fun (r : list pv) '(i, v) => set_nth i (if fieldless sc v then mark_sow v else v) r) with (kw_step sc).
    assert (E : oraw (new sc c) = map sentinel (cfields (get_class sc c))) by reflexivity.
    rewrite E. exact (fold_dd dn [] O _ Hd eq_refl).
  Qed.

  (* the item of an unset plain sub-message field printed from Cls().to_dict(include_default_values=True) *)
  Lemma msg_default_item dr c ng f i nm c' o :
    wfx_field sc ng f = true -> fhint f = HPlain (PyMsg c') ->
    Casing.field_for_key (map fname (cfields (get_class sc c))) (key_of_field cs f) = Some nm ->
    find_field O (cfields (get_class sc c)) nm = Some (i, f) ->
    from_dict_cls sc c' (tr b (dr (new sc c'))) = Ok o -> (exists d, dr (new sc c') = JObj d) ->
    field_to_json dr sc true f None (PMsg (new sc c')) = Some (dr (new sc c')) /\
    fd_items sc c (map (jtr b) [(key_of_field cs f, dr (new sc c'))]) = Ok [(i, PMsg o)].
  Proof.
    intros W Hh L1 L2 Hd [d Ed].
    destruct (wfx_kind sc ng f W) as [p Hh' Ho Hw Hm Hfit|p w Hh' _ _ _ _ _ _ _ _|p Hh' _ _ _ _ _|p Hh' _ _ _ _ _
                                     |pk p kt vt Hh' _ _ _ _ _ _ _|p w Hh' _ _ _ _ _ _ _ _]; try congruence.
    rewrite Hh in Hh'. inversion Hh'; subst p.
    assert (Et : fty f = TMessage) by (destruct (fty f); try discriminate Hfit; reflexivity).
    split.
    - unfold field_to_json, emit. rewrite Et, Hw, Hh. change (ptype_eqb TMessage TMessage) with true. cbv iota.
      rewrite !orb_true_r. reflexivity.
    - cbn [map jtr fst snd fd_items item_from_json]. rewrite L1, L2.
      rewrite Ed in *. rewrite tr_obj in *.
      unfold value_from_json, hint_elem. rewrite Et, Hw, Hh. change (ptype_eqb TMessage TMessage) with true. cbv iota.
      cbn [list_or_single elem_from_json]. change (ptype_eqb TMessage TMessage) with true. cbv iota.
      match goal with |- context [recf sc c' ?j] => change (recf sc c' j) with (from_dict_cls sc c' j) end.
      rewrite Hd. reflexivity.
  Qed.

  Lemma dd_items_rt dr dn okc c ng :
    (forall c', okc c' = true -> from_dict_cls sc c' (tr b (dr (new sc c'))) = Ok (dn c') /\ exists d, dr (new sc c') = JObj d) ->
    forall fs i, lookup_ok cs (cfields (get_class sc c)) i fs -> forallb (wfx_field sc ng) fs = true ->
      forallb (fun f => match fgroup f, fhint f with None, HPlain (PyMsg c') => okc c' | _, _ => true end) fs = true ->
      fd_items sc c (map (jtr b) (flat_map (dd_item dr) fs)) = Ok (dd_kw dn i fs).
  Proof.
    intros Hd. induction fs as [|f fs IH]; intros i L W D; [reflexivity|].
    cbn [forallb] in W, D. apply andb_prop in W as [W1 W2]. apply andb_prop in D as [D1 D2].
    cbn [flat_map dd_kw]. rewrite map_app, fd_items_app.
    rewrite (IH (Datatypes.S i) (lookup_tail _ _ _ _ _ L) W2 D2).
    destruct (L O f eq_refl) as [nm [L1 L2]]. rewrite Nat.add_0_r in L2.
    assert (Head : fd_items sc c (map (jtr b) (dd_item dr f)) = Ok (kw1 i (dfield dn sc f))).
    { unfold dd_item, dfield. destruct (fgroup f) as [g|] eqn:G; [reflexivity|].
      destruct (default_cases sc f) as [Dn|[[c' [Hh Dm]]|S]].
      - rewrite Dn.
        assert (Hv : value_okx sc f PNone = true).
        { unfold value_okx. unfold default_of in Dn. destruct (fhint f) as [p|p|p|pk p]; try discriminate Dn; [|reflexivity]. destruct p; discriminate Dn. }
        destruct (field_to_json dr sc true f None PNone) as [j|] eqn:E; [|reflexivity].
        rewrite (none_json _ sc ng true f None j W1 Hv E).
        cbn [it1 map jtr fst snd fd_items item_from_json kw1]. rewrite L1, L2.
        assert (T : tr b JNull = JNull) by (destruct b; reflexivity). rewrite T. reflexivity.
      - rewrite Dm. rewrite Hh in D1. destruct (Hd c' D1) as [R J].
        destruct (msg_default_item dr c ng f i nm c' (dn c') W1 Hh L1 L2 R J) as [E1 E2].
        rewrite E1. cbn [it1 ocls new kw1]. exact E2.
      - destruct (default_value_okx sc ng f W1 S) as [Hv Hnan].
        rewrite (field_to_json_simple _ (to_dict cs true sc) sc true f None _ S).
        assert (Hy : default_of sc f <> PPlaceholder) by (destruct (default_of sc f); try discriminate S; discriminate).
        rewrite (head_rtG true 2 (obj_rt_2 true) c ng f None (default_of sc f) i nm W1 (fun _ => eq_refl) ltac:(discriminate) L1 L2
                   ltac:(rewrite (simple_size _ S); lia) Hy Hv (pv_goodG_simple true sc _ S) Hnan).
        rewrite emittedG_true. rewrite (gnorm_simple true sc _ S).
        destruct (default_of sc f) as [| | | | | | | | |[|? ?]|[|? ?]|]; try discriminate S; reflexivity. }
    rewrite Head. cbn [bind]. reflexivity.
  Qed.

  Lemma default_rt : forall fuel c, defaults_ok fuel sc c = true ->
    from_dict_cls sc c (tr b (default_dict fuel cs sc c)) = Ok (dnorm fuel sc c) /\ exists d, default_dict fuel cs sc c = JObj d.
  Proof.
    induction fuel as [|fuel IH]; intros c D; [discriminate D|].
    split; [|rewrite default_dict_unfold; eauto].
    rewrite default_dict_unfold. destruct (keys_fields cs sc c KO) as [L ND].
    rewrite dict_norm_nodup by (apply dd_nodup, ND).
    rewrite tr_obj, map_map.
    rewrite (map_ext _ (jtr b)) by (intros [k j]; unfold jtr, jkey; cbn [fst snd]; destruct b; reflexivity).
    unfold from_dict_cls. rewrite from_dict_init_unfold.
    cbn [defaults_ok] in D.
    rewrite (dd_items_rt (fun o' => default_dict fuel cs sc (ocls o')) (dnorm fuel sc) (defaults_ok fuel sc) c (cngroups (get_class sc c))
               (fun c' Hc => IH c' Hc) (cfields (get_class sc c)) O L (wfx_fields sc c WF) D).
    cbn [bind]. rewrite kw_norm_nodup by apply dd_kw_nodup.
    unfold finish_cls. rewrite (construct_dd (dnorm fuel sc) c (dnorm_sow fuel sc)). reflexivity.
  Qed.

  Section Step2.
    Variable incl : bool.
    Variable n : nat.
    Hypothesis IHo : forall o', (pv_size (PMsg o') < n)%nat -> in_rangex sc o' = true -> pv_goodG incl sc (PMsg o') = true ->
      from_dict_cls sc (ocls o') (tr b (to_dict cs incl sc o')) = Ok (gnorm_obj incl sc o').

    (* a PLACEHOLDER attribute of an ungrouped field: printed from the default *)
    Lemma head_phG c ng f i nm :
      wfx_field sc ng f = true -> fgroup f = None ->
      Casing.field_for_key (map fname (cfields (get_class sc c))) (key_of_field cs f) = Some nm ->
      find_field O (cfields (get_class sc c)) nm = Some (i, f) ->
      (1 < n)%nat -> (incl = true -> reach_cond sc None f PPlaceholder = true) ->
      fd_items sc c (map (jtr b) (it1 cs f (field_to_json (drec cs sc incl) sc incl f None (default_of sc f))))
      = Ok (kw1 i (gfield sc incl None f PPlaceholder)).
    Proof.
      intros W G L1 L2 Hn1 Hp.
      destruct (default_cases sc f) as [D|[[c' [Hh D]]|S]].
      - (* None *)
        unfold gfield, gfield_opt. rewrite D.
        assert (Hv : value_okx sc f PNone = true).
        { unfold value_okx. unfold default_of in D. destruct (fhint f) as [p|p|p|pk p]; try discriminate D; [|reflexivity]. destruct p; discriminate D. }
        destruct (field_to_json (drec cs sc incl) sc incl f None PNone) as [j|] eqn:E; [|reflexivity].
        rewrite (none_json _ sc ng incl f None j W Hv E).
        cbn [it1 map jtr fst snd fd_items item_from_json kw1]. rewrite L1, L2.
        assert (T : tr b JNull = JNull) by (destruct b; reflexivity). rewrite T. reflexivity.
      - (* a fresh sub-message *)
        unfold gfield, gfield_opt. rewrite D.
        destruct incl.
        + specialize (Hp eq_refl). unfold reach_cond in Hp. rewrite Hh in Hp.
          destruct (default_rt default_fuel c' Hp) as [R J].
          assert (Ed : drec cs sc true (new sc c') = default_dict default_fuel cs sc c') by reflexivity.
          rewrite <- Ed in R, J.
          destruct (msg_default_item (drec cs sc true) c ng f i nm c' _ W Hh L1 L2 R J) as [E1 E2].
          rewrite E1. cbn [it1 ocls new kw1]. exact E2.
        + destruct (wfx_kind sc ng f W) as [p Hh' Ho Hw Hm Hfit|p w Hh' _ _ _ _ _ _ _ _|p Hh' _ _ _ _ _|p Hh' _ _ _ _ _
                                           |pk p kt vt Hh' _ _ _ _ _ _ _|p w Hh' _ _ _ _ _ _ _ _]; try congruence.
          rewrite Hh in Hh'. inversion Hh'; subst p.
          assert (Et : fty f = TMessage) by (destruct (fty f); try discriminate Hfit; reflexivity).
          unfold field_to_json, emit. rewrite Et, Hw, Hh, Ho. reflexivity.
      - (* a scalar default, [] or {} *)
        destruct (default_value_okx sc ng f W S) as [Hv Hnan].
        rewrite (field_to_json_simple _ (to_dict cs incl sc) sc incl f None _ S).
        assert (Hy : default_of sc f <> PPlaceholder) by (destruct (default_of sc f); try discriminate S; discriminate).
        rewrite (head_rtG incl n IHo c ng f None (default_of sc f) i nm W (fun _ => eq_refl) ltac:(discriminate) L1 L2
                   ltac:(rewrite (simple_size _ S); exact Hn1) Hy Hv (pv_goodG_simple incl sc _ S) Hnan).
        f_equal. f_equal. unfold gfield, gfield_opt. rewrite (gnorm_simple incl sc _ S).
        destruct (default_of sc f) as [| | | | | | | | |[|? ?]|[|? ?]|]; try discriminate S; reflexivity.
    Qed.

    Lemma items_rtG c cur ng raw : forall fs i,
      lookup_ok cs (cfields (get_class sc c)) i fs -> forallb (wfx_field sc ng) fs = true ->
      fields_okx sc raw fs = true -> forallb (pv_goodG incl sc) raw = true -> forallb field_nan_ok raw = true ->
      oneof_loop cur i raw fs = true -> (incl = true -> reach_loop sc cur i raw fs = true) ->
      (forall x, In x raw -> (pv_size x < n)%nat) ->
      fd_items sc c (map (jtr b) (td_itemsG cs sc incl cur i raw fs)) = Ok (kw_listG sc incl cur i raw fs).
    Proof.
      induction raw as [|x raw IH]; intros fs i L W F G N O P S; [reflexivity|].
      destruct fs as [|f fs]; [reflexivity|].
      cbn [td_itemsG kw_listG]. rewrite map_app, fd_items_app.
      cbn [forallb] in W, G, N. apply andb_prop in W as [W1 W2]. apply andb_prop in G as [G1 G2]. apply andb_prop in N as [N1' N2].
      cbn [fields_okx] in F. apply andb_prop in F as [F1 F2]. cbn [oneof_loop] in O. apply andb_prop in O as [O1 O2].
      assert (P2 : incl = true -> reach_loop sc cur (Datatypes.S i) raw fs = true)
        by (intros E; specialize (P E); cbn [reach_loop] in P; apply andb_prop in P as [_ P]; exact P).
      assert (P1 : incl = true -> reach_cond sc (group_selects cur f i) f x = true)
        by (intros E; specialize (P E); cbn [reach_loop] in P; apply andb_prop in P as [P _]; exact P).
      rewrite (IH fs (Datatypes.S i) (lookup_tail _ _ _ _ _ L) W2 F2 G2 N2 O2 P2 (fun y Hy => S y (or_intror Hy))).
      destruct (L O f eq_refl) as [nm [L1 L2]]. rewrite Nat.add_0_r in L2.
      assert (Hsel : fgroup f = None -> group_selects cur f i = None) by (unfold group_selects; intros ->; reflexivity).
      assert (Sx : (pv_size x < n)%nat) by (apply S; left; reflexivity).
      fold (it1 cs f (td_head cs sc incl (group_selects cur f i) f x)).
      fold (kw1 i (gfield sc incl (group_selects cur f i) f x)).
      assert (Head : fd_items sc c (map (jtr b) (it1 cs f (td_head cs sc incl (group_selects cur f i) f x)))
                     = Ok (kw1 i (gfield sc incl (group_selects cur f i) f x))).
      { destruct (group_selects cur f i) as [[|]|] eqn:Gs.
        - assert (Hx : x <> PPlaceholder) by (intros ->; discriminate O1).
          rewrite (gfield_value incl (Some true) f x ltac:(discriminate) Hx).
          unfold td_head. rewrite (not_ph x _ _ Hx).
          apply (head_rtG incl n IHo c ng f (Some true) x i nm W1); try assumption. discriminate.
        - reflexivity.
        - destruct (pv_eq_dec_ph x) as [->|Hx].
          + assert (Gn : fgroup f = None).
            { destruct (fgroup f) as [g|] eqn:Gf; [|reflexivity]. unfold group_selects in Gs. rewrite Gf in Gs. discriminate Gs. }
            unfold td_head. apply (head_phG c ng f i nm W1 Gn L1 L2 Sx P1).
          + rewrite (gfield_value incl None f x ltac:(discriminate) Hx).
            unfold td_head. rewrite (not_ph x _ _ Hx).
            apply (head_rtG incl n IHo c ng f None x i nm W1); try assumption. discriminate. }
      rewrite Head. cbn [bind]. reflexivity.
    Qed.
  End Step2.

  Lemma local_okG_parts incl c raw s u g :
    local_okG incl sc (Obj c raw s u g) = true ->
    forallb field_nan_ok raw = true /\ oneof_loop g O raw (cfields (get_class sc c)) = true /\
    (incl = true -> reach_loop sc g O raw (cfields (get_class sc c)) = true).
  Proof.
    unfold local_okG. intros H. apply andb_prop in H as [Hloc Hp].
    unfold local_ok in Hloc. apply andb_prop in Hloc as [Hloc _]. apply andb_prop in Hloc as [Hloc Hone]. apply andb_prop in Hloc as [Hloc Hnan].
    rewrite local_oneof_unfold in Hone. unfold local_nan_ok in Hnan. cbn [oraw] in Hnan.
    split; [exact Hnan|]. split; [exact Hone|]. intros ->. cbn [negb orb] in Hp. rewrite local_reach_unfold in Hp. exact Hp.
  Qed.

  Lemma obj_rt_nG incl : forall n o, (pv_size (PMsg o) < n)%nat -> in_rangex sc o = true -> pv_goodG incl sc (PMsg o) = true ->
    from_dict_cls sc (ocls o) (tr b (to_dict cs incl sc o)) = Ok (gnorm_obj incl sc o).
  Proof.
    induction n as [|n IHn]; intros o Hs Hr Hg; [lia|].
    destruct o as [c raw s u g]. cbn [ocls].
    destruct (in_rangex_unfold _ _ _ _ _ _ Hr) as [Hl [_ F]].
    unfold pv_goodG in Hg. rewrite pv_all_msg in Hg. apply andb_prop in Hg as [Hloc Hsub].
    destruct (local_okG_parts _ _ _ _ _ _ Hloc) as [Hnan [Hone Hpres]].
    rewrite to_dict_unfoldG. destruct (keys_fields cs sc c KO) as [L ND].
    rewrite dict_norm_nodup by (apply td_itemsG_nodup, ND).
    rewrite tr_obj, map_map.
    rewrite (map_ext _ (jtr b)) by (intros [k j]; unfold jtr, jkey; cbn [fst snd]; rewrite trk_str; reflexivity).
    unfold from_dict_cls. rewrite from_dict_init_unfold.
    rewrite (items_rtG incl n IHn c g (cngroups (get_class sc c)) raw _ O L (wfx_fields sc c WF) F Hsub Hnan Hone Hpres).
    - cbn [bind]. rewrite kw_norm_nodup by apply kw_listG_nodup.
      unfold finish_cls. rewrite construct_kwG by exact Hl. rewrite gnorm_obj_unfold. reflexivity.
    - intros x Hx. rewrite size_msg in Hs. pose proof (in_sum_size x raw Hx). lia.
  Qed.

  (* (A) the class form, on the dict (b = false) and through the JSON text (b = true) *)
  Theorem from_to_dict_gnorm incl o : goodx sc o = true -> reach_ok incl sc o = true ->
    from_dict_cls sc (ocls o) (tr b (to_dict cs incl sc o)) = Ok (gnorm_obj incl sc o).
  Proof.
    intros G I. assert (GI : goodx sc o && reach_ok incl sc o = true) by (rewrite G, I; reflexivity).
    rewrite goodx_split in GI. apply andb_prop in GI as [Hr Hg].
    exact (obj_rt_nG incl (S (pv_size (PMsg o))) o (Nat.lt_succ_diag_r _) Hr Hg).
  Qed.
End ObjA.
