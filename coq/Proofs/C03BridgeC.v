(* C03 bridge, part C (fields): every field of the class table of a descriptor set that satisfies protoc_wf,
   class_nodup and bridge_ok has a shape the runtime model knows (pf_ok), hence [table_ok (class_table_of D)];
   with part A: the generated schema satisfies c01_schema_ok, and C01's round trip applies to it. *)
From BP Require Import Base.Prelude Model.Types Model.Varint Model.Scalar Model.Float Spec.Descriptor gen.C03Tables Model.Plugin.
From BP Require Import Model.Object Model.Eq Model.Encode Model.Decode Model.WellFormed Model.C01Def.
From BP Require Import Model.C03Bridge Proofs.PluginP Proofs.C03BridgeA Proofs.C03BridgeB Proofs.C01Final.
From BP Require gen.Tables.
From Coq Require Import Lia.

(* ---- finite facts about the kind tables ---- *)
Definition scalar_check (t : Z) : bool :=
  match scalar_kind t with
  | None => true
  | Some (kn, py) =>
      match ptype_of_str kn, pyty_of [] py with
      | Some ty, Some q => fits0 ty q && implb (key_kind_ok t) (map_key_ok ty)
      | _, _ => false
      end
  end.

Lemma scalar_check_all t : scalar_check t = true.
Proof.
  unfold scalar_check, scalar_kind.
  repeat match goal with
         | |- context [if ?a =? ?c then _ else _] => destruct (Z.eqb_spec a c) as [-> | _]; [vm_compute; reflexivity|]
         end.
  reflexivity.
Qed.

Lemma pyty_of_closed R e q : pyty_of [] e = Some q -> pyty_of R e = Some q.
Proof. destruct e; cbn [pyty_of resolve_ref]; intros H; try discriminate; exact H. Qed.

Lemma elem_ok_closed R ty e : elem_ok [] ty e = true -> elem_ok R ty e = true.
Proof. unfold elem_ok. destruct (pyty_of [] e) as [q|] eqn:E; [|discriminate]. now rewrite (pyty_of_closed R e q E). Qed.

Lemma key_kind_scalar t : key_kind_ok t = true -> exists kn py, scalar_kind t = Some (kn, py).
Proof.
  unfold key_kind_ok, zmem. cbn [existsb]. intros H.
  repeat (apply orb_prop in H as [H | H]; [apply Z.eqb_eq in H; subst t; eexists; eexists; reflexivity|]).
  discriminate.
Qed.

Definition wrapper_check (e : str * (str * pytype)) : bool :=
  match ptype_of_str (fst (snd e)) with
  | Some w => is_some' (wrapper_cls w) &&
              match Tables.wrapper_value_type w with Some vt => elem_ok [] vt (snd (snd e)) | None => false end
  | None => false
  end.
Lemma wrappers_check : forallb wrapper_check wkt_wrappers = true.
Proof. vm_compute. reflexivity. Qed.

Lemma wrapper_lookup_check tn wk py : lookup tn wkt_wrappers = Some (wk, py) -> wrapper_check (tn, (wk, py)) = true.
Proof.
  intros H. apply lookup_some_in in H. pose proof wrappers_check as W. rewrite forallb_forall in W. exact (W _ H).
Qed.

Lemma group_none m x grp : spec_group m x = Some grp -> real_oneof x = false -> grp = None.
Proof.
  unfold spec_group, real_oneof. destruct (fd_oneof_index x) as [i|]; [|intros H _; now injection H].
  destruct (fd_proto3_optional x); cbn [negb]; [intros H _; now injection H | discriminate].
Qed.

Lemma group_none_opt m x grp : spec_group m x = Some grp -> fd_proto3_optional x = true -> grp = None.
Proof.
  unfold spec_group. intros H E. rewrite E in H. destruct (fd_oneof_index x); now injection H.
Qed.

Section Fields.
  Variable field_name : str -> str.
  Variable class_name : str -> str.
  Variable enum_member_name : str -> str -> str.
  Variable D : descriptor.
  Variable t : class_table.
  Hypothesis Ht : class_table_of field_name class_name enum_member_name D = Some t.
  Hypothesis Hcn : class_nodup class_name D = true.
  Hypothesis Hwf : protoc_wf D = true.
  Hypothesis Hbr : bridge_ok D = true.

  Let R := class_rows t.

  (* the type of one value of a field, as the table records it, fits its proto type *)
  Lemma value_type_ok pkg' p' m' y kn vt :
    field_wf D pkg' p' m' y = true -> vref_ok D y = true ->
    kind_name (fd_type y) = Some kn -> spec_value_type class_name D y = Some vt ->
    exists ty, ptype_of_str kn = Some ty /\
      ((is_wrapper_name (fd_type_name y) = false /\ spec_wraps y = None /\ elem_ok R ty vt = true
        /\ (key_kind_ok (fd_type y) = true -> map_key_ok ty = true))
       \/ (exists wk py, lookup (fd_type_name y) wkt_wrappers = Some (wk, py) /\ vt = PyOptional py /\ ty = TMessage
            /\ spec_wraps y = Some wk /\ wrapper_check (fd_type_name y, (wk, py)) = true)).
  Proof.
    intros Hfw Hr Hk Hv. unfold field_wf in Hfw. apply andb_prop in Hfw as [Hfw _]. apply andb_prop in Hfw as [Hty _].
    unfold vref_ok in Hr. unfold kind_name in Hk. unfold spec_value_type in Hv. unfold spec_wraps.
    destruct (scalar_kind (fd_type y)) as [[kn' py]|] eqn:Es.
    - injection Hk as <-. injection Hv as <-.
      assert (Etn : fd_type_name y = []) by (destruct (fd_type_name y); [reflexivity | discriminate]).
      pose proof (scalar_check_all (fd_type y)) as C. unfold scalar_check in C. rewrite Es in C.
      destruct (ptype_of_str kn') as [ty|]; [|discriminate]. destruct (pyty_of [] py) as [q|] eqn:Eq; [|discriminate].
      apply andb_prop in C as [C1 C2]. exists ty. split; [reflexivity|]. left. rewrite Etn.
      split; [reflexivity|]. split; [now destruct (fd_type y =? T_MESSAGE)|]. split.
      + unfold elem_ok. now rewrite (pyty_of_closed R py q Eq).
      + intros Hkk. rewrite Hkk in C2. exact C2.
    - destruct ((fd_type y =? T_MESSAGE) || (fd_type y =? T_ENUM)) eqn:Ec; [|discriminate].
      destruct (lookup (fd_type_name y) wkt_wrappers) as [[wk py]|] eqn:El.
      + (* a wrapper *)
        assert (Ew : is_wkt_name (fd_type_name y) = true) by (unfold is_wkt_name, is_wrapper_name; now rewrite El).
        rewrite Ew in Hr. rewrite Hr in Hk. injection Hk as <-. injection Hv as <-.
        exists TMessage. split; [reflexivity|]. right. exists wk, py. rewrite Hr.
        repeat split; try reflexivity. now apply wrapper_lookup_check.
      + assert (Enw : is_wrapper_name (fd_type_name y) = false) by (unfold is_wrapper_name; now rewrite El).
        destruct (str_eqb (fd_type_name y) wkt_duration) eqn:Ed;
          [|destruct (str_eqb (fd_type_name y) wkt_timestamp) eqn:Ets].
        * assert (Ew : is_wkt_name (fd_type_name y) = true) by (unfold is_wkt_name; rewrite Ed; now rewrite orb_true_r).
          rewrite Ew in Hr. rewrite Hr in Hk. injection Hk as <-. injection Hv as <-.
          exists TMessage. split; [reflexivity|]. left. rewrite Hr. repeat split; try assumption; try reflexivity.
          intros Hkk. apply Z.eqb_eq in Hr. rewrite Hr in Hkk. discriminate.
        * assert (Ew : is_wkt_name (fd_type_name y) = true) by (unfold is_wkt_name; rewrite Ets; now rewrite orb_true_r).
          rewrite Ew in Hr. rewrite Hr in Hk. injection Hk as <-. injection Hv as <-.
          exists TMessage. split; [reflexivity|]. left. rewrite Hr. repeat split; try assumption; try reflexivity.
          intros Hkk. apply Z.eqb_eq in Hr. rewrite Hr in Hkk. discriminate.
        * assert (Ew : is_wkt_name (fd_type_name y) = false) by (unfold is_wkt_name; now rewrite Enw, Ed, Ets).
          rewrite Ew in Hr.
          destruct (resolve D (fd_type_name y)) as [[spkg sp sm | spkg sp se]|] eqn:Er; [| |discriminate].
          -- apply resolve_some in Er as [Hin _]. injection Hv as <-. rewrite Hty in Hk. injection Hk as <-.
             apply andb_prop in Hr as [Hr1 Hr2]. apply negb_true_iff in Hr1, Hr2. apply str_eqb_neq in Hr1.
             destruct (ref_msg_resolves field_name class_name enum_member_name D t Ht Hcn spkg sp sm Hin Hr1 Hr2) as [c Hc].
             exists TMessage. split; [reflexivity|]. left. rewrite Hty. repeat split; try assumption; try reflexivity.
             ++ unfold elem_ok. fold R in Hc. cbn [sym_pkg sym_path]. now rewrite Hc.
             ++ intros Hkk. apply Z.eqb_eq in Hty. rewrite Hty in Hkk. discriminate.
          -- apply resolve_some in Er as [Hin _]. injection Hv as <-.
             assert (Em : (fd_type y =? T_MESSAGE) = false).
             { apply Z.eqb_eq in Hty. rewrite Hty. reflexivity. }
             rewrite Em, Hty in Hk. injection Hk as <-.
             apply negb_true_iff in Hr. apply str_eqb_neq in Hr.
             destruct (ref_enum_resolves field_name class_name enum_member_name D t Ht Hcn spkg sp se Hin Hr) as [i Hi].
             exists TEnum. split; [reflexivity|]. left. rewrite Em. repeat split; try assumption; try reflexivity.
             ++ unfold elem_ok. fold R in Hi. cbn [sym_pkg sym_path]. now rewrite Hi.
             ++ intros Hkk. apply Z.eqb_eq in Hty. rewrite Hty in Hkk. discriminate.
  Qed.

  (* a field that is not a map and not wrapper-typed *)
  Lemma pf_ok_plain m x kn ty vt grp :
    (1 <=? fd_number x) && (fd_number x <? 2 ^ 29) = true ->
    ptype_of_str kn = Some ty -> elem_ok R ty vt = true -> spec_group m x = Some grp ->
    (negb (fd_label x =? L_REPEATED) || negb (fd_proto3_optional x) && negb (real_oneof x)) = true ->
    pf_ok R (mkPyField (field_name (fd_name x)) (fd_number x) kn None grp None (fd_proto3_optional x)
               (if fd_label x =? L_REPEATED then PyList vt
                else if fd_proto3_optional x then match vt with PyOptional _ => vt | _ => PyOptional vt end
                else vt)) = true.
  Proof.
    intros Hnum Hty He Hg Hrep. unfold pf_ok.
    cbn [pf_number pf_proto_type pf_hint pf_optional pf_wraps pf_group pf_map_types]. rewrite Hnum, Hty. cbn [andb].
    pose proof (elem_ok_leaf _ _ _ He) as Hleaf.
    destruct (fd_label x =? L_REPEATED).
    - cbn [negb orb] in Hrep. apply andb_prop in Hrep as [H1 H2]. apply negb_true_iff in H1, H2.
      rewrite (group_none m x grp Hg H2), H1. cbn [negb is_none andb]. exact He.
    - destruct (fd_proto3_optional x) eqn:Ep.
      + rewrite (group_none_opt m x grp Hg Ep).
        destruct vt; try contradiction; cbn [is_none andb]; exact He.
      + destruct vt; try contradiction; cbn [negb is_none andb]; exact He.
  Qed.

  Lemma bridge_msg f p m : In f D -> fl_package f <> google_protobuf -> In (p, m) (file_msgs f) -> md_map_entry m = false ->
    msg_bridge_ok D (fl_package f) (p, m) = true.
  Proof.
    intros Hf Hne Hm Hme. unfold bridge_ok in Hbr. rewrite forallb_forall in Hbr. specialize (Hbr f Hf).
    apply str_eqb_neq in Hne. rewrite Hne in Hbr. cbn [orb] in Hbr. rewrite forallb_forall in Hbr.
    specialize (Hbr (p, m) Hm). cbn [snd] in Hbr. now rewrite Hme in Hbr.
  Qed.

  (* one field of one message of a generated package *)
  Lemma spec_field_ok f p m x pf :
    In f D -> fl_package f <> google_protobuf -> In (p, m) (file_msgs f) -> md_map_entry m = false ->
    In x (md_fields m) -> spec_field field_name class_name D (fl_package f) p m x = Some pf ->
    pf_ok R pf = true.
  Proof.
    intros Hf Hne Hm Hme Hx Hs.
    pose proof (bridge_msg f p m Hf Hne Hm Hme) as B. unfold msg_bridge_ok in B. cbn [fst snd] in B.
    apply andb_prop in B as [_ B]. rewrite forallb_forall in B. specialize (B x Hx). apply andb_prop in B as [Hnum B].
    destruct (wf_msg_parts D _ _ _ (wf_msg D Hwf f p m Hf Hm)) as (_ & Hfw & _).
    unfold spec_field in Hs.
    destruct (spec_map_entry (fl_package f) p m x) as [e|] eqn:Hsp.
    - (* a map *)
      destruct (field_numbered 1 e) as [k|] eqn:Ek; [|discriminate].
      destruct (field_numbered 2 e) as [v|] eqn:Ev; [|discriminate].
      unfold map_kv_ok in B. apply andb_prop in B as [B Hvw]. apply andb_prop in B as [Hkk Hvr].
      apply negb_true_iff in Hvw.
      assert (He : In e (md_nested m)).
      { unfold spec_map_entry in Hsp. destruct (fd_type x =? T_MESSAGE); [|discriminate]. now apply find_some in Hsp as [He _]. }
      pose proof (nested_in_file f p m e Hm He) as Hein.
      destruct (wf_msg_parts D _ _ _ (wf_msg D Hwf f _ e Hf Hein)) as (_ & Hefw & _).
      assert (Hkin : In k (md_fields e)) by (unfold field_numbered in Ek; now apply find_some in Ek as [H _]).
      assert (Hvin : In v (md_fields e)) by (unfold field_numbered in Ev; now apply find_some in Ev as [H _]).
      destruct (kind_name (fd_type k)) as [kn|] eqn:Ekn; [|discriminate].
      destruct (kind_name (fd_type v)) as [vn|] eqn:Evn; [|discriminate].
      destruct (spec_value_type class_name D k) as [kt|] eqn:Ekt; [|discriminate].
      destruct (spec_value_type class_name D v) as [vt|] eqn:Evt; [|discriminate].
      injection Hs as <-.
      (* the key: a scalar of a key kind *)
      destruct (key_kind_scalar _ Hkk) as (kn' & py' & Esk).
      assert (Hkr : vref_ok D k = true) by (unfold vref_ok; now rewrite Esk).
      destruct (value_type_ok _ _ _ k kn kt (Hefw k Hkin) Hkr Ekn Ekt) as (ktp & Hktp & [(_ & _ & Hke & Hkm) | (wk & py & El & _)]).
      2:{ exfalso. pose proof (Hefw k Hkin) as W. unfold field_wf in W. apply andb_prop in W as [W _]. apply andb_prop in W as [W _].
          rewrite Esk in W. destruct (fd_type_name k); [discriminate El | discriminate W]. }
      destruct (value_type_ok _ _ _ v vn vt (Hefw v Hvin) Hvr Evn Evt) as (vtp & Hvtp & [(_ & _ & Hve & _) | (wk & py & El & _)]).
      2:{ exfalso. unfold is_wrapper_name in Hvw. rewrite El in Hvw. discriminate. }
      unfold pf_ok. cbn [pf_number pf_proto_type pf_hint pf_optional pf_wraps pf_group pf_map_types].
      rewrite Hnum. change (ptype_of_str s_map) with (Some TMap). rewrite Hktp, Hvtp, (Hkm Hkk), Hke, Hve. reflexivity.
    - (* not a map *)
      destruct (kind_name (fd_type x)) as [kn|] eqn:Ekn; [|discriminate].
      destruct (spec_value_type class_name D x) as [vt|] eqn:Evt; [|discriminate].
      destruct (spec_group m x) as [grp|] eqn:Eg; [|discriminate].
      injection Hs as <-.
      unfold plain_ok in B. apply andb_prop in B as [B Hrep]. apply andb_prop in B as [Hr Hwr].
      destruct (value_type_ok _ _ _ x kn vt (Hfw x Hx) Hr Ekn Evt)
        as (ty & Hty & [(Hnw & Hsw & He & _) | (wk & py & El & -> & -> & Hsw & Hwc)]).
      + rewrite Hsw. now apply (pf_ok_plain m x kn ty vt grp).
      + (* wrapper-typed: singular, no oneof, not optional *)
        assert (Hw : is_wrapper_name (fd_type_name x) = true) by (unfold is_wrapper_name; now rewrite El).
        rewrite Hw in Hwr. cbn [negb orb] in Hwr. apply andb_prop in Hwr as [Hwr H3]. apply andb_prop in Hwr as [H1 H2].
        apply negb_true_iff in H1, H2, H3. rewrite H1, H2, Hsw, (group_none m x grp Eg H3).
        unfold pf_ok. cbn [pf_number pf_proto_type pf_hint pf_optional pf_wraps pf_group pf_map_types].
        rewrite Hnum, Hty. cbn [is_none negb andb].
        unfold wrapper_check in Hwc. cbn [fst snd] in Hwc.
        destruct (ptype_of_str wk) as [w|]; [|discriminate]. apply andb_prop in Hwc as [W1 W2]. rewrite W1.
        destruct (Tables.wrapper_value_type w) as [wvt|]; [|discriminate]. now rewrite (elem_ok_closed R _ _ W2).
  Qed.

  Theorem descriptor_table_ok : table_ok t = true.
  Proof.
    unfold table_ok. fold R. apply forallb_forall. intros fs Hfs.
    destruct (msg_row_origin field_name class_name enum_member_name D t Ht fs Hfs) as (f & p & m & Hf & Hne & Hm & Hme & F).
    apply andb_true_intro. split.
    - pose proof (bridge_msg f p m Hf Hne Hm Hme) as B. unfold msg_bridge_ok in B. cbn [snd] in B.
      apply andb_prop in B as [B _].
      assert (E : map pf_number fs = map fd_number (md_fields m)).
      { apply (Forall2_map_l pf_number fd_number). eapply Forall2_impl; [|exact F]. cbn beta. intros x pf Hs.
        unfold spec_field in Hs.
        destruct (spec_map_entry (fl_package f) p m x).
        - destruct (field_numbered 1 m0), (field_numbered 2 m0); try discriminate.
          destruct (kind_name (fd_type f0)), (kind_name (fd_type f1)), (spec_value_type class_name D f0),
            (spec_value_type class_name D f1); try discriminate. now injection Hs as <-.
        - destruct (kind_name (fd_type x)), (spec_value_type class_name D x), (spec_group m x); try discriminate.
          now injection Hs as <-. }
      now rewrite E.
    - apply forallb_forall. intros pf Hpf. destruct (Forall2_in_r _ _ _ pf F Hpf) as (x & Hx & Hs).
      now apply (spec_field_ok f p m x pf).
  Qed.
End Fields.

(* ======================================================================================
   the bridge theorems
   ====================================================================================== *)
Theorem generated_schema_ok field_name class_name enum_member_name D :
  protoc_wf D = true -> names_ok field_name class_name enum_member_name D = true -> bridge_ok D = true ->
  exists t, class_table_of field_name class_name enum_member_name D = Some t
            /\ reflect (compile field_name class_name enum_member_name D) = Ok t
            /\ table_ok t = true
            /\ c01_schema_ok (schema_of_table t) = true.
Proof.
  intros Hwf Hn Hbr. destruct (field_faithful field_name class_name enum_member_name D Hwf Hn) as (t & Ht & Hc).
  unfold names_ok in Hn.
  repeat match goal with H : _ && _ = true |- _ => apply andb_prop in H as [? ?] end.
  assert (Hok : table_ok t = true) by (eapply descriptor_table_ok; eauto).
  exists t. repeat split; try assumption. now apply table_schema_ok.
Qed.

Theorem generated_roundtrip field_name class_name enum_member_name D :
  protoc_wf D = true -> names_ok field_name class_name enum_member_name D = true -> bridge_ok D = true ->
  exists t, reflect (compile field_name class_name enum_member_name D) = Ok t /\
    let sc := schema_of_table t in
    forall m, c01_value_ok sc m = true ->
      exists bs, enc_obj sc m = Ok bs /\
        (Zlength bs < 2 ^ 64 ->
         exists m', parse sc (ocls m) bs = Ok m' /\ m' = norm_obj sc m /\
           (deep nan_free (PMsg m) = true -> obj_eq sc m m' = true) /\
           (forall g, which_one_of m' g = which_one_of m g) /\
           (sow_ok sc m = true -> obs_top sc m m' = true) /\
           enc_obj sc m' = Ok bs).
Proof.
  intros Hwf Hn Hbr. destruct (generated_schema_ok _ _ _ D Hwf Hn Hbr) as (t & _ & Hc & _ & Hs).
  exists t. split; [assumption|]. intros sc m Hm. now apply c01_roundtrip.
Qed.
