(* C09 source-translation tie: the Gallina obtained MECHANICALLY from the current Python source of
   _preprocess_single / _len_preprocessed_single / _serialize_single / _len_single (coq/gen/C09Src.v, written by
   harness/gen_c09_src.py) is extensionally equal to the hand-written model (Model/Encode.v preprocess_with /
   serialize_with, Model/Len.v len_preprocessed_with / len_single_with), for every proto type, value, field number,
   serialize_empty flag, wraps and every interpretation [msg] of bytes(value) in the delegated TYPE_MESSAGE arm.
   Fuel: the write side calls the translated encode_varint (a fuelled loop, gen/C16Src.v); the equalities hold for EVERY
   fuel above an explicit bound computed from the input, so the out-of-fuel arm is unreachable there.  The size side has
   no loop and no fuel.
   This file is built only by the "source tie" stage of harness/props/c09.py: a harmless rewrite of the Python functions
   may change gen/C09Src.v so that these scripts no longer apply, which is reported as "tie did not hold", never as a
   violation. *)
From BP Require Import Base.Prelude Model.Types Model.Varint Model.Scalar Model.Float.
From BP Require Import Model.Object Model.Eq Model.TimeCore Model.Encode Model.Len gen.Tables.
From BP Require Import Model.C16SrcLib Model.C09SrcLib gen.C16Src gen.C09Src.
From BP Require Import Proofs.VarintP Proofs.ScalarP Proofs.C16Src Proofs.LenP Proofs.C09SrcPre.
From Coq Require Import ZifyBool ZifyN.

Lemma src_c09_single_present : src_c09_single_translated = true.
Proof. reflexivity. Qed.

(* ---------- the module-level constants read from the source text are the reflected tables ---------- *)
Lemma src_tables_are_model :
  src_FIXED_TYPES = FIXED_TYPES /\ src_WIRE_VARINT_TYPES = WIRE_VARINT_TYPES /\
  src_WIRE_FIXED_32_TYPES = WIRE_FIXED_32_TYPES /\ src_WIRE_FIXED_64_TYPES = WIRE_FIXED_64_TYPES /\
  src_WIRE_LEN_DELIM_TYPES = WIRE_LEN_DELIM_TYPES.
Proof. repeat split; reflexivity. Qed.

Ltac src_consts :=
  unfold src_FIXED_TYPES, src_WIRE_VARINT_TYPES, src_WIRE_FIXED_32_TYPES, src_WIRE_FIXED_64_TYPES, src_WIRE_LEN_DELIM_TYPES,
    src_TYPE_ENUM, src_TYPE_BOOL, src_TYPE_INT32, src_TYPE_INT64, src_TYPE_UINT32, src_TYPE_UINT64, src_TYPE_SINT32,
    src_TYPE_SINT64, src_TYPE_FLOAT, src_TYPE_DOUBLE, src_TYPE_FIXED32, src_TYPE_SFIXED32, src_TYPE_FIXED64,
    src_TYPE_SFIXED64, src_TYPE_STRING, src_TYPE_BYTES, src_TYPE_MESSAGE, src_TYPE_MAP,
    FIXED_TYPES, WIRE_VARINT_TYPES, WIRE_FIXED_32_TYPES, WIRE_FIXED_64_TYPES, WIRE_LEN_DELIM_TYPES.

(* ---------- fuel ---------- *)
(* enough for the key, whatever the wire type *)
Definition src_fuel_key (num : Z) : nat :=
  Nat.max (src_fuel_encode (Z.shiftl num 3))
    (Nat.max (src_fuel_encode (Z.lor (Z.shiftl num 3) 5))
       (Nat.max (src_fuel_encode (Z.lor (Z.shiftl num 3) 1)) (src_fuel_encode (Z.lor (Z.shiftl num 3) 2)))).

(* ... and for the length prefix of the payload *)
Definition src_fuel_single (msg : option ptype -> pv -> result (list byte)) (num : Z) (t : ptype)
           (w : option ptype) (v : pv) : nat :=
  Nat.max (src_fuel_value v)
    (Nat.max (src_fuel_key num)
       (match preprocess_with msg t w v with Ok b => src_fuel_encode (Zlength b) | Err _ => O end)).

(* ---------- _serialize_single ---------- *)
Theorem src_serialize_is_model msg fuel num t v se w :
  (src_fuel_single msg num t w v <= fuel)%nat ->
  src__serialize_single msg fuel num t v se w = serialize_with msg num t v se w.
Proof.
  intros Hf. unfold src_fuel_single, src_fuel_key in Hf.
  unfold src__serialize_single, serialize_with.
  rewrite src_preprocess_is_model by lia.
  destruct (preprocess_with msg t w v) as [value|e]; cbn [bind]; [|reflexivity].
  cbv zeta. src_consts.
  destruct (tmem t [TEnum; TBool; TInt32; TInt64; TUInt32; TUInt64; TSInt32; TSInt64]).
  { rewrite src_encode_is_model by lia.
    destruct (encode_varint (Z.shiftl num 3)); reflexivity. }
  destruct (tmem t [TFloat; TFixed32; TSFixed32]).
  { rewrite src_encode_is_model by lia.
    destruct (encode_varint (Z.lor (Z.shiftl num 3) 5)); reflexivity. }
  destruct (tmem t [TDouble; TFixed64; TSFixed64]).
  { rewrite src_encode_is_model by lia.
    destruct (encode_varint (Z.lor (Z.shiftl num 3) 1)); reflexivity. }
  destruct (tmem t [TString; TBytes; TMessage; TMap]); [|reflexivity].
  change (py_truthy_int (py_len value)) with (negb (Zlength value =? 0)).
  change (py_truthy_wraps w) with (match w with Some _ => true | None => false end).
  destruct (negb (Zlength value =? 0) || se || match w with Some _ => true | None => false end); [|reflexivity].
  rewrite src_encode_is_model by lia.
  destruct (encode_varint (Z.lor (Z.shiftl num 3) 2)) as [key|]; cbn [bind]; [|reflexivity].
  change (py_len value) with (Zlength value).
  rewrite src_encode_is_model by lia.
  destruct (encode_varint (Zlength value)) as [n|]; cbn [bind]; [|reflexivity].
  cbn [app]. rewrite <- app_assoc. reflexivity.
Qed.

(* ---------- _len_single ---------- *)
Theorem src_len_single_is_model msg num t v se w :
  src__len_single msg num t v se w = len_single_with msg num t v se w.
Proof.
  unfold src__len_single, len_single_with.
  rewrite src_len_preprocessed_is_model.
  destruct (len_preprocessed_with msg t w v) as [size|e]; cbn [bind]; [|reflexivity].
  cbv zeta. src_consts. rewrite !src_size_is_model.
  destruct (tmem t [TEnum; TBool; TInt32; TInt64; TUInt32; TUInt64; TSInt32; TSInt64]).
  { destruct (size_varint (Z.shiftl num 3)); reflexivity. }
  destruct (tmem t [TFloat; TFixed32; TSFixed32]).
  { destruct (size_varint (Z.lor (Z.shiftl num 3) 5)); reflexivity. }
  destruct (tmem t [TDouble; TFixed64; TSFixed64]).
  { destruct (size_varint (Z.lor (Z.shiftl num 3) 1)); reflexivity. }
  destruct (tmem t [TString; TBytes; TMessage; TMap]); [|reflexivity].
  change (py_truthy_int size) with (negb (size =? 0)).
  change (py_truthy_wraps w) with (match w with Some _ => true | None => false end).
  destruct (negb (size =? 0) || se || match w with Some _ => true | None => false end); [|reflexivity].
  destruct (size_varint (Z.lor (Z.shiftl num 3) 2)) as [k|]; cbn [bind]; [|reflexivity].
  destruct (size_varint size) as [n|]; reflexivity.
Qed.

(* ---------- the two walks agree, over the translated source ---------- *)
Theorem src_single_agree msg fuel num t v se w :
  (src_fuel_single msg num t w v <= fuel)%nat ->
  agree (src__serialize_single msg fuel num t v se w) (src__len_single msg num t v se w).
Proof.
  intros Hf. rewrite src_serialize_is_model by exact Hf. rewrite src_len_single_is_model.
  apply agree_single.
Qed.

(* ---------- a fuel bound that does not mention the model ---------- *)
(* 66 iterations are never used up when every varint written is a 64-bit one: field number below 2^61, an int value
   (if the value is an int at all) in the signed 64-bit range, payload shorter than 2^64 bytes *)
Lemma lor_small_range a k : 0 <= a -> 0 <= k < 8 -> a mod 8 = 0 -> Z.lor a k = a + k.
Proof.
  intros Ha Hk Hm.
  rewrite <- Z.lxor_lor; [rewrite <- Z.add_nocarry_lxor; [reflexivity|] |];
    (apply Z.bits_inj'; intros n Hn; rewrite Z.land_spec, Z.bits_0;
     destruct (Z.ltb_spec n 3) as [Hlt|Hge];
     [ replace a with (Z.shiftl (a / 8) 3) by (rewrite Z.shiftl_mul_pow2 by lia; change (2 ^ 3) with 8; lia);
       rewrite Z.shiftl_spec_low by lia; reflexivity
     | replace (Z.testbit k n) with false; [apply andb_false_r|];
       symmetry; apply Z.bits_above_log2; [lia|];
       destruct (Z.eq_dec k 0) as [->|Hk0]; [cbn; lia|];
       apply Z.lt_le_trans with 3; [apply Z.log2_lt_pow2; lia | lia] ]).
Qed.

Lemma src_fuel_key_in_range num : 0 <= num < 2 ^ 61 -> (src_fuel_key num <= 66)%nat.
Proof.
  intros Hn. unfold src_fuel_key.
  assert (Hs : Z.shiftl num 3 = num * 8) by (rewrite Z.shiftl_mul_pow2 by lia; reflexivity).
  assert (H0 : (src_fuel_encode (Z.shiftl num 3) <= 66)%nat) by (apply src_fuel_encode_in_range; lia).
  assert (Hk : forall k, 0 <= k < 8 -> (src_fuel_encode (Z.lor (Z.shiftl num 3) k) <= 66)%nat).
  { intros k Hk. apply src_fuel_encode_in_range. rewrite lor_small_range by lia. lia. }
  pose proof (Hk 5 ltac:(lia)). pose proof (Hk 1 ltac:(lia)). pose proof (Hk 2 ltac:(lia)). lia.
Qed.

Lemma src_fuel_single_in_range msg num t w v :
  0 <= num < 2 ^ 61 -> int64_or_not_int v ->
  (forall b, preprocess_with msg t w v = Ok b -> Zlength b < 2 ^ 64) ->
  (src_fuel_single msg num t w v <= 66)%nat.
Proof.
  intros Hn Hv Hb. unfold src_fuel_single.
  pose proof (src_fuel_key_in_range num Hn). pose proof (src_fuel_value_in_range v Hv).
  destruct (preprocess_with msg t w v) as [b|e]; [|lia].
  specialize (Hb b eq_refl).
  assert (0 <= Zlength b) by (unfold Zlength; lia).
  pose proof (src_fuel_encode_in_range (Zlength b) ltac:(lia)). lia.
Qed.

Theorem src_single_agree_in_range msg fuel num t v se w :
  0 <= num < 2 ^ 61 -> int64_or_not_int v ->
  (forall b, preprocess_with msg t w v = Ok b -> Zlength b < 2 ^ 64) ->
  (66 <= fuel)%nat ->
  agree (src__serialize_single msg fuel num t v se w) (src__len_single msg num t v se w).
Proof.
  intros Hn Hv Hb Hf. apply src_single_agree.
  pose proof (src_fuel_single_in_range msg num t w v Hn Hv Hb). lia.
Qed.

(* ---------- the out-of-fuel arm is unreachable above the bound ---------- *)
Lemma bind_key_no_fuel k (value : list byte) : (do key <- encode_varint k; Ok (key ++ value)) <> Err EFuel.
Proof. pose proof (encode_no_fuel_error k). destruct (encode_varint k); cbn; congruence. Qed.

Lemma serialize_no_fuel msg num t v se w : msg_no_fuel msg -> serialize_with msg num t v se w <> Err EFuel.
Proof.
  intros Hm. unfold serialize_with.
  pose proof (preprocess_no_fuel msg t w v Hm) as Hp.
  destruct (preprocess_with msg t w v) as [value|e]; cbn [bind]; [|congruence].
  destruct (tmem t WIRE_VARINT_TYPES). { apply bind_key_no_fuel. }
  destruct (tmem t WIRE_FIXED_32_TYPES). { apply bind_key_no_fuel. }
  destruct (tmem t WIRE_FIXED_64_TYPES). { apply bind_key_no_fuel. }
  destruct (tmem t WIRE_LEN_DELIM_TYPES); [|discriminate].
  destruct (negb (Zlength value =? 0) || se || match w with Some _ => true | None => false end); [|discriminate].
  pose proof (encode_no_fuel_error (Z.lor (Z.shiftl num 3) 2)).
  destruct (encode_varint (Z.lor (Z.shiftl num 3) 2)); cbn [bind]; [|congruence].
  pose proof (encode_no_fuel_error (Zlength value)).
  destruct (encode_varint (Zlength value)); cbn [bind]; [discriminate|congruence].
Qed.

Theorem src_serialize_fuel_ok msg fuel num t v se w :
  msg_no_fuel msg -> (src_fuel_single msg num t w v <= fuel)%nat -> src__serialize_single msg fuel num t v se w <> Err EFuel.
Proof. intros Hm Hf. rewrite src_serialize_is_model by exact Hf. apply serialize_no_fuel, Hm. Qed.

(* ---------- consequences read off the agreement (both directions, sizes) ---------- *)
Lemma src_len_of_bytes msg fuel num t v se w bs :
  (src_fuel_single msg num t w v <= fuel)%nat ->
  src__serialize_single msg fuel num t v se w = Ok bs -> src__len_single msg num t v se w = Ok (Zlength bs).
Proof.
  intros Hf E. pose proof (src_single_agree msg fuel num t v se w Hf) as H. unfold agree in H. rewrite E in H.
  destruct (src__len_single msg num t v se w); [subst; reflexivity | contradiction].
Qed.

Lemma src_len_err_iff msg fuel num t v se w e :
  (src_fuel_single msg num t w v <= fuel)%nat ->
  src__serialize_single msg fuel num t v se w = Err e <-> src__len_single msg num t v se w = Err e.
Proof.
  intros Hf. pose proof (src_single_agree msg fuel num t v se w Hf) as H. unfold agree in H.
  destruct (src__serialize_single msg fuel num t v se w), (src__len_single msg num t v se w);
    split; intros E; try discriminate; try contradiction; congruence.
Qed.

Lemma src_len_ok_inv msg fuel num t v se w n :
  (src_fuel_single msg num t w v <= fuel)%nat ->
  src__len_single msg num t v se w = Ok n ->
  exists bs, src__serialize_single msg fuel num t v se w = Ok bs /\ n = Zlength bs.
Proof.
  intros Hf E. pose proof (src_single_agree msg fuel num t v se w Hf) as H. unfold agree in H. rewrite E in H.
  destruct (src__serialize_single msg fuel num t v se w) as [bs|]; [|contradiction]. exists bs. split; [reflexivity | exact H].
Qed.

(* ---------- the shape of what the translated writer emits ---------- *)
(* for a varint / fixed kind: key ++ payload, the key being the varint of (number << 3 | wire type) *)
Lemma src_serialize_shape msg fuel num t v se w out :
  (src_fuel_single msg num t w v <= fuel)%nat ->
  src__serialize_single msg fuel num t v se w = Ok out ->
  exists payload, src__preprocess_single msg fuel t w v = Ok payload /\
    ((out = [] /\ payload = [] /\ tmem t src_WIRE_LEN_DELIM_TYPES = true) \/
     exists wt key, encode_varint (Z.lor (Z.shiftl num 3) wt) = Ok key /\
       ((wt = 0 /\ tmem t src_WIRE_VARINT_TYPES = true /\ out = key ++ payload) \/
        (wt = 5 /\ tmem t src_WIRE_FIXED_32_TYPES = true /\ out = key ++ payload) \/
        (wt = 1 /\ tmem t src_WIRE_FIXED_64_TYPES = true /\ out = key ++ payload) \/
        (wt = 2 /\ tmem t src_WIRE_LEN_DELIM_TYPES = true /\
           exists n, encode_varint (Zlength payload) = Ok n /\ out = key ++ n ++ payload))).
Proof.
  intros Hf. rewrite src_serialize_is_model by exact Hf.
  assert (Hv : (src_fuel_value v <= fuel)%nat) by (unfold src_fuel_single in Hf; lia).
  rewrite src_preprocess_is_model by exact Hv.
  unfold serialize_with. src_consts.
  destruct (preprocess_with msg t w v) as [payload|e]; cbn [bind]; [|discriminate].
  intros H. exists payload. split; [reflexivity|].
  destruct (tmem t [TEnum; TBool; TInt32; TInt64; TUInt32; TUInt64; TSInt32; TSInt64]).
  { rewrite <- (Z.lor_0_r (Z.shiftl num 3)) in H.
    destruct (encode_varint (Z.lor (Z.shiftl num 3) 0)) as [key|] eqn:Ek; cbn [bind] in H; [|discriminate].
    right. exists 0, key. split; [exact Ek|]. left. repeat split. congruence. }
  destruct (tmem t [TFloat; TFixed32; TSFixed32]).
  { destruct (encode_varint (Z.lor (Z.shiftl num 3) 5)) as [key|] eqn:Ek; cbn [bind] in H; [|discriminate].
    right. exists 5, key. split; [exact Ek|]. right. left. repeat split. congruence. }
  destruct (tmem t [TDouble; TFixed64; TSFixed64]).
  { destruct (encode_varint (Z.lor (Z.shiftl num 3) 1)) as [key|] eqn:Ek; cbn [bind] in H; [|discriminate].
    right. exists 1, key. split; [exact Ek|]. right. right. left. repeat split. congruence. }
  destruct (tmem t [TString; TBytes; TMessage; TMap]); [|discriminate].
  destruct (negb (Zlength payload =? 0) || se || match w with Some _ => true | None => false end) eqn:Hc.
  - destruct (encode_varint (Z.lor (Z.shiftl num 3) 2)) as [key|] eqn:Ek; cbn [bind] in H; [|discriminate].
    destruct (encode_varint (Zlength payload)) as [n|] eqn:En; cbn [bind] in H; [|discriminate].
    right. exists 2, key. split; [exact Ek|]. right. right. right. repeat split. exists n. split; [reflexivity | congruence].
  - left. apply orb_false_iff in Hc as [Hc _]. apply orb_false_iff in Hc as [Hc _].
    apply negb_false_iff in Hc. rewrite Zlength_zero_iff in Hc.
    destruct payload; [|discriminate]. repeat split. congruence.
Qed.

(* ---------- what the translated writer emits reads back: tag, then (length-delimited kinds) the payload length ---------- *)
(* the wire type the translated dispatch gives a proto type, None when it raises NotImplementedError *)
Definition src_wire_type (t : ptype) : option Z :=
  if tmem t src_WIRE_VARINT_TYPES then Some 0
  else if tmem t src_WIRE_FIXED_32_TYPES then Some 5
  else if tmem t src_WIRE_FIXED_64_TYPES then Some 1
  else if tmem t src_WIRE_LEN_DELIM_TYPES then Some 2
  else None.

Lemma load_of_encode k bs rest : 0 <= k < 2 ^ 64 -> encode_varint k = Ok bs -> load_varint (bs ++ rest) = Ok (k, bs, rest).
Proof.
  intros Hk E. destruct (encode_load_inverse k rest ltac:(lia)) as (bs' & E' & L).
  rewrite E in E'. injection E' as <-. rewrite L. unfold wrap64. rewrite Z.mod_small by lia. reflexivity.
Qed.

Lemma src_serialize_reads_back msg fuel num t v se w out :
  0 <= num < 2 ^ 61 ->
  (src_fuel_single msg num t w v <= fuel)%nat ->
  src__serialize_single msg fuel num t v se w = Ok out ->
  exists payload wt, src__preprocess_single msg fuel t w v = Ok payload /\ src_wire_type t = Some wt /\
    ((out = [] /\ payload = [] /\ wt = 2) \/
     exists key rest, out = key ++ rest /\ load_varint out = Ok (num * 8 + wt, key, rest) /\
       if wt =? 2
       then Zlength payload < 2 ^ 64 -> exists n, rest = n ++ payload /\ load_varint rest = Ok (Zlength payload, n, payload)
       else rest = payload).
Proof.
  intros Hn Hf H.
  assert (Hk : forall wt, 0 <= wt < 8 -> Z.lor (Z.shiftl num 3) wt = num * 8 + wt).
  { intros wt Hwt. rewrite lor_small_range; rewrite ?Z.shiftl_mul_pow2 by lia; change (2 ^ 3) with 8; lia. }
  assert (Hkey : forall wt key rest, 0 <= wt < 8 -> encode_varint (Z.lor (Z.shiftl num 3) wt) = Ok key ->
                   load_varint (key ++ rest) = Ok (num * 8 + wt, key, rest)).
  { intros wt key rest Hwt Ek. rewrite <- Hk by exact Hwt. apply load_of_encode; [rewrite Hk by exact Hwt; lia | exact Ek]. }
  rewrite src_serialize_is_model in H by exact Hf.
  assert (Hv : (src_fuel_value v <= fuel)%nat) by (unfold src_fuel_single in Hf; lia).
  rewrite src_preprocess_is_model by exact Hv.
  unfold serialize_with in H. unfold src_wire_type.
  destruct (src_tables_are_model) as (_ & -> & -> & -> & ->).
  destruct (preprocess_with msg t w v) as [payload|e]; cbn [bind] in H; [|discriminate].
  exists payload.
  destruct (tmem t WIRE_VARINT_TYPES).
  { rewrite <- (Z.lor_0_r (Z.shiftl num 3)) in H.
    destruct (encode_varint (Z.lor (Z.shiftl num 3) 0)) as [key|] eqn:Ek; cbn [bind] in H; [|discriminate].
    injection H as <-. exists 0. split; [reflexivity|]. split; [reflexivity|]. right. exists key, payload.
    split; [reflexivity|]. split; [apply Hkey; [lia | exact Ek] | reflexivity]. }
  destruct (tmem t WIRE_FIXED_32_TYPES).
  { destruct (encode_varint (Z.lor (Z.shiftl num 3) 5)) as [key|] eqn:Ek; cbn [bind] in H; [|discriminate].
    injection H as <-. exists 5. split; [reflexivity|]. split; [reflexivity|]. right. exists key, payload.
    split; [reflexivity|]. split; [apply Hkey; [lia | exact Ek] | reflexivity]. }
  destruct (tmem t WIRE_FIXED_64_TYPES).
  { destruct (encode_varint (Z.lor (Z.shiftl num 3) 1)) as [key|] eqn:Ek; cbn [bind] in H; [|discriminate].
    injection H as <-. exists 1. split; [reflexivity|]. split; [reflexivity|]. right. exists key, payload.
    split; [reflexivity|]. split; [apply Hkey; [lia | exact Ek] | reflexivity]. }
  destruct (tmem t WIRE_LEN_DELIM_TYPES); [|discriminate].
  exists 2. split; [reflexivity|]. split; [reflexivity|].
  destruct (negb (Zlength payload =? 0) || se || match w with Some _ => true | None => false end) eqn:Hc.
  - destruct (encode_varint (Z.lor (Z.shiftl num 3) 2)) as [key|] eqn:Ek; cbn [bind] in H; [|discriminate].
    destruct (encode_varint (Zlength payload)) as [n|] eqn:En; cbn [bind] in H; [|discriminate].
    injection H as <-. right. exists key, (n ++ payload).
    split; [reflexivity|]. split; [apply Hkey; [lia | exact Ek]|].
    cbn [Z.eqb Pos.eqb]. intros Hlen. exists n. split; [reflexivity|].
    apply load_of_encode; [unfold Zlength in *; lia | exact En].
  - injection H as <-. left.
    apply orb_false_iff in Hc as [Hc _]. apply orb_false_iff in Hc as [Hc _].
    apply negb_false_iff in Hc. rewrite Zlength_zero_iff in Hc.
    destruct payload; [|discriminate]. repeat split.
Qed.

(* ---------- where the message walks call the helpers ---------- *)
(* In the model's walks over a message (Encode.emit_field / Len.len_field, the bodies of the loops of Message.dump and
   Message.__len__) a field whose value is not a list / dict is either skipped by both, or written by the translated
   _serialize_single and sized by the translated _len_single, on the same arguments. *)
Definition singular (v : pv) : Prop := match v with PList _ | PDict _ => False | _ => True end.

Lemma src_field_singular enc_msg sc f sel v fuel :
  singular v ->
  (src_fuel_single (msg_bytes enc_msg) (fnum f) (fty f) (fwraps f) v <= fuel)%nat ->
  (emit_field enc_msg sc f sel v = Ok [] /\ len_field enc_msg sc f sel v = Ok 0) \/
  exists se,
    emit_field enc_msg sc f sel v = src__serialize_single (msg_bytes enc_msg) fuel (fnum f) (fty f) v se (fwraps f) /\
    len_field enc_msg sc f sel v = src__len_single (msg_bytes enc_msg) (fnum f) (fty f) v se (fwraps f).
Proof.
  intros Hs Hf. unfold emit_field, len_field.
  destruct (is_default sc f v && negb _); [left; split; reflexivity|].
  right.
  destruct v; try contradiction;
    (eexists; split; [rewrite src_serialize_is_model by exact Hf; reflexivity | rewrite src_len_single_is_model; reflexivity]).
Qed.
