(* C17: the in-stream forms of the isolation theorems, and fuel irrelevance of Message.load. *)
From BP Require Import Base.Prelude Model.Types Model.Varint Model.Object Model.Decode.
From BP Require Import Model.C17Wire Model.C17Step Spec.Varint.
From BP Require Import Proofs.C17StepP Proofs.C17FrameP Proofs.C17ComposeP.

Theorem load_fuel_irrelevant sc f1 f2 o s size :
  (length s < f1)%nat -> (length s < f2)%nat -> load f1 sc o s size = load f2 sc o s size.
Proof. intros H1 H2. rewrite !load_eq. apply load_r_irrel; assumption. Qed.

Theorem mismatch_in_stream sc o pre nw r post i f :
  wrecs pre -> wrec nw r ->
  field_by_number (get_class sc (ocls o)) (tag_num nw) = Some (i, f) ->
  wire_type_fits f (tag_wt nw) = false ->
  parse_into sc o (pre ++ r ++ post) =
  (do o1 <- parse_into sc o pre; parse_into sc (add_unknown o1 r) post).
Proof.
  intros Wp Wr Hf Hfit. apply (foreign_record_in_stream sc o pre nw r post Wp Wr).
  intros o1 Hc. rewrite Hc, Hf, Hfit. reflexivity.
Qed.

Theorem group_in_stream sc o pre nw r post :
  wrecs pre -> wrec nw r -> tag_wt nw = 3 ->
  parse_into sc o (pre ++ r ++ post) =
  (do o1 <- parse_into sc o pre; parse_into sc (add_unknown o1 r) post).
Proof.
  intros Wp Wr Hw. apply (foreign_record_in_stream sc o pre nw r post Wp Wr).
  intros o1 _. rewrite Hw. destruct (field_by_number _ _) as [[i f]|]; reflexivity.
Qed.
