(* C04 (include_default_values generic, wfx schemas): to_dict(m, include_default_values=incl) is json.dumps-serialisable.
   With include_default_values=True the defaults of unset plain sub-messages are printed by Cls().to_dict(...), which the
   model runs on fuel: the hypothesis defaults_reach says the fuel suffices (no recursive class is entered).
   Mirrors C04DumpsP. *)
From BP Require Import Base.Prelude Model.Types Model.Float Model.Utf8 Model.Object Model.Eq Model.TimeCore.
From BP Require Import Model.Encode Model.WellFormed Model.Json Model.C04RepWrap.
From BP Require Import gen.Tables Proofs.BytesP Proofs.C04Def Proofs.C04ScalarP Proofs.C04ElemP Proofs.C04FieldP Proofs.C04ObjP Proofs.C04DumpsP
  Proofs.C04InclDef Proofs.C04InclBaseP Proofs.C04InclFieldP Proofs.C04InclObjP.
From Coq Require Import Lia ZifyBool.

Definition dump_ok (incl : bool) (sc : schema) (o : obj) : bool := local_oneof_ok sc o && (negb incl || local_reach sc o).
Definition dump_deep (incl : bool) (sc : schema) (v : pv) : bool := pv_all (dump_ok incl sc) v.

Lemma dump_deep_split incl sc o :
  oneof_ok sc o = true -> (incl = true -> defaults_reach sc o = true) -> dump_deep incl sc (PMsg o) = true.
Proof.
  intros H1 H2. unfold dump_deep, dump_ok. rewrite pv_all_and. unfold oneof_ok, obj_all in H1. rewrite H1. cbn [andb].
  destruct incl; cbn [negb orb]; [exact (H2 eq_refl)|apply pv_all_true].
Qed.

Lemma pv_size_pos x : (1 <= pv_size x)%nat.
Proof. destruct x as [| | | | | | | | | | |[? ? ? ? ?]]; cbn [pv_size]; lia. Qed.

Section Dumps.
  Variable sc : schema.
  Variable cs : casing.
  Variable incl : bool.
  Hypothesis WF : wfx_schema sc = true.

  Section Step.
    Variable n : nat.
    Hypothesis IHo : forall o', (pv_size (PMsg o') < n)%nat -> in_rangex sc o' = true -> dump_deep incl sc (PMsg o') = true ->
      dumpsable (to_dict cs incl sc o') = true.

    Let nc := length (classes sc).
    Let ne := length (enums sc).

    Lemma elem_dumpsG t p y :
      (pv_size y < n)%nat -> pyty_fits nc ne t p = true -> elem_in_rangex sc t p y = true -> dump_deep incl sc y = true ->
      dumpsable (elem_to_json (to_dict cs incl sc) sc t p y) = true.
    Proof.
      intros Hs Hp Hr Ho. destruct (scalar_py p) eqn:Sp.
      - pose proof (fits_scalar _ _ _ _ Sp Hp) as Ht. rewrite (elem_scalarx _ _ _ _ Sp) in Hr.
        assert (E : elem_to_json (to_dict cs incl sc) sc t p y = scalar_to_json sc t p y)
          by (destruct t, y; try discriminate Hr; reflexivity).
        rewrite E. apply atom_dumpsable. apply scalar_atom; assumption.
      - pose proof (fits_message _ _ _ _ Sp Hp) as ->.
        destruct p; try discriminate Sp; destruct y as [| | | | | | | | | | |o]; try discriminate Hr; try reflexivity.
        destruct (in_range_objx sc c o Hr) as [_ Hio]. cbn [elem_to_json]. exact (IHo o Hs Hio Ho).
    Qed.

    Lemma scalar_list_dumps t p l :
      tmem t scalar_ptypes = true -> pyty_fits nc ne t p = true ->
      (forall y, In y l -> scalar_in_range t y = true) ->
      dumpsable (JList (map (scalar_to_json sc t p) l)) = true.
    Proof.
      intros Ht Hp Hv. cbn [dumpsable]. rewrite forallb_forall. intros j' Hj'. apply in_map_iff in Hj' as [y [<- Hy]].
      apply atom_dumpsable. apply scalar_atom; try assumption. apply Hv, Hy.
    Qed.

    Lemma field_dumpsG ng f sel x j :
      wfx_field sc ng f = true -> (pv_size x < n)%nat -> x <> PPlaceholder ->
      value_okx sc f x = true -> dump_deep incl sc x = true ->
      field_to_json (to_dict cs incl sc) sc incl f sel x = Some j -> dumpsable j = true.
    Proof.
      intros W Hs Hx Hv Ho Hj.
      destruct (pv_none_dec x) as [->|Hxn]; [rewrite (none_json _ sc ng incl f sel j W Hv Hj); reflexivity|].
      unfold value_okx in Hv. unfold field_to_json in Hj. unfold hint_elem, elem_ptype in *.
      destruct (wfx_kind sc ng f W) as [p Hh Ho' Hw Hm Hp|p w Hh Hw Ho' Hm Hgr Ht Hws Sp Hp|p Hh Hw Ho' Hm Hgr Hp|p Hh Hw Ho' Hm Hgr Hp
                                       |pk p kt vt Hh Hw Ho' Hm Hgr Ht Hk Hp|p w Hh Hw Ho' Hm Hgr Ht Hws Sp Hp];
        fold nc ne in Hp; rewrite ?Hh, ?Hw, ?Ho', ?Hm in *.
      - assert (Hr : elem_in_rangex sc (fty f) p x = true) by (destruct x; try congruence; exact Hv).
        pose proof (elem_dumpsG (fty f) p x Hs Hp Hr Ho) as D.
        destruct (scalar_py p) eqn:Sp.
        + pose proof (fits_scalar _ _ _ _ Sp Hp) as Ht. destruct (scalar_not_message _ Ht) as [Nm Np].
          rewrite Nm, Np in Hj. rewrite (elem_scalarx _ _ _ _ Sp) in Hr.
          destruct (negb (is_default sc f x) || (incl || match sel with Some true => true | _ => false end)); [|discriminate Hj].
          assert (E : j = scalar_to_json sc (fty f) p x) by (destruct x; try congruence; inversion Hj; reflexivity).
          subst j. apply atom_dumpsable. apply scalar_atom; assumption.
        + pose proof (fits_message _ _ _ _ Sp Hp) as Et. rewrite Et in *. change (ptype_eqb TMessage TMessage) with true in Hj. cbv iota in Hj.
          assert (E : j = elem_to_json (to_dict cs incl sc) sc TMessage p x).
          { destruct p; try discriminate Sp; destruct x; try discriminate Hr; cbn [elem_to_json];
              apply emit_some in Hj as [_ Hj]; symmetry; exact Hj. }
          subst j. exact D.
      - rewrite Ht in Hj. change (ptype_eqb TMessage TMessage) with true in Hj. cbv iota in Hj.
        assert (Hr : scalar_in_range w x = true) by (rewrite <- (elem_scalarx sc w p x Sp); destruct x; try congruence; exact Hv).
        assert (E : j = scalar_to_json sc w p x)
          by (destruct x; try congruence; try (destruct w; discriminate Hr); inversion Hj; reflexivity).
        subst j. apply atom_dumpsable. apply scalar_atom; assumption.
      - assert (Hr : elem_in_rangex sc (fty f) p x = true) by (destruct x; try congruence; exact Hv).
        pose proof (elem_dumpsG (fty f) p x Hs Hp Hr Ho) as D.
        destruct (scalar_py p) eqn:Sp.
        + pose proof (fits_scalar _ _ _ _ Sp Hp) as Ht. destruct (scalar_not_message _ Ht) as [Nm Np].
          rewrite Nm, Np in Hj. rewrite (elem_scalarx _ _ _ _ Sp) in Hr.
          destruct (negb (is_default sc f x) || (incl || match sel with Some true => true | _ => false end)); [|discriminate Hj].
          assert (E : j = scalar_to_json sc (fty f) p x) by (destruct x; try congruence; inversion Hj; reflexivity).
          subst j. apply atom_dumpsable. apply scalar_atom; assumption.
        + pose proof (fits_message _ _ _ _ Sp Hp) as Et. rewrite Et in *. change (ptype_eqb TMessage TMessage) with true in Hj. cbv iota in Hj.
          assert (E : j = elem_to_json (to_dict cs incl sc) sc TMessage p x).
          { destruct p; try discriminate Sp; destruct x; try discriminate Hr; try congruence; cbn [elem_to_json];
              apply emit_some in Hj as [_ Hj]; symmetry; exact Hj. }
          subst j. exact D.
      - destruct x as [| | | | | | | | |l| |]; try discriminate Hv; try congruence.
        rewrite forallb_forall in Hv.
        unfold dump_deep in Ho. cbn [pv_all] in Ho. rewrite forallb_forall in Ho.
        assert (Sz : forall y, In y l -> (pv_size y < n)%nat)
          by (intros y Hy; rewrite size_list in Hs; pose proof (in_sum_size y l Hy); lia).
        destruct (scalar_py p) eqn:Sp.
        + pose proof (fits_scalar _ _ _ _ Sp Hp) as Ht. destruct (scalar_not_message _ Ht) as [Nm Np].
          rewrite Nm, Np in Hj.
          destruct (negb (is_default sc f (PList l)) || (incl || match sel with Some true => true | _ => false end)); [|discriminate Hj].
          inversion Hj; subst j. apply scalar_list_dumps; try assumption.
          intros y Hy. rewrite <- (elem_scalarx sc _ p y Sp). apply Hv, Hy.
        + pose proof (fits_message _ _ _ _ Sp Hp) as Et. rewrite Et in *. change (ptype_eqb TMessage TMessage) with true in Hj. cbv iota in Hj.
          apply emit_some in Hj as [_ Hj]. subst j. cbn [dumpsable]. rewrite forallb_forall. intros j' Hj'.
          apply in_map_iff in Hj' as [y [<- Hy]]. apply elem_dumpsG; [apply Sz, Hy|exact Hp|apply Hv, Hy|apply Ho, Hy].
      - destruct x as [| | | | | | | | | |d|]; try discriminate Hv; try congruence.
        rewrite forallb_forall in Hv.
        unfold dump_deep in Ho. cbn [pv_all] in Ho. rewrite forallb_forall in Ho.
        rewrite Ht in Hj. change (ptype_eqb TMap TMessage) with false in Hj. change (ptype_eqb TMap TMap) with true in Hj. cbv iota in Hj.
        apply emit_some in Hj as [_ Hj]. subst j. rewrite dumpsable_obj. rewrite forallb_forall. intros e He.
        apply in_map_iff in He as [[k y] [<- Hy]].
        specialize (Hv _ Hy). cbn [fst snd] in Hv. apply andb_prop in Hv as [Hk' Hy'].
        apply (key_dumps kt); [exact Hk|exact Hk'|].
        apply elem_dumpsG; [|exact Hp|exact Hy'|exact (Ho _ Hy)].
        rewrite size_dict in Hs. pose proof (in_sum_size_d k y d Hy). lia.
      - destruct x as [| | | | | | | | |l| |]; try discriminate Hv; try congruence.
        rewrite forallb_forall in Hv.
        rewrite Ht in Hj. change (ptype_eqb TMessage TMessage) with true in Hj. cbv iota in Hj.
        inversion Hj; subst j. apply scalar_list_dumps; try assumption.
        intros y Hy. rewrite <- (elem_scalarx sc _ p y Sp). apply Hv, Hy.
    Qed.
  End Step.

  (* a simple default (scalar, Timestamp, Duration, [], {}) is printed as something dumpsable, whatever the recursive printer *)
  Lemma simple_default_dumps rec ng f sel j :
    wfx_field sc ng f = true -> simple_pv (default_of sc f) = true ->
    field_to_json rec sc incl f sel (default_of sc f) = Some j -> dumpsable j = true.
  Proof.
    intros W S Hj. rewrite (field_to_json_simple _ (to_dict cs incl sc) sc incl f sel _ S) in Hj.
    destruct (default_value_okx sc ng f W S) as [Hv _].
    assert (IH2 : forall o', (pv_size (PMsg o') < 2)%nat -> in_rangex sc o' = true -> dump_deep incl sc (PMsg o') = true ->
                             dumpsable (to_dict cs incl sc o') = true).
    { intros [c' r s' u' g'] Hs' _ _. rewrite size_msg in Hs'. destruct r as [|x r]; [rewrite to_dict_unfoldG; reflexivity|].
      rewrite sum_size_cons in Hs'. pose proof (pv_size_pos x). lia. }
    apply (field_dumpsG 2 IH2 ng f sel (default_of sc f) j W).
    - rewrite (simple_size _ S). lia.
    - destruct (default_of sc f); try discriminate S; discriminate.
    - exact Hv.
    - unfold dump_deep. destruct (default_of sc f) as [| | | | | | | | |[|? ?]|[|? ?]|]; try discriminate S; reflexivity.
    - exact Hj.
  Qed.
End Dumps.

(* Cls().to_dict(casing, include_default_values=True) *)
Lemma default_dict_dumps sc cs : wfx_schema sc = true ->
  forall fuel c, defaults_ok fuel sc c = true -> dumpsable (default_dict fuel cs sc c) = true.
Proof.
  intros WF. induction fuel as [|fuel IH]; intros c D; [discriminate D|].
  cbn [default_dict defaults_ok] in *. rewrite dumpsable_obj. apply dict_norm_ok.
  pose proof (wfx_fields sc c WF) as W. revert W D. generalize (cngroups (get_class sc c)) as ng.
  induction (cfields (get_class sc c)) as [|f fs IHf]; intros ng W D; [reflexivity|].
  cbn [forallb] in W, D. apply andb_prop in W as [W1 W2]. apply andb_prop in D as [D1 D2].
  cbn [flat_map]. rewrite forallb_app. rewrite (IHf ng W2 D2), andb_true_r.
  destruct (fgroup f) as [g|] eqn:G; [reflexivity|].
  destruct (field_to_json (fun o' : obj => default_dict fuel cs sc (ocls o')) sc true f None (default_of sc f)) as [j|] eqn:E; [|reflexivity].
  cbn [forallb snd]. rewrite andb_true_r.
  destruct (default_cases sc f) as [Dn|[[c' [Hh Dm]]|S]].
  - rewrite Dn in E.
    assert (Hv : value_okx sc f PNone = true).
    { unfold value_okx. unfold default_of in Dn. destruct (fhint f) as [p|p|p|pk p]; try discriminate Dn; [|reflexivity]. destruct p; discriminate Dn. }
    rewrite (none_json _ sc ng true f None j W1 Hv E). reflexivity.
  - rewrite Hh in D1. rewrite Dm in E.
    destruct (wfx_kind sc ng f W1) as [p Hh' Ho Hw Hm Hfit|p w Hh' _ _ _ _ _ _ _ _|p Hh' _ _ _ _ _|p Hh' _ _ _ _ _
                                      |pk p kt vt Hh' _ _ _ _ _ _ _|p w Hh' _ _ _ _ _ _ _ _]; try congruence.
    rewrite Hh in Hh'. inversion Hh'; subst p.
    assert (Et : fty f = TMessage) by (destruct (fty f); try discriminate Hfit; reflexivity).
    unfold field_to_json, emit in E. rewrite Et, Hw, Hh in E. change (ptype_eqb TMessage TMessage) with true in E. cbv iota in E.
    rewrite !orb_true_r in E. cbn [orb] in E. inversion E; subst j. cbn [ocls new]. apply IH. exact D1.
  - exact (simple_default_dumps sc cs true WF _ ng f None j W1 S E).
Qed.

Section DumpsObj.
  Variable sc : schema.
  Variable cs : casing.
  Variable incl : bool.
  Hypothesis WF : wfx_schema sc = true.

  Section Step.
    Variable n : nat.
    Hypothesis IHo : forall o', (pv_size (PMsg o') < n)%nat -> in_rangex sc o' = true -> dump_deep incl sc (PMsg o') = true ->
      dumpsable (to_dict cs incl sc o') = true.

    Lemma items_dumpsG cur ng raw : forall fs i,
      forallb (wfx_field sc ng) fs = true -> fields_okx sc raw fs = true -> forallb (dump_deep incl sc) raw = true ->
      oneof_loop cur i raw fs = true -> (incl = true -> reach_loop sc cur i raw fs = true) ->
      (forall x, In x raw -> (pv_size x < n)%nat) ->
      forallb (fun kj => dumpsable (snd kj)) (td_itemsG cs sc incl cur i raw fs) = true.
    Proof.
      induction raw as [|x raw IH]; intros fs i W F G O R S; [reflexivity|]. destruct fs as [|f fs]; [reflexivity|].
      cbn [forallb] in W, G. apply andb_prop in W as [W1 W2]. apply andb_prop in G as [G1 G2].
      cbn [fields_okx] in F. apply andb_prop in F as [F1 F2]. cbn [oneof_loop] in O. apply andb_prop in O as [O1 O2].
      assert (R2 : incl = true -> reach_loop sc cur (Datatypes.S i) raw fs = true)
        by (intros E; specialize (R E); cbn [reach_loop] in R; apply andb_prop in R as [_ R]; exact R).
      assert (R1 : incl = true -> reach_cond sc (group_selects cur f i) f x = true)
        by (intros E; specialize (R E); cbn [reach_loop] in R; apply andb_prop in R as [R _]; exact R).
      cbn [td_itemsG]. rewrite forallb_app. rewrite (IH fs (Datatypes.S i) W2 F2 G2 O2 R2 (fun y Hy => S y (or_intror Hy))), andb_true_r.
      assert (Sx : (pv_size x < n)%nat) by (apply S; left; reflexivity).
      destruct (td_head cs sc incl (group_selects cur f i) f x) as [j|] eqn:E; [|reflexivity].
      cbn [forallb snd]. rewrite andb_true_r. unfold td_head in E.
      destruct (group_selects cur f i) as [[|]|] eqn:Gs; [|discriminate E|].
      - assert (Hx : x <> PPlaceholder) by (intros ->; discriminate O1).
        rewrite (not_ph x _ _ Hx) in E. exact (field_dumpsG sc cs incl WF n IHo ng f (Some true) x j W1 Sx Hx F1 G1 E).
      - destruct (pv_eq_dec_ph x) as [->|Hx].
        + destruct (default_cases sc f) as [Dn|[[c' [Hh Dm]]|Sd]].
          * rewrite Dn in E.
            assert (Hv : value_okx sc f PNone = true).
            { unfold value_okx. unfold default_of in Dn. destruct (fhint f) as [p|p|p|pk p]; try discriminate Dn; [|reflexivity]. destruct p; discriminate Dn. }
            rewrite (none_json _ sc ng incl f None j W1 Hv E). reflexivity.
          * rewrite Dm in E.
            destruct (wfx_kind sc ng f W1) as [p Hh' Ho Hw Hm Hfit|p w Hh' _ _ _ _ _ _ _ _|p Hh' _ _ _ _ _|p Hh' _ _ _ _ _
                                              |pk p kt vt Hh' _ _ _ _ _ _ _|p w Hh' _ _ _ _ _ _ _ _]; try congruence.
            rewrite Hh in Hh'. inversion Hh'; subst p.
            assert (Et : fty f = TMessage) by (destruct (fty f); try discriminate Hfit; reflexivity).
            unfold field_to_json, emit in E. rewrite Et, Hw, Hh, Ho in E. change (ptype_eqb TMessage TMessage) with true in E. cbv iota in E.
            cbn [new osow orb] in E. rewrite !orb_false_r in E.
            destruct incl; [|discriminate E]. inversion E; subst j. unfold drec. cbn [ocls new].
            specialize (R1 eq_refl). unfold reach_cond in R1. rewrite Hh in R1.
            exact (default_dict_dumps sc cs WF default_fuel c' R1).
          * exact (simple_default_dumps sc cs incl WF _ ng f None j W1 Sd E).
        + rewrite (not_ph x _ _ Hx) in E. exact (field_dumpsG sc cs incl WF n IHo ng f None x j W1 Sx Hx F1 G1 E).
    Qed.
  End Step.

  Lemma dumps_nG : forall n o, (pv_size (PMsg o) < n)%nat -> in_rangex sc o = true -> dump_deep incl sc (PMsg o) = true ->
    dumpsable (to_dict cs incl sc o) = true.
  Proof.
    induction n as [|n IHn]; intros o Hs Hr Ho; [lia|].
    destruct o as [c raw s u g].
    destruct (in_rangex_unfold _ _ _ _ _ _ Hr) as [_ [_ F]].
    unfold dump_deep in Ho. rewrite pv_all_msg in Ho. apply andb_prop in Ho as [Hloc Hsub].
    unfold dump_ok in Hloc. apply andb_prop in Hloc as [Hone Hreach].
    rewrite local_oneof_unfold in Hone.
    rewrite to_dict_unfoldG, dumpsable_obj. apply dict_norm_ok.
    apply (items_dumpsG n IHn g (cngroups (get_class sc c))); try assumption.
    - exact (wfx_fields sc c WF).
    - intros ->. cbn [negb orb] in Hreach. rewrite local_reach_unfold in Hreach. exact Hreach.
    - intros x Hx. rewrite size_msg in Hs. pose proof (in_sum_size x raw Hx). lia.
  Qed.

  Theorem dumps_totalG o : in_rangex sc o = true -> oneof_ok sc o = true -> (incl = true -> defaults_reach sc o = true) ->
    dumpsable (to_dict cs incl sc o) = true.
  Proof.
    intros Hr Ho Hd. exact (dumps_nG (S (pv_size (PMsg o))) o (Nat.lt_succ_diag_r _) Hr (dump_deep_split incl sc o Ho Hd)).
  Qed.
End DumpsObj.
