(* C02, gap closure (4): the two instances of sem_repeated_rewrite the property names, for every packable type and
   every payload (specification level).
     unpack_app        the elements of a packed payload b1 ++ b2, b1 a whole number of elements, are those of b1 then of b2
     sem_chunk_split   a packed record split into two chunks                                   ("a packed field split into several chunks")
     sem_packed_toggle one packed record against ANY run of records with the same elements     ("packed or unpacked repeated scalars") *)
From Coq Require Import ZArith List Bool Lia.
From BP Require Import Base.Prelude Model.Types Model.Object Model.WellFormed Spec.Varint Spec.Wire.
From BP Require Import Proofs.C02Abs Proofs.C02WireP Proofs.C02ListP Proofs.C02StepP.
From BP Require Import Model.C02GapDef Proofs.C02GapB Proofs.C02GapC.
Import ListNotations.

(* ------------------------------------------------------------------ packed varints *)
Lemma read_varint_app k b1 b2 n r :
  read_varint k b1 = Some (n, r) -> read_varint k (b1 ++ b2) = Some (n, r ++ b2) /\ (length r < length b1)%nat.
Proof.
  intros H. destruct (read_varint_sound k b1 n r H) as (raw & -> & Sh & Va & Le).
  split.
  - rewrite <- app_assoc, (read_varint_complete raw k (r ++ b2) Sh Le), Va. reflexivity.
  - rewrite app_length. destruct raw; [cbn in Sh; tauto | cbn [length]; lia].
Qed.

Lemma unpack_varints_S fuel t x b :
  unpack_varints (S fuel) t (x :: b) =
  (let? (n, r) := read_varint 10 (x :: b) in
   if n <? 2 ^ 64 then let? y := of_varint t n in let? xs := unpack_varints fuel t r in Some (y :: xs) else None).
Proof. reflexivity. Qed.

Lemma unpack_varints_nil fuel t : unpack_varints fuel t [] = Some [].
Proof. destruct fuel; reflexivity. Qed.

Lemma unpack_varints_mono t : forall f1 f2 b, (length b <= f1)%nat -> (length b <= f2)%nat ->
  unpack_varints f1 t b = unpack_varints f2 t b.
Proof.
  induction f1 as [|f1 IH]; intros f2 b L1 L2.
  - destruct b; [now rewrite !unpack_varints_nil | cbn in L1; lia].
  - destruct b as [|x b]; [now rewrite !unpack_varints_nil|].
    destruct f2 as [|f2]; [cbn in L2; lia|]. rewrite !unpack_varints_S.
    destruct (read_varint 10 (x :: b)) as [[n r]|] eqn:R; cbn [obind]; [|reflexivity].
    destruct (read_varint_app 10 (x :: b) [] n r R) as (_ & Lr). cbn [length] in Lr, L1, L2.
    destruct (n <? 2 ^ 64); [|reflexivity]. destruct (of_varint t n); cbn [obind]; [|reflexivity].
    rewrite (IH f2 r) by lia. reflexivity.
Qed.

Lemma unpack_varints_app t : forall f1 b1 l1 b2 f2,
  unpack_varints f1 t b1 = Some l1 -> (length b2 <= f2)%nat ->
  unpack_varints (f1 + f2) t (b1 ++ b2) = (let? l2 := unpack_varints f2 t b2 in Some (l1 ++ l2)).
Proof.
  induction f1 as [|f1 IH]; intros b1 l1 b2 f2 H L2.
  - destruct b1; [|discriminate H]. cbn in H. injection H as <-. cbn [Nat.add app].
    destruct (unpack_varints f2 t b2); reflexivity.
  - destruct b1 as [|x b1].
    + rewrite unpack_varints_nil in H. injection H as <-. cbn [app].
      rewrite (unpack_varints_mono t (S f1 + f2) f2 b2) by lia. destruct (unpack_varints f2 t b2); reflexivity.
    + rewrite unpack_varints_S in H. cbn [Nat.add]. change ((x :: b1) ++ b2) with (x :: (b1 ++ b2)).
      rewrite unpack_varints_S. change (x :: (b1 ++ b2)) with ((x :: b1) ++ b2).
      destruct (read_varint 10 (x :: b1)) as [[n r]|] eqn:R; cbn [obind] in H; [|discriminate].
      destruct (read_varint_app 10 (x :: b1) b2 n r R) as (-> & _). cbn [obind].
      destruct (n <? 2 ^ 64); [|discriminate]. destruct (of_varint t n) as [y|]; cbn [obind] in H |- *; [|discriminate].
      destruct (unpack_varints f1 t r) as [xs|] eqn:U; cbn [obind] in H; [|discriminate]. injection H as <-.
      rewrite (IH r xs b2 f2 U L2). destruct (unpack_varints f2 t b2); reflexivity.
Qed.

(* ------------------------------------------------------------------ packed fixed-width elements *)
Lemma unpack_fixed_S fuel w one x b :
  unpack_fixed (S fuel) w one (x :: b) =
  (let? (y, r) := take w (x :: b) in let? v := one y in let? vs := unpack_fixed fuel w one r in Some (v :: vs)).
Proof. reflexivity. Qed.

Lemma unpack_fixed_nil fuel w one : unpack_fixed fuel w one [] = Some [].
Proof. destruct fuel; reflexivity. Qed.

Lemma unpack_fixed_mono w one : (0 < w)%nat -> forall f1 f2 b, (length b <= f1)%nat -> (length b <= f2)%nat ->
  unpack_fixed f1 w one b = unpack_fixed f2 w one b.
Proof.
  intros Hw. induction f1 as [|f1 IH]; intros f2 b L1 L2.
  - destruct b; [now rewrite !unpack_fixed_nil | cbn in L1; lia].
  - destruct b as [|x b]; [now rewrite !unpack_fixed_nil|].
    destruct f2 as [|f2]; [cbn in L2; lia|]. rewrite !unpack_fixed_S.
    destruct (take w (x :: b)) as [[y r]|] eqn:T; cbn [obind]; [|reflexivity].
    destruct (take_sound w (x :: b) y r T) as (E & Ly).
    assert (Lr : (length r < length (x :: b))%nat) by (rewrite E, app_length; lia).
    cbn [length] in Lr, L1, L2.
    destruct (one y); cbn [obind]; [|reflexivity]. rewrite (IH f2 r) by lia. reflexivity.
Qed.

Lemma unpack_fixed_app w one : (0 < w)%nat -> forall f1 b1 l1 b2 f2,
  unpack_fixed f1 w one b1 = Some l1 -> (length b2 <= f2)%nat ->
  unpack_fixed (f1 + f2) w one (b1 ++ b2) = (let? l2 := unpack_fixed f2 w one b2 in Some (l1 ++ l2)).
Proof.
  intros Hw. induction f1 as [|f1 IH]; intros b1 l1 b2 f2 H L2.
  - destruct b1; [|discriminate H]. cbn in H. injection H as <-. cbn [Nat.add app].
    destruct (unpack_fixed f2 w one b2); reflexivity.
  - destruct b1 as [|x b1].
    + rewrite unpack_fixed_nil in H. injection H as <-. cbn [app].
      rewrite (unpack_fixed_mono w one Hw (S f1 + f2) f2 b2) by lia. destruct (unpack_fixed f2 w one b2); reflexivity.
    + rewrite unpack_fixed_S in H. cbn [Nat.add]. change ((x :: b1) ++ b2) with (x :: (b1 ++ b2)).
      rewrite unpack_fixed_S. change (x :: (b1 ++ b2)) with ((x :: b1) ++ b2).
      destruct (take w (x :: b1)) as [[y r]|] eqn:T; cbn [obind] in H; [|discriminate].
      destruct (take_sound w (x :: b1) y r T) as (E & Ly).
      rewrite E, <- app_assoc, (take_app w y (r ++ b2) Ly). cbn [obind].
      destruct (one y) as [v|]; cbn [obind] in H |- *; [|discriminate].
      destruct (unpack_fixed f1 w one r) as [vs|] eqn:U; cbn [obind] in H; [|discriminate]. injection H as <-.
      rewrite (IH r vs b2 f2 U L2). destruct (unpack_fixed f2 w one b2); reflexivity.
Qed.

Theorem unpack_app t b1 b2 l1 :
  unpack t b1 = Some l1 -> unpack t (b1 ++ b2) = (let? l2 := unpack t b2 in Some (l1 ++ l2)).
Proof.
  unfold unpack. rewrite app_length. destruct (wire_of t); intros H.
  - now apply unpack_varints_app.
  - apply unpack_fixed_app; [lia | exact H | lia].
  - discriminate.
  - apply unpack_fixed_app; [lia | exact H | lia].
Qed.

(* ------------------------------------------------------------------ the two named re-encodings *)
Lemma slot_len_indep sc fs num b b' i f :
  slot sc fs (num, Len b) = Some (i, f) -> card_of f = Repeated -> slot sc fs (num, Len b') = Some (i, f).
Proof.
  unfold slot. cbn [fst snd]. destruct (find_field fs num) as [[i0 f0]|]; [|discriminate].
  destruct (accepts sc f0 (Len b)) eqn:A; [|discriminate]. intros H. injection H as -> ->. intros Cd.
  assert (accepts sc f (Len b') = true) as ->; [|reflexivity].
  revert A. unfold accepts, fits. rewrite Cd. destruct (wire_of (fty f)); auto.
Qed.

Theorem sem_chunk_split n sc c pre num b1 b2 post i f :
  slot sc (cfields (get_class sc c)) (num, Len (b1 ++ b2)) = Some (i, f) ->
  card_of f = Repeated -> packable (fty f) = true -> is_some (unpack (fty f) b1) = true ->
  sem n sc c (pre ++ (num, Len (b1 ++ b2)) :: post) = sem n sc c (pre ++ (num, Len b1) :: (num, Len b2) :: post).
Proof.
  intros Sl Cd Pk U.
  change (pre ++ (num, Len (b1 ++ b2)) :: post) with (pre ++ [(num, Len (b1 ++ b2))] ++ post).
  change (pre ++ (num, Len b1) :: (num, Len b2) :: post) with (pre ++ [(num, Len b1); (num, Len b2)] ++ post).
  apply (sem_repeated_rewrite n sc c pre _ _ post i f); try discriminate; try exact Cd.
  - intros r [<-|[]]. exact Sl.
  - intros r [<-|[<-|[]]]; eapply slot_len_indep; eauto.
  - intros nested. unfold elems_all. cbn [map snd omap_all elems_of]. rewrite Pk.
    destruct (unpack (fty f) b1) as [l1|] eqn:E1; [|discriminate]. rewrite (unpack_app (fty f) b1 b2 l1 E1).
    cbn [obind]. destruct (unpack (fty f) b2) as [l2|]; cbn [obind concat]; [|reflexivity].
    now rewrite !app_nil_r.
Qed.

(* packed against any other form: one packed record with elements l, and any non-empty run of records of the field
   (single elements, packed chunks, padded or not) whose elements are l *)
Theorem sem_packed_toggle n sc c pre num b mid' post i f l :
  slot sc (cfields (get_class sc c)) (num, Len b) = Some (i, f) ->
  card_of f = Repeated -> packable (fty f) = true -> unpack (fty f) b = Some l ->
  all_slot sc (cfields (get_class sc c)) i f mid' -> mid' <> [] ->
  (forall nested, elems_all nested f mid' = Some l) ->
  sem n sc c (pre ++ (num, Len b) :: post) = sem n sc c (pre ++ mid' ++ post).
Proof.
  intros Sl Cd Pk U A' Ne' HE.
  change (pre ++ (num, Len b) :: post) with (pre ++ [(num, Len b)] ++ post).
  apply (sem_repeated_rewrite n sc c pre _ _ post i f); try discriminate; try assumption.
  - intros r [<-|[]]. exact Sl.
  - intros nested. rewrite HE. unfold elems_all. cbn [map snd omap_all elems_of]. rewrite Pk, U. cbn [obind concat].
    now rewrite app_nil_r.
Qed.
