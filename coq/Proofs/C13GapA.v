(* C13 — gap analysis of the property text against Properties/C13.v, and the gap-closing proofs (GapA = this file, GapB = C13GapB.v).

   PROPERTY TEXT, clause by clause  ->  theorems that existed  ->  gap  ->  closed by

   (1) "For any two proto packages in any relative position (same package, ancestor, descendant, sibling, cousin, or no package)"
         -> C13_resolves (every ordered pair of paths, any depth; the positions are the cases of its proof), C13_reference_head
            (rel_of / via_name).
         gap a: rel_of is only a definition (the dispatch of the code): nothing says its five values ARE the positions the text
            names, i.e. that the classification is exhaustive, exclusive and means what the words mean.
            -> GapB rel_of_spec (each value characterised by the list equation: tgt = cur / tgt = cur ++ rest / cur = tgt ++ rest
               with tgt <> [] / tgt = [] <> cur / none of these), sibling_is_cousin (same parent, different last segment -> RCousin
               with exactly one step up).
         gap b: "relative position": the reference should depend on the relative position only.
            NOT DONE (open): prefixing BOTH packages with the same parent path changes neither the annotation nor the import line
               when the target is not the root package (the root form imports the CLASS, the ancestor form the module).
   (2) "a field, map value, oneof member or RPC type"
         -> the model has no site parameter (the code has none): sites differ by [unwrap] only (fields true, rpc false); C13_resolves
            quantifies over both.
         gap: nothing states that the site / the typing option cannot matter.
            -> GapA site_independent: for a target outside google.protobuf the pair returned is THE SAME for both values of unwrap
               and both values of pydantic.
   (3) "that refers to a message, nested message or enum of the other package"
         -> C13_resolves takes any type_okb T (dotted = nested); C13_class_name links reference and class statement GIVEN
            cls_name (dotted) = cls_name (flat), which is only sampled; type_okb / identb (cls_name T) are sampled too.
         gap a: the link hypothesis.  -> GapA class_name_casing_model: for the casing model's pascal_case it holds for EVERY nested
               path (words_dotted / words_flat: both strings have the same word list), no hypothesis left.
         gap b: type_okb for protoc's names.  -> GapA nested_type_ok: every non-empty path of segments that start with an upper-case
               letter and contain no '.' / newline is type_okb.
         gap c: identb (cls_name T).  NOT DONE (open): for the casing model it should follow from C19's decidable class_name_ok T
               (Proofs/CasingP3.v class_name_ident) through the bridge lemmas of Proofs/ImportingP9.v.
   (4) "resolves, once the generated packages are imported, to EXACTLY the class generated for that type"
         -> C13_resolves (denotes ... (VCls (root ++ tgt) (cls_name T))), C13_output_tree (world_has of parser.py's files).
         gap a ("exactly"): denotes is a relation; nothing says a reference denotes ONE value.
            -> GapA denotes_functional, resolves_only (denotes ... v <-> v = the class).
         gap b ("the class generated for THAT type"): two different targets never share a reference.
            -> GapA resolves_injective (equal (annotation, import) pairs from one module -> same package and same class name).
         gap c: world_has was a hypothesis of C13_resolves and the conclusion of C13_output_tree: never composed.
            -> GapA generated_tree_resolves: in the world made of the plugin's own output files (world_of) EVERY ordered pair of
               packages resolves, no world hypothesis left (only: class names start upper-case / digit, decidable).
   (5) "also when packages depend on each other circularly"
         -> Spec/PyImport.v models the final bindings; initialisation order is exercised by real generation only (stays so).
         gap: no statement with the two directions in ONE world.  -> GapA generated_tree_circular (a -> b and b -> a, same tree).
   (6) "and when many such references coexist in one module"
         -> C13_coexist (plain segments; exact by C13_underscore_alias_refuted / C13_digit_alias_refuted), C13_no_alias_clash.
         gap a: world hypothesis again.  -> GapB generated_tree_coexist (C13_coexist in world_of; cls_ok reduced to identb + defs_okb).
         gap b: uniqueness: in the joint namespace every alias is bound by exactly one line: this IS C13_no_alias_clash read
            contrapositively (different import lines of one module bind different names); no new theorem.
         gap c: ref_ok excludes google.protobuf targets: a module that ALSO references well-known types is not covered.
            -> GapA wellknown_desc_clash_refuted: package x referencing x.betterproto.lib.google.protobuf.T (every segment plain
               except for the one called `betterproto`, which plain_segb excludes) and google.protobuf.Struct: one alias, two
               import lines - the clause `not betterproto` of plain_segb is exact also below the first position.
               GapB wellknown_alias_no_clash: over plain segments no ordinary import line binds the well-known alias.  The full
               joint-namespace statement (C13_coexist with well-known references among [refs]) is NOT proved.
   (7) "Well-known types resolve to betterproto's bundled google.protobuf classes."
         -> C13_wellknown (hypotheses: not unwrapped, identb (snake lib path) - sampled, cur <> google.protobuf),
            C13_wellknown_unwrapped / _time.
         gap a: the snake hypothesis.  -> GapA wellknown_casing_model (discharged for the casing model, both typing options).
         gap b: RPC sites (unwrap = false): wrappers / Timestamp / Duration are NOT unwrapped there.
            -> GapA wellknown_rpc: every google.protobuf type, wrappers included, denotes the bundled class at an rpc site.
         gap c: exactness of cur <> google.protobuf.  -> GapA wellknown_inside_google: compiled inside google.protobuf the reference
               is the plain class name with no import (it denotes the class of the tree being generated, not the bundled one).
         gap d: "exactly which names are unwrapped".  -> GapA early_return_iff.
   (8) output paths / __init__.py (anchor parser.py:148-176)
         -> C13_output_tree.  gap: converse ("exactly these directories": In d (generated_dirs pkgs) iff d is a prefix of some
            output_dir).  NOT DONE (open).
   (9) quantifier "depth 0..3 over a small alphabet", "all kinds", "all sites", "pairwise and all at once": the theorems have every
        depth, every type_okb name, both unwrap values; no gap beyond (2), (6).
   Left open: import-time ORDER of circular packages (not in the specification), coexistence of well-known and ordinary references
   (positive statement), identb (cls_name T) for the real pascal_case (tied by C19's correspondence only). *)
From Coq Require Import List Bool Lia.
From BP Require Import Base.Prelude Proofs.BytesP Spec.PyImport Spec.PyImportLocals Model.Importing Model.C13Hints.
From BP Require Import Proofs.ImportingP Proofs.ImportingP2 Proofs.ImportingP3 Proofs.ImportingP4 Proofs.ImportingP5 Proofs.ImportingP6.
From BP Require Import Proofs.ImportingP7 Proofs.ImportingP8 Proofs.ImportingP9 Proofs.ImportingP10.
From BP Require gen.C13Tables Model.Casing.
Import ListNotations.
Local Open Scope nat_scope.

(* ------------------------------------------------------------------ (4a) "exactly": one value *)
Theorem denotes_functional w P ref v1 v2 : denotes w P ref v1 -> denotes w P ref v2 -> v1 = v2.
Proof. rewrite !denotes_eval. congruence. Qed.

Section Only.
  Variable cls_name snake optional : list byte -> list byte.
  Hypothesis snake_chars : forall s, ident_chars (snake s).

  Theorem resolves_only (w : world) (root : path) (cur tgt : path) T (unwrap pyd : bool) (v : value) :
    root <> [] ->
    pkg_okb cur = true -> pkg_okb tgt = true -> type_okb T = true ->
    path_eqb (firstn 1 tgt) [s_betterproto] = false ->
    path_eqb tgt google_protobuf = false ->
    identb (cls_name T) = true ->
    world_has w root tgt (cls_name T) ->
    (denotes w (root ++ cur)
       (get_type_reference cls_name snake optional (py_join b_dot cur) (b_dot :: py_join b_dot (tgt ++ [T])) unwrap pyd) v
     <-> v = VCls (root ++ tgt) (cls_name T)).
  Proof.
    intros Hr Hc Ht HT Hb Hg HC W.
    pose proof (resolves_gen cls_name snake optional snake_chars w root Hr cur tgt T unwrap pyd Hc Ht HT Hb Hg HC W) as D.
    split; [intros D'; exact (denotes_functional _ _ _ _ _ D' D) | intros ->; exact D].
  Qed.

  (* (4b) two targets with one reference are one target *)
  Theorem resolves_injective (w : world) (root : path) (cur tgt1 tgt2 : path) T1 T2 (u1 u2 pyd : bool) :
    root <> [] -> pkg_okb cur = true ->
    pkg_okb tgt1 = true -> type_okb T1 = true -> path_eqb (firstn 1 tgt1) [s_betterproto] = false ->
    path_eqb tgt1 google_protobuf = false -> identb (cls_name T1) = true -> world_has w root tgt1 (cls_name T1) ->
    pkg_okb tgt2 = true -> type_okb T2 = true -> path_eqb (firstn 1 tgt2) [s_betterproto] = false ->
    path_eqb tgt2 google_protobuf = false -> identb (cls_name T2) = true -> world_has w root tgt2 (cls_name T2) ->
    get_type_reference cls_name snake optional (py_join b_dot cur) (b_dot :: py_join b_dot (tgt1 ++ [T1])) u1 pyd
    = get_type_reference cls_name snake optional (py_join b_dot cur) (b_dot :: py_join b_dot (tgt2 ++ [T2])) u2 pyd ->
    tgt1 = tgt2 /\ cls_name T1 = cls_name T2.
  Proof.
    intros Hr Hc H1 HT1 Hb1 Hg1 HC1 W1 H2 HT2 Hb2 Hg2 HC2 W2 E.
    pose proof (resolves_gen cls_name snake optional snake_chars w root Hr cur tgt1 T1 u1 pyd Hc H1 HT1 Hb1 Hg1 HC1 W1) as D1.
    pose proof (resolves_gen cls_name snake optional snake_chars w root Hr cur tgt2 T2 u2 pyd Hc H2 HT2 Hb2 Hg2 HC2 W2) as D2.
    rewrite E in D1. pose proof (denotes_functional _ _ _ _ _ D1 D2) as Q. injection Q as Q1 Q2.
    apply app_inv_head in Q1. split; assumption.
  Qed.

  (* (4c) the world of the plugin's own output files: no world hypothesis left *)
  Definition defs_okb (defs : list (list (list byte) * list (list byte))) : bool :=
    forallb (fun d => forallb cls_startb (snd d)) defs.

  Lemma defs_ok_all defs : defs_okb defs = true -> forall d n, In d defs -> In n (snd d) -> cls_startb n = true.
  Proof.
    unfold defs_okb. rewrite forallb_forall. intros H d n Hd Hn. specialize (H d Hd). rewrite forallb_forall in H. auto.
  Qed.

  Theorem generated_tree_resolves root pkgs defs libs (cur tgt : path) classes T (unwrap pyd : bool) :
    root <> [] ->
    pkg_okb cur = true -> pkg_okb tgt = true -> type_okb T = true ->
    path_eqb (firstn 1 tgt) [s_betterproto] = false ->
    path_eqb tgt google_protobuf = false ->
    identb (cls_name T) = true ->
    In (py_join b_dot tgt) pkgs -> In (root ++ tgt, classes) defs -> In (cls_name T) classes ->
    defs_okb defs = true ->
    denotes (world_of root pkgs defs libs) (root ++ cur)
      (get_type_reference cls_name snake optional (py_join b_dot cur) (b_dot :: py_join b_dot (tgt ++ [T])) unwrap pyd)
      (VCls (root ++ tgt) (cls_name T)).
  Proof.
    intros Hr Hc Ht HT Hb Hg HC Hin Hd HCl Hok.
    apply (resolves_gen cls_name snake optional snake_chars _ root Hr); try assumption.
    apply (world_of_has root pkgs defs libs tgt classes); try assumption. apply defs_ok_all. exact Hok.
  Qed.

  (* (5) the two directions of a circular dependency, in one tree *)
  Theorem generated_tree_circular root pkgs defs libs (pa pb : path) clsa clsb Ta Tb (ua ub pyd : bool) :
    root <> [] ->
    pkg_okb pa = true -> pkg_okb pb = true -> type_okb Ta = true -> type_okb Tb = true ->
    path_eqb (firstn 1 pa) [s_betterproto] = false -> path_eqb (firstn 1 pb) [s_betterproto] = false ->
    path_eqb pa google_protobuf = false -> path_eqb pb google_protobuf = false ->
    identb (cls_name Ta) = true -> identb (cls_name Tb) = true ->
    In (py_join b_dot pa) pkgs -> In (py_join b_dot pb) pkgs ->
    In (root ++ pa, clsa) defs -> In (root ++ pb, clsb) defs -> In (cls_name Ta) clsa -> In (cls_name Tb) clsb ->
    defs_okb defs = true ->
    denotes (world_of root pkgs defs libs) (root ++ pa)
      (get_type_reference cls_name snake optional (py_join b_dot pa) (b_dot :: py_join b_dot (pb ++ [Tb])) ub pyd)
      (VCls (root ++ pb) (cls_name Tb)) /\
    denotes (world_of root pkgs defs libs) (root ++ pb)
      (get_type_reference cls_name snake optional (py_join b_dot pb) (b_dot :: py_join b_dot (pa ++ [Ta])) ua pyd)
      (VCls (root ++ pa) (cls_name Ta)).
  Proof.
    intros. split; eapply generated_tree_resolves; eassumption.
  Qed.
End Only.

(* ------------------------------------------------------------------ (2) site / option independence *)
Theorem site_independent (cls_name snake optional : list byte -> list byte) (pkg : list byte) (tgt : path) T (u1 u2 p1 p2 : bool) :
  pkg_okb tgt = true -> type_okb T = true -> path_eqb tgt google_protobuf = false ->
  get_type_reference cls_name snake optional pkg (b_dot :: py_join b_dot (tgt ++ [T])) u1 p1
  = get_type_reference cls_name snake optional pkg (b_dot :: py_join b_dot (tgt ++ [T])) u2 p2.
Proof.
  intros Ht HT Hg. unfold get_type_reference.
  assert (K : forall u : bool, (if u then early_return optional (b_dot :: py_join b_dot (tgt ++ [T])) else None) = None).
  { intros [|]; [apply early_none; assumption | reflexivity]. }
  rewrite !K. rewrite parse_well_formed by assumption. cbv beta iota zeta.
  rewrite split_pkg_join by assumption. rewrite Hg. cbn [andb]. reflexivity.
Qed.

(* ------------------------------------------------------------------ (7) well-known types *)
Lemma lib_alias_ident pyd : identb (FLD (py_join b_dot (lib_path pyd))) = true.
Proof. destruct pyd; vm_compute; reflexivity. Qed.

Theorem wellknown_casing_model (cls_name optional : list byte -> list byte) (w : world) (P cur : path) T (unwrap pyd : bool) :
  pkg_okb cur = true -> type_okb T = true ->
  path_eqb cur google_protobuf = false ->
  (if unwrap then early_return optional (b_dot :: py_join b_dot (google_protobuf ++ [T])) else None) = None ->
  identb (cls_name T) = true ->
  w_pkg w (lib_path pyd) = true -> w_cls w (lib_path pyd) (cls_name T) = true ->
  denotes w P
    (get_type_reference cls_name Casing.safe_snake_case optional (py_join b_dot cur) (b_dot :: py_join b_dot (google_protobuf ++ [T])) unwrap pyd)
    (VCls (lib_path pyd) (cls_name T)).
Proof.
  intros. apply wellknown_resolves; try assumption. apply lib_alias_ident.
Qed.

(* rpc input / output types are never unwrapped: EVERY google.protobuf type, the wrappers / Timestamp / Duration included *)
Theorem wellknown_rpc (cls_name optional : list byte -> list byte) (w : world) (P cur : path) T (pyd : bool) :
  pkg_okb cur = true -> type_okb T = true ->
  path_eqb cur google_protobuf = false ->
  identb (cls_name T) = true ->
  w_pkg w (lib_path pyd) = true -> w_cls w (lib_path pyd) (cls_name T) = true ->
  denotes w P
    (get_type_reference cls_name Casing.safe_snake_case optional (py_join b_dot cur) (b_dot :: py_join b_dot (google_protobuf ++ [T])) false pyd)
    (VCls (lib_path pyd) (cls_name T)).
Proof. intros. apply wellknown_casing_model; try assumption. reflexivity. Qed.

(* exactness of `cur <> google.protobuf`: compiled inside google.protobuf itself the reference is the bare class name *)
Theorem wellknown_inside_google (cls_name snake optional : list byte -> list byte) T (unwrap pyd : bool) :
  type_okb T = true ->
  (if unwrap then early_return optional (b_dot :: py_join b_dot (google_protobuf ++ [T])) else None) = None ->
  get_type_reference cls_name snake optional (py_join b_dot google_protobuf) (b_dot :: py_join b_dot (google_protobuf ++ [T])) unwrap pyd
  = (quoted (cls_name T), None).
Proof.
  intros HT He. unfold get_type_reference. rewrite He.
  rewrite parse_well_formed by (exact HT || reflexivity).
  rewrite !split_pkg_join by reflexivity.
  cbv beta iota zeta. change (path_eqb google_protobuf google_protobuf) with true. cbn [andb negb].
  change (path_eqb (firstn 1 google_protobuf) [s_betterproto]) with false. cbv iota. reflexivity.
Qed.

(* which names are unwrapped: exactly the keys of WRAPPER_TYPES and the two time types *)
Theorem early_return_iff (optional : list byte -> list byte) (k : list byte) :
  early_return optional k <> None <->
  (tbl_find C13Tables.wrapper_types k <> None \/ k = s_duration \/ k = s_timestamp).
Proof.
  unfold early_return. destruct (tbl_find C13Tables.wrapper_types k) as [v|].
  - split; [intros _; left; discriminate | intros _; discriminate].
  - destruct (bytes_eqb k s_duration) eqn:E1.
    { apply bytes_eqb_eq in E1. split; [intros _; right; left; exact E1 | intros _; discriminate]. }
    destruct (bytes_eqb k s_timestamp) eqn:E2.
    { apply bytes_eqb_eq in E2. split; [intros _; right; right; exact E2 | intros _; discriminate]. }
    apply bytes_eqb_neq in E1. apply bytes_eqb_neq in E2.
    split; [intros H; congruence | intros [H|[H|H]]; congruence].
Qed.

(* ------------------------------------------------------------------ (3a) reference and class statement: one class name *)
Lemma scan_sym (s : Casing.st) (a : list byte) (c : byte) (r : list byte) :
  Casing.classify c = Casing.Sym -> Casing.scan s (a ++ c :: r) = Casing.scan s a ++ Casing.scan Casing.S0 r.
Proof.
  intros Hc. revert s. induction a as [|x a IH]; intros s.
  - cbn [app Casing.scan]. unfold Casing.step. rewrite Hc. destruct s; reflexivity.
  - cbn [app Casing.scan]. destruct (Casing.step s x) as [out s']. rewrite IH. apply app_assoc.
Qed.

Lemma words_sym a c r : Casing.classify c = Casing.Sym -> Casing.words (a ++ c :: r) = Casing.words a ++ Casing.words r.
Proof. intros Hc. unfold Casing.words. apply scan_sym. exact Hc. Qed.

Lemma words_dotted nested : Casing.words (dotted_type nested) = concat (map Casing.words nested).
Proof.
  unfold dotted_type. induction nested as [|a l IH]; [reflexivity|].
  destruct l as [|b l].
  - cbn [py_join map concat]. rewrite app_nil_r. reflexivity.
  - rewrite py_join_cons by discriminate. rewrite words_sym by reflexivity. rewrite IH. reflexivity.
Qed.

Lemma words_flat nested : forall p, Casing.words (flat_name p nested) = Casing.words p ++ concat (map Casing.words nested).
Proof.
  induction nested as [|n r IH]; intros p; cbn [flat_name map concat].
  - rewrite app_nil_r. reflexivity.
  - rewrite IH. rewrite words_sym by reflexivity. rewrite app_assoc. reflexivity.
Qed.

Theorem pascal_dotted_flat nested : PAS (dotted_type nested) = PAS (flat_name [] nested).
Proof. unfold PAS, Casing.pascal_case. rewrite words_dotted, words_flat. reflexivity. Qed.

Theorem class_name_casing_model nested : PAS (dotted_type nested) = defined_class_name PAS nested.
Proof. apply class_name_link. exact pascal_dotted_flat. Qed.

(* (3b) protoc's names: every segment starts with an upper-case letter, no '.' / newline inside *)
Definition nested_segb (s : list byte) : bool :=
  match s with c :: _ => upperb c | [] => false end
  && negb (existsb (Byte.eqb b_nl) s).

Lemma existsb_nl_join l : forallb (fun s => negb (existsb (Byte.eqb b_nl) s)) l = true ->
  existsb (Byte.eqb b_nl) (py_join b_dot l) = false.
Proof.
  induction l as [|a l IH]; [reflexivity|]. cbn [forallb]. rewrite andb_true_iff. intros [Ha Hl].
  apply negb_true_iff in Ha. destruct l as [|b l]; [exact Ha|].
  rewrite py_join_cons by discriminate. rewrite existsb_app. rewrite Ha. cbn [existsb orb].
  change (Byte.eqb b_nl b_dot) with false. cbn [orb]. apply IH. exact Hl.
Qed.

Theorem nested_type_ok (nested : list (list byte)) :
  nested <> [] -> forallb nested_segb nested = true -> type_okb (dotted_type nested) = true.
Proof.
  intros Hn Hf. destruct nested as [|a l]; [congruence|]. clear Hn.
  assert (Hnl : existsb (Byte.eqb b_nl) (dotted_type (a :: l)) = false).
  { apply existsb_nl_join. rewrite forallb_forall in *. intros s Hs. specialize (Hf s Hs). unfold nested_segb in Hf.
    apply andb_true_iff in Hf. tauto. }
  cbn [forallb] in Hf. apply andb_true_iff in Hf. destruct Hf as [Ha _]. unfold nested_segb in Ha.
  apply andb_true_iff in Ha. destruct Ha as [Ha _]. destruct a as [|c a]; [discriminate|].
  unfold type_okb. rewrite Hnl. cbn [negb andb].
  assert (E : exists r, dotted_type ((c :: a) :: l) = c :: r).
  { unfold dotted_type. destruct l; [exists a; reflexivity|]. rewrite py_join_cons by discriminate. eexists. reflexivity. }
  destruct E as [r ->]. cbn [nonemptyb no_dot_before_upper andb]. rewrite Ha. reflexivity.
Qed.

(* ------------------------------------------------------------------ (6c) a well-known reference next to a plain descendant *)
Definition p_bplgp : path := [sx; s_betterproto; s_lib; s_google; s_protobuf].
Definition gtr_wk (cur : path) (T : list byte) :=
  get_type_reference PAS FLD OPT (py_join b_dot cur) (b_dot :: py_join b_dot (google_protobuf ++ [T])) true false.

Definition s1_wk : list byte := Eval vm_compute in imp_of (gtr_m [sx] p_bplgp t_T false).   (* from .betterproto.lib.google import protobuf as betterproto_lib_google_protobuf *)
Definition s2_wk : list byte := Eval vm_compute in imp_of (gtr_wk [sx] t_Struct).           (* import betterproto.lib.google.protobuf as betterproto_lib_google_protobuf *)

Theorem wellknown_desc_clash_refuted :
  exists (cur tgt : path) (T T' : list byte) s1 s2,
    plain_pkgb cur = true /\ pkg_okb tgt = true /\ type_okb T = true /\ type_okb T' = true /\
    forallb (fun s => plain_segb s || bytes_eqb s s_betterproto) tgt = true /\ plain_pkgb tgt = false /\
    path_eqb (firstn 1 tgt) [s_betterproto] = false /\ path_eqb tgt google_protobuf = false /\
    identb (PAS T) = true /\ cls_startb (PAS T) = true /\
    rel_of cur tgt = RDesc /\
    snd (gtr_m cur tgt T false) = Some s1 /\ snd (gtr_wk cur T') = Some s2 /\
    alias_of s1 = Some s_bplgp /\ alias_of s2 = Some s_bplgp /\ s1 <> s2.
Proof.
  exists [sx], p_bplgp, t_T, t_Struct, s1_wk, s2_wk.
  split; [vm_compute; reflexivity|]. split; [vm_compute; reflexivity|]. split; [vm_compute; reflexivity|].
  split; [vm_compute; reflexivity|]. split; [vm_compute; reflexivity|]. split; [vm_compute; reflexivity|].
  split; [vm_compute; reflexivity|]. split; [vm_compute; reflexivity|]. split; [vm_compute; reflexivity|].
  split; [vm_compute; reflexivity|]. split; [vm_compute; reflexivity|]. split; [vm_compute; reflexivity|].
  split; [vm_compute; reflexivity|]. split; [vm_compute; reflexivity|]. split; [vm_compute; reflexivity|].
  vm_compute. discriminate.
Qed.

(* ------------------------------------------------------------------ non-vacuity *)
Definition co_pkgs := [py_join b_dot [sa; sb]; py_join b_dot [sc; sd]; py_join b_dot [sa]; py_join b_dot [sa; sb; sc]].
Definition co_defs := [([sr; sc; sd], [CLS t_T]); ([sr; sa], [CLS t_T]); ([sr; sa; sb; sc], [CLS t_T]); ([sr; sa; sb], [CLS t_T; CLS t_Foo_Bar])].

(* a tree of four packages; a.b and c.d reference each other (cousins, circular), hypotheses of generated_tree_resolves /
   _circular / resolves_only / resolves_injective, and the computed results *)
Example generated_tree_example :
  [sr] <> [] /\ pkg_okb [sa; sb] = true /\ pkg_okb [sc; sd] = true /\ type_okb t_T = true /\ type_okb t_Foo_Bar = true /\
  path_eqb (firstn 1 [sc; sd]) [s_betterproto] = false /\ path_eqb [sc; sd] google_protobuf = false /\
  path_eqb (firstn 1 [sa; sb]) [s_betterproto] = false /\ path_eqb [sa; sb] google_protobuf = false /\
  identb (CLS t_T) = true /\ identb (CLS t_Foo_Bar) = true /\
  In (py_join b_dot [sc; sd]) co_pkgs /\ In (py_join b_dot [sa; sb]) co_pkgs /\
  In ([sr] ++ [sc; sd], [CLS t_T]) co_defs /\ In ([sr] ++ [sa; sb], [CLS t_T; CLS t_Foo_Bar]) co_defs /\
  In (CLS t_T) [CLS t_T] /\ In (CLS t_Foo_Bar) [CLS t_T; CLS t_Foo_Bar] /\
  defs_okb co_defs = true /\
  eval_ref (world_of [sr] co_pkgs co_defs []) [sr; sa; sb] (gtr [sa; sb] [sc; sd] t_T) = Some (VCls [sr; sc; sd] (CLS t_T)) /\
  eval_ref (world_of [sr] co_pkgs co_defs []) [sr; sc; sd] (gtr [sc; sd] [sa; sb] t_Foo_Bar) = Some (VCls [sr; sa; sb] (CLS t_Foo_Bar)) /\
  gtr [sa; sb] [sc; sd] t_T <> gtr [sa; sb] [sa] t_T.
Proof.
  split; [discriminate|].
  repeat (split; [first [vm_compute; reflexivity | cbn; tauto]|]).
  vm_compute. discriminate.
Qed.

(* one reference, four site / option combinations: the same non-trivial pair *)
Example site_independent_example :
  pkg_okb [sc; sd] = true /\ type_okb t_Foo_Bar = true /\ path_eqb [sc; sd] google_protobuf = false /\
  snd (gtr [sa; sb] [sc; sd] t_Foo_Bar) <> None /\
  map (fun up => get_type_reference CLS SNK OPT (py_join b_dot [sa; sb]) (b_dot :: py_join b_dot ([sc; sd] ++ [t_Foo_Bar])) (fst up) (snd up))
      [(true, true); (false, true); (false, false)] = repeat (gtr [sa; sb] [sc; sd] t_Foo_Bar) 3.
Proof. repeat split; try (vm_compute; reflexivity). vm_compute. discriminate. Qed.

Definition t_Int32Value := [x49; x6e; x74; x33; x32; x56; x61; x6c; x75; x65].   (* Int32Value *)
Definition w_wrap (pyd : bool) : world :=
  {| w_pkg := fun p => path_eqb p (lib_path pyd);
     w_cls := fun p n => path_eqb p (lib_path pyd) && bytes_eqb n (PAS t_Int32Value) |}.

(* google.protobuf.Int32Value: a field site unwraps it (no import at all), an rpc site denotes the bundled class - both typing options *)
Example wellknown_rpc_example :
  pkg_okb [sa] = true /\ type_okb t_Int32Value = true /\ path_eqb [sa] google_protobuf = false /\ identb (PAS t_Int32Value) = true /\
  (forall pyd, w_pkg (w_wrap pyd) (lib_path pyd) = true /\ w_cls (w_wrap pyd) (lib_path pyd) (PAS t_Int32Value) = true) /\
  (forall pyd, snd (get_type_reference PAS FLD OPT (py_join b_dot [sa]) (b_dot :: py_join b_dot (google_protobuf ++ [t_Int32Value])) true pyd) = None) /\
  (forall pyd, eval_ref (w_wrap pyd) [sr; sa]
     (get_type_reference PAS FLD OPT (py_join b_dot [sa]) (b_dot :: py_join b_dot (google_protobuf ++ [t_Int32Value])) false pyd)
     = Some (VCls (lib_path pyd) (PAS t_Int32Value))) /\
  early_return OPT (b_dot :: py_join b_dot (google_protobuf ++ [t_Int32Value])) <> None /\
  early_return OPT (b_dot :: py_join b_dot (google_protobuf ++ [t_Struct])) = None /\
  type_okb t_Struct = true.
Proof.
  repeat split; try (vm_compute; reflexivity); try (destruct pyd; vm_compute; reflexivity).
  vm_compute. discriminate.
Qed.

Example class_name_example :
  [t_Foo; t_Bar] <> [] /\ forallb nested_segb [t_Foo; t_Bar] = true /\ dotted_type [t_Foo; t_Bar] = t_Foo_Bar /\
  PAS (dotted_type [t_Foo; t_Bar]) = t_FooBar /\ defined_class_name PAS [t_Foo; t_Bar] = t_FooBar /\
  flat_name [] [t_Foo; t_Bar] = [x5f; x46; x6f; x6f; x5f; x42; x61; x72].
Proof. split; [discriminate|]. repeat split; vm_compute; reflexivity. Qed.
