(* C17 gap closing, second group (table: header of Proofs/C17GapA.v): exception CLASS of the tag-level rejections
   (clause 3b) and "valid encoding" = what betterproto itself writes (clause 3a, composition with C01_roundtrip). *)
From Coq Require Import ZArith List Bool Lia.
From BP Require Import Base.Prelude Model.Types Model.Varint Model.Object Model.Encode Model.Decode.
From BP Require Import Model.WellFormed Model.C17Typed Model.C17Wire Model.C17Step Model.C17Nested Spec.Varint.
From BP Require Import Proofs.VarintP Proofs.C17FieldP Proofs.C17ComposeP Proofs.C17NestedAcceptP.
From BP Require Proofs.C17MainP Model.C01Def Proofs.C01Final Proofs.C01ReachNorm Proofs.C08StepP Proofs.C10FrameP.
Import ListNotations.

(* ---------- the first record of the input: the reader's own exception is the exception of parse ---------- *)
Lemma first_tag_err sc o bs e : bs <> [] -> load_varint bs = Err e -> parse_into sc o bs = Err e.
Proof.
  intros Hne Hv. unfold parse_into. rewrite C08StepP.load_run.
  destruct bs as [|b bs]; [congruence|]. cbn [C08StepP.run length]. rewrite Hv. reflexivity.
Qed.

Lemma first_field_err sc o bs nw r s1 e :
  load_varint bs = Ok (nw, r, s1) -> load_field (length bs) s1 nw r = Err e -> parse_into sc o bs = Err e.
Proof.
  intros Hv Hf. unfold parse_into. rewrite C08StepP.load_run.
  destruct bs as [|b bs]; [discriminate Hv|]. cbn [C08StepP.run]. rewrite Hv. cbn [bind]. rewrite Hf. reflexivity.
Qed.

(* field number 0, wire types 4 (outside a group), 6, 7: ValueError, whatever the message already holds and whatever follows;
   after any run of complete records that parse accepts *)
Theorem bad_tag_class sc o pre o1 nw tag rest :
  wrecs pre -> parse_into sc o pre = Ok o1 -> VarintRep nw tag ->
  (tag_num nw = 0 \/ tag_wt nw = 4 \/ tag_wt nw = 6 \/ tag_wt nw = 7) ->
  parse_into sc o (pre ++ tag ++ rest) = Err EValue.
Proof.
  intros Wp Hp Rt Hbad. rewrite (parse_into_app sc o pre _ Wp), Hp. cbn [bind].
  apply (first_field_err sc o1 (tag ++ rest) nw tag rest); [apply load_varint_rep; exact Rt|].
  apply load_field_bad_tag. exact Hbad.
Qed.

Theorem bad_tag_class_valid sc c pre nw tag rest :
  wf_schema sc = true -> has_builtins sc -> entries_agree sc = true ->
  valid sc c pre -> VarintRep nw tag ->
  (tag_num nw = 0 \/ tag_wt nw = 4 \/ tag_wt nw = 6 \/ tag_wt nw = 7) ->
  parse sc c (pre ++ tag ++ rest) = Err EValue.
Proof.
  intros Hwf Hb He V Rt Hbad.
  destruct (proj2 (accept_iff sc Hwf Hb He c pre) V) as [o1 Hp].
  exact (bad_tag_class sc (new sc c) pre o1 nw tag rest (valid_wrecs sc c pre V) Hp Rt Hbad).
Qed.

(* the input ends inside a tag: EOFError *)
Theorem cut_tag_class sc o pre o1 nw tag x y :
  wrecs pre -> parse_into sc o pre = Ok o1 -> VarintRep nw tag -> tag = x ++ y -> x <> [] -> y <> [] ->
  parse_into sc o (pre ++ x) = Err EEof.
Proof.
  intros Wp Hp Rt E Hx Hy. rewrite (parse_into_app sc o pre _ Wp), Hp. cbn [bind].
  apply (first_tag_err sc o1 x EEof Hx). exact (C10FrameP.varint_cut_eof nw tag x y Rt E Hy).
Qed.

(* a tag of more than ten bytes: ValueError("Too many bytes when decoding varint") *)
Theorem long_tag_class sc o pre o1 rest e :
  wrecs pre -> parse_into sc o pre = Ok o1 -> rest <> [] -> load_varint rest = Err e ->
  parse_into sc o (pre ++ rest) = Err e.
Proof.
  intros Wp Hp Hne Hv. rewrite (parse_into_app sc o pre _ Wp), Hp. cbn [bind]. exact (first_tag_err sc o1 rest e Hne Hv).
Qed.

(* ---------- (3a) what betterproto itself writes is [valid] for the class ---------- *)
Theorem own_encoding_valid sc m bs :
  C01Def.c01_schema_ok sc = true -> has_builtins sc -> entries_agree sc = true ->
  C01Def.c01_value_ok sc m = true -> enc_obj sc m = Ok bs -> Zlength bs < 2 ^ 64 ->
  valid sc (ocls m) bs.
Proof.
  intros Hs Hb He Hv Hen Hsm.
  destruct (C01Final.c01_roundtrip sc m Hs Hv) as (bs0 & Eb & Hrest).
  rewrite Hen in Eb. injection Eb as <-.
  destruct (Hrest Hsm) as (m' & P & _).
  apply (accept_iff sc (C01ReachNorm.schema_ok_wf sc Hs) Hb He). eauto.
Qed.

(* hence every cut of bytes(m) that is not at a boundary between two of its top-level records is rejected *)
Theorem own_encoding_cut_rejected sc m pre nw r post k :
  wrecs pre -> wrec nw r -> (0 < k < length r)%nat ->
  enc_obj sc m = Ok (pre ++ r ++ post) ->
  exists e, parse sc (ocls m) (firstn (length pre + k) (pre ++ r ++ post)) = Err e.
Proof.
  intros Wp Wr Hk _.
  replace (firstn (length pre + k) (pre ++ r ++ post)) with (pre ++ firstn k r).
  - exact (C17MainP.prefix_rejected sc (ocls m) pre nw r k Wp Wr Hk).
  - rewrite firstn_app_2. f_equal. rewrite firstn_app. replace (k - length r)%nat with 0%nat by lia.
    cbn [firstn]. rewrite app_nil_r. reflexivity.
Qed.
