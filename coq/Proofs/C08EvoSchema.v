(* C08 evolution, unconditional form — the older schema (drop_fields masks sn):
   how filter_mask renumbers fields (kept / sigma), what the classes of the older schema are,
   field lookup in an older class, _group_current of an older object, and: the older schema is
   as well formed as the newer one (c01_schema_ok), given masks_ok. *)
From Coq Require Import ZArith List Bool Lia.
From BP Require Import Base.Prelude Model.Types Model.Object Model.Eq Model.Encode Model.Decode Model.WellFormed Model.C01Def Model.C08Step.
From BP Require Import gen.Tables Proofs.C08EvoDef.
From BP Require Proofs.C01Step Proofs.C01Unfold Proofs.C08EvolutionP.
Import ListNotations.

(* ------------------------------------------------------------------------------------------ *)
(* filter_mask / kept / sigma                                                                   *)
(* ------------------------------------------------------------------------------------------ *)
Lemma filter_mask_nil_mask {A} (l : list A) : filter_mask [] l = l.
Proof. destruct l; reflexivity. Qed.

Lemma filter_mask_all_true {A} (m : list bool) (l : list A) : all_true m = true -> filter_mask m l = l.
Proof.
  revert l. induction m as [|b m IH]; intros l H; [apply filter_mask_nil_mask|].
  destruct l as [|x l]; [reflexivity|].
  unfold all_true in H. cbn [forallb] in H. apply andb_true_iff in H as [Hb Hm]. subst b.
  cbn [filter_mask]. f_equal. apply IH. exact Hm.
Qed.

Lemma filter_mask_map {A B} (g : A -> B) m (l : list A) : filter_mask m (map g l) = map g (filter_mask m l).
Proof.
  revert l. induction m as [|b m IH]; intros l; [rewrite !filter_mask_nil_mask; reflexivity|].
  destruct l as [|x l]; [reflexivity|]. cbn [map filter_mask].
  destruct b; [cbn [map]; f_equal|]; apply IH.
Qed.

Lemma sigma_nil j : sigma [] j = j.
Proof. destruct j; reflexivity. Qed.

Lemma kept_nil j : kept [] j = true.
Proof. unfold kept. destruct j; reflexivity. Qed.

Lemma kept_cons_S b m j : kept (b :: m) (S j) = kept m j.
Proof. reflexivity. Qed.

Lemma sigma_cons_S b m j : sigma (b :: m) (S j) = ((if b then 1 else 0) + sigma m j)%nat.
Proof. reflexivity. Qed.

Lemma filter_mask_nth {A} (mask : list bool) : forall (l : list A) j x,
  nth_error l j = Some x -> kept mask j = true -> nth_error (filter_mask mask l) (sigma mask j) = Some x.
Proof.
  induction mask as [|b m IH]; intros l j x Hn Hk.
  - rewrite filter_mask_nil_mask, sigma_nil. exact Hn.
  - destruct l as [|y l]; [destruct j; discriminate Hn|].
    destruct j as [|j].
    + unfold kept in Hk. cbn [nth] in Hk. subst b. cbn [filter_mask sigma]. exact Hn.
    + rewrite kept_cons_S in Hk. cbn [nth_error] in Hn. rewrite sigma_cons_S. cbn [filter_mask].
      destruct b; cbn [Nat.add nth_error]; apply IH; assumption.
Qed.

Lemma filter_mask_nth_inv {A} (mask : list bool) : forall (l : list A) j' x,
  nth_error (filter_mask mask l) j' = Some x -> exists j, nth_error l j = Some x /\ kept mask j = true /\ sigma mask j = j'.
Proof.
  induction mask as [|b m IH]; intros l j' x Hn.
  - rewrite filter_mask_nil_mask in Hn. exists j'. split; [exact Hn|]. split; [apply kept_nil | apply sigma_nil].
  - destruct l as [|y l]; [destruct j'; discriminate Hn|].
    cbn [filter_mask] in Hn. destruct b.
    + destruct j' as [|j'].
      * exists O. split; [exact Hn|]. split; reflexivity.
      * cbn [nth_error] in Hn. destruct (IH l j' x Hn) as (j & Hj & Hk & Hs).
        exists (S j). split; [exact Hj|]. split; [exact Hk|]. rewrite sigma_cons_S, Hs. reflexivity.
    + destruct (IH l j' x Hn) as (j & Hj & Hk & Hs).
      exists (S j). split; [exact Hj|]. split; [exact Hk|]. rewrite sigma_cons_S, Hs. reflexivity.
Qed.

Lemma sigma_inj mask : forall j k, kept mask j = true -> kept mask k = true -> sigma mask j = sigma mask k -> j = k.
Proof.
  induction mask as [|b m IH]; intros j k Hj Hk E.
  - rewrite !sigma_nil in E. exact E.
  - destruct j as [|j], k as [|k].
    + reflexivity.
    + unfold kept in Hj. cbn [nth] in Hj. subst b. rewrite sigma_cons_S in E. cbn [sigma] in E. discriminate E.
    + unfold kept in Hk. cbn [nth] in Hk. subst b. rewrite sigma_cons_S in E. cbn [sigma] in E. discriminate E.
    + rewrite kept_cons_S in Hj, Hk. rewrite !sigma_cons_S in E. f_equal. apply IH; [assumption | assumption | lia].
Qed.

Lemma sigma_le mask j : (sigma mask j <= j)%nat.
Proof.
  revert j. induction mask as [|b m IH]; intros j; [rewrite sigma_nil; lia|].
  destruct j as [|j]; [cbn [sigma]; lia|]. rewrite sigma_cons_S. specialize (IH j). destruct b; lia.
Qed.

Lemma nodup_z_intro x l : ~ In x l -> nodup_z l = true -> nodup_z (x :: l) = true.
Proof.
  intros Hni Hnd. cbn [nodup_z]. rewrite Hnd, andb_true_r. apply negb_true_iff.
  destruct (existsb (Z.eqb x) l) eqn:E; [|reflexivity].
  apply existsb_exists in E as (y & Hy & Exy). apply Z.eqb_eq in Exy. subst y. contradiction.
Qed.

Lemma nodup_z_filter_mask mask : forall l, nodup_z l = true -> nodup_z (filter_mask mask l) = true.
Proof.
  induction mask as [|b m IH]; intros l H; [rewrite filter_mask_nil_mask; exact H|].
  destruct l as [|x l]; [reflexivity|].
  apply C08EvolutionP.nodup_z_cons in H as [Hni Hnd]. cbn [filter_mask]. destruct b; [|apply IH, Hnd].
  apply nodup_z_intro; [|apply IH, Hnd].
  intros Hin. apply Hni. eapply C08EvolutionP.filter_mask_in. exact Hin.
Qed.

Lemma nodup_filter_mask mask fs : nodup_z (map fnum fs) = true -> nodup_z (map fnum (filter_mask mask fs)) = true.
Proof. intros H. rewrite <- filter_mask_map. apply nodup_z_filter_mask, H. Qed.

(* ------------------------------------------------------------------------------------------ *)
(* classes of the older schema                                                                  *)
(* ------------------------------------------------------------------------------------------ *)
Lemma drop_class_all_true m cd : all_true m = true -> drop_class m cd = cd.
Proof.
  intros H. destruct cd as [fs ng]. unfold drop_class. cbn [cfields cngroups].
  rewrite (filter_mask_all_true m fs H). reflexivity.
Qed.

Lemma filter_mask_nil_list {A} (m : list bool) : filter_mask m (@nil A) = [].
Proof. destruct m; reflexivity. Qed.

Lemma drop_class_empty m : drop_class m empty_class = empty_class.
Proof. unfold drop_class, empty_class. cbn [cfields cngroups]. rewrite filter_mask_nil_list. reflexivity. Qed.

Lemma drop_classes_nth_mask : forall masks cs c,
  nth c (drop_classes masks cs) empty_class = drop_class (nth c masks []) (nth c cs empty_class).
Proof.
  induction masks as [|m masks IH]; intros cs c.
  - rewrite C08EvolutionP.drop_classes_nil. replace (nth c (@nil (list bool)) []) with (@nil bool) by (destruct c; reflexivity).
    rewrite C08EvolutionP.drop_class_nil. reflexivity.
  - destruct cs as [|cd cs].
    + cbn [drop_classes]. replace (nth c (@nil cdesc) empty_class) with empty_class by (destruct c; reflexivity).
      rewrite drop_class_empty. reflexivity.
    + destruct c as [|c]; cbn [drop_classes nth]; [reflexivity | apply IH].
Qed.

Lemma get_class_drop sn masks c : get_class (drop_fields masks sn) c = drop_class (mask_of masks c) (get_class sn c).
Proof. unfold get_class, drop_fields, mask_of. cbn [classes]. apply drop_classes_nth_mask. Qed.

Lemma keeps_class sn masks c : keeps masks c = true -> get_class (drop_fields masks sn) c = get_class sn c.
Proof. intros H. rewrite get_class_drop. apply drop_class_all_true. exact H. Qed.

Lemma drop_classes_length masks cs : length (drop_classes masks cs) = length cs.
Proof.
  revert cs. induction masks as [|m masks IH]; intros cs; [rewrite C08EvolutionP.drop_classes_nil; reflexivity|].
  destruct cs as [|cd cs]; [reflexivity|]. cbn [drop_classes length]. f_equal. apply IH.
Qed.

Lemma drop_fields_enums sn masks : enums (drop_fields masks sn) = enums sn.
Proof. reflexivity. Qed.

Lemma cfields_drop sn masks c : cfields (get_class (drop_fields masks sn) c) = filter_mask (mask_of masks c) (cfields (get_class sn c)).
Proof. rewrite get_class_drop. reflexivity. Qed.

Lemma cngroups_drop sn masks c : cngroups (get_class (drop_fields masks sn) c) = cngroups (get_class sn c).
Proof. rewrite get_class_drop. reflexivity. Qed.

(* ------------------------------------------------------------------------------------------ *)
(* field lookup in the older class                                                              *)
(* ------------------------------------------------------------------------------------------ *)
Lemma fbn_kept mask fs ng k f :
  nodup_z (map fnum fs) = true -> nth_error fs k = Some f -> kept mask k = true ->
  field_by_number (mkC (filter_mask mask fs) ng) (fnum f) = Some (sigma mask k, f).
Proof.
  intros Hnd Hn Hk. apply C01Step.field_by_number_unique; cbn [cfields].
  - apply nodup_filter_mask, Hnd.
  - apply filter_mask_nth; assumption.
Qed.

(* with unique numbers, the number determines the index *)
Lemma nodup_index fs j k f f' :
  nodup_z (map fnum fs) = true -> nth_error fs j = Some f' -> nth_error fs k = Some f -> fnum f' = fnum f -> j = k.
Proof.
  intros Hnd Hj Hk E.
  pose proof (C01Step.field_by_number_unique (mkC fs 0) j f' Hnd Hj) as H1.
  pose proof (C01Step.field_by_number_unique (mkC fs 0) k f Hnd Hk) as H2.
  rewrite E, H2 in H1. injection H1 as H1 _. symmetry. exact H1.
Qed.

Lemma fbn_deleted mask fs ng k f :
  nodup_z (map fnum fs) = true -> nth_error fs k = Some f -> kept mask k = false ->
  field_by_number (mkC (filter_mask mask fs) ng) (fnum f) = None.
Proof.
  intros Hnd Hn Hk. rewrite C01Step.field_by_number_fbn. cbn [cfields]. apply C01Step.fbn_go_notin.
  intros Hin. apply in_map_iff in Hin as (f' & E & Hin).
  apply In_nth_error in Hin as (j' & Hj').
  apply filter_mask_nth_inv in Hj' as (j & Hj & Hkj & _).
  assert (j = k) by (eapply nodup_index; eassumption). subst j. congruence.
Qed.

(* ------------------------------------------------------------------------------------------ *)
(* _group_current of the older object                                                           *)
(* ------------------------------------------------------------------------------------------ *)
Lemma cur_old_length mask cur : length (cur_old mask cur) = length cur.
Proof. unfold cur_old. apply map_length. Qed.

Lemma group_selects_old mask cur f j :
  kept mask j = true -> group_selects (cur_old mask cur) f (sigma mask j) = group_selects cur f j.
Proof.
  intros Hj. unfold group_selects. destruct (fgroup f) as [g|]; [|reflexivity]. f_equal.
  unfold cur_old.
  set (r := fun o : option nat => match o with
                                   | Some j0 => if kept mask j0 then Some (sigma mask j0) else None
                                   | None => None
                                   end).
  assert (E : nth g (map r cur) None = r (nth g cur None)) by exact (map_nth r cur None g).
  rewrite E. destruct (nth g cur None) as [i|]; [|reflexivity].
  unfold r. destruct (kept mask i) eqn:Hi; cbn [opt_nat_eqb].
  - destruct (Nat.eqb_spec i j) as [->|Hne]; [apply Nat.eqb_refl|].
    apply Nat.eqb_neq. intros Es. apply Hne. apply (sigma_inj mask); assumption.
  - symmetry. apply Nat.eqb_neq. intros ->. congruence.
Qed.

(* ------------------------------------------------------------------------------------------ *)
(* the older schema is as well formed as the newer one                                          *)
(* ------------------------------------------------------------------------------------------ *)
Lemma drop_fields_nclasses sn masks : length (classes (drop_fields masks sn)) = length (classes sn).
Proof. unfold drop_fields. cbn [classes]. apply drop_classes_length. Qed.

Lemma drop_classes_firstn : forall n masks cs,
  (forall c, (c < n)%nat -> all_true (nth c masks []) = true) ->
  firstn n (drop_classes masks cs) = firstn n cs.
Proof.
  induction n as [|n IH]; intros masks cs H; [reflexivity|].
  destruct masks as [|m masks]; [rewrite C08EvolutionP.drop_classes_nil; reflexivity|].
  destruct cs as [|cd cs]; [reflexivity|]. cbn [drop_classes firstn]. f_equal.
  - apply drop_class_all_true. apply (H O). lia.
  - apply IH. intros c Hc. apply (H (S c)). lia.
Qed.

(* every class of the older schema is the class of the same index with its mask applied *)
Lemma old_class_in sn masks cd' :
  In cd' (classes (drop_fields masks sn)) ->
  exists c, (c < length (classes sn))%nat /\ cd' = drop_class (mask_of masks c) (get_class sn c).
Proof.
  intros Hin. destruct (In_nth _ _ empty_class Hin) as (c & Hc & E).
  rewrite drop_fields_nclasses in Hc. exists c. split; [exact Hc|].
  rewrite <- E. apply (get_class_drop sn masks c).
Qed.

Lemma masks_ok_builtin sn masks c :
  masks_ok sn masks = true -> (c < length builtin_classes)%nat -> keeps masks c = true.
Proof.
  unfold masks_ok. intros H Hc. apply andb_true_iff in H as [H _].
  rewrite forallb_forall in H. apply H. apply in_seq. lia.
Qed.

Lemma masks_ok_entry sn masks cd f pk pv' :
  masks_ok sn masks = true -> In cd (classes sn) -> In f (cfields cd) -> fhint f = HDict pk pv' ->
  keeps masks (fentry f) = true.
Proof.
  unfold masks_ok. intros H Hcd Hf Hh. apply andb_true_iff in H as [_ H].
  rewrite forallb_forall in H. specialize (H cd Hcd).
  rewrite forallb_forall in H. specialize (H f Hf). rewrite Hh in H. exact H.
Qed.

Lemma entry_class_ok_drop sn masks f :
  keeps masks (fentry f) = true -> entry_class_ok (drop_fields masks sn) f = entry_class_ok sn f.
Proof.
  intros Hk. unfold entry_class_ok. rewrite (keeps_class sn masks _ Hk), drop_fields_nclasses, drop_fields_enums.
  reflexivity.
Qed.

Lemma wf_field_drop sn masks ng f :
  (forall pk pv', fhint f = HDict pk pv' -> keeps masks (fentry f) = true) ->
  wf_field (drop_fields masks sn) ng f = wf_field sn ng f.
Proof.
  intros Hk. unfold wf_field. rewrite drop_fields_nclasses, drop_fields_enums.
  destruct (fhint f) as [p|p|p|pk pv'] eqn:Hh; try reflexivity.
  rewrite (entry_class_ok_drop sn masks f (Hk pk pv' eq_refl)). reflexivity.
Qed.

Lemma entry_hints_ok_drop sn masks f :
  (forall pk pv', fhint f = HDict pk pv' -> keeps masks (fentry f) = true) ->
  entry_hints_ok (drop_fields masks sn) f = entry_hints_ok sn f.
Proof.
  intros Hk. unfold entry_hints_ok. destruct (fhint f) as [p|p|p|pk pv'] eqn:Hh; try reflexivity.
  rewrite (keeps_class sn masks _ (Hk pk pv' eq_refl)). reflexivity.
Qed.

Lemma schema_ok_drop sn masks :
  c01_schema_ok sn = true -> masks_ok sn masks = true -> c01_schema_ok (drop_fields masks sn) = true.
Proof.
  intros Hsc Hm. unfold c01_schema_ok in *.
  apply andb_true_iff in Hsc as [Hsc Hent]. apply andb_true_iff in Hsc as [Hwf Hbi].
  assert (Hfirst : firstn (length builtin_classes) (classes (drop_fields masks sn)) =
                   firstn (length builtin_classes) (classes sn)).
  { unfold drop_fields. cbn [classes]. apply drop_classes_firstn.
    intros c Hc. apply (masks_ok_builtin sn masks c Hm Hc). }
  (* a field of an older class is a field of the newer class of the same index, which keeps its entry class *)
  assert (Hfield : forall c f, (c < length (classes sn))%nat ->
            In f (filter_mask (mask_of masks c) (cfields (get_class sn c))) ->
            In f (cfields (get_class sn c)) /\
            (forall pk pv', fhint f = HDict pk pv' -> keeps masks (fentry f) = true)).
  { intros c f Hc Hf. apply C08EvolutionP.filter_mask_in in Hf. split; [exact Hf|].
    intros pk pv' Hh. apply (masks_ok_entry sn masks (get_class sn c) f pk pv' Hm); [|exact Hf|exact Hh].
    unfold get_class. apply nth_In. exact Hc. }
  apply andb_true_iff. split; [apply andb_true_iff; split|].
  - (* wf_schema *)
    unfold wf_schema in *.
    apply andb_true_iff in Hwf as [Hwf Hcls]. apply andb_true_iff in Hwf as [Hnb Hshape].
    apply andb_true_iff. split; [apply andb_true_iff; split|].
    + rewrite drop_fields_nclasses. exact Hnb.
    + rewrite Hfirst. exact Hshape.
    + apply forallb_forall. intros cd' Hin.
      destruct (old_class_in sn masks cd' Hin) as (c & Hc & ->).
      destruct (C01Unfold.wf_schema_class sn c) as (Hfs & Hnd).
      { unfold wf_schema. rewrite Hnb, Hshape, Hcls. reflexivity. }
      { exact Hc. }
      unfold wf_class, drop_class. cbn [cfields cngroups]. apply andb_true_iff. split.
      * apply forallb_forall. intros f Hf. destruct (Hfield c f Hc Hf) as (Hfn & Hk).
        rewrite (wf_field_drop sn masks _ f Hk).
        rewrite forallb_forall in Hfs. apply Hfs. exact Hfn.
      * apply nodup_filter_mask. exact Hnd.
  - (* builtins_exact *)
    unfold builtins_exact in *. rewrite Hfirst. exact Hbi.
  - (* entries_ok *)
    unfold entries_ok in *. apply forallb_forall. intros cd' Hin.
    destruct (old_class_in sn masks cd' Hin) as (c & Hc & ->).
    unfold drop_class. cbn [cfields]. apply forallb_forall. intros f Hf.
    destruct (Hfield c f Hc Hf) as (Hfn & Hk).
    rewrite (entry_hints_ok_drop sn masks f Hk).
    rewrite forallb_forall in Hent.
    assert (Hcd : In (get_class sn c) (classes sn)) by (unfold get_class; apply nth_In; exact Hc).
    specialize (Hent _ Hcd). rewrite forallb_forall in Hent. apply Hent. exact Hfn.
Qed.
