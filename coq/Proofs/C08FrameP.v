(* C08: framing.  What load_varint / read_exactly / load_field accept is a prefix of the stream;
   the parsed record depends on that prefix only (not on what follows, not on the fuel as long
   as it exceeds the length of the prefix); `raw` is exactly the prefix.  Consequences for the
   record grammar [records] of Model/C08Step.v: concatenation, sub-sequences, determinism. *)
From BP Require Import Base.Prelude Model.Types Model.Varint Model.Object Model.Decode Model.C08Step.
From BP Require Import Spec.Varint Proofs.VarintP gen.Tables.

Lemma load_varint_frame s v r s1 :
  load_varint s = Ok (v, r, s1) ->
  s = r ++ s1 /\ (1 <= length r)%nat /\ forall t, load_varint (r ++ t) = Ok (v, r, t).
Proof.
  intros H. apply load_varint_sound in H. destruct H as [-> Rep].
  split; [reflexivity|]. split.
  - destruct Rep as (Sh & _). apply shape_length_pos, Sh.
  - intros t. apply load_varint_rep, Rep.
Qed.

Lemma firstn_app_exact {A} (a b : list A) : firstn (length a) (a ++ b) = a.
Proof. induction a; cbn; [destruct b; reflexivity | f_equal; assumption]. Qed.

Lemma read_exactly_frame s n d s' :
  read_exactly s n = Ok (d, s') ->
  s = d ++ s' /\ Zlength d = n /\ forall t, read_exactly (d ++ t) n = Ok (d, t).
Proof.
  unfold read_exactly. destruct ((0 <=? n) && (n <=? Zlength s)) eqn:Hc; [|discriminate].
  intros H. injection H as <- <-.
  apply andb_true_iff in Hc as [H0 H1]. apply Z.leb_le in H0, H1. unfold Zlength in *.
  assert (Hl : length (firstn (Z.to_nat n) s) = Z.to_nat n) by (apply firstn_length_le; lia).
  split; [symmetry; apply firstn_skipn|]. split; [lia|].
  remember (firstn (Z.to_nat n) s) as d eqn:Ed. clear Ed.
  intros t. rewrite app_length.
  replace ((0 <=? n) && (n <=? Z.of_nat (length d + length t))) with true
    by (symmetry; apply andb_true_iff; split; apply Z.leb_le; lia).
  rewrite <- Hl. rewrite firstn_app_exact, skipn_app_exact. reflexivity.
Qed.

(* ---- load_field with its group loop named ---- *)
Section Group.
  Variable lf : list byte -> Z -> list byte -> result (parsed * list byte).   (* load_field fuel' *)
  Variables number wire_type : Z.
  Fixpoint groupV (n : nat) (s : list byte) (raw : list byte) {struct n} : result (parsed * list byte) :=
    match n with
    | O => Err EFuel
    | S n' =>
        do (inner, r, s1) <- load_varint s;
        if Z.land inner 7 =? WIRE_END_GROUP then
          if Z.shiftr inner 3 =? number then Ok (mkP number wire_type 0 [] (raw ++ r), s1)
          else Err EValue
        else
          do (p, s2) <- lf s1 inner (raw ++ r);
          groupV n' s2 (praw p)
    end.
End Group.

Lemma load_field_unfold fuel s nw raw :
  load_field fuel s nw raw =
  let number := Z.shiftr nw 3 in
  let wire_type := Z.land nw 7 in
  if number =? 0 then Err EValue
  else if wire_type =? WIRE_VARINT then
    do (v, r, s') <- load_varint s; Ok (mkP number wire_type v [] (raw ++ r), s')
  else if wire_type =? WIRE_FIXED_64 then
    do (d, s') <- read_exactly s 8; Ok (mkP number wire_type 0 d (raw ++ d), s')
  else if wire_type =? WIRE_LEN_DELIM then
    do (len, r, s1) <- load_varint s;
    do (d, s') <- read_exactly s1 len;
    Ok (mkP number wire_type 0 d (raw ++ r ++ d), s')
  else if wire_type =? WIRE_FIXED_32 then
    do (d, s') <- read_exactly s 4; Ok (mkP number wire_type 0 d (raw ++ d), s')
  else if wire_type =? WIRE_START_GROUP then
    match fuel with
    | O => Err EFuel
    | S fuel' => groupV (load_field fuel') number wire_type fuel s raw
    end
  else Err EValue.
Proof. destruct fuel; reflexivity. Qed.

Definition with_raw (p : parsed) (raw : list byte) : parsed :=
  mkP (pnum p) (pwt p) (pint p) (pbytes p) raw.

Lemma with_raw_id p : with_raw p (praw p) = p.
Proof. destruct p; reflexivity. Qed.

(* the statement about one reader of a record payload *)
Definition framed (lf : nat -> list byte -> Z -> list byte -> result (parsed * list byte))
           (s : list byte) (nw : Z) (raw : list byte) (p : parsed) (s' : list byte) : Prop :=
  exists body, s = body ++ s' /\ praw p = raw ++ body /\ (1 <= length body)%nat /\
               (length (pbytes p) <= length body)%nat /\
               pnum p = Z.shiftr nw 3 /\ pwt p = Z.land nw 7 /\
               forall fuel2 t raw2, (length body < fuel2)%nat ->
                 lf fuel2 (body ++ t) nw raw2 = Ok (with_raw p (raw2 ++ body), t).

Lemma load_field_frame : forall fuel s nw raw p s',
  load_field fuel s nw raw = Ok (p, s') -> framed load_field s nw raw p s'.
Proof.
  induction fuel as [|fuel IH]; intros s nw raw p s' H; rewrite load_field_unfold in H; cbv zeta in H.
  all: destruct (Z.shiftr nw 3 =? 0) eqn:Hn0; [discriminate|].
  all: destruct (Z.land nw 7 =? WIRE_VARINT) eqn:Hw0;
       [ destruct (load_varint s) as [[[v r] s1]|] eqn:Hv; cbn [bind] in H; [|discriminate];
         injection H as <- <-; apply load_varint_frame in Hv as (-> & Hr & Hext);
         exists r; cbn [praw pbytes pnum pwt length]; repeat split; try lia;
         intros fuel2 t raw2 _; rewrite load_field_unfold; cbv zeta; rewrite Hn0, Hw0, Hext; reflexivity |].
  all: destruct (Z.land nw 7 =? WIRE_FIXED_64) eqn:Hw1;
       [ destruct (read_exactly s 8) as [[d s1]|] eqn:Hd; cbn [bind] in H; [|discriminate];
         injection H as <- <-; apply read_exactly_frame in Hd as (-> & Hl & Hext);
         exists d; unfold Zlength in Hl; cbn [praw pbytes pnum pwt]; repeat split; try lia;
         intros fuel2 t raw2 _; rewrite load_field_unfold; cbv zeta; rewrite Hn0, Hw0, Hw1, Hext; reflexivity |].
  all: destruct (Z.land nw 7 =? WIRE_LEN_DELIM) eqn:Hw2;
       [ destruct (load_varint s) as [[[len r] s1]|] eqn:Hv; cbn [bind] in H; [|discriminate];
         destruct (read_exactly s1 len) as [[d s2]|] eqn:Hd; cbn [bind] in H; [|discriminate];
         injection H as <- <-; apply load_varint_frame in Hv as (-> & Hr & Hext);
         apply read_exactly_frame in Hd as (-> & Hl & Hext2);
         exists (r ++ d); cbn [praw pbytes pnum pwt]; rewrite app_length, <- !app_assoc; repeat split; try lia;
         intros fuel2 t raw2 _; rewrite <- !app_assoc, load_field_unfold; cbv zeta; rewrite Hn0, Hw0, Hw1, Hw2, Hext; cbn [bind];
         rewrite Hext2; reflexivity |].
  all: destruct (Z.land nw 7 =? WIRE_FIXED_32) eqn:Hw5;
       [ destruct (read_exactly s 4) as [[d s1]|] eqn:Hd; cbn [bind] in H; [|discriminate];
         injection H as <- <-; apply read_exactly_frame in Hd as (-> & Hl & Hext);
         exists d; unfold Zlength in Hl; cbn [praw pbytes pnum pwt]; repeat split; try lia;
         intros fuel2 t raw2 _; rewrite load_field_unfold; cbv zeta; rewrite Hn0, Hw0, Hw1, Hw2, Hw5, Hext; reflexivity |].
  all: destruct (Z.land nw 7 =? WIRE_START_GROUP) eqn:Hw3; [|discriminate].
  - discriminate.
  - (* the group loop, by induction on its own counter *)
    assert (G : forall n s raw p s',
      groupV (load_field fuel) (Z.shiftr nw 3) (Z.land nw 7) n s raw = Ok (p, s') ->
      exists body, s = body ++ s' /\ praw p = raw ++ body /\ (1 <= length body)%nat /\
        pbytes p = [] /\ pnum p = Z.shiftr nw 3 /\ pwt p = Z.land nw 7 /\ pint p = 0 /\
        forall fuel2 n2 t raw2, (length body < n2)%nat -> (length body <= fuel2)%nat ->
          groupV (load_field fuel2) (Z.shiftr nw 3) (Z.land nw 7) n2 (body ++ t) raw2
          = Ok (with_raw p (raw2 ++ body), t)).
    { clear H s raw p s'. induction n as [|n IHn]; intros s raw p s' H; [discriminate|].
      cbn [groupV] in H.
      destruct (load_varint s) as [[[inner r] s1]|] eqn:Hv; cbn [bind] in H; [|discriminate].
      apply load_varint_frame in Hv as (-> & Hr & Hext).
      destruct (Z.land inner 7 =? WIRE_END_GROUP) eqn:He.
      - destruct (Z.shiftr inner 3 =? Z.shiftr nw 3) eqn:Hm; [|discriminate].
        injection H as <- <-. exists r. cbn [praw pbytes pnum pwt pint]. repeat split; try assumption.
        intros fuel2 n2 t raw2 Hn2 _. destruct n2 as [|n2]; [lia|].
        cbn [groupV]. rewrite Hext. cbn [bind]. rewrite He, Hm. reflexivity.
      - destruct (load_field fuel s1 inner (raw ++ r)) as [[p1 s2]|] eqn:Hf; cbn [bind] in H; [|discriminate].
        apply IH in Hf. destruct Hf as (b1 & -> & Hraw1 & Hb1 & _ & _ & _ & Hext1).
        apply IHn in H. destruct H as (b2 & -> & Hraw2 & Hb2 & Hpb & Hpn & Hpw & Hpi & Hext2).
        exists (r ++ b1 ++ b2). rewrite !app_length, <- !app_assoc.
        repeat split; try assumption; try lia.
        { rewrite Hraw2, Hraw1, <- !app_assoc. reflexivity. }
        intros fuel2 n2 t raw2 Hn2 Hf2. destruct n2 as [|n2]; [lia|].
        cbn [groupV]. rewrite <- !app_assoc. rewrite Hext. cbn [bind]. rewrite He.
        rewrite Hext1 by lia. cbn [bind praw with_raw].
        rewrite Hext2 by lia. unfold with_raw. rewrite <- !app_assoc. reflexivity. }
    apply G in H. destruct H as (body & -> & Hraw & Hb & Hpb & Hpn & Hpw & Hpi & Hext).
    exists body. rewrite Hpb. cbn [length]. repeat split; try assumption; try lia.
    intros fuel2 t raw2 Hf2. rewrite load_field_unfold. cbv zeta. rewrite Hn0, Hw0, Hw1, Hw2, Hw5, Hw3.
    destruct fuel2 as [|fuel2]; [lia|]. apply Hext; lia.
Qed.

(* ---- frame1 / records ---- *)
Lemma frame1_frame s p s' :
  frame1 s = Ok (p, s') ->
  s = praw p ++ s' /\ (2 <= length (praw p))%nat /\ (length (pbytes p) < length (praw p))%nat /\
  forall t, frame1 (praw p ++ t) = Ok (p, t).
Proof.
  unfold frame1. destruct (load_varint s) as [[[nw r] s1]|] eqn:Hv; cbn [bind]; [|discriminate].
  intros H. apply load_varint_frame in Hv as (-> & Hr & Hext).
  apply load_field_frame in H. destruct H as (body & -> & Hraw & Hb & Hpb & _ & _ & Hext2).
  rewrite Hraw, <- app_assoc. split; [reflexivity|]. rewrite app_length. split; [lia|]. split; [lia|].
  intros t. rewrite <- app_assoc, Hext. cbn [bind]. rewrite Hext2.
  - rewrite <- Hraw, with_raw_id. reflexivity.
  - rewrite !app_length. lia.
Qed.

(* the loop of Message.load reads a record with another fuel: same record *)
Lemma frame1_of_load_field fuel s nw r s1 p s2 :
  load_varint s = Ok (nw, r, s1) -> load_field fuel s1 nw r = Ok (p, s2) -> frame1 s = Ok (p, s2).
Proof.
  intros Hv Hf. unfold frame1. rewrite Hv. cbn [bind].
  apply load_varint_frame in Hv as (-> & Hr & _).
  apply load_field_frame in Hf. destruct Hf as (body & -> & Hraw & Hb & _ & _ & _ & Hext).
  rewrite Hext.
  - rewrite <- Hraw, with_raw_id. reflexivity.
  - rewrite !app_length. lia.
Qed.

Lemma load_field_of_frame1 fuel s p s2 :
  frame1 s = Ok (p, s2) -> (length s <= fuel)%nat ->
  exists nw r s1, load_varint s = Ok (nw, r, s1) /\ load_field fuel s1 nw r = Ok (p, s2).
Proof.
  unfold frame1. destruct (load_varint s) as [[[nw r] s1]|] eqn:Hv; cbn [bind]; [|discriminate].
  intros Hf Hl. exists nw, r, s1. split; [reflexivity|].
  apply load_varint_frame in Hv as (-> & Hr & _).
  apply load_field_frame in Hf. destruct Hf as (body & -> & Hraw & Hb & _ & _ & _ & Hext).
  rewrite Hext.
  - rewrite <- Hraw, with_raw_id. reflexivity.
  - rewrite !app_length in Hl. lia.
Qed.

Lemma records_raw s ps : records s ps -> s = raw_of ps.
Proof.
  induction 1 as [|s p s' ps Hne Hf _ IH]; [reflexivity|].
  apply frame1_frame in Hf as (-> & _). unfold raw_of in *. cbn [map concat]. rewrite <- IH. reflexivity.
Qed.

Lemma records_det s ps : records s ps -> forall ps', records s ps' -> ps = ps'.
Proof.
  induction 1 as [|s p s' ps Hne Hf _ IH]; intros ps' H'; inversion H' as [|s0 p0 s0' ps0 Hne0 Hf0 Hr0]; subst.
  - reflexivity.
  - congruence.
  - congruence.
  - rewrite Hf in Hf0. injection Hf0 as <- <-. f_equal. apply IH, Hr0.
Qed.

Lemma praw_nonempty s p s' : frame1 s = Ok (p, s') -> praw p <> [].
Proof. intros H. apply frame1_frame in H as (_ & Hl & _). destruct (praw p); [cbn in Hl; lia | discriminate]. Qed.

Lemma records_app a pa b pb : records a pa -> records b pb -> records (a ++ b) (pa ++ pb).
Proof.
  induction 1 as [|s p s' ps Hne Hf _ IH]; intros Hb; [exact Hb|].
  pose proof (praw_nonempty _ _ _ Hf) as Hp.
  apply frame1_frame in Hf as (-> & _ & _ & Hext). cbn [app]. rewrite <- app_assoc.
  eapply records_cons; [| apply Hext | apply IH, Hb].
  destruct (praw p); [congruence | discriminate].
Qed.

(* any sub-sequence of the records of a stream is again a stream of complete records *)
Lemma records_filter (P : parsed -> bool) s ps :
  records s ps -> records (raw_of (filter P ps)) (filter P ps).
Proof.
  induction 1 as [|s p s' ps Hne Hf _ IH]; [constructor|].
  cbn [filter]. destruct (P p); [|exact IH].
  pose proof (praw_nonempty _ _ _ Hf) as Hp.
  apply frame1_frame in Hf as (_ & _ & _ & Hext).
  unfold raw_of in *. cbn [map concat].
  eapply records_cons; [| apply Hext | exact IH].
  destruct (praw p); [congruence | discriminate].
Qed.

Lemma records_length s ps : records s ps -> forall p, In p ps -> (length (pbytes p) < length s)%nat.
Proof.
  induction 1 as [|s p s' ps Hne Hf _ IH]; intros q Hq; [destruct Hq|].
  apply frame1_frame in Hf as (-> & _ & Hpb & _). rewrite app_length.
  destruct Hq as [<-|Hq]; [lia|]. specialize (IH q Hq). lia.
Qed.

(* ---- the executable framing function ---- *)
Lemma frames_sound : forall n s ps, frames n s = Some ps -> records s ps.
Proof.
  induction n as [|n IH]; intros s ps H; [discriminate|].
  cbn [frames] in H. destruct s as [|b s]; [injection H as <-; constructor|].
  destruct (frame1 (b :: s)) as [[p s']|] eqn:Hf; [|discriminate].
  destruct (frames n s') as [ps'|] eqn:Hr; [|discriminate]. injection H as <-.
  eapply records_cons; [discriminate | exact Hf | apply IH, Hr].
Qed.

Lemma frames_complete : forall s ps, records s ps -> forall n, (length s < n)%nat -> frames n s = Some ps.
Proof.
  induction 1 as [|s p s' ps Hne Hf _ IH]; intros n Hn; (destruct n as [|n]; [lia|]); [reflexivity|].
  cbn [frames]. destruct s as [|b s]; [congruence|]. rewrite Hf.
  apply frame1_frame in Hf as (E & Hp & _).
  rewrite IH; [reflexivity|]. rewrite E, app_length in Hn. lia.
Qed.
