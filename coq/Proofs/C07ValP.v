(* C07: the side condition of C07_observable / C07_json_observable ("the selected member of every group holds a value,
   not None / list / dict") is itself an invariant of histories over a well-formed schema, provided the values the
   program assigns to oneof members are values.  So the two observable theorems hold after EVERY history of such
   operations (observable_reachable). *)
From Coq Require Import ZArith List Bool Lia Arith.
From BP Require Import Base.Prelude Model.Types Model.Varint Model.Scalar Model.Object Model.Eq Model.Encode Model.Decode.
From BP Require Import Model.History Model.C07Ops Model.C07Step Model.C07Wire Model.WellFormed.
From BP Require Import Proofs.C07InvP Proofs.C07UnfoldP Proofs.C07LoadP Proofs.C07HistP Proofs.C07EncP Proofs.C07ObsP.
From BP Require Import gen.Tables.
Import ListNotations.

Definition vok (v : pv) : bool := match v with PNone | PList _ | PDict _ => false | _ => true end.

Definition SV (o : obj) : Prop :=
  forall g i, which_one_of o g = Some i -> vok (nth i (oraw o) PPlaceholder) = true.

Lemma SV_iff sc o : SV o <-> selected_values_ok sc o.
Proof.
  unfold SV, selected_values_ok. split; intros H g i E; specialize (H g i E);
    destruct (nth i (oraw o) PPlaceholder); cbn [vok] in *; auto; try discriminate; contradiction.
Qed.

Lemma vok_mark_sow v : vok (mark_sow v) = vok v.
Proof. destruct v as [| | | | | | | | | | |[]]; reflexivity. Qed.

Lemma vok_init sc v : vok (if fieldless sc v then mark_sow v else v) = vok v.
Proof. destruct (fieldless sc v); [apply vok_mark_sow | reflexivity]. Qed.

(* ---- what a well-formed schema says about a oneof member ---- *)
Lemma wf_member_shape sc n f g :
  wf_field sc n f = true -> fgroup f = Some g ->
  (exists t, fhint f = HPlain t) /\ fopt f = false /\ fwraps f = None /\ ptype_eqb (fty f) TMap = false.
Proof.
  unfold wf_field. intros H Hg. rewrite Hg in H. destruct (fhint f) as [t|t|t|k v].
  - repeat match goal with H0 : _ && _ = true |- _ => apply andb_prop in H0; destruct H0 end.
    repeat match goal with H0 : negb _ = true |- _ => apply negb_true_iff in H0 end.
    split; [eauto|]. split; [assumption|]. split; [|assumption].
    destruct (fwraps f); [discriminate | reflexivity].
  - exfalso. repeat match goal with H0 : _ && _ = true |- _ => apply andb_prop in H0; destruct H0 end.
    match goal with H0 : negb (is_some' (Some _)) = true |- _ => discriminate H0 end.
  - exfalso. repeat match goal with H0 : _ && _ = true |- _ => apply andb_prop in H0; destruct H0 end.
    match goal with H0 : negb (is_some' (Some _)) = true |- _ => discriminate H0 end.
  - exfalso. repeat match goal with H0 : _ && _ = true |- _ => apply andb_prop in H0; destruct H0 end.
    match goal with H0 : negb (is_some' (Some _)) = true |- _ => discriminate H0 end.
Qed.

Lemma member_default_vok sc c i f g :
  wf_schema sc = true -> nth_error (cfields (get_class sc c)) i = Some f -> fgroup f = Some g ->
  vok (default_of sc f) = true.
Proof.
  intros Hwf Hf Hg. pose proof (wf_member_default sc _ f g (wf_field_of sc c i f Hwf Hf) Hg) as H.
  destruct (default_of sc f); cbn in *; auto; discriminate.
Qed.

(* ---- raw attributes change, selections stay ---- *)
Lemma SV_set c raw sow sow' unk unk' cur i x :
  SV (Obj c raw sow unk cur) -> vok x = true -> SV (Obj c (set_nth i x raw) sow' unk' cur).
Proof.
  unfold SV, which_one_of. cbn [ocur oraw]. intros H Hx g k E. specialize (H g k E).
  destruct (Nat.eq_dec k i) as [->|Hne]; [|rewrite nth_set_nth_neq by exact Hne; exact H].
  destruct (Nat.lt_ge_cases i (length raw)) as [Hl|Hl].
  - rewrite nth_set_nth_eq by exact Hl. exact Hx.
  - rewrite set_nth_oob by exact Hl. exact H.
Qed.

Lemma SV_set_unselected c raw sow sow' unk unk' cur i x :
  SV (Obj c raw sow unk cur) -> (forall g, nth g cur None <> Some i) ->
  SV (Obj c (set_nth i x raw) sow' unk' cur).
Proof.
  unfold SV, which_one_of. cbn [ocur oraw]. intros H Hi g k E. specialize (H g k E).
  rewrite nth_set_nth_neq; [exact H|]. intros ->. exact (Hi g E).
Qed.

(* a field outside every group is never a selected index *)
Lemma ungrouped_unselected sc c raw sow unk cur i f :
  InvS sc (Obj c raw sow unk cur) -> nth_error (cfields (get_class sc c)) i = Some f -> fgroup f = None ->
  forall g, nth g cur None <> Some i.
Proof.
  intros (_ & _ & Hs & _) Hf Hg g E. cbn [ocur ocls] in Hs. destruct (Hs g i E) as (f' & Hf' & Hg').
  unfold cfs in *. congruence.
Qed.

Lemma SV_flags c raw sow sow' unk unk' cur : SV (Obj c raw sow unk cur) -> SV (Obj c raw sow' unk' cur).
Proof. intros H. exact H. Qed.

(* ---- __setattr__ ---- *)
Lemma SV_setattr sc o i v :
  InvS sc o -> SV o ->
  ((exists f g, nth_error (cfs sc o) i = Some f /\ fgroup f = Some g) -> vok v = true) ->
  SV (setattr sc o i v).
Proof.
  destruct o as [c raw sow unk cur]. unfold cfs. cbn [ocls]. intros HI H Hv.
  rewrite setattr_unfold. cbn zeta.
  destruct (nth_error (cfields (get_class sc c)) i) as [f|] eqn:Hf; [|exact H].
  destruct (fgroup f) as [g|] eqn:Hg.
  - assert (Hv' : vok (if fieldless sc v then mark_sow v else v) = true) by (rewrite vok_init; eauto).
    pose proof HI as (Hr & Hc & Hs & _). cbn [oraw ocur ocls] in *.
    intros g' k E. unfold which_one_of in E. cbn [ocur oraw] in *.
    destruct (Nat.eq_dec k i) as [->|Hne].
    + rewrite nth_set_nth_eq; [exact Hv'|]. rewrite reset_go_length, Hr. eapply nth_error_lt; eauto.
    + rewrite nth_set_nth_neq by exact Hne.
      assert (Eold : nth g' cur None = Some k).
      { destruct (Nat.eq_dec g' g) as [->|Hng]; [|rewrite nth_set_nth_neq in E by exact Hng; exact E].
        destruct (Nat.lt_ge_cases g (length cur)) as [Hl|Hl].
        - rewrite nth_set_nth_eq in E by exact Hl. congruence.
        - rewrite set_nth_oob in E by exact Hl. exact E. }
      destruct (Hs g' k Eold) as (f' & Hf' & Hg').
      destruct (Nat.eq_dec g' g) as [->|Hng].
      * (* same group, another index: only possible when the group index is out of range; the sibling was reset *)
        rewrite (reset_go_sibling g i _ 0 raw k f' Hf' Hg'); [reflexivity | cbn; exact Hne |].
        rewrite Hr. eapply nth_error_lt; eauto.
      * rewrite (reset_go_other g i _ 0 raw k f' Hf') by congruence. exact (H g' k Eold).
  - eapply SV_set_unselected; [exact H|]. exact (ungrouped_unselected sc c raw sow unk cur i f HI Hf Hg).
Qed.

Lemma SV_setattrs sc kw : forall o,
  InvS sc o -> SV o ->
  (forall i v, In (i, v) kw -> (exists f g, nth_error (cfs sc o) i = Some f /\ fgroup f = Some g) -> vok v = true) ->
  SV (setattrs sc o kw) /\ InvS sc (setattrs sc o kw).
Proof.
  unfold setattrs. induction kw as [|[i v] kw IH]; intros o HI H Hv; cbn [fold_left]; [auto|].
  assert (Hc : ocls (setattr sc o i v) = ocls o) by apply setattr_shape.
  apply IH.
  - apply InvS_setattr. exact HI.
  - apply SV_setattr; auto. intros Hm. apply (Hv i v); [left; reflexivity | exact Hm].
  - intros i' v' Hin Hm. apply (Hv i' v'); [right; exact Hin|]. unfold cfs in *. rewrite Hc in Hm. exact Hm.
Qed.

(* ---- the constructor ---- *)
Lemma pi_go_some_nonsentinel fs : forall j raw cur g i,
  nth g (pi_go j fs raw cur) None = Some i ->
  nth g cur None = Some i \/
  exists k f, nth_error fs k = Some f /\ i = (j + k)%nat /\ fgroup f = Some g /\ (k < length raw)%nat /\
              is_sentinel f (nth k raw PPlaceholder) = false.
Proof.
  induction fs as [|f fs IH]; intros j raw cur g i H; [left; exact H|].
  destruct raw as [|v raw]; [left; exact H|]. cbn [pi_go] in H.
  apply IH in H. destruct H as [H | (k & f' & Hk & -> & Hg & Hl & Hns)].
  - destruct (fgroup f) as [g'|] eqn:Eg; [|left; exact H].
    destruct (is_sentinel f v) eqn:Es; [left; exact H|].
    destruct (Nat.eq_dec g g') as [->|Hne].
    + destruct (Nat.lt_ge_cases g' (length cur)) as [Hl|Hl].
      * rewrite nth_set_nth_eq in H by exact Hl. injection H as <-.
        right. exists 0%nat, f. cbn [nth_error length nth]. repeat split; auto; lia.
      * rewrite set_nth_oob in H by exact Hl. left; exact H.
    + rewrite nth_set_nth_neq in H by exact Hne. left; exact H.
  - right. exists (S k), f'. cbn [nth_error length nth]. repeat split; auto; lia.
Qed.

Lemma SV_post_init sc c raw :
  (forall k f g, nth_error (cfields (get_class sc c)) k = Some f -> fgroup f = Some g ->
                 is_sentinel f (nth k raw PPlaceholder) = false -> vok (nth k raw PPlaceholder) = true) ->
  SV (post_init sc c raw).
Proof.
  intros Hv g i E. unfold which_one_of in E. rewrite post_init_cur in E.
  destruct (post_init_shape sc c raw) as (_ & -> & _).
  apply pi_go_some_nonsentinel in E. destruct E as [E | (k & f & Hk & -> & Hg & _ & Hns)].
  - rewrite nth_repeat_none in E. discriminate.
  - cbn [Nat.add]. eapply Hv; eauto.
Qed.

Definition kw_ok (sc : schema) (c : nat) (kw : list (nat * pv)) : Prop :=
  forall i v, In (i, v) kw -> (exists f g, nth_error (cfields (get_class sc c)) i = Some f /\ fgroup f = Some g) ->
              vok v = true.

Lemma construct_raw_values sc kw : forall raw0 k,
  let raw := fold_left (fun r '(i, v) => set_nth i (if fieldless sc v then mark_sow v else v) r) kw raw0 in
  nth k raw PPlaceholder = nth k raw0 PPlaceholder \/
  exists v, In (k, v) kw /\ nth k raw PPlaceholder = (if fieldless sc v then mark_sow v else v).
Proof.
  induction kw as [|[i v] kw IH]; intros raw0 k; cbn [fold_left]; [left; reflexivity|].
  destruct (IH (set_nth i (if fieldless sc v then mark_sow v else v) raw0) k) as [E | (v' & Hin & E)].
  - destruct (Nat.eq_dec k i) as [->|Hne].
    + destruct (Nat.lt_ge_cases i (length raw0)) as [Hl|Hl].
      * right. exists v. split; [left; reflexivity|]. cbn zeta in E. rewrite E. apply nth_set_nth_eq. exact Hl.
      * left. cbn zeta in E. rewrite E, set_nth_oob by exact Hl. reflexivity.
    + left. cbn zeta in E. rewrite E. apply nth_set_nth_neq. exact Hne.
  - right. exists v'. split; [right; exact Hin | exact E].
Qed.

Lemma SV_construct sc c kw : wf_schema sc = true -> kw_ok sc c kw -> SV (construct sc c kw).
Proof.
  intros Hwf Hkw. unfold construct. apply SV_post_init. intros k f g Hk Hg Hns.
  destruct (construct_raw_values sc kw (oraw (new sc c)) k) as [E | (v & Hin & E)]; cbn zeta in E.
  - (* untouched slot: the dataclass default, a sentinel *)
    rewrite E in Hns. unfold new in Hns. cbn [oraw] in Hns. rewrite (nth_map_error _ _ _ _ _ Hk) in Hns.
    unfold is_sentinel in Hns. destruct (fopt f) eqn:Eo; rewrite ?Eo in Hns; discriminate.
  - rewrite E, vok_init. apply (Hkw k v Hin). eauto.
Qed.

(* ---- copies, observers ---- *)
Lemma SV_overlay sc c raw raw0 sow sow' unk unk' cur :
  wf_schema sc = true -> InvS sc (Obj c raw0 sow unk cur) -> SV (Obj c raw0 sow unk cur) ->
  length raw = length raw0 ->
  (forall k, vok (nth k raw0 PPlaceholder) = true -> vok (nth k raw PPlaceholder) = true) ->
  SV (Obj c (overlay sc c raw) sow' unk' cur).
Proof.
  intros Hwf HI H Hl Hk g i E. unfold which_one_of in E. cbn [ocur oraw] in *.
  pose proof HI as (Hr & _ & Hs & _). cbn [oraw ocur ocls] in *.
  destruct (Hs g i E) as (f & Hf & Hg). unfold cfs in *. cbn [ocls] in *.
  pose proof (nth_error_lt _ _ _ Hf) as Hi.
  rewrite overlay_unfold, ov_go_nth; [| lia | unfold new; cbn [oraw]; rewrite map_length; exact Hi].
  specialize (Hk i (H g i E)).
  destruct (nth i raw PPlaceholder) eqn:En; try exact Hk; try reflexivity.
  unfold new. cbn [oraw]. rewrite (nth_map_error _ _ _ _ _ Hf).
  destruct (wf_member_shape sc _ f g (wf_field_of sc c i f Hwf Hf) Hg) as (_ & -> & _). reflexivity.
Qed.

Lemma vok_deepcopy sc v : vok (deepcopy_pv sc v) = vok v.
Proof. destruct v as [| | | | | | | | | | |[]]; reflexivity. Qed.

Lemma SV_copy sc o : wf_schema sc = true -> InvS sc o -> SV o -> SV (copy sc o).
Proof. destruct o as [c raw sow unk cur]. intros Hwf HI H. unfold copy. eapply SV_overlay; eauto. Qed.

Lemma SV_deepcopy sc o : wf_schema sc = true -> InvS sc o -> SV o -> SV (deepcopy sc o).
Proof.
  destruct o as [c raw sow unk cur]. intros Hwf HI H. rewrite deepcopy_unfold.
  eapply SV_overlay; eauto; [apply map_length|].
  intros k Hk. destruct (Nat.lt_ge_cases k (length raw)) as [Hl|Hl].
  - rewrite (nth_indep _ PPlaceholder (deepcopy_pv sc PPlaceholder)) by (rewrite map_length; exact Hl).
    rewrite map_nth, vok_deepcopy. exact Hk.
  - rewrite nth_overflow by (rewrite map_length; exact Hl). reflexivity.
Qed.

Lemma vok_touch sc v : vok (touch_pv sc v) = vok v.
Proof. destruct v as [| | | | | | | | | | |[]]; reflexivity. Qed.

Lemma SV_touch sc o : wf_schema sc = true -> InvS sc o -> SV o -> SV (touch sc o).
Proof.
  destruct o as [c raw sow unk cur]. intros Hwf HI H. unfold touch. cbn [touch_pv].
  set (fs := cfields (get_class sc c)).
  match goal with |- SV (Obj c (?G 0%nat raw fs) sow unk cur) => set (go := G) end.
  assert (Hgo : forall raw i fs0 k f,
     nth_error fs0 k = Some f ->
     vok (nth k raw PPlaceholder) = true ->
     (nth k raw PPlaceholder = PPlaceholder -> group_selects cur f (i + k) <> Some false -> vok (default_of sc f) = true) ->
     vok (nth k (go i raw fs0) PPlaceholder) = true).
  { clear. induction raw as [|x raw IH]; intros i fs0 k f Hk Hv Hd; [destruct k; exact Hv|].
    destruct fs0 as [|f0 fs0]; [destruct k; discriminate|].
    destruct k as [|k]; cbn [nth_error nth] in *.
    - injection Hk as ->. rewrite Nat.add_0_r in Hd. cbn [go nth].
      destruct (group_selects cur f i) as [[|]|] eqn:Es; try exact Hv;
        (destruct x; try exact Hv; try discriminate;
         try (apply Hd; [reflexivity | congruence]);
         match goal with |- vok (if ?b then _ else _) = true => destruct b end; try exact Hv; try reflexivity;
         rewrite vok_touch; exact Hv).
    - cbn [go nth]. fold go. apply (IH (S i) fs0 k f Hk Hv).
      replace (S i + k)%nat with (i + S k)%nat by lia. exact Hd. }
  intros g i E. unfold which_one_of in E. cbn [ocur oraw] in *.
  pose proof HI as (_ & _ & Hs & _). cbn [ocur ocls] in Hs. destruct (Hs g i E) as (f & Hf & Hg).
  apply (Hgo raw 0%nat fs i f Hf (H g i E)).
  intros _ _. eapply member_default_vok; eauto.
Qed.

(* ---- reads and nested assignments ---- *)
Lemma getattr_cases' sc c raw sow unk cur i :
  (exists e, getattr sc (Obj c raw sow unk cur) i = (Obj c raw sow unk cur, Err e)) \/
  (exists f v, nth_error (cfields (get_class sc c)) i = Some f /\ group_selects cur f i <> Some false /\
     (getattr sc (Obj c raw sow unk cur) i = (Obj c raw sow unk cur, Ok v) \/
      (v = default_of sc f /\
       getattr sc (Obj c raw sow unk cur) i = (Obj c (set_nth i v raw) sow unk cur, Ok v)))).
Proof.
  unfold getattr. destruct (nth_error _ i) as [f|] eqn:Hf; [|left; eauto].
  destruct (group_selects cur f i) as [[|]|] eqn:Hs; try (left; eauto; fail).
  all: destruct (nth i raw PPlaceholder) eqn:En;
    right; eexists f, _; (split; [reflexivity|]); (split; [congruence|]); auto.
Qed.

(* the state after a read, and the value read *)
Lemma SV_getattr_gen sc c raw sow unk cur i :
  wf_schema sc = true -> InvS sc (Obj c raw sow unk cur) -> SV (Obj c raw sow unk cur) ->
  InvS sc (fst (getattr sc (Obj c raw sow unk cur) i)) /\ SV (fst (getattr sc (Obj c raw sow unk cur) i)).
Proof.
  intros Hwf HI H. split; [apply InvS_getattr; exact HI|].
  destruct (getattr_cases' sc c raw sow unk cur i) as [(e & ->) | (f & v & Hf & Hs & [-> | (-> & ->)])];
    cbn [fst]; auto.
  destruct (fgroup f) as [g|] eqn:Hg.
  - eapply SV_set; [exact H|]. eapply member_default_vok; eauto.
  - eapply SV_set_unselected; [exact H|]. exact (ungrouped_unselected sc c raw sow unk cur i f HI Hf Hg).
Qed.

Lemma SV_getattr sc o i : wf_schema sc = true -> InvS sc o -> SV o -> SV (fst (getattr sc o i)).
Proof. destruct o as [c raw sow unk cur]. intros Hwf HI H. apply SV_getattr_gen; auto. Qed.

Lemma getattr_shape sc c raw sow unk cur i o' r :
  getattr sc (Obj c raw sow unk cur) i = (o', r) -> exists raw', o' = Obj c raw' sow unk cur.
Proof.
  intros E. destruct (getattr_cases sc c raw sow unk cur i) as [(e & Eg) | (f & v & raw' & Eg & _)];
    rewrite Eg in E; injection E as <- _; eauto.
Qed.

Lemma SV_set_in sc path : forall o i v o',
  wf_schema sc = true -> InvS sc o -> SV o ->
  (path = [] -> (exists f g, nth_error (cfs sc o) i = Some f /\ fgroup f = Some g) -> vok v = true) ->
  set_in sc o path i v = Ok o' -> SV o'.
Proof.
  destruct path as [|j path]; intros o i v o' Hwf HI H Hv E; cbn [set_in] in E.
  - injection E as <-. apply SV_setattr; auto.
  - destruct o as [c raw sow unk cur].
    destruct (SV_getattr_gen sc c raw sow unk cur j Hwf HI H) as (HI1 & H1).
    destruct (getattr sc (Obj c raw sow unk cur) j) as [o1 r] eqn:Eg. cbn [fst] in *.
    destruct (getattr_shape _ _ _ _ _ _ _ _ _ Eg) as (raw1 & ->).
    destruct r as [w|]; [|discriminate]. destruct w; try discriminate.
    destruct (set_in sc o path i v) as [child'|]; cbn [bind] in E; [|discriminate].
    injection E as <-. eapply SV_set; [exact H1 | reflexivity].
Qed.

Lemma SV_get_in sc path : forall o i,
  wf_schema sc = true -> InvS sc o -> SV o -> SV (fst (get_in sc o path i)).
Proof.
  destruct path as [|j path]; intros o i Hwf HI H; cbn [get_in]; [apply SV_getattr; auto|].
  destruct o as [c raw sow unk cur].
  destruct (SV_getattr_gen sc c raw sow unk cur j Hwf HI H) as (HI1 & H1).
  destruct (getattr sc (Obj c raw sow unk cur) j) as [o1 r] eqn:Eg. cbn [fst] in *.
  destruct (getattr_shape _ _ _ _ _ _ _ _ _ Eg) as (raw1 & ->).
  destruct r as [w|]; [|exact H1]. destruct w; try exact H1.
  destruct (get_in sc o path i) as [child' r']. cbn [fst]. eapply SV_set; [exact H1 | reflexivity].
Qed.

(* ---- the decoder: the value a record of a oneof member decodes to is a value ---- *)
Lemma disjoint_len_packed t : tmem t WIRE_LEN_DELIM_TYPES = true -> tmem t PACKED_TYPES = false.
Proof. destruct t; vm_compute; congruence. Qed.

Lemma postprocess_varint_vok t v : vok (postprocess_varint t v) = true.
Proof.
  unfold postprocess_varint.
  repeat match goal with |- context [if ?b then _ else _] => destruct b end; reflexivity.
Qed.

Lemma unpack_value_vok t bs v : unpack_value t bs = Ok v -> vok v = true.
Proof.
  unfold unpack_value. destruct (pack_fmt t) as [[]|]; try discriminate;
    try (destruct (Nat.eqb _ _); [|discriminate]; intros H; injection H as <-; reflexivity);
    (destruct (unpack_int _ bs); cbn [bind]; [|discriminate]; intros H; injection H as <-; reflexivity).
Qed.

Ltac crush_ok E :=
  repeat match type of E with
         | (do _ <- ?X; _) = Ok _ => destruct X; cbn [bind] in E; try discriminate
         | match ?X with _ => _ end = Ok _ => destruct X; try discriminate
         | (if ?b then _ else _) = Ok _ => destruct b; try discriminate
         end.

Lemma c7_value_vok fuel' sc n f g p value :
  wf_field sc n f = true -> fgroup f = Some g -> wire_type_fits f (pwt p) = true ->
  c7_value fuel' sc f p = Ok value -> vok value = true.
Proof.
  intros Hwf Hg Hfit E. destruct (wf_member_shape sc n f g Hwf Hg) as ((t & Hh) & Ho & Hw & Hm).
  unfold c7_value in E.
  destruct ((pwt p =? WIRE_LEN_DELIM) && tmem (fty f) PACKED_TYPES) eqn:E1.
  { exfalso. apply andb_prop in E1. destruct E1 as [Ea Eb]. apply Z.eqb_eq in Ea.
    unfold wire_type_fits in Hfit. rewrite Ea, Hh in Hfit.
    unfold WIRE_LEN_DELIM, WIRE_VARINT, WIRE_FIXED_32, WIRE_FIXED_64 in Hfit. cbn [Z.eqb Pos.eqb] in Hfit.
    rewrite andb_false_r, orb_false_r in Hfit. apply disjoint_len_packed in Hfit. congruence. }
  destruct (pwt p =? WIRE_VARINT).
  { injection E as <-. apply postprocess_varint_vok. }
  destruct ((pwt p =? WIRE_FIXED_32) || (pwt p =? WIRE_FIXED_64)).
  { eapply unpack_value_vok; eauto. }
  rewrite Hm in E. unfold c7_post_len in E. rewrite Hw, Hh in E. cbn [hint_elem] in E.
  destruct (ptype_eqb (fty f) TString).
  { destruct (Utf8.utf8_valid (pbytes p)); [|discriminate]. injection E as <-. reflexivity. }
  destruct (ptype_eqb (fty f) TMessage); [|injection E as <-; reflexivity].
  destruct t; try discriminate.
  - (* message *) destruct (c7_parse_new fuel' sc c (pbytes p)) as [m|]; cbn [bind] in E; [|discriminate].
    injection E as <-. destruct m; reflexivity.
  - (* datetime *) crush_ok E. injection E as <-. reflexivity.
  - (* timedelta *) crush_ok E. injection E as <-. reflexivity.
Qed.

Lemma getattr_cases'' sc c raw sow unk cur i :
  (exists e, getattr sc (Obj c raw sow unk cur) i = (Obj c raw sow unk cur, Err e)) \/
  (exists f v, nth_error (cfields (get_class sc c)) i = Some f /\ group_selects cur f i <> Some false /\
     ((v = nth i raw PPlaceholder /\ v <> PPlaceholder /\
       getattr sc (Obj c raw sow unk cur) i = (Obj c raw sow unk cur, Ok v)) \/
      (v = default_of sc f /\
       getattr sc (Obj c raw sow unk cur) i = (Obj c (set_nth i v raw) sow unk cur, Ok v)))).
Proof.
  unfold getattr. destruct (nth_error _ i) as [f|] eqn:Hf; [|left; eauto].
  destruct (group_selects cur f i) as [[|]|] eqn:Hs; try (left; eauto; fail).
  all: destruct (nth i raw PPlaceholder) eqn:En;
    right; eexists f, _; (split; [reflexivity|]); (split; [congruence|]);
    first [ right; split; reflexivity | left; split; [reflexivity|]; split; [discriminate | reflexivity] ].
Qed.

(* one record *)
Lemma c7_step_sv {A} fuel' sc c raw sow unk cur p (k : obj -> result A) a :
  wf_schema sc = true -> InvS sc (Obj c raw sow unk cur) -> SV (Obj c raw sow unk cur) ->
  c7_step fuel' sc (get_class sc c) (Obj c raw sow unk cur) p k = Ok a ->
  exists o', k o' = Ok a /\ InvS sc o' /\ SV o' /\ ocls o' = c.
Proof.
  intros Hwf HI H E.
  (* the invariant part is c7_step_spec; redo the case analysis for SV *)
  unfold c7_step in E.
  destruct (field_by_number (get_class sc c) (pnum p)) as [[i f]|] eqn:Hfb.
  2:{ eexists. split; [exact E|]. split; [eapply InvS_flags; exact HI|]. split; [exact H | reflexivity]. }
  destruct (wire_type_fits f (pwt p)) eqn:Hfit; cbn [negb] in E.
  2:{ eexists. split; [exact E|]. split; [eapply InvS_flags; exact HI|]. split; [exact H | reflexivity]. }
  destruct (field_by_number_some _ _ _ _ Hfb) as (Hf & _).
  destruct (c7_value fuel' sc f p) as [value|] eqn:Ev; cbn [bind] in E; [|discriminate].
  pose proof (wf_field_of sc c i f Hwf Hf) as Hwff.
  destruct (fgroup f) as [g|] eqn:Hg.
  - (* a oneof member: every value involved is a value, the assignment goes through __setattr__ *)
    destruct (wf_member_shape sc _ f g Hwff Hg) as (_ & _ & _ & Hm).
    pose proof (c7_value_vok _ _ _ _ _ _ _ Hwff Hg Hfit Ev) as Hvv.
    pose proof (member_default_vok sc c i f g Hwf Hf Hg) as Hdv.
    assert (Hmid : exists o1 current,
       (match getattr sc (Obj c raw sow unk cur) i with
        | (o', Ok cur_v) => (o', cur_v)
        | (_, Err _) => (setattr sc (Obj c raw sow unk cur) i (default_of sc f), default_of sc f)
        end) = (o1, current) /\ InvS sc o1 /\ SV o1 /\ ocls o1 = c /\ vok current = true).
    { destruct (getattr_cases'' sc c raw sow unk cur i) as [(e & Eg) | (f' & w & Hf' & Hs & Hcase)].
      - rewrite Eg. eexists _, _. split; [reflexivity|]. split; [apply InvS_setattr; exact HI|].
        split; [apply SV_setattr; auto|]. split; [apply setattr_shape | exact Hdv].
      - rewrite Hf in Hf'. injection Hf' as <-.
        destruct Hcase as [(Hw & Hnp & Eg) | (Hw & Eg)]; rewrite Eg; eexists _, _; (split; [reflexivity|]).
        + split; [exact HI|]. split; [exact H|]. split; [reflexivity|].
          subst w. apply (H g i). unfold which_one_of. cbn [ocur].
          unfold group_selects in Hs. rewrite Hg in Hs.
          destruct (opt_nat_eqb (nth g cur None) (Some i)) eqn:Eo; [|congruence].
          apply opt_nat_eqb_eq in Eo. exact Eo.
        + split; [eapply InvS_set_readable; eauto|]. split; [eapply SV_set; eauto; congruence|].
          split; [reflexivity | congruence]. }
    destruct Hmid as (o1 & current & Hm1 & HI1 & H1 & Hc1 & Hcv). rewrite Hm1 in E. clear Hm1.
    destruct o1 as [c1 raw1 sow1 unk1 cur1]. cbn [ocls] in Hc1. subst c1. rewrite Hm in E.
    assert (Hfin : k (setattr sc (Obj c raw1 sow1 unk1 cur1) i value) = Ok a ->
                   exists o', k o' = Ok a /\ InvS sc o' /\ SV o' /\ ocls o' = c).
    { intros E'. eexists. split; [exact E'|]. split; [apply InvS_setattr; exact HI1|].
      split; [apply SV_setattr; auto | apply setattr_shape]. }
    destruct current; try discriminate; apply Hfin; exact E.
  - (* not in a group: its raw attribute is never a selected one *)
    assert (Hmid : exists raw1 sow1 cur1 current,
       (match getattr sc (Obj c raw sow unk cur) i with
        | (o', Ok cur_v) => (o', cur_v)
        | (_, Err _) => (setattr sc (Obj c raw sow unk cur) i (default_of sc f), default_of sc f)
        end) = (Obj c raw1 sow1 unk cur1, current) /\
       InvS sc (Obj c raw1 sow1 unk cur1) /\ SV (Obj c raw1 sow1 unk cur1)).
    { destruct (SV_getattr_gen sc c raw sow unk cur i Hwf HI H) as (HIg & Hg').
      destruct (getattr sc (Obj c raw sow unk cur) i) as [o1 [w|e]] eqn:Eg; cbn [fst] in *.
      - destruct (getattr_shape _ _ _ _ _ _ _ _ _ Eg) as (raw1 & ->). eexists _, _, _, _. split; [reflexivity|]. auto.
      - pose proof (InvS_setattr sc (Obj c raw sow unk cur) i (default_of sc f) HI) as HIs.
        assert (Hs : SV (setattr sc (Obj c raw sow unk cur) i (default_of sc f))).
        { apply SV_setattr; auto. intros (f0 & g0 & Hf0 & Hg0). unfold cfs in Hf0. cbn [ocls] in Hf0. congruence. }
        destruct (setattr_shape sc (Obj c raw sow unk cur) i (default_of sc f)) as (Hcl & Hu).
        destruct (setattr sc (Obj c raw sow unk cur) i (default_of sc f)) as [c1 raw1 sow1 unk1 cur1].
        cbn [ocls ounk] in *. subst c1 unk1. eexists _, _, _, _. split; [reflexivity|]. auto. }
    destruct Hmid as (raw1 & sow1 & cur1 & current & Hm1 & HI1 & H1). rewrite Hm1 in E. clear Hm1.
    assert (Hun : forall g0, nth g0 cur1 None <> Some i).
    { exact (ungrouped_unselected sc c raw1 sow1 unk cur1 i f HI1 Hf Hg). }
    assert (Hvis : forall x, InvS sc (Obj c (set_nth i x raw1) sow1 unk cur1) /\ SV (Obj c (set_nth i x raw1) sow1 unk cur1)).
    { intros x. split; [|eapply SV_set_unselected; eauto].
      eapply InvS_set_visible; eauto. intros g0 Hg0. congruence. }
    assert (Hfin : k (setattr sc (Obj c raw1 sow1 unk cur1) i value) = Ok a ->
                   exists o', k o' = Ok a /\ InvS sc o' /\ SV o' /\ ocls o' = c).
    { intros E'. eexists. split; [exact E'|]. split; [apply InvS_setattr; exact HI1|].
      split; [|apply setattr_shape]. apply SV_setattr; auto.
      intros (f0 & g0 & Hf0 & Hg0). unfold cfs in Hf0. cbn [ocls] in Hf0. congruence. }
    destruct (ptype_eqb (fty f) TMap).
    + destruct value; try discriminate. destruct current; try discriminate.
      destruct (getattr sc o 0) as [? [k0|]]; try discriminate.
      destruct (getattr sc o 1) as [? [v0|]]; try discriminate.
      eexists. split; [exact E|]. destruct (Hvis (PDict (dict_set l sc k0 v0))). auto.
    + destruct current; try (apply Hfin; exact E).
      eexists. split; [exact E|].
      match type of E with k (Obj c (set_nth i ?X raw1) _ _ _) = _ => destruct (Hvis X) end. auto.
Qed.

Lemma c7_loop_sv fuel' sc size c : wf_schema sc = true -> forall n o s read o' s',
  InvS sc o -> SV o -> ocls o = c ->
  c7_loop fuel' sc size (get_class sc c) n o s read = Ok (o', s') -> SV o'.
Proof.
  intros Hwf. induction n as [|n IH]; intros o s read o' s' HI H Hc E; [discriminate|].
  cbn [c7_loop] in E. destruct s as [|b s].
  - assert (E' : Ok (o, @nil byte) = Ok (o', s')).
    { destruct size as [sz|]; [|exact E]. destruct (read <? sz); [discriminate | exact E]. }
    injection E' as <- <-. exact H.
  - destruct (load_varint (b :: s)) as [[[nw r] s1]|] eqn:Ev; cbn [bind] in E; [|discriminate].
    destruct (load_field fuel' s1 nw r) as [[p s2]|] eqn:Ef; cbn [bind] in E; [|discriminate].
    match type of E with (do read <- ?R; _) = _ => destruct R as [read'|] eqn:Er end; cbn [bind] in E; [|discriminate].
    destruct o as [c0 raw sow unk cur]. cbn [ocls] in Hc. subst c0.
    apply c7_step_sv in E; auto. destruct E as (o1 & E & HI1 & H1 & Hc1).
    destruct (match size with Some sz => read' =? sz | None => false end).
    + injection E as <- <-. exact H1.
    + eapply IH; eauto.
Qed.

Lemma SV_parse_into sc o bs o' :
  wf_schema sc = true -> InvS sc o -> SV o -> parse_into sc o bs = Ok o' -> SV o'.
Proof.
  unfold parse_into. intros Hwf HI H E.
  destruct (load _ sc o bs None) as [[o1 s1]|] eqn:El; cbn [bind] in E; [|discriminate].
  injection E as <-. destruct o as [c raw sow unk cur]. rewrite load_unfold in El.
  exact (c7_loop_sv _ sc None c Hwf _ (Obj c raw true unk cur) _ _ _ _
           (InvS_flags sc c raw sow true unk unk cur HI) H eq_refl El).
Qed.

Lemma SV_new sc c : SV (new sc c).
Proof. apply (SV_iff sc). apply selected_values_ok_new. Qed.

(* ---- operations whose assigned values are values ---- *)
Definition is_member (sc : schema) (c i : nat) : Prop :=
  exists f g, nth_error (cfields (get_class sc c)) i = Some f /\ fgroup f = Some g.

Definition op_ok (sc : schema) (c : nat) (p : op7) : Prop :=
  match p with
  | OBase (OSet [] i v) => is_member sc c i -> vok v = true
  | OConstruct kw | OFromDictCls kw | OFromDictInst kw => kw_ok sc c kw
  | _ => True
  end.

Lemma step7_cls sc o p o' x : InvS sc o -> step7 sc o p = Ok (o', x) -> ocls o' = ocls o.
Proof.
  intros HI E. destruct p as [p|kw|kw|kw]; cbn [step7] in E.
  2:{ injection E as <- _. reflexivity. }
  2:{ injection E as <- _. unfold from_dict_cls.
      assert (G : forall o0, ocls (set_sow o0) = ocls o0) by (intros []; reflexivity).
      rewrite G. unfold construct. apply post_init_shape. }
  2:{ injection E as <- _. unfold from_dict_inst, setattrs.
      assert (G : forall kw o0, ocls (fold_left (fun o1 '(i, v) => setattr sc o1 i v) kw o0) = ocls o0).
      { clear. induction kw as [|[i v] kw IH]; intros o0; cbn [fold_left]; [reflexivity|].
        rewrite IH. apply setattr_shape. }
      rewrite G. destruct o; reflexivity. }
  destruct p; cbn [step] in E.
  - destruct path as [|j path]; cbn [set_in bind] in E.
    + injection E as <- _. apply setattr_shape.
    + destruct o as [c raw sow unk cur].
      destruct (getattr sc (Obj c raw sow unk cur) j) as [o1 r] eqn:Eg.
      destruct (getattr_shape _ _ _ _ _ _ _ _ _ Eg) as (raw1 & ->).
      destruct r as [w|]; [|discriminate]. destruct w; try discriminate.
      destruct (set_in sc o path i v); cbn [bind] in E; [|discriminate]. injection E as <- _. reflexivity.
  - destruct path as [|j path]; cbn [get_in] in E.
    + pose proof (getattr_cls sc o i) as G. destruct (getattr sc o i). injection E as <- _. exact G.
    + destruct o as [c raw sow unk cur].
      destruct (getattr sc (Obj c raw sow unk cur) j) as [o1 r] eqn:Eg.
      destruct (getattr_shape _ _ _ _ _ _ _ _ _ Eg) as (raw1 & ->).
      destruct r as [w|]; [|injection E as <- _; reflexivity].
      destruct w; try (injection E as <- _; reflexivity).
      destruct (get_in sc o path i). injection E as <- _. reflexivity.
  - destruct (parse_into sc o bs) as [o1|] eqn:Ep; cbn [bind] in E; [|discriminate].
    injection E as <- _. eapply InvS_parse_into; eauto.
  - injection E as <- _. destruct o; reflexivity.
  - injection E as <- _. destruct o; reflexivity.
  - destruct (pickle_rt sc o) as [o1|] eqn:Ep; cbn [bind] in E; [|discriminate].
    injection E as <- _. eapply InvS_pickle; eauto.
  - destruct (enc_obj sc o); cbn [bind] in E; [|discriminate]. injection E as <- _. destruct o; reflexivity.
  - destruct (enc_obj sc o); cbn [bind] in E; [|discriminate]. injection E as <- _. destruct o; reflexivity.
  - destruct (enc_obj sc o); cbn [bind] in E; [|discriminate]. injection E as <- _. destruct o; reflexivity.
  - injection E as <- _. reflexivity.
  - injection E as <- _. reflexivity.
Qed.

Lemma SV_step7 sc o p o' x :
  wf_schema sc = true -> InvS sc o -> SV o -> op_ok sc (ocls o) p -> step7 sc o p = Ok (o', x) -> SV o'.
Proof.
  intros Hwf HI H Hp E. destruct p as [p|kw|kw|kw]; cbn [step7] in E.
  2:{ injection E as <- _. apply SV_construct; auto. }
  2:{ injection E as <- _. unfold from_dict_cls.
      pose proof (SV_construct sc (ocls o) kw Hwf Hp) as Hs. destruct (construct sc (ocls o) kw). exact Hs. }
  2:{ injection E as <- _. unfold from_dict_inst.
      assert (HI0 : InvS sc (set_sow o)) by (apply InvS_set_sow; exact HI).
      assert (H0 : SV (set_sow o)) by (destruct o; exact H).
      apply (SV_setattrs sc kw (set_sow o) HI0 H0).
      intros i v Hin Hm. apply (Hp i v Hin). unfold cfs in Hm. destruct o; exact Hm. }
  destruct p; cbn [step] in E.
  - destruct (set_in sc o path i v) as [o1|] eqn:Es; cbn [bind] in E; [|discriminate].
    injection E as <- _. eapply SV_set_in; eauto. intros -> Hm. apply Hp. exact Hm.
  - pose proof (SV_get_in sc path o i Hwf HI H) as G. destruct (get_in sc o path i). injection E as <- _. exact G.
  - destruct (parse_into sc o bs) as [o1|] eqn:Ep; cbn [bind] in E; [|discriminate].
    injection E as <- _. eapply SV_parse_into; eauto.
  - injection E as <- _. apply SV_copy; auto.
  - injection E as <- _. apply SV_deepcopy; auto.
  - destruct (pickle_rt sc o) as [o1|] eqn:Ep; cbn [bind] in E; [|discriminate].
    injection E as <- _. unfold pickle_rt in Ep. destruct (enc_obj sc o); cbn [bind] in Ep; [|discriminate].
    unfold parse in Ep. exact (SV_parse_into sc _ _ _ Hwf (InvS_new sc (ocls o)) (SV_new sc (ocls o)) Ep).
  - destruct (enc_obj sc o); cbn [bind] in E; [|discriminate]. injection E as <- _. apply SV_touch; auto.
  - destruct (enc_obj sc o); cbn [bind] in E; [|discriminate]. injection E as <- _. apply SV_touch; auto.
  - destruct (enc_obj sc o); cbn [bind] in E; [|discriminate]. injection E as <- _. apply SV_touch; auto.
  - injection E as <- _. exact H.
  - injection E as <- _. exact H.
Qed.

Lemma SV_run7 sc c ops : wf_schema sc = true -> forall o o',
  InvS sc o -> SV o -> ocls o = c -> Forall (op_ok sc c) ops -> run7 sc o ops = Ok o' ->
  InvS sc o' /\ SV o' /\ ocls o' = c.
Proof.
  intros Hwf. induction ops as [|p ops IH]; intros o o' HI H Hc Hok E; cbn [run7] in E.
  - injection E as <-. auto.
  - destruct (step7 sc o p) as [[o1 x]|] eqn:Es; cbn [bind] in E; [|discriminate].
    inversion Hok as [|? ? Hp Hrest]; subst.
    eapply IH; [| | | exact Hrest | exact E].
    + eapply InvS_step7; eauto.
    + eapply SV_step7; eauto.
    + eapply step7_cls; eauto.
Qed.

(* ---- the observable theorems after every history ---- *)
Theorem observable_reachable sc c ops o bs :
  wf_schema sc = true -> Forall (op_ok sc c) ops -> run7 sc (new sc c) ops = Ok o -> enc_obj sc o = Ok bs ->
  exists body rs,
    bs = body ++ ounk o /\ records body = Some rs /\
    forall g, (g < cngroups (get_class sc (ocls o)))%nat ->
      match which_one_of o g with
      | Some i =>
          exists f, nth_error (cfs sc o) i = Some f /\ In (fnum f) (numbers rs) /\
                    forall j f', j <> i -> nth_error (cfs sc o) j = Some f' -> fgroup f' = Some g ->
                                 ~ In (fnum f') (numbers rs)
      | None =>
          forall j f', nth_error (cfs sc o) j = Some f' -> fgroup f' = Some g -> ~ In (fnum f') (numbers rs)
      end.
Proof.
  intros Hwf Hok Er E.
  destruct (SV_run7 sc c ops Hwf (new sc c) o (InvS_new sc c) (SV_new sc c) eq_refl Hok Er) as (HI & H & _).
  apply observable; auto using Inv_of_InvS. apply SV_iff. exact H.
Qed.

Theorem selected_values_reachable sc c ops o :
  wf_schema sc = true -> Forall (op_ok sc c) ops -> run7 sc (new sc c) ops = Ok o -> selected_values_ok sc o.
Proof.
  intros Hwf Hok Er.
  destruct (SV_run7 sc c ops Hwf (new sc c) o (InvS_new sc c) (SV_new sc c) eq_refl Hok Er) as (_ & H & _).
  apply SV_iff. exact H.
Qed.
