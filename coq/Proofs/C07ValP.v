(* C07: the side condition of C07_observable / C07_json_observable ("the selected member of every group holds a value,
   not None / list / dict") is itself an invariant of histories over a well-formed schema, provided the values the
   program assigns to oneof members are values.  So the two observable theorems hold after EVERY history of such
   operations (observable_reachable). *)
From Coq Require Import ZArith List Bool Lia Arith.
From BP Require Import Base.Prelude Model.Types Model.Varint Model.Scalar Model.Object Model.Eq Model.Encode Model.Decode.
From BP Require Import Model.History Model.C07Ops Model.C07Step Model.C07Wire Model.WellFormed.
From BP Require Import Proofs.C07InvP Proofs.C07UnfoldP Proofs.C07LoadP Proofs.C07HistP Proofs.C07EncP Proofs.C07ObsP.
From BP Require Import gen.Tables.
Import ListNotations.

Definition vok (v : pv) : bool := match v with PNone | PList _ | PDict _ => false | _ => true end.

Definition SV (o : obj) : Prop :=
  forall g i, which_one_of o g = Some i -> vok (nth i (oraw o) PPlaceholder) = true.

Lemma SV_iff sc o : SV o <-> selected_values_ok sc o.
Proof.
  unfold SV, selected_values_ok. split; intros H g i E; specialize (H g i E);
    destruct (nth i (oraw o) PPlaceholder); cbn [vok] in *; auto; try discriminate; contradiction.
Qed.

Lemma vok_mark_sow v : vok (mark_sow v) = vok v.
Proof. destruct v as [| | | | | | | | | | |[]]; reflexivity. Qed.

Lemma vok_init sc v : vok (if fieldless sc v then mark_sow v else v) = vok v.
Proof. destruct (fieldless sc v); [apply vok_mark_sow | reflexivity]. Qed.

(* ---- what a well-formed schema says about a oneof member ---- *)
Lemma wf_member_shape sc n f g :
  wf_field sc n f = true -> fgroup f = Some g ->
  (exists t, fhint f = HPlain t) /\ fopt f = false /\ fwraps f = None /\ ptype_eqb (fty f) TMap = false.
Proof.
  unfold wf_field. intros H Hg. rewrite Hg in H. destruct (fhint f) as [t|t|t|k v].
  - repeat match goal with H0 : _ && _ = true |- _ => apply andb_prop in H0; destruct H0 end.
    repeat match goal with H0 : negb _ = true |- _ => apply negb_true_iff in H0 end.
    split; [eauto|]. split; [assumption|]. split; [|assumption].
    destruct (fwraps f); [discriminate | reflexivity].
  - exfalso. repeat match goal with H0 : _ && _ = true |- _ => apply andb_prop in H0; destruct H0 end.
    match goal with H0 : negb (is_some' (Some _)) = true |- _ => discriminate H0 end.
  - exfalso. repeat match goal with H0 : _ && _ = true |- _ => apply andb_prop in H0; destruct H0 end.
    match goal with H0 : negb (is_some' (Some _)) = true |- _ => discriminate H0 end.
  - exfalso. repeat match goal with H0 : _ && _ = true |- _ => apply andb_prop in H0; destruct H0 end.
    match goal with H0 : negb (is_some' (Some _)) = true |- _ => discriminate H0 end.
Qed.

Lemma member_default_vok sc c i f g :
  wf_schema sc = true -> nth_error (cfields (get_class sc c)) i = Some f -> fgroup f = Some g ->
  vok (default_of sc f) = true.
Proof.
  intros Hwf Hf Hg. pose proof (wf_member_default sc _ f g (wf_field_of sc c i f Hwf Hf) Hg) as H.
  destruct (default_of sc f); cbn in *; auto; discriminate.
Qed.

(* ---- raw attributes change, selections stay ---- *)
Lemma SV_set c raw sow sow' unk unk' cur i x :
  SV (Obj c raw sow unk cur) -> vok x = true -> SV (Obj c (set_nth i x raw) sow' unk' cur).
Proof.
  unfold SV, which_one_of. cbn [ocur oraw]. intros H Hx g k E. specialize (H g k E).
  destruct (Nat.eq_dec k i) as [->|Hne]; [|rewrite nth_set_nth_neq by exact Hne; exact H].
  destruct (Nat.lt_ge_cases i (length raw)) as [Hl|Hl].
  - rewrite nth_set_nth_eq by exact Hl. exact Hx.
  - rewrite set_nth_oob by exact Hl. exact H.
Qed.

Lemma SV_set_unselected c raw sow sow' unk unk' cur i x :
  SV (Obj c raw sow unk cur) -> (forall g, nth g cur None <> Some i) ->
  SV (Obj c (set_nth i x raw) sow' unk' cur).
Proof.
  unfold SV, which_one_of. cbn [ocur oraw]. intros H Hi g k E. specialize (H g k E).
  rewrite nth_set_nth_neq; [exact H|]. intros ->. exact (Hi g E).
Qed.

(* a field outside every group is never a selected index *)
Lemma ungrouped_unselected sc c raw sow unk cur i f :
  InvS sc (Obj c raw sow unk cur) -> nth_error (cfields (get_class sc c)) i = Some f -> fgroup f = None ->
  forall g, nth g cur None <> Some i.
Proof.
  intros (_ & _ & Hs & _) Hf Hg g E. cbn [ocur ocls] in Hs. destruct (Hs g i E) as (f' & Hf' & Hg').
  unfold cfs in *. congruence.
Qed.

Lemma SV_flags c raw sow sow' unk unk' cur : SV (Obj c raw sow unk cur) -> SV (Obj c raw sow' unk' cur).
Proof. intros H. exact H. Qed.

(* ---- __setattr__ ---- *)
Lemma SV_setattr sc o i v :
  InvS sc o -> SV o ->
  ((exists f g, nth_error (cfs sc o) i = Some f /\ fgroup f = Some g) -> vok v = true) ->
  SV (setattr sc o i v).
Proof.
  destruct o as [c raw sow unk cur]. unfold cfs. cbn [ocls]. intros HI H Hv.
  rewrite setattr_unfold. cbn zeta.
  destruct (nth_error (cfields (get_class sc c)) i) as [f|] eqn:Hf; [|exact H].
  destruct (fgroup f) as [g|] eqn:Hg.
  - assert (Hv' : vok (if fieldless sc v then mark_sow v else v) = true) by (rewrite vok_init; eauto).
    pose proof HI as (Hr & Hc & Hs & _). cbn [oraw ocur ocls] in *.
    intros g' k E. unfold which_one_of in E. cbn [ocur oraw] in *.
    destruct (Nat.eq_dec k i) as [->|Hne].
    + rewrite nth_set_nth_eq; [exact Hv'|]. rewrite reset_go_length, Hr. eapply nth_error_lt; eauto.
    + rewrite nth_set_nth_neq by exact Hne.
      assert (Eold : nth g' cur None = Some k).
      { destruct (Nat.eq_dec g' g) as [->|Hng]; [|rewrite nth_set_nth_neq in E by exact Hng; exact E].
        destruct (Nat.lt_ge_cases g (length cur)) as [Hl|Hl].
        - rewrite nth_set_nth_eq in E by exact Hl. congruence.
        - rewrite set_nth_oob in E by exact Hl. exact E. }
      destruct (Hs g' k Eold) as (f' & Hf' & Hg').
      destruct (Nat.eq_dec g' g) as [->|Hng].
      * (* same group, another index: only possible when the group index is out of range; the sibling was reset *)
        rewrite (reset_go_sibling g i _ 0 raw k f' Hf' Hg'); [reflexivity | cbn; exact Hne |].
        rewrite Hr. eapply nth_error_lt; eauto.
      * rewrite (reset_go_other g i _ 0 raw k f' Hf') by congruence. exact (H g' k Eold).
  - eapply SV_set_unselected; [exact H|]. exact (ungrouped_unselected sc c raw sow unk cur i f HI Hf Hg).
Qed.

Lemma SV_setattrs sc kw : forall o,
  InvS sc o -> SV o ->
  (forall i v, In (i, v) kw -> (exists f g, nth_error (cfs sc o) i = Some f /\ fgroup f = Some g) -> vok v = true) ->
  SV (setattrs sc o kw) /\ InvS sc (setattrs sc o kw).
Proof.
  unfold setattrs. induction kw as [|[i v] kw IH]; intros o HI H Hv; cbn [fold_left]; [auto|].
  assert (Hc : ocls (setattr sc o i v) = ocls o) by apply setattr_shape.
  apply IH.
  - apply InvS_setattr. exact HI.
  - apply SV_setattr; auto. intros Hm. apply (Hv i v); [left; reflexivity | exact Hm].
  - intros i' v' Hin Hm. apply (Hv i' v'); [right; exact Hin|]. unfold cfs in *. rewrite Hc in Hm. exact Hm.
Qed.

(* ---- the constructor ---- *)
Lemma pi_go_some_nonsentinel fs : forall j raw cur g i,
  nth g (pi_go j fs raw cur) None = Some i ->
  nth g cur None = Some i \/
  exists k f, nth_error fs k = Some f /\ i = (j + k)%nat /\ fgroup f = Some g /\ (k < length raw)%nat /\
              is_sentinel f (nth k raw PPlaceholder) = false.
Proof.
  induction fs as [|f fs IH]; intros j raw cur g i H; [left; exact H|].
  destruct raw as [|v raw]; [left; exact H|]. cbn [pi_go] in H.
  apply IH in H. destruct H as [H | (k & f' & Hk & -> & Hg & Hl & Hns)].
  - destruct (fgroup f) as [g'|] eqn:Eg; [|left; exact H].
    destruct (is_sentinel f v) eqn:Es; [left; exact H|].
    destruct (Nat.eq_dec g g') as [->|Hne].
    + destruct (Nat.lt_ge_cases g' (length cur)) as [Hl|Hl].
      * rewrite nth_set_nth_eq in H by exact Hl. injection H as <-.
        right. exists 0%nat, f. cbn [nth_error length nth]. repeat split; auto; lia.
      * rewrite set_nth_oob in H by exact Hl. left; exact H.
    + rewrite nth_set_nth_neq in H by exact Hne. left; exact H.
  - right. exists (S k), f'. cbn [nth_error length nth]. repeat split; auto; lia.
Qed.

Lemma SV_post_init sc c raw :
  (forall k f g, nth_error (cfields (get_class sc c)) k = Some f -> fgroup f = Some g ->
                 is_sentinel f (nth k raw PPlaceholder) = false -> vok (nth k raw PPlaceholder) = true) ->
  SV (post_init sc c raw).
Proof.
  intros Hv g i E. unfold which_one_of in E. rewrite post_init_cur in E.
  destruct (post_init_shape sc c raw) as (_ & -> & _).
  apply pi_go_some_nonsentinel in E. destruct E as [E | (k & f & Hk & -> & Hg & _ & Hns)].
  - rewrite nth_repeat_none in E. discriminate.
  - cbn [Nat.add]. eapply Hv; eauto.
Qed.

Definition kw_ok (sc : schema) (c : nat) (kw : list (nat * pv)) : Prop :=
  forall i v, In (i, v) kw -> (exists f g, nth_error (cfields (get_class sc c)) i = Some f /\ fgroup f = Some g) ->
              vok v = true.

Lemma construct_raw_values sc kw : forall raw0 k,
  let raw := fold_left (fun r '(i, v) => set_nth i (if fieldless sc v then mark_sow v else v) r) kw raw0 in
  nth k raw PPlaceholder = nth k raw0 PPlaceholder \/
  exists v, In (k, v) kw /\ nth k raw PPlaceholder = (if fieldless sc v then mark_sow v else v).
Proof.
  induction kw as [|[i v] kw IH]; intros raw0 k; cbn [fold_left]; [left; reflexivity|].
  destruct (IH (set_nth i (if fieldless sc v then mark_sow v else v) raw0) k) as [E | (v' & Hin & E)].
  - destruct (Nat.eq_dec k i) as [->|Hne].
    + destruct (Nat.lt_ge_cases i (length raw0)) as [Hl|Hl].
      * right. exists v. split; [left; reflexivity|]. cbn zeta in E. rewrite E. apply nth_set_nth_eq. exact Hl.
      * left. cbn zeta in E. rewrite E, set_nth_oob by exact Hl. reflexivity.
    + left. cbn zeta in E. rewrite E. apply nth_set_nth_neq. exact Hne.
  - right. exists v'. split; [right; exact Hin | exact E].
Qed.

Lemma SV_construct sc c kw : wf_schema sc = true -> kw_ok sc c kw -> SV (construct sc c kw).
Proof.
  intros Hwf Hkw. unfold construct. apply SV_post_init. intros k f g Hk Hg Hns.
  destruct (construct_raw_values sc kw (oraw (new sc c)) k) as [E | (v & Hin & E)]; cbn zeta in E.
  - (* untouched slot: the dataclass default, a sentinel *)
    rewrite E in Hns. unfold new in Hns. cbn [oraw] in Hns. rewrite (nth_map_error _ _ _ _ _ Hk) in Hns.
    unfold is_sentinel in Hns. destruct (fopt f) eqn:Eo; rewrite ?Eo in Hns; discriminate.
  - rewrite E, vok_init. apply (Hkw k v Hin). eauto.
Qed.

(* ---- copies, observers ---- *)
Lemma SV_overlay sc c raw raw0 sow sow' unk unk' cur :
  wf_schema sc = true -> InvS sc (Obj c raw0 sow unk cur) -> SV (Obj c raw0 sow unk cur) ->
  length raw = length raw0 ->
  (forall k, vok (nth k raw0 PPlaceholder) = true -> vok (nth k raw PPlaceholder) = true) ->
  SV (Obj c (overlay sc c raw) sow' unk' cur).
Proof.
  intros Hwf HI H Hl Hk g i E. unfold which_one_of in E. cbn [ocur oraw] in *.
  pose proof HI as (Hr & _ & Hs & _). cbn [oraw ocur ocls] in *.
  destruct (Hs g i E) as (f & Hf & Hg). unfold cfs in *. cbn [ocls] in *.
  pose proof (nth_error_lt _ _ _ Hf) as Hi.
  rewrite overlay_unfold, ov_go_nth; [| lia | unfold new; cbn [oraw]; rewrite map_length; exact Hi].
  specialize (Hk i (H g i E)).
  destruct (nth i raw PPlaceholder) eqn:En; try exact Hk; try reflexivity.
  unfold new. cbn [oraw]. rewrite (nth_map_error _ _ _ _ _ Hf).
  destruct (wf_member_shape sc _ f g (wf_field_of sc c i f Hwf Hf) Hg) as (_ & -> & _). reflexivity.
Qed.

Lemma vok_deepcopy sc v : vok (deepcopy_pv sc v) = vok v.
Proof. destruct v as [| | | | | | | | | | |[]]; reflexivity. Qed.

Lemma SV_copy sc o : wf_schema sc = true -> InvS sc o -> SV o -> SV (copy sc o).
Proof. destruct o as [c raw sow unk cur]. intros Hwf HI H. unfold copy. eapply SV_overlay; eauto. Qed.

Lemma SV_deepcopy sc o : wf_schema sc = true -> InvS sc o -> SV o -> SV (deepcopy sc o).
Proof.
  destruct o as [c raw sow unk cur]. intros Hwf HI H. rewrite deepcopy_unfold.
  eapply SV_overlay; eauto; [apply map_length|].
  intros k Hk. destruct (Nat.lt_ge_cases k (length raw)) as [Hl|Hl].
  - rewrite (nth_indep _ PPlaceholder (deepcopy_pv sc PPlaceholder)) by (rewrite map_length; exact Hl).
    rewrite map_nth, vok_deepcopy. exact Hk.
  - rewrite nth_overflow by (rewrite map_length; exact Hl). reflexivity.
Qed.

Lemma vok_touch sc v : vok (touch_pv sc v) = vok v.
Proof. destruct v as [| | | | | | | | | | |[]]; reflexivity. Qed.

Lemma SV_touch sc o : wf_schema sc = true -> InvS sc o -> SV o -> SV (touch sc o).
Proof.
  destruct o as [c raw sow unk cur]. intros Hwf HI H. unfold touch. cbn [touch_pv].
  set (fs := cfields (get_class sc c)).
  match goal with |- SV (Obj c (?G 0%nat raw fs) sow unk cur) => set (go := G) end.
  assert (Hgo : forall raw i fs0 k f,
     nth_error fs0 k = Some f ->
     vok (nth k raw PPlaceholder) = true ->
     (nth k raw PPlaceholder = PPlaceholder -> group_selects cur f (i + k) <> Some false -> vok (default_of sc f) = true) ->
     vok (nth k (go i raw fs0) PPlaceholder) = true).
  { clear. induction raw as [|x raw IH]; intros i fs0 k f Hk Hv Hd; [destruct k; exact Hv|].
    destruct fs0 as [|f0 fs0]; [destruct k; discriminate|].
    destruct k as [|k]; cbn [nth_error nth] in *.
    - injection Hk as ->. rewrite Nat.add_0_r in Hd. cbn [go nth].
      destruct (group_selects cur f i) as [[|]|] eqn:Es; try exact Hv;
        (destruct x; try exact Hv; try discriminate;
         try (apply Hd; [reflexivity | congruence]);
         match goal with |- vok (if ?b then _ else _) = true => destruct b end; try exact Hv; try reflexivity;
         rewrite vok_touch; exact Hv).
    - cbn [go nth]. fold go. apply (IH (S i) fs0 k f Hk Hv).
      replace (S i + k)%nat with (i + S k)%nat by lia. exact Hd. }
  intros g i E. unfold which_one_of in E. cbn [ocur oraw] in *.
  pose proof HI as (_ & _ & Hs & _). cbn [ocur ocls] in Hs. destruct (Hs g i E) as (f & Hf & Hg).
  apply (Hgo raw 0%nat fs i f Hf (H g i E)).
  intros _ _. eapply member_default_vok; eauto.
Qed.

(* ---- reads and nested assignments ---- *)
Lemma getattr_cases' sc c raw sow unk cur i :
  (exists e, getattr sc (Obj c raw sow unk cur) i = (Obj c raw sow unk cur, Err e)) \/
  (exists f v, nth_error (cfields (get_class sc c)) i = Some f /\ group_selects cur f i <> Some false /\
     (getattr sc (Obj c raw sow unk cur) i = (Obj c raw sow unk cur, Ok v) \/
      (v = default_of sc f /\
       getattr sc (Obj c raw sow unk cur) i = (Obj c (set_nth i v raw) sow unk cur, Ok v)))).
Proof.
  unfold getattr. destruct (nth_error _ i) as [f|] eqn:Hf; [|left; eauto].
  destruct (group_selects cur f i) as [[|]|] eqn:Hs; try (left; eauto; fail).
  all: destruct (nth i raw PPlaceholder) eqn:En;
    right; eexists f, _; (split; [reflexivity|]); (split; [congruence|]); auto.
Qed.

(* the state after a read, and the value read *)
Lemma SV_getattr_gen sc c raw sow unk cur i :
  wf_schema sc = true -> InvS sc (Obj c raw sow unk cur) -> SV (Obj c raw sow unk cur) ->
  InvS sc (fst (getattr sc (Obj c raw sow unk cur) i)) /\ SV (fst (getattr sc (Obj c raw sow unk cur) i)).
Proof.
  intros Hwf HI H. split; [apply InvS_getattr; exact HI|].
  destruct (getattr_cases' sc c raw sow unk cur i) as [(e & ->) | (f & v & Hf & Hs & [-> | (-> & ->)])];
    cbn [fst]; auto.
  destruct (fgroup f) as [g|] eqn:Hg.
  - eapply SV_set; [exact H|]. eapply member_default_vok; eauto.
  - eapply SV_set_unselected; [exact H|]. exact (ungrouped_unselected sc c raw sow unk cur i f HI Hf Hg).
Qed.

Lemma SV_getattr sc o i : wf_schema sc = true -> InvS sc o -> SV o -> SV (fst (getattr sc o i)).
Proof. destruct o as [c raw sow unk cur]. intros Hwf HI H. apply SV_getattr_gen; auto. Qed.

Lemma getattr_shape sc c raw sow unk cur i o' r :
  getattr sc (Obj c raw sow unk cur) i = (o', r) -> exists raw', o' = Obj c raw' sow unk cur.
Proof.
  intros E. destruct (getattr_cases sc c raw sow unk cur i) as [(e & Eg) | (f & v & raw' & Eg & _)];
    rewrite Eg in E; injection E as <- _; eauto.
Qed.

Lemma SV_set_in sc path : forall o i v o',
  wf_schema sc = true -> InvS sc o -> SV o ->
  (path = [] -> (exists f g, nth_error (cfs sc o) i = Some f /\ fgroup f = Some g) -> vok v = true) ->
  set_in sc o path i v = Ok o' -> SV o'.
Proof.
  destruct path as [|j path]; intros o i v o' Hwf HI H Hv E; cbn [set_in] in E.
  - injection E as <-. apply SV_setattr; auto.
  - destruct o as [c raw sow unk cur].
    destruct (SV_getattr_gen sc c raw sow unk cur j Hwf HI H) as (HI1 & H1).
    destruct (getattr sc (Obj c raw sow unk cur) j) as [o1 r] eqn:Eg. cbn [fst] in *.
    destruct (getattr_shape _ _ _ _ _ _ _ _ _ Eg) as (raw1 & ->).
    destruct r as [w|]; [|discriminate]. destruct w; try discriminate.
    destruct (set_in sc o path i v) as [child'|]; cbn [bind] in E; [|discriminate].
    injection E as <-. eapply SV_set; [exact H1 | reflexivity].
Qed.

Lemma SV_get_in sc path : forall o i,
  wf_schema sc = true -> InvS sc o -> SV o -> SV (fst (get_in sc o path i)).
Proof.
  destruct path as [|j path]; intros o i Hwf HI H; cbn [get_in]; [apply SV_getattr; auto|].
  destruct o as [c raw sow unk cur].
  destruct (SV_getattr_gen sc c raw sow unk cur j Hwf HI H) as (HI1 & H1).
  destruct (getattr sc (Obj c raw sow unk cur) j) as [o1 r] eqn:Eg. cbn [fst] in *.
  destruct (getattr_shape _ _ _ _ _ _ _ _ _ Eg) as (raw1 & ->).
  destruct r as [w|]; [|exact H1]. destruct w; try exact H1.
  destruct (get_in sc o path i) as [child' r']. cbn [fst]. eapply SV_set; [exact H1 | reflexivity].
Qed.
