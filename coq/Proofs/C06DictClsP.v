(* C06, from_dict, part 3: the class form Cls.from_dict(d) = Cls( ** _from_dict_init(d)) with the flag raised.
   The state of the result in terms of the mapping, then the property's clauses. *)
From BP Require Import Base.Prelude Model.Types Model.Varint Model.Object Model.Eq Model.Encode Model.Decode.
From BP Require Import Model.WellFormed Model.Json Model.C06Obs Model.C06Dict.
From BP Require Import gen.Tables Spec.Varint Spec.C06Wire.
From BP Require Import Proofs.C04ElemP Proofs.C04ObjP.
From BP Require Import Proofs.C06SpecP Proofs.C06LoopP Proofs.C06EncP Proofs.C06StoreP Proofs.C06DecP Proofs.C06PresP Proofs.C06WaysP Proofs.C06FinalP.
From BP Require Import Proofs.C06DictKwP Proofs.C06DictStateP.
From Coq Require Import Lia.

Lemma is_sentinel_sentinel f : is_sentinel f (sentinel_of f) = true.
Proof. unfold sentinel_of, is_sentinel. destruct (fopt f); reflexivity. Qed.

(* the result of the class form: a constructor call on the keyword arguments, flag raised *)
Lemma cls_is_construct sc c kvs m :
  from_dict_cls sc c (JObj kvs) = Ok m ->
  exists kw, from_dict_init sc c (JObj kvs) = Ok kw /\ m = set_sow (construct sc c kw).
Proof.
  unfold from_dict_cls. destruct (from_dict_init sc c (JObj kvs)) as [kw|]; cbn [bind]; [|discriminate].
  intros H. injection H as <-. exists kw. split; reflexivity.
Qed.

Record cls_state (sc : schema) (c : nat) (kvs : list (json * json)) (m : obj) : Prop := mkClsState {
  cs_cls : ocls m = c;
  cs_len : length (oraw m) = length (cfields (get_class sc c));
  cs_clen : length (ocur m) = cngroups (get_class sc c);
  cs_sow : osow m = true;
  cs_unk : ounk m = [];
  cs_raw : forall i f, nth_error (cfields (get_class sc c)) i = Some f ->
      match dict_lookup (cfields (get_class sc c)) kvs i with
      | None => raw_at m i = sentinel_of f
      | Some v => exists x, value_from_json (recf sc) sc f v = Ok x /\ raw_at m i = marked sc x /\ is_jnull v = false
      end;
  cs_sel : forall g k, which_one_of m g = Some k ->
      exists f, nth_error (cfields (get_class sc c)) k = Some f /\ fgroup f = Some g /\ is_sentinel f (raw_at m k) = false;
  cs_none : forall g,
      (forall k f, nth_error (cfields (get_class sc c)) k = Some f -> fgroup f = Some g -> is_sentinel f (raw_at m k) = true) ->
      which_one_of m g = None;
  cs_last : forall g i f,
      nth_error (cfields (get_class sc c)) i = Some f -> fgroup f = Some g -> is_sentinel f (raw_at m i) = false ->
      (g < cngroups (get_class sc c))%nat ->
      (forall k f', (i < k)%nat -> nth_error (cfields (get_class sc c)) k = Some f' -> fgroup f' = Some g ->
                    is_sentinel f' (raw_at m k) = true) ->
      which_one_of m g = Some i }.

Lemma cls_state_of sc c kvs m : from_dict_cls sc c (JObj kvs) = Ok m -> cls_state sc c kvs m.
Proof.
  intros H. destruct (cls_is_construct _ _ _ _ H) as (kw & Hk & ->).
  destruct (init_lookup sc c kvs kw Hk) as (N & Ord & L).
  destruct (construct_shape sc c kw) as (S1 & S2 & S3 & S4).
  destruct (set_sow_fields (construct sc c kw)) as (F1 & F2 & F3 & F4 & F5).
  constructor.
  - rewrite F1. exact S1.
  - rewrite F2. exact S2.
  - rewrite F3. exact S3.
  - exact F5.
  - rewrite F4. exact S4.
  - intros i f Hf. specialize (L i f Hf). rewrite set_sow_raw_at, (construct_raw_at sc c kw i f Hf).
    destruct (dict_lookup (cfields (get_class sc c)) kvs i) as [v|].
    + destruct L as (x & V & G & Hn). rewrite G. exists x. auto.
    + rewrite L. reflexivity.
  - intros g k Hw. unfold which_one_of in Hw. rewrite F3 in Hw.
    destruct (construct_selected sc c kw g k Hw) as (f & Hf & G & S). exists f. rewrite set_sow_raw_at. auto.
  - intros g Hall. unfold which_one_of. rewrite F3. apply construct_none_selected.
    intros k f Hk' G. specialize (Hall k f Hk' G). rewrite set_sow_raw_at in Hall. exact Hall.
  - intros g i f Hf G Sx Hg Hlater. unfold which_one_of. rewrite F3.
    destruct (construct_facts sc c kw) as [_ E]. rewrite E.
    assert (Hx : nth_error (oraw (construct sc c kw)) i = Some (raw_at (construct sc c kw) i)).
    { apply nth_error_of_nth. rewrite S2. eapply nth_error_lt. exact Hf. }
    apply (cur_loop_last g (cfields (get_class sc c)) (oraw (construct sc c kw)) O _ i f _ Hf Hx G).
    + rewrite set_sow_raw_at in Sx. exact Sx.
    + intros k f' x' Lt Hk' Hx' G'. specialize (Hlater k f' Lt Hk' G'). rewrite set_sow_raw_at in Hlater.
      unfold raw_at in Hlater. rewrite (nth_error_nth _ _ _ Hx') in Hlater. exact Hlater.
    + rewrite repeat_length. exact Hg.
Qed.

Lemma value_not_sentinel' f x : is_value x -> is_sentinel f x = false.
Proof. apply value_not_sentinel. Qed.

(* ---- the fourth way, class form: a field the mapping gives ---- *)
Theorem emit_from_dict_cls sc c kvs m i f v :
  wf_schema sc = true -> from_dict_cls sc c (JObj kvs) = Ok m ->
  nth_error (cfields (get_class sc c)) i = Some f -> explicit_field f ->
  dict_lookup (cfields (get_class sc c)) kvs i = Some v -> singular_json v = true ->
  (forall g, fgroup f = Some g ->
     forall k f', (i < k)%nat -> nth_error (cfields (get_class sc c)) k = Some f' -> fgroup f' = Some g ->
                  dict_lookup (cfields (get_class sc c)) kvs k = None) ->
  emitted_in sc m i f /\ is_set sc m i = true /\ value_not_none sc m i = true /\
  (forall g, fgroup f = Some g -> which_one_of m g = Some i) /\
  is_value (raw_at m i) /\ singular_value (raw_at m i).
Proof.
  intros W Hm Hf He Hv Sv Hlater. pose proof (cls_state_of _ _ _ _ Hm) as St.
  pose proof (cs_raw _ _ _ _ St i f Hf) as R. rewrite Hv in R. destruct R as (x & V & Rx & _).
  destruct (value_from_json_singular _ _ _ _ _ Sv V) as [Xv Xs].
  assert (Mv : is_value (raw_at m i)) by (rewrite Rx; apply marked_value; exact Xv).
  assert (Ms : singular_value (raw_at m i)) by (rewrite Rx; apply marked_singular; exact Xs).
  pose proof (wf_field_of sc c f W (nth_error_In _ _ Hf)) as Wf.
  assert (Hsel : forall g, fgroup f = Some g -> which_one_of m g = Some i).
  { intros g G. apply (cs_last _ _ _ _ St g i f Hf G).
    - apply value_not_sentinel. exact Mv.
    - eapply wf_group_lt; eassumption.
    - intros k f' Lt Hk G'. pose proof (cs_raw _ _ _ _ St k f' Hk) as Rk.
      rewrite (Hlater g G k f' Lt Hk G') in Rk. rewrite Rk. apply is_sentinel_sentinel. }
  assert (Hfm : nth_error (fields_of sc m) i = Some f) by (unfold fields_of; rewrite (cs_cls _ _ _ _ St); exact Hf).
  assert (Hl : length (oraw m) = length (fields_of sc m)) by (unfold fields_of; rewrite (cs_cls _ _ _ _ St); apply (cs_len _ _ _ _ St)).
  destruct (state_emitted sc m i f W Hfm Hl He Mv Ms Hsel) as (A & B & C).
  split; [exact A|]. split; [exact B|]. split; [exact C|]. split; [exact Hsel|]. split; [exact Mv|exact Ms].
Qed.

(* ---- a field the mapping does not give: left unset, contributes nothing ---- *)
Theorem absent_from_dict_cls sc c kvs m i f :
  wf_schema sc = true -> from_dict_cls sc c (JObj kvs) = Ok m ->
  nth_error (cfields (get_class sc c)) i = Some f -> explicit_field f ->
  dict_lookup (cfields (get_class sc c)) kvs i = None ->
  here sc (ocur m) i (raw_at m i) f = Ok [] /\ is_set sc m i = false /\
  (optional_like f -> value_not_none sc m i = false) /\
  (forall g, fgroup f = Some g -> which_one_of m g <> Some i).
Proof.
  intros W Hm Hf He Hv. pose proof (cls_state_of _ _ _ _ Hm) as St.
  pose proof (cs_raw _ _ _ _ St i f Hf) as R. rewrite Hv in R.
  assert (Hsel : forall g, fgroup f = Some g -> which_one_of m g <> Some i).
  { intros g G Hw. destruct (cs_sel _ _ _ _ St g i Hw) as (f0 & Hf0 & _ & S).
    rewrite Hf in Hf0. injection Hf0 as <-. rewrite R, is_sentinel_sentinel in S. discriminate. }
  assert (Hfm : nth_error (fields_of sc m) i = Some f) by (unfold fields_of; rewrite (cs_cls _ _ _ _ St); exact Hf).
  destruct (state_unset sc m i f W Hfm He R Hsel) as (A & B & C). auto.
Qed.

(* no member of a group given: nothing is selected *)
Theorem no_member_from_dict_cls sc c kvs m g :
  from_dict_cls sc c (JObj kvs) = Ok m ->
  (forall k f, nth_error (cfields (get_class sc c)) k = Some f -> fgroup f = Some g ->
               dict_lookup (cfields (get_class sc c)) kvs k = None) ->
  which_one_of m g = None.
Proof.
  intros Hm Hall. pose proof (cls_state_of _ _ _ _ Hm) as St. apply (cs_none _ _ _ _ St).
  intros k f Hk G. pose proof (cs_raw _ _ _ _ St k f Hk) as R. rewrite (Hall k f Hk G) in R.
  rewrite R. apply is_sentinel_sentinel.
Qed.

(* ---- the flag ---- *)
Theorem flag_from_dict_cls sc c j m : from_dict_cls sc c j = Ok m -> osow m = true.
Proof.
  unfold from_dict_cls. destruct (from_dict_init sc c j) as [kw|]; cbn [bind]; [|discriminate].
  intros H. injection H as <-. unfold finish_cls. apply set_sow_fields.
Qed.

(* a plain sub-message given as a dict (anything but a list): its flag is up and it is emitted *)
Theorem child_from_dict_cls sc c kvs m i f v :
  wf_schema sc = true -> from_dict_cls sc c (JObj kvs) = Ok m ->
  nth_error (cfields (get_class sc c)) i = Some f -> plain_msg f ->
  dict_lookup (cfields (get_class sc c)) kvs i = Some v -> singular_json v = true ->
  child_on_wire m i = true /\
  forall all, enc_obj sc m = Ok all ->
    exists pre h post, all = pre ++ h ++ post /\ here sc (ocur m) i (raw_at m i) f = Ok h /\
                       starts_with_tag (fnum f) 2 h.
Proof.
  intros W Hm Hf (Hp & c' & Hc') Hv Sv. pose proof (cls_state_of _ _ _ _ Hm) as St.
  pose proof (cs_raw _ _ _ _ St i f Hf) as R. rewrite Hv in R. destruct R as (x & V & Rx & _).
  pose proof Hp as (G & Ho & Hw & Ht).
  destruct (value_from_json_msg sc f c' v x Ht Hw Hc' Sv V) as (ch & -> & Hs & _).
  destruct (marked_msg_flag sc ch) as (ch' & E & Hs'). rewrite E in Rx.
  assert (Hfm : nth_error (fields_of sc m) i = Some f) by (unfold fields_of; rewrite (cs_cls _ _ _ _ St); exact Hf).
  assert (Hl : length (oraw m) = length (fields_of sc m)) by (unfold fields_of; rewrite (cs_cls _ _ _ _ St); apply (cs_len _ _ _ _ St)).
  exact (state_child_given sc m i f ch' W Hfm Hl Hp Rx (Hs' Hs)).
Qed.

(* one not given: flag down, nothing emitted *)
Theorem child_absent_from_dict_cls sc c kvs m i f :
  wf_schema sc = true -> from_dict_cls sc c (JObj kvs) = Ok m ->
  nth_error (cfields (get_class sc c)) i = Some f -> plain_msg_field f ->
  dict_lookup (cfields (get_class sc c)) kvs i = None ->
  child_on_wire m i = false /\ here sc (ocur m) i (raw_at m i) f = Ok [].
Proof.
  intros W Hm Hf Hp Hv. pose proof (cls_state_of _ _ _ _ Hm) as St.
  pose proof (cs_raw _ _ _ _ St i f Hf) as R. rewrite Hv in R.
  pose proof Hp as (_ & Ho & _ & _). unfold sentinel_of in R. rewrite Ho in R.
  apply state_child_absent; assumption.
Qed.

(* ---- implicit presence: given its default, nothing is written ---- *)
Theorem implicit_skip_from_dict_cls sc c kvs m i f v x :
  from_dict_cls sc c (JObj kvs) = Ok m ->
  nth_error (cfields (get_class sc c)) i = Some f -> implicit_field f ->
  dict_lookup (cfields (get_class sc c)) kvs i = Some v ->
  value_from_json (recf sc) sc f v = Ok x -> is_default sc f x = true ->
  raw_at m i = x /\ here sc (ocur m) i (raw_at m i) f = Ok [] /\
  enc_obj sc m = enc_obj sc (set_raw m i PPlaceholder).
Proof.
  intros Hm Hf Hi Hv V Hd. pose proof (cls_state_of _ _ _ _ Hm) as St.
  pose proof (cs_raw _ _ _ _ St i f Hf) as R. rewrite Hv in R. destruct R as (x' & V' & Rx & _).
  rewrite V in V'. injection V' as <-.
  rewrite marked_scalar in Rx by (eapply implicit_default_not_msg; eassumption).
  split; [exact Rx|].
  destruct m as [c0 raw sow unk cur]. pose proof (cs_cls _ _ _ _ St) as Ec. cbn [ocls] in Ec. subst c0.
  pose proof (cs_len _ _ _ _ St) as Hl. unfold raw_at in *. cbn [oraw ocur set_raw] in *.
  assert (Hx : nth_error raw i = Some x).
  { rewrite <- Rx. apply nth_error_of_nth. rewrite Hl. eapply nth_error_lt. exact Hf. }
  destruct (implicit_skip sc c raw sow unk cur i f x Hf Hx Hi Hd) as [A B].
  rewrite Rx. split; assumption.
Qed.
