(* C08: Message.load is a fold of [step] over the records of the stream (size = None). *)
From BP Require Import Base.Prelude Model.Types Model.Varint Model.Scalar Model.Float Model.Utf8.
From BP Require Import Model.Object Model.Eq Model.TimeCore Model.Encode Model.Decode Model.C08Step.
From BP Require Import gen.Tables.

(* the named pieces of Model/C08Step.v ARE the body of load: by conversion *)
Lemma load_unfold fuel' sc c raw sow unk cur s :
  load (S fuel') sc (Obj c raw sow unk cur) s None
  = loopV fuel' sc None (get_class sc c) (S (length s)) (Obj c raw true unk cur) s 0.
Proof. reflexivity. Qed.

(* ---- re-emission: bytes(m) = bytes(m without unknown bytes) ++ unknown bytes ---- *)
Lemma enc_obj_unk sc c raw sow unk cur :
  enc_obj sc (Obj c raw sow unk cur) =
  (do body <- enc_obj sc (Obj c raw sow [] cur); Ok (body ++ unk)).
Proof.
  cbn [enc_obj].
  match goal with |- (do body <- ?G; _) = _ => destruct G as [body|e] end; cbn [bind]; [|reflexivity].
  rewrite app_nil_r. reflexivity.
Qed.

Lemma reemit sc m bs :
  enc_obj sc m = Ok bs <-> exists body, enc_obj sc (clear_unk m) = Ok body /\ bs = body ++ ounk m.
Proof.
  destruct m as [c raw sow unk cur]. cbn [clear_unk ounk]. rewrite enc_obj_unk.
  destruct (enc_obj sc (Obj c raw sow [] cur)) as [body|e]; cbn [bind]; split.
  - intros H. injection H as <-. eauto.
  - intros (b & Hb & ->). injection Hb as ->. reflexivity.
  - discriminate.
  - intros (b & Hb & _). discriminate.
Qed.

(* ---- one record: step = decode_value ; store ---- *)
Lemma step_eq fuel' sc cd o p :
  step fuel' sc cd o p =
  match field_by_number cd (pnum p) with
  | None => Ok (add_unk o (praw p))
  | Some (i, f) =>
      if negb (wire_type_fits f (pwt p)) then Ok (add_unk o (praw p))
      else do value <- decode_value fuel' sc f p; store sc o i f value
  end.
Proof. destruct o. reflexivity. Qed.

Lemma step_unknown fuel' sc cd o p :
  is_unknown cd p = true -> step fuel' sc cd o p = Ok (add_unk o (praw p)).
Proof.
  intros H. rewrite step_eq. unfold is_unknown in H.
  destruct (field_by_number cd (pnum p)) as [[i f]|]; [|reflexivity]. rewrite H. reflexivity.
Qed.

Lemma step_known fuel' sc cd o p :
  is_unknown cd p = false ->
  exists i f, field_by_number cd (pnum p) = Some (i, f) /\ wire_type_fits f (pwt p) = true /\
              step fuel' sc cd o p = (do value <- decode_value fuel' sc f p; store sc o i f value).
Proof.
  intros H. rewrite step_eq. unfold is_unknown in H.
  destruct (field_by_number cd (pnum p)) as [[i f]|]; [|discriminate].
  exists i, f. apply negb_false_iff in H. rewrite H. repeat split.
Qed.

(* continuation-passing form = direct form *)
Lemma step_k_bind {A} fuel' sc cd o p (k : obj -> result A) :
  step_k fuel' sc cd o p k = (do o' <- step fuel' sc cd o p; k o').
Proof.
  unfold step, step_k. destruct o as [c raw sow unk cur].
  destruct (field_by_number cd (pnum p)) as [[i f]|]; [|reflexivity].
  destruct (negb (wire_type_fits f (pwt p))); [reflexivity|].
  destruct (decode_value fuel' sc f p) as [value|e]; cbn [bind]; [|reflexivity].
  destruct (getattr sc (Obj c raw sow unk cur) i) as [o' [cv|e]].
  - destruct o' as [c' raw' sow' unk' cur'].
    destruct (ptype_eqb (fty f) TMap).
    + destruct value; try reflexivity. destruct cv; try reflexivity.
      destruct (getattr sc o 0) as [? [?|?]]; try reflexivity.
      destruct (getattr sc o 1) as [? [?|?]]; reflexivity.
    + destruct cv; reflexivity.
  - destruct (setattr sc (Obj c raw sow unk cur) i (default_of sc f)) as [c' raw' sow' unk' cur'].
    destruct (ptype_eqb (fty f) TMap).
    + destruct value; try reflexivity. destruct (default_of sc f); try reflexivity.
      destruct (getattr sc o 0) as [? [?|?]]; try reflexivity.
      destruct (getattr sc o 1) as [? [?|?]]; reflexivity.
    + destruct (default_of sc f); reflexivity.
Qed.

(* ---- the loop (size = None) in direct form ---- *)
Fixpoint run (fuel' : nat) (sc : schema) (cd : cdesc) (n : nat) (o : obj) (s : list byte) : result obj :=
  match n with
  | O => Err EFuel
  | S n' =>
      match s with
      | [] => Ok o
      | _ =>
          do (num_wire, r, s1) <- load_varint s;
          do (p, s2) <- load_field fuel' s1 num_wire r;
          do o' <- step fuel' sc cd o p;
          run fuel' sc cd n' o' s2
      end
  end.

Lemma loopV_run fuel' sc cd : forall n o s read,
  loopV fuel' sc None cd n o s read = (do o' <- run fuel' sc cd n o s; Ok (o', [])).
Proof.
  induction n as [|n IH]; intros o s read; [reflexivity|].
  cbn [loopV run]. destruct s as [|b s]; [reflexivity|].
  destruct (load_varint (b :: s)) as [[[nw r] s1]|]; cbn [bind]; [|reflexivity].
  destruct (load_field fuel' s1 nw r) as [[p s2]|]; cbn [bind]; [|reflexivity].
  rewrite step_k_bind. destruct (step fuel' sc cd o p) as [o'|]; cbn [bind]; [|reflexivity].
  apply IH.
Qed.

Lemma load_run fuel' sc o s :
  load (S fuel') sc o s None =
  (do o' <- run fuel' sc (get_class sc (ocls o)) (S (length s)) (touch o) s; Ok (o', [])).
Proof. destruct o as [c raw sow unk cur]. rewrite load_unfold, loopV_run. reflexivity. Qed.
