(* C08: Message.load is a fold of [step] over the records of the stream (size = None). *)
From BP Require Import Base.Prelude Model.Types Model.Varint Model.Scalar Model.Float Model.Utf8.
From BP Require Import Model.Object Model.Eq Model.TimeCore Model.Encode Model.Decode Model.C08Step.
From BP Require Import gen.Tables.

(* the named pieces of Model/C08Step.v ARE the body of load: by conversion *)
Lemma load_unfold fuel' sc c raw sow unk cur s :
  load (S fuel') sc (Obj c raw sow unk cur) s None
  = loopV fuel' sc None (get_class sc c) (S (length s)) (Obj c raw true unk cur) s 0.
Proof. reflexivity. Qed.

(* ---- re-emission: bytes(m) = bytes(m without unknown bytes) ++ unknown bytes ---- *)
Lemma enc_obj_unk sc c raw sow unk cur :
  enc_obj sc (Obj c raw sow unk cur) =
  (do body <- enc_obj sc (Obj c raw sow [] cur); Ok (body ++ unk)).
Proof.
  cbn [enc_obj].
  match goal with |- (do body <- ?G; _) = _ => destruct G as [body|e] end; cbn [bind]; [|reflexivity].
  rewrite app_nil_r. reflexivity.
Qed.

Lemma reemit sc m bs :
  enc_obj sc m = Ok bs <-> exists body, enc_obj sc (clear_unk m) = Ok body /\ bs = body ++ ounk m.
Proof.
  destruct m as [c raw sow unk cur]. cbn [clear_unk ounk]. rewrite enc_obj_unk.
  destruct (enc_obj sc (Obj c raw sow [] cur)) as [body|e]; cbn [bind]; split.
  - intros H. injection H as <-. eauto.
  - intros (b & Hb & ->). injection Hb as ->. reflexivity.
  - discriminate.
  - intros (b & Hb & _). discriminate.
Qed.
