(* C05 gap closing, second group (table: Proofs/C05GapA.v, clauses (4) and (5)): the shapes the property text names
   ("64-bit integers are strings, bytes are base64, enums are value names, NaN/Infinity are strings, Timestamp is RFC 3339 UTC
   and Duration is decimal seconds with an 's' suffix") as explicit statements about what the model of to_dict writes, with
   the converses ("exactly the 64-bit types", "exactly the non-finite values"), instead of equations with the spec's printer. *)
From Coq Require Import ZArith List Bool Lia.
From BP Require Import Base.Prelude Model.Types Model.Float Model.Object Model.WellFormed Model.TimeCore Spec.Time.
From BP Require Model.Json Model.Time Model.Enum Spec.JsonMap.
From BP Require Proofs.TimeP Proofs.EnumP Proofs.C05Leaf.
From BP Require Import gen.Tables Proofs.C05Model.
Import ListNotations.

(* ---------- integers ---------- *)
Definition is_int_ptype (t : ptype) : bool :=
  match t with
  | TInt32 | TInt64 | TUInt32 | TUInt64 | TSInt32 | TSInt64 | TFixed32 | TSFixed32 | TFixed64 | TSFixed64 => true
  | _ => false
  end.
Definition is_64bit (t : ptype) : bool :=
  match t with TInt64 | TUInt64 | TSInt64 | TFixed64 | TSFixed64 => true | _ => false end.

(* a decimal numeral: optional "-", then one or more digits *)
Definition numeral (s : list byte) : Prop :=
  exists ds, ds <> [] /\ Forall (fun b => is_digit b = true) ds /\ (s = ds \/ s = cMINUS :: ds).

Lemma str_of_Z_numeral z : numeral (J.str_of_Z z).
Proof.
  unfold J.str_of_Z. destruct (z <? 0) eqn:E.
  - exists (dec (- z)). split; [apply TimeP.dec_nonempty|]. split; [apply TimeP.dec_digits; lia|]. right. reflexivity.
  - exists (dec z). split; [apply TimeP.dec_nonempty|]. split; [apply TimeP.dec_digits; lia|]. left. reflexivity.
Qed.

(* EVERY integer value of an integer field (in range or not): a JSON string holding the decimal numeral exactly when the field
   type is one of the five 64-bit types, the bare JSON number otherwise.  INT_64_TYPES is the regenerated table. *)
Theorem emit_int_shape sc t p z : is_int_ptype t = true ->
  J.scalar_to_json sc t p (PInt z) = (if is_64bit t then J.JStr (J.str_of_Z z) else J.JInt z) /\
  numeral (J.str_of_Z z) /\
  (forall k, skind_of t = Some k -> S.is64 k = is_64bit t).
Proof.
  intros T. split; [|split; [apply str_of_Z_numeral|]].
  - destruct t; try discriminate T; vm_compute; reflexivity.
  - intros k K. destruct t; try discriminate T; inversion K; reflexivity.
Qed.

(* ---------- bytes ---------- *)
Theorem emit_bytes_base64 sc p b :
  J.scalar_to_json sc TBytes p (PBytes b) = J.JStr (S.b64_encode b) /\ S.b64_decode (S.b64_encode b) = Some b.
Proof.
  split; [|apply C05Leaf.b64_decode_encode].
  unfold J.scalar_to_json. eval_tables. rewrite b64encode_same. reflexivity.
Qed.

(* ---------- floats ---------- *)
Definition is_float_ptype (t : ptype) : bool := match t with TFloat | TDouble => true | _ => false end.

(* a string EXACTLY for the non-finite values, and then one of the three tokens of the JSON mapping *)
Theorem emit_float_shape sc t p b : is_float_ptype t = true -> 0 <= b < 2 ^ 64 ->
  (S.f64_finite b = true -> J.scalar_to_json sc t p (PFloat b) = J.JFloat b) /\
  (S.f64_finite b = false ->
     (b = f64_pos_inf /\ J.scalar_to_json sc t p (PFloat b) = J.JStr S.s_Infinity) \/
     (b = f64_neg_inf /\ J.scalar_to_json sc t p (PFloat b) = J.JStr S.s_NegInfinity) \/
     (f64_is_nan b = true /\ J.scalar_to_json sc t p (PFloat b) = J.JStr S.s_NaN)).
Proof.
  intros T R. destruct float_strings_same as (EI & EN & EQ).
  assert (E : J.scalar_to_json sc t p (PFloat b) = J.dump_float b).
  { destruct t; try discriminate T; unfold J.scalar_to_json; eval_tables; reflexivity. }
  rewrite E. unfold J.dump_float. rewrite EI, EN, EQ. split.
  - intros F. rewrite (C05Leaf.finite_not_pos_inf b F), (C05Leaf.finite_not_neg_inf b F), (C05Leaf.finite_not_nan b F).
    reflexivity.
  - intros F. destruct (not_finite_cases b R F) as [N|[->| ->]].
    + right. right. split; [exact N|].
      destruct (b =? f64_pos_inf) eqn:P; [apply Z.eqb_eq in P; subst; discriminate N|].
      destruct (b =? f64_neg_inf) eqn:Q; [apply Z.eqb_eq in Q; subst; discriminate N|]. rewrite N. reflexivity.
    + left. split; reflexivity.
    + right. left. split; reflexivity.
Qed.

(* ---------- enums ---------- *)
(* the name of the FIRST declared member carrying the number when there is one (aliases: the first name, as the reference does),
   the bare number otherwise - never null, never another member's name *)
Theorem emit_enum_shape sc e z :
  let ms := Enum.members_of (emembers (nth e (enums sc) (mkE []))) in
  J.scalar_to_json sc TEnum (PyEnum e) (PInt z) =
    match EnumP.first_name ms z with Some n => J.JStr n | None => J.JInt z end /\
  (forall n, EnumP.first_name ms z = Some n -> In (n, z) ms) /\
  (EnumP.first_name ms z = None -> ~ In z (map snd ms)).
Proof.
  intros ms. split; [|split].
  - unfold J.scalar_to_json. eval_tables. unfold J.dump_enum, Enum.to_json_el, J.enum_cls, Enum.class_of.
    fold ms. rewrite EnumP.try_value_canon. unfold EnumP.canon. cbn [fst].
    destruct (EnumP.first_name ms z); reflexivity.
  - intros n H. apply EnumP.first_name_Some in H. destruct H as (l1 & l2 & E & _). rewrite E. apply in_or_app. right. left. reflexivity.
  - intros H. apply EnumP.first_name_None. exact H.
Qed.

(* ---------- Timestamp ---------- *)
(* calendar part "YYYY-MM-DDTHH:MM:SS", then nothing / "." and 3 digits / "." and 6 digits, then "Z": always UTC with the
   literal Z, never a numeric offset, never 9 digits *)
Theorem timestamp_shape us :
  exists fr, J.ts_text us = J.cal_text (us / 1000000) ++ fr ++ [cZ] /\
    (fr = [] \/ exists ds, fr = cDOT :: ds /\ Forall (fun b => is_digit b = true) ds /\ (length ds = 3 \/ length ds = 6)%nat).
Proof.
  unfold J.ts_text, ts_json. exists (frac (us mod 1000000 * 1000)). split; [reflexivity|].
  unfold frac. destruct (us mod 1000000 * 1000 mod 1000000000 =? 0); [left; reflexivity|right].
  destruct (us mod 1000000 * 1000 mod 1000000 =? 0).
  - eexists. split; [reflexivity|]. split; [apply TimeP.pad_digits|]. left. apply TimeP.pad_length.
  - replace (us mod 1000000 * 1000 mod 1000 =? 0) with true by (symmetry; apply Z.eqb_eq; apply Z_mod_mult).
    eexists. split; [reflexivity|]. split; [apply TimeP.pad_digits|]. right. apply TimeP.pad_length.
Qed.

(* ---------- Duration ---------- *)
Lemma fmt0_shape k x : 0 <= x < 10 ^ Z.of_nat (S k) ->
  Forall (fun b => is_digit b = true) (Model.Time.fmt0 (S k) x) /\ length (Model.Time.fmt0 (S k) x) = S k.
Proof. intros H. rewrite (TimeP.fmt0_pad k x H). split; [apply TimeP.pad_digits|apply TimeP.pad_length]. Qed.

(* [-] digits "." (3 or 6 digits) "s" for EVERY span *)
Theorem duration_shape us :
  exists ip fp, Model.Time.delta_to_json us = (if us <? 0 then [cMINUS] else []) ++ ip ++ [cDOT] ++ fp ++ [cS] /\
    ip <> [] /\ Forall (fun b => is_digit b = true) ip /\ Forall (fun b => is_digit b = true) fp /\
    (length fp = 3 \/ length fp = 6)%nat.
Proof.
  unfold Model.Time.delta_to_json. cbv zeta.
  assert (A : 0 <= Z.abs us / 10 ^ 6) by (apply Z.div_pos; lia).
  assert (M : 0 <= Z.abs us mod 10 ^ 6 < 10 ^ 6) by (apply Z.mod_pos_bound; lia).
  destruct (Z.abs us mod 10 ^ 6 mod 1000 =? 0) eqn:E.
  - destruct (fmt0_shape 2 (Z.abs us mod 10 ^ 6 / 1000)) as [D L].
    { change (10 ^ Z.of_nat 3) with 1000. change (10 ^ 6) with 1000000 in *. split; [apply Z.div_pos; lia|].
      apply Z.div_lt_upper_bound; lia. }
    eexists. eexists. split; [reflexivity|]. split; [apply TimeP.dec_nonempty|]. split; [apply TimeP.dec_digits, A|].
    split; [exact D|left; exact L].
  - destruct (fmt0_shape 5 (Z.abs us mod 10 ^ 6)) as [D L]; [exact M|].
    eexists. eexists. split; [reflexivity|]. split; [apply TimeP.dec_nonempty|]. split; [apply TimeP.dec_digits, A|].
    split; [exact D|right; exact L].
Qed.

(* ---------- non-vacuity ---------- *)
Example shapes_nonvacuous :
  J.scalar_to_json Ex.ex_sc TUInt64 PyInt (PInt (2 ^ 64 - 1)) =
    J.JStr [x31; x38; x34; x34; x36; x37; x34; x34; x30; x37; x33; x37; x30; x39; x35; x35; x31; x36; x31; x35] /\
  J.scalar_to_json Ex.ex_sc TUInt32 PyInt (PInt (2 ^ 32 - 1)) = J.JInt 4294967295 /\
  J.scalar_to_json Ex.ex_sc TBytes PyBytes (PBytes [xfb; xff]) = J.JStr [x2b; x2f; x38; x3d] /\
  S.f64_finite f64_neg_inf = false /\ S.f64_finite 4609434218613702656 = true /\
  J.scalar_to_json Ex.ex_sc TEnum (PyEnum 0) (PInt (-1)) = J.JStr [x4e; x45; x47] /\
  J.scalar_to_json Ex.ex_sc TEnum (PyEnum 0) (PInt 7) = J.JInt 7 /\
  Model.Time.delta_to_json (-1500000) = [x2d; x31; x2e; x35; x30; x30; x73].
Proof. repeat split; vm_compute; reflexivity. Qed.
