(* Proofs/GrpcConvP.v — the small-step model of one call (Model/GrpcConv.v):
     1. a transition system whose tasks commute pairwise (one-step diamond) is confluent by counting:
        if ONE maximal schedule of length n exists, EVERY schedule has length <= n, extends to a maximal one,
        and every maximal schedule has length exactly n and ends in the same state;
     2. the three tasks of the call commute pairwise in EVERY state, whatever the two parties and the mode
        (the system is a Kahn network: FIFO channels, blocking reads, no test for emptiness);
     3. a finite sequential dialogue [Dlg] yields one maximal schedule of the stream_stream system that ends
        with the dialogue's transcript; with 1 and 2: every maximal schedule does. *)
From Coq Require Import List Bool Lia Arith.
From BP Require Import Base.Prelude Model.Grpc Model.GrpcConv.
Import ListNotations.

Lemma task_eq_dec (a b : task) : {a = b} + {a <> b}.
Proof. decide equality. Qed.

(* ---------------------------------------------------------------------------
   1. confluence by counting
   --------------------------------------------------------------------------- *)
Section Diamond.
  Variable X : Type.
  Variable stp : task -> X -> option X.
  Hypothesis diamond : forall t1 t2 s s1 s2, t1 <> t2 -> stp t1 s = Some s1 -> stp t2 s = Some s2 ->
    exists s3, stp t2 s1 = Some s3 /\ stp t1 s2 = Some s3.

  Inductive steps : nat -> X -> X -> Prop :=
  | steps_0 s : steps O s s
  | steps_S n t s s1 f : stp t s = Some s1 -> steps n s1 f -> steps (S n) s f.

  Definition stuck (s : X) : Prop := forall t, stp t s = None.

  Lemma steps_app n m s a f : steps n s a -> steps m a f -> steps (n + m) s f.
  Proof.
    induction 1 as [|n t s s1 a Hs Hr IH]; intros Hm; [exact Hm|].
    cbn [Nat.add]. eapply steps_S; [exact Hs | apply IH; exact Hm].
  Qed.

  Lemma steps_one t s s1 : stp t s = Some s1 -> steps 1 s s1.
  Proof. intros H. eapply steps_S; [exact H | apply steps_0]. Qed.

  Lemma strip n s f : steps n s f -> stuck f ->
    forall t a, stp t s = Some a -> exists m, n = S m /\ steps m a f.
  Proof.
    induction 1 as [s|n t s s1 f Hs Hr IH]; intros Hst t' a Ha.
    - rewrite (Hst t') in Ha. discriminate.
    - destruct (task_eq_dec t t') as [->|Hne].
      + rewrite Hs in Ha. inversion Ha; subst. exists n. split; [reflexivity | exact Hr].
      + destruct (diamond t t' s s1 a Hne Hs Ha) as [s3 [H1 H2]].
        destruct (IH Hst t' s3 H1) as [m [-> Hm]].
        exists (S m). split; [reflexivity|]. eapply steps_S; [exact H2 | exact Hm].
  Qed.

  Lemma confluent_count m s a : steps m s a ->
    forall n f, steps n s f -> stuck f -> exists k, n = (m + k)%nat /\ steps k a f.
  Proof.
    induction 1 as [s|m t s s1 a Hs Hr IH]; intros n f Hn Hst.
    - exists n. split; [reflexivity | exact Hn].
    - destruct (strip n s f Hn Hst t s1 Hs) as [n' [-> Hn']].
      destruct (IH n' f Hn' Hst) as [k [-> Hk]].
      exists k. split; [reflexivity | exact Hk].
  Qed.

  Lemma stuck_steps n s f : stuck s -> steps n s f -> n = O /\ f = s.
  Proof.
    intros Hst H. destruct H as [s|n t s s1 f Hs Hr]; [split; reflexivity|].
    rewrite (Hst t) in Hs. discriminate.
  Qed.

  (* every maximal schedule reaches the same state in the same number of steps *)
  Lemma maximal_unique n s f m a :
    steps n s f -> stuck f -> steps m s a -> stuck a -> m = n /\ a = f.
  Proof.
    intros Hn Hf Hm Ha.
    destruct (confluent_count m s a Hm n f Hn Hf) as [k [-> Hk]].
    destruct (stuck_steps k a f Ha Hk) as [-> ->]. split; [lia | reflexivity].
  Qed.

  (* no schedule is longer than a maximal one, and every schedule extends to it *)
  Lemma bounded_by_maximal n s f m a :
    steps n s f -> stuck f -> steps m s a -> (m <= n)%nat /\ steps (n - m) a f.
  Proof.
    intros Hn Hf Hm.
    destruct (confluent_count m s a Hm n f Hn Hf) as [k [-> Hk]].
    split; [lia|]. replace (m + k - m)%nat with k by lia. exact Hk.
  Qed.
End Diamond.

Arguments steps {X}.
Arguments stuck {X}.

(* ---------------------------------------------------------------------------
   2. the tasks of the call commute
   --------------------------------------------------------------------------- *)
Section Sys.
  Variables SS HS : Type.
  Variable src_step : SS -> src_act SS.
  Variable hdl_step : HS -> hdl_act HS.
  Variable cm : cmode.
  Variable sm_single : bool.

  Notation state := (state SS HS).
  Notation step := (step SS HS src_step hdl_step cm sm_single).
  Notation step_sender := (step_sender SS HS src_step).
  Notation step_handler := (step_handler SS HS hdl_step sm_single).
  Notation step_caller := (step_caller SS HS cm).
  Notation run := (run SS HS src_step hdl_step cm sm_single).
  Notation stuckb := (stuckb SS HS src_step hdl_step cm sm_single).

  Ltac brk :=
    repeat match goal with
           | H : context [match ?x with _ => _ end] |- _ =>
               match type of x with
               | _ => destruct x eqn:?; try discriminate
               end
           end.

  Ltac fin := eexists; split; reflexivity.

  Lemma diamond_sender_handler s s1 s2 :
    step_sender s = Some s1 -> step_handler s = Some s2 ->
    exists s3, step_handler s1 = Some s3 /\ step_sender s2 = Some s3.
  Proof.
    unfold GrpcConv.step_sender, GrpcConv.step_handler. destruct s; cbn.
    intros H1 H2. brk;
      inversion H1; inversion H2; subst; cbn;
      repeat match goal with H : _ = _ |- _ => rewrite H end; cbn; try fin.
  Qed.

  Lemma diamond_sender_caller s s1 s2 :
    kahn_mode cm = true ->
    step_sender s = Some s1 -> step_caller s = Some s2 ->
    exists s3, step_caller s1 = Some s3 /\ step_sender s2 = Some s3.
  Proof.
    unfold GrpcConv.step_sender, GrpcConv.step_caller, GrpcConv.chk_fail, kahn_mode.
    destruct s; destruct cm as [sq it ck]; destruct sq, ck; cbn; try discriminate; intros _.
    all: intros H1 H2; brk;
      inversion H1; inversion H2; subst; cbn;
      repeat match goal with H : _ = _ |- _ => rewrite H end; cbn; try fin.
  Qed.

  Lemma diamond_caller_handler s s1 s2 :
    step_caller s = Some s1 -> step_handler s = Some s2 ->
    exists s3, step_handler s1 = Some s3 /\ step_caller s2 = Some s3.
  Proof.
    unfold GrpcConv.step_caller, GrpcConv.step_handler, GrpcConv.chk_fail.
    destruct s; destruct cm as [sq it ck]; destruct sq, ck; cbn.
    all: intros H1 H2; brk;
      inversion H1; inversion H2; subst; cbn;
      repeat match goal with H : _ = _ |- _ => rewrite H end; cbn; try fin.
  Qed.

  Theorem step_diamond t1 t2 s s1 s2 :
    kahn_mode cm = true ->
    t1 <> t2 -> step t1 s = Some s1 -> step t2 s = Some s2 ->
    exists s3, step t2 s1 = Some s3 /\ step t1 s2 = Some s3.
  Proof.
    intros Hk Hne H1 H2.
    destruct t1, t2; try (exfalso; apply Hne; reflexivity); cbn [GrpcConv.step] in *.
    - exact (diamond_sender_caller s s1 s2 Hk H1 H2).
    - exact (diamond_sender_handler s s1 s2 H1 H2).
    - destruct (diamond_sender_caller s s2 s1 Hk H2 H1) as [s3 [A B]]. exists s3. split; assumption.
    - exact (diamond_caller_handler s s1 s2 H1 H2).
    - destruct (diamond_sender_handler s s2 s1 H2 H1) as [s3 [A B]]. exists s3. split; assumption.
    - destruct (diamond_caller_handler s s2 s1 H2 H1) as [s3 [A B]]. exists s3. split; assumption.
  Qed.

  (* schedules as lists of task names <-> counted steps *)
  Lemma run_steps sch s f : run sch s = Some f -> steps step (length sch) s f.
  Proof.
    revert s. induction sch as [|t r IH]; intros s H; cbn [GrpcConv.run length] in *.
    - inversion H; subst. apply steps_0.
    - destruct (step t s) as [s1|] eqn:E; [|discriminate].
      eapply steps_S; [exact E | apply IH; exact H].
  Qed.

  Lemma steps_run n s f : steps step n s f -> exists sch, length sch = n /\ run sch s = Some f.
  Proof.
    induction 1 as [s|n t s s1 f Hs Hr [sch [Hl Hrun]]].
    - exists []. split; reflexivity.
    - exists (t :: sch). split; [cbn [length]; rewrite Hl; reflexivity|].
      cbn [GrpcConv.run]. rewrite Hs. exact Hrun.
  Qed.

  Lemma stuckb_stuck s : stuckb s = true <-> stuck step s.
  Proof.
    unfold GrpcConv.stuckb, stuck. split.
    - intros H t.
      destruct (step TSender s) eqn:E1; [discriminate|].
      destruct (step TCaller s) eqn:E2; [discriminate|].
      destruct (step THandler s) eqn:E3; [discriminate|].
      destruct t; assumption.
    - intros H. rewrite (H TSender), (H TCaller), (H THandler). reflexivity.
  Qed.

  Lemma stuckb_false s : stuckb s = false -> exists t s', step t s = Some s'.
  Proof.
    unfold GrpcConv.stuckb. intros H.
    destruct (step TSender s) eqn:E1; [exists TSender; eexists; exact E1|].
    destruct (step TCaller s) eqn:E2; [exists TCaller; eexists; exact E2|].
    destruct (step THandler s) eqn:E3; [exists THandler; eexists; exact E3|].
    discriminate.
  Qed.

  (* ---- for EVERY protocol and EVERY mode: the outcome does not depend on the schedule ---- *)
  Theorem conv_confluent sch1 sch2 s f1 f2 :
    kahn_mode cm = true ->
    run sch1 s = Some f1 -> stuckb f1 = true ->
    run sch2 s = Some f2 -> stuckb f2 = true ->
    f1 = f2 /\ length sch1 = length sch2.
  Proof.
    intros Hk R1 S1 R2 S2.
    apply run_steps in R1. apply run_steps in R2.
    apply stuckb_stuck in S1. apply stuckb_stuck in S2.
    destruct (maximal_unique _ step (fun a b c d e => step_diamond a b c d e Hk) _ _ _ _ _ R2 S2 R1 S1) as [A B].
    split; [exact B | exact A].
  Qed.

  (* if one maximal schedule exists, no schedule is longer, and every schedule can be continued to the
     same final state (so none deadlocks elsewhere, none runs for ever) *)
  Theorem conv_bounded sch1 sch2 s f a :
    kahn_mode cm = true ->
    run sch1 s = Some f -> stuckb f = true -> run sch2 s = Some a ->
    (length sch2 <= length sch1)%nat /\
    exists rest, run rest a = Some f /\ length rest = (length sch1 - length sch2)%nat.
  Proof.
    intros Hk R1 S1 R2.
    apply run_steps in R1. apply run_steps in R2. apply stuckb_stuck in S1.
    destruct (bounded_by_maximal _ step (fun a b c d e => step_diamond a b c d e Hk) _ _ _ _ _ R1 S1 R2) as [A B].
    split; [exact A|].
    destruct (steps_run _ _ _ B) as [rest [Hl Hr]]. exists rest. split; [exact Hr | exact Hl].
  Qed.

  Lemma run_app a b s : run (a ++ b) s = match run a s with Some s' => run b s' | None => None end.
  Proof.
    revert s. induction a as [|t r IH]; intros s; cbn [GrpcConv.run app]; [reflexivity|].
    destruct (step t s); [apply IH | reflexivity].
  Qed.
End Sys.

(* ---------------------------------------------------------------------------
   3. the structure of _stream_stream (concurrent sender + response iteration), with grpclib's
      "outgoing stream was not ended" check (chk = true: the real helper) or without it (chk = false):
      a finite dialogue gives a maximal schedule with its transcript
   --------------------------------------------------------------------------- *)
Definition ss_mode : cmode := helper_mode H_stream_stream.
Definition ss_ideal : cmode := ideal_mode ss_mode.

Section StreamStream.
  Variables SS HS : Type.
  Variable src_step : SS -> src_act SS.
  Variable hdl_step : HS -> hdl_act HS.
  Variable chk : bool.

  Notation state := (state SS HS).
  Notation step := (step SS HS src_step hdl_step (CMode false true chk) false).
  Notation Dlg := (Dlg SS HS src_step hdl_step).
  Notation SrcStops := (SrcStops SS src_step).

  Ltac one T :=
    eapply steps_S with (t := T);
    [cbn; repeat match goal with H : _ = _ |- _ => rewrite H end; cbn; reflexivity|].

  (* after the call has completed for both ends only the sender can move; it stops when the generator does *)
  Lemma src_stops_run ss ib : SrcStops ss ib ->
    forall rq hs rd b e st q rcv cw ce,
    exists n f, steps step n (St ss false rq ib hs rd b e (Some st) q rcv cw (Some ce)) f /\ stuck step f /\
                s_hread f = rd /\ s_recv f = rcv /\ s_cend f = Some ce /\ s_hdone f = Some st /\ s_hend f = e.
  Proof.
    induction 1 as [ss ib He | ss k He | ss k y ib He Hr IH | ss r ss' ib He Hr IH]; intros rq hs rd b e st q rcv cw ce.
    - exists 1%nat. eexists. split; [one TSender; apply steps_0|].
      split; [intros [] ; cbn; reflexivity|]. cbn. repeat split; reflexivity.
    - exists O. eexists. split; [apply steps_0|].
      split; [intros []; cbn; try rewrite He; reflexivity|]. cbn. repeat split; reflexivity.
    - destruct (IH rq hs rd b e st q rcv cw ce) as [n [f [Hs Hf]]].
      exists (S n), f. split; [one TSender; exact Hs | exact Hf].
    - destruct (IH (rq ++ [r]) hs rd b e st q rcv cw ce) as [n [f [Hs Hf]]].
      exists (S n), f. split; [one TSender; exact Hs | exact Hf].
  Qed.

  (* a handler that waits for a request on an ended, empty stream is told so *)
  Lemma dlg_recv_on_ended ss hs ib k rd em st se :
    hdl_step hs = HaRecv k -> Dlg ss true [] hs ib (rd, em, st, se) -> se = true.
  Proof.
    intros He H. inversion H; subst; try reflexivity; congruence.
  Qed.

  (* how the caller's call ends in the canonical schedule: with the handler's status, unless grpclib's check
     fires because stream.end() had not been called when the handler finished *)
  Definition dlg_end (sf se : bool) (st : option Z) : cend :=
    if chk && negb (sf || se) then CExc else end_of st.

  Lemma dlg_run ss sf rq hs ib t : Dlg ss sf rq hs ib t ->
    forall rd rcv b e,
    exists n f, steps step n (St ss sf rq ib hs rd b e None [] rcv false None) f /\ stuck step f /\
                s_hread f = rd ++ fst (fst (fst t)) /\ s_recv f = rcv ++ snd (fst (fst t)) /\
                s_cend f = Some (dlg_end sf (snd t) (snd (fst t))) /\ s_hdone f = Some (snd (fst t)) /\
                s_hend f = e || snd t.
  Proof.
    induction 1 as [ss sf rq hs ib y hs' rd0 em st se He Hd IH
                   | ss sf r rq hs ib k rd0 em st se He Hd IH
                   | ss hs ib k rd0 em st se He Hd IH
                   | ss sf rq hs ib st He Hsrc
                   | ss hs ib k r ss' t He Hs Hd IH
                   | ss hs y ib k k' t He Hs Hd IH
                   | ss hs ib k t He Hs Hd IH]; intros rd rcv b e.
    - destruct (IH rd (rcv ++ [y]) true e) as [n [f [Hst [Hf [A [B [C [D E]]]]]]]].
      exists (S (S n)), f. split; [one THandler; one TCaller; exact Hst|].
      split; [exact Hf|]. cbn [fst snd] in *. rewrite A, B, C, D, E, <- app_assoc. cbn [app]. repeat split; reflexivity.
    - destruct (IH (rd ++ [r]) rcv b e) as [n [f [Hst [Hf [A [B [C [D E]]]]]]]].
      exists (S n), f. split; [one THandler; exact Hst|].
      split; [exact Hf|]. cbn [fst snd] in *. rewrite A, B, C, D, E, <- app_assoc. cbn [app]. repeat split; reflexivity.
    - destruct (IH rd rcv b true) as [n [f [Hst [Hf [A [B [C [D E]]]]]]]].
      exists (S n), f. split; [one THandler; exact Hst|].
      split; [exact Hf|]. cbn [fst snd] in *. rewrite A, B, C, D, E. unfold dlg_end. cbn [orb negb andb].
      rewrite !andb_false_r, orb_true_r. repeat split; reflexivity.
    - cbn [fst snd]. rewrite !app_nil_r, orb_false_r. unfold dlg_end. rewrite orb_false_r.
      destruct sf.
      + exists 2%nat. eexists. split; [one THandler; one TCaller; apply steps_0|].
        split; [intros []; cbn; reflexivity|]. unfold chk_fail. cbn. rewrite !andb_false_r. repeat split; reflexivity.
      + destruct Hsrc as [Hc | Hsrc]; [discriminate|].
        destruct (src_stops_run ss ib Hsrc rq hs rd b e st [] rcv false
                    (if chk_fail SS HS (CMode false true chk) (St ss false rq ib hs rd b e (Some st) [] rcv false None)
                     then CExc else end_of st))
          as [n [f [Hst Hf]]].
        exists (S (S n)), f. split; [one THandler; one TCaller; exact Hst|].
        unfold chk_fail in Hf. cbn in Hf. exact Hf.
    - destruct (IH rd rcv b e) as [n [f [Hst Hf]]].
      exists (S n), f. split; [one TSender; exact Hst | exact Hf].
    - destruct (IH rd rcv b e) as [n [f [Hst Hf]]].
      exists (S n), f. split; [one TSender; exact Hst | exact Hf].
    - destruct (IH rd rcv b e) as [n [f [Hst [Hf [A [B [C [D E]]]]]]]].
      exists (S n), f. split; [one TSender; exact Hst|]. split; [exact Hf|].
      destruct t as [[[rd0 em] st] se]. cbn [fst snd] in *.
      rewrite (dlg_recv_on_ended _ _ _ _ _ _ _ _ He Hd) in *.
      unfold dlg_end in *. cbn [orb negb] in *. rewrite ?andb_false_r, ?orb_true_r in *.
      repeat split; assumption.
  Qed.
End StreamStream.

(* ---- without the check: a Kahn network, so the canonical schedule speaks for all ---- *)
Section StreamStreamIdeal.
  Variables SS HS : Type.
  Variable src_step : SS -> src_act SS.
  Variable hdl_step : HS -> hdl_act HS.

  Notation run := (run SS HS src_step hdl_step ss_ideal false).
  Notation stuckb := (stuckb SS HS src_step hdl_step ss_ideal false).
  Notation Dlg := (Dlg SS HS src_step hdl_step).

  Theorem conversation_complete_ideal ss hs rd em st se :
    Dlg ss false [] hs [] (rd, em, st, se) ->
    exists N fin,
      stuckb fin = true /\
      observe fin = Observed rd em (Some (end_of st)) /\
      s_hdone fin = Some st /\ s_hend fin = se /\
      forall sch s', run sch (init ss hs) = Some s' ->
        (length sch <= N)%nat /\
        (exists rest, run rest s' = Some fin /\ (length sch + length rest = N)%nat) /\
        (stuckb s' = true -> s' = fin).
  Proof.
    intros Hd.
    destruct (dlg_run SS HS src_step hdl_step false ss false [] hs [] _ Hd [] [] false false)
      as [n [f [Hs [Hf [A [B [C [D E]]]]]]]].
    cbn [fst snd app orb] in *. unfold dlg_end in C. cbn [andb] in C.
    destruct (steps_run _ _ _ _ _ _ _ _ _ Hs) as [sch0 [Hl0 Hr0]].
    pose proof (proj2 (stuckb_stuck _ _ _ _ _ _ f) Hf) as Hfb.
    exists n, f. split; [exact Hfb|]. split; [unfold observe; rewrite A, B, C; reflexivity|].
    split; [exact D|]. split; [exact E|].
    intros sch s' Hr. unfold init in *.
    destruct (conv_bounded _ _ _ _ ss_ideal _ sch0 sch _ f s' eq_refl Hr0 Hfb Hr) as [Hle [rest [Hrest Hlr]]].
    rewrite Hl0 in *. split; [exact Hle|]. split; [exists rest; split; [exact Hrest | lia]|].
    intros Hsb.
    destruct (conv_confluent _ _ _ _ ss_ideal _ sch0 sch _ f s' eq_refl Hr0 Hfb Hr Hsb) as [E' _]. symmetry. exact E'.
  Qed.
End StreamStreamIdeal.
