(* C05, message level: the statements of the property, in the forms Properties/C05.v quotes:
   - under C04's value-side hypothesis [good] (+ K13's no_neg_zero), which implies [emit_good];
   - for the reference-side schema a runtime schema determines by itself ([jschema_of], offset 0). *)
From BP Require Import Base.Prelude Model.Types Model.Float Model.Object Model.WellFormed.
From BP Require Model.Json Spec.JsonMap.
From BP Require Import Proofs.C04Def Proofs.C04ElemP Proofs.C05Model Proofs.C05MsgDef Proofs.C05MsgElem Proofs.C05MsgEmit.
From BP Require Import Proofs.C05AccDef Proofs.C05AccMain.
From Coq Require Import Lia.

Lemma forallb_impl {A} (p q : A -> bool) l :
  (forall x, In x l -> p x = true -> q x = true) -> forallb p l = true -> forallb q l = true.
Proof.
  intros H F. rewrite forallb_forall in *. intros x Hx. exact (H x Hx (F x Hx)).
Qed.

Lemma pv_all_impl (P Q : obj -> bool) : (forall o, P o = true -> Q o = true) ->
  forall v, pv_all P v = true -> pv_all Q v = true.
Proof.
  intros H v. induction v as [v IH] using pv_size_ind.
  destruct v as [| | | | | | | | |l|d|[c raw s u g]]; try (intros _; reflexivity).
  - cbn [pv_all]. apply forallb_impl. intros x Hx. apply IH. rewrite size_list. pose proof (in_sum_size x l Hx). lia.
  - cbn [pv_all]. apply forallb_impl. intros [k x] Hx. cbn [snd]. apply IH. rewrite size_dict.
    pose proof (in_sum_size_d k x d Hx). lia.
  - rewrite !pv_all_msg. intros F. apply andb_prop in F as [F1 F2]. rewrite (H _ F1). cbn [andb].
    revert F2. apply forallb_impl. intros x Hx. apply IH. rewrite size_msg. pose proof (in_sum_size x raw Hx). lia.
Qed.

Lemma local_nan_ok_canon o : local_nan_ok o = true -> local_nan_canon o = true.
Proof.
  unfold local_nan_ok, local_nan_canon. apply forallb_impl. intros x _.
  destruct x; try (intros H; exact H).
  - apply forallb_impl. intros y _. apply not_nan_canonical.
  - apply forallb_impl. intros y _. apply not_nan_canonical.
Qed.

(* C04's hypothesis on the value, plus K13's, is enough *)
Lemma good_emit_good sc o : good sc o = true -> no_neg_zero sc o = true -> emit_good sc o = true.
Proof.
  unfold good, json_supported, emit_good. intros G Z.
  apply andb_prop in G as [G Js]. apply andb_prop in G as [G _]. apply andb_prop in G as [R O].
  apply andb_prop in Js as [_ N]. rewrite R, Z.
  unfold oneof_ok, obj_all in O. unfold oneof_sel, obj_all. rewrite (pv_all_impl _ _ (local_oneof_ok_sel sc) _ O).
  unfold nan_ok in N. unfold nan_canon, obj_all. rewrite (pv_all_impl _ _ local_nan_ok_canon _ N). reflexivity.
Qed.

Theorem emit_accepted_good sc js off c o :
  wf_schema sc = true -> js_matches off sc js = true -> good sc o = true -> no_neg_zero sc o = true ->
  ocls o = (c + off)%nat -> (c < length (S.jclasses js))%nat ->
  model_emit_accepts sc js c o = Some (abs_obj sc o).
Proof. intros WF JM G Z. apply (emit_accepted sc js off JM WF). apply good_emit_good; assumption. Qed.

(* the reference-side schema the runtime schema determines *)
Lemma jschema_of_length sc : length (S.jclasses (jschema_of sc)) = length (classes sc).
Proof. unfold jschema_of. cbn [S.jclasses]. apply map_length. Qed.

Theorem emit_accepted_self sc o :
  wf_schema sc = true -> js_matches 0 sc (jschema_of sc) = true -> emit_good sc o = true ->
  (ocls o < length (classes sc))%nat ->
  model_emit_accepts sc (jschema_of sc) (ocls o) o = Some (abs_obj sc o).
Proof.
  intros WF JM G L. apply (emit_accepted sc (jschema_of sc) 0 JM WF (ocls o) o G).
  - rewrite Nat.add_0_r. reflexivity.
  - rewrite jschema_of_length. exact L.
Qed.

Theorem reads_canonical_self sc c a :
  wf_schema sc = true -> js_matches 0 sc (jschema_of sc) = true -> keys_ok J.CAMEL sc = true ->
  wf_aval sc (jschema_of sc) 0 (S.JMsg c) a = true ->
  model_reads_canonical sc (jschema_of sc) c c a = Some a.
Proof.
  intros WF JM KO W. pose proof (reads_canonical sc (jschema_of sc) 0 c a WF JM KO W) as H.
  rewrite Nat.add_0_r in H. exact H.
Qed.
