(* C06, from_dict, part 4: the instance form m.from_dict(d): the flag, then one setattr per key of init_kwargs,
   in dict order (each resetting the siblings of a oneof member).  The state after the loop in terms of the keyword
   list, by induction from the right; then in terms of the mapping (Proofs/C06DictKwP.v init_lookup). *)
From BP Require Import Base.Prelude Model.Types Model.Varint Model.Object Model.Eq Model.Encode Model.Decode.
From BP Require Import Model.WellFormed Model.Json Model.C06Obs Model.C06Dict.
From BP Require Import gen.Tables Spec.Varint Spec.C06Wire.
From BP Require Import Proofs.C04ElemP Proofs.C04ObjP.
From BP Require Import Proofs.C06SpecP Proofs.C06LoopP Proofs.C06EncP Proofs.C06StoreP Proofs.C06DecP Proofs.C06PresP Proofs.C06WaysP Proofs.C06FinalP.
From BP Require Import Proofs.C06DictKwP Proofs.C06DictStateP.
From Coq Require Import Lia.

(* the member of group g assigned last in a sequence of assignments *)
Definition last_in_group (cd : cdesc) (g : nat) (order : list nat) : option nat :=
  fold_left (fun acc i => if in_group cd g i then Some i else acc) order None.

Lemma last_in_group_snoc cd g l k :
  last_in_group cd g (l ++ [k]) = if in_group cd g k then Some k else last_in_group cd g l.
Proof. unfold last_in_group. rewrite fold_left_app. reflexivity. Qed.

Lemma last_in_group_fold cd g : forall l acc,
  (forall k, In k l -> in_group cd g k = false) ->
  fold_left (fun acc i => if in_group cd g i then Some i else acc) l acc = acc.
Proof.
  induction l as [|a l IH]; intros acc H; [reflexivity|]. cbn [fold_left].
  rewrite (H a (or_introl eq_refl)). apply IH. intros k I. apply H. right. exact I.
Qed.

Lemma last_in_group_none cd g l : (forall k, In k l -> in_group cd g k = false) -> last_in_group cd g l = None.
Proof. apply last_in_group_fold. Qed.

Lemma last_in_group_split cd g pre i post :
  in_group cd g i = true -> (forall k, In k post -> in_group cd g k = false) ->
  last_in_group cd g (pre ++ i :: post) = Some i.
Proof.
  intros Hi Hp. unfold last_in_group. rewrite fold_left_app. cbn [fold_left]. rewrite Hi.
  apply last_in_group_fold. exact Hp.
Qed.

Lemma last_in_group_in cd g : forall l i, last_in_group cd g l = Some i -> In i l.
Proof.
  induction l as [|a l IH] using rev_ind; intros i H; [discriminate|].
  rewrite last_in_group_snoc in H. apply in_or_app. destruct (in_group cd g a).
  - injection H as <-. right. left. reflexivity.
  - left. apply IH. exact H.
Qed.

Lemma in_group_field sc c g k f :
  nth_error (cfields (get_class sc c)) k = Some f -> in_group (get_class sc c) g k = opt_nat_eqb (fgroup f) (Some g).
Proof.
  intros H. unfold in_group. rewrite H. destruct (fgroup f) as [g'|]; [|reflexivity]. cbn. apply Nat.eqb_sym.
Qed.

Lemma in_group_invalid cd g k : nth_error (cfields cd) k = None -> in_group cd g k = false.
Proof. intros H. unfold in_group. rewrite H. reflexivity. Qed.

Lemma setattr_unk sc o i v : ounk (setattr sc o i v) = ounk o.
Proof.
  destruct o as [c raw sow unk cur]. rewrite setattr_unfold.
  destruct (nth_error _ i) as [f|]; [destruct (fgroup f)|]; reflexivity.
Qed.

Lemma setattr_invalid sc o i v : nth_error (fields_of sc o) i = None -> setattr sc o i v = o.
Proof.
  destruct o as [c raw sow unk cur]. unfold fields_of. cbn [ocls]. intros H. rewrite setattr_unfold, H. reflexivity.
Qed.

Definition inst_step (sc : schema) (o : obj) (iv : nat * pv) : obj := setattr sc o (fst iv) (snd iv).

Record inst_inv (sc : schema) (o0 o' : obj) (kw : list (nat * pv)) : Prop := mkInstInv {
  ii_cls : ocls o' = ocls o0;
  ii_len : length (oraw o') = length (oraw o0);
  ii_clen : length (ocur o') = length (ocur o0);
  ii_sow : osow o0 = true -> osow o' = true;
  ii_unk : ounk o' = ounk o0;
  ii_plain : forall i f, nth_error (fields_of sc o0) i = Some f -> fgroup f = None ->
      raw_at o' i = match kw_get i kw with Some x => marked sc x | None => raw_at o0 i end;
  ii_cur : forall g, nth g (ocur o') None =
      match last_in_group (get_class sc (ocls o0)) g (map fst kw) with
      | Some i => Some i
      | None => nth g (ocur o0) None
      end;
  ii_member : forall g i f, nth_error (fields_of sc o0) i = Some f -> fgroup f = Some g ->
      last_in_group (get_class sc (ocls o0)) g (map fst kw) = Some i ->
      exists x, kw_get i kw = Some x /\ raw_at o' i = marked sc x;
  ii_keep : forall g i f, nth_error (fields_of sc o0) i = Some f -> fgroup f = Some g ->
      last_in_group (get_class sc (ocls o0)) g (map fst kw) = None ->
      raw_at o' i = raw_at o0 i;
  ii_untouched : forall i, ~ In i (map fst kw) -> raw_at o' i = raw_at o0 i \/ raw_at o' i = PPlaceholder }.

Lemma inst_fold_inv sc o0 :
  wf_schema sc = true ->
  length (oraw o0) = length (fields_of sc o0) -> length (ocur o0) = cngroups (get_class sc (ocls o0)) ->
  forall kw, inst_inv sc o0 (fold_left (inst_step sc) kw o0) kw.
Proof.
  intros W Hl0 Hc0. induction kw as [|[k x] kw IH] using rev_ind.
  - cbn [fold_left]. constructor; auto.
    + intros g i f _ _ H. discriminate.
  - rewrite fold_left_app. cbn [fold_left]. set (o' := fold_left (inst_step sc) kw o0) in *.
    unfold inst_step at 1. cbn [fst snd].
    assert (Efs : fields_of sc o' = fields_of sc o0) by (unfold fields_of; rewrite (ii_cls _ _ _ _ IH); reflexivity).
    assert (Em : map fst (kw ++ [(k, x)]) = map fst kw ++ [k]) by (rewrite map_app; reflexivity).
    destruct (nth_error (fields_of sc o') k) as [fk|] eqn:Hfk.
    2:{ rewrite (setattr_invalid sc o' k x Hfk).
        assert (Hk0 : nth_error (cfields (get_class sc (ocls o0))) k = None) by (rewrite Efs in Hfk; exact Hfk).
        constructor; try apply IH.
        - intros i f Hf G. rewrite kw_get_snoc. destruct (Nat.eqb_spec k i) as [->|Ne].
          + unfold fields_of in Hf. rewrite Hk0 in Hf. discriminate.
          + apply (ii_plain _ _ _ _ IH i f); assumption.
        - intros g. rewrite Em, last_in_group_snoc, (in_group_invalid _ g k Hk0). apply (ii_cur _ _ _ _ IH).
        - intros g i f Hf G. rewrite Em, last_in_group_snoc, (in_group_invalid _ g k Hk0). intros Hlast.
          rewrite kw_get_snoc. destruct (Nat.eqb_spec k i) as [->|Ne].
          + unfold fields_of in Hf. rewrite Hk0 in Hf. discriminate.
          + eapply (ii_member _ _ _ _ IH); eassumption.
        - intros g i f Hf G. rewrite Em, last_in_group_snoc, (in_group_invalid _ g k Hk0). intros Hlast.
          eapply (ii_keep _ _ _ _ IH); eassumption.
        - intros i Hni. rewrite Em in Hni. apply (ii_untouched _ _ _ _ IH). intros I. apply Hni. apply in_or_app. left. exact I. }
    assert (Hl' : length (oraw o') = length (fields_of sc o')) by (rewrite Efs, (ii_len _ _ _ _ IH); exact Hl0).
    assert (Hk0 : nth_error (cfields (get_class sc (ocls o0))) k = Some fk) by (rewrite Efs in Hfk; exact Hfk).
    assert (Hg' : forall g, fgroup fk = Some g -> (g < length (ocur o'))%nat).
    { intros g G. rewrite (ii_clen _ _ _ _ IH), Hc0. eapply wf_group_lt; [|exact G].
      apply (wf_field_of sc (ocls o0) fk W). eapply nth_error_In. exact Hk0. }
    pose proof (setattr_effect sc o' k fk x Hfk Hl' Hg') as E.
    assert (Hing : forall g, in_group (get_class sc (ocls o0)) g k = opt_nat_eqb (fgroup fk) (Some g))
      by (intros g; apply in_group_field; exact Hk0).
    constructor.
    + rewrite (ef_cls _ _ _ _ _ _ E). apply IH.
    + rewrite (ef_len _ _ _ _ _ _ E). apply IH.
    + rewrite (ef_clen _ _ _ _ _ _ E). apply IH.
    + intros Hs. apply setattr_sow_mono. apply (ii_sow _ _ _ _ IH Hs).
    + rewrite setattr_unk. apply IH.
    + intros i f Hf G. rewrite kw_get_snoc. destruct (Nat.eqb_spec k i) as [->|Ne].
      * apply (ef_here _ _ _ _ _ _ E).
      * destruct (ef_other _ _ _ _ _ _ E i ltac:(congruence)) as [H|(_ & f' & g' & Hf' & G' & _)].
        -- rewrite H. apply (ii_plain _ _ _ _ IH i f); assumption.
        -- rewrite Efs, Hf in Hf'. injection Hf' as <-. congruence.
    + intros g. rewrite (ef_cur _ _ _ _ _ _ E g), Em, last_in_group_snoc, Hing.
      destruct (opt_nat_eqb (fgroup fk) (Some g)); [reflexivity|]. apply (ii_cur _ _ _ _ IH).
    + intros g i f Hf G. rewrite Em, last_in_group_snoc, Hing. rewrite kw_get_snoc.
      destruct (opt_nat_eqb (fgroup fk) (Some g)) eqn:Eg.
      * intros Hlast. injection Hlast as ->. rewrite Nat.eqb_refl. exists x. split; [reflexivity|].
        apply (ef_here _ _ _ _ _ _ E).
      * intros Hlast. destruct (Nat.eqb_spec k i) as [->|Ne].
        { unfold fields_of in Hf. rewrite Hk0 in Hf. injection Hf as ->. rewrite G, opt_nat_eqb_refl in Eg. discriminate. }
        destruct (ii_member _ _ _ _ IH g i f Hf G Hlast) as (x' & Gx & Rx). exists x'. split; [exact Gx|].
        destruct (ef_other _ _ _ _ _ _ E i ltac:(congruence)) as [H|(_ & f' & g' & Hf' & G' & Gk)].
        -- rewrite H. exact Rx.
        -- rewrite Efs, Hf in Hf'. injection Hf' as <-. rewrite G in G'. injection G' as <-.
           rewrite Gk, opt_nat_eqb_refl in Eg. discriminate.
    + intros g i f Hf G. rewrite Em, last_in_group_snoc, Hing.
      destruct (opt_nat_eqb (fgroup fk) (Some g)) eqn:Eg; [discriminate|]. intros Hlast.
      assert (Ne : k <> i).
      { intros ->. unfold fields_of in Hf. rewrite Hk0 in Hf. injection Hf as ->. rewrite G, opt_nat_eqb_refl in Eg. discriminate. }
      destruct (ef_other _ _ _ _ _ _ E i ltac:(congruence)) as [H|(_ & f' & g' & Hf' & G' & Gk)].
      * rewrite H. eapply (ii_keep _ _ _ _ IH); eassumption.
      * rewrite Efs, Hf in Hf'. injection Hf' as <-. rewrite G in G'. injection G' as <-.
        rewrite Gk, opt_nat_eqb_refl in Eg. discriminate.
    + intros i Hni. rewrite Em in Hni.
      assert (Ne : k <> i) by (intros ->; apply Hni; apply in_or_app; right; left; reflexivity).
      assert (Hni' : ~ In i (map fst kw)) by (intros I; apply Hni; apply in_or_app; left; exact I).
      destruct (ef_other _ _ _ _ _ _ E i ltac:(congruence)) as [H|(H & _)]; [|right; exact H].
      rewrite H. apply (ii_untouched _ _ _ _ IH). exact Hni'.
Qed.

(* ---- in terms of the mapping ---- *)
Lemma inst_is_fold sc o kvs m :
  from_dict_inst sc o (JObj kvs) = Ok m ->
  exists kw, from_dict_init sc (ocls o) (JObj kvs) = Ok kw /\ m = fold_left (inst_step sc) kw (set_sow o).
Proof.
  unfold from_dict_inst. destruct (from_dict_init sc (ocls o) (JObj kvs)) as [kw|]; cbn [bind]; [|discriminate].
  intros H. injection H as <-. exists kw. split; reflexivity.
Qed.

Record inst_state (sc : schema) (o : obj) (kvs : list (json * json)) (m : obj) : Prop := mkInstState {
  is_cls : ocls m = ocls o;
  is_len : length (oraw m) = length (fields_of sc o);
  is_clen : length (ocur m) = cngroups (get_class sc (ocls o));
  is_sow : osow m = true;
  is_unk : ounk m = ounk o;
  is_plain : forall i f, nth_error (fields_of sc o) i = Some f -> fgroup f = None ->
      match dict_lookup (fields_of sc o) kvs i with
      | None => raw_at m i = raw_at o i
      | Some v => exists x, value_from_json (recf sc) sc f v = Ok x /\ raw_at m i = marked sc x /\ is_jnull v = false
      end;
  is_win : forall g i f pre post, nth_error (fields_of sc o) i = Some f -> fgroup f = Some g ->
      given_order (fields_of sc o) kvs = pre ++ i :: post ->
      (forall k, In k post -> in_group (get_class sc (ocls o)) g k = false) ->
      which_one_of m g = Some i /\
      exists v x, dict_lookup (fields_of sc o) kvs i = Some v /\ value_from_json (recf sc) sc f v = Ok x /\
                  raw_at m i = marked sc x;
  is_keep : forall g, (forall k, In k (given_order (fields_of sc o) kvs) -> in_group (get_class sc (ocls o)) g k = false) ->
      which_one_of m g = which_one_of o g /\
      forall i f, nth_error (fields_of sc o) i = Some f -> fgroup f = Some g -> raw_at m i = raw_at o i;
  is_untouched : forall i, dict_lookup (fields_of sc o) kvs i = None ->
      (raw_at m i = raw_at o i \/ raw_at m i = PPlaceholder) /\
      forall g, which_one_of m g = Some i -> which_one_of o g = Some i }.

Lemma inst_state_of sc o kvs m :
  wf_schema sc = true -> shape_ok sc o = true ->
  from_dict_inst sc o (JObj kvs) = Ok m -> inst_state sc o kvs m.
Proof.
  intros W Sh H. apply shape_ok_spec in Sh as [Hl Hc].
  destruct (inst_is_fold _ _ _ _ H) as (kw & Hk & ->).
  destruct (init_lookup sc (ocls o) kvs kw Hk) as (N & Ord & L).
  destruct (set_sow_fields o) as (F1 & F2 & F3 & F4 & F5).
  assert (Efs : fields_of sc (set_sow o) = fields_of sc o) by (unfold fields_of; rewrite F1; reflexivity).
  assert (Hl0 : length (oraw (set_sow o)) = length (fields_of sc (set_sow o))) by (rewrite F2, Efs; exact Hl).
  assert (Hc0 : length (ocur (set_sow o)) = cngroups (get_class sc (ocls (set_sow o)))) by (rewrite F3, F1; exact Hc).
  pose proof (inst_fold_inv sc (set_sow o) W Hl0 Hc0 kw) as I.
  set (m := fold_left (inst_step sc) kw (set_sow o)) in *.
  constructor.
  - rewrite (ii_cls _ _ _ _ I). exact F1.
  - rewrite (ii_len _ _ _ _ I), F2. exact Hl.
  - rewrite (ii_clen _ _ _ _ I), F3. exact Hc.
  - apply (ii_sow _ _ _ _ I). exact F5.
  - rewrite (ii_unk _ _ _ _ I). exact F4.
  - intros i f Hf G. pose proof (ii_plain _ _ _ _ I i f) as P. rewrite Efs in P. specialize (P Hf G).
    specialize (L i f Hf). fold (fields_of sc o) in L. rewrite set_sow_raw_at in P.
    destruct (dict_lookup (fields_of sc o) kvs i) as [v|].
    + destruct L as (x & V & Gx & Hn). rewrite Gx in P. exists x. auto.
    + rewrite L in P. exact P.
  - intros g i f pre post Hf G Hord Hpost.
    assert (Hin : in_group (get_class sc (ocls o)) g i = true).
    { unfold fields_of in Hf. rewrite (in_group_field sc (ocls o) g i f Hf), G. apply opt_nat_eqb_refl. }
    assert (Hlast : last_in_group (get_class sc (ocls (set_sow o))) g (map fst kw) = Some i).
    { rewrite F1, Ord. fold (fields_of sc o). rewrite Hord. apply last_in_group_split; assumption. }
    split.
    + unfold which_one_of. rewrite (ii_cur _ _ _ _ I g), Hlast. reflexivity.
    + pose proof (ii_member _ _ _ _ I g i f) as Mb. rewrite Efs in Mb.
      destruct (Mb Hf G Hlast) as (x & Gx & Rx).
      specialize (L i f Hf). fold (fields_of sc o) in L.
      destruct (dict_lookup (fields_of sc o) kvs i) as [v|].
      * destruct L as (x' & V & Gx' & _). rewrite Gx in Gx'. injection Gx' as <-. exists v, x. auto.
      * rewrite L in Gx. discriminate.
  - intros g Hnone.
    assert (Hlast : last_in_group (get_class sc (ocls (set_sow o))) g (map fst kw) = None).
    { rewrite F1, Ord. fold (fields_of sc o). apply last_in_group_none. exact Hnone. }
    split.
    + unfold which_one_of. rewrite (ii_cur _ _ _ _ I g), Hlast, F3. reflexivity.
    + intros i f Hf G. pose proof (ii_keep _ _ _ _ I g i f) as K. rewrite Efs in K.
      rewrite (K Hf G Hlast). apply set_sow_raw_at.
  - intros i Hv.
    assert (Hni : ~ In i (map fst kw)).
    { rewrite Ord. fold (fields_of sc o). rewrite given_order_in. apply dict_lookup_none. exact Hv. }
    split.
    + pose proof (ii_untouched _ _ _ _ I i Hni) as U. rewrite set_sow_raw_at in U. exact U.
    + intros g Hw. unfold which_one_of in *. rewrite (ii_cur _ _ _ _ I g) in Hw.
      destruct (last_in_group (get_class sc (ocls (set_sow o))) g (map fst kw)) as [k|] eqn:Hl'.
      * injection Hw as ->. exfalso. apply Hni. eapply last_in_group_in. exact Hl'.
      * rewrite F3 in Hw. exact Hw.
Qed.

(* ---- the fourth way, instance form ---- *)
Theorem emit_from_dict_inst sc o kvs m i f v :
  wf_schema sc = true -> shape_ok sc o = true -> from_dict_inst sc o (JObj kvs) = Ok m ->
  nth_error (fields_of sc o) i = Some f -> explicit_field f ->
  dict_lookup (fields_of sc o) kvs i = Some v -> singular_json v = true ->
  (forall g, fgroup f = Some g ->
     exists pre post, given_order (fields_of sc o) kvs = pre ++ i :: post /\
                      forall k, In k post -> in_group (get_class sc (ocls o)) g k = false) ->
  emitted_in sc m i f /\ is_set sc m i = true /\ value_not_none sc m i = true /\
  (forall g, fgroup f = Some g -> which_one_of m g = Some i) /\
  is_value (raw_at m i) /\ singular_value (raw_at m i).
Proof.
  intros W Sh Hm Hf He Hv Sv Hord. pose proof (inst_state_of _ _ _ _ W Sh Hm) as St.
  assert (R : exists x, value_from_json (recf sc) sc f v = Ok x /\ raw_at m i = marked sc x /\
                        forall g, fgroup f = Some g -> which_one_of m g = Some i).
  { destruct (fgroup f) as [g|] eqn:G.
    - destruct (Hord g eq_refl) as (pre & post & Ho & Hp).
      destruct (is_win _ _ _ _ St g i f pre post Hf G Ho Hp) as (Hw & v' & x & Hv' & V & Rx).
      rewrite Hv in Hv'. injection Hv' as <-. exists x. split; [exact V|]. split; [exact Rx|].
      intros g' E. injection E as <-. exact Hw.
    - pose proof (is_plain _ _ _ _ St i f Hf G) as P. rewrite Hv in P. destruct P as (x & V & Rx & _).
      exists x. split; [exact V|]. split; [exact Rx|]. intros g' E. discriminate. }
  destruct R as (x & V & Rx & Hsel).
  destruct (value_from_json_singular _ _ _ _ _ Sv V) as [Xv Xs].
  assert (Mv : is_value (raw_at m i)) by (rewrite Rx; apply marked_value; exact Xv).
  assert (Ms : singular_value (raw_at m i)) by (rewrite Rx; apply marked_singular; exact Xs).
  assert (Efs : fields_of sc m = fields_of sc o) by (unfold fields_of; rewrite (is_cls _ _ _ _ St); reflexivity).
  assert (Hfm : nth_error (fields_of sc m) i = Some f) by (rewrite Efs; exact Hf).
  assert (Hl : length (oraw m) = length (fields_of sc m)) by (rewrite Efs; apply (is_len _ _ _ _ St)).
  destruct (state_emitted sc m i f W Hfm Hl He Mv Ms Hsel) as (A & B & C).
  split; [exact A|]. split; [exact B|]. split; [exact C|]. split; [exact Hsel|]. split; [exact Mv|exact Ms].
Qed.

(* an ungrouped field the mapping does not give is left exactly as it was *)
Lemma ungrouped_same sc o m i f :
  ocls m = ocls o -> nth_error (fields_of sc o) i = Some f -> fgroup f = None -> raw_at m i = raw_at o i ->
  here sc (ocur m) i (raw_at m i) f = here sc (ocur o) i (raw_at o i) f /\
  is_set sc m i = is_set sc o i /\ read sc m i = read sc o i /\ value_not_none sc m i = value_not_none sc o i /\
  child_on_wire m i = child_on_wire o i.
Proof.
  intros Ec Hf G Hr.
  assert (Rd : read sc m i = read sc o i).
  { destruct m as [c1 r1 s1 u1 g1], o as [c0 r0 s0 u0 g0]. unfold fields_of, raw_at, read, getattr in *.
    cbn [ocls oraw] in *. subst c1. rewrite Hf. unfold group_selects. rewrite G, Hr.
    destruct (nth i r0 PPlaceholder); reflexivity. }
  split; [|split; [|split; [|split]]].
  - rewrite Hr. unfold here, group_selects. rewrite G. reflexivity.
  - unfold is_set, field_at. rewrite Ec, Hr. reflexivity.
  - exact Rd.
  - unfold value_not_none. rewrite Rd. reflexivity.
  - unfold child_on_wire. rewrite Hr. reflexivity.
Qed.

Theorem absent_from_dict_inst sc o kvs m i f :
  wf_schema sc = true -> shape_ok sc o = true -> from_dict_inst sc o (JObj kvs) = Ok m ->
  nth_error (fields_of sc o) i = Some f -> fgroup f = None ->
  dict_lookup (fields_of sc o) kvs i = None ->
  raw_at m i = raw_at o i /\
  here sc (ocur m) i (raw_at m i) f = here sc (ocur o) i (raw_at o i) f /\
  is_set sc m i = is_set sc o i /\ read sc m i = read sc o i /\ value_not_none sc m i = value_not_none sc o i /\
  child_on_wire m i = child_on_wire o i.
Proof.
  intros W Sh Hm Hf G Hv. pose proof (inst_state_of _ _ _ _ W Sh Hm) as St.
  pose proof (is_plain _ _ _ _ St i f Hf G) as P. rewrite Hv in P. split; [exact P|].
  apply ungrouped_same; try assumption. apply (is_cls _ _ _ _ St).
Qed.

(* a group of which the mapping gives no member keeps its selection and its members *)
Theorem no_member_from_dict_inst sc o kvs m g :
  wf_schema sc = true -> shape_ok sc o = true -> from_dict_inst sc o (JObj kvs) = Ok m ->
  (forall k, In k (given_order (fields_of sc o) kvs) -> in_group (get_class sc (ocls o)) g k = false) ->
  which_one_of m g = which_one_of o g /\
  forall i f, nth_error (fields_of sc o) i = Some f -> fgroup f = Some g -> raw_at m i = raw_at o i.
Proof.
  intros W Sh Hm Hnone. pose proof (inst_state_of _ _ _ _ W Sh Hm) as St. apply (is_keep _ _ _ _ St). exact Hnone.
Qed.

(* on a fresh object: a field the mapping does not give stays unset and contributes nothing *)
Lemma new_raw_at sc c i f : nth_error (cfields (get_class sc c)) i = Some f -> raw_at (new sc c) i = sentinel_of f.
Proof.
  intros Hf. unfold raw_at, new. cbn [oraw]. apply nth_error_nth. rewrite nth_error_map, Hf. reflexivity.
Qed.

Lemma new_shape sc c : shape_ok sc (new sc c) = true.
Proof.
  apply shape_ok_spec. unfold new, fields_of. cbn [oraw ocur ocls]. rewrite map_length, repeat_length. auto.
Qed.

Lemma group_sentinel sc c f g :
  wf_schema sc = true -> In f (cfields (get_class sc c)) -> fgroup f = Some g -> sentinel_of f = PPlaceholder.
Proof.
  intros W I G. pose proof (wf_field_of sc c f W I) as Wf.
  destruct (wf_group_plain _ _ _ _ Wf G) as (p & Hp). unfold wf_field in Wf. rewrite Hp in Wf.
  unfold sentinel_of. destruct (fopt f); [|reflexivity]. cbn [negb] in Wf. rewrite ?andb_false_r, ?andb_false_l in Wf.
  repeat (apply andb_prop in Wf as [Wf ?]); discriminate.
Qed.

Theorem absent_from_dict_fresh sc c kvs m i f :
  wf_schema sc = true -> from_dict_inst sc (new sc c) (JObj kvs) = Ok m ->
  nth_error (cfields (get_class sc c)) i = Some f -> explicit_field f ->
  dict_lookup (cfields (get_class sc c)) kvs i = None ->
  here sc (ocur m) i (raw_at m i) f = Ok [] /\ is_set sc m i = false /\
  (optional_like f -> value_not_none sc m i = false) /\
  (forall g, fgroup f = Some g -> which_one_of m g <> Some i).
Proof.
  intros W Hm Hf He Hv. pose proof (inst_state_of _ _ _ _ W (new_shape sc c) Hm) as St.
  change (fields_of sc (new sc c)) with (cfields (get_class sc c)) in *. change (ocls (new sc c)) with c in *.
  assert (Hfm : nth_error (fields_of sc m) i = Some f) by (unfold fields_of; rewrite (is_cls _ _ _ _ St); exact Hf).
  destruct (is_untouched _ _ _ _ St i Hv) as [U Hw0].
  assert (Hsel : forall g, fgroup f = Some g -> which_one_of m g <> Some i).
  { intros g G Hw. specialize (Hw0 g Hw). unfold which_one_of, new in Hw0. cbn [ocur] in Hw0.
    rewrite nth_repeat_none in Hw0. discriminate. }
  assert (R : raw_at m i = sentinel_of f).
  { rewrite (new_raw_at sc c i f Hf) in U. destruct U as [U|U]; [exact U|].
    destruct (fgroup f) as [g|] eqn:G.
    - rewrite (group_sentinel sc c f g W (nth_error_In _ _ Hf) G). exact U.
    - pose proof (is_plain _ _ _ _ St i f Hf G) as P.
      change (fields_of sc (new sc c)) with (cfields (get_class sc c)) in P. rewrite Hv in P. rewrite P. apply new_raw_at. exact Hf. }
  destruct (state_unset sc m i f W Hfm He R Hsel) as (A & B & C). auto.
Qed.

(* ---- the flag ---- *)
Theorem flag_from_dict_inst sc o j m : from_dict_inst sc o j = Ok m -> osow m = true.
Proof.
  unfold from_dict_inst. destruct (from_dict_init sc (ocls o) j) as [kw|]; cbn [bind]; [|discriminate].
  intros H. injection H as <-.
  assert (G : forall kw o', osow o' = true -> osow (fold_left (fun o' iv => setattr sc o' (fst iv) (snd iv)) kw o') = true).
  { induction kw0 as [|iv kw0 IH]; intros o' Hs; [exact Hs|]. cbn [fold_left]. apply IH. apply setattr_sow_mono. exact Hs. }
  apply G. apply set_sow_fields.
Qed.

Theorem child_from_dict_inst sc o kvs m i f v :
  wf_schema sc = true -> shape_ok sc o = true -> from_dict_inst sc o (JObj kvs) = Ok m ->
  nth_error (fields_of sc o) i = Some f -> plain_msg f ->
  dict_lookup (fields_of sc o) kvs i = Some v -> singular_json v = true ->
  child_on_wire m i = true /\
  forall all, enc_obj sc m = Ok all ->
    exists pre h post, all = pre ++ h ++ post /\ here sc (ocur m) i (raw_at m i) f = Ok h /\
                       starts_with_tag (fnum f) 2 h.
Proof.
  intros W Sh Hm Hf (Hp & c' & Hc') Hv Sv. pose proof (inst_state_of _ _ _ _ W Sh Hm) as St.
  pose proof Hp as (G & Ho & Hw & Ht).
  pose proof (is_plain _ _ _ _ St i f Hf G) as R. rewrite Hv in R. destruct R as (x & V & Rx & _).
  destruct (value_from_json_msg sc f c' v x Ht Hw Hc' Sv V) as (ch & -> & Hs & _).
  destruct (marked_msg_flag sc ch) as (ch' & E & Hs'). rewrite E in Rx.
  assert (Efs : fields_of sc m = fields_of sc o) by (unfold fields_of; rewrite (is_cls _ _ _ _ St); reflexivity).
  assert (Hfm : nth_error (fields_of sc m) i = Some f) by (rewrite Efs; exact Hf).
  assert (Hl : length (oraw m) = length (fields_of sc m)) by (rewrite Efs; apply (is_len _ _ _ _ St)).
  exact (state_child_given sc m i f ch' W Hfm Hl Hp Rx (Hs' Hs)).
Qed.

(* ---- implicit presence ---- *)
Theorem implicit_skip_from_dict_inst sc o kvs m i f v x :
  wf_schema sc = true -> shape_ok sc o = true -> from_dict_inst sc o (JObj kvs) = Ok m ->
  nth_error (fields_of sc o) i = Some f -> implicit_field f ->
  dict_lookup (fields_of sc o) kvs i = Some v ->
  value_from_json (recf sc) sc f v = Ok x -> is_default sc f x = true ->
  raw_at m i = x /\ here sc (ocur m) i (raw_at m i) f = Ok [] /\
  enc_obj sc m = enc_obj sc (set_raw m i PPlaceholder).
Proof.
  intros W Sh Hm Hf Hi Hv V Hd. pose proof (inst_state_of _ _ _ _ W Sh Hm) as St.
  pose proof Hi as (G & _).
  pose proof (is_plain _ _ _ _ St i f Hf G) as R. rewrite Hv in R. destruct R as (x' & V' & Rx & _).
  rewrite V in V'. injection V' as <-.
  rewrite marked_scalar in Rx by (eapply implicit_default_not_msg; eassumption).
  split; [exact Rx|].
  pose proof (is_cls _ _ _ _ St) as Ec. pose proof (is_len _ _ _ _ St) as Hl.
  destruct m as [c0 raw sow unk cur]. cbn [ocls] in Ec. unfold fields_of in *. rewrite <- Ec in *.
  unfold raw_at in *. cbn [oraw ocur set_raw] in *.
  assert (Hx : nth_error raw i = Some x).
  { rewrite <- Rx. apply nth_error_of_nth. rewrite Hl. eapply nth_error_lt. exact Hf. }
  destruct (implicit_skip sc c0 raw sow unk cur i f x Hf Hx Hi Hd) as [A B].
  rewrite Rx. split; assumption.
Qed.

(* ---- a sequence of attribute assignments on any object (way 2 in combination; the instance form of from_dict is
        this after raising the flag): the field's last assigned value is emitted provided no member of its group is
        assigned after the field's last assignment ---- *)
Theorem emit_after_setattrs sc o kw i f x :
  wf_schema sc = true -> shape_ok sc o = true ->
  nth_error (fields_of sc o) i = Some f -> explicit_field f ->
  kw_get i kw = Some x -> is_value x -> singular_value x ->
  (forall g, fgroup f = Some g ->
     exists pre post, map fst kw = pre ++ i :: post /\
                      forall k, In k post -> in_group (get_class sc (ocls o)) g k = false) ->
  let m := fold_left (inst_step sc) kw o in
  emitted_in sc m i f /\ is_set sc m i = true /\ value_not_none sc m i = true /\
  (forall g, fgroup f = Some g -> which_one_of m g = Some i).
Proof.
  intros W Sh Hf He Hx Hv Hs Hord m. apply shape_ok_spec in Sh as [Hl Hc].
  pose proof (inst_fold_inv sc o W Hl Hc kw) as I. fold m in I.
  assert (R : raw_at m i = marked sc x /\ forall g, fgroup f = Some g -> which_one_of m g = Some i).
  { destruct (fgroup f) as [g|] eqn:G.
    - destruct (Hord g eq_refl) as (pre & post & Ho & Hp).
      assert (Hin : in_group (get_class sc (ocls o)) g i = true).
      { unfold fields_of in Hf. rewrite (in_group_field sc (ocls o) g i f Hf), G. apply opt_nat_eqb_refl. }
      assert (Hlast : last_in_group (get_class sc (ocls o)) g (map fst kw) = Some i)
        by (rewrite Ho; apply last_in_group_split; assumption).
      destruct (ii_member _ _ _ _ I g i f Hf G Hlast) as (x' & Gx & Rx). rewrite Hx in Gx. injection Gx as <-.
      split; [exact Rx|]. intros g' E. injection E as <-. unfold which_one_of. rewrite (ii_cur _ _ _ _ I g), Hlast. reflexivity.
    - pose proof (ii_plain _ _ _ _ I i f Hf G) as P. rewrite Hx in P. split; [exact P|]. intros g' E. discriminate. }
  destruct R as [Rx Hsel].
  assert (Mv : is_value (raw_at m i)) by (rewrite Rx; apply marked_value; exact Hv).
  assert (Ms : singular_value (raw_at m i)) by (rewrite Rx; apply marked_singular; exact Hs).
  assert (Efs : fields_of sc m = fields_of sc o) by (unfold fields_of; rewrite (ii_cls _ _ _ _ I); reflexivity).
  assert (Hfm : nth_error (fields_of sc m) i = Some f) by (rewrite Efs; exact Hf).
  assert (Hlm : length (oraw m) = length (fields_of sc m)) by (rewrite Efs, (ii_len _ _ _ _ I); exact Hl).
  destruct (state_emitted sc m i f W Hfm Hlm He Mv Ms Hsel) as (A & B & C). auto.
Qed.
