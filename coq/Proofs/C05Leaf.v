(* C05, leaves of the specification: every canonical leaf form json_spec writes is taken back by
   json_accepts as the same value (integers as numbers / decimal strings, base64, the three float
   strings, Duration and Timestamp strings at microsecond resolution).
   Uses the decimal / duration lemmas of Proofs/TimeP.v (C15) and the calendar fact of
   Proofs/C04CalSweepP.v (C04: civil_of_days / days_of_civil are inverse over the years 1..9999). *)
From BP Require Import Base.Prelude Model.Float Spec.Time Spec.JsonMap.
From BP Require Proofs.TimeP Model.Json Proofs.C04CalP Proofs.C04CalSweepP.
From Coq Require Import Lia ZifyBool.
Ltac Zify.zify_post_hook ::= Z.to_euclidean_division_equations.

(* ====================================================================================== *)
(* integers                                                                                *)
(* ====================================================================================== *)
Lemma Forall_forallb {A} (p : A -> bool) l : Forall (fun x => p x = true) l -> forallb p l = true.
Proof. induction 1 as [|x r Hx _ IH]; [reflexivity|]. cbn [forallb]. rewrite Hx, IH. reflexivity. Qed.

Lemma all_digits_dec n : 0 <= n -> all_digits (dec n) = true.
Proof.
  intros H. unfold all_digits. rewrite TimeP.is_nil_dec. cbn [negb andb].
  apply Forall_forallb, TimeP.dec_digits, H.
Qed.

Lemma parse_int_int_str z : parse_int (int_str z) = Some z.
Proof.
  unfold int_str, parse_int. destruct (z <? 0) eqn:E.
  - change (Byte.eqb cMINUS cMINUS) with true. cbv iota. rewrite all_digits_dec by lia.
    rewrite TimeP.dval_dec by lia. f_equal. lia.
  - assert (Hz : 0 <= z) by lia.
    pose proof (TimeP.dec_digits z Hz) as Hd. pose proof (TimeP.dec_nonempty z) as Hn.
    pose proof (all_digits_dec z Hz) as Ha. pose proof (TimeP.dval_dec z Hz) as Hv.
    destruct (dec z) as [|b l] eqn:D; [congruence|].
    apply Forall_inv in Hd.
    rewrite (TimeP.digit_not b cMINUS Hd) by reflexivity. rewrite Ha, Hv. reflexivity.
Qed.

(* ====================================================================================== *)
(* base64                                                                                  *)
(* ====================================================================================== *)
Lemma b64_val_char i : 0 <= i < 64 -> b64_val (b64_char i) = Some i.
Proof.
  intros H. assert (C : forallb (fun i => match b64_val (b64_char i) with Some j => j =? i | None => false end)
                                 (map Z.of_nat (seq 0 64)) = true) by (vm_compute; reflexivity).
  rewrite forallb_forall in C. specialize (C i).
  assert (I : In i (map Z.of_nat (seq 0 64))).
  { apply in_map_iff. exists (Z.to_nat i). split; [lia|]. apply in_seq. lia. }
  specialize (C I). destruct (b64_val (b64_char i)); [f_equal; lia|discriminate C].
Qed.
Lemma b64_char_not_eq i : 0 <= i < 64 -> Byte.eqb (b64_char i) c_eq = false.
Proof.
  intros H. assert (C : forallb (fun i => negb (Byte.eqb (b64_char i) c_eq)) (map Z.of_nat (seq 0 64)) = true)
    by (vm_compute; reflexivity).
  rewrite forallb_forall in C. specialize (C i).
  assert (I : In i (map Z.of_nat (seq 0 64))).
  { apply in_map_iff. exists (Z.to_nat i). split; [lia|]. apply in_seq. lia. }
  specialize (C I). destruct (Byte.eqb (b64_char i) c_eq); [discriminate C|reflexivity].
Qed.

(* the sextets and the padding of the encoding *)
Fixpoint enc_vals (l : list byte) : list Z :=
  match l with
  | [] => []
  | [a] => let a := Z_of_byte a in [a / 4; (a mod 4) * 16]
  | [a; b] => let a := Z_of_byte a in let b := Z_of_byte b in [a / 4; (a mod 4) * 16 + b / 16; (b mod 16) * 4]
  | a :: b :: c :: r =>
      let a := Z_of_byte a in let b := Z_of_byte b in let c := Z_of_byte c in
      a / 4 :: (a mod 4) * 16 + b / 16 :: (b mod 16) * 4 + c / 64 :: c mod 64 :: enc_vals r
  end.
Fixpoint enc_pad (l : list byte) : list byte :=
  match l with
  | [] => []
  | [_] => [c_eq; c_eq]
  | [_; _] => [c_eq]
  | _ :: _ :: _ :: r => enc_pad r
  end.

Lemma list_ind3 {A} (P : list A -> Prop) :
  P [] -> (forall a, P [a]) -> (forall a b, P [a; b]) -> (forall a b c r, P r -> P (a :: b :: c :: r)) -> forall l, P l.
Proof.
  intros H0 H1 H2 H3.
  assert (G : forall n l, (length l <= n)%nat -> P l).
  { induction n as [|n IH]; intros l Hl.
    - destruct l; [exact H0|cbn in Hl; lia].
    - destruct l as [|a [|b [|c r]]]; auto. apply H3, IH. cbn [length] in Hl. lia. }
  intros l. apply (G (length l)). lia.
Qed.

Lemma byte_range a : 0 <= Z_of_byte a < 256.
Proof. unfold Z_of_byte. pose proof (Byte.to_N_bounded a). lia. Qed.

Lemma b64_encode_split l : b64_encode l = map b64_char (enc_vals l) ++ enc_pad l.
Proof.
  induction l as [|a|a b|a b c r IH] using list_ind3; try reflexivity.
  cbn [b64_encode enc_vals enc_pad map app]. rewrite IH. reflexivity.
Qed.
Lemma enc_vals_range l : Forall (fun v => 0 <= v < 64) (enc_vals l).
Proof.
  induction l as [|a|a b|a b c r IH] using list_ind3; cbn [enc_vals].
  - constructor.
  - pose proof (byte_range a). repeat constructor; lia.
  - pose proof (byte_range a). pose proof (byte_range b). repeat constructor; lia.
  - pose proof (byte_range a). pose proof (byte_range b). pose proof (byte_range c).
    repeat (constructor; [lia|]). exact IH.
Qed.
Lemma enc_pad_all_eq l : Forall (fun c => Byte.eqb c c_eq = true) (enc_pad l).
Proof. induction l as [|a|a b|a b c r IH] using list_ind3; cbn [enc_pad]; repeat constructor; exact IH. Qed.

Lemma strip_eq_rev_eqs q x : Forall (fun c => Byte.eqb c c_eq = true) q ->
  strip_eq_rev (q ++ x) = strip_eq_rev x.
Proof. induction 1 as [|c q Hc _ IH]; [reflexivity|]. cbn [app strip_eq_rev]. rewrite Hc. exact IH. Qed.
Lemma strip_eq_rev_pad p x : Forall (fun c => Byte.eqb c c_eq = true) p ->
  strip_eq_rev (rev p ++ x) = strip_eq_rev x.
Proof. intros H. apply strip_eq_rev_eqs, Forall_rev, H. Qed.

Lemma strip_eq_rev_chars vs : Forall (fun v => 0 <= v < 64) vs ->
  strip_eq_rev (rev (map b64_char vs)) = rev (map b64_char vs).
Proof.
  intros H. destruct (rev (map b64_char vs)) as [|c r] eqn:E; [reflexivity|].
  cbn [strip_eq_rev]. assert (I : In c (map b64_char vs)).
  { apply in_rev. rewrite E. left. reflexivity. }
  apply in_map_iff in I. destruct I as (v & <- & Iv). rewrite Forall_forall in H.
  rewrite b64_char_not_eq by (apply H, Iv). reflexivity.
Qed.

Lemma all_some_vals vs : Forall (fun v => 0 <= v < 64) vs -> all_some (map b64_val (map b64_char vs)) = Some vs.
Proof.
  induction 1 as [|v r Hv _ IH]; [reflexivity|]. cbn [map all_some]. rewrite b64_val_char by exact Hv.
  rewrite IH. reflexivity.
Qed.

Lemma byte_of_Z_of_byte a x : x = Z_of_byte a -> byte_of_Z x = a.
Proof.
  intros ->. unfold byte_of_Z, Z_of_byte. rewrite N2Z.id, Byte.of_to_N. reflexivity.
Qed.

Lemma b64_groups_enc l : b64_groups (enc_vals l) = Some l.
Proof.
  induction l as [|a|a b|a b c r IH] using list_ind3; cbn [enc_vals b64_groups].
  - reflexivity.
  - pose proof (byte_range a). f_equal. f_equal. apply byte_of_Z_of_byte. lia.
  - pose proof (byte_range a). pose proof (byte_range b). f_equal. f_equal; [|f_equal]; apply byte_of_Z_of_byte; lia.
  - pose proof (byte_range a). pose proof (byte_range b). pose proof (byte_range c).
    cbn zeta. rewrite IH. f_equal. f_equal; [|f_equal; [|f_equal]]; apply byte_of_Z_of_byte; lia.
Qed.

Theorem b64_decode_encode l : b64_decode (b64_encode l) = Some l.
Proof.
  unfold b64_decode. rewrite b64_encode_split, rev_app_distr.
  rewrite strip_eq_rev_pad by apply enc_pad_all_eq.
  rewrite strip_eq_rev_chars by apply enc_vals_range. rewrite rev_involutive.
  rewrite all_some_vals by apply enc_vals_range. apply b64_groups_enc.
Qed.

(* ====================================================================================== *)
(* scalars: what json_spec writes for a well-formed scalar, json_accepts reads back        *)
(* ====================================================================================== *)
(* NaN is the one NaN of JSON ("NaN" carries no payload); a `float` field holds a binary32 value *)
Definition wf_float (b : Z) : bool :=
  (f64_is_nan b && (b =? nan_bits)) || f64_finite b || (b =? f64_pos_inf) || (b =? f64_neg_inf).
Definition f32_exact (b : Z) : bool :=
  if f64_finite b then match to_f32 b with Some r => r =? b | None => false end else true.
Definition wf_scalar (k : skind) (v : aval) : bool :=
  match k, v with
  | KBool, ABool _ | KString, AStr _ | KBytes, ABytes _ => true
  | KDouble, AFloat b => wf_float b
  | KFloat, AFloat b => wf_float b && f32_exact b
  | (KBool | KString | KBytes | KDouble | KFloat), _ => false
  | _, AInt z => in_int_range k z
  | _, _ => false
  end.

Lemma finite_not_nan b : f64_finite b = true -> f64_is_nan b = false.
Proof. unfold f64_finite, f64_is_nan. destruct (f64_exp b =? 2047); [discriminate|reflexivity]. Qed.
Lemma finite_not_pos_inf b : f64_finite b = true -> (b =? f64_pos_inf) = false.
Proof. intros H. destruct (b =? f64_pos_inf) eqn:E; [|reflexivity]. apply Z.eqb_eq in E. subst. discriminate H. Qed.
Lemma finite_not_neg_inf b : f64_finite b = true -> (b =? f64_neg_inf) = false.
Proof. intros H. destruct (b =? f64_neg_inf) eqn:E; [|reflexivity]. apply Z.eqb_eq in E. subst. discriminate H. Qed.

Lemma float_cases b : wf_float b = true ->
  (b = nan_bits) \/ (f64_finite b = true) \/ (b = f64_pos_inf) \/ (b = f64_neg_inf).
Proof.
  unfold wf_float. rewrite !orb_true_iff, andb_true_iff, !Z.eqb_eq. intuition.
Qed.

Theorem spec_scalar_accepted k v : wf_scalar k v = true ->
  exists j, spec_scalar k v = Some j /\ acc_scalar k j = Some v.
Proof.
  intros W.
  destruct k, v; try discriminate W; cbn [wf_scalar] in W;
    try (eexists; split; [reflexivity|]; cbn [acc_scalar is64];
         rewrite ?parse_int_int_str, ?W; reflexivity).
  - (* double *)
    destruct (float_cases bits W) as [ -> | [F | [ -> | -> ]]]; try (eexists; split; reflexivity).
    eexists. split. { cbn [spec_scalar]. rewrite (finite_not_nan _ F), (finite_not_pos_inf _ F), (finite_not_neg_inf _ F). reflexivity. }
    cbn [acc_scalar]. rewrite F. reflexivity.
  - (* float *)
    apply andb_true_iff in W. destruct W as [W X].
    destruct (float_cases bits W) as [ -> | [F | [ -> | -> ]]]; try (eexists; split; reflexivity).
    eexists. split. { cbn [spec_scalar]. rewrite (finite_not_nan _ F), (finite_not_pos_inf _ F), (finite_not_neg_inf _ F). reflexivity. }
    cbn [acc_scalar]. rewrite F. unfold f32_exact in X. rewrite F in X.
    destruct (to_f32 bits) as [r|]; [|discriminate X]. apply Z.eqb_eq in X. subst. reflexivity.
  - (* bytes *)
    eexists. split; [reflexivity|]. cbn [acc_scalar]. rewrite b64_decode_encode. reflexivity.
Qed.

(* map keys *)
Definition wf_key (k : skind) (v : aval) : bool :=
  match k, v with
  | KString, AStr _ | KBool, ABool _ => true
  | (KString | KBool | KBytes | KDouble | KFloat), _ => false
  | _, AInt z => in_int_range k z
  | _, _ => false
  end.
Theorem spec_key_accepted k v : wf_key k v = true ->
  exists s, key_str k v = Some s /\ acc_key k s = Some v.
Proof.
  intros W. destruct k, v; try discriminate W; cbn [wf_key] in W;
    try (eexists; split; [reflexivity|]; cbn [acc_key]; rewrite ?parse_int_int_str, ?W; reflexivity).
  destruct b; eexists; split; reflexivity.
Qed.

(* ====================================================================================== *)
(* Duration, microsecond resolution                                                        *)
(* ====================================================================================== *)
Lemma dur_json_whole s : dur_parse (dur_json s 0) = Some (s, 0).
Proof.
  unfold dur_json, frac. change (Z.abs 0 mod 1000000000 =? 0) with true. cbv iota. cbn [app].
  replace ((s <? 0) || (0 <? 0)) with (s <? 0) by lia.
  assert (B : forall neg, dur_parse_unsigned neg (dec (Z.abs s) ++ [cS]) = Some ((if neg then -1 else 1) * Z.abs s, 0)).
  { intros neg. unfold dur_parse_unsigned.
    rewrite TimeP.span_digits_app by (try apply TimeP.dec_digits; try lia; reflexivity).
    rewrite TimeP.is_nil_dec. change (Byte.eqb cS cS) with true. cbn [is_nil]. rewrite TimeP.dval_dec by lia. reflexivity. }
  destruct (s <? 0) eqn:E.
  - cbn [app]. unfold dur_parse. change (Byte.eqb cMINUS cMINUS) with true. cbv iota. rewrite B. f_equal. f_equal. lia.
  - cbn [app]. unfold dur_parse.
    pose proof (TimeP.dec_digits (Z.abs s) ltac:(lia)) as Hd. pose proof (TimeP.dec_nonempty (Z.abs s)) as Hn.
    pose proof (B false) as B'.
    destruct (dec (Z.abs s)) as [|b l] eqn:D; [congruence|]. apply Forall_inv in Hd. cbn [app].
    rewrite (TimeP.digit_not b cMINUS Hd) by reflexivity. cbn [app] in B'. rewrite B'. f_equal. f_equal. lia.
Qed.

Theorem spec_duration_accepted d :
  - (DUR_MAX_S * 1000000) <= d <= DUR_MAX_S * 1000000 ->
  let '(s, n) := dur_of_us d in
  dur_parse (dur_json s n) = Some (s, n) /\ dur_in_range s n = true.
Proof.
  intros R. unfold dur_of_us. split.
  - destruct (Z.eq_dec (d mod 1000000) 0) as [E|N].
    + replace (Z.rem d 1000000 * 1000) with 0 by lia. apply dur_json_whole.
    + pose proof (TimeP.delta_to_json_is_spec d N) as H. unfold dur_of_us in H. cbn [fst snd] in H.
      rewrite <- H. apply TimeP.dur_parse_delta_to_json.
  - unfold dur_in_range, DUR_MAX_S in *. lia.
Qed.

(* ====================================================================================== *)
(* Timestamp, microsecond resolution                                                       *)
(* ====================================================================================== *)
Lemma civil_same z : civil_from_days z = Json.civil_of_days z.
Proof.
  unfold civil_from_days, Json.civil_of_days.
  replace ((z + 719468) mod 146097) with (z + 719468 - (z + 719468) / 146097 * 146097) by lia.
  set (doe := z + 719468 - (z + 719468) / 146097 * 146097).
  set (yoe := (doe - doe / 1460 + doe / 36524 - doe / 146096) / 365).
  set (mp := (5 * (doe - (365 * yoe + yoe / 4 - yoe / 100)) + 2) / 153).
  destruct (mp <? 10); cbv zeta; destruct (_ <=? 2); f_equal; f_equal; lia.
Qed.
Lemma days_same y m d : days_from_civil y m d = Json.days_of_civil y m d.
Proof.
  unfold days_from_civil, Json.days_of_civil. cbv zeta.
  set (y' := if m <=? 2 then y - 1 else y). replace (y' mod 400) with (y' - y' / 400 * 400) by lia. reflexivity.
Qed.

Lemma take_digits_pad k n rest : 0 <= n -> take_digits k (pad k n ++ rest) = Some (n mod 10 ^ Z.of_nat k, rest).
Proof.
  intros H. unfold take_digits.
  rewrite firstn_app, TimeP.pad_length, Nat.sub_diag, firstn_O, app_nil_r.
  rewrite firstn_all2 by (rewrite TimeP.pad_length; lia).
  rewrite TimeP.pad_length, Nat.eqb_refl. cbn [andb].
  rewrite (Forall_forallb _ _ (TimeP.pad_digits k n)).
  rewrite skipn_app, TimeP.pad_length, Nat.sub_diag, skipn_O.
  rewrite skipn_all2 by (rewrite TimeP.pad_length; lia). cbn [app].
  rewrite TimeP.dval_pad by exact H. reflexivity.
Qed.

Lemma expect_cons c r : expect c (c :: r) = Some r.
Proof. unfold expect. assert (E : Byte.eqb c c = true) by (apply Byte.byte_dec_lb; reflexivity). rewrite E. reflexivity. Qed.

(* the fraction and the "Z" *)
Lemma ts_tail u : 0 <= u < 1000000 ->
  let r := frac (u * 1000) ++ [cZ] in
  (let '(nanos, r', ok) :=
     match r with
     | b :: r' =>
         if Byte.eqb b cDOT then
           let '(fp, r'') := span_digits r' in
           (dval fp * 10 ^ (9 - Z.of_nat (length fp)), r'', negb (is_nil fp) && (Z.of_nat (length fp) <=? 9))
         else (0, r, true)
     | [] => (0, r, true)
     end in (nanos, parse_offset r', ok)) = (u * 1000, Some 0, true).
Proof.
  intros Hu. cbv zeta. unfold frac.
  destruct (u * 1000 mod 1000000000 =? 0) eqn:E1.
  - cbn [app]. change (Byte.eqb cZ cDOT) with false. cbv iota. cbn. f_equal. f_equal. lia.
  - assert (Hz : is_digit cZ = false) by reflexivity.
    destruct (u * 1000 mod 1000000 =? 0) eqn:E2; [|replace (u * 1000 mod 1000 =? 0) with true by lia];
      cbn [app]; change (Byte.eqb cDOT cDOT) with true; cbv iota;
      rewrite TimeP.span_digits_app by (try apply TimeP.pad_digits; exact Hz);
      rewrite TimeP.is_nil_pad, TimeP.pad_length, TimeP.dval_pad by lia;
      cbn [negb andb parse_offset]; change (Byte.eqb cZ cZ) with true; cbn [is_nil].
    + change (10 ^ Z.of_nat 3) with 1000. change (10 ^ (9 - Z.of_nat 3)) with 1000000.
      replace ((u * 1000 / 1000000) mod 1000 * 1000000) with (u * 1000) by lia. reflexivity.
    + change (10 ^ Z.of_nat 6) with 1000000. change (10 ^ (9 - Z.of_nat 6)) with 1000.
      replace ((u * 1000 / 1000) mod 1000000 * 1000) with (u * 1000) by lia. reflexivity.
Qed.

Theorem spec_timestamp_accepted s u :
  TS_MIN_S <= s <= TS_MAX_S -> 0 <= u < 1000000 ->
  ts_parse (ts_str s (u * 1000)) = Some (s, u * 1000).
Proof.
  intros Rs Ru. unfold TS_MIN_S, TS_MAX_S in Rs.
  unfold ts_str, ts_json, cal_str.
  set (days := s / 86400). set (sod := s mod 86400).
  assert (Hd : C04CalP.day_min <= days <= C04CalP.day_max) by (unfold C04CalP.day_min, C04CalP.day_max, days; lia).
  pose proof (C04CalSweepP.cal_fact_holds days Hd) as C. unfold C04CalP.cal_ok in C.
  rewrite civil_same.
  destruct (Json.civil_of_days days) as [[y m] d] eqn:CD.
  assert (Hsod : 0 <= sod < 86400) by (unfold sod; lia).
  assert (Hdim : d <= 31).
  { unfold Json.days_in_month in C. destruct (m =? 2), (Json.is_leap y), ((m =? 4) || (m =? 6) || (m =? 9) || (m =? 11)); lia. }
  rewrite <- !app_assoc. unfold ts_parse.
  rewrite take_digits_pad by lia. cbn [app]. rewrite expect_cons.
  rewrite take_digits_pad by lia. cbn [app]. rewrite expect_cons.
  rewrite take_digits_pad by lia. cbn [app]. rewrite expect_cons.
  rewrite take_digits_pad by lia. cbn [app]. rewrite expect_cons.
  rewrite take_digits_pad by lia. cbn [app]. rewrite expect_cons.
  rewrite take_digits_pad by lia.
  change (10 ^ Z.of_nat 4) with 10000. change (10 ^ Z.of_nat 2) with 100.
  pose proof (ts_tail u Ru) as T. cbv zeta in T.
  destruct (match frac (u * 1000) ++ [cZ] with
            | [] => (0, frac (u * 1000) ++ [cZ], true)
            | b :: r' => _ end) as [[nanos r'] ok] eqn:TT.
  injection T as -> P ->. rewrite P.
  replace (y mod 10000) with y by lia. replace (m mod 100) with m by lia. replace (d mod 100) with d by lia.
  replace (sod / 3600 mod 100) with (sod / 3600) by lia.
  replace (sod / 60 mod 60 mod 100) with (sod / 60 mod 60) by lia.
  replace (sod mod 60 mod 100) with (sod mod 60) by lia.
  rewrite days_same. assert (DD : Json.days_of_civil y m d = days) by lia. rewrite DD, civil_same, CD.
  replace (true && (1 <=? m) && (m <=? 12) && (1 <=? d) && ((y =? y) && (m =? m) && (d =? d)) &&
           (sod / 3600 <? 24) && (sod / 60 mod 60 <? 60) && (sod mod 60 <? 60)) with true by lia.
  replace (days * 86400 + sod / 3600 * 3600 + sod / 60 mod 60 * 60 + sod mod 60 - 0) with s by (unfold days, sod; lia).
  unfold TS_MIN_S, TS_MAX_S.
  replace (true && (-62135596800 <=? s) && (s <=? 253402300799)) with true by lia.
  reflexivity.
Qed.
