(* C06, encoder side: bytes(m) is the concatenation of one contribution per field ([here]) and the
   unknown bytes; what the contribution of a field is in each presence class. *)
From BP Require Import Base.Prelude Model.Types Model.Varint Model.Scalar Model.Float.
From BP Require Import Model.Object Model.Eq Model.TimeCore Model.Encode Model.WellFormed Model.C06Obs.
From BP Require Import gen.Tables Spec.Varint Spec.C06Wire Proofs.BytesP Proofs.VarintP.

Lemma enc_obj_body sc c raw sow unk cur :
  enc_obj sc (Obj c raw sow unk cur) =
  (do b <- body sc cur 0 raw (cfields (get_class sc c)); Ok (b ++ unk)).
Proof.
  cbn [enc_obj].
  match goal with |- (do _ <- ?F O raw ?FS; _) = _ =>
    assert (H : forall r i l, F i r l = body sc cur i r l) end.
  { induction r as [|x r IH]; intros i l; [reflexivity|].
    destruct l as [|f l]; [reflexivity|].
    cbn [body]. rewrite <- IH. unfold here. reflexivity. }
  rewrite H. reflexivity.
Qed.

(* the contribution of field i is a contiguous segment of bytes(m) *)
Lemma body_split sc cur : forall raw fs i0 i x f bs,
  nth_error raw i = Some x -> nth_error fs i = Some f ->
  body sc cur i0 raw fs = Ok bs ->
  exists pre h post, here sc cur (i0 + i) x f = Ok h /\ bs = pre ++ h ++ post.
Proof.
  induction raw as [|y raw IH]; intros fs i0 i x f bs Hx Hf Hb; [destruct i; discriminate|].
  destruct fs as [|g fs]; [destruct i; discriminate|].
  cbn [body] in Hb.
  destruct (here sc cur i0 y g) as [h0|] eqn:Hh; cbn [bind] in Hb; [|discriminate].
  destruct (body sc cur (S i0) raw fs) as [rest|] eqn:Hr; cbn [bind] in Hb; [|discriminate].
  injection Hb as <-.
  destruct i as [|i].
  - cbn in Hx, Hf. injection Hx as <-. injection Hf as <-.
    exists [], h0, rest. rewrite Nat.add_0_r. split; [exact Hh|reflexivity].
  - cbn in Hx, Hf. destruct (IH fs (S i0) i x f rest Hx Hf Hr) as (pre & h & post & Hh' & ->).
    exists (h0 ++ pre), h, post. replace (i0 + S i)%nat with (S i0 + i)%nat by lia.
    split; [exact Hh'|]. rewrite <- app_assoc. reflexivity.
Qed.

Lemma enc_obj_split sc c raw sow unk cur i x f bs :
  nth_error raw i = Some x -> nth_error (cfields (get_class sc c)) i = Some f ->
  enc_obj sc (Obj c raw sow unk cur) = Ok bs ->
  exists pre h post, here sc cur i x f = Ok h /\ bs = pre ++ h ++ post.
Proof.
  intros Hx Hf H. rewrite enc_obj_body in H.
  destruct (body sc cur 0 raw (cfields (get_class sc c))) as [b|] eqn:Hb; cbn [bind] in H; [|discriminate].
  injection H as <-.
  destruct (body_split _ _ _ _ _ _ _ _ _ Hx Hf Hb) as (pre & h & post & Hh & ->).
  exists pre, h, (post ++ unk). split; [exact Hh|]. rewrite <- !app_assoc. reflexivity.
Qed.

(* replacing the value of one field by one with the same contribution does not change bytes(m) *)
Lemma body_set_nth sc cur x' : forall raw fs i0 i x f,
  nth_error raw i = Some x -> nth_error fs i = Some f ->
  here sc cur (i0 + i) x' f = here sc cur (i0 + i) x f ->
  body sc cur i0 (set_nth i x' raw) fs = body sc cur i0 raw fs.
Proof.
  induction raw as [|y raw IH]; intros fs i0 i x f Hx Hf He; [destruct i; discriminate|].
  destruct fs as [|g fs]; [destruct i; discriminate|].
  destruct i as [|i].
  - cbn in Hx, Hf. injection Hx as <-. injection Hf as <-. rewrite Nat.add_0_r in He.
    cbn [set_nth body]. rewrite He. reflexivity.
  - cbn in Hx, Hf. cbn [set_nth body]. replace (i0 + S i)%nat with (S i0 + i)%nat in He by lia.
    rewrite (IH fs (S i0) i x f Hx Hf He). reflexivity.
Qed.

(* ---- tags ---- *)
Lemma tag_value num wt : 0 <= num -> 0 <= wt < 8 -> Z.lor (Z.shiftl num 3) wt = num * 8 + wt.
Proof.
  intros Hn Hw. rewrite lor_disjoint_add; [rewrite Z.shiftl_mul_pow2 by lia; reflexivity|].
  apply Z.bits_inj'. intros n Hn'. rewrite Z.land_spec, Z.bits_0.
  destruct (Z.ltb_spec n 3).
  - rewrite Z.shiftl_spec_low by lia. reflexivity.
  - replace (Z.testbit wt n) with false; [apply andb_false_r|].
    symmetry. apply Z.bits_above_log2; [lia|].
    destruct (Z.eq_dec wt 0) as [->|]; [cbn; lia|].
    assert (Z.log2 wt < 3) by (apply Z.log2_lt_pow2; lia). lia.
Qed.

Lemma shiftl_3 num : Z.shiftl num 3 = num * 8.
Proof. rewrite Z.shiftl_mul_pow2 by lia. reflexivity. Qed.

(* the canonical tag of an in-range field number is a legal varint of its value *)
Lemma encode_tag num wt key :
  1 <= num < 2 ^ 29 -> 0 <= wt < 8 ->
  encode_varint (num * 8 + wt) = Ok key -> VarintRep (num * 8 + wt) key.
Proof.
  intros Hn Hw E.
  destruct (encode_in_range (num * 8 + wt) ltac:(lia)) as (bs & E' & (Sh & Va & _) & Le).
  rewrite E in E'. injection E' as <-.
  unfold wrap64 in Va. rewrite Z.mod_small in Va by lia.
  repeat split; assumption.
Qed.

Lemma starts_with_tag_nonempty num wt bs : starts_with_tag num wt bs -> bs <> [].
Proof.
  intros (tb & rest & (Sh & _) & ->). destruct tb; [cbn in Sh; tauto|discriminate].
Qed.

(* _serialize_single: whenever it writes anything, it writes the tag of (number, the wire type of the
   proto type) first; it writes something unless the type is length-delimited, the payload is empty
   and neither serialize_empty nor wraps is given *)
Lemma serialize_with_tag msg num t v se w bs :
  1 <= num < 2 ^ 29 ->
  serialize_with msg num t v se w = Ok bs ->
  (bs = [] /\ se = false /\ w = None /\ base_wire_type t = 2) \/
  starts_with_tag num (base_wire_type t) bs.
Proof.
  intros Hn H. unfold serialize_with in H.
  destruct (preprocess_with msg t w v) as [value|] eqn:Hp; cbn [bind] in H; [|discriminate].
  destruct (tmem t WIRE_VARINT_TYPES) eqn:T1.
  { right. rewrite shiftl_3 in H. replace (num * 8) with (num * 8 + 0) in H by lia.
    destruct (encode_varint (num * 8 + 0)) as [key|] eqn:E; cbn [bind] in H; [|discriminate].
    injection H as <-. exists key, value. split; [|reflexivity].
    replace (base_wire_type t) with 0 by (destruct t; vm_compute in T1; try discriminate; reflexivity).
    apply encode_tag; [lia|lia|exact E]. }
  destruct (tmem t WIRE_FIXED_32_TYPES) eqn:T2.
  { right. rewrite tag_value in H by lia.
    destruct (encode_varint (num * 8 + 5)) as [key|] eqn:E; cbn [bind] in H; [|discriminate].
    injection H as <-. exists key, value. split; [|reflexivity].
    replace (base_wire_type t) with 5 by (destruct t; vm_compute in T2; try discriminate; reflexivity).
    apply encode_tag; [lia|lia|exact E]. }
  destruct (tmem t WIRE_FIXED_64_TYPES) eqn:T3.
  { right. rewrite tag_value in H by lia.
    destruct (encode_varint (num * 8 + 1)) as [key|] eqn:E; cbn [bind] in H; [|discriminate].
    injection H as <-. exists key, value. split; [|reflexivity].
    replace (base_wire_type t) with 1 by (destruct t; vm_compute in T3; try discriminate; reflexivity).
    apply encode_tag; [lia|lia|exact E]. }
  destruct (tmem t WIRE_LEN_DELIM_TYPES) eqn:T4; [|discriminate].
  assert (Hb : base_wire_type t = 2)
    by (destruct t; vm_compute in T1, T2, T3, T4; try discriminate; reflexivity).
  destruct (negb (Zlength value =? 0) || se || match w with Some _ => true | None => false end) eqn:Hc.
  - right. rewrite tag_value in H by lia.
    destruct (encode_varint (num * 8 + 2)) as [key|] eqn:E; cbn [bind] in H; [|discriminate].
    destruct (encode_varint (Zlength value)) as [n|] eqn:En; cbn [bind] in H; [|discriminate].
    injection H as <-. exists key, (n ++ value). split; [|reflexivity].
    rewrite Hb. apply encode_tag; [lia|lia|exact E].
  - left. injection H as <-.
    apply orb_false_iff in Hc as [Hc Hw]. apply orb_false_iff in Hc as [_ Hse].
    repeat split; try assumption. destruct w; [discriminate|reflexivity].
Qed.

(* ---- implicit presence ---- *)
Lemma implicit_default_not_msg sc f v :
  implicit_field f -> is_default sc f v = true -> forall o, v <> PMsg o.
Proof.
  intros (_ & _ & t & Hh & Ht) Hd o ->. cbn [is_default] in Hd. rewrite Hh in Hd.
  destruct t; try discriminate. exact (Ht c eq_refl).
Qed.

Lemma is_default_not_sentinel sc f v t :
  fhint f = HPlain t -> is_default sc f v = true -> v <> PNone /\ v <> PPlaceholder.
Proof.
  intros Hh Hd. split; intros ->; destruct f; cbn in *; subst; cbn in Hd; destruct t; discriminate.
Qed.

Lemma here_implicit_default sc cur i x f :
  implicit_field f -> is_default sc f x = true -> here sc cur i x f = Ok [].
Proof.
  intros Hi Hd. pose proof (implicit_default_not_msg _ _ _ Hi Hd) as Hm.
  destruct Hi as (Hg & Ho & t & Hh & Ht).
  destruct (is_default_not_sentinel _ _ _ _ Hh Hd) as [Hn Hp].
  unfold here, group_selects. rewrite Hg.
  assert (E : emit_field (enc_obj sc) sc f None x = Ok []).
  { unfold emit_field. rewrite Hd, Hg, Ho. cbn [is_some orb].
    replace (match x with PMsg o => osow o | _ => false end) with false
      by (destruct x; try reflexivity; exfalso; eapply Hm; reflexivity).
    reflexivity. }
  destruct x; try exact E; congruence.
Qed.

Lemma default_of_is_default_scalar sc f t :
  fhint f = HPlain t -> (forall c, t <> PyMsg c) -> is_default sc f (default_of sc f) = true.
Proof.
  intros Hh Ht. unfold default_of. rewrite Hh.
  destruct t; cbn [is_default]; rewrite Hh; try reflexivity. exfalso. exact (Ht c eq_refl).
Qed.

Lemma here_implicit_placeholder sc cur i f :
  implicit_field f -> here sc cur i PPlaceholder f = Ok [].
Proof.
  intros Hi. pose proof Hi as (Hg & Ho & t & Hh & Ht).
  pose proof (default_of_is_default_scalar sc f t Hh Ht) as Hd.
  pose proof (implicit_default_not_msg _ _ _ Hi Hd) as Hm.
  unfold here, group_selects. rewrite Hg.
  assert (E : emit_field (fun _ => Ok []) sc f None (default_of sc f) = Ok []).
  { unfold emit_field. rewrite Hd, Hg, Ho. cbn [is_some orb].
    replace (match default_of sc f with PMsg o => osow o | _ => false end) with false
      by (destruct (default_of sc f); try reflexivity; exfalso; eapply Hm; reflexivity).
    reflexivity. }
  destruct (default_of sc f); try exact E; reflexivity.
Qed.

Theorem implicit_skip sc c raw sow unk cur i f x :
  nth_error (cfields (get_class sc c)) i = Some f -> nth_error raw i = Some x ->
  implicit_field f -> is_default sc f x = true ->
  here sc cur i x f = Ok [] /\
  enc_obj sc (Obj c raw sow unk cur) = enc_obj sc (Obj c (set_nth i PPlaceholder raw) sow unk cur).
Proof.
  intros Hf Hx Hi Hd. split; [apply here_implicit_default; assumption|].
  rewrite !enc_obj_body. f_equal.
  symmetry. apply (body_set_nth sc cur PPlaceholder raw _ O i x f Hx Hf).
  cbn [Nat.add]. rewrite (here_implicit_default sc cur i x f Hi Hd), (here_implicit_placeholder sc cur i f Hi). reflexivity.
Qed.

(* ---- explicit presence ---- *)
Lemma emit_field_forced enc sc f sel x bs :
  1 <= fnum f < 2 ^ 29 -> fmap f = None -> singular_value x ->
  (is_default sc f x = false \/ is_some (fgroup f) || fopt f = true) ->
  (is_some (fgroup f) || fopt f = true \/ fwraps f <> None) ->
  emit_field enc sc f sel x = Ok bs ->
  starts_with_tag (fnum f) (base_wire_type (fty f)) bs.
Proof.
  intros Hn Hmap Hl Hc Hforce H. unfold emit_field in H.
  match type of H with (if ?c then _ else _) = _ => assert (Ec : c = false) end.
  { destruct Hc as [-> | ->]; [reflexivity|]. cbn [orb negb]. apply andb_false_r. }
  rewrite Ec in H.
  assert (S : exists se, serialize_with (msg_bytes enc) (fnum f) (fty f) x se (fwraps f) = Ok bs /\
                         (is_some (fgroup f) || fopt f = true -> se = true)).
  { destruct x; try (eexists; split; [exact H|]; intros ->; apply orb_true_r).
    - exfalso. eapply Hl. reflexivity.
    - rewrite Hmap in H. discriminate. }
  destruct S as (se & S & Hse).
  destruct (serialize_with_tag _ _ _ _ _ _ _ Hn S) as [(_ & E1 & E2 & _)|T]; [|exact T].
  exfalso. destruct Hforce as [F|F]; [rewrite (Hse F) in E1; discriminate|exact (F E2)].
Qed.

Theorem explicit_emit_here sc cur i x f bs :
  1 <= fnum f < 2 ^ 29 -> fmap f = None ->
  explicit_kind cur i f -> is_value x -> singular_value x ->
  here sc cur i x f = Ok bs ->
  starts_with_tag (fnum f) (base_wire_type (fty f)) bs.
Proof.
  intros Hn Hmap Hk [Hnn Hnp] Hs H. unfold here in H.
  destruct Hk as [[Hg Hk]|Hsel].
  - unfold group_selects in H. rewrite Hg in H.
    assert (E : emit_field (enc_obj sc) sc f None x = Ok bs) by (destruct x; try exact H; congruence).
    clear H. destruct Hk as [Ho|(w & t & Hw & Hh)].
    + eapply emit_field_forced; try eassumption.
      * right. rewrite Ho. apply orb_true_r.
      * left. rewrite Ho. apply orb_true_r.
    + eapply emit_field_forced; try eassumption.
      * left. destruct x; cbn [is_default]; rewrite Hh; try reflexivity. congruence.
      * right. rewrite Hw. discriminate.
  - rewrite Hsel in H.
    assert (E : emit_field (enc_obj sc) sc f (Some true) x = Ok bs) by (destruct x; try exact H; congruence).
    assert (G : is_some (fgroup f) = true).
    { unfold group_selects in Hsel. destruct (fgroup f); [reflexivity|discriminate]. }
    eapply emit_field_forced; try eassumption.
    + right. rewrite G. reflexivity.
    + left. rewrite G. reflexivity.
Qed.

(* ---- plain sub-message fields ---- *)
Theorem submessage_here sc cur i ch f bs :
  1 <= fnum f < 2 ^ 29 -> plain_msg_field f ->
  here sc cur i (PMsg ch) f = Ok bs ->
  (osow ch = true -> starts_with_tag (fnum f) 2 bs) /\
  (osow ch = false -> is_default sc f (PMsg ch) = true -> bs = []).
Proof.
  intros Hn (Hg & Ho & Hw & Ht) H. unfold here, group_selects in H. rewrite Hg in H.
  unfold emit_field in H. rewrite Hg, Ho, Hw, Ht in H. cbn [is_some orb] in H.
  rewrite !orb_false_r in H. split.
  - intros Hs. rewrite Hs in H. rewrite andb_false_r in H.
    destruct (serialize_with_tag _ _ _ _ _ _ _ Hn H) as [(_ & E & _)|T]; [discriminate|exact T].
  - intros Hs Hd. rewrite Hs, Hd in H. cbn in H. injection H as <-. reflexivity.
Qed.

(* with a flag that is consistent (a child whose flag is down is a default message: true of every
   object built by the constructor, by assignment or by parse; false after an assignment through a
   lazily created intermediate, K12) the field is emitted exactly when serialized_on_wire says so *)
Corollary submessage_iff sc cur i ch f bs :
  1 <= fnum f < 2 ^ 29 -> plain_msg_field f ->
  (osow ch = false -> is_default sc f (PMsg ch) = true) ->
  here sc cur i (PMsg ch) f = Ok bs ->
  (bs <> [] <-> osow ch = true).
Proof.
  intros Hn Hp Hc H. destruct (submessage_here _ _ _ _ _ _ Hn Hp H) as [A B]. split.
  - intros Hne. destruct (osow ch) eqn:S; [reflexivity|]. exfalso. apply Hne. apply B; auto.
  - intros S. eapply starts_with_tag_nonempty. apply A. exact S.
Qed.

(* ---- a fresh message ---- *)
Definition opt_hinted (sc : schema) : Prop :=
  forall c f, In f (cfields (get_class sc c)) -> fopt f = true -> exists t, fhint f = HOptional t.

Lemma get_class_in sc c f : In f (cfields (get_class sc c)) -> In (get_class sc c) (classes sc).
Proof.
  unfold get_class. intros H. destruct (nth_in_or_default c (classes sc) empty_class) as [I|E]; [exact I|].
  rewrite E in H. destruct H.
Qed.

Lemma wf_field_of sc c f :
  wf_schema sc = true -> In f (cfields (get_class sc c)) ->
  wf_field sc (cngroups (get_class sc c)) f = true.
Proof.
  intros W I. pose proof (get_class_in _ _ _ I) as Ic.
  unfold wf_schema in W. apply andb_prop in W as [_ W].
  rewrite forallb_forall in W. specialize (W _ Ic). unfold wf_class in W.
  apply andb_prop in W as [W _]. rewrite forallb_forall in W. exact (W _ I).
Qed.

Lemma wf_opt_hinted sc : wf_schema sc = true -> opt_hinted sc.
Proof.
  intros W c f I Ho. pose proof (wf_field_of _ _ _ W I) as Wf. unfold wf_field in Wf.
  destruct (fhint f) as [p|p|p|k v]; [| eexists; reflexivity | |]; exfalso;
    rewrite Ho in Wf; cbn [negb] in Wf; rewrite ?andb_false_r, ?andb_false_l in Wf;
    repeat (apply andb_prop in Wf as [Wf ?]); try discriminate.
  all: destruct (fgroup f); rewrite ?andb_false_r in *; try discriminate.
Qed.

Lemma nth_repeat_none {A} (n g : nat) : nth g (repeat (@None A) n) None = None.
Proof. revert g. induction n; destruct g; cbn; auto. Qed.

Definition sentinel_of (f : fdesc) : pv := if fopt f then PNone else PPlaceholder.

Lemma is_default_unset sc f c :
  opt_hinted sc -> fhint f = HPlain (PyMsg c) -> is_default sc f (PMsg (new sc c)) = true.
Proof.
  intros Hoh Hh. unfold new. cbn [is_default]. rewrite Hh. rewrite Nat.eqb_refl. cbn [andb].
  assert (G : forall fs, (forall f', In f' fs -> fopt f' = true -> exists t, fhint f' = HOptional t) ->
    (fix go (raw : list pv) (fs : list fdesc) {struct raw} : bool :=
       match raw, fs with
       | x :: raw', f' :: fs' =>
           (match x with PPlaceholder => true | _ => is_default sc f' x end) && go raw' fs'
       | _, _ => true
       end) (map (fun f => if fopt f then PNone else PPlaceholder) fs) fs = true).
  { induction fs as [|f' fs IH]; intros Hfs; [reflexivity|]. cbn [map].
    rewrite IH by (intros; apply Hfs; [right|]; assumption). rewrite andb_true_r.
    destruct (fopt f') eqn:Ho; [|reflexivity].
    destruct (Hfs f' (or_introl eq_refl) Ho) as (t & Ht). cbn [is_default]. rewrite Ht. reflexivity. }
  apply G. intros f' I. apply (Hoh c f' I).
Qed.

Lemma default_is_default sc f :
  opt_hinted sc -> is_default sc f (default_of sc f) = true.
Proof.
  intros Hoh. unfold default_of. destruct (fhint f) as [t|t|t|k v] eqn:Hh.
  - destruct t; try (cbn [is_default]; rewrite Hh; reflexivity).
    apply is_default_unset; assumption.
  - cbn [is_default]. rewrite Hh. reflexivity.
  - cbn [is_default]. rewrite Hh. reflexivity.
  - cbn [is_default]. rewrite Hh. reflexivity.
Qed.

Lemma here_fresh sc n i f :
  opt_hinted sc -> here sc (repeat None n) i (sentinel_of f) f = Ok [].
Proof.
  intros Hoh. unfold here, group_selects, sentinel_of.
  destruct (fgroup f) as [g|] eqn:Hg.
  { rewrite nth_repeat_none. reflexivity. }
  destruct (fopt f) eqn:Ho; [reflexivity|].
  pose proof (default_is_default sc f Hoh) as Hd.
  assert (E : emit_field (fun _ => Ok []) sc f None (default_of sc f) = Ok []).
  { unfold emit_field. rewrite Hd, Hg, Ho. cbn [is_some orb].
    replace (match default_of sc f with PMsg o => osow o | _ => false end) with false; [reflexivity|].
    unfold default_of. destruct (fhint f) as [t|t|t|k v]; try reflexivity. destruct t; reflexivity. }
  destruct (default_of sc f); try exact E; reflexivity.
Qed.

Lemma body_fresh sc n : opt_hinted sc -> forall fs i, body sc (repeat None n) i (map sentinel_of fs) fs = Ok [].
Proof.
  intros Hoh. induction fs as [|f fs IH]; intros i; [reflexivity|].
  cbn [map body]. rewrite here_fresh by assumption. cbn [bind]. rewrite IH. reflexivity.
Qed.

Theorem fresh_bytes sc c : wf_schema sc = true -> enc_obj sc (new sc c) = Ok [].
Proof.
  intros W. unfold new. rewrite enc_obj_body.
  change (map (fun f => if fopt f then PNone else PPlaceholder) (cfields (get_class sc c)))
    with (map sentinel_of (cfields (get_class sc c))).
  rewrite body_fresh by (apply wf_opt_hinted; exact W). reflexivity.
Qed.

(* every field of a fresh message reads as the proto3 default of the independent specification *)
Lemma default_of_spec sc ng f :
  wf_field sc ng f = true -> fgroup f = None -> fopt f = false ->
  Ok (default_of sc f) = proto3_default sc f.
Proof.
  intros W Hg Ho. unfold proto3_default, default_of, is_repeated. rewrite Hg, Ho.
  unfold wf_field in W. rewrite Hg, Ho in W.
  destruct (fhint f) as [p|p|p|k v] eqn:Hh.
  - destruct (fwraps f); [cbn in W; rewrite ?andb_false_r in W; discriminate|].
    destruct (fty f), p; cbn in W; rewrite ?andb_false_r in W; try discriminate; reflexivity.
  - destruct (fwraps f); [reflexivity|].
    cbn in W. rewrite ?andb_false_r in W. destruct (fmap f); cbn in W; rewrite ?andb_false_r in W; discriminate.
  - destruct (fwraps f); [cbn in W; rewrite ?andb_false_r in W; discriminate|]. reflexivity.
  - destruct (fwraps f); [cbn in W; rewrite ?andb_false_r in W; discriminate|].
    destruct (fty f); cbn in W; rewrite ?andb_false_r in W; try discriminate; reflexivity.
Qed.

Theorem fresh_reads sc c i f :
  wf_schema sc = true -> nth_error (cfields (get_class sc c)) i = Some f ->
  read sc (new sc c) i = proto3_default sc f.
Proof.
  intros W Hf. pose proof (wf_field_of sc c f W (nth_error_In _ _ Hf)) as Wf.
  unfold read, new, getattr. rewrite Hf.
  unfold group_selects. destruct (fgroup f) as [g|] eqn:Hg.
  { rewrite nth_repeat_none. cbn. unfold proto3_default. rewrite Hg. reflexivity. }
  assert (Hn : nth i (map (fun f0 => if fopt f0 then PNone else PPlaceholder) (cfields (get_class sc c))) PPlaceholder
               = if fopt f then PNone else PPlaceholder).
  { apply nth_error_nth. rewrite nth_error_map, Hf. reflexivity. }
  rewrite Hn. destruct (fopt f) eqn:Ho.
  - cbn. unfold proto3_default. rewrite Hg, Ho. reflexivity.
  - cbn [snd]. eapply default_of_spec; eassumption.
Qed.
