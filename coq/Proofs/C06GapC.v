(* C06 gap closing, third group (see the table at the top of C06GapA.v): compositions with C17 (acceptance criterion),
   C01 (round trip, reachability over run7 histories).
   decode_presence_valid        clause (5) for every [valid] byte string (no "parse returned" hypothesis); invalid: no object
   roundtrip_presence           the presence reports of parse(bytes(m)) are those of m
   encode_presence              ... and they are what the reference reports on bytes(m): set <-> HasField, which_one_of =
                                WhichOneof, serialized_on_wire(child) <-> HasField - "emitted exactly when", judged on the bytes
   *_reachable                  the same for every object a run7 history produces (histories mixing constructor-made values,
                                setattr, parse into the object, from_dict, reads) under C01's operation-level condition *)
From Coq Require Import ZArith List Bool Lia.
From BP Require Import Base.Prelude Model.Types Model.Varint Model.Object Model.Eq Model.Encode Model.Decode.
From BP Require Import Model.WellFormed Model.C06Obs Model.C01Def Model.History Model.C07Ops Model.C01Reach Model.C01Parse.
From BP Require Import Model.C17Typed Model.C17Nested.
From BP Require Import Spec.Varint Spec.C06Wire.
From BP Require Import Proofs.C06SpecP Proofs.C06EncP Proofs.C06PresP Proofs.C06FinalP Proofs.C06GapA Proofs.C06GapB.
From BP Require Proofs.C01Final Proofs.C01ReachFinal Proofs.C01Reach2B Proofs.C17NestedAcceptP.
Import ListNotations.
Local Open Scope Z_scope.

(* ---------- (5b) decode presence for every valid byte string ---------- *)
Theorem decode_presence_valid sc c bs rs :
  wf_schema sc = true -> has_builtins sc -> entries_agree sc = true -> std_builtins_b sc = true ->
  valid sc c bs -> is_records rs bs ->
  exists m, parse sc c bs = Ok m /\ osow m = true /\
    (forall j f, nth_error (cfields (get_class sc c)) j = Some f -> optional_like f ->
       value_not_none sc m j = has_record f rs /\ (fopt f = true -> is_set sc m j = has_record f rs)) /\
    (forall g, which_one_of m g = last_member (get_class sc c) g rs) /\
    (forall j f, nth_error (cfields (get_class sc c)) j = Some f -> plain_msg f -> child_on_wire m j = has_record f rs).
Proof.
  intros W Hb He Hsb V R.
  destruct (proj2 (C17NestedAcceptP.accept_iff sc W Hb He c bs) V) as (m & P).
  exists m. split; [exact P|]. split; [eapply parse_sow; exact P|]. split; [|split].
  - intros j f Hf Ho. eapply decode_optional; eassumption.
  - intros g. eapply decode_oneof; eassumption.
  - intros j f Hf Hp. eapply decode_submessage; eassumption.
Qed.

Theorem decode_invalid_no_object sc c bs :
  wf_schema sc = true -> has_builtins sc -> entries_agree sc = true ->
  ~ valid sc c bs -> forall m, parse sc c bs <> Ok m.
Proof.
  intros W Hb He NV m P. apply NV. apply (C17NestedAcceptP.accept_iff sc W Hb He c bs). exists m. exact P.
Qed.

(* ---------- (5c) the presence reports survive the round trip ---------- *)
Lemma obs_top_go_nth sc a b : forall ra i0 i,
  (fix go (i : nat) (ra : list pv) {struct ra} : bool :=
     match ra with
     | [] => true
     | _ :: ra' =>
         Bool.eqb (res_ok (read sc a i)) (res_ok (read sc b i)) &&
         Bool.eqb (res_none (read sc a i)) (res_none (read sc b i)) &&
         Bool.eqb (res_flag (read sc a i)) (res_flag (read sc b i)) && go (Datatypes.S i) ra'
     end) i0 ra = true ->
  (i < length ra)%nat ->
  res_ok (read sc a (i0 + i)) = res_ok (read sc b (i0 + i)) /\
  res_none (read sc a (i0 + i)) = res_none (read sc b (i0 + i)) /\
  res_flag (read sc a (i0 + i)) = res_flag (read sc b (i0 + i)).
Proof.
  induction ra as [|x ra IH]; intros i0 i H Hi; [cbn [length] in Hi; lia|].
  apply andb_prop in H as [H Hr]. apply andb_prop in H as [H H3]. apply andb_prop in H as [H1 H2].
  destruct i as [|i].
  - rewrite Nat.add_0_r. repeat split; apply eqb_prop; assumption.
  - replace (i0 + Datatypes.S i)%nat with (Datatypes.S i0 + i)%nat by lia. apply IH; [exact Hr|cbn [length] in Hi; lia].
Qed.

Lemma obs_top_nth sc a b i :
  obs_top sc a b = true -> (i < length (oraw a))%nat ->
  res_ok (read sc a i) = res_ok (read sc b i) /\
  res_none (read sc a i) = res_none (read sc b i) /\
  res_flag (read sc a i) = res_flag (read sc b i).
Proof.
  intros H Hi. unfold obs_top in H. apply andb_prop in H as [_ H].
  exact (obs_top_go_nth sc a b (oraw a) O i H Hi).
Qed.

Lemma value_not_none_res sc o i : value_not_none sc o i = res_ok (read sc o i) && negb (res_none (read sc o i)).
Proof. unfold value_not_none, res_ok, res_none. destruct (read sc o i) as [[]|]; reflexivity. Qed.

(* serialized_on_wire(m.f), whether m.f is read through getattr or looked at raw *)
Lemma child_on_wire_read sc o i f :
  nth_error (cfields (get_class sc (ocls o))) i = Some f -> plain_msg f ->
  res_flag (read sc o i) = child_on_wire o i.
Proof.
  intros Hf ((Hg & _) & (c' & Hh)). destruct o as [c raw sow unk cur]. cbn [ocls] in Hf.
  unfold read, getattr, child_on_wire, raw_at. cbn [oraw]. rewrite Hf. unfold group_selects. rewrite Hg.
  destruct (nth i raw PPlaceholder); cbn [snd res_flag]; try reflexivity.
  unfold default_of. rewrite Hh. reflexivity.
Qed.

Theorem roundtrip_presence sc m bs :
  c01_schema_ok sc = true -> c01_value_ok sc m = true -> sow_ok sc m = true ->
  enc_obj sc m = Ok bs -> Zlength bs < 2 ^ 64 ->
  exists m', parse sc (ocls m) bs = Ok m' /\ enc_obj sc m' = Ok bs /\
    (forall g, which_one_of m' g = which_one_of m g) /\
    (forall i, (i < length (oraw m))%nat ->
       value_not_none sc m' i = value_not_none sc m i /\
       res_ok (read sc m' i) = res_ok (read sc m i) /\
       res_flag (read sc m' i) = res_flag (read sc m i)) /\
    (forall i f, (i < length (oraw m))%nat -> nth_error (cfields (get_class sc (ocls m))) i = Some f -> plain_msg f ->
       child_on_wire m' i = child_on_wire m i).
Proof.
  intros Hs Hv Hw Eb Hl.
  destruct (C01Final.c01_roundtrip sc m Hs Hv) as (bs' & Eb' & Hrest).
  rewrite Eb in Eb'. injection Eb' as <-.
  destruct (Hrest Hl) as (m' & Hp & Hn & _ & Hwo & Hobs & Hst).
  exists m'. split; [exact Hp|]. split; [exact Hst|]. split; [exact Hwo|].
  specialize (Hobs Hw).
  assert (Hc : ocls m' = ocls m) by (rewrite Hn; destruct m; reflexivity).
  split.
  - intros i Hi. destruct (obs_top_nth sc m m' i Hobs Hi) as (A & B & C).
    rewrite !value_not_none_res, A, B. repeat split; congruence.
  - intros i f Hi Hf Hp'. destruct (obs_top_nth sc m m' i Hobs Hi) as (_ & _ & C).
    rewrite <- (child_on_wire_read sc m i f Hf Hp'). rewrite <- (child_on_wire_read sc m' i f); [|rewrite Hc; exact Hf|exact Hp'].
    symmetry. exact C.
Qed.

(* ---------- what the reference reports on bytes(m) is what m reports ---------- *)
Theorem encode_presence sc m bs rs :
  c01_schema_ok sc = true -> std_builtins_b sc = true ->
  c01_value_ok sc m = true -> sow_ok sc m = true ->
  enc_obj sc m = Ok bs -> Zlength bs < 2 ^ 64 -> is_records rs bs ->
  (forall j f, (j < length (oraw m))%nat -> nth_error (cfields (get_class sc (ocls m))) j = Some f -> optional_like f ->
     value_not_none sc m j = has_record f rs) /\
  (forall g, which_one_of m g = last_member (get_class sc (ocls m)) g rs) /\
  (forall j f, (j < length (oraw m))%nat -> nth_error (cfields (get_class sc (ocls m))) j = Some f -> plain_msg f ->
     child_on_wire m j = has_record f rs).
Proof.
  intros Hs Hsb Hv Hw Eb Hl R. pose proof (C01ReachFinal.schema_wf sc Hs) as W.
  destruct (roundtrip_presence sc m bs Hs Hv Hw Eb Hl) as (m' & P & _ & Hwo & Hvn & Hch).
  split; [|split].
  - intros j f Hj Hf Ho. destruct (Hvn j Hj) as (A & _). rewrite <- A.
    exact (proj1 (decode_optional sc (ocls m) bs rs m' j f W Hsb R P Hf Ho)).
  - intros g. rewrite <- Hwo. exact (decode_oneof sc (ocls m) bs rs m' g W Hsb R P).
  - intros j f Hj Hf Hp. rewrite <- (Hch j f Hj Hf Hp).
    exact (decode_submessage sc (ocls m) bs rs m' j f W Hsb R P Hf Hp).
Qed.

(* ---------- for every object a history of public operations produces ---------- *)
Theorem submessage_reachable sc c ops o i f ch all :
  c01_schema_ok sc = true -> hist_ok op_reach_ok_p sc (new sc c) ops = true -> run7 sc (new sc c) ops = Ok o ->
  nth_error (cfields (get_class sc (ocls o))) i = Some f -> nth_error (oraw o) i = Some (PMsg ch) ->
  plain_msg f -> enc_obj sc o = Ok all ->
  exists pre h post, all = pre ++ h ++ post /\ here sc (ocur o) i (PMsg ch) f = Ok h /\
    (h <> [] <-> osow ch = true) /\ (osow ch = true -> starts_with_tag (fnum f) 2 h).
Proof.
  intros Hs Hh E. destruct (C01Reach2B.c01_reachable_sow_ok_parse sc c ops o Hs Hh E) as (_ & Hw).
  apply submessage_sow_ok; [apply C01ReachFinal.schema_wf; exact Hs|exact Hw].
Qed.

Theorem encode_presence_reachable sc c ops m bs rs :
  c01_schema_ok sc = true -> std_builtins_b sc = true ->
  hist_ok op_reach_ok_p sc (new sc c) ops = true -> run7 sc (new sc c) ops = Ok m ->
  enc_obj sc m = Ok bs -> Zlength bs < 2 ^ 64 -> is_records rs bs ->
  (forall j f, (j < length (oraw m))%nat -> nth_error (cfields (get_class sc (ocls m))) j = Some f -> optional_like f ->
     value_not_none sc m j = has_record f rs) /\
  (forall g, which_one_of m g = last_member (get_class sc (ocls m)) g rs) /\
  (forall j f, (j < length (oraw m))%nat -> nth_error (cfields (get_class sc (ocls m))) j = Some f -> plain_msg f ->
     child_on_wire m j = has_record f rs).
Proof.
  intros Hs Hsb Hh E. destruct (C01Reach2B.c01_reachable_sow_ok_parse sc c ops m Hs Hh E) as (Hv & Hw).
  apply encode_presence; assumption.
Qed.

Theorem roundtrip_presence_reachable sc c ops m bs :
  c01_schema_ok sc = true ->
  hist_ok op_reach_ok_p sc (new sc c) ops = true -> run7 sc (new sc c) ops = Ok m ->
  enc_obj sc m = Ok bs -> Zlength bs < 2 ^ 64 ->
  exists m', parse sc (ocls m) bs = Ok m' /\ enc_obj sc m' = Ok bs /\
    (forall g, which_one_of m' g = which_one_of m g) /\
    (forall i, (i < length (oraw m))%nat ->
       value_not_none sc m' i = value_not_none sc m i /\
       res_ok (read sc m' i) = res_ok (read sc m i) /\
       res_flag (read sc m' i) = res_flag (read sc m i)) /\
    (forall i f, (i < length (oraw m))%nat -> nth_error (cfields (get_class sc (ocls m))) i = Some f -> plain_msg f ->
       child_on_wire m' i = child_on_wire m i).
Proof.
  intros Hs Hh E. destruct (C01Reach2B.c01_reachable_sow_ok_parse sc c ops m Hs Hh E) as (Hv & Hw).
  apply roundtrip_presence; assumption.
Qed.
