(* C03 bridge, part D (references by index): the class index [schema_of_table] gives to a reference to message M
   of a generated package is the index of the class generated FOR M (same field numbers, same field names, in
   order), and the enum index it gives to a reference to enum E is the position of E's member table. *)
From BP Require Import Base.Prelude Model.Types Spec.Descriptor Model.Object Model.WellFormed.
From BP Require Import Model.C03Bridge Proofs.PluginP Proofs.C03BridgeA Proofs.C03BridgeB.
From Coq Require Import Lia.

Lemma resolve_ref_msg_nth l : NoDup (map row_key l) -> forall mo cl fs a b, In (mo, cl, ClsMessage fs) l ->
  exists i, resolve_ref mo cl l a b = Some (PyMsg (NB + (a + i))) /\ nth_error (msg_rows l) i = Some fs.
Proof.
  induction l as [|[[m c] bd] r IH]; intros Hnd mo cl fs a b Hin; [contradiction|].
  cbn [map] in Hnd. inversion Hnd as [|? ? Hnin Hr]; subst. cbn [resolve_ref]. rewrite msg_rows_cons. cbn [snd].
  destruct (str_eqb mo m && str_eqb cl c) eqn:E.
  - apply andb_prop in E as [E1 E2]. apply str_eqb_eq in E1, E2. subst m c.
    destruct Hin as [Heq | Hin].
    + injection Heq as ->. exists O. split; [now rewrite Nat.add_0_r | reflexivity].
    + exfalso. apply Hnin. replace (row_key (mo, cl, bd)) with (row_key (mo, cl, ClsMessage fs)) by reflexivity. now apply in_map.
  - destruct Hin as [Heq | Hin].
    + injection Heq as -> -> ->. rewrite !str_eqb_refl in E. discriminate.
    + destruct bd as [fs'|ms'].
      * destruct (IH Hr mo cl fs (S a) b Hin) as (i & Hi & Hn). exists (S i). split; [|exact Hn].
        rewrite Hi. do 2 f_equal. lia.
      * destruct (IH Hr mo cl fs a (S b) Hin) as (i & Hi & Hn). exists i. split; [exact Hi | exact Hn].
Qed.

Lemma resolve_ref_enum_nth l : NoDup (map row_key l) -> forall mo cl ms a b, In (mo, cl, ClsEnum ms) l ->
  exists j, resolve_ref mo cl l a b = Some (PyEnum (b + j)) /\ nth_error (enum_rows l) j = Some ms.
Proof.
  induction l as [|[[m c] bd] r IH]; intros Hnd mo cl ms a b Hin; [contradiction|].
  cbn [map] in Hnd. inversion Hnd as [|? ? Hnin Hr]; subst. cbn [resolve_ref]. rewrite enum_rows_cons. cbn [snd].
  destruct (str_eqb mo m && str_eqb cl c) eqn:E.
  - apply andb_prop in E as [E1 E2]. apply str_eqb_eq in E1, E2. subst m c.
    destruct Hin as [Heq | Hin].
    + injection Heq as ->. exists O. split; [now rewrite Nat.add_0_r | reflexivity].
    + exfalso. apply Hnin. replace (row_key (mo, cl, bd)) with (row_key (mo, cl, ClsEnum ms)) by reflexivity. now apply in_map.
  - destruct Hin as [Heq | Hin].
    + injection Heq as -> -> ->. rewrite !str_eqb_refl in E. discriminate.
    + destruct bd as [fs'|ms'].
      * destruct (IH Hr mo cl ms (S a) b Hin) as (j & Hj & Hn). exists j. split; [exact Hj | exact Hn].
      * destruct (IH Hr mo cl ms a (S b) Hin) as (j & Hj & Hn). exists (S j). split; [|exact Hn].
        rewrite Hj. do 2 f_equal. lia.
Qed.

Lemma tr_classes_nth R cs : forall k i fs, nth_error cs i = Some fs ->
  exists k', nth_error (tr_classes R k cs) i = Some (tr_class R k' fs).
Proof.
  induction cs as [|c r IH]; intros k i fs H; [destruct i; discriminate|].
  destruct i as [|i]; cbn [nth_error tr_classes] in *.
  - injection H as ->. eauto.
  - now apply IH.
Qed.

Lemma tr_fields_names R gs fs : forall k, map fname (tr_fields R gs k fs) = map pf_name fs.
Proof. induction fs as [|f r IH]; intros k; [reflexivity|]. cbn [tr_fields map tr_field fname]. now rewrite IH. Qed.

(* the class at index NB + i is the translation of the i-th message row *)
Lemma user_class_at (t : class_table) i fs :
  nth_error (msg_rows (class_rows t)) i = Some fs ->
  exists k', get_class (schema_of_table t) (NB + i) = tr_class (class_rows t) k' fs.
Proof.
  intros H. set (R := class_rows t). set (ms := msg_rows R).
  destruct (tr_classes_nth R ms (NB + length ms) i fs H) as (k' & Hk). exists k'.
  unfold get_class, schema_of_table. cbn [classes]. fold R. fold ms.
  rewrite app_nth2 by (unfold NB; lia). replace (NB + i - length builtin_classes)%nat with i by (unfold NB; lia).
  assert (Hi : (i < length (tr_classes R (NB + length ms) ms))%nat).
  { rewrite tr_classes_length. apply nth_error_Some. unfold ms, R. congruence. }
  rewrite app_nth1 by exact Hi. now apply List.nth_error_nth.
Qed.

Section Refs.
  Variable field_name : str -> str.
  Variable class_name : str -> str.
  Variable enum_member_name : str -> str -> str.
  Variable D : descriptor.
  Variable t : class_table.
  Hypothesis Ht : class_table_of field_name class_name enum_member_name D = Some t.
  Hypothesis Hcn : class_nodup class_name D = true.

  Let R := class_rows t.
  Let sc := schema_of_table t.

  Lemma row_of_msg_fields f p m : In f D -> fl_package f <> google_protobuf -> In (p, m) (file_msgs f) ->
    md_map_entry m = false ->
    exists fs, In (fl_package f, class_name (dotted p), ClsMessage fs) R
      /\ Forall2 (fun x pf => spec_field field_name class_name D (fl_package f) p m x = Some pf) (md_fields m) fs.
  Proof.
    intros Hf Hne Hm Hme.
    destruct (module_of_pkg field_name class_name enum_member_name D t Ht _ (output_package_in D f Hf Hne)) as (md & Hmd & Hs).
    destruct (module_shape field_name class_name enum_member_name D _ _ Hs) as (msgs & -> & F).
    assert (Hin : In (p, m) (nonentry D (fl_package f))).
    { unfold nonentry. apply filter_In. split; [|cbn [snd]; now rewrite Hme].
      apply in_flat_map. exists f. split; [now apply files_of_intro | assumption]. }
    destruct (Forall2_in_l _ _ _ _ F Hin) as (c & Hc & Hsc).
    destruct (message_class_shape field_name class_name D _ _ _ Hsc) as (fs & -> & Ffs). exists fs. split; [|exact Ffs].
    apply (in_class_rows t _ (class_name (dotted p), ClsMessage fs) Hmd). cbn [snd]. apply in_or_app. now right.
  Qed.

  Lemma spec_field_number_name pkg p m x pf :
    spec_field field_name class_name D pkg p m x = Some pf ->
    pf_number pf = fd_number x /\ pf_name pf = field_name (fd_name x).
  Proof.
    unfold spec_field. intros Hs.
    destruct (spec_map_entry pkg p m x) as [e|].
    - destruct (field_numbered 1 e) as [k|], (field_numbered 2 e) as [v|]; try discriminate.
      destruct (kind_name (fd_type k)), (kind_name (fd_type v)), (spec_value_type class_name D k),
        (spec_value_type class_name D v); try discriminate. injection Hs as <-. split; reflexivity.
    - destruct (kind_name (fd_type x)), (spec_value_type class_name D x), (spec_group m x); try discriminate.
      injection Hs as <-. split; reflexivity.
  Qed.

  Theorem message_ref_faithful pkg p m :
    In (SymMsg pkg p m) (symbols D) -> pkg <> google_protobuf -> md_map_entry m = false ->
    exists c, pyty_of R (PyRef (module_of_package pkg) (class_name (dotted p))) = Some (PyMsg c)
      /\ (NB <= c < NB + length (msg_rows R))%nat
      /\ map fnum (cfields (get_class sc c)) = map fd_number (md_fields m)
      /\ map fname (cfields (get_class sc c)) = map (fun x => field_name (fd_name x)) (md_fields m).
  Proof.
    intros Hs Hne Hme. destruct (sym_msg_in D pkg p m Hs) as (f & Hf & <- & Hm).
    destruct (row_of_msg_fields f p m Hf Hne Hm Hme) as (fs & Hrow & F).
    pose proof (rows_nodup field_name class_name enum_member_name D t Ht Hcn) as Hnd. fold R in Hnd.
    destruct (resolve_ref_msg_nth R Hnd _ _ _ O O Hrow) as (i & Hi & Hn). cbn [Nat.add] in Hi.
    exists (NB + i)%nat. split.
    { cbn [pyty_of]. unfold module_of_package. apply str_eqb_neq in Hne. now rewrite Hne. }
    split. { split; [lia|]. apply Nat.add_lt_mono_l. apply nth_error_Some. congruence. }
    destruct (user_class_at t i fs Hn) as (k' & Hk). unfold sc. rewrite Hk. unfold tr_class. cbn [cfields].
    rewrite tr_fields_numbers, tr_fields_names. split.
    - apply (Forall2_map_l pf_number fd_number). eapply Forall2_impl; [|exact F]. cbn beta. intros x pf Hx.
      now apply spec_field_number_name in Hx.
    - apply (Forall2_map_l pf_name (fun x => field_name (fd_name x))). eapply Forall2_impl; [|exact F]. cbn beta.
      intros x pf Hx. now apply spec_field_number_name in Hx.
  Qed.

  Theorem enum_ref_faithful pkg p e :
    In (SymEnum pkg p e) (symbols D) -> pkg <> google_protobuf ->
    exists j, pyty_of R (PyRef (module_of_package pkg) (class_name (dotted p))) = Some (PyEnum j)
      /\ nth_error (enums sc) j = Some (mkE (map (fun nv => (enum_member_name (fst nv) (flat p), snd nv)) (ed_values e))).
  Proof.
    intros Hs Hne. destruct (sym_enum_in D pkg p e Hs) as (f & Hf & <- & He).
    destruct (module_of_pkg field_name class_name enum_member_name D t Ht _ (output_package_in D f Hf Hne)) as (md & Hmd & Hsm).
    destruct (module_shape field_name class_name enum_member_name D _ _ Hsm) as (msgs & -> & F).
    assert (Hrow : In (fl_package f, class_name (dotted p),
                       ClsEnum (map (fun '(n, v) => (enum_member_name n (flat p), v)) (ed_values e))) R).
    { apply (in_class_rows t _ (spec_enum_class class_name enum_member_name (p, e)) Hmd). cbn [snd].
      apply in_or_app. left. apply in_map. apply in_flat_map. exists f. split; [now apply files_of_intro | assumption]. }
    pose proof (rows_nodup field_name class_name enum_member_name D t Ht Hcn) as Hnd. fold R in Hnd.
    destruct (resolve_ref_enum_nth R Hnd _ _ _ O O Hrow) as (j & Hj & Hn). cbn [Nat.add] in Hj.
    exists j. split.
    { cbn [pyty_of]. unfold module_of_package. apply str_eqb_neq in Hne. now rewrite Hne. }
    change (enums sc) with (map mkE (enum_rows R)). rewrite (map_nth_error mkE _ _ Hn). do 2 f_equal.
    apply map_ext. now intros [n v].
  Qed.
End Refs.
