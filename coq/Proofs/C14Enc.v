(* C14, part 4: the encoder (Message.dump / __bytes__) does not distinguish a PLACEHOLDER from the default a
   read stores in its place: same bytes, same errors, at any depth. *)
From BP Require Import Base.Prelude Model.Types Model.Varint Model.Scalar Model.Float Model.Object Model.Eq Model.TimeCore.
From BP Require Import Model.Encode Model.History Model.C14Ops.
From BP Require Import gen.Tables Model.WellFormed Proofs.BytesP Proofs.C14Ind Proofs.C14Mat.
From Coq Require Import Lia.

(* ---- named pieces of enc_obj ---- *)
Definition femit (sc : schema) (f : fdesc) (sel : option bool) (x : pv) : result (list byte) :=
  match x with
  | PNone => Ok []
  | PPlaceholder =>
      match default_of sc f with
      | PNone => Ok []
      | d => emit_field (fun _ => Ok []) sc f sel d
      end
  | _ => emit_field (enc_obj sc) sc f sel x
  end.

Definition enc_go (sc : schema) (cur : list (option nat)) :=
  fix go (i : nat) (raw : list pv) (fs : list fdesc) {struct raw} : result (list byte) :=
    match raw, fs with
    | x :: raw', f :: fs' =>
        do here <- match group_selects cur f i with
                   | Some false => Ok []
                   | sel => femit sc f sel x
                   end;
        do rest <- go (Datatypes.S i) raw' fs';
        Ok (here ++ rest)
    | _, _ => Ok []
    end.

Lemma enc_obj_eq sc c raw sow unk cur :
  enc_obj sc (Obj c raw sow unk cur) =
  (do body <- enc_go sc cur O raw (cfields (get_class sc c)); Ok (body ++ unk)).
Proof. reflexivity. Qed.

(* ---- the encoder only looks at a nested message through [enc_msg] ---- *)
Lemma msg_bytes_ext e e' w v :
  (forall o, v = PMsg o -> e o = e' o) -> msg_bytes e w v = msg_bytes e' w v.
Proof.
  intros H. unfold msg_bytes. destruct v; try reflexivity. destruct w; [reflexivity|]. apply H. reflexivity.
Qed.

Lemma preprocess_ext e e' t w v :
  (forall o, v = PMsg o -> e o = e' o) ->
  preprocess_with (msg_bytes e) t w v = preprocess_with (msg_bytes e') t w v.
Proof.
  intros H. unfold preprocess_with.
  destruct (tmem t [TEnum; TBool; TInt32; TInt64; TUInt32; TUInt64]); [reflexivity|].
  destruct (tmem t [TSInt32; TSInt64]); [reflexivity|].
  destruct (tmem t FIXED_TYPES); [reflexivity|].
  destruct (ptype_eqb t TString); [reflexivity|].
  destruct (ptype_eqb t TMessage); [|reflexivity].
  destruct v, w; try reflexivity; apply msg_bytes_ext; exact H.
Qed.

Lemma serialize_ext e e' num t v se w :
  (forall o, v = PMsg o -> e o = e' o) ->
  serialize_with (msg_bytes e) num t v se w = serialize_with (msg_bytes e') num t v se w.
Proof. intros H. unfold serialize_with. rewrite (preprocess_ext e e' t w v H). reflexivity. Qed.

Lemma concat_map_ext {A} (f g : A -> result (list byte)) l :
  (forall x, In x l -> f x = g x) -> concat_map f l = concat_map g l.
Proof.
  induction l as [|x l IH]; intros H; [reflexivity|]. cbn [concat_map].
  rewrite (H x (or_introl eq_refl)). fold (concat_map f l). fold (concat_map g l).
  rewrite IH; [reflexivity|]. intros y Hy. apply H. right. exact Hy.
Qed.

Definition inside (v : pv) (o : obj) : Prop :=
  match v with
  | PMsg o' => o = o'
  | PList l => In (PMsg o) l
  | PDict d => exists kv, In kv d /\ (fst kv = PMsg o \/ snd kv = PMsg o)
  | _ => False
  end.

Lemma emit_field_ext e e' sc f sel v :
  (forall o, inside v o -> e o = e' o) -> emit_field e sc f sel v = emit_field e' sc f sel v.
Proof.
  intros H. unfold emit_field.
  destruct (is_default sc f v && negb _); [reflexivity|].
  destruct v; try (apply serialize_ext; intros o Ho; discriminate Ho).
  - (* list *)
    destruct (tmem (fty f) PACKED_TYPES).
    + rewrite (concat_map_ext (preprocess_with (msg_bytes e) (fty f) None) (preprocess_with (msg_bytes e') (fty f) None) l).
      * destruct (concat_map _ l); [|reflexivity]. cbn [bind]. apply serialize_ext. intros o Ho. discriminate Ho.
      * intros x Hx. apply preprocess_ext. intros o Ho. subst x. apply H. exact Hx.
    + apply concat_map_ext. intros x Hx.
      rewrite (serialize_ext e e' (fnum f) (fty f) x true (fwraps f)); [reflexivity|].
      intros o Ho. subst x. apply H. exact Hx.
  - (* dict *)
    destruct (fmap f) as [[kt vt]|]; [|reflexivity].
    induction l as [|[k v'] l IH]; [reflexivity|].
    rewrite (serialize_ext e e' 1 kt k false None)
      by (intros o Ho; apply H; exists (k, v'); split; [left; reflexivity | left; exact Ho]).
    rewrite (serialize_ext e e' 2 vt v' false None)
      by (intros o Ho; apply H; exists (k, v'); split; [left; reflexivity | right; exact Ho]).
    destruct (serialize_with (msg_bytes e') 1 kt k false None) as [sk|]; [|reflexivity]. cbn [bind].
    destruct (serialize_with (msg_bytes e') 2 vt v' false None) as [sv|]; [|reflexivity]. cbn [bind].
    rewrite (serialize_ext e e' (fnum f) (fty f) (PBytes (sk ++ sv)) true None) by (intros o Ho; discriminate Ho).
    destruct (serialize_with (msg_bytes e') (fnum f) (fty f) (PBytes (sk ++ sv)) true None); [|reflexivity]. cbn [bind].
    rewrite IH; [reflexivity|].
    intros o [kv [Hin Hkv]]. apply H. exists kv. split; [right; exact Hin | exact Hkv].
  - (* message *)
    apply serialize_ext. intros o' Ho. inversion Ho; subst. apply H. reflexivity.
Qed.

(* ---- two message values that encode alike are interchangeable ---- *)
Lemma wrapper_bytes_msg w o o' : wrapper_bytes w (PMsg o) = wrapper_bytes w (PMsg o').
Proof.
  unfold wrapper_bytes. destruct (wrapper_value_type w) as [vt|]; [|reflexivity].
  destruct o as [c r s u g], o' as [c' r' s' u' g'].
  destruct vt; reflexivity.
Qed.

Lemma msg_bytes_cong e w o o' : e o' = e o -> msg_bytes e w (PMsg o') = msg_bytes e w (PMsg o).
Proof. intros H. unfold msg_bytes. destruct w; [apply wrapper_bytes_msg | exact H]. Qed.

Definition penc_eq (e : obj -> result (list byte)) (x x' : pv) : Prop :=
  forall t w, preprocess_with (msg_bytes e) t w x' = preprocess_with (msg_bytes e) t w x.

Lemma penc_eq_refl e x : penc_eq e x x.
Proof. intros t w. reflexivity. Qed.

Lemma penc_eq_msg e o o' : e o' = e o -> penc_eq e (PMsg o) (PMsg o').
Proof.
  intros H t w. unfold preprocess_with.
  destruct (tmem t [TEnum; TBool; TInt32; TInt64; TUInt32; TUInt64]); [reflexivity|].
  destruct (tmem t [TSInt32; TSInt64]); [reflexivity|].
  destruct (tmem t FIXED_TYPES).
  { unfold pack_value. destruct (pack_fmt t) as [[]|]; reflexivity. }
  destruct (ptype_eqb t TString); [reflexivity|].
  destruct (ptype_eqb t TMessage); [|reflexivity].
  destruct w; apply msg_bytes_cong; exact H.
Qed.

Lemma serialize_penc e x x' num t se w :
  penc_eq e x x' -> serialize_with (msg_bytes e) num t x' se w = serialize_with (msg_bytes e) num t x se w.
Proof. intros H. unfold serialize_with. rewrite (H t w). reflexivity. Qed.

Lemma emit_msg_cong e sc f sel o o' :
  is_default sc f (PMsg o') = is_default sc f (PMsg o) -> osow o' = osow o -> e o' = e o ->
  emit_field e sc f sel (PMsg o') = emit_field e sc f sel (PMsg o).
Proof.
  intros Hd Hs He. unfold emit_field. rewrite Hd, Hs.
  destruct (is_default sc f (PMsg o) && negb _); [reflexivity|].
  apply serialize_penc. apply penc_eq_msg. exact He.
Qed.

Lemma concat_map_forall2 {A} (f : A -> result (list byte)) l l' :
  Forall2 (fun x x' => f x' = f x) l l' -> concat_map f l' = concat_map f l.
Proof.
  induction 1 as [|x x' l l' Hx Hl IH]; [reflexivity|]. cbn [concat_map]. rewrite Hx.
  fold (concat_map f l'). fold (concat_map f l). rewrite IH. reflexivity.
Qed.

Lemma Forall2_impl' {A B} (R R' : A -> B -> Prop) l l' :
  (forall a b, R a b -> R' a b) -> Forall2 R l l' -> Forall2 R' l l'.
Proof. intros H. induction 1; constructor; auto. Qed.

Lemma emit_list_cong e sc f sel l l' :
  is_default sc f (PList l') = is_default sc f (PList l) -> Forall2 (penc_eq e) l l' ->
  emit_field e sc f sel (PList l') = emit_field e sc f sel (PList l).
Proof.
  intros Hd Hl. unfold emit_field. rewrite Hd.
  destruct (is_default sc f (PList l) && negb _); [reflexivity|].
  destruct (tmem (fty f) PACKED_TYPES).
  - rewrite (concat_map_forall2 (preprocess_with (msg_bytes e) (fty f) None) l l'); [reflexivity|].
    eapply Forall2_impl'; [|exact Hl]. intros x x' Hx. apply Hx.
  - apply concat_map_forall2. eapply Forall2_impl'; [|exact Hl]. intros x x' Hx.
    rewrite (serialize_penc e x x' _ _ _ _ Hx). reflexivity.
Qed.

Definition entry_penc (e : obj -> result (list byte)) (kv kv' : pv * pv) : Prop :=
  fst kv = fst kv' /\ penc_eq e (snd kv) (snd kv').

Lemma emit_dict_cong e sc f sel d d' :
  is_default sc f (PDict d') = is_default sc f (PDict d) -> Forall2 (entry_penc e) d d' ->
  emit_field e sc f sel (PDict d') = emit_field e sc f sel (PDict d).
Proof.
  intros Hd Hl. unfold emit_field. rewrite Hd.
  destruct (is_default sc f (PDict d) && negb _); [reflexivity|]. clear Hd.
  destruct (fmap f) as [[kt vt]|]; [|reflexivity].
  induction Hl as [|[k v] [k' v'] d d' [Hk Hv] Hl IH]; [reflexivity|]. cbn [fst snd] in *. subst k'.
  rewrite (serialize_penc e v v' 2 vt false None Hv). rewrite IH. reflexivity.
Qed.

Lemma nth_repeat_none {A} (g n : nat) : nth g (repeat (@None A) n) None = None.
Proof. revert g. induction n as [|n IH]; intros [|g]; cbn; auto. Qed.

Section Wf.
  Variable sc : schema.
  Hypothesis Hopt : schema_opt_ok sc = true.

  Lemma enc_go_frel cur fs raw raw' :
    frel (fun f x x' => forall sel, femit sc f sel x' = femit sc f sel x) fs raw raw' ->
    forall i, enc_go sc cur i raw' fs = enc_go sc cur i raw fs.
  Proof.
    induction 1 as [fs|f fs x x' r r' Hx Hr IH|x r r' Hr IH]; intros i; try reflexivity.
    cbn [enc_go]. rewrite IH. destruct (group_selects cur f i) as [[|]|]; rewrite ?Hx; reflexivity.
  Qed.

  (* a fresh instance, and a fresh instance into which defaults were written, encode to nothing *)
  Lemma femit_slot c n f i :
    In f (cfields (get_class sc c)) ->
    match group_selects (repeat None n) f i with
    | Some false => Ok []
    | sel => femit sc f sel (slot f)
    end = Ok [].
  Proof.
    intros Hin. unfold group_selects. destruct (fgroup f) as [g|] eqn:Hg.
    { rewrite nth_repeat_none. reflexivity. }
    unfold slot. destruct (fopt f) eqn:Ho; [reflexivity|]. cbn [femit].
    pose proof (default_is_default sc Hopt f) as Hd.
    destruct (default_of sc f) as [| | | | | | | | | | |o] eqn:Hdef; try reflexivity;
      unfold emit_field; rewrite Hd, Hg, Ho; cbn [is_some orb negb andb]; try reflexivity.
    destruct (default_msg_inv sc f o Hdef) as [c1 [_ Hn]]. subst o. reflexivity.
  Qed.

  Lemma enc_go_slots c n :
    forall i, enc_go sc (repeat None n) i (map slot (cfields (get_class sc c))) (cfields (get_class sc c)) = Ok [].
  Proof.
    assert (H : forall fs, (forall f, In f fs -> In f (cfields (get_class sc c))) ->
                forall i, enc_go sc (repeat None n) i (map slot fs) fs = Ok []).
    { induction fs as [|f fs IH]; intros Hin i; [reflexivity|]. cbn [map enc_go].
      rewrite (femit_slot c n f i (Hin f (or_introl eq_refl))). cbn [bind].
      rewrite (IH (fun g Hg => Hin g (or_intror Hg))). reflexivity. }
    apply H. auto.
  Qed.

  Lemma enc_new c : enc_obj sc (new sc c) = Ok [].
  Proof. unfold new. rewrite enc_obj_eq. fold slot. rewrite enc_go_slots. reflexivity. Qed.

  Lemma femit_default_nonmsg f sel :
    (forall o, ~ inside (default_of sc f) o) -> femit sc f sel (default_of sc f) = femit sc f sel PPlaceholder.
  Proof.
    intros Hin. cbn [femit]. pose proof (default_not_placeholder sc f) as Hnp.
    destruct (default_of sc f) eqn:Hd; try reflexivity; try (contradiction Hnp; reflexivity);
      cbn [femit]; apply emit_field_ext; intros o1 Ho; exfalso; eapply Hin; exact Ho.
  Qed.

  Definition GC (f : fdesc) (v v' : pv) : Prop :=
    (forall o o', v = PMsg o -> v' = PMsg o' -> enc_obj sc o' = enc_obj sc o) /\
    (forall sel, femit sc f sel v' = femit sc f sel v).

  Lemma femit_np f sel v : v <> PPlaceholder -> v <> PNone -> femit sc f sel v = emit_field (enc_obj sc) sc f sel v.
  Proof. intros H1 H2. destruct v; try reflexivity; [contradiction H1 | contradiction H2]; reflexivity. Qed.

  Lemma mat_elem_penc f l' :
    Forall (fun x' => forall f x, mat sc f x x' = true -> GC f x x') l' ->
    forall l, mat_list sc f l l' = true -> Forall2 (penc_eq (enc_obj sc)) l l'.
  Proof.
    induction 1 as [|x' l' Hx Hl IH]; intros l Hm; destruct l as [|x l]; cbn [mat_list] in Hm; try discriminate; constructor.
    - apply andb_true_iff in Hm as [H1 _]. unfold mat_elem in H1.
      destruct x; try (apply pv_same_sound in H1; subst; apply penc_eq_refl).
      destruct x'; try (match goal with Hp : pv_same (PMsg ?o) _ = true |- _ => destruct o; cbn [pv_same] in Hp; discriminate Hp end).
      apply penc_eq_msg. apply (proj1 (Hx f _ H1)); reflexivity.
    - apply andb_true_iff in Hm as [_ H2]. apply IH. exact H2.
  Qed.

  Lemma mat_dict_penc f d' :
    Forall (fun kv => (forall f x, mat sc f x (fst kv) = true -> GC f x (fst kv)) /\
                      (forall f x, mat sc f x (snd kv) = true -> GC f x (snd kv))) d' ->
    forall d, mat_dict sc f d d' = true -> Forall2 (entry_penc (enc_obj sc)) d d'.
  Proof.
    induction 1 as [|[k' x'] d' [_ Hx] Hl IH]; intros d Hm; destruct d as [|[k x] d]; cbn [mat_dict] in Hm; try discriminate; constructor.
    - apply andb_true_iff in Hm as [H1 _]. apply andb_true_iff in H1 as [H0 H1]. apply pv_same_sound in H0.
      split; [exact H0|]. cbn [fst snd] in *. unfold mat_elem in H1.
      destruct x; try (apply pv_same_sound in H1; subst; apply penc_eq_refl).
      destruct x'; try (match goal with Hp : pv_same (PMsg ?o) _ = true |- _ => destruct o; cbn [pv_same] in Hp; discriminate Hp end).
      apply penc_eq_msg. apply (proj1 (Hx f _ H1)); reflexivity.
    - apply andb_true_iff in Hm as [_ H2]. apply IH. exact H2.
  Qed.

  Lemma mat_enc : forall v' f v, mat sc f v v' = true -> GC f v v'.
  Proof.
    induction v' using pv_induction; intros f v Hm; pose proof Hm as Hi; apply mat_inv in Hi;
      destruct Hi as [[Hv Hv']|[(c0 & raw0 & raw0' & sow0 & unk0 & cur0 & Hs & Hv' & Hg)|[(l0 & l0' & Hs & Hv' & Hg)|[(d0 & d0' & Hs & Hv' & Hg)|[Hs Hsc]]]]];
      try discriminate Hv'; try (exfalso; exact Hsc).
    1: { subst. split; [intros o o' _ Ho; discriminate Ho | reflexivity]. }
    (* scalars *)
    1-8: (split; [intros o o' _ Ho; discriminate Ho|]; intros sel;
          destruct v; cbn [src] in Hs; try reflexivity; try (rewrite <- Hs; reflexivity);
          rewrite <- Hs; apply femit_default_nonmsg; rewrite Hs; intros o Ho; exact Ho).
    - (* list *)
      inversion Hv'; subst l0'. split; [intros o o' _ Ho; discriminate Ho|]. intros sel.
      pose proof (mat_elem_penc f l H l0 Hg) as Hf.
      destruct v; cbn [src] in Hs; try discriminate Hs.
      + destruct (default_list_inv sc f _ Hs) as [Hl0 _]. subst l0. apply mat_list_nil in Hg.
        assert (l = []) by (apply Hg; reflexivity). subst l. rewrite <- Hs.
        apply femit_default_nonmsg. rewrite Hs. intros o Ho. exact Ho.
      + inversion Hs; subst. cbn [femit]. apply emit_list_cong; [|exact Hf].
        apply (mat_is_default_any sc Hopt f (PList l0) (PList l) f Hm). discriminate.
    - (* dict *)
      inversion Hv'; subst d0'. split; [intros o o' _ Ho; discriminate Ho|]. intros sel.
      pose proof (mat_dict_penc f d H d0 Hg) as Hf.
      destruct v; cbn [src] in Hs; try discriminate Hs.
      + destruct (default_dict_inv sc f _ Hs) as [Hl0 _]. subst d0. apply mat_dict_nil in Hg.
        assert (d = []) by (apply Hg; reflexivity). subst d. rewrite <- Hs.
        apply femit_default_nonmsg. rewrite Hs. intros o [kv [Hin _]]. exact Hin.
      + inversion Hs; subst. cbn [femit]. apply emit_dict_cong; [|exact Hf].
        apply (mat_is_default_any sc Hopt f (PDict d0) (PDict d) f Hm). discriminate.
    - (* message *)
      inversion Hv'; subst c0 raw0' sow0 unk0 cur0. clear Hv'.
      pose proof (mat_go_frel sc GC raw H raw0 _ Hg) as Hf.
      assert (Eg : forall i, enc_go sc cur i raw (cfields (get_class sc c)) = enc_go sc cur i raw0 (cfields (get_class sc c))).
      { apply enc_go_frel. eapply frel_impl; [|exact Hf]. intros g x x' [_ [_ Hx]]. exact Hx. }
      assert (Ee : enc_obj sc (Obj c raw sow unk cur) = enc_obj sc (Obj c raw0 sow unk cur)).
      { rewrite !enc_obj_eq, Eg. reflexivity. }
      destruct v; cbn [src] in Hs; try discriminate Hs.
      + (* the default instance, with defaults written into it *)
        split; [intros o o' Ho; discriminate Ho|]. intros sel.
        destruct (default_msg_inv sc f _ Hs) as [c1 [Hh Ho]].
        cbn [femit]. rewrite Hs, Ho.
        rewrite (emit_field_ext (fun _ => Ok []) (enc_obj sc) sc f sel (PMsg (new sc c1)))
          by (intros o Hi; cbn [inside] in Hi; subst o; symmetry; apply enc_new).
        rewrite <- Ho.
        apply emit_msg_cong; [|reflexivity|exact Ee].
        apply (mat_is_default_any sc Hopt f (PMsg (Obj c raw0 sow unk cur)) (PMsg (Obj c raw sow unk cur)) f); [|discriminate].
        rewrite mat_eq. unfold src, mat_core. rewrite Nat.eqb_refl, eqb_reflx, bytes_eqb_refl, cur_same_refl. exact Hg.
      + inversion Hs; subst. split.
        * intros o o' Ho Ho'. inversion Ho; inversion Ho'; subst. exact Ee.
        * intros sel. cbn [femit]. apply emit_msg_cong; [|reflexivity|exact Ee].
          apply (mat_is_default_any sc Hopt f _ _ f Hm). discriminate.
  Qed.

  Theorem mat_obj_enc o o' : mat_obj sc o o' = true -> enc_obj sc o' = enc_obj sc o.
  Proof. intros H. unfold mat_obj in H. apply (proj1 (mat_enc _ _ _ H) o o'); reflexivity. Qed.

  (* the loop-level statements of the key lemma: the skip test and the emitted bytes of one field *)
  Lemma mat_osow f v v' :
    mat sc f v v' = true -> v <> PPlaceholder ->
    match v' with PMsg o => osow o | _ => false end = match v with PMsg o => osow o | _ => false end.
  Proof.
    intros Hm Hn. pose proof Hm as Hi. apply mat_inv in Hi. rewrite (src_id sc f v Hn) in Hi.
    destruct Hi as [[Hv _]|[(c0 & raw0 & raw0' & sow0 & unk0 & cur0 & Hs & Hv' & _)|[(l0 & l0' & Hs & Hv' & _)|[(d0 & d0' & Hs & Hv' & _)|[Hs _]]]]];
      subst; try reflexivity. contradiction Hn; reflexivity.
  Qed.

  Lemma mat_skipped f sel v v' :
    mat sc f v v' = true -> v <> PPlaceholder -> skipped sc f sel v' = skipped sc f sel v.
  Proof.
    intros Hm Hn. unfold skipped. rewrite (mat_is_default_any sc Hopt f v v' f Hm Hn), (mat_osow f v v' Hm Hn). reflexivity.
  Qed.

  Lemma mat_emit_field f sel v v' :
    mat sc f v v' = true -> v <> PPlaceholder -> v <> PNone ->
    emit_field (enc_obj sc) sc f sel v' = emit_field (enc_obj sc) sc f sel v.
  Proof.
    intros Hm Hn Hn'. pose proof (proj2 (mat_enc _ _ _ Hm) sel) as H.
    rewrite (femit_np f sel v Hn Hn') in H. rewrite femit_np in H; [exact H| |].
    - eapply mat_not_placeholder; eassumption.
    - intros ->. apply mat_inv in Hm. rewrite (src_id sc f v Hn) in Hm.
      destruct Hm as [[_ Hv]|[(c0 & raw0 & raw0' & sow0 & unk0 & cur0 & Hs & Hv' & _)|[(l0 & l0' & Hs & Hv' & _)|[(d0 & d0' & Hs & Hv' & _)|[Hs _]]]]];
        try discriminate. subst v. contradiction Hn'; reflexivity.
  Qed.
End Wf.
