(* Proofs/ImportingP9.v — C13, part 9: which references CAN be shadowed by a field of the message.
   The class namespace of a generated message holds its Python field names, i.e. values of
   pythonize_field_name = casing.safe_snake_case (Model/Casing.v).  By relative position:
     same package      the reference starts with the class name (upper-case / digit initial): never a field name;
     ancestor / root / cousin   the alias ends in "__": never a field name (safe_snake_case never yields "__");
     descendant        the alias "x" / "x_y" IS a field name: of the proto field called exactly like it.
   Hence class-scoped evaluation succeeds iff (descendant -> no field is called like the alias). *)
From BP Require Import Base.Prelude Proofs.BytesP Spec.PyImport Spec.PyImportLocals Model.Importing Model.C13Hints.
From BP Require Import Proofs.ImportingP Proofs.ImportingP2 Proofs.ImportingP3 Proofs.ImportingP4 Proofs.ImportingP5 Proofs.ImportingP7.
From BP Require Model.Casing Proofs.CasingP Proofs.CasingP2 gen.Tables.
From BP Require Import Proofs.ImportingP8.
From Coq Require Import Lia.
Local Open Scope nat_scope.

Notation field_name := Casing.safe_snake_case (only parsing).   (* naming.pythonize_field_name *)

(* ------------------------------------------------------------------ the two byte vocabularies agree *)
Lemma is_us_eqb c : Casing.is_us c = Byte.eqb c b_us.
Proof. destruct c; reflexivity. Qed.
Lemma lower_bridge c : is_lower c = Casing.is_lower_b c.
Proof. destruct c; reflexivity. Qed.
Lemma digit_bridge c : is_digit c = Casing.is_digit_b c.
Proof. destruct c; reflexivity. Qed.
Lemma ident_char_bridge c : Casing.ident_char c = is_ident_char c.
Proof. destruct c; reflexivity. Qed.

Lemma head_clash c : is_upper c || is_digit c = true -> Casing.is_lower_b c = true \/ Casing.is_us c = true -> False.
Proof. intros H [L|U]; revert H; [revert L | revert U]; destruct c; vm_compute; congruence. Qed.

(* safe_snake_case meets the hypothesis the C13 theorems make about their parameter [snake] *)
Theorem field_name_ident_chars s : ident_chars (field_name s).
Proof.
  unfold ident_chars. destruct (CasingP.safe_snake_ok s) as [I _].
  destruct (field_name s) as [|c r]; [reflexivity|].
  cbn [Casing.is_identifier] in I. apply andb_true_iff in I. destruct I as [I1 I2].
  cbn [forallb]. apply andb_true_iff. split.
  - rewrite <- ident_char_bridge. revert I1. unfold Casing.ident_start, Casing.ident_char. destruct (Casing.classify c); auto; discriminate.
  - rewrite forallb_forall in *. intros x Hx. rewrite <- ident_char_bridge. auto.
Qed.

(* ------------------------------------------------------------------ aliases ending in "__" *)
Lemma double_us_us2 a : double_us (a ++ us2) = true.
Proof.
  unfold double_us. rewrite dus_app. unfold us2. cbn [dus].
  change (Casing.is_us b_us) with true. cbn [andb orb]. rewrite !orb_true_r. reflexivity.
Qed.

Lemma not_field_of_double_us h protos : double_us h = true -> mem_name h (map field_name protos) = false.
Proof.
  intros H. apply mem_name_false. intros I. apply in_map_iff in I. destruct I as [s [E _]].
  rewrite <- E in H. rewrite safe_snake_no_double_us in H. discriminate.
Qed.

Lemma not_field_of_cls C protos : cls_startb C = true -> mem_name C (map field_name protos) = false.
Proof.
  intros H. apply mem_name_false. intros I. apply in_map_iff in I. destruct I as [s [E _]].
  destruct (safe_snake_head s) as [c [r [Es Hc]]]. rewrite Es in E. subst C. cbn [cls_startb] in H.
  exact (head_clash c H Hc).
Qed.

(* the aliases of the three upward shapes end in "__" *)
Theorem via_name_double_us snake cur tgt C :
  rel_of cur tgt = RAnc \/ rel_of cur tgt = RRoot \/ rel_of cur tgt = RCousin ->
  double_us (via_name snake cur tgt C) = true.
Proof.
  unfold via_name. intros [E|[E|E]]; rewrite E.
  - change (b_us :: repeat b_us (length cur - length tgt) ++ last tgt [] ++ us2)
      with ((b_us :: repeat b_us (length cur - length tgt)) ++ last tgt [] ++ us2).
    rewrite app_assoc. apply double_us_us2.
  - rewrite app_assoc. apply double_us_us2.
  - cbv zeta. rewrite app_assoc. apply double_us_us2.
Qed.

(* ------------------------------------------------------------------ the exact condition for FIELD names *)
Section Fields.
  Variable cls_name : list byte -> list byte.
  Variable snake : list byte -> list byte.
  Variable optional : list byte -> list byte.
  Hypothesis snake_chars : forall s, ident_chars (snake s).

  Theorem locals_fields_exact (w : world) (root : path) (cur tgt : path) T (unwrap pyd : bool) (protos : list (list byte)) :
    root <> [] ->
    pkg_okb cur = true -> pkg_okb tgt = true -> type_okb T = true ->
    path_eqb (firstn 1 tgt) [s_betterproto] = false ->
    path_eqb tgt google_protobuf = false ->
    identb (cls_name T) = true -> cls_startb (cls_name T) = true ->
    world_has w root tgt (cls_name T) ->
    (denotes_with_locals w (root ++ cur) (map field_name protos)
       (get_type_reference cls_name snake optional (py_join b_dot cur) (b_dot :: py_join b_dot (tgt ++ [T])) unwrap pyd)
       (VCls (root ++ tgt) (cls_name T))
     <-> (rel_of cur tgt = RDesc ->
          mem_name (py_join b_us (skipn (length cur) tgt)) (map field_name protos) = false)).
  Proof.
    intros Hroot Hcur Htgt HT Hbp Hg HC HCs W.
    rewrite (locals_exact cls_name snake optional snake_chars w root cur tgt T unwrap pyd _ Hroot Hcur Htgt HT Hbp Hg HC W).
    destruct (rel_of cur tgt) eqn:R.
    - unfold via_name. rewrite R. split; [intros _ D; discriminate | intros _; apply not_field_of_cls, HCs].
    - unfold via_name. rewrite R. split; [intros H _; exact H | intros H; apply H; reflexivity].
    - split; [intros _ D; discriminate | intros _]. apply not_field_of_double_us, via_name_double_us. left. exact R.
    - split; [intros _ D; discriminate | intros _]. apply not_field_of_double_us, via_name_double_us. right. left. exact R.
    - split; [intros _ D; discriminate | intros _]. apply not_field_of_double_us, via_name_double_us. right. right. exact R.
  Qed.

  (* every shape but the descendant one: unconditional *)
  Corollary locals_fields_upward (w : world) (root : path) (cur tgt : path) T (unwrap pyd : bool) (protos : list (list byte)) :
    root <> [] ->
    pkg_okb cur = true -> pkg_okb tgt = true -> type_okb T = true ->
    path_eqb (firstn 1 tgt) [s_betterproto] = false ->
    path_eqb tgt google_protobuf = false ->
    identb (cls_name T) = true -> cls_startb (cls_name T) = true ->
    world_has w root tgt (cls_name T) ->
    rel_of cur tgt <> RDesc ->
    denotes_with_locals w (root ++ cur) (map field_name protos)
      (get_type_reference cls_name snake optional (py_join b_dot cur) (b_dot :: py_join b_dot (tgt ++ [T])) unwrap pyd)
      (VCls (root ++ tgt) (cls_name T)).
  Proof.
    intros Hroot Hcur Htgt HT Hbp Hg HC HCs W R.
    apply (locals_fields_exact w root cur tgt T unwrap pyd protos); try assumption. intros D. contradiction.
  Qed.

  (* betterproto's own evaluation (empty locals) never depends on the class namespace *)
  Theorem module_resolution_unaffected (w : world) (root : path) (cur tgt : path) T (unwrap pyd : bool) (cls_namespace : list name) :
    root <> [] ->
    pkg_okb cur = true -> pkg_okb tgt = true -> type_okb T = true ->
    path_eqb (firstn 1 tgt) [s_betterproto] = false ->
    path_eqb tgt google_protobuf = false ->
    identb (cls_name T) = true ->
    world_has w root tgt (cls_name T) ->
    betterproto_hint w (root ++ cur) cls_namespace
      (get_type_reference cls_name snake optional (py_join b_dot cur) (b_dot :: py_join b_dot (tgt ++ [T])) unwrap pyd)
    = Some (VCls (root ++ tgt) (cls_name T)).
  Proof.
    intros Hroot Hcur Htgt HT Hbp Hg HC W. unfold betterproto_hint, type_hints_localns.
    apply denotes_locals_eval. apply denotes_with_locals_nil. apply resolves_gen; assumption.
  Qed.

  (* ... and the class-scoped one is the exact condition, in computable form *)
  Theorem class_scope_hint_exact (w : world) (root : path) (cur tgt : path) T (unwrap pyd : bool) (cls_namespace : list name) :
    root <> [] ->
    pkg_okb cur = true -> pkg_okb tgt = true -> type_okb T = true ->
    path_eqb (firstn 1 tgt) [s_betterproto] = false ->
    path_eqb tgt google_protobuf = false ->
    identb (cls_name T) = true ->
    world_has w root tgt (cls_name T) ->
    class_scope_hint w (root ++ cur) cls_namespace
      (get_type_reference cls_name snake optional (py_join b_dot cur) (b_dot :: py_join b_dot (tgt ++ [T])) unwrap pyd)
    = if mem_name (via_name snake cur tgt (cls_name T)) cls_namespace then None else Some (VCls (root ++ tgt) (cls_name T)).
  Proof.
    intros Hroot Hcur Htgt HT Hbp Hg HC W. unfold class_scope_hint, class_scope_localns.
    destruct (mem_name (via_name snake cur tgt (cls_name T)) cls_namespace) eqn:M.
    - destruct (eval_ref_locals w (root ++ cur) cls_namespace _) as [v|] eqn:E; [|reflexivity]. exfalso.
      apply denotes_locals_eval in E. revert E.
      apply (locals_shadowed_none cls_name snake optional snake_chars); assumption.
    - apply denotes_locals_eval.
      apply (locals_exact cls_name snake optional snake_chars w root cur tgt T unwrap pyd cls_namespace); assumption.
  Qed.
End Fields.

(* ------------------------------------------------------------------ descendant aliases ARE field names *)
Lemma join_py_join l : Casing.join [Casing.us] l = py_join b_us l.
Proof.
  induction l as [|a l IH]; [reflexivity|]. destruct l as [|b l]; [reflexivity|].
  change (Casing.join [Casing.us] (a :: b :: l)) with (a ++ [Casing.us] ++ Casing.join [Casing.us] (b :: l)).
  rewrite IH. reflexivity.
Qed.

Lemma plain_shape_split s : plain_shape s = true -> exists l d, s = l ++ d /\ CasingP.lows l /\ CasingP.digs d.
Proof.
  induction s as [|c r IH]; cbn [plain_shape].
  - intros _. exists [], []. repeat split; reflexivity.
  - destruct (is_lower c) eqn:L.
    + intros H. destruct (IH H) as [l [d [E [Hl Hd]]]]. exists (c :: l), d. split; [cbn [app]; congruence|]. split; [|exact Hd].
      unfold CasingP.lows in *. cbn [forallb]. rewrite <- lower_bridge, L, Hl. reflexivity.
    + intros H. exists [], (c :: r). split; [reflexivity|]. split; [reflexivity|].
      unfold CasingP.digs. rewrite forallb_forall in *. intros x Hx. rewrite <- digit_bridge. auto.
Qed.

Lemma plain_seg_lword s : plain_segb s = true -> CasingP.lword s.
Proof.
  unfold plain_segb. intros H.
  apply andb_true_iff in H. destruct H as [H _]. apply andb_true_iff in H. destruct H as [H _].
  apply andb_true_iff in H. destruct H as [Hl Hs].
  destruct (plain_shape_split s Hs) as [l [d [E [Ll Ld]]]]. exists l, d. repeat split; try assumption.
  destruct s; [discriminate Hl | discriminate].
Qed.

(* the keywords of the live interpreter (gen/Tables.v, used by the casing model) are keywords of Spec/PyImport.v *)
Lemma kwlist_subset : forallb PyImport.is_keyword Tables.kwlist = true.
Proof. vm_compute. reflexivity. Qed.

Lemma casing_keyword_py x : Casing.is_keyword x = true -> PyImport.is_keyword x = true.
Proof.
  intros H. apply CasingP.is_keyword_in in H. pose proof kwlist_subset as S. rewrite forallb_forall in S. auto.
Qed.

Theorem desc_alias_is_field_name (rest : path) :
  rest <> [] -> plain_pkgb rest = true -> field_name (py_join b_us rest) = py_join b_us rest.
Proof.
  intros Hn Hp. rewrite <- join_py_join.
  assert (F : Forall CasingP.lword rest).
  { unfold plain_pkgb in Hp. rewrite forallb_forall in Hp. apply Forall_forall. intros x Hx. apply plain_seg_lword. auto. }
  pose proof (plain_pkg_facts _ Hp) as PF.
  apply safe_snake_join_fix; [exact F | |].
  - rewrite join_py_join. destruct (join_us_start rest Hn PF) as [c [r [E L]]]. exists c, r. split; [exact E|].
    rewrite <- lower_bridge. exact L.
  - destruct rest as [|a [|b l]]; [congruence| |].
    + cbn [Casing.join]. destruct (Casing.is_keyword a) eqn:K; [|reflexivity]. exfalso.
      apply casing_keyword_py in K. unfold plain_pkgb in Hp. cbn [forallb] in Hp. rewrite andb_true_r in Hp.
      unfold plain_segb in Hp. apply andb_true_iff in Hp. destruct Hp as [Hp _]. apply andb_true_iff in Hp. destruct Hp as [_ Hk].
      rewrite K in Hk. discriminate.
    + apply has_us_not_keyword. rewrite join_py_join. apply existsb_exists. exists b_us. split; [|reflexivity].
      rewrite py_join_cons by discriminate. apply in_or_app. right. left. reflexivity.
Qed.

Lemma rel_of_desc (cur rest : path) : rest <> [] -> rel_of cur (cur ++ rest) = RDesc.
Proof.
  intros Hn. unfold rel_of.
  assert (E1 : path_eqb (cur ++ rest) cur = false).
  { apply path_eqb_neq. intros E. apply (f_equal (@length _)) in E. rewrite app_length in E.
    destruct rest; [congruence | cbn [length] in E; lia]. }
  rewrite E1, firstn_length_app, path_eqb_refl. reflexivity.
Qed.

(* every plain descendant reference is shadowed by the proto field called exactly like its alias *)
Section Collide.
  Variable cls_name : list byte -> list byte.
  Variable snake : list byte -> list byte.
  Variable optional : list byte -> list byte.
  Hypothesis snake_chars : forall s, ident_chars (snake s).

  Theorem desc_field_collides (w : world) (P : path) (cur rest : path) T (unwrap pyd : bool) (protos : list (list byte)) v :
    plain_pkgb cur = true -> plain_pkgb rest = true -> rest <> [] -> type_okb T = true ->
    path_eqb (cur ++ rest) google_protobuf = false ->
    identb (cls_name T) = true ->
    In (py_join b_us rest) protos ->
    ~ denotes_with_locals w P (map field_name protos)
        (get_type_reference cls_name snake optional (py_join b_dot cur) (b_dot :: py_join b_dot ((cur ++ rest) ++ [T])) unwrap pyd) v.
  Proof.
    intros Pc Pr Hn HT Hg HC Hin.
    assert (Pt : plain_pkgb (cur ++ rest) = true) by (apply plain_pkgb_app; split; assumption).
    apply (locals_shadowed_none cls_name snake optional snake_chars); try assumption.
    - apply plain_pkg_ok, Pc.
    - apply plain_pkg_ok, Pt.
    - apply plain_not_betterproto, Pt.
    - unfold via_name. rewrite rel_of_desc by exact Hn. rewrite skipn_length_app.
      apply mem_name_In. apply in_map_iff. exists (py_join b_us rest). split; [|exact Hin].
      apply desc_alias_is_field_name; assumption.
  Qed.
End Collide.
